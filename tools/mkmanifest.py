#!/usr/bin/env python3
"""Writes /verif/MANIFEST.json from tools/props.py (single source of truth) and validates it against the schema if jsonschema is available."""
import json, os, sys
ROOT = os.path.dirname(os.path.dirname(os.path.abspath(__file__)))
sys.path.insert(0, os.path.join(ROOT, "tools"))
from props import PROPS
try:
    from props import NOT_APPLICABLE
except ImportError:
    NOT_APPLICABLE = {}
ids = [json.loads(l)["id"] for l in open(os.path.join(ROOT, "properties.jsonl"))]
checks = []
for pid in ids:
    if pid not in PROPS:
        continue
    p = PROPS[pid]
    checks.append({
        "property_id": pid,
        "quick_cmd": "./check %s --tier quick" % pid,
        "thorough_cmd": "./check %s --tier thorough" % pid,
        "evidence_file": "/verif/evidence/%s.json" % pid,
        "replay_cmd_template": "./check replay {path}",
        "engine": "lean4-proof",
        "level_claimed": {
            "category": "proof",
            "text": p.get("level_text", p.get("explanation", "")),
            "design_ref": "DESIGN.md §4 " + pid,
        },
        "level_note": p.get("level_note", "Trusted: Lean 4.33 kernel; axioms propext/Quot.sound/Classical.choice only (audited every run); "
                            "the model-to-code tie: " + p.get("tie", "")),
        "technique": p.get("technique", "Lean 4 theorem over a model tied to the source on every run"),
    })
na = [{"property_id": pid, "reason": NOT_APPLICABLE.get(pid, "check not built yet in this session (work in progress; the design claims it, see DESIGN.md)")}
      for pid in ids if pid not in PROPS]
m = {
    "version": 1,
    "setup_cmd": "./check setup",
    "hooks": {
        "guard": "verif",
        "enable": "go build -tags verif (the harness builds /repo with the tag; no hook file is needed so far)",
        "baseline_off_cmd": "/verif/tools/baseline.sh /repo",
        "source_commits": [],
        "add_only": True,
    },
    "engines": [{
        "name": "lean4-proof",
        "path": "/verif/lean",
        "serves_properties": [c["property_id"] for c in checks],
        "kind_free_text": "Lean 4.33 theorems (core only) about models regenerated from the Go source by harness/cmd/gotolean or "
                          "hand-written and differentially tied to the Go code by harness/cmd/vh through the compiled driver lean/ModelDrv.lean",
    }],
    "checks": checks,
    "not_applicable": na,
    "notes": "Orchestrator: ./check <Cnn> --tier quick|thorough (python3 stdlib). Known findings: known_findings.json. Design: DESIGN.md.",
}
json.dump(m, open(os.path.join(ROOT, "MANIFEST.json"), "w"), indent=1)
try:
    import jsonschema
    jsonschema.validate(m, json.load(open("/root/.vp/MANIFEST.schema.json")))
    print("MANIFEST.json valid;", len(checks), "checks,", len(na), "not claimed")
except ImportError:
    print("MANIFEST.json written (jsonschema not available for validation)")
