#!/usr/bin/env python3
"""confirm seeded changes independently in a scratch worktree: patch applies to a clean HEAD, builds, baseline passes with it,
the demonstration fails with it and passes without it.  usage: seedverify.py <outdir> [Cxx ...]  (prints one line per patch)"""
import subprocess, sys, os, glob, json, re, shutil
out = sys.argv[1]; only = set(sys.argv[2:])
WT = '/tmp/wtverify'
ENV = dict(os.environ, GOFLAGS='-mod=mod', GOPROXY='off', GOSUMDB='off', GOTOOLCHAIN='local')
def sh(cmd, cwd=None, timeout=1800):
    p = subprocess.run(cmd, cwd=cwd, env=ENV, shell=isinstance(cmd, str), stdout=subprocess.PIPE, stderr=subprocess.STDOUT, text=True, timeout=timeout)
    return p.returncode, p.stdout
if not os.path.isdir(WT):
    sh(['git', '-C', '/repo', 'worktree', 'add', '-q', '--detach', WT, 'HEAD'])
def clean():
    sh(['git', '-C', WT, 'checkout', '--', '.']); sh(['git', '-C', WT, 'clean', '-fdq'])
for d in sorted(glob.glob(os.path.join(out, 'C*'))):
    pid = os.path.basename(d)
    if only and pid not in only: continue
    for pf in sorted(glob.glob(os.path.join(d, 'patch*.diff'))):
        k = re.search(r'patch(\d+)\.diff', pf).group(1)
        clean()
        meta = {}
        try: meta = json.load(open(os.path.join(d, 'meta%s.json' % k)))
        except Exception as e: pass
        loc = meta.get('demo_location', '.').strip('/') or '.'
        demos = glob.glob(os.path.join(d, 'demo%s*' % k))
        gofiles = [g for g in demos if g.endswith('.go')]
        def place():
            names = []
            for g in gofiles:
                os.makedirs(os.path.join(WT, loc), exist_ok=True)
                shutil.copy(g, os.path.join(WT, loc, os.path.basename(g))); names.append(os.path.basename(g))
            return names
        def rundemo():
            names = place()
            if any(n.endswith('_test.go') for n in names):
                tests = []
                for g in gofiles: tests += re.findall(r'^func (Test\w+)\(', open(g).read(), flags=re.M)
                rc, o = sh(['go', 'test', '-vet=off', '-count=1', '-run', '^(' + '|'.join(tests) + ')$', './' + loc], cwd=WT)
            else:
                rc, o = sh(['go', 'run'] + [os.path.join(loc, n) for n in names], cwd=WT)
            return rc, o
        rc0, o0 = rundemo()               # unchanged tree: must pass
        clean()
        rc, o = sh(['git', '-C', WT, 'apply', pf])
        if rc != 0:
            print(pid, k, 'APPLY-FAILED', o.strip()[:200]); continue
        touched = sh(['git', '-C', WT, 'diff', '--name-only'])[1].split()
        rcb, ob = sh(['bash', '/verif/tools/baseline.sh', WT])
        rc1, o1 = rundemo()               # changed tree: must fail
        ok = rc0 == 0 and rcb == 0 and rc1 != 0 and not any(t.endswith('_test.go') for t in touched)
        print(pid, k, 'CONFIRMED' if ok else 'REJECTED', 'demo_clean=%d baseline=%d demo_patched=%d' % (rc0, rcb, rc1), ob.strip().splitlines()[0] if ob.strip() else '', 'files=' + ','.join(touched))
        if not ok:
            print('   clean-run tail:', o0.strip()[-300:].replace('\n', ' | '))
            print('   patched-run tail:', o1.strip()[-300:].replace('\n', ' | '))
clean()
