#!/usr/bin/env python3
"""Rebuild seeded/RESULTS.md from the recorded outcomes in seeded/<id>/meta.json (written by seedimport.py / seedregress.py): one row per
seeded change — property, what the property's quick check reported the last time it was run against the change."""
import glob, json, os
VERIF = os.path.dirname(os.path.dirname(os.path.abspath(__file__)))
rows = []
for d in sorted(glob.glob(os.path.join(VERIF, "seeded", "C*"))):
    sid = os.path.basename(d)
    try:
        m = json.load(open(os.path.join(d, "meta.json")))
    except Exception:
        continue
    prop = m.get("property") or sid[:3]
    det, inp = m.get("detected"), m.get("with_failing_input")
    verdict = "failing input" if det and inp else ("no-failing-input-found" if det else ("MISSED" if det is False else "not re-run in the third session (reported with a failing input at the end of the second, DESIGN 13.2)"))
    rows.append((sid, prop, m.get("check_result", "?"), verdict, (m.get("summary") or "")[:110].replace("|", "/").replace("\n", " ")))
with open(os.path.join(VERIF, "seeded", "RESULTS.md"), "w") as f:
    f.write("Outcome of `./check <property>` (quick tier) against every kept seeded change, as last recorded in seeded/<id>/meta.json.\n\n")
    f.write("| seed | property | exit | reported as | change |\n|---|---|---|---|---|\n")
    for r in rows:
        f.write("| " + " | ".join(r) + " |\n")
    n = len(rows)
    f.write("\n%d changes: %d with a failing input, %d reported without one, %d missed.\n" % (
        n, sum(1 for r in rows if r[3] == "failing input"), sum(1 for r in rows if r[3] == "no-failing-input-found"), sum(1 for r in rows if r[3] == "MISSED")))
print(len(rows), "rows")
