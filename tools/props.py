"""Registry: which generators, Lean modules and harness components decide which property."""

MAP_AUDIT = ["SnesVerif.Props.C04", "SnesVerif.Map.Bridge", "SnesVerif.Map.PageFacts", "SnesVerif.Map.Generic"]

PROPS = {
    "C04": dict(
        gens=["map"],
        lean_targets=["SnesVerif.Props.C04"],
        audit=["SnesVerif.Props.C04", "SnesVerif.Map.Bridge", "SnesVerif.Map.PageFacts", "SnesVerif.Map.Generic"],
        vh=[("map", [])],
        tie="regenerated: gotolean translates the eight mapper functions and BankToLinear from /repo/mapping/*/mapping.go on every run; "
            "theorems are re-checked against the regenerated text; the generated defs are also executed against the Go functions",
        explanation="theorems C04.*_rightInverse and C04.*_backTranslation quantify over every 24-bit bus / pak address of each mapper; "
                    "the Go-side sweep of all 2^24 addresses is the search for a failing input when a theorem or the tie breaks",
        assumptions=["addresses are 24-bit (< 0x1000000), as the property states"],
    ),
    "C05": dict(
        gens=["map"],
        lean_targets=["SnesVerif.Props.C05"],
        audit=["SnesVerif.Props.C05", "SnesVerif.Map.Bridge", "SnesVerif.Map.PageFacts", "SnesVerif.Map.Generic"],
        vh=[("map", [])],
        tie="regenerated (as C04); the hand-written page tables lean/SnesVerif/Map/Spec.lean are the 'documented region table' of the property",
        explanation="C05.lorom/hirom/exhirom/sa1rom : Holds ... bundle the seven clauses for all 2^24 addresses in both directions",
        assumptions=["addresses are 24-bit (< 0x1000000)"],
    ),
    "C17": dict(
        gens=["color"],
        lean_targets=["SnesVerif.Props.C17"],
        audit=["SnesVerif.Props.C17", "SnesVerif.Color.Lemmas"],
        vh=[("color", [])],
        tie="regenerated: gotolean translates ToRGB, ToColor15, Luminosity and MulDiv from /repo/color15/color.go on every run",
        explanation="theorems over all colours, all channel triples, all multiplicands and all non-zero divisors (uint8/uint16 ranges as hypotheses)",
        assumptions=["divisor = 0 panics in Go and is excluded exactly as the property excludes it (the Lean model totalises x/0 = 0; the theorems keep the guard 0 < d explicit)"],
    ),
    "C13": dict(
        gens=[],
        lean_targets=["SnesVerif.Props.C13"],
        audit=["SnesVerif.Props.C13", "SnesVerif.Bus.Lemmas"],
        vh=[("bus", [])],
        search=[("bus", [])],
        tie="hand-written model lean/SnesVerif/Bus/Model.lean; correspondence: vh bus runs random Attach/read/write/dump histories on the real "
            "bus.Bus (address-logging memories), on the compiled Lean model and on a Go oracle of the property, and compares every result",
        explanation="C13.routing_follows_attach (any Attach history, by induction), attach_alignment, attach_route (outside a range unaffected), "
                    "eaDump_pointwise (count and pointwise equality with single reads for any alignment, holes untouched), out_of_space",
        assumptions=["ranges and addresses inside the 24-bit space (a Go Attach/EaDump with end >= 2^24 panics while indexing the table; excluded by hypothesis)",
                     "memories are identified by a number; a memory is handed the full bus address (the model returns (memory, address))"],
    ),
}
