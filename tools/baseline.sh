#!/bin/bash
# Runs the repository's pinned test suite (guard off) and compares the passing set with BASELINE.json's stable_pass.
# usage: baseline.sh [repo-dir]   (default /repo)
R=${1:-/repo}
export GOFLAGS=-mod=mod GOPROXY=off GOSUMDB=off GOTOOLCHAIN=local
cd "$R" || exit 2
go test -mod=mod -json -vet=off -count=1 -timeout 25m ./... > /tmp/baseline.$$.json 2>/dev/null
python3 - "$$" <<'PY'
import json,sys
pid=sys.argv[1]
base=json.load(open('/root/.vp/BASELINE.json'))
want=set(base['stable_pass'])
got=set()
for l in open(f'/tmp/baseline.{pid}.json'):
    try: e=json.loads(l)
    except: continue
    if e.get('Action')=='pass' and e.get('Test'):
        got.add(e['Package']+'::'+e['Test'])
missing=sorted(want-got)
print(f"baseline: {len(want&got)}/{len(want)} stable tests pass; {len(got-want)} extra passing")
for m in missing[:20]: print("  MISSING", m)
sys.exit(1 if missing else 0)
PY
rc=$?
rm -f /tmp/baseline.$$.json
exit $rc
