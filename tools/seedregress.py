#!/usr/bin/env python3
"""Regression over every kept seeded change: apply seeded/<id>/patch.diff to the repository (VERIF_REPO, default /repo), run the quick
check of the property it breaks (plus the checks listed in meta 'also_checks'), undo, and record the outcome in seeded/<id>/meta.json
and in seeded/RESULTS.md.  usage: seedregress.py [id-prefix ...]"""
import subprocess, sys, os, glob, json, re
REPO = os.environ.get('VERIF_REPO', '/repo')
VERIF = os.path.dirname(os.path.dirname(os.path.abspath(__file__)))
only = sys.argv[1:]
rows = []
for d in sorted(glob.glob(os.path.join(VERIF, 'seeded', 'C*'))):
    sid = os.path.basename(d)
    if only and not any(sid.startswith(p) for p in only): continue
    try: meta = json.load(open(os.path.join(d, 'meta.json')))
    except Exception: meta = {}
    prop = meta.get('property') or sid[:3]
    assert subprocess.run(['git', '-C', REPO, 'status', '--porcelain'], capture_output=True, text=True).stdout.strip() == '', 'repo dirty'
    r = subprocess.run(['git', '-C', REPO, 'apply', os.path.join(d, 'patch.diff')], capture_output=True, text=True)
    if r.returncode != 0:
        rows.append((sid, prop, 'APPLY-FAILED', r.stderr.strip()[:100])); continue
    res = {}
    try:
        for pid in [prop] + [p for p in meta.get('also_checks', []) if p != prop]:
            c = subprocess.run([os.path.join(VERIF, 'check'), pid], capture_output=True, text=True, cwd=VERIF, timeout=3600)
            out = [l for l in (c.stdout + c.stderr).strip().split('\n') if not l.startswith('WARNING')]
            last = out[-1] if out else ''
            fi = [l.strip() for l in out if 'failing input' in l][:1]
            res[pid] = {'exit': c.returncode, 'last': last[:200], 'failing_input': fi[0][:400] if fi else None}
    finally:
        subprocess.run(['git', '-C', REPO, 'checkout', '--', '.'], check=True)
        subprocess.run(['git', '-C', REPO, 'clean', '-fdq'], check=True)
        subprocess.run(['git', '-C', VERIF, 'checkout', '--', 'evidence'], check=False)
    main = res[prop]
    meta['check'] = './check %s (quick)' % prop
    meta['check_result'] = 'exit=%d' % main['exit']
    meta['check_output'] = (main['last'] + (' || ' + main['failing_input'] if main['failing_input'] else ''))[:600]
    meta['detected'] = main['exit'] == 1
    meta['with_failing_input'] = main['exit'] == 1 and 'no-failing-input-found' not in main['last']
    meta['other_checks'] = {k: ('exit=%d %s' % (v['exit'], 'with failing input' if v['failing_input'] else v['last'][-40:])) for k, v in res.items() if k != prop}
    json.dump(meta, open(os.path.join(d, 'meta.json'), 'w'), indent=1)
    rows.append((sid, prop, meta['check_result'], 'input' if meta['with_failing_input'] else ('NO-INPUT' if meta['detected'] else 'MISSED'),
                 ' '.join('%s:%s' % (k, v) for k, v in meta['other_checks'].items())))
    print(' | '.join(rows[-1]), flush=True)
if not only:
    with open(os.path.join(VERIF, 'seeded', 'RESULTS.md'), 'w') as f:
        f.write('| seed | property | quick check | replay | other checks |\n|---|---|---|---|---|\n')
        for r in rows: f.write('| ' + ' | '.join(r) + ' |\n')
