#!/usr/bin/env python3
"""copy seeded changes from the sub-agents' output dir into /verif/seeded/<id>/ and record what the check reported.
usage: seedimport.py <outdir> <results-file produced by seedtest.py> [Cxx ...]"""
import sys, os, glob, json, shutil, re
out, resf = sys.argv[1], sys.argv[2]
only = set(sys.argv[3:])
res = {}
for l in open(resf):
    p = [x.strip() for x in l.split(' | ')]
    if len(p) >= 4 and re.match(r'C\d\d$', p[0]):
        res[(p[0], p[1])] = (p[2], ' | '.join(p[3:]))
for d in sorted(glob.glob(os.path.join(out, 'C*'))):
    pid = os.path.basename(d)
    if only and pid not in only: continue
    for pf in sorted(glob.glob(os.path.join(d, 'patch*.diff'))):
        k = re.search(r'patch(\d+)\.diff', pf).group(1)
        sid = '%s-%s%s' % (pid, os.environ.get('SEED_PREFIX', ''), k)
        dst = os.path.join('/verif/seeded', sid)
        os.makedirs(dst, exist_ok=True)
        shutil.copy(pf, os.path.join(dst, 'patch.diff'))
        for g in glob.glob(os.path.join(d, 'demo%s*' % k)):
            shutil.copy(g, os.path.join(dst, os.path.basename(g).replace('demo%s' % k, 'demo')))
        meta = {}
        mf = os.path.join(d, 'meta%s.json' % k)
        if os.path.exists(mf):
            try: meta = json.load(open(mf))
            except Exception as e: meta = {'meta_unparsed': open(mf).read()[:2000]}
        meta['seed_id'] = sid
        meta['produced_by'] = 'fresh sub-agent given only the property text and a scratch worktree'
        r = res.get((pid, os.path.basename(pf)))
        if r:
            meta['check'] = './check %s (quick)' % pid
            meta['check_result'] = r[0]
            meta['check_output'] = r[1][:600]
            meta['detected'] = r[0] == 'exit=1'
            meta['with_failing_input'] = 'no-failing-input-found' not in r[1]
        json.dump(meta, open(os.path.join(dst, 'meta.json'), 'w'), indent=1)
        print(sid, meta.get('check_result'), meta.get('with_failing_input'))
