#!/usr/bin/env python3
"""apply each seeded change to /repo, run the property's check, undo; print a table.
usage: seedtest.py <dir-with-Cxx/patchK.diff> [Cxx ...]"""
import subprocess, sys, os, glob, json, re
REPO = os.environ.get('VERIF_REPO', '/repo')
VERIF = os.path.dirname(os.path.dirname(os.path.abspath(__file__)))
root = sys.argv[1]
only = set(sys.argv[2:])
rows = []
for d in sorted(glob.glob(os.path.join(root, 'C*'))):
    pid = os.path.basename(d)
    if only and pid not in only: continue
    for pf in sorted(glob.glob(os.path.join(d, 'patch*.diff'))):
        assert subprocess.run(['git','-C',REPO,'status','--porcelain'],capture_output=True,text=True).stdout.strip()=='' , 'repo dirty'
        r = subprocess.run(['git','-C',REPO,'apply',pf],capture_output=True,text=True)
        if r.returncode != 0:
            rows.append((pid, os.path.basename(pf), 'APPLY-FAILED', r.stderr.strip()[:100])); continue
        try:
            c = subprocess.run([os.path.join(VERIF, 'check'), pid], capture_output=True, text=True, cwd=VERIF, timeout=3600)
            out = (c.stdout + c.stderr).strip().split('\n')
            last = out[-1] if out else ''
            fi = [l for l in out if 'failing input' in l][:1]
            rows.append((pid, os.path.basename(pf), 'exit=%d' % c.returncode, last[:160] + (' || ' + fi[0][:200] if fi else '')))
        finally:
            subprocess.run(['git','-C',REPO,'checkout','--','.'],check=True)
            subprocess.run(['git','-C',REPO,'clean','-fdq'],check=True)
            subprocess.run(['git','-C',VERIF,'checkout','--','evidence'],check=False)  # evidence is only committed from runs on the unchanged tree
for r in rows: print(' | '.join(r))
