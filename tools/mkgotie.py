#!/usr/bin/env python3
"""Writes the routine-layer tie files lean/SnesVerif/Cpu/GoTie/Ops{Primary,Alt}{1..4}.lean: one theorem per `op_*` routine,
`Gen.CpuGo.<V>.op_x = Cpu.runP .x`, each proved by the same script (symbolic execution of both sides, Cpu/GoTie/Sym.lean).
The files are committed; re-run this after changing the script.  usage: mkgotie.py"""
import os
ROOT = os.path.join(os.path.dirname(os.path.dirname(os.path.abspath(__file__))), "lean", "SnesVerif", "Cpu", "GoTie")
PROCS = ("and ora eor asl lsr rol ror inc dec bcc bcs beq bne bmi bpl bvc bvs bra brl bit brk cop clc cld cli clv sec sed sei cmp cpx cpy "
         "dex dey inx iny jmp jsl jsr lda ldx ldy nop pha php phx phy pla plp plx ply rti rtl rts sta stx sty stz tax tay tsx txa tya "
         "txs txy tyx mvn mvp phb phd phk pea per pld plb rep sep stp tcd tcs tdc tsc trb tsb wdm xba xce").split()
CASES_MODE = {"jmp"}
ALT_BARE = {"stp"}          # cpualt names these routines without the op_ prefix
EXTRA = {"Primary": [("op_wai", "nop")], "Alt": [("wai", "nop")]}   # further table routines and the constructor procOfName gives them
def thm(v, p, fn=None):
    ns = "Gen.CpuGo." + v
    if fn is None:
        fn = p if (v == "Alt" and p in ALT_BARE) else "op_" + p
    attr = "gotie_p" if v == "Primary" else "gotie_a"
    split = "  cases hm : s.r.Mode <;> gorun [shr16, Cpu.setZN8, Cpu.setZN16]\n" if p in CASES_MODE else (
        "  gorun [shr16, Cpu.setZN8, Cpu.setZN16, Cpu.setZ8, Cpu.setZ16, Cpu.toIndex, Cpu.toAcc, Cpu.srcC, Cpu.srcX, Cpu.srcY, Cpu.compare8,\n"
        "    Cpu.compare16, Cpu.addBranchCycles]\n")
    extra = ", get_bind" if p in CASES_MODE else ""
    return (f"theorem {fn}_eq : {ns}.{fn} = Cpu.runP .{p} := by\n  funext s\n"
            f"  simp only [{ns}.{fn}, Cpu.runP, Cpu.logic, Cpu.rmw, Cpu.branchIf, Cpu.blockMove, Cpu.interruptLike,\n"
            f"    Cpu.interruptBody, Cpu.rtiBody, {attr}{extra}]\n" + split + "\n")
for v in ("Primary", "Alt"):
    n = (len(PROCS) + 3) // 4
    for k in range(4):
        chunk = PROCS[k * n:(k + 1) * n]
        txt = (f"/-\nTie, routine layer, {'cpu65c816' if v == 'Primary' else 'cpualt'} (part {k + 1} of 4): every regenerated `op_*` equals the model's routine `Cpu.runP`.\n"
               f"Written by tools/mkgotie.py (one proof script for all routines).\n-/\nimport SnesVerif.Cpu.GoTie.Flags{v}\n"
               f"namespace Cpu.GoTie.{v}\nopen Cpu Cpu.GoPrim Cpu.GoTie\nset_option maxRecDepth 100000\nset_option linter.unusedSimpArgs false\n\n")
        txt += "".join(thm(v, p) for p in chunk)
        if k == 3:
            txt += "".join(thm(v, p, fn) for fn, p in EXTRA[v])
        txt += f"end Cpu.GoTie.{v}\n"
        open(os.path.join(ROOT, f"Ops{v}{k + 1}.lean"), "w").write(txt)

# ---- the addressing switch of Step(), outlined by the translator as Step_switch1: one lemma per addressing mode
MODES = ("Absolute Absolute_X Absolute_Y Accumulator Immediate Immediate_flagM Immediate_flagX Implied DP DP_X DP_Y DP_X_Indirect DP_Indirect "
         "DP_Indirect_Long DP_Indirect_Y DP_Indirect_Long_Y Absolute_X_Indirect Absolute_Indirect Absolute_Indirect_Long Absolute_Long "
         "Absolute_Long_X BlockMove PC_Relative PC_Relative_Long Stack_Relative Stack_Relative_Indirect_Y Unknown").split()
for v in ("Primary", "Alt"):
    attr = "gotie_p" if v == "Primary" else "gotie_a"
    n = (len(MODES) + 2) // 3
    for k in range(3):
        chunk = MODES[k * n:(k + 1) * n]
        txt = (f"/-\nTie, addressing switch of Step(), {'cpu65c816' if v == 'Primary' else 'cpualt'} (part {k + 1} of 3): for each addressing mode the outlined switch\n"
               f"`Step_switch1` computes the model's (addr, ea, pageCrossed); ea is compared modulo 2^24, which is all `Step` uses of it.\n"
               f"Written by tools/mkgotie.py.\n-/\nimport SnesVerif.Cpu.GoTie.Flags{v}\n"
               f"namespace Cpu.GoTie.{v}\nopen Cpu Cpu.GoPrim Cpu.GoTie\nset_option maxRecDepth 100000\nset_option linter.unusedSimpArgs false\n\n")
        for m in chunk:
            txt += (f"theorem sw_{m} :\n    (Gen.CpuGo.{v}.Step_switch1 .{m} false 0 0 0 0 >>= fun r => pure (r.1, r.2.1, r.2.2 % 16777216)) =\n"
                    f"      (Cpu.addressing .{m} >>= fun r => pure (r.2.2, r.1, r.2.1 % 16777216)) := by\n  funext s\n"
                    f"  simp only [Gen.CpuGo.{v}.Step_switch1, Cpu.addressing, {attr}]\n"
                    f"  gorun [srcX, srcY, lin_go, zx_toNat, and_mask24, mod32_24, lin_mod32]\n\n")
        txt += f"end Cpu.GoTie.{v}\n"
        open(os.path.join(ROOT, f"Switch{v}{k + 1}.lean"), "w").write(txt)
print("written")
