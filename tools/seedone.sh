#!/bin/bash
# usage: seedone.sh <patch.diff> <Cnn> [Cmm ...]   apply to /repo, run the given checks (quick), undo
P=$1; shift
git -C /repo apply "$P" || exit 2
for c in "$@"; do
  out=$(/verif/check $c 2>&1 | grep -v "^WARNING")
  echo "$c | $(basename $(dirname $P))/$(basename $P) | $(echo "$out" | tail -1 | cut -c1-120) || $(echo "$out" | grep -m1 'failing input' | cut -c1-260)"
done
git -C /repo checkout -- . ; git -C /repo clean -fdq; git -C /verif checkout -- evidence
