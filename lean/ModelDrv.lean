/-
Line-protocol driver for the executable models (core Lean only, compiled to a native executable).
One request per line on stdin, one reply per line on stdout.  See DESIGN.md Appendix C.
-/
import SnesVerif.Gen.Map
import SnesVerif.Gen.Color
import SnesVerif.Map.Spec
import SnesVerif.Bus.Model
import SnesVerif.Rom.BusIO
import SnesVerif.Rom.Header
import SnesVerif.Asm.Model
import SnesVerif.Cpu.Impl
import SnesVerif.Cpu.InterruptModel
import SnesVerif.System.RunUntil
import SnesVerif.Cpu.Abs
import SnesVerif.Cpu.Disasm

def hexNat? (s : String) : Option Nat :=
  if s.isEmpty then none else
  s.foldl (fun acc c =>
    match acc with
    | none => none
    | some n =>
      if c.isDigit then some (n * 16 + (c.toNat - '0'.toNat))
      else if 'a' ≤ c ∧ c ≤ 'f' then some (n * 16 + (c.toNat - 'a'.toNat + 10))
      else if 'A' ≤ c ∧ c ≤ 'F' then some (n * 16 + (c.toNat - 'A'.toNat + 10))
      else none) (some 0)

def hexDigit (n : Nat) : Char :=
  if n < 10 then Char.ofNat ('0'.toNat + n) else Char.ofNat ('a'.toNat + n - 10)

partial def toHex (n : Nat) : String :=
  if n < 16 then String.singleton (hexDigit n) else toHex (n / 16) ++ String.singleton (hexDigit (n % 16))

def b01 (b : Bool) : String := if b then "1" else "0"

def mapFn (name : String) : Option (Nat → Nat × Bool) :=
  match name with
  | "lorom_b2p" => some Gen.lorom_BusAddressToPak
  | "lorom_p2b" => some Gen.lorom_PakAddressToBus
  | "hirom_b2p" => some Gen.hirom_BusAddressToPak
  | "hirom_p2b" => some Gen.hirom_PakAddressToBus
  | "exhirom_b2p" => some Gen.exhirom_BusAddressToPak
  | "exhirom_p2b" => some Gen.exhirom_PakAddressToBus
  | "sa1rom_b2p" => some Gen.sa1rom_BusAddressToPak
  | "sa1rom_p2b" => some Gen.sa1rom_PakAddressToBus
  | _ => none

def mapSpecFn (name : String) : Option (Nat → Nat × Bool) :=
  match name with
  | "lorom_b2p" => some (MapSpec.pageForm MapSpec.loromPage)
  | "lorom_p2b" => some (MapSpec.pageForm MapSpec.loromPakPage)
  | "hirom_b2p" => some (MapSpec.pageForm MapSpec.hiromPage)
  | "hirom_p2b" => some (MapSpec.pageForm MapSpec.hiromPakPage)
  | "exhirom_b2p" => some (MapSpec.pageForm MapSpec.exhiromPage)
  | "exhirom_p2b" => some (MapSpec.pageForm MapSpec.exhiromPakPage)
  | "sa1rom_b2p" => some (MapSpec.pageForm MapSpec.sa1romPage)
  | "sa1rom_p2b" => some (MapSpec.pageForm MapSpec.sa1romPakPage)
  | _ => none

/-- seeded background byte, identical to harness/internal/prng.Hash -/
def hash8 (seed : UInt64) (a : UInt32) : UInt8 :=
  let z := seed + a.toUInt64 * 0x9E3779B97F4A7C15
  let z := (z ^^^ (z >>> 30)) * 0xBF58476D1CE4E5B9
  let z := (z ^^^ (z >>> 27)) * 0x94D049BB133111EB
  let z := z ^^^ (z >>> 31)
  (z >>> 24).toUInt8

def hex2 (b : UInt8) : String :=
  String.singleton (hexDigit (b.toNat / 16)) ++ String.singleton (hexDigit (b.toNat % 16))

/-! ### bus histories -/
namespace BusDrv
open BusModel

def rdMem (m a : Nat) : UInt8 := hash8 m.toUInt64 a.toUInt32
def prefill (i : Nat) : UInt8 := (0xA5 : UInt8) ^^^ i.toUInt8

def op (b : Bus) (ws : List String) : Bus × String :=
  match ws with
  | ["A", m, s, e] =>
    match hexNat? m, hexNat? s, hexNat? e with
    | some m, some s, some e =>
      if e ≥ 16777216 then (b, "skip") else
      let r := b.attach m s e
      (r.1, match r.2 with | .ok => "ok" | .badStart => "es" | .badEnd => "ee")
    | _, _, _ => (b, "bad-op")
  | ["R", a] | ["W", a] =>
    match hexNat? a with
    | some a => (b, match b.route a with | some m => s!"m{toHex m}:{toHex a}" | none => "panic")
    | none => (b, "bad-op")
  | ["T", bank, addr] =>
    match hexNat? bank, hexNat? addr with
    | some bank, some addr =>
      (b, match b.read24 bank addr with
          | some l => ",".intercalate (l.map (fun p => s!"m{toHex p.1}:{toHex p.2}"))
          | none => "panic")
    | _, _ => (b, "bad-op")
  | ["D", s, e, n] =>
    match hexNat? s, hexNat? e, hexNat? n with
    | some s, some e, some n =>
      if s ≥ 16777216 ∨ e ≥ 16777216 then (b, "skip") else
      let r := b.eaDump rdMem s e prefill
      (b, s!"{toHex r.1}:" ++ String.join ((List.range n).map (fun j => hex2 (r.2 j))))
    | _, _, _ => (b, "bad-op")
  | _ => (b, "bad-op")

def run (ops : List String) : String :=
  let (_, outs) := ops.foldl (fun (acc : Bus × List String) o =>
    let ws := (o.splitOn " ").filter (· ≠ "")
    if ws.isEmpty then acc else
    let (b', r) := op acc.1 ws
    (b', r :: acc.2)) (Bus.empty, [])
  ";".intercalate outs.reverse
end BusDrv

/-! ### ROM reader / writer histories -/
namespace RomDrv
open RomIO

inductive Obj | nothing | alwaysErr | reader (r : Reader) | writer (w : Writer)

structure St where
  img : Image
  size : Nat
  obj : Obj               -- the object in the current slot
  touched : List Nat      -- offsets written by accepted writes (newest first)
  cur : Nat := 0
  /-- the objects parked in the other slots (several readers / writers of one ROM are alive at the same time) -/
  parked : Nat → Obj := fun _ => .nothing

def errStr : Err → String
  | .none => "nil" | .eof => "EOF" | .unexpectedEOF => "UEOF"

def op (st : St) (ws : List String) : St × String :=
  match ws with
  | ["O", k, a] =>
    match hexNat? a with
    | some a =>
      if k == "r" then
        match openReader a with
        | none => ({ st with obj := .alwaysErr }, "err")
        | some r => if r.end_ > st.size ∨ r.start > r.end_ then ({ st with obj := .nothing }, "panic")
                    else ({ st with obj := .reader r }, s!"win {toHex r.start} {toHex r.end_}")
      else
        match openWriter a with
        | none => ({ st with obj := .alwaysErr }, "err")
        | some w => ({ st with obj := .writer w }, s!"win {toHex w.start} {toHex w.end_}")
    | none => (st, "bad-op")
  | ["R", n] =>
    match hexNat? n with
    | some n =>
      match st.obj with
      | .alwaysErr => (st, "0 UEOF ")
      | .reader r =>
        let t := r.read st.img n
        ({ st with obj := .reader t.1 }, s!"{toHex t.2.1.length} {errStr t.2.2} " ++ String.join (t.2.1.map hex2))
      | _ => (st, "noobj")
    | none => (st, "bad-op")
  | ["W", n, vs] =>
    match hexNat? n, hexNat? vs with
    | some n, some vs =>
      let p := (List.range n).map (fun j => hash8 vs.toUInt64 j.toUInt32)
      match st.obj with
      | .alwaysErr => (st, "0 UEOF")
      | .writer w =>
        let t := w.write st.img p
        -- Go slices Contents[lo:hi] before copying: out-of-range bounds panic
        let lo := Gen.rom_busWriter_lo w.o w.start w.end_
        let hi := Gen.rom_busWriter_hi w.o w.start w.end_
        if t.2.2.2 == .none ∧ (hi > st.size ∨ lo > hi) then (st, "panic") else
        let tch := if t.2.2.2 == .none then (List.range t.2.2.1).map (fun j => lo + j) else []
        ({ st with obj := .writer t.1, img := t.2.1, touched := tch.reverse ++ st.touched },
          s!"{toHex t.2.2.1} {errStr t.2.2.2}")
      | _ => (st, "noobj")
    | _, _ => (st, "bad-op")
  | ["S", k] =>
    match hexNat? k with
    | some k =>
      if k == st.cur then (st, "ok") else
      let parked' : Nat → Obj := fun i => if i == st.cur then st.obj else st.parked i
      ({ st with obj := st.parked k, cur := k, parked := parked' }, "ok")
    | none => (st, "bad-op")
  | ["F"] =>
    let offs := (st.touched.reverse.eraseDups)
    (st, "mods " ++ ",".intercalate (offs.map (fun a => s!"{toHex a}={hex2 (st.img a)}")))
  -- the caller prepares the image itself (header fields etc.): one byte / a hashed run; not a write through a writer
  | ["P", a, v] =>
    match hexNat? a, hexNat? v with
    | some a, some v => ({ st with img := overwrite st.img a [UInt8.ofNat v] }, "ok")
    | _, _ => (st, "bad-op")
  | ["Q", a, n, vs] =>
    match hexNat? a, hexNat? n, hexNat? vs with
    | some a, some n, some vs =>
      ({ st with img := overwrite st.img a ((List.range n).map (fun j => hash8 vs.toUInt64 j.toUInt32)) }, "ok")
    | _, _, _ => (st, "bad-op")
  -- the ROM object is (re)built through NewROM / its parsed Header is edited by the caller: the readers and writers of the
  -- model do not depend on the parsed header at all
  | ["N"] => (st, "ok")
  | ["H", _, _] => (st, "ok")
  | _ => (st, "bad-op")

def run (size seed : Nat) (ops : List String) : String :=
  let st0 : St := { img := fun a => hash8 seed.toUInt64 a.toUInt32, size := size, obj := .nothing, touched := [] }
  let (_, outs) := ops.foldl (fun (acc : St × List String) o =>
    let ws := (o.splitOn " ").filter (· ≠ "")
    if ws.isEmpty then acc else
    let (s', r) := op acc.1 ws
    (s', r :: acc.2)) (st0, [])
  ";".intercalate outs.reverse
end RomDrv

/-! ### header -/
namespace HdrDrv
open HeaderModel Gen

def hexBytes? (s : String) : Option (List UInt8) :=
  if s == "-" then some [] else
  let cs := s.toList
  if cs.length % 2 ≠ 0 then none else
  let rec go : List Char → Option (List UInt8)
    | a :: b :: rest =>
      match hexNat? (String.ofList [a, b]), go rest with
      | some v, some r => some (UInt8.ofNat v :: r)
      | _, _ => none
    | _ => some []
  go cs

def bytesHex (bs : List UInt8) : String := String.join (bs.map hex2)

def showVals : List Leaf → List Val → List String
  | l :: ls, v :: vs =>
    (match v with
     | .num n => s!"{l.path}={toHex n}"
     | .arr bs => s!"{l.path}=[{bytesHex bs}]") :: showVals ls vs
  | _, _ => []

def showHeader (h : Header) : String :=
  s!"v={h.version} " ++ " ".intercalate (showVals headerLeaves h.vals)

def run (ws : List String) : String :=
  match ws with
  | ["parse", hx] =>
    match hexBytes? hx with
    | some bs => match parse bs with | some h => showHeader h | none => "err"
    | none => "bad-op"
  | ["ser", hx] =>
    match hexBytes? hx with
    | some bs => match parse bs with | some h => bytesHex (serialise h) | none => "err"
    | none => "bad-op"
  | ["romw", sz, sd, ha, hb] =>
    -- image of `sz` bytes (seeded background) carrying header A; the header parsed from B is written into it
    match hexNat? sz, hexNat? sd, hexBytes? ha, hexBytes? hb with
    | some sz, some sd, some a, some b =>
      if sz < romMinSize then "too-small" else
      let bg := (List.range sz).map (fun i => hash8 sd.toUInt64 i.toUInt32)
      let img := splice bg romHeaderOffset a
      match romReadHeader img, parse b with
      | some h0, some hB =>
        let img' := romWriteHeader img hB
        let same := img' == img
        let outside := (img'.take romHeaderOffset == img.take romHeaderOffset) &&
                       (img'.drop (romHeaderOffset + 80) == img.drop (romHeaderOffset + 80)) && img'.length == img.length
        s!"v0={h0.version} same={b01 same} outside={b01 outside} hdr={bytesHex ((img'.drop romHeaderOffset).take 80)}"
      | _, _ => "err"
    | _, _, _, _ => "bad-op"
  | _ => "bad-op"
end HdrDrv

/-! ### emitter histories -/
namespace AsmDrv
open AsmModel Gen

structure St where
  orig : Em
  cl : Option Em       -- the clone, while one exists
  onClone : Bool       -- which emitter receives the operations

def cur (s : St) : Em := if s.onClone then s.cl.getD s.orig else s.orig
def setCur (s : St) (e : Em) : St := if s.onClone && s.cl.isSome then { s with cl := some e } else { s with orig := e }

def capOf (w : String) : Option (Option Nat) :=
  if w == "nil" then some none else (hexNat? w).map some

def resStr : Res → String | .ok => "ok" | .refused => "refused"

def kindStr : LineKind → String
  | .ins1 => "i1" | .ins2 | .ins2Label => "i2" | .ins3 | .ins3Label => "i3" | .ins4 => "i4"
  | .base => "base" | .db => "db" | .comment => "cm" | .label => "lb"

def recStr (hex : Bool) (r : Rec) : String :=
  let showAddr := r.kind == .base || (!hex && r.kind != .comment && r.kind != .label)
  let addr := if showAddr then toHex r.address else ""
  s!"{kindStr r.kind}@{addr}:" ++ String.join (r.bytes.map (fun b => hex2 (UInt8.ofNat b))) ++ ":" ++
    (match r.kind with | .ins2Label | .ins3Label => (if hex then "" else "") | _ => r.text)

def sortStrs (l : List String) : List String := (l.toArray.qsort (· < ·)).toList

def query (e : Em) (names : List String) : String :=
  let labs := names.filterMap (fun n => (lookup e.labels n).map (fun v => s!"{n}={toHex v}"))
  s!"n={toHex e.code.length} pc={toHex e.address} fl={toHex e.flags} m16={b01 (isM16 e.flags)} x16={b01 (isX16 e.flags)} base={toHex e.base} " ++
    "b=" ++ String.join (e.code.map (fun b => hex2 (UInt8.ofNat b))) ++ " lab=" ++ ",".intercalate (sortStrs labs)

def op (s : St) (names : List String) (ws : List String) : St × String :=
  let e := cur s
  match ws with
  | "I" :: mname :: rest =>
    match asmMethods.find? (fun m => m.name == mname) with
    | none => (s, "nomethod")
    | some m =>
      if m.params == [0] then
        let r := ins e m [] (rest.headD "")
        (setCur s r.1, resStr r.2)
      else
        let args := rest.filterMap hexNat?
        let r := ins e m args ""
        (setCur s r.1, resStr r.2)
  | ["B", hx] =>
    match HdrDrv.hexBytes? hx with
    | some bs => let r := emitBytes e (bs.map (·.toNat)); (setCur s r.1, resStr r.2)
    | none => (s, "bad-op")
  | ["L", name] => let r := label e name; (setCur s r.1, resStr r.2 ++ (if r.2 == .ok then " " ++ toHex e.address else ""))
  | ["C", txt] => (setCur s (comment e txt), "ok")
  -- a label / comment of zero characters arrives as the bare letter (fields are separated by blanks)
  | ["L"] => let r := label e ""; (setCur s r.1, resStr r.2 ++ (if r.2 == .ok then " " ++ toHex e.address else ""))
  | ["C"] => (setCur s (comment e ""), "ok")
  | ["S", a] => match hexNat? a with | some a => (setCur s (setBase e a), "ok") | none => (s, "bad-op")
  | ["F"] =>
    let r := finalize e
    (setCur s r.1, match r.2 with | .ok => "ok" | .unresolved _ => "unresolved" | .tooFar _ _ => "toofar" | .crash => "crash")
  | ["K", c] =>
    match capOf c with
    | some c => ({ s with cl := some (clone s.orig c), onClone := true }, "ok")
    | none => (s, "bad-op")
  | ["T", w] => ({ s with onClone := (w == "c") }, "ok")
  | ["A"] =>
    match s.cl with
    | none => (s, "noclone")
    | some c => let r := append s.orig c; ({ s with orig := r.1, onClone := false }, resStr r.2)
  | ["Q"] => (s, query e names)
  | ["H"] => (s, match hexRecords e with | some rs => "|".intercalate (rs.map (recStr true)) | none => "panic")
  | ["X"] => (s, match textRecords e with | some rs => "|".intercalate (rs.map (recStr false)) | none => "panic")
  | _ => (s, "bad-op")

/-- `enc <Method> <args..>`: the bytes the name-derived specification demands, and the bytes of the regenerated row -/
def enc (ws : List String) : String :=
  match ws with
  | mname :: rest =>
    match asmMethods.find? (fun m => m.name == mname) with
    | none => "nomethod"
    | some m =>
      let args := rest.filterMap hexNat?
      let model := m.bytes.map (AsmExpect.evalB args)
      let spec := match AsmExpect.expect m.mnemonic m.suffix (m.params == [0]) with
        | none => "noexpect"
        | some e => match Spec.opcodeOf e.mn e.mode with
          | none => "noopcode"
          | some op => String.join ((op :: AsmExpect.operandBytes e.operand args).map (fun b => hex2 (UInt8.ofNat b)))
      spec ++ " " ++ String.join (model.map (fun b => hex2 (UInt8.ofNat b)))
  | [] => "bad-op"

def run (capW textW : String) (ops : List String) : String :=
  match capOf capW with
  | none => "bad-op"
  | some c =>
    let opsW := ops.map (fun o => (o.splitOn " ").filter (· ≠ ""))
    -- label names mentioned anywhere in the history (for the label part of queries)
    let names := (opsW.filterMap (fun ws => match ws with
      | ["L", n] => some n
      | ["L"] => some ""
      | _ => none)).eraseDups
    let st0 : St := ⟨newEmitter c (textW == "1"), none, false⟩
    let (_, outs) := opsW.foldl (fun (acc : St × List String) ws =>
      if ws.isEmpty then acc else
      let (s', r) := op acc.1 names ws
      (s', r :: acc.2)) (st0, [])
    ";".intercalate outs.reverse
end AsmDrv

/-! ### CPU cases -/
namespace CpuDrv
open Cpu

def flagsStr (c : Regs) : String :=
  String.join ([c.N, c.V, c.M, c.X, c.D, c.I, c.Z, c.C].map b01)

/-- canonical rendering, identical to harness/internal/cpuh Regs.Canon -/
def canon (c : Regs) : String :=
  s!"{toHex c.PC.toNat} {toHex c.SP.toNat} {toHex c.RA.toNat} {toHex c.RX.toNat} {toHex c.RY.toNat} {toHex c.RD.toNat} " ++
  s!"{toHex c.RAh.toNat} {toHex c.RAl.toNat} {toHex c.RXl.toNat} {toHex c.RYl.toNat} {toHex c.RDBR.toNat} {toHex c.RK.toNat} " ++
  s!"{flagsStr c} {b01 c.E} {b01 c.B} {toHex c.Cycles.toNat} {toHex c.AllCycles.toNat} {b01 c.Stopped} {toHex c.WDM.toNat}"

def parseRegs (ws : List String) : Option Regs :=
  match ws.mapM hexNat? with
  | some [pc, sp, ra, rx, ry, rd, rah, ral, rxl, ryl, rdbr, rk, fl, e, b, cyc, all, st, wdm] =>
    -- `fl` is the 8 flag characters read as a hex number of 0/1 digits: N V M X D I Z C
    let f (i : Nat) : Bool := (fl / (16 ^ i)) % 16 == 1
    some { PC := BitVec.ofNat 16 pc, SP := BitVec.ofNat 16 sp, RA := BitVec.ofNat 16 ra, RX := BitVec.ofNat 16 rx,
           RY := BitVec.ofNat 16 ry, RD := BitVec.ofNat 16 rd, RAh := BitVec.ofNat 8 rah, RAl := BitVec.ofNat 8 ral,
           RXl := BitVec.ofNat 8 rxl, RYl := BitVec.ofNat 8 ryl, RDBR := BitVec.ofNat 8 rdbr, RK := BitVec.ofNat 8 rk,
           N := f 7, V := f 6, M := f 5, X := f 4, D := f 3, I := f 2, Z := f 1, C := f 0,
           B := b == 1, E := e == 1, Cycles := BitVec.ofNat 8 cyc, AllCycles := BitVec.ofNat 64 all, Stopped := st == 1,
           WDM := BitVec.ofNat 8 wdm, PPC := 0, PRK := 0, stepPC := 0, EA := 0, Addr := 0, Mode := .Implied }
  | _ => none

def sortNats (l : List Nat) : List Nat := (l.toArray.qsort (· < ·)).toList

def writesStr (m : Mem) : String :=
  ",".intercalate ((sortNats m.wlog.eraseDups).map (fun a => s!"{toHex a}={toHex (m.f a).toNat}"))

def parseOvl (s : String) : List (Nat × Nat) :=
  if s == "-" then [] else
  (s.splitOn ",").filterMap (fun kv => match kv.splitOn "=" with
    | [a, v] => match hexNat? a, hexNat? v with | some a, some v => some (a, v) | _, _ => none
    | _ => none)

/-- `cpu <p|a> <steps> <19 register fields> <seed> <ovl>`: state and written bytes after every step -/
def run (ws : List String) : String :=
  match ws with
  | v :: n :: rest =>
    if rest.length != 21 then "bad-op" else
    match parseRegs (rest.take 19), hexNat? (rest.getD 19 ""), hexNat? n with
    | some r, some seed, some n =>
      let ovl := parseOvl (rest.getD 20 "-")
      let base : Nat → U8 := fun a => match ovl.find? (·.1 == a) with
        | some (_, x) => BitVec.ofNat 8 x
        | none => BitVec.ofNat 8 (hash8 seed.toUInt64 a.toUInt32).toNat
      let variant := if v == "a" then Variant.alt else Variant.primary
      let rec go (k : Nat) (s : St) (acc : List String) : List String :=
        match k with
        | 0 => acc.reverse
        | k + 1 =>
          match step variant s with
          | none => ("crash" :: acc).reverse
          | some (_, s') => go k s' ((canon s'.r ++ "|" ++ writesStr s'.m) :: acc)
      ";".intercalate (go n ⟨r, ⟨base, []⟩⟩ [])
    | _, _, _ => "bad-op"
  | _ => "bad-op"

/-- `cpui <p|a> <latch> <steps> <19 register fields> <seed> <ovl>`: as `cpu`, the first `Step()` taken with the given value
of the interrupt latch (`Cpu.stepFull`), the later ones with the latch idle -/
def runI (ws : List String) : String :=
  match ws with
  | v :: l :: n :: rest =>
    if rest.length != 21 then "bad-op" else
    match parseRegs (rest.take 19), hexNat? (rest.getD 19 ""), hexNat? n, hexNat? l with
    | some r, some seed, some n, some l =>
      let ovl := parseOvl (rest.getD 20 "-")
      let base : Nat → U8 := fun a => match ovl.find? (·.1 == a) with
        | some (_, x) => BitVec.ofNat 8 x
        | none => BitVec.ofNat 8 (hash8 seed.toUInt64 a.toUInt32).toNat
      let variant := if v == "a" then Variant.alt else Variant.primary
      let rec go (k : Nat) (first : Bool) (s : St) (acc : List String) : List String :=
        match k with
        | 0 => acc.reverse
        | k + 1 =>
          match (if first then stepFull variant l s else step variant s) with
          | none => ("crash" :: acc).reverse
          | some (_, s') => go k false s' ((canon s'.r ++ "|" ++ writesStr s'.m) :: acc)
      ";".intercalate (go n true ⟨r, ⟨base, []⟩⟩ [])
    | _, _, _, _ => "bad-op"
  | _ => "bad-op"

/-- `cpus <p|a> <steps> <events k:n|k:i|k:r,..|-> <19 register fields> <seed> <ovl>`: a scenario — before step `k` the harness sets
the NMI latch (`n`), calls `TriggerIRQ()` (`i`) or `Reset()` (`r`); every step is the full `Step()` with the current latch -/
def runS (ws : List String) : String :=
  match ws with
  | v :: n :: ev :: rest =>
    if rest.length != 21 then "bad-op" else
    match parseRegs (rest.take 19), hexNat? (rest.getD 19 ""), hexNat? n with
    | some r, some seed, some n =>
      let ovl := parseOvl (rest.getD 20 "-")
      let base : Nat → U8 := fun a => match ovl.find? (·.1 == a) with
        | some (_, x) => BitVec.ofNat 8 x
        | none => BitVec.ofNat 8 (hash8 seed.toUInt64 a.toUInt32).toNat
      let variant := if v == "a" then Variant.alt else Variant.primary
      let events : List (Nat × String) := if ev == "-" then [] else
        (ev.splitOn ",").filterMap (fun e => match e.splitOn ":" with
          | [k, what] => (hexNat? k).map (fun k => (k, what))
          | _ => none)
      let rec go (fuel : Nat) (k : Nat) (latch : Nat) (s : St) (acc : List String) : List String :=
        match fuel with
        | 0 => acc.reverse
        | fuel + 1 =>
          -- events of this step, in the order given
          let evs := (events.filter (·.1 == k)).map (·.2)
          let pre : Option (Nat × St) := evs.foldl (fun st e => match st with
            | none => none
            | some (l, s) =>
              if e == "n" then some (triggerNMI variant, s)
              else if e == "i" then some (triggerIRQ variant s.r l, s)
              else if e == "r" then (match reset s with | none => none | some (_, s') => some (l, s'))
              else some (l, s)) (some (latch, s))
          match pre with
          | none => ("crash" :: acc).reverse
          | some (l, s1) =>
            match stepFull variant l s1 with
            | none => ("crash" :: acc).reverse
            | some (_, s') => go fuel (k + 1) (latchNone variant) s' ((canon s'.r ++ "|" ++ writesStr s'.m) :: acc)
      ";".intercalate (go n 0 (latchNone variant) ⟨r, ⟨base, []⟩⟩ [])
    | _, _, _ => "bad-op"
  | _ => "bad-op"

/-- `cpureset <19 register fields> <seed> <ovl>`: the state after `Reset()` -/
def runReset (ws : List String) : String :=
  if ws.length != 21 then "bad-op" else
  match parseRegs (ws.take 19), hexNat? (ws.getD 19 "") with
  | some r, some seed =>
    let ovl := parseOvl (ws.getD 20 "-")
    let base : Nat → U8 := fun a => match ovl.find? (·.1 == a) with
      | some (_, x) => BitVec.ofNat 8 x
      | none => BitVec.ofNat 8 (hash8 seed.toUInt64 a.toUInt32).toNat
    match reset ⟨r, ⟨base, []⟩⟩ with
    | none => "crash"
    | some (_, s') => canon s'.r ++ "|" ++ writesStr s'.m
  | _, _ => "bad-op"

def archCanon (a : WDC.Arch) : String :=
  s!"{toHex a.PC.toNat} {toHex a.S.toNat} {toHex a.A.toNat} {toHex a.X.toNat} {toHex a.Y.toNat} {toHex a.D.toNat} " ++
  s!"{toHex a.DBR.toNat} {toHex a.PBR.toNat} " ++
  String.join ([a.fN, a.fV, a.fM, a.fX, a.fD, a.fI, a.fZ, a.fC].map b01) ++ s!" {b01 a.E} {b01 a.stopped}|" ++
  ",".intercalate ((sortNats a.wlog.eraseDups).map (fun x => s!"{toHex x}={toHex (a.mem x).toNat}"))

/-- `spec <steps> <19 register fields> <seed> <ovl>`: the WDC model on the abstraction of the given state -/
def spec (ws : List String) : String :=
  match ws with
  | n :: rest =>
    if rest.length != 21 then "bad-op" else
    match parseRegs (rest.take 19), hexNat? (rest.getD 19 ""), hexNat? n with
    | some r, some seed, some n =>
      let ovl := parseOvl (rest.getD 20 "-")
      let base : Nat → U8 := fun a => match ovl.find? (·.1 == a) with
        | some (_, x) => BitVec.ofNat 8 x
        | none => BitVec.ofNat 8 (hash8 seed.toUInt64 a.toUInt32).toNat
      let rec go (k : Nat) (a : WDC.Arch) (acc : List String) : List String :=
        match k with
        | 0 => acc.reverse
        | k + 1 => let a' := WDC.step a; go k a' (archCanon a' :: acc)
      ";".intercalate (go n (absR r base []) [])
    | _, _, _ => "bad-op"
  | _ => "bad-op"

/-- `trace <p|a> <19 register fields> <seed> <ovl>`: the trace line for the instruction at the current PC -/
def trace (ws : List String) : String :=
  match ws with
  | v :: rest =>
    if rest.length != 21 then "bad-op" else
    match parseRegs (rest.take 19), hexNat? (rest.getD 19 "") with
    | some r, some seed =>
      let ovl := parseOvl (rest.getD 20 "-")
      let base : Nat → U8 := fun a => match ovl.find? (·.1 == a) with
        | some (_, x) => BitVec.ofNat 8 x
        | none => BitVec.ofNat 8 (hash8 seed.toUInt64 a.toUInt32).toNat
      (traceRec (if v == "a" then Variant.alt else Variant.primary) r base).canon
    | _, _ => "bad-op"
  | _ => "bad-op"

/-- `runu <p|a> <logger 0|1> <target> <maxCycles> <cbs a,b,..|-> <interrupt latch> <19 register fields> <seed> <ovl>`:
outcome of `System.RunUntil` with the observer logs -/
def runUntil (ws : List String) : String :=
  match ws with
  | v :: lg :: tgt :: mx :: cbs :: lt :: rest =>
    if rest.length != 21 then "bad-op" else
    match parseRegs (rest.take 19), hexNat? (rest.getD 19 ""), hexNat? tgt, hexNat? mx, hexNat? lt with
    | some r, some seed, some tgt, some mx, some lt =>
      let ovl := parseOvl (rest.getD 20 "-")
      let base : Nat → U8 := fun a => match ovl.find? (·.1 == a) with
        | some (_, x) => BitVec.ofNat 8 x
        | none => BitVec.ofNat 8 (hash8 seed.toUInt64 a.toUInt32).toNat
      let variant := if v == "a" then Variant.alt else Variant.primary
      let cbl := if cbs == "-" then [] else (cbs.splitOn ",").filterMap hexNat?
      let show_ (tag : String) (b : Bool) (r : Sys.RU) : String :=
        s!"{tag} {b01 b} {canon r.s.r} {toHex r.cycles} {toHex r.logs} " ++
        "[" ++ ",".intercalate (r.onpc.reverse.map toHex) ++ "] [" ++ ",".intercalate (r.wdm.reverse.map (fun x => toHex x.toNat)) ++ "]|" ++
        writesStr r.s.m
      match Sys.runUntilL variant (lg == "1") cbl tgt mx lt ⟨r, ⟨base, []⟩⟩ with
      | .done r b => show_ "done" b r
      | .crash r => show_ "crash" false r
      | .outOfFuel r => show_ "fuel" false r
    | _, _, _, _, _ => "bad-op"
  | _ => "bad-op"
end CpuDrv

def handle (line : String) : String :=
  let line := line.trimAscii.toString
  if line.startsWith "bus " then BusDrv.run ((line.drop 4).toString.splitOn ";") else
  if line.startsWith "runu " then CpuDrv.runUntil (((line.drop 5).toString.splitOn " ").filter (· ≠ "")) else
  if line.startsWith "trace " then CpuDrv.trace (((line.drop 6).toString.splitOn " ").filter (· ≠ "")) else
  if line.startsWith "spec " then CpuDrv.spec (((line.drop 5).toString.splitOn " ").filter (· ≠ "")) else
  if line.startsWith "cpus " then CpuDrv.runS (((line.drop 5).toString.splitOn " ").filter (· ≠ "")) else
  if line.startsWith "cpui " then CpuDrv.runI (((line.drop 5).toString.splitOn " ").filter (· ≠ "")) else
  if line.startsWith "cpureset " then CpuDrv.runReset (((line.drop 9).toString.splitOn " ").filter (· ≠ "")) else
  if line.startsWith "cpu " then CpuDrv.run (((line.drop 4).toString.splitOn " ").filter (· ≠ "")) else
  if line.startsWith "enc " then AsmDrv.enc (((line.drop 4).toString.splitOn " ").filter (· ≠ "")) else
  if line.startsWith "asm " then
    match (line.drop 4).toString.splitOn ";" with
    | hd :: ops =>
      match (hd.splitOn " ").filter (· ≠ "") with
      | [c, t] => AsmDrv.run c t ops
      | _ => "bad-op"
    | [] => "bad-op"
  else
  if line.startsWith "hdr " then HdrDrv.run (((line.drop 4).toString.splitOn " ").filter (· ≠ "")) else
  if line.startsWith "rom " then
    match (line.drop 4).toString.splitOn ";" with
    | hd :: ops =>
      match (hd.splitOn " ").filter (· ≠ "") with
      | [sz, sd] =>
        match hexNat? sz, hexNat? sd with
        | some sz, some sd => RomDrv.run sz sd ops
        | _, _ => "bad-op"
      | _ => "bad-op"
    | [] => "bad-op"
  else
  let ws := (line.splitOn " ").filter (· ≠ "")
  match ws with
  | ["map", f, a] =>
    match mapFn f, hexNat? a with
    | some fn, some x => let r := fn x; s!"{toHex r.1} {b01 r.2}"
    | _, _ => "bad-op"
  | ["mapspec", f, a] =>
    match mapSpecFn f, hexNat? a with
    | some fn, some x => let r := fn x; s!"{toHex r.1} {b01 r.2}"
    | _, _ => "bad-op"
  | ["btl", a] =>
    match hexNat? a with
    | some x => toHex (Gen.util_BankToLinear x)
    | none => "bad-op"
  | ["color", "rgb", c] =>
    match hexNat? c with
    | some x => let r := Gen.color15_Color_ToRGB x; s!"{toHex r.1} {toHex r.2.1} {toHex r.2.2}"
    | none => "bad-op"
  | ["color", "pack", r, g, b] =>
    match hexNat? r, hexNat? g, hexNat? b with
    | some r, some g, some b => toHex (Gen.color15_ToColor15 r g b)
    | _, _, _ => "bad-op"
  | ["color", "lum", c] =>
    match hexNat? c with
    | some x => toHex (Gen.color15_Color_Luminosity x)
    | none => "bad-op"
  | ["color", "muldiv", c, m, d] =>
    match hexNat? c, hexNat? m, hexNat? d with
    | some c, some m, some d => if d = 0 then "panic" else toHex (Gen.color15_Color_MulDiv c m d)
    | _, _, _ => "bad-op"
  | _ => "bad-op"

partial def loop (hin hout : IO.FS.Stream) : IO Unit := do
  let line ← hin.getLine
  if line.isEmpty then return ()
  if line == "\n" then           -- an empty line asks for a flush (end of a batch)
    hout.flush
    loop hin hout
  else
    hout.putStrLn (handle line)
    loop hin hout

def main : IO Unit := do
  let hin ← IO.getStdin
  let hout ← IO.getStdout
  loop hin hout
  hout.flush
