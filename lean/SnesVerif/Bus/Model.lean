/-
Hand-written model of emulator/bus/bus.go (`Bus.Attach`, `EaRead`, `EaWrite`, `EaRead24_wrap`, `EaDump`).
Tied to the Go code by the correspondence run `vh bus` (differential, via ModelDrv).

The segment table has 2^20 entries of 16 bytes; a Go index beyond it panics, as does a nil entry:
both are the `none` result here ("fails loudly").
-/
namespace BusModel

/-- a bus: segment index (address / 16) ↦ attached memory (identified by a number) -/
structure Bus where
  seg : Nat → Option Nat

def Bus.empty : Bus := ⟨fun _ => none⟩

inductive AttachRes | ok | badStart | badEnd
  deriving DecidableEq, Repr

/-- `Attach(mem, name, start, end)`: alignment checks, then fill `segment[start>>4 .. end>>4]`. -/
def Bus.attach (b : Bus) (m start end_ : Nat) : Bus × AttachRes :=
  if start % 16 ≠ 0 then (b, .badStart)
  else if (end_ + 1) % 16 ≠ 0 then (b, .badEnd)
  else (⟨fun k => if start / 16 ≤ k ∧ k ≤ end_ / 16 then some m else b.seg k⟩, .ok)

/-- which memory serves a read or write of address `a` (it is handed the address `a` itself) -/
def Bus.route (b : Bus) (a : Nat) : Option Nat :=
  if a < 16777216 then b.seg (a / 16) else none

/-- `EaRead24_wrap(bank, addr)`: three bytes at `bank:addr`, `bank:addr+1`, `bank:addr+2`, the 16-bit offset wrapping
inside the bank; the three memories are looked up first (a missing one panics before any memory is touched), then each
is handed the full address of its byte.  Result: the (memory, address) pairs in access order. -/
def Bus.read24 (b : Bus) (bank addr : Nat) : Option (List (Nat × Nat)) :=
  let a0 := bank % 256 * 65536 + addr % 65536
  let a1 := bank % 256 * 65536 + (addr + 1) % 65536
  let a2 := bank % 256 * 65536 + (addr + 2) % 65536
  match b.route a0, b.route a1, b.route a2 with
  | some m0, some m1, some m2 => some [(m0, a0), (m1, a1), (m2, a2)]
  | _, _, _ => none

def upd (d : Nat → UInt8) (i : Nat) (v : UInt8) : Nat → UInt8 := fun j => if j = i then v else d j

/-- inner loops of `EaDump`: consume addresses while `a ≤ end ∧ a>>4 = k` -/
def dumpInner (s : Option Nat) (rd : Nat → Nat → UInt8) (k end_ : Nat) (a i : Nat) (d : Nat → UInt8) :
    Nat × Nat × (Nat → UInt8) :=
  if a ≤ end_ ∧ a / 16 = k then
    dumpInner s rd k end_ (a + 1) (i + 1) (match s with | some m => upd d i (rd m a) | none => d)
  else (a, i, d)
termination_by end_ + 1 - a

/-- outer loop of `EaDump`: `for k := startK; k <= endK; k++` -/
def dumpOuter (b : Bus) (rd : Nat → Nat → UInt8) (end_ endK : Nat) (k a i : Nat) (d : Nat → UInt8) :
    Nat × (Nat → UInt8) :=
  if k ≤ endK then
    let r := dumpInner (b.seg k) rd k end_ a i d
    dumpOuter b rd end_ endK (k + 1) r.1 r.2.1 r.2.2
  else (i, d)
termination_by endK + 1 - k

/-- `EaDump(start, end, data)` for a range inside the 24-bit space; returns (count, data'). -/
def Bus.eaDump (b : Bus) (rd : Nat → Nat → UInt8) (start end_ : Nat) (d : Nat → UInt8) : Nat × (Nat → UInt8) :=
  dumpOuter b rd end_ ((end_ % 16777216) / 16) ((start % 16777216) / 16) start 0 d

end BusModel
