/- Loop lemmas for the EaDump model. -/
import SnesVerif.Bus.Model
namespace BusModel

/-- value a dump position receives: the routed memory's byte, or the old content over a hole -/
def cell (s : Option Nat) (rd : Nat → Nat → UInt8) (old : UInt8) (a : Nat) : UInt8 :=
  match s with | some m => rd m a | none => old

theorem dumpInner_spec (s : Option Nat) (rd : Nat → Nat → UInt8) (k end_ a i : Nat) (d : Nat → UInt8) :
    let n := if a / 16 = k then min (end_ + 1) ((k + 1) * 16) - a else 0
    dumpInner s rd k end_ a i d =
      (a + n, i + n, fun j => if i ≤ j ∧ j < i + n then cell s rd (d j) (a + (j - i)) else d j) := by
  fun_induction dumpInner s rd k end_ a i d with
  | case1 a i d h ih =>
    simp only at ih ⊢
    rw [ih]
    have hk : a / 16 = k := h.2
    by_cases hn : (a + 1) / 16 = k
    · simp only [hn, hk, if_true]
      refine Prod.ext (by simp only; omega) (Prod.ext (by simp only; omega) ?_)
      funext j
      simp only
      by_cases hj : j = i
      · subst hj
        have c1 : ¬ (j + 1 ≤ j ∧ j < j + 1 + (min (end_ + 1) ((k + 1) * 16) - (a + 1))) := by omega
        have c2 : j ≤ j ∧ j < j + (min (end_ + 1) ((k + 1) * 16) - a) := by omega
        rw [if_neg c1, if_pos c2]
        cases s <;> simp [cell, upd]
      · by_cases c : i + 1 ≤ j ∧ j < i + 1 + (min (end_ + 1) ((k + 1) * 16) - (a + 1))
        · have c2 : i ≤ j ∧ j < i + (min (end_ + 1) ((k + 1) * 16) - a) := by omega
          rw [if_pos c, if_pos c2]
          have e : a + 1 + (j - (i + 1)) = a + (j - i) := by omega
          rw [e]
          cases s <;> simp [cell, upd, hj]
        · have c2 : ¬ (i ≤ j ∧ j < i + (min (end_ + 1) ((k + 1) * 16) - a)) := by omega
          rw [if_neg c, if_neg c2]
          cases s <;> simp [upd, hj]
    · simp only [hn, hk, if_true, if_false]
      refine Prod.ext (by simp only; omega) (Prod.ext (by simp only; omega) ?_)
      funext j
      simp only
      have c1 : ¬ (i + 1 ≤ j ∧ j < i + 1 + 0) := by omega
      rw [if_neg c1]
      by_cases hj : j = i
      · subst hj
        have c2 : j ≤ j ∧ j < j + (min (end_ + 1) ((k + 1) * 16) - a) := by omega
        rw [if_pos c2]
        cases s <;> simp [cell, upd]
      · have c2 : ¬ (i ≤ j ∧ j < i + (min (end_ + 1) ((k + 1) * 16) - a)) := by omega
        rw [if_neg c2]
        cases s <;> simp [upd, hj]
  | case2 a i d h =>
    simp only
    have hn : (if a / 16 = k then min (end_ + 1) ((k + 1) * 16) - a else 0) = 0 := by
      split <;> omega
    rw [hn]
    refine Prod.ext (by simp) (Prod.ext (by simp) ?_)
    funext j
    have c : ¬ (i ≤ j ∧ j < i + 0) := by omega
    simp only [if_neg c]

theorem dumpOuter_spec (b : Bus) (rd : Nat → Nat → UInt8) (end_ k a i : Nat) (d : Nat → UInt8)
    (hpos : a / 16 = k ∨ end_ < a) :
    dumpOuter b rd end_ (end_ / 16) k a i d =
      (i + (end_ + 1 - a),
       fun j => if i ≤ j ∧ j < i + (end_ + 1 - a) then cell (b.seg ((a + (j - i)) / 16)) rd (d j) (a + (j - i)) else d j) := by
  fun_induction dumpOuter b rd end_ (end_ / 16) k a i d with
  | case1 k a i d hk r ih =>
    have hs := dumpInner_spec (b.seg k) rd k end_ a i d
    simp only at hs
    have hr : r = dumpInner (b.seg k) rd k end_ a i d := rfl
    rw [hs] at hr
    rcases hpos with hp | hp
    · -- a lies in segment k
      simp only [hp, if_true] at hr
      have ih' := ih (by rw [hr]; simp only; omega)
      rw [ih']
      rw [hr]
      refine Prod.ext (by simp only; omega) ?_
      funext j
      simp only
      by_cases c1 : i ≤ j ∧ j < i + (min (end_ + 1) ((k + 1) * 16) - a)
      · -- filled by the inner loop for segment k
        have c2 : ¬ (i + (min (end_ + 1) ((k + 1) * 16) - a) ≤ j ∧
            j < i + (min (end_ + 1) ((k + 1) * 16) - a) + (end_ + 1 - (a + (min (end_ + 1) ((k + 1) * 16) - a)))) := by omega
        have c3 : i ≤ j ∧ j < i + (end_ + 1 - a) := by omega
        rw [if_neg c2, if_pos c1, if_pos c3]
        have e : (a + (j - i)) / 16 = k := by omega
        rw [e]
      · by_cases c2 : i + (min (end_ + 1) ((k + 1) * 16) - a) ≤ j ∧
            j < i + (min (end_ + 1) ((k + 1) * 16) - a) + (end_ + 1 - (a + (min (end_ + 1) ((k + 1) * 16) - a)))
        · have c3 : i ≤ j ∧ j < i + (end_ + 1 - a) := by omega
          rw [if_pos c2, if_neg c1, if_pos c3]
          have e : a + (min (end_ + 1) ((k + 1) * 16) - a) + (j - (i + (min (end_ + 1) ((k + 1) * 16) - a))) = a + (j - i) := by omega
          rw [e]
        · have c3 : ¬ (i ≤ j ∧ j < i + (end_ + 1 - a)) := by omega
          rw [if_neg c2, if_neg c1, if_neg c3]
    · -- the range is already exhausted
      have hz : (if a / 16 = k then min (end_ + 1) ((k + 1) * 16) - a else 0) = 0 := by split <;> omega
      rw [hz] at hr
      have ih' := ih (by rw [hr]; simp only; omega)
      rw [ih', hr]
      refine Prod.ext (by simp only; omega) ?_
      funext j
      simp only
      have c1 : ¬ (i + 0 ≤ j ∧ j < i + 0 + (end_ + 1 - (a + 0))) := by omega
      have c2 : ¬ (i ≤ j ∧ j < i + 0) := by omega
      have c3 : ¬ (i ≤ j ∧ j < i + (end_ + 1 - a)) := by omega
      rw [if_neg c1, if_neg c2, if_neg c3]
  | case2 k a i d hk =>
    have hz : end_ + 1 - a = 0 := by omega
    rw [hz]
    refine Prod.ext (by simp) ?_
    funext j
    have c : ¬ (i ≤ j ∧ j < i + 0) := by omega
    simp only [if_neg c]

end BusModel
