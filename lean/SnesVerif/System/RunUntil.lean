/-
Model of `System.RunUntil` (emulator/system.go) over the interpreter model, with the callbacks of `Step`
(`OnPC`, `OnWDM`) and the trace logger reduced to what they observe.

    for cycles := 0; cycles < maxCycles; {
        if Logger != nil { Logger.Write(disassembly of the current PC) }
        if GetPC() == targetPC { break }
        n, _ := CPU.Step(); cycles += n
    }
    return GetPC() == targetPC

The Go loop has no bound of its own; the model takes a fuel argument and distinguishes running out of it
(`outOfFuel` = the Go loop would still be spinning) from finishing.  C12.runUntil_terminates shows fuel = maxCycles
always suffices.
-/
import SnesVerif.Cpu.InterruptModel
namespace Sys
open Cpu

def pc24 (c : Regs) : Nat := lin c.RK c.PC

/-- loop state + everything an observer sees -/
structure RU where
  s : St
  cycles : Nat := 0
  /-- number of `Logger.Write` calls -/
  logs : Nat := 0
  /-- executed instructions, newest first: (cycles consumed before it, its 24-bit address) -/
  execd : List (Nat × Nat) := []
  /-- `OnPC` invocations (address), newest first -/
  onpc : List Nat := []
  /-- `OnWDM` invocations (operand), newest first -/
  wdm : List U8 := []
  /-- `CPU.Interrupt` at the loop head: whatever the caller latched before `RunUntil` for the first `Step` (0 = the zero
  value of a fresh CPU, which falls through the switch), `interruptNone` after every `Step` -/
  latch : Nat := 0

inductive Outcome
  | done (r : RU) (reached : Bool)
  | crash (r : RU)
  | outOfFuel (r : RU)

/-- one `CPU.Step()` as seen by the observers: `OnPC` fires first, for the address at the loop head, when a callback is
registered there; then a latched interrupt is entered; then the instruction at the (possibly redirected) PC executes;
`OnWDM` fires from the WDM routine with the operand -/
def stepObs (v : Variant) (cbs : List Nat) (r : RU) : Option RU :=
  let pc := pc24 r.s.r
  match service v r.latch r.s with
  | none => none
  | some (_, s1) =>
    let opb := s1.m.f (pc24 s1.r)
    match step v s1 with
    | none => none
    | some (_, s') =>
      some { s := s', cycles := r.cycles + s'.r.Cycles.toNat, logs := r.logs,
             execd := (r.cycles, pc) :: r.execd,
             onpc := if cbs.contains pc then pc :: r.onpc else r.onpc,
             wdm := if (semOf v opb).proc = .wdm then s'.r.WDM :: r.wdm else r.wdm,
             latch := latchNone v }

/-- the Logger.Write at the top of each iteration -/
def logIt (hasLogger : Bool) (r : RU) : RU := if hasLogger then { r with logs := r.logs + 1 } else r

def ruLoop (v : Variant) (hasLogger : Bool) (cbs : List Nat) (target max : Nat) : Nat → RU → Outcome
  | 0, r =>
    if r.cycles < max then
      if pc24 r.s.r = target then .done (logIt hasLogger r) true else .outOfFuel (logIt hasLogger r)
    else .done r (pc24 r.s.r == target)
  | fuel + 1, r =>
    if r.cycles < max then
      if pc24 r.s.r = target then .done (logIt hasLogger r) true
      else match stepObs v cbs (logIt hasLogger r) with
        | none => .crash (logIt hasLogger r)
        | some r' => ruLoop v hasLogger cbs target max fuel r'
    else .done r (pc24 r.s.r == target)

/-- `RunUntil(target, maxCycles)` entered with `CPU.Interrupt = latch` -/
def runUntilL (v : Variant) (hasLogger : Bool) (cbs : List Nat) (target max : Nat) (latch : Nat) (s : St) : Outcome :=
  ruLoop v hasLogger cbs target max max { s := s, latch := latch }

/-- `RunUntil(target, maxCycles)` with no interrupt pending on entry -/
def runUntil (v : Variant) (hasLogger : Bool) (cbs : List Nat) (target max : Nat) (s : St) : Outcome :=
  runUntilL v hasLogger cbs target max 0 s

end Sys
