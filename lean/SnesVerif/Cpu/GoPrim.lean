/-
Prelude of the regenerated interpreters (Gen/CpuGoPrimary.lean, Gen/CpuGoAlt.lean — written by `gotolean cpugo`):
the few notions the translation of Go statements needs beyond the vocabulary of Cpu/Impl.lean.
-/
import SnesVerif.Cpu.Impl
namespace Cpu.GoPrim
open Cpu

/-- a status-flag byte as the model's `Bool` (the generated obligations show the byte is 0 or 1) -/
def flagOf (b : U8) : Bool := b != 0

/-- `log.Fatalf`: the process ends -/
def fatal : Ex Unit := fun _ => none

theorem and_one_le (x : U8) : (x &&& 1).toNat ≤ 1 := by
  rw [BitVec.toNat_and]; exact Nat.and_le_right
theorem bit_le (b : Bool) : (bit b).toNat ≤ 1 := by cases b <;> decide
theorem lo8_and_one_le (x : U16) : (lo8 (x &&& 1)).toNat ≤ 1 := by
  unfold lo8
  rw [BitVec.toNat_setWidth, BitVec.toNat_and]
  have : x.toNat &&& (1#16).toNat ≤ 1 := Nat.and_le_right
  exact Nat.le_trans (Nat.mod_le _ _) this

/-- discharges `(e).toNat ≤ 1` for the byte expressions the interpreters assign to flags -/
theorem shr7_le (x : U8) : (x >>> 7).toNat ≤ 1 := by revert x; decide

macro "flag_tac" : tactic => `(tactic|
  first
  | (intros; first | exact and_one_le _ | exact bit_le _ | exact lo8_and_one_le _ | exact shr7_le _)
  | decide)

end Cpu.GoPrim
