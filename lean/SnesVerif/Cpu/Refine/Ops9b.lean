/- ADC / SBC in any mode (incl. decimal): everything but the arithmetic result (A low part, N V Z C) conforms -/
import SnesVerif.Cpu.Refine.Ops9
namespace Cpu
set_option maxRecDepth 100000
attribute [local irreducible] lin
open Spec (Mode Mnem)

variable (c : Regs) (f : Nat → U8) (w : List Nat) (sz : U16) (cyc : U8) (ea : Nat) (addr : U16) (am : AMode)

/-- two architectural states agree on everything ADC/SBC do not compute: all registers but A (the hidden B byte does
agree when A is 8 bits wide), PC/PBR, the mode flags, memory -/
def ArithFrame (a b : WDC.Arch) : Prop :=
  a.X = b.X ∧ a.Y = b.Y ∧ a.S = b.S ∧ a.D = b.D ∧ a.PC = b.PC ∧ a.DBR = b.DBR ∧ a.PBR = b.PBR ∧
  a.fM = b.fM ∧ a.fX = b.fX ∧ a.fD = b.fD ∧ a.fI = b.fI ∧ a.E = b.E ∧ a.stopped = b.stopped ∧
  a.mem = b.mem ∧ a.wlog = b.wlog ∧ (a.fM = true → hi8 a.A = hi8 b.A)

theorem adcLike_frame (neg : Bool) (q : Proc) (hq : runP q = op_adcLike neg) (hd : am.isData = true) (hea : ea < 16777216) :
    ∃ s3, tail q ⟨dec c sz cyc ea addr am, ⟨f, w⟩⟩ = some ((), s3) ∧
      ArithFrame (abs s3) { WDC.addA (absR c f w) neg (implLoc am c.RK c.RDBR addr ea) with PC := c.PC + sz } := by
  unfold tail ArithFrame
  rw [hq]
  unfold op_adcLike; simp only [get_bind, bind_assoc]
  cases hM : c.M
  · simp [dec, hM, bind_eq', cmdRead16_eq, hd, hea, curLoc, abs, absR, finishRegs, srcC, srcX, srcY, setZN16, WDC.addA,
      WDC.read16, WDC.rd, WDC.nz16]
  · simp [dec, hM, bind_eq', cmdRead_eq, hd, hea, curLoc, abs, absR, finishRegs, srcC, srcX, srcY, setZN8, WDC.addA,
      WDC.read8, WDC.rd, WDC.nz8, WDC.setAlo]

end Cpu
