/- block moves: one byte per step -/
import SnesVerif.Cpu.Refine.Ops7
namespace Cpu
set_option maxRecDepth 100000
attribute [local irreducible] lin
open Spec (Mode Mnem)

variable (c : Regs) (f : Nat → U8) (w : List Nat) (sz : U16) (cyc : U8) (ea : Nat) (addr : U16) (am : AMode)

/-- the spec's MVN/MVP step with the operand bytes at `addr`, `addr+1` in the program bank -/
def mvSpec (a : WDC.Arch) (addr sz : U16) (inc : Bool) : WDC.Arch :=
  let dst := a.mem (lin a.PBR addr)
  let src := a.mem (lin a.PBR (addr + 1))
  let v := a.mem (lin src (WDC.xv a))
  let a1 := WDC.wr a (lin dst (WDC.yv a)) v
  let stepI (r : U16) : U16 :=
    if a1.fX then zx (if inc then lo8 r + 1 else lo8 r - 1) else (if inc then r + 1 else r - 1)
  let cc := a1.A - 1
  { a1 with DBR := dst, X := stepI a1.X, Y := stepI a1.Y, A := cc, PC := if cc = 0xFFFF then a1.PC + sz else a1.PC }

theorem blockMove_ref (inc : Bool) :
    ∃ s3, (blockMove inc >>= fun _ => modify finishRegs) ⟨dec c sz cyc ea addr am, ⟨f, w⟩⟩ = some ((), s3) ∧
      abs s3 = mvSpec (absR c f w) addr sz inc := by
  unfold blockMove mvSpec
  simp only [get_bind, bind_assoc, modify_bind]
  cases hM : c.M
  · by_cases hz : c.RA - 1#16 = 65535#16 <;> cases hX : c.X <;> cases inc <;>
      simp [dec, hX, hM, hz, bind_eq', nRead, nWrite, eaRead_bind, eaWrite_bind, eaRead_run, eaWrite_run, lin_lt, abs, absR, finishRegs,
        srcC, srcX, srcY, WDC.wr, WDC.xv, WDC.yv]
  · by_cases hz : mk16 c.RAh c.RAl - 1#16 = 65535#16 <;> cases hX : c.X <;> cases inc <;>
      simp [dec, hX, hM, hz, bind_eq', nRead, nWrite, eaRead_bind, eaWrite_bind, eaRead_run, eaWrite_run, lin_lt, abs, absR, finishRegs,
        srcC, srcX, srcY, WDC.wr, WDC.xv, WDC.yv]

theorem mvn_ref : RefF c f w sz cyc ea addr am .mvn (mvSpec (absR c f w) addr sz true) := by
  unfold RefF tail runP; exact blockMove_ref c f w sz cyc ea addr am true
theorem mvp_ref : RefF c f w sz cyc ea addr am .mvp (mvSpec (absR c f w) addr sz false) := by
  unfold RefF tail runP; exact blockMove_ref c f w sz cyc ea addr am false

end Cpu
