/-
Spec-side equalities for the instructions whose operands are not plain data locations: what `WDC.exec` computes,
expressed with the decoded `StepInfo` of the interpreters.
-/
import SnesVerif.Cpu.Refine.Loc
namespace Cpu
set_option maxRecDepth 100000
open Spec (Mode Mnem)

variable (c : Regs) (f : Nat → U8) (w : List Nat)

theorem split24_lo (h : U8) (x : U16) : BitVec.ofNat 16 ((h.toNat * 65536 + x.toNat) % 16777216) = x := by
  apply BitVec.eq_of_toNat_eq
  have := h.isLt; have := x.isLt
  simp only [BitVec.toNat_ofNat]; omega
theorem split24_hi (h : U8) (x : U16) : BitVec.ofNat 8 ((h.toNat * 65536 + x.toNat) % 16777216 / 65536) = h := by
  apply BitVec.eq_of_toNat_eq
  have := h.isLt; have := x.isLt
  simp only [BitVec.toNat_ofNat]; omega
theorem p24_lo (o : U16) : BitVec.ofNat 16 (p24 f o) = p16 f o := by
  apply BitVec.eq_of_toNat_eq
  unfold p24 p16
  rw [mk16_toNat]
  have := (f (lin 0 (o + 1))).isLt; have := (f (lin 0 o)).isLt
  simp only [BitVec.toNat_ofNat]; omega
theorem p24_hi (o : U16) : BitVec.ofNat 8 (p24 f o / 65536) = f (lin 0 (o + 2)) := by
  apply BitVec.eq_of_toNat_eq
  unfold p24
  have := (f (lin 0 (o + 1))).isLt; have := (f (lin 0 o)).isLt; have := (f (lin 0 (o + 2))).isLt
  simp only [BitVec.toNat_ofNat]; omega

theorem rep_glue (p : U16) :
    ({ WDC.setP (absR c f w) (WDC.getP (absR c f w) &&& ~~~ f ((implInfo .imm8 c f).2 % 16777216)) with PC := p } : WDC.Arch) =
      { WDC.setP (absR c f w) (WDC.getP (absR c f w) &&& ~~~ WDC.read8 (absR c f w) (WDC.resolve (absR c f w) .imm8)) with PC := p } := by
  simp only [implInfo, lin_mod]; rfl
theorem sep_glue (p : U16) :
    ({ WDC.setP (absR c f w) (WDC.getP (absR c f w) ||| f ((implInfo .imm8 c f).2 % 16777216)) with PC := p } : WDC.Arch) =
      { WDC.setP (absR c f w) (WDC.getP (absR c f w) ||| WDC.read8 (absR c f w) (WDC.resolve (absR c f w) .imm8)) with PC := p } := by
  simp only [implInfo, lin_mod]; rfl

theorem pea_glue : WDC.read16 (absR c f w) (WDC.resolve (absR c f w) .imm16) = WDC.op16 (absR c f w) := by
  simp only [WDC.read16, WDC.resolve, WDC.inBank, WDC.op16, WDC.op2, WDC.op1, pc12]
theorem pei_glue : WDC.read16 (absR c f w) (WDC.resolve (absR c f w) .dp) =
    WDC.ptr16 (absR c f w) ((absR c f w).D + WDC.zx (WDC.op1 (absR c f w))) := rfl

theorem rel16_info : (implInfo .rel16 c f).1 = (absR c f w).PC + 3 + WDC.op16 (absR c f w) := by
  simp only [implInfo, op16_abs]; rfl

theorem jmp_abs_glue : (implInfo .abs c f).1 = WDC.op16 (absR c f w) := by simp only [implInfo, op16_abs]
theorem jmp_long_glue :
    BitVec.ofNat 16 ((implInfo .long c f).2 % 16777216) = WDC.op16 (absR c f w) ∧
    BitVec.ofNat 8 ((implInfo .long c f).2 % 16777216 / 65536) = WDC.op3 (absR c f w) := by
  simp only [implInfo, ob24_eq, op16_abs, op3_abs, split24_lo, split24_hi, and_self]
theorem jmp_absInd_glue : p16 f (implInfo .absInd c f).1 = WDC.ptr16 (absR c f w) (WDC.op16 (absR c f w)) := by
  simp only [implInfo, op16_abs, ptr16_abs]
theorem jmp_absIndLong_glue :
    p16 f (implInfo .absIndLong c f).1 = BitVec.ofNat 16 (WDC.ptr24 (absR c f w) (WDC.op16 (absR c f w))) ∧
    f (lin 0 ((implInfo .absIndLong c f).1 + 2)) = BitVec.ofNat 8 (WDC.ptr24 (absR c f w) (WDC.op16 (absR c f w)) / 65536) := by
  simp only [implInfo, op16_abs, ptr24_abs, p24_lo, p24_hi, and_self]
theorem jmp_absIndX_glue :
    (implInfo .absIndX c f).1 =
      (let a := absR c f w
       let t := WDC.op16 a + WDC.xv a
       WDC.word (WDC.rd a (WDC.addr24 a.PBR (t + 1))) (WDC.rd a (WDC.addr24 a.PBR t))) := by
  simp only [implInfo, op16_abs, xv_abs]; rfl

end Cpu
