/- accumulator / index loads, logic, compares, BIT -/
import SnesVerif.Cpu.Refine.Tac
namespace Cpu
set_option maxRecDepth 100000
open Spec (Mode Mnem)

variable (c : Regs) (f : Nat → U8) (w : List Nat) (sz : U16) (cyc : U8) (ea : Nat) (addr : U16) (am : AMode)

theorem lda_ref (hd : am.isData = true) (hea : ea < 16777216) :
    ∃ s3, tail .lda ⟨dec c sz cyc ea addr am, ⟨f, w⟩⟩ = some ((), s3) ∧
      abs s3 = { WDC.accOp (absR c f w) (implLoc am c.RK c.RDBR addr ea) (fun _ m => m) (fun _ m => m) with PC := c.PC + sz } := by
  unfold tail runP; simp only [get_bind, bind_assoc]
  cases hM : c.M <;> ref_tac

theorem and_ref (hd : am.isData = true) (hea : ea < 16777216) :
    ∃ s3, tail .and ⟨dec c sz cyc ea addr am, ⟨f, w⟩⟩ = some ((), s3) ∧
      abs s3 = { WDC.accOp (absR c f w) (implLoc am c.RK c.RDBR addr ea) (· &&& ·) (· &&& ·) with PC := c.PC + sz } := by
  unfold tail runP logic; simp only [get_bind, bind_assoc]
  cases hM : c.M <;> ref_tac

theorem ora_ref (hd : am.isData = true) (hea : ea < 16777216) :
    ∃ s3, tail .ora ⟨dec c sz cyc ea addr am, ⟨f, w⟩⟩ = some ((), s3) ∧
      abs s3 = { WDC.accOp (absR c f w) (implLoc am c.RK c.RDBR addr ea) (· ||| ·) (· ||| ·) with PC := c.PC + sz } := by
  unfold tail runP logic; simp only [get_bind, bind_assoc]
  cases hM : c.M <;> ref_tac

theorem eor_ref (hd : am.isData = true) (hea : ea < 16777216) :
    ∃ s3, tail .eor ⟨dec c sz cyc ea addr am, ⟨f, w⟩⟩ = some ((), s3) ∧
      abs s3 = { WDC.accOp (absR c f w) (implLoc am c.RK c.RDBR addr ea) (· ^^^ ·) (· ^^^ ·) with PC := c.PC + sz } := by
  unfold tail runP logic; simp only [get_bind, bind_assoc]
  cases hM : c.M <;> ref_tac

theorem cmp_ref (hd : am.isData = true) (hea : ea < 16777216) :
    ∃ s3, tail .cmp ⟨dec c sz cyc ea addr am, ⟨f, w⟩⟩ = some ((), s3) ∧
      abs s3 = { WDC.cmpGen (absR c f w) (implLoc am c.RK c.RDBR addr ea) c.M (srcC c) with PC := c.PC + sz } := by
  unfold tail runP; simp only [get_bind, bind_assoc]
  cases hM : c.M <;> ref_tac

theorem cpx_ref (hd : am.isData = true) (hea : ea < 16777216) :
    ∃ s3, tail .cpx ⟨dec c sz cyc ea addr am, ⟨f, w⟩⟩ = some ((), s3) ∧
      abs s3 = { WDC.cmpGen (absR c f w) (implLoc am c.RK c.RDBR addr ea) c.X (srcX c) with PC := c.PC + sz } := by
  unfold tail runP; simp only [get_bind, bind_assoc]
  cases hX : c.X <;> ref_tac

theorem cpy_ref (hd : am.isData = true) (hea : ea < 16777216) :
    ∃ s3, tail .cpy ⟨dec c sz cyc ea addr am, ⟨f, w⟩⟩ = some ((), s3) ∧
      abs s3 = { WDC.cmpGen (absR c f w) (implLoc am c.RK c.RDBR addr ea) c.X (srcY c) with PC := c.PC + sz } := by
  unfold tail runP; simp only [get_bind, bind_assoc]
  cases hX : c.X <;> ref_tac

theorem ldx_ref (hd : am.isData = true) (hea : ea < 16777216) :
    ∃ s3, tail .ldx ⟨dec c sz cyc ea addr am, ⟨f, w⟩⟩ = some ((), s3) ∧
      abs s3 = { WDC.setIdx (absR c f w) true
        (if c.X then zx (WDC.read8 (absR c f w) (implLoc am c.RK c.RDBR addr ea)) else WDC.read16 (absR c f w) (implLoc am c.RK c.RDBR addr ea))
        with PC := c.PC + sz } := by
  unfold tail runP; simp only [get_bind, bind_assoc]
  cases hX : c.X <;> ref_tac

theorem ldy_ref (hd : am.isData = true) (hea : ea < 16777216) :
    ∃ s3, tail .ldy ⟨dec c sz cyc ea addr am, ⟨f, w⟩⟩ = some ((), s3) ∧
      abs s3 = { WDC.setIdx (absR c f w) false
        (if c.X then zx (WDC.read8 (absR c f w) (implLoc am c.RK c.RDBR addr ea)) else WDC.read16 (absR c f w) (implLoc am c.RK c.RDBR addr ea))
        with PC := c.PC + sz } := by
  unfold tail runP; simp only [get_bind, bind_assoc]
  cases hX : c.X <;> ref_tac

end Cpu
