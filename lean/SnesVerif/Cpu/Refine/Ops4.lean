/- implied-operand instructions: increments, transfers, flag operations, XBA, XCE, NOP/WAI/STP -/
import SnesVerif.Cpu.Refine.Tac
namespace Cpu
set_option maxRecDepth 100000
attribute [local irreducible] lin
open Spec (Mode Mnem)

variable (c : Regs) (f : Nat → U8) (w : List Nat) (sz : U16) (cyc : U8) (ea : Nat) (addr : U16) (am : AMode)

/-- statement shape: running routine `q` after the decode stage yields the spec's `r` with PC advanced -/
def Ref (q : Proc) (r : WDC.Arch) : Prop :=
  ∃ s3, tail q ⟨dec c sz cyc ea addr am, ⟨f, w⟩⟩ = some ((), s3) ∧ abs s3 = { r with PC := c.PC + sz }

macro "imp_tac" : tactic => `(tactic| (unfold Ref tail runP; simp only [get_bind, bind_assoc]))

theorem inx_ref : Ref c f w sz cyc ea addr am .inx (let a := absR c f w; WDC.setIdx a true (a.X + 1)) := by
  imp_tac; cases hX : c.X <;> ref_tac
theorem iny_ref : Ref c f w sz cyc ea addr am .iny (let a := absR c f w; WDC.setIdx a false (a.Y + 1)) := by
  imp_tac; cases hX : c.X <;> ref_tac
theorem dex_ref : Ref c f w sz cyc ea addr am .dex (let a := absR c f w; WDC.setIdx a true (a.X - 1)) := by
  imp_tac; cases hX : c.X <;> ref_tac
theorem dey_ref : Ref c f w sz cyc ea addr am .dey (let a := absR c f w; WDC.setIdx a false (a.Y - 1)) := by
  imp_tac; cases hX : c.X <;> ref_tac
theorem tax_ref : Ref c f w sz cyc ea addr am .tax (let a := absR c f w; WDC.setIdx a true a.A) := by
  imp_tac; cases hX : c.X <;> cases hM : c.M <;> ref_tac
theorem tay_ref : Ref c f w sz cyc ea addr am .tay (let a := absR c f w; WDC.setIdx a false a.A) := by
  imp_tac; cases hX : c.X <;> cases hM : c.M <;> ref_tac
theorem tsx_ref : Ref c f w sz cyc ea addr am .tsx (let a := absR c f w; WDC.setIdx a true a.S) := by
  imp_tac; cases hX : c.X <;> ref_tac
theorem txy_ref : Ref c f w sz cyc ea addr am .txy (let a := absR c f w; WDC.setIdx a false a.X) := by
  imp_tac; cases hX : c.X <;> ref_tac
theorem tyx_ref : Ref c f w sz cyc ea addr am .tyx (let a := absR c f w; WDC.setIdx a true a.Y) := by
  imp_tac; cases hX : c.X <;> ref_tac
theorem txa_ref : Ref c f w sz cyc ea addr am .txa (let a := absR c f w
    if a.fM then WDC.nz8 (WDC.setAlo a (WDC.lo a.X)) (WDC.lo a.X) else WDC.nz16 { a with A := WDC.xv a } (WDC.xv a)) := by
  imp_tac; cases hX : c.X <;> cases hM : c.M <;> ref_tac
theorem tya_ref : Ref c f w sz cyc ea addr am .tya (let a := absR c f w
    if a.fM then WDC.nz8 (WDC.setAlo a (WDC.lo a.Y)) (WDC.lo a.Y) else WDC.nz16 { a with A := WDC.yv a } (WDC.yv a)) := by
  imp_tac; cases hX : c.X <;> cases hM : c.M <;> ref_tac
theorem tcd_ref : Ref c f w sz cyc ea addr am .tcd (let a := absR c f w; WDC.nz16 { a with D := a.A } a.A) := by
  imp_tac; cases hM : c.M <;> ref_tac
theorem tdc_ref : Ref c f w sz cyc ea addr am .tdc (let a := absR c f w; WDC.nz16 { a with A := a.D } a.D) := by
  imp_tac; cases hM : c.M <;> ref_tac
theorem tsc_ref : Ref c f w sz cyc ea addr am .tsc (let a := absR c f w; WDC.nz16 { a with A := a.S } a.S) := by
  imp_tac; cases hM : c.M <;> ref_tac
theorem xba_ref : Ref c f w sz cyc ea addr am .xba (let a := absR c f w
    let r := WDC.word (WDC.lo a.A) (WDC.hi a.A); WDC.nz8 { a with A := r } (WDC.lo r)) := by
  imp_tac; cases hM : c.M <;> ref_tac

theorem clc_ref : Ref c f w sz cyc ea addr am .clc { absR c f w with fC := false } := by imp_tac; ref_tac
theorem sec_ref : Ref c f w sz cyc ea addr am .sec { absR c f w with fC := true } := by imp_tac; ref_tac
theorem cld_ref : Ref c f w sz cyc ea addr am .cld { absR c f w with fD := false } := by imp_tac; ref_tac
theorem sed_ref : Ref c f w sz cyc ea addr am .sed { absR c f w with fD := true } := by imp_tac; ref_tac
theorem cli_ref : Ref c f w sz cyc ea addr am .cli { absR c f w with fI := false } := by imp_tac; ref_tac
theorem sei_ref : Ref c f w sz cyc ea addr am .sei { absR c f w with fI := true } := by imp_tac; ref_tac
theorem clv_ref : Ref c f w sz cyc ea addr am .clv { absR c f w with fV := false } := by imp_tac; ref_tac
theorem nop_ref : Ref c f w sz cyc ea addr am .nop (absR c f w) := by imp_tac; ref_tac
theorem stp_ref : Ref c f w sz cyc ea addr am .stp { absR c f w with stopped := true } := by imp_tac; ref_tac

end Cpu
