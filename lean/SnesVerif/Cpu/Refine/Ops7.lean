/- control flow: branches, BRL, JMP, JSR, JSL, RTS, RTL, RTI, BRK, COP -/
import SnesVerif.Cpu.Refine.Ops6
namespace Cpu
set_option maxRecDepth 100000
theorem vecE6 : (lin (0#8) (65510#16) + 1) % 16777216 = lin (0#8) (65511#16) := by decide
theorem vecE4 : (lin (0#8) (65508#16) + 1) % 16777216 = lin (0#8) (65509#16) := by decide
attribute [local irreducible] lin
open Spec (Mode Mnem)

variable (c : Regs) (f : Nat → U8) (w : List Nat) (sz : U16) (cyc : U8) (ea : Nat) (addr : U16) (am : AMode)

/-- statement shape for instructions that set PC themselves -/
def RefF (q : Proc) (r : WDC.Arch) : Prop :=
  ∃ s3, tail q ⟨dec c sz cyc ea addr am, ⟨f, w⟩⟩ = some ((), s3) ∧ abs s3 = r

theorem branchIf_ref (cond : Regs → Bool) (hc : cond (dec c sz cyc ea addr am) = cond c) :
    ∃ s3, (branchIf cond >>= fun _ => modify finishRegs) ⟨dec c sz cyc ea addr am, ⟨f, w⟩⟩ = some ((), s3) ∧
      abs s3 = { absR c f w with PC := if cond c then addr else c.PC + sz } := by
  unfold branchIf
  simp only [modify_bind, modify_run, hc]
  cases h : cond c
  · simp [dec, abs, absR, finishRegs, srcC, srcX, srcY]
  · simp only [if_true]
    by_cases hp : pagesDiffer (c.PC + 2#16) addr = true <;>
      simp [hp, addBranchCycles, dec, abs, absR, finishRegs, srcC, srcX, srcY]

macro "flow_tac" : tactic => `(tactic|
  simp [dec, bind_eq', push, pull, push16, pull16, nRead, nWrite, nRead16_wrap, nRead16_cross, eaRead_bind, eaWrite_bind, eaRead_run,
    eaWrite_run, lin_lt, mod_lt, abs, absR, finishRegs, flagsByte, srcC, srcX, srcY,
    WDC.push8, WDC.push16, WDC.pull8, WDC.pull16, WDC.wr, WDC.rd, WDC.getP, WDC.b2u, bit, *])

theorem brl_ref : RefF c f w sz cyc ea addr am .brl { absR c f w with PC := addr } := by
  unfold RefF tail runP; flow_tac

theorem jmp_abs_ref : RefF c f w sz cyc ea addr .Absolute .jmp { absR c f w with PC := addr } := by
  unfold RefF tail runP; flow_tac
theorem jmp_absIndX_ref : RefF c f w sz cyc ea addr .Absolute_X_Indirect .jmp { absR c f w with PC := addr } := by
  unfold RefF tail runP; flow_tac
theorem jmp_absInd_ref : RefF c f w sz cyc ea addr .Absolute_Indirect .jmp { absR c f w with PC := p16 f addr } := by
  unfold RefF tail runP; flow_tac; rfl
theorem jmp_long_ref : RefF c f w sz cyc ea addr .Absolute_Long .jmp
    { absR c f w with PC := BitVec.ofNat 16 ea, PBR := BitVec.ofNat 8 (ea / 65536) } := by
  unfold RefF tail runP; flow_tac
theorem jmp_absIndLong_ref : RefF c f w sz cyc ea addr .Absolute_Indirect_Long .jmp
    { absR c f w with PC := p16 f addr, PBR := f (lin 0 (addr + 2)) } := by
  unfold RefF tail runP; flow_tac; rfl

theorem jsr_abs_ref (hE : c.E = false) : RefF c f w sz cyc ea addr .Absolute .jsr
    (let a := absR c f w; { WDC.push16 a (a.PC + 2) with PC := addr }) := by
  unfold RefF tail runP; flow_tac <;> rfl
theorem jsr_absIndX_ref (hE : c.E = false) : RefF c f w sz cyc ea addr .Absolute_X_Indirect .jsr
    (let a := absR c f w; { WDC.push16 a (a.PC + 2) with PC := addr }) := by
  unfold RefF tail runP; flow_tac <;> rfl
theorem jsl_ref (hE : c.E = false) : RefF c f w sz cyc ea addr am .jsl
    (let a := absR c f w
     { WDC.push16 (WDC.push8 a a.PBR) (a.PC + 3) with PC := BitVec.ofNat 16 ea, PBR := BitVec.ofNat 8 (ea / 65536) }) := by
  unfold RefF tail runP; flow_tac <;> rfl

theorem rts_ref (hE : c.E = false) : RefF c f w sz cyc ea addr am .rts
    (let a := absR c f w; let (t, a') := WDC.pull16 a; { a' with PC := t + 1 }) := by
  unfold RefF tail runP; flow_tac
theorem rtl_ref (hE : c.E = false) : RefF c f w sz cyc ea addr am .rtl
    (let a := absR c f w
     let (t, a') := WDC.pull16 a
     let (b, a'') := WDC.pull8 a'
     { a'' with PC := t + 1, PBR := b }) := by
  unfold RefF tail runP; flow_tac

theorem brk_ref (hE : c.E = false) : RefF c f w sz cyc ea addr am .brk (WDC.interrupt (absR c f w) 0xFFE6) := by
  unfold RefF tail runP interruptLike interruptBody WDC.interrupt; simp only [get_bind, bind_assoc]; have h6 := vecE6; flow_tac <;> rfl
theorem cop_ref (hE : c.E = false) : RefF c f w sz cyc ea addr am .cop (WDC.interrupt (absR c f w) 0xFFE4) := by
  unfold RefF tail runP interruptLike interruptBody WDC.interrupt; simp only [get_bind, bind_assoc]; have h4 := vecE4; flow_tac <;> rfl

end Cpu
