/- RTI; binary ADC / SBC; MVN / MVP -/
import SnesVerif.Cpu.Refine.Ops7
namespace Cpu
set_option maxRecDepth 100000
attribute [local irreducible] lin
open Spec (Mode Mnem)

variable (c : Regs) (f : Nat → U8) (w : List Nat) (sz : U16) (cyc : U8) (ea : Nat) (addr : U16) (am : AMode)

/-- RTI after the status byte has been pulled and written -/
def rtiRest (e : Bool) : Ex Unit :=
  pull16 >>= fun pc => modify (fun c => { c with PC := pc }) >>= fun _ => pull >>= fun k =>
    modify (fun c => { c with RK := k }) >>= fun _ =>
    modify (fun c' => { c' with stepPC := 0, Cycles := if e then c'.Cycles - 1 else c'.Cycles }) >>= fun _ => modify finishRegs

theorem rtiRest_ref (e : Bool) (g : Regs) (hgE : g.E = false) :
    ∃ s3, rtiRest e ⟨g, ⟨f, w⟩⟩ = some ((), s3) ∧
      abs s3 = (let a2 := absR g f w
                let (t, a3) := WDC.pull16 a2
                let (b, a4) := WDC.pull8 a3
                { a4 with PC := t, PBR := b }) := by
  unfold rtiRest; simp only [bind_assoc]
  simp [bind_eq', pull, pull16, nRead, eaRead_bind, eaRead_run, lin_lt, hgE, abs, absR, finishRegs, WDC.pull8, WDC.pull16, WDC.rd,
    srcC, srcX, srcY]

theorem pull_bind_native {β : Type} (r : Regs) (m : Mem) (k : U8 → Ex β) (h : r.E = false) :
    (pull >>= k) ⟨r, m⟩ = k (m.f (lin 0 (r.SP + 1))) ⟨{ r with SP := r.SP + 1 }, m⟩ := by
  unfold pull
  simp only [bind_assoc, modify_bind, get_bind, nRead, h]
  rw [eaRead_bind _ _ _ (lin_lt _ _)]
  rfl

theorem rti_split (r : Regs) (m : Mem) (h : r.E = false) :
    tail .rti ⟨r, m⟩ = rtiRest false ⟨setFlags (m.f (lin 0 (r.SP + 1))) { r with SP := r.SP + 1 }, m⟩ := by
  unfold tail runP rtiRest
  simp only [get_bind, bind_assoc]
  conv => lhs; rw [h]
  unfold rtiBody
  simp only [Bool.false_eq_true, if_false, bind_assoc]
  rw [pull_bind_native _ _ _ h, modify_bind]

theorem rti_ref (hE : c.E = false) : RefF c f w sz cyc ea addr am .rti
    (let a := absR c f w
     let (p, a1) := WDC.pull8 a
     let a2 := WDC.setP a1 p
     let (t, a3) := WDC.pull16 a2
     let (b, a4) := WDC.pull8 a3
     { a4 with PC := t, PBR := b }) := by
  have e1 : (dec c sz cyc ea addr am).E = false := hE
  have hf := setFlags_frame { dec c sz cyc ea addr am with SP := (dec c sz cyc ea addr am).SP + 1 } (f (lin 0 ((dec c sz cyc ea addr am).SP + 1)))
  have hgE : (setFlags (f (lin 0 ((dec c sz cyc ea addr am).SP + 1))) { dec c sz cyc ea addr am with SP := (dec c sz cyc ea addr am).SP + 1 }).E = false := by
    rw [hf.2.2.2.1]; exact hE
  obtain ⟨s3, h1, h2⟩ := rtiRest_ref f w false _ hgE
  clear hf hgE
  refine ⟨s3, ?_, ?_⟩
  · rw [rti_split _ _ e1]; exact h1
  · rw [h2, setFlags_abs _ _ _ _ (by simp [dec, hE])]
    simp [WDC.pull8, WDC.rd, absR, dec, srcC, srcX, srcY] <;> (repeat' constructor) <;> rfl

end Cpu
