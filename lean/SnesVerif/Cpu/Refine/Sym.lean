/-
Symbolic execution of the interpreter monad by rewriting, and the byte/word vocabulary shared by model and spec.
-/
import SnesVerif.Cpu.Abs
import SnesVerif.Cpu.Total
namespace Cpu

/-! ### bytes and words -/

theorem zx_toNat (b : U8) : (zx b).toNat = b.toNat := by
  unfold zx; simp [BitVec.toNat_setWidth]; omega

theorem mk16_toNat (h l : U8) : (mk16 h l).toNat = h.toNat * 256 + l.toNat := by
  unfold mk16
  rw [BitVec.toNat_or, BitVec.toNat_shiftLeft, zx_toNat, zx_toNat]
  have hh := h.isLt; have hl := l.isLt
  rw [Nat.shiftLeft_eq, Nat.mod_eq_of_lt (by omega)]
  rw [show h.toNat * 2 ^ 8 = h.toNat <<< 8 from (Nat.shiftLeft_eq _ _).symm]
  rw [← Nat.shiftLeft_add_eq_or_of_lt (by omega : l.toNat < 2 ^ 8)]

theorem lo8_toNat (w : U16) : (lo8 w).toNat = w.toNat % 256 := by
  unfold lo8; simp [BitVec.toNat_setWidth]

theorem hi8_toNat (w : U16) : (hi8 w).toNat = w.toNat / 256 := by
  unfold hi8
  simp [BitVec.toNat_setWidth, BitVec.toNat_ushiftRight, Nat.shiftRight_eq_div_pow]
  have := w.isLt; omega

@[simp] theorem lo8_mk16 (h l : U8) : lo8 (mk16 h l) = l := by
  apply BitVec.eq_of_toNat_eq; rw [lo8_toNat, mk16_toNat]; have := l.isLt; omega
@[simp] theorem hi8_mk16 (h l : U8) : hi8 (mk16 h l) = h := by
  apply BitVec.eq_of_toNat_eq; rw [hi8_toNat, mk16_toNat]; have := l.isLt; omega
@[simp] theorem mk16_hi_lo (w : U16) : mk16 (hi8 w) (lo8 w) = w := by
  apply BitVec.eq_of_toNat_eq; rw [mk16_toNat, hi8_toNat, lo8_toNat]; omega
@[simp] theorem lo8_zx (b : U8) : lo8 (zx b) = b := by
  apply BitVec.eq_of_toNat_eq; rw [lo8_toNat, zx_toNat]; have := b.isLt; omega
@[simp] theorem hi8_zx (b : U8) : hi8 (zx b) = 0 := by
  apply BitVec.eq_of_toNat_eq; rw [hi8_toNat, zx_toNat]; have := b.isLt; simp; omega
theorem zx_lo8 (w : U16) : zx (lo8 w) = w &&& 0x00FF := by
  apply BitVec.eq_of_toNat_eq
  rw [zx_toNat, lo8_toNat, BitVec.toNat_and]
  exact (Nat.and_two_pow_sub_one_eq_mod w.toNat 8).symm
theorem mk16_zero (l : U8) : mk16 0 l = zx l := by
  apply BitVec.eq_of_toNat_eq; rw [mk16_toNat, zx_toNat]; simp

/-- the spec's copies of the vocabulary are the same functions -/
@[simp] theorem wdc_zx : WDC.zx = zx := rfl
@[simp] theorem wdc_lo : WDC.lo = lo8 := rfl
@[simp] theorem wdc_hi : WDC.hi = hi8 := rfl
@[simp] theorem wdc_word : WDC.word = mk16 := rfl
@[simp] theorem wdc_addr24 : WDC.addr24 = lin := rfl

/-! ### the monad, step by step -/

theorem bind_eq' {α β : Type} (x : Ex α) (f : α → Ex β) (s : St) :
    (x >>= f) s = match x s with | none => none | some (a, s') => f a s' := rfl

@[simp] theorem pure_bind {α β : Type} (a : α) (f : α → Ex β) : ((pure a : Ex α) >>= f) = f a := rfl
@[simp] theorem pure_run {α : Type} (a : α) (s : St) : (pure a : Ex α) s = some (a, s) := rfl
@[simp] theorem get_bind {β : Type} (f : Regs → Ex β) (s : St) : (get >>= f) s = f s.r s := rfl
@[simp] theorem get_run (s : St) : get s = some (s.r, s) := rfl
@[simp] theorem modify_bind {β : Type} (g : Regs → Regs) (f : Unit → Ex β) (s : St) :
    (modify g >>= f) s = f () { s with r := g s.r } := rfl
@[simp] theorem modify_run (g : Regs → Regs) (s : St) : modify g s = some ((), { s with r := g s.r }) := rfl

theorem bind_assoc {α β γ : Type} (x : Ex α) (f : α → Ex β) (g : β → Ex γ) :
    ((x >>= f) >>= g) = (x >>= fun a => f a >>= g) := by
  funext s
  show (match (match x s with | none => none | some (a, s') => f a s') with | none => none | some (b, s'') => g b s'') =
       (match x s with | none => none | some (a, s') => (f a >>= g) s')
  cases x s with
  | none => rfl
  | some p => rfl

theorem ite_bind {α β : Type} (c : Prop) [Decidable c] (x y : Ex α) (f : α → Ex β) :
    ((if c then x else y) >>= f) = if c then x >>= f else y >>= f := by
  split <;> rfl

theorem ite_run {α : Type} (c : Prop) [Decidable c] (x y : Ex α) (s : St) :
    (if c then x else y) s = if c then x s else y s := by
  split <;> rfl

theorem eaRead_bind {β : Type} (a : Nat) (f : U8 → Ex β) (s : St) (h : a < 16777216) :
    (eaRead a >>= f) s = f (s.m.f a) s := by
  rw [bind_eq']; simp [eaRead, h]
theorem eaRead_run (a : Nat) (s : St) (h : a < 16777216) : eaRead a s = some (s.m.f a, s) := by
  simp [eaRead, h]
theorem eaWrite_bind {β : Type} (a : Nat) (v : U8) (f : Unit → Ex β) (s : St) (h : a < 16777216) :
    (eaWrite a v >>= f) s = f () { s with m := ⟨fun x => if x = a then v else s.m.f x, a :: s.m.wlog⟩ } := by
  rw [bind_eq']; simp [eaWrite, h]
theorem eaWrite_run (a : Nat) (v : U8) (s : St) (h : a < 16777216) :
    eaWrite a v s = some ((), { s with m := ⟨fun x => if x = a then v else s.m.f x, a :: s.m.wlog⟩ }) := by
  simp [eaWrite, h]

end Cpu
