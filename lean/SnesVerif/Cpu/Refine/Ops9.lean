/- binary ADC / SBC -/
import SnesVerif.Cpu.Refine.Ops4
namespace Cpu
set_option maxRecDepth 100000
attribute [local irreducible] lin
open Spec (Mode Mnem)

variable (c : Regs) (f : Nat → U8) (w : List Nat) (sz : U16) (cyc : U8) (ea : Nat) (addr : U16) (am : AMode)

theorem ofNat8_mod (n : Nat) : BitVec.ofNat 8 (n % 256) = BitVec.ofNat 8 n := by
  apply BitVec.eq_of_toNat_eq; simp
theorem ofNat16_mod (n : Nat) : BitVec.ofNat 16 (n % 65536) = BitVec.ofNat 16 n := by
  apply BitVec.eq_of_toNat_eq; simp

theorem adcCore8_bin (x d : U8) (ci : Bool) :
    (BitVec.ofNat 8 (adcCore8 x.toNat d.toNat ci false).1, (adcCore8 x.toNat d.toNat ci false).2.1, (adcCore8 x.toNat d.toNat ci false).2.2)
      = WDC.adc8 x d ci := by
  unfold adcCore8 WDC.adc8 b2n
  simp [ofNat8_mod]
theorem adcCore16_bin (x d : U16) (ci : Bool) :
    (BitVec.ofNat 16 (adcCore16 x.toNat d.toNat ci false).1, (adcCore16 x.toNat d.toNat ci false).2.1, (adcCore16 x.toNat d.toNat ci false).2.2)
      = WDC.adc16 x d ci false := by
  unfold adcCore16 WDC.adc16 b2n
  simp [ofNat16_mod]

theorem sbc16_bin (x d : U16) (ci : Bool) : WDC.sbc16 x d ci false = WDC.adc16 x (~~~ d) ci false := by
  unfold WDC.sbc16 WDC.adc16; simp

theorem adc_ref (hd : am.isData = true) (hea : ea < 16777216) (hD : c.D = false) :
    Ref c f w sz cyc ea addr am .adc (WDC.addA (absR c f w) false (implLoc am c.RK c.RDBR addr ea)) := by
  unfold Ref tail runP op_adcLike; simp only [get_bind, bind_assoc]
  have e8 := fun x d => adcCore8_bin x d c.C
  have e16 := fun x d => adcCore16_bin x d c.C
  cases hM : c.M
  · simp [dec, hM, hD, bind_eq', cmdRead16_eq, hd, hea, curLoc, abs, absR, finishRegs, srcC, srcX, srcY, setZN16, WDC.addA,
      WDC.read16, WDC.rd, WDC.nz16, ← e16]
  · simp [dec, hM, hD, bind_eq', cmdRead_eq, hd, hea, curLoc, abs, absR, finishRegs, srcC, srcX, srcY, setZN8, WDC.addA,
      WDC.read8, WDC.rd, WDC.nz8, WDC.setAlo, ← e8]

theorem sbc_ref (hd : am.isData = true) (hea : ea < 16777216) (hD : c.D = false) :
    Ref c f w sz cyc ea addr am .sbc (WDC.addA (absR c f w) true (implLoc am c.RK c.RDBR addr ea)) := by
  unfold Ref tail runP op_adcLike; simp only [get_bind, bind_assoc]
  have e8 := fun x d => adcCore8_bin x d c.C
  have e16 := fun x d => adcCore16_bin x d c.C
  cases hM : c.M
  · simp [dec, hM, hD, bind_eq', cmdRead16_eq, hd, hea, curLoc, abs, absR, finishRegs, srcC, srcX, srcY, setZN16, WDC.addA,
      WDC.read16, WDC.rd, WDC.nz16, sbc16_bin, ← e16]
  · simp [dec, hM, hD, bind_eq', cmdRead_eq, hd, hea, curLoc, abs, absR, finishRegs, srcC, srcX, srcY, setZN8, WDC.addA,
      WDC.read8, WDC.rd, WDC.nz8, WDC.setAlo, WDC.sbc8, ← e8]

end Cpu
