/- status register instructions: PLP, REP, SEP, XCE; WDM; PEA / PEI -/
import SnesVerif.Cpu.Refine.Ops5
namespace Cpu
set_option maxRecDepth 100000
attribute [local irreducible] lin
open Spec (Mode Mnem)

variable (c : Regs) (f : Nat → U8) (w : List Nat) (sz : U16) (cyc : U8) (ea : Nat) (addr : U16) (am : AMode)

theorem getP_abs : WDC.getP (absR c f w) = flagsByte c := rfl

/-- `SetFlags` (with `ChangeRegisterSizes_X/_M`) is the architectural write of P in native mode -/
theorem setFlags_abs (p : U8) (hE : c.E = false) : absR (setFlags p c) f w = WDC.setP (absR c f w) p := by
  unfold setFlags WDC.setP WDC.normX absR tb
  cases hM : c.M <;> cases hX : c.X <;> cases h4 : p.getLsbD 4 <;> cases h5 : p.getLsbD 5 <;>
    simp [hE, hM, hX, h4, h5, srcC, srcX, srcY]

theorem setFlags_frame (p : U8) :
    (setFlags p c).PC = c.PC ∧ (setFlags p c).stepPC = c.stepPC ∧ (setFlags p c).SP = c.SP ∧ (setFlags p c).E = c.E ∧
    (setFlags p c).RK = c.RK ∧ (setFlags p c).RDBR = c.RDBR ∧ (setFlags p c).RD = c.RD := by
  unfold setFlags tb
  cases c.E <;> cases c.M <;> cases c.X <;> cases p.getLsbD 4 <;> cases p.getLsbD 5 <;> simp

theorem abs_finish (r : Regs) : absR (finishRegs r) f w = { absR r f w with PC := r.PC + r.stepPC } := rfl

theorem setP_PC (a : WDC.Arch) (p : U8) : (WDC.setP a p).PC = a.PC := by
  unfold WDC.setP WDC.normX; split <;> rfl

theorem arch_setPC_eq {a b : WDC.Arch} {pc : U16} (h : a = b) : ({ a with PC := pc } : WDC.Arch) = { b with PC := pc } := by rw [h]

theorem plp_ref (hE : c.E = false) : Ref c f w sz cyc ea addr am .plp
    (let a := absR c f w; let (v, a') := WDC.pull8 a; WDC.setP a' v) := by
  unfold Ref tail runP
  refine ⟨⟨finishRegs (setFlags (f (lin 0 (c.SP + 1))) { dec c sz cyc ea addr am with SP := c.SP + 1 }), ⟨f, w⟩⟩, ?_, ?_⟩
  · simp [pull, hE, dec, bind_eq', nRead, eaRead_bind, eaRead_run, lin_lt]
  · unfold abs
    rw [abs_finish, setFlags_abs _ _ _ _ (by simp [dec, hE])]
    simp only [(setFlags_frame _ _).1, (setFlags_frame _ _).2.1]
    apply arch_setPC_eq
    simp [WDC.pull8, WDC.rd, absR, dec, srcC, srcX, srcY] <;> rfl

theorem rep_ref (hE : c.E = false) (hea : ea < 16777216) : Ref c f w sz cyc ea addr am .rep
    (let a := absR c f w; WDC.setP a (WDC.getP a &&& ~~~ f ea)) := by
  unfold Ref tail runP
  refine ⟨⟨finishRegs (setFlags (flagsByte c &&& ~~~ f ea) (dec c sz cyc ea addr am)), ⟨f, w⟩⟩, ?_, ?_⟩
  · simp [rdEA, hea, dec, bind_eq', eaRead_bind, eaRead_run, flagsByte]
  · unfold abs
    rw [abs_finish, setFlags_abs _ _ _ _ (by simp [dec, hE])]
    simp only [(setFlags_frame _ _).1, (setFlags_frame _ _).2.1]
    apply arch_setPC_eq
    rfl

theorem sep_ref (hE : c.E = false) (hea : ea < 16777216) : Ref c f w sz cyc ea addr am .sep
    (let a := absR c f w; WDC.setP a (WDC.getP a ||| f ea)) := by
  unfold Ref tail runP
  refine ⟨⟨finishRegs (setFlags (flagsByte c ||| f ea) (dec c sz cyc ea addr am)), ⟨f, w⟩⟩, ?_, ?_⟩
  · simp [rdEA, hea, dec, bind_eq', eaRead_bind, eaRead_run, flagsByte]
  · unfold abs
    rw [abs_finish, setFlags_abs _ _ _ _ (by simp [dec, hE])]
    simp only [(setFlags_frame _ _).1, (setFlags_frame _ _).2.1]
    apply arch_setPC_eq
    rfl

theorem wdm_ref (hd : am.isData = true) (hea : ea < 16777216) : Ref c f w sz cyc ea addr am .wdm (absR c f w) := by
  imp_tac; ref_tac

theorem pea_ref (hE : c.E = false) (hd : am.isData = true) (hea : ea < 16777216) : Ref c f w sz cyc ea addr am .pea
    (let a := absR c f w; WDC.push16 a (WDC.read16 a (implLoc am c.RK c.RDBR addr ea))) := by
  imp_tac; simp [WDC.read16] ; stk_tac <;> rfl

theorem xce_ref (hE : c.E = false) : Ref c f w sz cyc ea addr am .xce
    (let a := absR c f w
     if a.fC then WDC.normX { a with E := true, fC := a.E, fM := true, fX := true, S := 0x0100 ||| (a.S &&& 0x00FF) }
     else { a with E := false, fC := a.E }) := by
  imp_tac
  cases hC : c.C <;> cases hM : c.M <;> cases hX : c.X <;>
    simp [dec, hE, hC, hM, hX, abs, absR, finishRegs, setFlags, flagsByte, tb, bit, srcC, srcX, srcY, WDC.normX, zx_lo8] <;>
    (cases c.Z <;> cases c.I <;> cases c.D <;> cases c.V <;> cases c.N <;> decide)

end Cpu
