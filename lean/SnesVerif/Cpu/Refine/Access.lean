/-
Where the operand accessors of the interpreters (`cmdRead`, `cmdRead16`, `cmdWrite`, `cmdWrite16`) touch memory,
as a pure function of `StepInfo` and the bank registers.
-/
import SnesVerif.Cpu.Refine.Sym
namespace Cpu
set_option maxRecDepth 100000

/-- the data location denoted by `StepInfo{Mode, Addr, EA}` -/
def implLoc (m : AMode) (rk dbr : U8) (addr : U16) (ea : Nat) : WDC.Loc :=
  match m with
  | .Immediate | .Immediate_flagM | .Immediate_flagX => ⟨lin rk addr, lin rk (addr + 1)⟩
  | .DP | .DP_X | .DP_Y | .Stack_Relative => ⟨lin 0 addr, lin 0 (addr + 1)⟩
  | .DP_Indirect_Long | .DP_Indirect_Long_Y | .Absolute_Long | .Absolute_Long_X | .Absolute_X | .Absolute_Y
  | .DP_Indirect_Y | .Stack_Relative_Indirect_Y => ⟨ea, (ea + 1) % 16777216⟩
  | .Absolute | .DP_X_Indirect | .DP_Indirect => ⟨lin dbr addr, (lin dbr addr + 1) % 16777216⟩
  | _ => ⟨0, 0⟩

/-- the modes through which data is read (everything `implLoc` covers) -/
def AMode.isData : AMode → Bool
  | .Immediate | .Immediate_flagM | .Immediate_flagX | .DP | .DP_X | .DP_Y | .Stack_Relative
  | .DP_Indirect_Long | .DP_Indirect_Long_Y | .Absolute_Long | .Absolute_Long_X | .Absolute_X | .Absolute_Y
  | .DP_Indirect_Y | .Stack_Relative_Indirect_Y | .Absolute | .DP_X_Indirect | .DP_Indirect => true
  | _ => false

/-- … and written (no immediates) -/
def AMode.isStore : AMode → Bool
  | .DP | .DP_X | .DP_Y | .Stack_Relative
  | .DP_Indirect_Long | .DP_Indirect_Long_Y | .Absolute_Long | .Absolute_Long_X | .Absolute_X | .Absolute_Y
  | .DP_Indirect_Y | .Stack_Relative_Indirect_Y | .Absolute | .DP_X_Indirect | .DP_Indirect => true
  | _ => false

theorem lin_zero (a : U16) : lin 0 a = a.toNat := by unfold lin; simp



def curLoc (c : Regs) : WDC.Loc := implLoc c.Mode c.RK c.RDBR c.Addr c.EA

theorem cmdRead_eq (s : St) (hm : s.r.Mode.isData = true) (hea : s.r.EA < 16777216) :
    cmdRead s = some (s.m.f (curLoc s.r).lo, s) := by
  unfold cmdRead curLoc implLoc
  rw [get_bind]
  cases h : s.r.Mode <;> rw [h] at hm <;> first | (cases hm; done) | skip
  all_goals simp only [nRead, rdEA, eaRead_run, lin_lt, hea, lin_zero, u16_lt]

theorem cmdRead16_eq (s : St) (hm : s.r.Mode.isData = true) (hea : s.r.EA < 16777216) :
    cmdRead16 s = some (mk16 (s.m.f (curLoc s.r).hi) (s.m.f (curLoc s.r).lo), s) := by
  unfold cmdRead16 curLoc implLoc
  rw [get_bind]
  cases h : s.r.Mode <;> rw [h] at hm <;> first | (cases hm; done) | skip
  all_goals simp only [nRead16_wrap, nRead16_cross, rdEA16, eaRead16, eaRead_bind, pure_run, lin_lt, hea, mod_lt]

theorem cmdWrite_eq (s : St) (v : U8) (hm : s.r.Mode.isStore = true) (hea : s.r.EA < 16777216) :
    cmdWrite v s = some ((), { s with m := ⟨fun x => if x = (curLoc s.r).lo then v else s.m.f x, (curLoc s.r).lo :: s.m.wlog⟩ }) := by
  unfold cmdWrite curLoc implLoc
  rw [get_bind]
  cases h : s.r.Mode <;> rw [h] at hm <;> first | (cases hm; done) | skip
  all_goals simp only [nWrite, wrEA, eaWrite_run, lin_lt, hea, lin_zero, u16_lt]

theorem cmdWrite16_eq (s : St) (v : U16) (hm : s.r.Mode.isStore = true) (hea : s.r.EA < 16777216) :
    cmdWrite16 v s = some ((), { s with m :=
      ⟨fun x => if x = (curLoc s.r).hi then hi8 v else if x = (curLoc s.r).lo then lo8 v else s.m.f x,
       (curLoc s.r).hi :: (curLoc s.r).lo :: s.m.wlog⟩ }) := by
  unfold cmdWrite16 curLoc implLoc
  rw [get_bind]
  cases h : s.r.Mode <;> rw [h] at hm <;> first | (cases hm; done) | skip
  all_goals simp only [nWrite16_wrap, nWrite16_cross, wrEA16, eaWrite16, eaWrite_bind, eaWrite_run, lin_lt, hea, mod_lt]

end Cpu
