/- BIT, stores, read-modify-write, TRB/TSB -/
import SnesVerif.Cpu.Refine.Tac
namespace Cpu
set_option maxRecDepth 100000
attribute [local irreducible] lin
open Spec (Mode Mnem)

variable (c : Regs) (f : Nat → U8) (w : List Nat) (sz : U16) (cyc : U8) (ea : Nat) (addr : U16) (am : AMode)

/-- BIT: the immediate form touches only Z -/
theorem bit_ref (hd : am.isData = true) (hea : ea < 16777216) :
    ∃ s3, tail .bit ⟨dec c sz cyc ea addr am, ⟨f, w⟩⟩ = some ((), s3) ∧
      abs s3 = { (let a := absR c f w
                  let l := implLoc am c.RK c.RDBR addr ea
                  if a.fM then
                    let m := WDC.read8 a l
                    let a' := { a with fZ := (WDC.lo a.A &&& m) == 0 }
                    if am = .Immediate_flagM then a' else { a' with fN := m.getLsbD 7, fV := m.getLsbD 6 }
                  else
                    let m := WDC.read16 a l
                    let a' := { a with fZ := (a.A &&& m) == 0 }
                    if am = .Immediate_flagM then a' else { a' with fN := m.getLsbD 15, fV := m.getLsbD 14 })
                 with PC := c.PC + sz } := by
  unfold tail runP; simp only [get_bind, bind_assoc]
  have h0 : AMode.isData .Immediate_flagM = true := rfl
  cases hM : c.M <;> by_cases hi : am = .Immediate_flagM <;> (try subst hi) <;> ref_tac

theorem sta_ref (hd : am.isStore = true) (hea : ea < 16777216) :
    ∃ s3, tail .sta ⟨dec c sz cyc ea addr am, ⟨f, w⟩⟩ = some ((), s3) ∧
      abs s3 = { WDC.storeReg (absR c f w) (implLoc am c.RK c.RDBR addr ea) c.M (srcC c) with PC := c.PC + sz } := by
  unfold tail runP; simp only [get_bind, bind_assoc]
  cases hM : c.M <;> ref_tac <;> rfl

theorem stx_ref (hd : am.isStore = true) (hea : ea < 16777216) :
    ∃ s3, tail .stx ⟨dec c sz cyc ea addr am, ⟨f, w⟩⟩ = some ((), s3) ∧
      abs s3 = { WDC.storeReg (absR c f w) (implLoc am c.RK c.RDBR addr ea) c.X (srcX c) with PC := c.PC + sz } := by
  unfold tail runP; simp only [get_bind, bind_assoc]
  cases hX : c.X <;> ref_tac <;> rfl

theorem sty_ref (hd : am.isStore = true) (hea : ea < 16777216) :
    ∃ s3, tail .sty ⟨dec c sz cyc ea addr am, ⟨f, w⟩⟩ = some ((), s3) ∧
      abs s3 = { WDC.storeReg (absR c f w) (implLoc am c.RK c.RDBR addr ea) c.X (srcY c) with PC := c.PC + sz } := by
  unfold tail runP; simp only [get_bind, bind_assoc]
  cases hX : c.X <;> ref_tac <;> rfl

theorem stz_ref (hd : am.isStore = true) (hea : ea < 16777216) :
    ∃ s3, tail .stz ⟨dec c sz cyc ea addr am, ⟨f, w⟩⟩ = some ((), s3) ∧
      abs s3 = { WDC.storeReg (absR c f w) (implLoc am c.RK c.RDBR addr ea) c.M 0 with PC := c.PC + sz } := by
  unfold tail runP; simp only [get_bind, bind_assoc]
  cases hM : c.M <;> ref_tac <;> rfl

theorem trb_ref (hd : am.isStore = true) (hea : ea < 16777216) :
    ∃ s3, tail .trb ⟨dec c sz cyc ea addr am, ⟨f, w⟩⟩ = some ((), s3) ∧
      abs s3 = { (let a := absR c f w
                  let l := implLoc am c.RK c.RDBR addr ea
                  if a.fM then
                    let m := WDC.read8 a l
                    WDC.write8 { a with fZ := (m &&& WDC.lo a.A) == 0 } l (m &&& ~~~ WDC.lo a.A)
                  else
                    let m := WDC.read16 a l
                    WDC.write16 { a with fZ := (m &&& a.A) == 0 } l (m &&& ~~~ a.A))
                 with PC := c.PC + sz } := by
  have hd' : am.isData = true := by cases am <;> first | rfl | cases hd
  unfold tail runP; simp only [get_bind, bind_assoc]
  cases hM : c.M <;> ref_tac <;> rfl

theorem tsb_ref (hd : am.isStore = true) (hea : ea < 16777216) :
    ∃ s3, tail .tsb ⟨dec c sz cyc ea addr am, ⟨f, w⟩⟩ = some ((), s3) ∧
      abs s3 = { (let a := absR c f w
                  let l := implLoc am c.RK c.RDBR addr ea
                  if a.fM then
                    let m := WDC.read8 a l
                    WDC.write8 { a with fZ := (m &&& WDC.lo a.A) == 0 } l (m ||| WDC.lo a.A)
                  else
                    let m := WDC.read16 a l
                    WDC.write16 { a with fZ := (m &&& a.A) == 0 } l (m ||| a.A))
                 with PC := c.PC + sz } := by
  have hd' : am.isData = true := by cases am <;> first | rfl | cases hd
  unfold tail runP; simp only [get_bind, bind_assoc]
  cases hM : c.M <;> ref_tac <;> rfl

end Cpu
