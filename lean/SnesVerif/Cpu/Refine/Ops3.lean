/- read-modify-write: ASL LSR ROL ROR INC DEC on memory and on the accumulator -/
import SnesVerif.Cpu.Refine.Tac
namespace Cpu
set_option maxRecDepth 100000
attribute [local irreducible] lin
open Spec (Mode Mnem)

variable (c : Regs) (f : Nat → U8) (w : List Nat) (sz : U16) (cyc : U8) (ea : Nat) (addr : U16) (am : AMode)

/-- `WDC.rmwOp` on a memory location -/
def rmwMem (a : WDC.Arch) (l : WDC.Loc) (f8 : U8 → Bool → U8 × Option Bool) (f16 : U16 → Bool → U16 × Option Bool) : WDC.Arch :=
  if a.fM then
    let r := f8 (WDC.read8 a l) a.fC
    let a := match r.2 with | some c => { a with fC := c } | none => a
    WDC.nz8 (WDC.write8 a l r.1) r.1
  else
    let r := f16 (WDC.read16 a l) a.fC
    let a := match r.2 with | some c => { a with fC := c } | none => a
    WDC.nz16 (WDC.write16 a l r.1) r.1

/-- `WDC.rmwOp` on the accumulator -/
def rmwAcc (a : WDC.Arch) (f8 : U8 → Bool → U8 × Option Bool) (f16 : U16 → Bool → U16 × Option Bool) : WDC.Arch :=
  if a.fM then
    let r := f8 (WDC.lo a.A) a.fC
    let a := match r.2 with | some c => { a with fC := c } | none => a
    WDC.nz8 (WDC.setAlo a r.1) r.1
  else
    let r := f16 a.A a.fC
    let a := match r.2 with | some c => { a with fC := c } | none => a
    WDC.nz16 { a with A := r.1 } r.1

theorem rmwOp_acc (a : WDC.Arch) f8 f16 : WDC.rmwOp a .acc f8 f16 = rmwAcc a f8 f16 := by
  unfold WDC.rmwOp rmwAcc; simp only [if_true]; rfl
theorem rmwOp_mem (a : WDC.Arch) (md : Mode) (h : md ≠ .acc) f8 f16 :
    WDC.rmwOp a md f8 f16 = rmwMem a (WDC.resolve a md) f8 f16 := by
  unfold WDC.rmwOp rmwMem; simp only [h, if_false]; rfl

/-- the interpreters' `rmw` helper against the spec's, for functions that agree -/
theorem rmw_mem_ref (g8 : U8 → Bool → U8 × Bool) (g16 : U16 → Bool → U16 × Bool) (setC : Bool)
    (f8 : U8 → Bool → U8 × Option Bool) (f16 : U16 → Bool → U16 × Option Bool)
    (h8 : ∀ v ci, f8 v ci = ((g8 v ci).1, if setC then some (g8 v ci).2 else none))
    (h16 : ∀ v ci, f16 v ci = ((g16 v ci).1, if setC then some (g16 v ci).2 else none))
    (hd : am.isStore = true) (hea : ea < 16777216) :
    ∃ s3, (rmw g8 g16 setC >>= fun _ => modify finishRegs) ⟨dec c sz cyc ea addr am, ⟨f, w⟩⟩ = some ((), s3) ∧
      abs s3 = { rmwMem (absR c f w) (implLoc am c.RK c.RDBR addr ea) f8 f16 with PC := c.PC + sz } := by
  have hd' : am.isData = true := by cases am <;> first | rfl | cases hd
  have hna : ((dec c sz cyc ea addr am).Mode == AMode.Accumulator) = false := by
    show (am == AMode.Accumulator) = false
    cases am <;> first | rfl | cases hd
  unfold rmw rmwMem; simp only [get_bind, bind_assoc, hna]
  cases hM : c.M <;> cases setC <;> ref_tac <;> rfl

theorem rmw_acc_ref (g8 : U8 → Bool → U8 × Bool) (g16 : U16 → Bool → U16 × Bool) (setC : Bool)
    (f8 : U8 → Bool → U8 × Option Bool) (f16 : U16 → Bool → U16 × Option Bool)
    (h8 : ∀ v ci, f8 v ci = ((g8 v ci).1, if setC then some (g8 v ci).2 else none))
    (h16 : ∀ v ci, f16 v ci = ((g16 v ci).1, if setC then some (g16 v ci).2 else none)) :
    ∃ s3, (rmw g8 g16 setC >>= fun _ => modify finishRegs) ⟨dec c sz cyc ea addr .Accumulator, ⟨f, w⟩⟩ = some ((), s3) ∧
      abs s3 = { rmwAcc (absR c f w) f8 f16 with PC := c.PC + sz } := by
  have hna : ((dec c sz cyc ea addr .Accumulator).Mode == AMode.Accumulator) = true := rfl
  unfold rmw rmwAcc; simp only [get_bind, bind_assoc, hna]
  cases hM : c.M <;> cases setC <;> ref_tac

end Cpu
