import SnesVerif.Cpu.Refine.Glue
import SnesVerif.Cpu.Refine.Ops10
namespace Cpu
set_option maxRecDepth 100000
open Spec (Mode Mnem)

variable (c : Regs) (f : Nat → U8) (w : List Nat)

theorem mvn_glue : mvSpec (absR c f w) (implInfo .blockMove c f).1 (BitVec.ofNat 16 (Spec.instrLen .blockMove c.M c.X)) true =
    WDC.exec (absR c f w) .mvn .blockMove := by
  unfold mvSpec WDC.exec
  simp only [implInfo, pc12, WDC.op1, WDC.op2, WDC.rd, wdc_addr24, wdc_lo, wdc_zx]
  rfl
theorem mvp_glue : mvSpec (absR c f w) (implInfo .blockMove c f).1 (BitVec.ofNat 16 (Spec.instrLen .blockMove c.M c.X)) false =
    WDC.exec (absR c f w) .mvp .blockMove := by
  unfold mvSpec WDC.exec
  simp only [implInfo, pc12, WDC.op1, WDC.op2, WDC.rd, wdc_addr24, wdc_lo, wdc_zx]
  rfl

end Cpu
