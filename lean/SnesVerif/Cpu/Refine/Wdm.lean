/- WDM: the routine latches the operand byte (the byte after the opcode) into the WDM register, which `OnWDM` receives -/
import SnesVerif.Cpu.Refine.Tac
namespace Cpu
set_option maxRecDepth 100000
attribute [local irreducible] lin

theorem wdm_latches (c : Regs) (f : Nat → U8) (w : List Nat) (sz : U16) (cyc : U8) (ea : Nat) (addr : U16)
    (hea : ea < 16777216) :
    ∃ s3, tail .wdm ⟨dec c sz cyc ea addr .Immediate, ⟨f, w⟩⟩ = some ((), s3) ∧ s3.r.WDM = f (lin c.RK addr) ∧ s3.m = ⟨f, w⟩ := by
  unfold tail runP
  have hr := cmdRead_eq ⟨dec c sz cyc ea addr .Immediate, ⟨f, w⟩⟩ rfl hea
  simp only [bind_assoc]
  rw [bind_eq', hr]
  exact ⟨_, rfl, rfl, rfl⟩

end Cpu
