import SnesVerif.Cpu.Refine.Step2
namespace Cpu
set_option maxRecDepth 100000
attribute [local irreducible] lin
open Spec (Mode Mnem)

section
variable (md : Mode) (c : Regs) (f : Nat → U8) (w : List Nat) (cyc : U8) (sz : U16)
  (hsz : sz = BitVec.ofNat 16 (Spec.instrLen md c.M c.X))

include hsz

theorem bit_goal (hok : modeOK .bit md = true) : Goal md c f w cyc sz .bit := by
  have hd := isData_amodeOf md hok
  obtain ⟨s3, h1, h2⟩ := bit_ref c f w sz cyc ((implInfo md c f).2 % 16777216) (implInfo md c f).1 (amodeOf md) hd (mod_lt _)
  refine ⟨s3, h1, ?_⟩
  rw [h2, implLoc_resolve md hok c f w, hsz]
  cases md <;> first | (cases hok; done) | rfl

theorem adc_goal (hok : modeOK .adc md = true) (hD : c.D = false) : Goal md c f w cyc sz .adc := by
  have hd := isData_amodeOf md hok
  obtain ⟨s3, h1, h2⟩ := adc_ref c f w sz cyc ((implInfo md c f).2 % 16777216) (implInfo md c f).1 (amodeOf md) hd (mod_lt _) hD
  refine ⟨s3, h1, ?_⟩
  rw [h2, implLoc_resolve md hok c f w, hsz]; rfl
theorem sbc_goal (hok : modeOK .sbc md = true) (hD : c.D = false) : Goal md c f w cyc sz .sbc := by
  have hd := isData_amodeOf md hok
  obtain ⟨s3, h1, h2⟩ := sbc_ref c f w sz cyc ((implInfo md c f).2 % 16777216) (implInfo md c f).1 (amodeOf md) hd (mod_lt _) hD
  refine ⟨s3, h1, ?_⟩
  rw [h2, implLoc_resolve md hok c f w, hsz]; rfl

/-- one read-modify-write mnemonic, given that its two pairs of functions agree -/
theorem rmw_goal (mn : Mnem) (g8 : U8 → Bool → U8 × Bool) (g16 : U16 → Bool → U16 × Bool) (setC : Bool)
    (f8 : U8 → Bool → U8 × Option Bool) (f16 : U16 → Bool → U16 × Option Bool)
    (hp : runP (procOf mn) = rmw g8 g16 setC)
    (he : ∀ a : WDC.Arch, WDC.exec a mn md =
      { WDC.rmwOp a md f8 f16 with PC := a.PC + BitVec.ofNat 16 (Spec.instrLen md a.fM a.fX) })
    (h8 : ∀ v ci, f8 v ci = ((g8 v ci).1, if setC then some (g8 v ci).2 else none))
    (h16 : ∀ v ci, f16 v ci = ((g16 v ci).1, if setC then some (g16 v ci).2 else none))
    (hok : (md == .acc || Mode.isStore md) = true) : Goal md c f w cyc sz mn := by
  unfold Goal tail
  rw [hp, he]
  by_cases hacc : md = .acc
  · subst hacc
    obtain ⟨s3, h1, h2⟩ := rmw_acc_ref c f w sz cyc ((implInfo .acc c f).2 % 16777216) (implInfo .acc c f).1 g8 g16 setC f8 f16 h8 h16
    refine ⟨s3, h1, ?_⟩
    rw [h2, rmwOp_acc, hsz]; rfl
  · have hst : Mode.isStore md = true := by
      cases md <;> first | rfl | (exfalso; exact hacc rfl) | cases hok
    obtain ⟨s3, h1, h2⟩ := rmw_mem_ref c f w sz cyc ((implInfo md c f).2 % 16777216) (implInfo md c f).1 (amodeOf md)
      g8 g16 setC f8 f16 h8 h16 (isStore_amodeOf md hst) (mod_lt _)
    refine ⟨s3, h1, ?_⟩
    rw [h2, rmwOp_mem _ _ hacc, implLoc_resolve md (isData_of_isStore md hst) c f w, hsz]; rfl

end

theorem ite_with_PC (p : Prop) [Decidable p] (x y : WDC.Arch) (q : U16) :
    ({ (if p then x else y) with PC := q } : WDC.Arch) = if p then { x with PC := q } else { y with PC := q } := by
  split <;> rfl

end Cpu
