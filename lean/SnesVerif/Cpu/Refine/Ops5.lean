/- stack instructions and the transfers to S (native mode: 16-bit stack pointer) -/
import SnesVerif.Cpu.Refine.Ops4
namespace Cpu
set_option maxRecDepth 100000
attribute [local irreducible] lin
open Spec (Mode Mnem)

variable (c : Regs) (f : Nat → U8) (w : List Nat) (sz : U16) (cyc : U8) (ea : Nat) (addr : U16) (am : AMode)

macro "stk_tac" : tactic => `(tactic|
  simp [dec, bind_eq', push, pull, push16, pull16, nRead, nWrite, nRead16_wrap, eaRead_bind, eaWrite_bind, eaRead_run, eaWrite_run, lin_lt,
    cmdRead16_eq, curLoc, abs, absR, finishRegs, flagsByte, setFlags,
    srcC, srcX, srcY, setZN8, setZN16, WDC.push8, WDC.push16, WDC.pull8, WDC.pull16, WDC.wr, WDC.rd, WDC.nz8, WDC.nz16, WDC.setAlo,
    WDC.setIdx, WDC.xv, WDC.yv, WDC.getP, WDC.b2u, bit, *])

theorem txs_ref (hE : c.E = false) : Ref c f w sz cyc ea addr am .txs (let a := absR c f w; { a with S := WDC.xv a }) := by
  imp_tac; cases hX : c.X <;> stk_tac
theorem tcs_ref (hE : c.E = false) : Ref c f w sz cyc ea addr am .tcs (let a := absR c f w; { a with S := a.A }) := by
  imp_tac; cases hM : c.M <;> stk_tac

theorem pha_ref (hE : c.E = false) : Ref c f w sz cyc ea addr am .pha
    (let a := absR c f w; if a.fM then WDC.push8 a (WDC.lo a.A) else WDC.push16 a a.A) := by
  imp_tac; cases hM : c.M <;> stk_tac <;> rfl
theorem phx_ref (hE : c.E = false) : Ref c f w sz cyc ea addr am .phx
    (let a := absR c f w; if a.fX then WDC.push8 a (WDC.lo a.X) else WDC.push16 a a.X) := by
  imp_tac; cases hX : c.X <;> stk_tac <;> rfl
theorem phy_ref (hE : c.E = false) : Ref c f w sz cyc ea addr am .phy
    (let a := absR c f w; if a.fX then WDC.push8 a (WDC.lo a.Y) else WDC.push16 a a.Y) := by
  imp_tac; cases hX : c.X <;> stk_tac <;> rfl
theorem php_ref (hE : c.E = false) : Ref c f w sz cyc ea addr am .php (let a := absR c f w; WDC.push8 a (WDC.getP a)) := by
  imp_tac; stk_tac <;> rfl
theorem phb_ref (hE : c.E = false) : Ref c f w sz cyc ea addr am .phb (let a := absR c f w; WDC.push8 a a.DBR) := by
  imp_tac; stk_tac <;> rfl
theorem phk_ref (hE : c.E = false) : Ref c f w sz cyc ea addr am .phk (let a := absR c f w; WDC.push8 a a.PBR) := by
  imp_tac; stk_tac <;> rfl
theorem phd_ref (hE : c.E = false) : Ref c f w sz cyc ea addr am .phd (let a := absR c f w; WDC.push16 a a.D) := by
  imp_tac; stk_tac <;> rfl
theorem per_ref (hE : c.E = false) : Ref c f w sz cyc ea addr am .per (let a := absR c f w; WDC.push16 a addr) := by
  imp_tac; stk_tac <;> rfl

theorem pla_ref (hE : c.E = false) : Ref c f w sz cyc ea addr am .pla
    (let a := absR c f w
     if a.fM then let (v, a') := WDC.pull8 a; WDC.nz8 (WDC.setAlo a' v) v
     else let (v, a') := WDC.pull16 a; WDC.nz16 { a' with A := v } v) := by
  imp_tac; cases hM : c.M <;> stk_tac
theorem plx_ref (hE : c.E = false) : Ref c f w sz cyc ea addr am .plx
    (let a := absR c f w
     if a.fX then let (v, a') := WDC.pull8 a; WDC.setIdx a' true (zx v) else let (v, a') := WDC.pull16 a; WDC.setIdx a' true v) := by
  imp_tac; cases hX : c.X <;> stk_tac
theorem ply_ref (hE : c.E = false) : Ref c f w sz cyc ea addr am .ply
    (let a := absR c f w
     if a.fX then let (v, a') := WDC.pull8 a; WDC.setIdx a' false (zx v) else let (v, a') := WDC.pull16 a; WDC.setIdx a' false v) := by
  imp_tac; cases hX : c.X <;> stk_tac
theorem plb_ref (hE : c.E = false) : Ref c f w sz cyc ea addr am .plb
    (let a := absR c f w; let (v, a') := WDC.pull8 a; WDC.nz8 { a' with DBR := v } v) := by
  imp_tac; stk_tac
theorem pld_ref (hE : c.E = false) : Ref c f w sz cyc ea addr am .pld
    (let a := absR c f w; let (v, a') := WDC.pull16 a; WDC.nz16 { a' with D := v } v) := by
  imp_tac; stk_tac

end Cpu
