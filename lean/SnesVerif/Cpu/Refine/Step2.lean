import SnesVerif.Cpu.Refine.Step
namespace Cpu
set_option maxRecDepth 100000
attribute [local irreducible] lin
open Spec (Mode Mnem)

set_option hygiene false in
macro "data_case" lem:ident : tactic => `(tactic| (
  have hd := isData_amodeOf md hok
  obtain ⟨s3, h1, h2⟩ := $lem c f w sz cyc ((implInfo md c f).2 % 16777216) (implInfo md c f).1 (amodeOf md) hd (mod_lt _)
  refine ⟨s3, h1, ?_⟩
  rw [h2, implLoc_resolve md hok c f w, hsz]; rfl))

set_option hygiene false in
macro "store_case" lem:ident : tactic => `(tactic| (
  have hd := isStore_amodeOf md hok
  obtain ⟨s3, h1, h2⟩ := $lem c f w sz cyc ((implInfo md c f).2 % 16777216) (implInfo md c f).1 (amodeOf md) hd (mod_lt _)
  refine ⟨s3, h1, ?_⟩
  rw [h2, implLoc_resolve md (isData_of_isStore md hok) c f w, hsz]; rfl))

set_option hygiene false in
macro "imp_case" lem:term : tactic => `(tactic| (
  obtain ⟨s3, h1, h2⟩ := $lem
  refine ⟨s3, h1, ?_⟩
  rw [h2, hsz]; rfl))

section
variable (md : Mode) (c : Regs) (f : Nat → U8) (w : List Nat) (cyc : U8) (sz : U16)
  (hsz : sz = BitVec.ofNat 16 (Spec.instrLen md c.M c.X))

/-- goal shape -/
abbrev Goal (mn : Mnem) : Prop :=
  ∃ s3, tail (procOf mn) ⟨dec c sz cyc ((implInfo md c f).2 % 16777216) (implInfo md c f).1 (amodeOf md), ⟨f, w⟩⟩ = some ((), s3) ∧
    abs s3 = WDC.exec (absR c f w) mn md

include hsz
theorem lda_goal (hok : modeOK .lda md = true) : Goal md c f w cyc sz .lda := by data_case lda_ref
theorem and_goal (hok : modeOK .and md = true) : Goal md c f w cyc sz .and := by data_case and_ref
theorem ora_goal (hok : modeOK .ora md = true) : Goal md c f w cyc sz .ora := by data_case ora_ref
theorem eor_goal (hok : modeOK .eor md = true) : Goal md c f w cyc sz .eor := by data_case eor_ref
theorem cmp_goal (hok : modeOK .cmp md = true) : Goal md c f w cyc sz .cmp := by data_case cmp_ref
theorem cpx_goal (hok : modeOK .cpx md = true) : Goal md c f w cyc sz .cpx := by data_case cpx_ref
theorem cpy_goal (hok : modeOK .cpy md = true) : Goal md c f w cyc sz .cpy := by data_case cpy_ref
theorem ldx_goal (hok : modeOK .ldx md = true) : Goal md c f w cyc sz .ldx := by data_case ldx_ref
theorem ldy_goal (hok : modeOK .ldy md = true) : Goal md c f w cyc sz .ldy := by data_case ldy_ref
theorem sta_goal (hok : modeOK .sta md = true) : Goal md c f w cyc sz .sta := by store_case sta_ref
theorem stx_goal (hok : modeOK .stx md = true) : Goal md c f w cyc sz .stx := by store_case stx_ref
theorem sty_goal (hok : modeOK .sty md = true) : Goal md c f w cyc sz .sty := by store_case sty_ref
theorem stz_goal (hok : modeOK .stz md = true) : Goal md c f w cyc sz .stz := by store_case stz_ref
theorem trb_goal (hok : modeOK .trb md = true) : Goal md c f w cyc sz .trb := by store_case trb_ref
theorem tsb_goal (hok : modeOK .tsb md = true) : Goal md c f w cyc sz .tsb := by store_case tsb_ref
end
end Cpu
