/-
The location denoted by the interpreters' `StepInfo` is the location the WDC operand rules prescribe.
-/
import SnesVerif.Cpu.Refine.Decode
namespace Cpu
set_option maxRecDepth 100000
open Spec (Mode Mnem)

theorem pc12 (x : U16) : x + 1 + 1 = x + 2 := by rw [BitVec.add_assoc]; rfl
theorem pc13 (x : U16) : x + 1 + 2 = x + 3 := by rw [BitVec.add_assoc]; rfl

@[simp] theorem xv_abs (c : Regs) (f : Nat → U8) (w : List Nat) : WDC.xv (absR c f w) = srcX c := by
  unfold WDC.xv absR srcX; cases c.X <;> simp
@[simp] theorem yv_abs (c : Regs) (f : Nat → U8) (w : List Nat) : WDC.yv (absR c f w) = srcY c := by
  unfold WDC.yv absR srcY; cases c.X <;> simp

@[simp] theorem op1_abs (c : Regs) (f : Nat → U8) (w : List Nat) : WDC.op1 (absR c f w) = ob1 c f := rfl
@[simp] theorem op16_abs (c : Regs) (f : Nat → U8) (w : List Nat) : WDC.op16 (absR c f w) = ob16 c f := by
  unfold WDC.op16 WDC.op2 WDC.op1 ob16 WDC.rd absR; simp only [wdc_word, wdc_addr24, pc12]
theorem op3_abs (c : Regs) (f : Nat → U8) (w : List Nat) : WDC.op3 (absR c f w) = f (lin c.RK (c.PC + 3)) := rfl
@[simp] theorem ptr16_abs (c : Regs) (f : Nat → U8) (w : List Nat) (o : U16) : WDC.ptr16 (absR c f w) o = p16 f o := rfl
@[simp] theorem ptr24_abs (c : Regs) (f : Nat → U8) (w : List Nat) (o : U16) : WDC.ptr24 (absR c f w) o = p24 f o := rfl

theorem ob24_eq (c : Regs) (f : Nat → U8) :
    ob24 c f = (f (lin c.RK (c.PC + 3))).toNat * 65536 + (ob16 c f).toNat := by
  unfold ob24 ob16; rw [mk16_toNat, pc13, pc12]; omega

/-- the data modes of the WDC matrix -/
def Mode.isData : Mode → Bool
  | .immM | .immX | .imm8 | .imm16 | .dp | .dpX | .dpY | .sr | .abs | .absX | .absY | .long | .longX
  | .dpInd | .dpIndX | .dpIndY | .dpIndLong | .dpIndLongY | .srIndY => true
  | _ => false

theorem lin_mod (b : U8) (a : U16) : lin b a % 16777216 = lin b a := Nat.mod_eq_of_lt (lin_lt b a)
theorem wrap_wrap (x : Nat) : (x % 16777216 + 1) % 16777216 = (x + 1) % 16777216 := by omega

/-- **Lemma C**: for every data addressing mode the decoded `StepInfo` denotes the WDC location -/
theorem implLoc_resolve (md : Mode) (hd : Mode.isData md = true) (c : Regs) (f : Nat → U8) (w : List Nat) :
    implLoc (amodeOf md) c.RK c.RDBR (implInfo md c f).1 ((implInfo md c f).2 % 16777216) = WDC.resolve (absR c f w) md := by
  cases md <;> first | (cases hd; done) | skip
  all_goals
    simp only [amodeOf, implLoc, implInfo, WDC.resolve, WDC.inBank, WDC.linear, WDC.wrap24, xv_abs, yv_abs, op1_abs, op16_abs,
      op3_abs, ptr16_abs, ptr24_abs, wdc_addr24, wdc_zx, wrap_wrap, ob24_eq, pc12]
  all_goals (try simp only [absR])
  all_goals (try simp only [lin_mod])
  all_goals (first | (with_reducible rfl) | (simp only [BitVec.add_comm, BitVec.add_left_comm]; done) | ac_rfl)

theorem branch_abs (c : Regs) (f : Nat → U8) (w : List Nat) (t : Bool) :
    WDC.branch (absR c f w) t = { absR c f w with PC := if t then (implInfo .rel8 c f).1 else c.PC + 2 } := by
  unfold WDC.branch
  simp only [op1_abs, implInfo, wdc_zx]
  cases t <;> rfl


end Cpu
