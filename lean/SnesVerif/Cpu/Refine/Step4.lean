import SnesVerif.Cpu.Refine.Step3
import SnesVerif.Cpu.Refine.Glue2
namespace Cpu
set_option maxRecDepth 100000
attribute [local irreducible] lin
open Spec (Mode Mnem)

set_option hygiene false in
macro "imp_case" lem:term : tactic => `(tactic| (
  obtain ⟨s3, h1, h2⟩ := $lem
  refine ⟨s3, h1, ?_⟩
  rw [h2, hsz]; rfl))

set_option hygiene false in
macro "flow_case" lem:term : tactic => `(tactic| (
  obtain ⟨s3, h1, h2⟩ := $lem
  refine ⟨s3, h1, ?_⟩
  rw [h2]))

/-- **every valid instruction**: the routine + `finishRegs`, run from the decoded state, is `WDC.exec` -/
theorem tail_refines (mn : Mnem) (md : Mode) (hok : modeOK mn md = true)
    (c : Regs) (f : Nat → U8) (w : List Nat) (cyc : U8) (sz : U16)
    (hsz : sz = BitVec.ofNat 16 (Spec.instrLen md c.M c.X)) (hE : c.E = false)
    (hdec : c.D = true → mn ≠ .adc ∧ mn ≠ .sbc) :
    ∃ s3, tail (procOf mn) ⟨dec c sz cyc ((implInfo md c f).2 % 16777216) (implInfo md c f).1 (amodeOf md), ⟨f, w⟩⟩ = some ((), s3) ∧
      abs s3 = WDC.exec (absR c f w) mn md := by
  have hD : (mn = .adc ∨ mn = .sbc) → c.D = false := by
    intro h; cases hd : c.D with
    | false => rfl
    | true => have := hdec hd; rcases h with h | h <;> simp [h] at this
  cases mn
  case lda => exact lda_goal md c f w cyc sz hsz hok
  case and => exact and_goal md c f w cyc sz hsz hok
  case ora => exact ora_goal md c f w cyc sz hsz hok
  case eor => exact eor_goal md c f w cyc sz hsz hok
  case cmp => exact cmp_goal md c f w cyc sz hsz hok
  case cpx => exact cpx_goal md c f w cyc sz hsz hok
  case cpy => exact cpy_goal md c f w cyc sz hsz hok
  case ldx => exact ldx_goal md c f w cyc sz hsz hok
  case ldy => exact ldy_goal md c f w cyc sz hsz hok
  case sta => exact sta_goal md c f w cyc sz hsz hok
  case stx => exact stx_goal md c f w cyc sz hsz hok
  case sty => exact sty_goal md c f w cyc sz hsz hok
  case stz => exact stz_goal md c f w cyc sz hsz hok
  case trb => exact trb_goal md c f w cyc sz hsz hok
  case tsb => exact tsb_goal md c f w cyc sz hsz hok
  case bit => exact bit_goal md c f w cyc sz hsz hok
  case adc => exact adc_goal md c f w cyc sz hsz hok (hD (Or.inl rfl))
  case sbc => exact sbc_goal md c f w cyc sz hsz hok (hD (Or.inr rfl))
  case asl =>
    exact rmw_goal md c f w cyc sz hsz .asl (fun v _ => (v <<< 1, v.getLsbD 7)) (fun v _ => (v <<< 1, v.getLsbD 15)) true
      (fun v _ => (v <<< 1, some (v.getLsbD 7))) (fun v _ => (v <<< 1, some (v.getLsbD 15)))
      rfl (fun _ => rfl) (fun _ _ => rfl) (fun _ _ => rfl) hok
  case lsr =>
    exact rmw_goal md c f w cyc sz hsz .lsr (fun v _ => (v >>> 1, v.getLsbD 0)) (fun v _ => (v >>> 1, v.getLsbD 0)) true
      (fun v _ => (v >>> 1, some (v.getLsbD 0))) (fun v _ => (v >>> 1, some (v.getLsbD 0)))
      rfl (fun _ => rfl) (fun _ _ => rfl) (fun _ _ => rfl) hok
  case rol =>
    exact rmw_goal md c f w cyc sz hsz .rol (fun v ci => ((v <<< 1) ||| bit ci, v.getLsbD 7)) (fun v ci => ((v <<< 1) ||| zx (bit ci), v.getLsbD 15)) true
      (fun v c => ((v <<< 1) ||| WDC.b2u c, some (v.getLsbD 7))) (fun v c => ((v <<< 1) ||| WDC.zx (WDC.b2u c), some (v.getLsbD 15)))
      rfl (fun _ => rfl) (fun _ _ => rfl) (fun _ _ => rfl) hok
  case ror =>
    exact rmw_goal md c f w cyc sz hsz .ror (fun v ci => ((v >>> 1) ||| (bit ci <<< 7), v.getLsbD 0)) (fun v ci => ((v >>> 1) ||| (zx (bit ci) <<< 15), v.getLsbD 0)) true
      (fun v c => ((v >>> 1) ||| (WDC.b2u c <<< 7), some (v.getLsbD 0))) (fun v c => ((v >>> 1) ||| (WDC.zx (WDC.b2u c) <<< 15), some (v.getLsbD 0)))
      rfl (fun _ => rfl) (fun _ _ => rfl) (fun _ _ => rfl) hok
  case inc =>
    exact rmw_goal md c f w cyc sz hsz .inc (fun v _ => (v + 1, false)) (fun v _ => (v + 1, false)) false
      (fun v _ => (v + 1, none)) (fun v _ => (v + 1, none))
      rfl (fun _ => rfl) (fun _ _ => rfl) (fun _ _ => rfl) hok
  case dec =>
    exact rmw_goal md c f w cyc sz hsz .dec (fun v _ => (v - 1, false)) (fun v _ => (v - 1, false)) false
      (fun v _ => (v - 1, none)) (fun v _ => (v - 1, none))
      rfl (fun _ => rfl) (fun _ _ => rfl) (fun _ _ => rfl) hok
  case inx => imp_case (inx_ref c f w sz cyc _ _ _)
  case iny => imp_case (iny_ref c f w sz cyc _ _ _)
  case dex => imp_case (dex_ref c f w sz cyc _ _ _)
  case dey => imp_case (dey_ref c f w sz cyc _ _ _)
  case tax => imp_case (tax_ref c f w sz cyc _ _ _)
  case tay => imp_case (tay_ref c f w sz cyc _ _ _)
  case tsx => imp_case (tsx_ref c f w sz cyc _ _ _)
  case txy => imp_case (txy_ref c f w sz cyc _ _ _)
  case tyx => imp_case (tyx_ref c f w sz cyc _ _ _)
  case txa => imp_case (txa_ref c f w sz cyc _ _ _)
  case tya => imp_case (tya_ref c f w sz cyc _ _ _)
  case tcd => imp_case (tcd_ref c f w sz cyc _ _ _)
  case tdc => imp_case (tdc_ref c f w sz cyc _ _ _)
  case tsc => imp_case (tsc_ref c f w sz cyc _ _ _)
  case xba => imp_case (xba_ref c f w sz cyc _ _ _)
  case clc => imp_case (clc_ref c f w sz cyc _ _ _)
  case sec => imp_case (sec_ref c f w sz cyc _ _ _)
  case cld => imp_case (cld_ref c f w sz cyc _ _ _)
  case sed => imp_case (sed_ref c f w sz cyc _ _ _)
  case cli => imp_case (cli_ref c f w sz cyc _ _ _)
  case sei => imp_case (sei_ref c f w sz cyc _ _ _)
  case clv => imp_case (clv_ref c f w sz cyc _ _ _)
  case nop => imp_case (nop_ref c f w sz cyc _ _ _)
  case stp => imp_case (stp_ref c f w sz cyc _ _ _)
  case wai => imp_case (nop_ref c f w sz cyc _ _ _)
  case txs => imp_case (txs_ref c f w sz cyc _ _ _ hE)
  case tcs => imp_case (tcs_ref c f w sz cyc _ _ _ hE)
  case pha => imp_case (pha_ref c f w sz cyc _ _ _ hE)
  case phx => imp_case (phx_ref c f w sz cyc _ _ _ hE)
  case phy => imp_case (phy_ref c f w sz cyc _ _ _ hE)
  case php => imp_case (php_ref c f w sz cyc _ _ _ hE)
  case phb => imp_case (phb_ref c f w sz cyc _ _ _ hE)
  case phk => imp_case (phk_ref c f w sz cyc _ _ _ hE)
  case phd => imp_case (phd_ref c f w sz cyc _ _ _ hE)
  case pla => imp_case (pla_ref c f w sz cyc _ _ _ hE)
  case plx => imp_case (plx_ref c f w sz cyc _ _ _ hE)
  case ply => imp_case (ply_ref c f w sz cyc _ _ _ hE)
  case plb => imp_case (plb_ref c f w sz cyc _ _ _ hE)
  case pld => imp_case (pld_ref c f w sz cyc _ _ _ hE)
  case plp => imp_case (plp_ref c f w sz cyc _ _ _ hE)
  case xce =>
    obtain ⟨s3, h1, h2⟩ := xce_ref c f w sz cyc ((implInfo md c f).2 % 16777216) (implInfo md c f).1 (amodeOf md) hE
    refine ⟨s3, h1, ?_⟩
    rw [h2, hsz, ite_with_PC]; rfl
  case bcc =>
    have hm : md = .rel8 := by simpa [modeOK] using hok
    subst hm
    obtain ⟨s3, h1, h2⟩ := branchIf_ref c f w sz cyc ((implInfo .rel8 c f).2 % 16777216) (implInfo .rel8 c f).1 (amodeOf .rel8) (fun c => !c.C) rfl
    refine ⟨s3, h1, ?_⟩
    rw [h2, hsz]; exact (branch_abs c f w _).symm
  case bcs =>
    have hm : md = .rel8 := by simpa [modeOK] using hok
    subst hm
    obtain ⟨s3, h1, h2⟩ := branchIf_ref c f w sz cyc ((implInfo .rel8 c f).2 % 16777216) (implInfo .rel8 c f).1 (amodeOf .rel8) (fun c => c.C) rfl
    refine ⟨s3, h1, ?_⟩
    rw [h2, hsz]; exact (branch_abs c f w _).symm
  case beq =>
    have hm : md = .rel8 := by simpa [modeOK] using hok
    subst hm
    obtain ⟨s3, h1, h2⟩ := branchIf_ref c f w sz cyc ((implInfo .rel8 c f).2 % 16777216) (implInfo .rel8 c f).1 (amodeOf .rel8) (fun c => c.Z) rfl
    refine ⟨s3, h1, ?_⟩
    rw [h2, hsz]; exact (branch_abs c f w _).symm
  case bne =>
    have hm : md = .rel8 := by simpa [modeOK] using hok
    subst hm
    obtain ⟨s3, h1, h2⟩ := branchIf_ref c f w sz cyc ((implInfo .rel8 c f).2 % 16777216) (implInfo .rel8 c f).1 (amodeOf .rel8) (fun c => !c.Z) rfl
    refine ⟨s3, h1, ?_⟩
    rw [h2, hsz]; exact (branch_abs c f w _).symm
  case bmi =>
    have hm : md = .rel8 := by simpa [modeOK] using hok
    subst hm
    obtain ⟨s3, h1, h2⟩ := branchIf_ref c f w sz cyc ((implInfo .rel8 c f).2 % 16777216) (implInfo .rel8 c f).1 (amodeOf .rel8) (fun c => c.N) rfl
    refine ⟨s3, h1, ?_⟩
    rw [h2, hsz]; exact (branch_abs c f w _).symm
  case bpl =>
    have hm : md = .rel8 := by simpa [modeOK] using hok
    subst hm
    obtain ⟨s3, h1, h2⟩ := branchIf_ref c f w sz cyc ((implInfo .rel8 c f).2 % 16777216) (implInfo .rel8 c f).1 (amodeOf .rel8) (fun c => !c.N) rfl
    refine ⟨s3, h1, ?_⟩
    rw [h2, hsz]; exact (branch_abs c f w _).symm
  case bvc =>
    have hm : md = .rel8 := by simpa [modeOK] using hok
    subst hm
    obtain ⟨s3, h1, h2⟩ := branchIf_ref c f w sz cyc ((implInfo .rel8 c f).2 % 16777216) (implInfo .rel8 c f).1 (amodeOf .rel8) (fun c => !c.V) rfl
    refine ⟨s3, h1, ?_⟩
    rw [h2, hsz]; exact (branch_abs c f w _).symm
  case bvs =>
    have hm : md = .rel8 := by simpa [modeOK] using hok
    subst hm
    obtain ⟨s3, h1, h2⟩ := branchIf_ref c f w sz cyc ((implInfo .rel8 c f).2 % 16777216) (implInfo .rel8 c f).1 (amodeOf .rel8) (fun c => c.V) rfl
    refine ⟨s3, h1, ?_⟩
    rw [h2, hsz]; exact (branch_abs c f w _).symm
  case bra =>
    have hm : md = .rel8 := by simpa [modeOK] using hok
    subst hm
    obtain ⟨s3, h1, h2⟩ := branchIf_ref c f w sz cyc ((implInfo .rel8 c f).2 % 16777216) (implInfo .rel8 c f).1 (amodeOf .rel8) (fun _ => true) rfl
    refine ⟨s3, h1, ?_⟩
    rw [h2, hsz]; exact (branch_abs c f w _).symm
  case rts => flow_case (rts_ref c f w sz cyc _ _ _ hE); rfl
  case rtl => flow_case (rtl_ref c f w sz cyc _ _ _ hE); rfl
  case rti => flow_case (rti_ref c f w sz cyc _ _ _ hE); rfl
  case brk => flow_case (brk_ref c f w sz cyc _ _ _ hE); rfl
  case cop => flow_case (cop_ref c f w sz cyc _ _ _ hE); rfl
  case rep =>
    have hm : md = .imm8 := by simpa [modeOK] using hok
    subst hm
    obtain ⟨s3, h1, h2⟩ := rep_ref c f w sz cyc ((implInfo .imm8 c f).2 % 16777216) (implInfo .imm8 c f).1 (amodeOf .imm8) hE (mod_lt _)
    refine ⟨s3, h1, ?_⟩
    rw [h2, hsz]; exact rep_glue c f w _
  case sep =>
    have hm : md = .imm8 := by simpa [modeOK] using hok
    subst hm
    obtain ⟨s3, h1, h2⟩ := sep_ref c f w sz cyc ((implInfo .imm8 c f).2 % 16777216) (implInfo .imm8 c f).1 (amodeOf .imm8) hE (mod_lt _)
    refine ⟨s3, h1, ?_⟩
    rw [h2, hsz]; exact sep_glue c f w _
  case wdm =>
    have hm : md = .imm8 := by simpa [modeOK] using hok
    subst hm
    imp_case (wdm_ref c f w sz cyc ((implInfo .imm8 c f).2 % 16777216) (implInfo .imm8 c f).1 (amodeOf .imm8) rfl (mod_lt _))
  case pea =>
    have hm : md = .imm16 := by simpa [modeOK] using hok
    subst hm
    obtain ⟨s3, h1, h2⟩ := pea_ref c f w sz cyc ((implInfo .imm16 c f).2 % 16777216) (implInfo .imm16 c f).1 (amodeOf .imm16) hE rfl (mod_lt _)
    refine ⟨s3, h1, ?_⟩
    rw [h2, implLoc_resolve .imm16 rfl c f w, hsz]
    show ({ WDC.push16 (absR c f w) (WDC.read16 (absR c f w) (WDC.resolve (absR c f w) .imm16)) with PC := _ } : WDC.Arch) = _
    rw [pea_glue]; rfl
  case pei =>
    have hm : md = .dp := by simpa [modeOK] using hok
    subst hm
    obtain ⟨s3, h1, h2⟩ := pea_ref c f w sz cyc ((implInfo .dp c f).2 % 16777216) (implInfo .dp c f).1 (amodeOf .dp) hE rfl (mod_lt _)
    refine ⟨s3, h1, ?_⟩
    rw [h2, implLoc_resolve .dp rfl c f w, hsz]
    show ({ WDC.push16 (absR c f w) (WDC.read16 (absR c f w) (WDC.resolve (absR c f w) .dp)) with PC := _ } : WDC.Arch) = _
    rw [pei_glue]; rfl
  case per =>
    have hm : md = .rel16 := by simpa [modeOK] using hok
    subst hm
    obtain ⟨s3, h1, h2⟩ := per_ref c f w sz cyc ((implInfo .rel16 c f).2 % 16777216) (implInfo .rel16 c f).1 (amodeOf .rel16) hE
    refine ⟨s3, h1, ?_⟩
    rw [h2, hsz]
    show ({ WDC.push16 (absR c f w) (implInfo .rel16 c f).1 with PC := _ } : WDC.Arch) = _
    rw [rel16_info c f w]; rfl
  case brl =>
    have hm : md = .rel16 := by simpa [modeOK] using hok
    subst hm
    obtain ⟨s3, h1, h2⟩ := brl_ref c f w sz cyc ((implInfo .rel16 c f).2 % 16777216) (implInfo .rel16 c f).1 (amodeOf .rel16)
    refine ⟨s3, h1, ?_⟩
    rw [h2, rel16_info c f w]; rfl
  case jsl =>
    have hm : md = .long := by simpa [modeOK] using hok
    subst hm
    obtain ⟨s3, h1, h2⟩ := jsl_ref c f w sz cyc ((implInfo .long c f).2 % 16777216) (implInfo .long c f).1 (amodeOf .long) hE
    refine ⟨s3, h1, ?_⟩
    rw [h2]
    show ({ WDC.push16 (WDC.push8 (absR c f w) (absR c f w).PBR) ((absR c f w).PC + 3) with
      PC := BitVec.ofNat 16 ((implInfo .long c f).2 % 16777216), PBR := BitVec.ofNat 8 ((implInfo .long c f).2 % 16777216 / 65536) } : WDC.Arch) = _
    rw [(jmp_long_glue c f w).1, (jmp_long_glue c f w).2]; rfl
  case mvn =>
    have hm : md = .blockMove := by simpa [modeOK] using hok
    subst hm
    obtain ⟨s3, h1, h2⟩ := mvn_ref c f w sz cyc ((implInfo .blockMove c f).2 % 16777216) (implInfo .blockMove c f).1 (amodeOf .blockMove)
    refine ⟨s3, h1, ?_⟩
    rw [h2, hsz]; exact mvn_glue c f w
  case mvp =>
    have hm : md = .blockMove := by simpa [modeOK] using hok
    subst hm
    obtain ⟨s3, h1, h2⟩ := mvp_ref c f w sz cyc ((implInfo .blockMove c f).2 % 16777216) (implInfo .blockMove c f).1 (amodeOf .blockMove)
    refine ⟨s3, h1, ?_⟩
    rw [h2, hsz]; exact mvp_glue c f w
  case jmp =>
    cases md <;> first | (exfalso; revert hok; decide) | skip
    case abs =>
      flow_case (jmp_abs_ref c f w sz cyc ((implInfo .abs c f).2 % 16777216) (implInfo .abs c f).1)
      rw [jmp_abs_glue c f w]; rfl
    case long =>
      flow_case (jmp_long_ref c f w sz cyc ((implInfo .long c f).2 % 16777216) (implInfo .long c f).1)
      rw [(jmp_long_glue c f w).1, (jmp_long_glue c f w).2]; rfl
    case absInd =>
      flow_case (jmp_absInd_ref c f w sz cyc ((implInfo .absInd c f).2 % 16777216) (implInfo .absInd c f).1)
      rw [jmp_absInd_glue c f w]; rfl
    case absIndLong =>
      flow_case (jmp_absIndLong_ref c f w sz cyc ((implInfo .absIndLong c f).2 % 16777216) (implInfo .absIndLong c f).1)
      rw [(jmp_absIndLong_glue c f w).1, (jmp_absIndLong_glue c f w).2]; rfl
    case absIndX =>
      flow_case (jmp_absIndX_ref c f w sz cyc ((implInfo .absIndX c f).2 % 16777216) (implInfo .absIndX c f).1)
      rw [jmp_absIndX_glue c f w]; rfl
  case jsr =>
    cases md <;> first | (exfalso; revert hok; decide) | skip
    case abs =>
      flow_case (jsr_abs_ref c f w sz cyc ((implInfo .abs c f).2 % 16777216) (implInfo .abs c f).1 hE)
      show ({ WDC.push16 (absR c f w) ((absR c f w).PC + 2) with PC := (implInfo .abs c f).1 } : WDC.Arch) = _
      rw [jmp_abs_glue c f w]; rfl
    case absIndX =>
      flow_case (jsr_absIndX_ref c f w sz cyc ((implInfo .absIndX c f).2 % 16777216) (implInfo .absIndX c f).1 hE)
      show ({ WDC.push16 (absR c f w) ((absR c f w).PC + 2) with PC := (implInfo .absIndX c f).1 } : WDC.Arch) = _
      rw [jmp_absIndX_glue c f w]; rfl

end Cpu
