/-
The first half of `Step` (fetch, addressing switch, cycle adjustment) as a closed form: the state it produces and the
`StepInfo` it hands to the routine, for each WDC addressing mode.
-/
import SnesVerif.Cpu.Refine.Access
namespace Cpu
set_option maxRecDepth 100000
open Spec (Mode Mnem)

def amodeOf : Mode → AMode
  | .imp => .Implied | .acc => .Accumulator | .immM => .Immediate_flagM | .immX => .Immediate_flagX
  | .imm8 => .Immediate | .imm16 => .Immediate
  | .dp => .DP | .dpX => .DP_X | .dpY => .DP_Y | .dpInd => .DP_Indirect | .dpIndX => .DP_X_Indirect
  | .dpIndY => .DP_Indirect_Y | .dpIndLong => .DP_Indirect_Long | .dpIndLongY => .DP_Indirect_Long_Y
  | .abs => .Absolute | .absX => .Absolute_X | .absY => .Absolute_Y | .absInd => .Absolute_Indirect
  | .absIndX => .Absolute_X_Indirect | .absIndLong => .Absolute_Indirect_Long
  | .long => .Absolute_Long | .longX => .Absolute_Long_X | .sr => .Stack_Relative | .srIndY => .Stack_Relative_Indirect_Y
  | .rel8 => .PC_Relative | .rel16 => .PC_Relative_Long | .blockMove => .BlockMove

/-- operand bytes -/
def ob1 (c : Regs) (f : Nat → U8) : U8 := f (lin c.RK (c.PC + 1))
def ob16 (c : Regs) (f : Nat → U8) : U16 := mk16 (f (lin c.RK (c.PC + 1 + 1))) (f (lin c.RK (c.PC + 1)))
def ob24 (c : Regs) (f : Nat → U8) : Nat :=
  (f (lin c.RK (c.PC + 1 + 2))).toNat * 65536 + (f (lin c.RK (c.PC + 1 + 1))).toNat * 256 + (f (lin c.RK (c.PC + 1))).toNat
/-- pointers in bank 0 -/
def p16 (f : Nat → U8) (o : U16) : U16 := mk16 (f (lin 0 (o + 1))) (f (lin 0 o))
def p24 (f : Nat → U8) (o : U16) : Nat :=
  (f (lin 0 (o + 2))).toNat * 65536 + (f (lin 0 (o + 1))).toNat * 256 + (f (lin 0 o)).toNat

/-- (Addr, EA before the final `% 2^24`) as the addressing switch computes them -/
def implInfo (md : Mode) (c : Regs) (f : Nat → U8) : U16 × Nat :=
  match md with
  | .imp | .acc => (0, 0)
  | .imm8 | .imm16 => (c.PC + 1, lin c.RK (c.PC + 1))
  | .immM | .immX => (c.PC + 1, 0)
  | .dp => (zx (ob1 c f) + c.RD, 0)
  | .dpX => (zx (ob1 c f) + srcX c + c.RD, 0)
  | .dpY => (zx (ob1 c f) + srcY c + c.RD, 0)
  | .dpIndX => (p16 f (zx (ob1 c f) + srcX c + c.RD), 0)
  | .dpInd => (p16 f (zx (ob1 c f) + c.RD), 0)
  | .dpIndLong => (0, p24 f (zx (ob1 c f) + c.RD))
  | .dpIndLongY => (0, p24 f (zx (ob1 c f) + c.RD) + (srcY c).toNat)
  | .dpIndY => (p16 f (zx (ob1 c f) + c.RD) + srcY c, lin c.RDBR (p16 f (zx (ob1 c f) + c.RD)) + (srcY c).toNat)
  | .absIndX =>
    (mk16 (f (lin c.RK (ob16 c f + srcX c + 1))) (f (lin c.RK (ob16 c f + srcX c))), lin c.RK (ob16 c f + srcX c))
  | .absInd | .absIndLong | .abs => (ob16 c f, 0)
  | .absX => (0, lin c.RDBR (ob16 c f) + (srcX c).toNat)
  | .absY => (0, lin c.RDBR (ob16 c f) + (srcY c).toNat)
  | .long => (0, ob24 c f)
  | .longX => (0, ob24 c f + (srcX c).toNat)
  | .rel8 => (if (ob1 c f).toNat < 0x80 then c.PC + 2 + zx (ob1 c f) else c.PC + 2 + zx (ob1 c f) - 0x100, 0)
  | .rel16 => (c.PC + 3 + ob16 c f, 0)
  | .sr => (zx (ob1 c f) + c.SP, 0)
  | .srIndY => (0, lin c.RDBR (p16 f (zx (ob1 c f) + c.SP)) + (srcY c).toNat)
  | .blockMove => (c.PC + 1, 0)

/-- the immediate-size correction of `stepPC` -/
def sizeAdj (md : Mode) (c : Regs) : U16 :=
  match md with
  | .immM => zx (bit c.M)
  | .immX => zx (bit c.X)
  | _ => 0

theorem sub_zero16 (x : U16) : x - 0 = x := by simp

/-- closed form of the addressing switch -/
theorem addressing_eq (md : Mode) (s : St) :
    ∃ pc, addressing (amodeOf md) s =
      some (((implInfo md s.r s.m.f).1, (implInfo md s.r s.m.f).2, pc),
            { s with r := { s.r with stepPC := s.r.stepPC - sizeAdj md s.r } }) := by
  cases md <;>
    simp only [amodeOf, addressing, get_bind, modify_bind, pure_bind, nRead, nRead16_wrap, nRead24_wrap,
      eaRead_bind, lin_lt, bind_assoc, pure_run, implInfo, sizeAdj, ob1, ob16, ob24, p16, p24, sub_zero16] <;>
    exact ⟨_, rfl⟩

/-- closed form of the decode stage for a row whose mode is the image of the WDC mode `md` -/
theorem decodeStage_eq (sem : U8 → RowSem) (adj : U8 → CycAdj) (md : Mode) (s : St)
    (hmode : (sem (s.m.f (lin s.r.RK s.r.PC))).mode = amodeOf md) :
    ∃ cyc, decodeStage sem adj s = some (sem (s.m.f (lin s.r.RK s.r.PC)),
      { s with r := { s.r with PPC := s.r.PC, PRK := s.r.RK,
                               stepPC := BitVec.ofNat 16 (sem (s.m.f (lin s.r.RK s.r.PC))).size - sizeAdj md s.r,
                               Cycles := cyc, EA := (implInfo md s.r s.m.f).2 % 16777216,
                               Addr := (implInfo md s.r s.m.f).1, Mode := amodeOf md } }) := by
  unfold decodeStage
  simp only [modify_bind, get_bind, nRead, eaRead_bind, lin_lt, hmode]
  obtain ⟨pc, h⟩ := addressing_eq md
    { s with r := { s.r with PPC := s.r.PC, PRK := s.r.RK,
                             stepPC := BitVec.ofNat 16 (sem (s.m.f (lin s.r.RK s.r.PC))).size,
                             Cycles := BitVec.ofNat 8 (sem (s.m.f (lin s.r.RK s.r.PC))).cycles } }
  rw [bind_eq', h]
  simp only [modify_bind, pure_run, adjustRegs, hmode]
  exact ⟨_, rfl⟩

end Cpu
