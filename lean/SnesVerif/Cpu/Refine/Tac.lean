import SnesVerif.Cpu.Refine.Loc
namespace Cpu
set_option maxRecDepth 100000

theorem lo8_add (x y : U16) : lo8 (x + y) = lo8 x + lo8 y := by
  apply BitVec.eq_of_toNat_eq
  simp only [lo8_toNat, BitVec.toNat_add]; omega
theorem lo8_sub (x y : U16) : lo8 (x - y) = lo8 x - lo8 y := by
  apply BitVec.eq_of_toNat_eq
  simp only [lo8_toNat, BitVec.toNat_sub]; omega
theorem lo8_one : lo8 (1#16) = 1#8 := rfl
theorem lo8_shr8 (w : U16) : lo8 (w >>> 8) = hi8 w := rfl
theorem xba_eq (w : U16) : w <<< 8 ||| w >>> 8 = mk16 (lo8 w) (hi8 w) := by
  apply BitVec.eq_of_toNat_eq
  rw [mk16_toNat, lo8_toNat, hi8_toNat, BitVec.toNat_or, BitVec.toNat_shiftLeft, BitVec.toNat_ushiftRight]
  have h := w.isLt
  have e1 : w.toNat <<< 8 % 2 ^ 16 = (w.toNat % 256) <<< 8 := by
    rw [Nat.shiftLeft_eq, Nat.shiftLeft_eq]; omega
  have e2 : w.toNat >>> 8 = w.toNat / 256 := by rw [Nat.shiftRight_eq_div_pow]
  rw [e1, e2, ← Nat.shiftLeft_add_eq_or_of_lt (by omega : w.toNat / 256 < 2 ^ 8), Nat.shiftLeft_eq]

/-- the register file after the decode stage -/
def dec (c : Regs) (sz : U16) (cyc : U8) (ea : Nat) (addr : U16) (am : AMode) : Regs :=
  { c with PPC := c.PC, PRK := c.RK, stepPC := sz, Cycles := cyc, EA := ea, Addr := addr, Mode := am }

/-- the second half of `Step` -/
def tail (q : Proc) : Ex Unit := runP q >>= fun _ => modify finishRegs

/-- symbolic execution of the routine followed by unfolding both sides' vocabulary -/
macro "ref_tac" : tactic => `(tactic|
  simp [dec, bind_eq', cmdRead_eq, cmdRead16_eq, cmdWrite_eq, cmdWrite16_eq, curLoc, abs, absR, finishRegs,
    srcC, srcX, srcY, setZN8, setZN16, setZ8, setZ16, compare8, compare16, toIndex, toAcc,
    WDC.accOp, WDC.read8, WDC.read16, WDC.write8, WDC.write16, WDC.wr, WDC.rd, WDC.nz8, WDC.nz16, WDC.setAlo,
    WDC.cmpGen, WDC.setIdx, WDC.storeReg, WDC.xv, WDC.yv, lo8_add, lo8_sub, lo8_one, lo8_shr8, xba_eq, *])

end Cpu
