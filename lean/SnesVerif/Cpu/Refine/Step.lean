/-
Assembly: for every valid (mnemonic, addressing mode) pair of the WDC matrix, the second half of `Step` run from the
decoded state refines `WDC.exec`.
-/
import SnesVerif.Cpu.Refine.Ops1
import SnesVerif.Cpu.Refine.Ops2
import SnesVerif.Cpu.Refine.Ops3
import SnesVerif.Cpu.Refine.Ops8
import SnesVerif.Cpu.Refine.Ops9
import SnesVerif.Cpu.Refine.Ops10
namespace Cpu
set_option maxRecDepth 100000
attribute [local irreducible] lin
open Spec (Mode Mnem)

def procOf : Mnem → Proc
  | .adc => .adc | .and => .and | .asl => .asl | .bcc => .bcc | .bcs => .bcs | .beq => .beq | .bit => .bit
  | .bmi => .bmi | .bne => .bne | .bpl => .bpl | .bra => .bra | .brk => .brk | .brl => .brl | .bvc => .bvc
  | .bvs => .bvs | .clc => .clc | .cld => .cld | .cli => .cli | .clv => .clv | .cmp => .cmp | .cop => .cop
  | .cpx => .cpx | .cpy => .cpy | .dec => .dec | .dex => .dex | .dey => .dey | .eor => .eor | .inc => .inc
  | .inx => .inx | .iny => .iny | .jmp => .jmp | .jsl => .jsl | .jsr => .jsr | .lda => .lda | .ldx => .ldx
  | .ldy => .ldy | .lsr => .lsr | .mvn => .mvn | .mvp => .mvp | .nop => .nop | .ora => .ora | .pea => .pea
  | .pei => .pea | .per => .per | .pha => .pha | .phb => .phb | .phd => .phd | .phk => .phk | .php => .php
  | .phx => .phx | .phy => .phy | .pla => .pla | .plb => .plb | .pld => .pld | .plp => .plp | .plx => .plx
  | .ply => .ply | .rep => .rep | .rol => .rol | .ror => .ror | .rti => .rti | .rtl => .rtl | .rts => .rts
  | .sbc => .sbc | .sec => .sec | .sed => .sed | .sei => .sei | .sep => .sep | .sta => .sta | .stp => .stp
  | .stx => .stx | .sty => .sty | .stz => .stz | .tax => .tax | .tay => .tay | .tcd => .tcd | .tcs => .tcs
  | .tdc => .tdc | .trb => .trb | .tsb => .tsb | .tsc => .tsc | .tsx => .tsx | .txa => .txa | .txs => .txs
  | .txy => .txy | .tya => .tya | .tyx => .tyx | .wai => .nop | .wdm => .wdm | .xba => .xba | .xce => .xce

/-- memory data modes (no immediates) -/
def Mode.isStore : Mode → Bool
  | .dp | .dpX | .dpY | .sr | .abs | .absX | .absY | .long | .longX
  | .dpInd | .dpIndX | .dpIndY | .dpIndLong | .dpIndLongY | .srIndY => true
  | _ => false

/-- which addressing modes each mnemonic is proved for (a superset of the matrix, checked against it by `decide`) -/
def modeOK : Mnem → Mode → Bool
  | .lda, md | .and, md | .ora, md | .eor, md | .adc, md | .sbc, md | .cmp, md | .cpx, md | .cpy, md | .bit, md
  | .ldx, md | .ldy, md => Mode.isData md
  | .sta, md | .stx, md | .sty, md | .stz, md | .trb, md | .tsb, md => Mode.isStore md
  | .asl, md | .lsr, md | .rol, md | .ror, md | .inc, md | .dec, md => md == .acc || Mode.isStore md
  | .rep, md | .sep, md | .wdm, md => md == .imm8
  | .pea, md => md == .imm16
  | .pei, md => md == .dp
  | .per, md | .brl, md => md == .rel16
  | .bcc, md | .bcs, md | .beq, md | .bne, md | .bmi, md | .bpl, md | .bvc, md | .bvs, md | .bra, md => md == .rel8
  | .jmp, md => md == .abs || md == .long || md == .absInd || md == .absIndLong || md == .absIndX
  | .jsr, md => md == .abs || md == .absIndX
  | .jsl, md => md == .long
  | .mvn, md | .mvp, md => md == .blockMove
  | _, _ => true

theorem isData_amodeOf (md : Mode) (h : Mode.isData md = true) : (amodeOf md).isData = true := by
  cases md <;> first | rfl | cases h
theorem isStore_amodeOf (md : Mode) (h : Mode.isStore md = true) : (amodeOf md).isStore = true := by
  cases md <;> first | rfl | cases h
theorem isData_of_isStore (md : Mode) (h : Mode.isStore md = true) : Mode.isData md = true := by
  cases md <;> first | rfl | cases h

end Cpu
