/-
The rest of `Step()` and of the CPU's exported control surface: the interrupt latch, `nmi()` / `irq()`, `Reset()`,
`TriggerIRQ()` / `triggerNMI()` (emulator/cpu65c816/cpu.go and emulator/cpualt/cpu.go — the bodies are identical up to
the receiver syntax).

    switch cpu.Interrupt { case interruptNMI: cpu.nmi(); case interruptIRQ: cpu.irq() }
    cpu.Interrupt = interruptNone
    … fetch / decode / execute (`Cpu.step`) …

`Step` always leaves the latch at `interruptNone`, and nothing inside `Step` reads it after the switch; only the
trigger functions (called between steps) set it.  The latch is therefore modelled as an *input* of the step
(`stepFull v latch`), its value after the step being the constant `interruptNone`.  The three constants are
regenerated from each package (`Gen.primary_interruptNMI` …).
-/
import SnesVerif.Cpu.Impl
namespace Cpu
open Gen
set_option maxRecDepth 100000

/-- `nmi()`: push PC, push P (`op_php`), vector `$00FFEA`, I := 1, `Cycles += 7` (dead: `Step` reloads `Cycles`) -/
def nmi : Ex Unit := do
  let c ← get
  push16 c.PC
  let c ← get
  push (flagsByte c)
  let pc ← nRead16_cross 0 0xFFEA
  modify fun c => { c with PC := pc, I := true, Cycles := c.Cycles + 7 }

/-- `irq()`: push PBR, PC, P; I := 1, D := 0, PBR := 0, vector `$00FFEE` -/
def irq : Ex Unit := do
  let c ← get
  push c.RK
  push16 c.PC
  let c ← get
  push (flagsByte c)
  modify fun c => { c with I := true, D := false, RK := 0 }
  let pc ← nRead16_cross 0 0xFFEE
  modify fun c => { c with PC := pc }

/-- the latch constants of a package -/
def latchNone : Variant → Nat | .primary => primary_interruptNone | .alt => alt_interruptNone
def latchNMI : Variant → Nat | .primary => primary_interruptNMI | .alt => alt_interruptNMI
def latchIRQ : Variant → Nat | .primary => primary_interruptIRQ | .alt => alt_interruptIRQ

/-- the `switch cpu.Interrupt` at the top of `Step` (any other latch value falls through) -/
def service (v : Variant) (latch : Nat) : Ex Unit :=
  if latch = latchNMI v then nmi else if latch = latchIRQ v then irq else pure ()

/-- the whole of `Step()` for a given value of the interrupt latch; the latch afterwards is `latchNone v` -/
def stepFull (v : Variant) (latch : Nat) : Ex Unit := do
  service v latch
  step v

/-- `TriggerIRQ()`: latch an IRQ unless interrupts are disabled; returns the new latch value -/
def triggerIRQ (v : Variant) (c : Regs) (latch : Nat) : Nat := if c.I then latch else latchIRQ v
/-- `triggerNMI()` -/
def triggerNMI (v : Variant) : Nat := latchNMI v

/-- `Reset()` -/
def reset : Ex Unit := do
  modify fun c => { c with SP := 0x01FF, RD := 0, RK := 0, RDBR := 0 }
  let pc ← nRead16_cross 0 0xFFFC
  modify fun c => { setFlags 0x34 { c with PC := pc } with Stopped := false }

end Cpu
