/-
Model of the trace disassembler (`DisassembleTo` / `formatInstructionModeTo` of both packages): a structured record
for the instruction at PBR:PC as seen from the current register file, and its canonical rendering.
-/
import SnesVerif.Cpu.Impl
namespace Cpu
open Gen

def hexDigit (n : Nat) : Char := "0123456789abcdef".toList.getD (n % 16) '0'
def hex2 (b : U8) : String := String.ofList [hexDigit (b.toNat / 16), hexDigit b.toNat]
def hex4 (x : U16) : String := String.ofList [hexDigit (x.toNat / 4096), hexDigit (x.toNat / 256), hexDigit (x.toNat / 16), hexDigit x.toNat]

/-- one trace line, structured -/
structure TraceRec where
  cycles : U8
  bank : U8
  pc : U16
  /-- the instruction bytes shown; `none` when the computed length is not 1..4 ("???") -/
  bytes : Option (List U8)
  name : String
  /-- operand rendering, without padding -/
  arg : String
  /-- for PC-relative modes: the destination printed -/
  dest : Option U16
  /-- accumulator / index values shown: (value, shown as 16 bit?) -/
  a : U16 × Bool
  x : U16 × Bool
  y : U16 × Bool
  flags : List Bool   -- N V M X D I Z C

/-- `formatInstructionModeTo`: (text, branch destination) -/
def fmtMode (v : Variant) (mode : AMode) (c : Regs) (w0 w1 w2 w3 : U8) : String × Option U16 :=
  let sreg := match v with | .primary => "Sn" | .alt => "S"
  match mode with
  | .Absolute => ("$" ++ hex2 w2 ++ hex2 w1, none)
  | .Absolute_X => ("$" ++ hex2 w2 ++ hex2 w1 ++ ", X", none)
  | .Absolute_Y => ("$" ++ hex2 w2 ++ hex2 w1 ++ ", Y", none)
  | .Accumulator => ("A", none)
  | .Immediate => (if w0 = 0xF4 then "#$" ++ hex2 w2 ++ hex2 w1 else "#$" ++ hex2 w1, none)
  | .Immediate_flagM => (if c.M then "#$" ++ hex2 w1 else "#$" ++ hex2 w2 ++ hex2 w1, none)
  | .Immediate_flagX => (if c.X then "#$" ++ hex2 w1 else "#$" ++ hex2 w2 ++ hex2 w1, none)
  | .Implied => ("", none)
  | .DP => ("$" ++ hex2 w1, none)
  | .DP_X => ("$" ++ hex2 w1 ++ ", X", none)
  | .DP_Y => ("$" ++ hex2 w1 ++ ", Y", none)
  | .DP_X_Indirect => ("($" ++ hex2 w1 ++ ", X)", none)
  | .DP_Indirect => ("($" ++ hex2 w1 ++ ")", none)
  | .DP_Indirect_Long => ("[$" ++ hex2 w1 ++ "]", none)
  | .DP_Indirect_Y => ("($" ++ hex2 w1 ++ "), Y", none)
  | .DP_Indirect_Long_Y => ("[$" ++ hex2 w1 ++ "], Y", none)
  | .Absolute_X_Indirect => ("($" ++ hex2 w2 ++ hex2 w1 ++ ", X)", none)
  | .Absolute_Indirect => ("($" ++ hex2 w2 ++ hex2 w1 ++ ")", none)
  | .Absolute_Indirect_Long => ("[$" ++ hex2 w2 ++ hex2 w1 ++ "]", none)
  | .Absolute_Long => ("$" ++ hex2 w3 ++ hex2 w2 ++ hex2 w1, none)
  | .Absolute_Long_X => ("$" ++ hex2 w3 ++ hex2 w2 ++ hex2 w1 ++ ", X", none)
  | .BlockMove => ("#$" ++ hex2 w2 ++ ",#$" ++ hex2 w1, none)
  | .PC_Relative =>
    let dest := if w1.toNat < 0x80 then c.PC + 2 + zx w1 else c.PC + 2 + zx w1 - 0x100
    ("$" ++ hex2 w1 ++ " ($" ++ hex4 dest ++ (if w1.toNat < 0x80 then " +)" else " -)"), some dest)
  | .PC_Relative_Long =>
    let dest := c.PC + 3 + mk16 w2 w1
    ("$" ++ hex4 dest, some dest)
  | .Stack_Relative => ("$" ++ hex2 w1 ++ ", " ++ sreg, none)
  | .Stack_Relative_Indirect_Y => ("($" ++ hex2 w1 ++ ", " ++ sreg ++ "), Y", none)
  | .Unknown => ("! unknown !", none)

/-- the "size adjust" of the disassembler: immediates are one byte shorter when the width flag is set -/
def adjNat (md : AMode) (m x : Bool) : Nat :=
  match md with
  | .Immediate_flagM => b2n m
  | .Immediate_flagX => b2n x
  | _ => 0

/-- `DisassembleTo(PC)` -/
def traceRec (v : Variant) (c : Regs) (f : Nat → U8) : TraceRec :=
  let rd (k : Nat) : U8 := f (lin c.RK (c.PC + BitVec.ofNat 16 k))
  let row := (tableOf v).getD (rd 0).toNat default
  let mode := modeOfName row.modeName
  let adj := adjNat mode c.M c.X
  let n := row.size - adj
  let w0 := rd 0
  let w1 := if 2 ≤ n then rd 1 else 0
  let w2 := if 3 ≤ n then rd 2 else 0
  let w3 := if 4 ≤ n then rd 3 else 0
  let ok := 1 ≤ n ∧ n ≤ 4
  let r := if ok then fmtMode v mode c w0 w1 w2 w3 else fmtMode v mode c 0 0 0 0
  { cycles := c.Cycles, bank := c.RK, pc := c.PC,
    bytes := if ok then some ((List.range n).map rd) else none,
    name := row.name, arg := r.1, dest := r.2,
    a := if c.M then (zx c.RAl, false) else (c.RA, true),
    x := if c.X then (zx c.RXl, false) else (c.RX, true),
    y := if c.X then (zx c.RYl, false) else (c.RY, true),
    flags := [c.N, c.V, c.M, c.X, c.D, c.I, c.Z, c.C] }

def showReg (r : U16 × Bool) : String := if r.2 then hex4 r.1 else "--" ++ hex2 (lo8 r.1)

/-- canonical one-line rendering shared with the harness -/
def TraceRec.canon (t : TraceRec) : String :=
  toString t.cycles.toNat ++ " " ++ hex2 t.bank ++ ":" ++ hex4 t.pc ++ "|" ++
  (match t.bytes with | some bs => " ".intercalate (bs.map hex2) | none => "???") ++ "|" ++ t.name ++ "|" ++ t.arg ++ "|" ++
  "A=" ++ showReg t.a ++ " X=" ++ showReg t.x ++ " Y=" ++ showReg t.y ++ "|" ++
  String.ofList (List.zipWith (fun b ch => if b then ch else '-') t.flags "NVMXDIZC".toList)

end Cpu
