/-
Totality and cycle / stop bookkeeping of the interrupt entry, the full `Step()` and `Reset()` (model: Cpu/InterruptModel.lean).
-/
import SnesVerif.Cpu.InterruptModel
import SnesVerif.Cpu.Cycles
namespace Cpu
open Gen
set_option maxRecDepth 100000

/-! ### totality (C08) -/

theorem tot_nmi {p : Bool} : Tot p nmi := by unfold nmi; tot_tac
theorem tot_irq {p : Bool} : Tot p irq := by unfold irq; tot_tac
theorem tot_service {p : Bool} (v : Variant) (l : Nat) : Tot p (service v l) := by
  unfold service
  split
  · exact tot_nmi
  · split
    · exact tot_irq
    · exact tot_pure _
theorem tot_stepFull (v : Variant) (l : Nat) : Tot2 false true (stepFull v l) :=
  tot2_bind (q := false) _ _ (tot_service v l) (fun _ => tot_step v)
theorem tot_reset {p : Bool} : Tot p reset := by unfold reset; tot_tac

/-! ### bookkeeping (C12) -/

/-- interrupt entry does not touch the running total or the stop latch (it does touch `Cycles`, which `Step` reloads) -/
def Keep (c c' : Regs) : Prop := c'.AllCycles = c.AllCycles ∧ c'.Stopped = c.Stopped

theorem keep_of_same {a b : Regs} (h : Same a b) : Keep a b := ⟨h.1, h.2.1⟩
theorem keep_trans {a b c : Regs} (h1 : Keep a b) (h2 : Keep b c) : Keep a c := ⟨h2.1.trans h1.1, h2.2.trans h1.2⟩

theorem keep_bind {α β : Type} (x : Ex α) (f : α → Ex β) (hx : Rel Keep x) (hf : ∀ a, Rel Keep (f a)) : Rel Keep (x >>= f) :=
  rel_bind (R1 := Keep) (R2 := Keep) (R3 := Keep) x f (fun _ _ _ => keep_trans) hx hf
theorem keep_fr {α : Type} (x : Ex α) (h : Fr x) : Rel Keep x := rel_weaken x (fun _ _ => keep_of_same) h

theorem keep_nmi : Rel Keep nmi := by
  unfold nmi
  refine keep_bind _ _ (keep_fr _ fr_get) (fun _ => ?_)
  refine keep_bind _ _ (keep_fr _ (fr_push16 _)) (fun _ => ?_)
  refine keep_bind _ _ (keep_fr _ fr_get) (fun _ => ?_)
  refine keep_bind _ _ (keep_fr _ (fr_push _)) (fun _ => ?_)
  refine keep_bind _ _ (keep_fr _ (fr_nRead16_cross _ _)) (fun _ => ?_)
  exact rel_modify _ _ (fun _ => ⟨rfl, rfl⟩)

theorem fr_irq : Fr irq := by unfold irq; fr_tac

theorem keep_service (v : Variant) (l : Nat) : Rel Keep (service v l) := by
  unfold service
  split
  · exact keep_nmi
  · split
    · exact keep_fr _ fr_irq
    · exact keep_fr _ (fr_pure _)

/-- with the latch idle the full step is the plain step -/
theorem stepFull_idle (v : Variant) (l : Nat) (h1 : l ≠ latchNMI v) (h2 : l ≠ latchIRQ v) : stepFull v l = step v := by
  unfold stepFull service
  rw [if_neg h1, if_neg h2]
  rfl

end Cpu
