/-
The rest of `Step()` and of the CPU's exported control surface: the interrupt latch, `nmi()` / `irq()`, `Reset()`,
`TriggerIRQ()` / `triggerNMI()` (emulator/cpu65c816/cpu.go and emulator/cpualt/cpu.go — the bodies are identical up to
the receiver syntax).

    switch cpu.Interrupt { case interruptNMI: cpu.nmi(); case interruptIRQ: cpu.irq() }
    cpu.Interrupt = interruptNone
    … fetch / decode / execute (`Cpu.step`) …

`Step` always leaves the latch at `interruptNone`, and nothing inside `Step` reads it after the switch; only the
trigger functions (called between steps) set it.  The latch is therefore modelled as an *input* of the step
(`stepFull v latch`), its value after the step being the constant `interruptNone`.  The three constants are
regenerated from each package (`Gen.primary_interruptNMI` …).
-/
import SnesVerif.Cpu.Cycles
namespace Cpu
open Gen
set_option maxRecDepth 100000

/-- `nmi()`: push PC, push P (`op_php`), vector `$00FFEA`, I := 1, `Cycles += 7` (dead: `Step` reloads `Cycles`) -/
def nmi : Ex Unit := do
  let c ← get
  push16 c.PC
  let c ← get
  push (flagsByte c)
  let pc ← nRead16_cross 0 0xFFEA
  modify fun c => { c with PC := pc, I := true, Cycles := c.Cycles + 7 }

/-- `irq()`: push PBR, PC, P; I := 1, D := 0, PBR := 0, vector `$00FFEE` -/
def irq : Ex Unit := do
  let c ← get
  push c.RK
  push16 c.PC
  let c ← get
  push (flagsByte c)
  modify fun c => { c with I := true, D := false, RK := 0 }
  let pc ← nRead16_cross 0 0xFFEE
  modify fun c => { c with PC := pc }

/-- the latch constants of a package -/
def latchNone : Variant → Nat | .primary => primary_interruptNone | .alt => alt_interruptNone
def latchNMI : Variant → Nat | .primary => primary_interruptNMI | .alt => alt_interruptNMI
def latchIRQ : Variant → Nat | .primary => primary_interruptIRQ | .alt => alt_interruptIRQ

/-- the `switch cpu.Interrupt` at the top of `Step` (any other latch value falls through) -/
def service (v : Variant) (latch : Nat) : Ex Unit :=
  if latch = latchNMI v then nmi else if latch = latchIRQ v then irq else pure ()

/-- the whole of `Step()` for a given value of the interrupt latch; the latch afterwards is `latchNone v` -/
def stepFull (v : Variant) (latch : Nat) : Ex Unit := do
  service v latch
  step v

/-- `TriggerIRQ()`: latch an IRQ unless interrupts are disabled; returns the new latch value -/
def triggerIRQ (v : Variant) (c : Regs) (latch : Nat) : Nat := if c.I then latch else latchIRQ v
/-- `triggerNMI()` -/
def triggerNMI (v : Variant) : Nat := latchNMI v

/-- `Reset()` -/
def reset : Ex Unit := do
  modify fun c => { c with SP := 0x01FF, RD := 0, RK := 0, RDBR := 0 }
  let pc ← nRead16_cross 0 0xFFFC
  modify fun c => { setFlags 0x34 { c with PC := pc } with Stopped := false }

/-! ### totality (C08) -/

theorem tot_nmi {p : Bool} : Tot p nmi := by unfold nmi; tot_tac
theorem tot_irq {p : Bool} : Tot p irq := by unfold irq; tot_tac
theorem tot_service {p : Bool} (v : Variant) (l : Nat) : Tot p (service v l) := by
  unfold service
  split
  · exact tot_nmi
  · split
    · exact tot_irq
    · exact tot_pure _
theorem tot_stepFull (v : Variant) (l : Nat) : Tot2 false true (stepFull v l) :=
  tot2_bind (q := false) _ _ (tot_service v l) (fun _ => tot_step v)
theorem tot_reset {p : Bool} : Tot p reset := by unfold reset; tot_tac

/-! ### bookkeeping (C12) -/

/-- interrupt entry does not touch the running total or the stop latch (it does touch `Cycles`, which `Step` reloads) -/
def Keep (c c' : Regs) : Prop := c'.AllCycles = c.AllCycles ∧ c'.Stopped = c.Stopped

theorem keep_of_same {a b : Regs} (h : Same a b) : Keep a b := ⟨h.1, h.2.1⟩
theorem keep_trans {a b c : Regs} (h1 : Keep a b) (h2 : Keep b c) : Keep a c := ⟨h2.1.trans h1.1, h2.2.trans h1.2⟩

theorem keep_bind {α β : Type} (x : Ex α) (f : α → Ex β) (hx : Rel Keep x) (hf : ∀ a, Rel Keep (f a)) : Rel Keep (x >>= f) :=
  rel_bind (R1 := Keep) (R2 := Keep) (R3 := Keep) x f (fun _ _ _ => keep_trans) hx hf
theorem keep_fr {α : Type} (x : Ex α) (h : Fr x) : Rel Keep x := rel_weaken x (fun _ _ => keep_of_same) h

theorem keep_nmi : Rel Keep nmi := by
  unfold nmi
  refine keep_bind _ _ (keep_fr _ fr_get) (fun _ => ?_)
  refine keep_bind _ _ (keep_fr _ (fr_push16 _)) (fun _ => ?_)
  refine keep_bind _ _ (keep_fr _ fr_get) (fun _ => ?_)
  refine keep_bind _ _ (keep_fr _ (fr_push _)) (fun _ => ?_)
  refine keep_bind _ _ (keep_fr _ (fr_nRead16_cross _ _)) (fun _ => ?_)
  exact rel_modify _ _ (fun _ => ⟨rfl, rfl⟩)

theorem fr_irq : Fr irq := by unfold irq; fr_tac

theorem keep_service (v : Variant) (l : Nat) : Rel Keep (service v l) := by
  unfold service
  split
  · exact keep_nmi
  · split
    · exact keep_fr _ fr_irq
    · exact keep_fr _ (fr_pure _)

/-- with the latch idle the full step is the plain step -/
theorem stepFull_idle (v : Variant) (l : Nat) (h1 : l ≠ latchNMI v) (h2 : l ≠ latchIRQ v) : stepFull v l = step v := by
  unfold stepFull service
  rw [if_neg h1, if_neg h2]
  rfl

end Cpu
