/-
Cycle and stop bookkeeping of `Step`: what the routine may do to Cycles / AllCycles / Stopped, and the resulting
facts about one step over arbitrary decode tables satisfying a decidable side condition (`TableOK`).
-/
import SnesVerif.Cpu.Frame
namespace Cpu
set_option maxRecDepth 100000
attribute [local irreducible] eaRead eaWrite lin

theorem bind_some {α β : Type} {x : Ex α} {f : α → Ex β} {s : St} {r : β × St}
    (h : (x >>= f) s = some r) : ∃ a s1, x s = some (a, s1) ∧ f a s1 = some r := by
  rw [bind_eq] at h
  cases e : x s with
  | none => rw [e] at h; cases h
  | some p => obtain ⟨a, s1⟩ := p; rw [e] at h; exact ⟨a, s1, rfl, h⟩

/-- a taken branch adds one or two cycles -/
def Branch (c c' : Regs) : Prop :=
  c'.AllCycles = c.AllCycles ∧ c'.Stopped = c.Stopped ∧
    (c'.Cycles = c.Cycles ∨ c'.Cycles = c.Cycles + 1 ∨ c'.Cycles = c.Cycles + 1 + 1)
/-- BRK / COP / RTI take one cycle less in emulation mode -/
def Dec (c c' : Regs) : Prop :=
  c'.AllCycles = c.AllCycles ∧ c'.Stopped = c.Stopped ∧ (c'.Cycles = c.Cycles ∨ c'.Cycles = c.Cycles - 1)
/-- STP latches the stop condition -/
def Stp (c c' : Regs) : Prop := c'.AllCycles = c.AllCycles ∧ c'.Stopped = true ∧ c'.Cycles = c.Cycles

theorem rel_branchIf (f : Regs → Bool) : Rel Branch (branchIf f) := by
  unfold branchIf
  apply rel_modify
  intro c
  by_cases h : f c = true
  · simp only [h, if_true]
    unfold addBranchCycles
    by_cases h2 : pagesDiffer (c.PC + 2) c.Addr = true
    · simp only [h2, if_true]; exact ⟨rfl, rfl, Or.inr (Or.inr rfl)⟩
    · simp only [h2]; exact ⟨rfl, rfl, Or.inr (Or.inl rfl)⟩
  · simp only [h]; exact ⟨rfl, rfl, Or.inl rfl⟩

theorem fr_interruptBody a b c d : Fr (interruptBody a b c d) := by unfold interruptBody; fr_tac
theorem fr_rtiBody e : Fr (rtiBody e) := by unfold rtiBody; fr_tac

theorem same_dec {a b c : Regs} (h1 : Same a b) (h2 : Dec b c) : Dec a c := by
  obtain ⟨x1, x2, x3⟩ := h1
  obtain ⟨y1, y2, y3⟩ := h2
  exact ⟨y1.trans x1, y2.trans x2, by rw [x3] at y3; exact y3⟩

theorem dec_final (e : Bool) : Rel Dec (modify fun c' => { c' with stepPC := 0, Cycles := if e then c'.Cycles - 1 else c'.Cycles }) := by
  apply rel_modify
  intro c
  cases e
  · exact ⟨rfl, rfl, Or.inl rfl⟩
  · exact ⟨rfl, rfl, Or.inr rfl⟩

theorem rel_interruptLike a b c : Rel Dec (interruptLike a b c) := by
  unfold interruptLike
  refine rel_bind (R1 := Same) (R2 := Dec) _ _ (fun _ _ _ => same_dec) fr_get (fun c => ?_)
  refine rel_bind (R1 := Same) (R2 := Dec) _ _ (fun _ _ _ => same_dec) (fr_interruptBody _ _ _ _) (fun _ => ?_)
  exact dec_final _

theorem rel_rti : Rel Dec (runP .rti) := by
  unfold runP
  simp only
  refine rel_bind (R1 := Same) (R2 := Dec) _ _ (fun _ _ _ => same_dec) fr_get (fun c => ?_)
  refine rel_bind (R1 := Same) (R2 := Dec) _ _ (fun _ _ _ => same_dec) (fr_rtiBody _) (fun _ => ?_)
  exact dec_final _

theorem rel_stp : Rel Stp (runP .stp) := by
  unfold runP
  apply rel_modify
  intro c
  exact ⟨rfl, rfl, rfl⟩

inductive Kind | plain | branch | dec | stp deriving DecidableEq, Repr

def Proc.kind : Proc → Kind
  | .bcc | .bcs | .beq | .bne | .bmi | .bpl | .bvc | .bvs | .bra => .branch
  | .brk | .cop | .rti => .dec
  | .stp => .stp
  | _ => .plain

def KindRel : Kind → Regs → Regs → Prop
  | .plain => Same | .branch => Branch | .dec => Dec | .stp => Stp

/-- what each routine does to the bookkeeping fields -/
theorem rel_runP (q : Proc) : Rel (KindRel q.kind) (runP q) := by
  cases hk : q.kind with
  | plain =>
    apply fr_runP
    cases q <;> first | rfl | cases hk
  | branch =>
    cases q <;> first | (show Rel Branch _; unfold runP; exact rel_branchIf _) | cases hk
  | dec =>
    cases q <;> first | exact rel_rti | (show Rel Dec _; unfold runP; exact rel_interruptLike _ _ _) | cases hk
  | stp =>
    cases q <;> first | exact rel_stp | cases hk

/-- Cycles after the table-driven adjustments, before the routine runs -/
def cyc0 (row : RowSem) (t : CycAdj) (m x pc dl : Bool) : U8 :=
  let c : U8 := BitVec.ofNat 8 row.cycles
  let c := if m then c - BitVec.ofNat 8 t.decM else c
  let c := if x then (let c := c - BitVec.ofNat 8 t.decX; if pc then c + BitVec.ofNat 8 t.incPage else c) else c
  if dl then c + BitVec.ofNat 8 t.incDL else c

/-- the side condition on one opcode's table entries: under every flag combination the adjusted count stays in a
range where the routine's own correction (−1, +1, +2) cannot reach 0 or wrap -/
def entryOK (row : RowSem) (t : CycAdj) : Bool :=
  [false, true].all fun m => [false, true].all fun x => [false, true].all fun pc => [false, true].all fun dl =>
    let c := (cyc0 row t m x pc dl).toNat
    match row.proc.kind with
    | .plain | .stp => decide (1 ≤ c)
    | .branch => decide (1 ≤ c ∧ c ≤ 253)
    | .dec => decide (2 ≤ c)

theorem entryOK_spec {row : RowSem} {t : CycAdj} (h : entryOK row t = true) (m x pc dl : Bool) :
    let c := (cyc0 row t m x pc dl).toNat
    match row.proc.kind with
    | .plain | .stp => 1 ≤ c
    | .branch => 1 ≤ c ∧ c ≤ 253
    | .dec => 2 ≤ c := by
  unfold entryOK at h
  simp only [List.all_cons, List.all_nil, Bool.and_true, Bool.and_eq_true] at h
  cases m <;> cases x <;> cases pc <;> cases dl <;> simp only [] <;>
    (split <;> simp_all)


theorem modify_some {f : Regs → Regs} {s : St} {r : Unit × St} (h : modify f s = some r) :
    r = ((), { s with r := f s.r }) := by cases h; rfl

theorem eaRead_some {a : Nat} {s : St} {r : U8 × St} (h : eaRead a s = some r) : r = (s.m.f a, s) := by
  unfold eaRead at h; split at h
  · cases h; rfl
  · cases h

/-- the table-driven adjustment, as a function of the flags -/
theorem adjust_cycles (row : RowSem) (t : CycAdj) (pageCrossed : Bool) (ea : Nat) (addr : U16) (c : Regs)
    (hc : c.Cycles = BitVec.ofNat 8 row.cycles) :
    (adjustRegs row t pageCrossed ea addr c).Cycles = cyc0 row t c.M c.X pageCrossed (c.RD &&& 0x00FF != 0) ∧
    (adjustRegs row t pageCrossed ea addr c).AllCycles = c.AllCycles ∧
    (adjustRegs row t pageCrossed ea addr c).Stopped = c.Stopped := by
  refine ⟨?_, rfl, rfl⟩
  show adjCycles t pageCrossed c = _
  unfold cyc0 adjCycles
  rw [hc]

/-- **bookkeeping of one step** over any decode tables whose entries pass `entryOK` -/
theorem stepWith_book (sem : U8 → RowSem) (adj : U8 → CycAdj) (hok : ∀ b, entryOK (sem b) (adj b) = true)
    (s s' : St) (h : stepWith sem adj s = some ((), s')) :
    1 ≤ s'.r.Cycles.toNat ∧
    s'.r.AllCycles = s.r.AllCycles + s'.r.Cycles.setWidth 64 ∧
    s'.r.Stopped = (s.r.Stopped || decide ((sem (s.m.f (lin s.r.RK s.r.PC))).proc.kind = .stp)) := by
  unfold stepWith decodeStage at h
  obtain ⟨row0, sD, hD, h⟩ := bind_some h
  obtain ⟨_, s1, h1, hD⟩ := bind_some hD
  cases modify_some h1
  obtain ⟨c, s2, h2, hD⟩ := bind_some hD
  cases h2
  obtain ⟨opb, s3, h3, hD⟩ := bind_some hD
  cases eaRead_some h3
  simp only at hD
  obtain ⟨_, s4, h4, hD⟩ := bind_some hD
  cases modify_some h4
  obtain ⟨r, s5, h5, hD⟩ := bind_some hD
  have f5 := fr_addressing _ _ _ _ h5
  obtain ⟨addr, ea, pageCrossed⟩ := r
  simp only at hD
  obtain ⟨_, s6, h6, hD⟩ := bind_some hD
  cases modify_some h6
  cases hD
  obtain ⟨_, s7, h7, h⟩ := bind_some h
  have f7 := rel_runP _ _ _ _ h7
  cases modify_some h
  -- assemble
  have hokr := hok (s.m.f (lin s.r.RK s.r.PC))
  obtain ⟨a5, b5, c5⟩ := f5
  obtain ⟨k1, k2, k3⟩ := adjust_cycles (sem (s.m.f (lin s.r.RK s.r.PC))) (adj (s.m.f (lin s.r.RK s.r.PC))) pageCrossed ea addr s5.r c5
  have spec := entryOK_spec hokr s5.r.M s5.r.X pageCrossed (s5.r.RD &&& 0x00FF != 0)
  simp only at spec a5 b5 f7
  rw [← k1] at spec
  rw [a5] at k2
  rw [b5] at k3
  show 1 ≤ s7.r.Cycles.toNat ∧ s7.r.AllCycles + s7.r.Cycles.setWidth 64 = s.r.AllCycles + s7.r.Cycles.setWidth 64 ∧
    s7.r.Stopped = (s.r.Stopped || decide ((sem (s.m.f (lin s.r.RK s.r.PC))).proc.kind = .stp))
  generalize adjustRegs (sem (s.m.f (lin s.r.RK s.r.PC))) (adj (s.m.f (lin s.r.RK s.r.PC))) pageCrossed ea addr s5.r = c6 at f7 spec k2 k3
  generalize (sem (s.m.f (lin s.r.RK s.r.PC))).proc.kind = kd at f7 spec ⊢
  clear k1 c5 b5 a5 hokr
  cases kd <;> simp only [KindRel, Same, Branch, Dec, Stp] at f7 spec
  · obtain ⟨x, y, z⟩ := f7
    rw [z, x, y, k2, k3]
    exact ⟨spec, rfl, by simp⟩
  · obtain ⟨x, y, z⟩ := f7
    rw [x, y, k2, k3]
    refine ⟨?_, rfl, by simp⟩
    rcases z with z | z | z <;> rw [z] <;> bv_omega
  · obtain ⟨x, y, z⟩ := f7
    rw [x, y, k2, k3]
    refine ⟨?_, rfl, by simp⟩
    rcases z with z | z <;> rw [z] <;> bv_omega
  · obtain ⟨x, y, z⟩ := f7
    rw [z, x, y, k2]
    exact ⟨spec, rfl, by simp⟩

end Cpu
