/-
Hand-written model of the two 65C816 interpreters (emulator/cpu65c816/cpu.go, emulator/cpualt/cpu.go + bus.go):
`Step` line by line — fetch, *regenerated* opcode / cycle tables (Gen/CpuTables.lean), the 26-way addressing switch,
cycle adjustment, the `op_*` routines written against `cmdRead/cmdRead16/cmdWrite/cmdWrite16`, PC update.
The dual register copies (RA vs RAh:RAl, RX vs RXl, RY vs RYl) are modelled as they are.
Tied to the Go code by `vh cpu` (both real CPUs in lockstep against this model, compiled into ModelDrv).

NMI/IRQ entry, the interrupt latch, Reset and the triggers are in Cpu/InterruptModel.lean (`stepFull`).  Not modelled here: the OnPC / OnWDM callbacks (see System/RunUntil.lean), logging.
A bus access with an address ≥ 2^24 is the Go index-out-of-range panic: the `none` result.
Status flags are `Bool` (the Go bytes hold 0/1 in every state the harness constructs — stated assumption).
-/
import SnesVerif.Gen.CpuTables
namespace Cpu
open Gen

abbrev U8 := BitVec 8
abbrev U16 := BitVec 16

def zx (b : U8) : U16 := b.setWidth 16
def lo8 (w : U16) : U8 := w.setWidth 8
def hi8 (w : U16) : U8 := (w >>> 8).setWidth 8
def mk16 (h l : U8) : U16 := (zx h <<< 8) ||| zx l
/-- `uint32(bank)<<16 | uint32(addr)` -/
def lin (b : U8) (a : U16) : Nat := b.toNat * 65536 + a.toNat
def b2n (b : Bool) : Nat := if b then 1 else 0
def bit (b : Bool) : U8 := if b then 1 else 0

inductive Variant | primary | alt
  deriving DecidableEq, Repr

/-- memory: contents and the log of written addresses (newest first) -/
structure Mem where
  f : Nat → U8
  wlog : List Nat

/-- addressing modes, by the name of the Go constant -/
inductive AMode
  | Absolute | Absolute_X | Absolute_Y | Accumulator | Immediate | Immediate_flagM | Immediate_flagX | Implied
  | DP | DP_X | DP_Y | DP_X_Indirect | DP_Indirect | DP_Indirect_Long | DP_Indirect_Y | DP_Indirect_Long_Y
  | Absolute_X_Indirect | Absolute_Indirect | Absolute_Indirect_Long | Absolute_Long | Absolute_Long_X
  | BlockMove | PC_Relative | PC_Relative_Long | Stack_Relative | Stack_Relative_Indirect_Y | Unknown
  deriving DecidableEq, Repr

def modeOfName : String → AMode
  | "m_Absolute" => .Absolute | "m_Absolute_X" => .Absolute_X | "m_Absolute_Y" => .Absolute_Y
  | "m_Accumulator" => .Accumulator | "m_Immediate" => .Immediate | "m_Immediate_flagM" => .Immediate_flagM
  | "m_Immediate_flagX" => .Immediate_flagX | "m_Implied" => .Implied | "m_DP" => .DP | "m_DP_X" => .DP_X
  | "m_DP_Y" => .DP_Y | "m_DP_X_Indirect" => .DP_X_Indirect | "m_DP_Indirect" => .DP_Indirect
  | "m_DP_Indirect_Long" => .DP_Indirect_Long | "m_DP_Indirect_Y" => .DP_Indirect_Y
  | "m_DP_Indirect_Long_Y" => .DP_Indirect_Long_Y | "m_Absolute_X_Indirect" => .Absolute_X_Indirect
  | "m_Absolute_Indirect" => .Absolute_Indirect | "m_Absolute_Indirect_Long" => .Absolute_Indirect_Long
  | "m_Absolute_Long" => .Absolute_Long | "m_Absolute_Long_X" => .Absolute_Long_X | "m_BlockMove" => .BlockMove
  | "m_PC_Relative" => .PC_Relative | "m_PC_Relative_Long" => .PC_Relative_Long
  | "m_Stack_Relative" => .Stack_Relative | "m_Stack_Relative_Indirect_Y" => .Stack_Relative_Indirect_Y
  | _ => .Unknown

/-- the exported registers of `CPU` plus the per-step scratch (`StepInfo`, `stepPC`) -/
structure Regs where
  PC : U16
  SP : U16
  RA : U16
  RX : U16
  RY : U16
  RD : U16
  RAh : U8
  RAl : U8
  RXl : U8
  RYl : U8
  RDBR : U8
  RK : U8
  N : Bool
  V : Bool
  M : Bool
  X : Bool
  D : Bool
  I : Bool
  Z : Bool
  C : Bool
  B : Bool
  E : Bool
  Cycles : U8
  AllCycles : BitVec 64
  Stopped : Bool
  WDM : U8
  PPC : U16
  PRK : U8
  stepPC : U16
  EA : Nat
  Addr : U16
  Mode : AMode

structure St where
  r : Regs
  m : Mem

/-- execution monad: state + failure (`none` = Go panic: access outside the 2^20-entry segment table) -/
abbrev Ex (α : Type) := St → Option (α × St)

instance : Monad Ex where
  pure a := fun s => some (a, s)
  bind x f := fun s => match x s with
    | none => none
    | some (a, s') => f a s'

def get : Ex Regs := fun s => some (s.r, s)
def modify (f : Regs → Regs) : Ex Unit := fun s => some ((), { s with r := f s.r })

/-- `Bus.EaRead(a)` -/
def eaRead (a : Nat) : Ex U8 := fun s => if a < 16777216 then some (s.m.f a, s) else none
/-- `Bus.EaWrite(a, v)` -/
def eaWrite (a : Nat) (v : U8) : Ex Unit := fun s =>
  if a < 16777216 then some ((), { s with m := ⟨fun x => if x = a then v else s.m.f x, a :: s.m.wlog⟩ }) else none

def nRead (bank : U8) (addr : U16) : Ex U8 := eaRead (lin bank addr)
def nWrite (bank : U8) (addr : U16) (v : U8) : Ex Unit := eaWrite (lin bank addr) v

def nRead16_wrap (bank : U8) (addr : U16) : Ex U16 := do
  let ll ← eaRead (lin bank addr)
  let hh ← eaRead (lin bank (addr + 1))
  pure (mk16 hh ll)

def nRead16_cross (bank : U8) (addr : U16) : Ex U16 := do
  let ll ← eaRead (lin bank addr)
  let hh ← eaRead ((lin bank addr + 1) % 16777216)
  pure (mk16 hh ll)

/-- primary: `Bus.EaRead24_wrap` (after the fix); alt: `Bus.nRead24_wrap` -/
def nRead24_wrap (bank : U8) (addr : U16) : Ex Nat := do
  let ll ← eaRead (lin bank addr)
  let mm ← eaRead (lin bank (addr + 1))
  let hh ← eaRead (lin bank (addr + 2))
  pure (hh.toNat * 65536 + mm.toNat * 256 + ll.toNat)

def nWrite16_wrap (bank : U8) (addr : U16) (v : U16) : Ex Unit := do
  eaWrite (lin bank addr) (lo8 v)
  eaWrite (lin bank (addr + 1)) (hi8 v)

def nWrite16_cross (bank : U8) (addr : U16) (v : U16) : Ex Unit := do
  eaWrite (lin bank addr) (lo8 v)
  eaWrite ((lin bank addr + 1) % 16777216) (hi8 v)

/-- 16-bit data at an effective address (second byte at EA+1 mod 2^24) -/
def eaRead16 (ea : Nat) : Ex U16 := do
  let ll ← eaRead ea
  let hh ← eaRead ((ea + 1) % 16777216)
  pure (mk16 hh ll)

def eaWrite16 (ea : Nat) (v : U16) : Ex Unit := do
  eaWrite ea (lo8 v)
  eaWrite ((ea + 1) % 16777216) (hi8 v)

/-- accesses at the effective address of the current instruction (`StepInfo.EA`) -/
def rdEA : Ex U8 := fun s => eaRead s.r.EA s
def rdEA16 : Ex U16 := fun s => eaRead16 s.r.EA s
def wrEA (v : U8) : Ex Unit := fun s => eaWrite s.r.EA v s
def wrEA16 (v : U16) : Ex Unit := fun s => eaWrite16 s.r.EA v s

/-! ### operand access dispatch -/

def cmdRead : Ex U8 := do
  let c ← get
  match c.Mode with
  | .Accumulator => pure c.RAl
  | .Immediate | .Immediate_flagM | .Immediate_flagX => nRead c.RK c.Addr
  | .DP | .DP_X | .DP_Y | .Stack_Relative => eaRead c.Addr.toNat
  | .DP_Indirect_Long | .DP_Indirect_Long_Y | .Absolute_Long | .Absolute_Long_X | .Absolute_X | .Absolute_Y
  | .DP_Indirect_Y | .Stack_Relative_Indirect_Y => rdEA
  | .Absolute | .DP_X_Indirect | .DP_Indirect => nRead c.RDBR c.Addr
  | _ => pure 0

def cmdRead16 : Ex U16 := do
  let c ← get
  match c.Mode with
  | .Accumulator => pure c.RA
  | .Immediate | .Immediate_flagM | .Immediate_flagX => nRead16_wrap c.RK c.Addr
  | .DP | .DP_X | .DP_Y | .Stack_Relative => nRead16_wrap 0 c.Addr
  | .DP_Indirect_Long | .DP_Indirect_Long_Y | .Absolute_Long | .Absolute_Long_X | .Absolute_X | .Absolute_Y
  | .Absolute_X_Indirect | .DP_Indirect_Y | .Stack_Relative_Indirect_Y => rdEA16
  | .Absolute | .DP_X_Indirect | .DP_Indirect => nRead16_cross c.RDBR c.Addr
  | _ => pure 0

def cmdWrite (v : U8) : Ex Unit := do
  let c ← get
  match c.Mode with
  | .DP | .DP_X | .DP_Y | .Stack_Relative => eaWrite c.Addr.toNat v
  | .DP_Indirect_Long | .DP_Indirect_Long_Y | .Absolute_Long | .Absolute_Long_X | .Absolute_X | .Absolute_Y
  | .DP_Indirect_Y | .Stack_Relative_Indirect_Y => wrEA v
  | .Absolute | .DP_X_Indirect | .DP_Indirect => nWrite c.RDBR c.Addr v
  | _ => pure ()

def cmdWrite16 (v : U16) : Ex Unit := do
  let c ← get
  match c.Mode with
  | .DP | .DP_X | .DP_Y | .Stack_Relative => nWrite16_wrap 0 c.Addr v
  | .DP_Indirect_Long | .DP_Indirect_Long_Y | .Absolute_Long | .Absolute_Long_X | .Absolute_X | .Absolute_Y
  | .DP_Indirect_Y | .Stack_Relative_Indirect_Y => wrEA16 v
  | .Absolute | .DP_X_Indirect | .DP_Indirect => nWrite16_cross c.RDBR c.Addr v
  | _ => pure ()

/-! ### stack -/

def push (v : U8) : Ex Unit := do
  let c ← get
  nWrite 0 c.SP v
  modify fun c =>
    let sp := c.SP - 1
    { c with SP := if c.E then (sp &&& 0x00FF) ||| 0x1000 else sp }

def pull : Ex U8 := do
  modify fun c =>
    let sp := c.SP + 1
    { c with SP := if c.E then (sp &&& 0x00FF) ||| 0x1000 else sp }
  let c ← get
  nRead 0 c.SP

def push16 (v : U16) : Ex Unit := do
  push (hi8 v)
  push (lo8 v)

def pull16 : Ex U16 := do
  let l ← pull
  let h ← pull
  pure (mk16 h l)

/-! ### flags -/

def flagsByte (c : Regs) : U8 :=
  (bit c.C) ||| (bit c.Z <<< 1) ||| (bit c.I <<< 2) ||| (bit c.D <<< 3) ||| (bit c.X <<< 4) ||| (bit c.M <<< 5) |||
    (bit c.V <<< 6) ||| (bit c.N <<< 7)

def tb (f : U8) (i : Nat) : Bool := f.getLsbD i

/-- `SetFlags` with `ChangeRegisterSizes_X/_M` -/
def setFlags (f : U8) (c : Regs) : Regs :=
  let c := { c with C := tb f 0, Z := tb f 1, I := tb f 2, D := tb f 3 }
  let c :=
    if c.E then { c with X := true, M := true }
    else
      let oldX := c.X
      let oldM := c.M
      let c := { c with X := tb f 4, M := tb f 5 }
      let c := if oldX != c.X then
          (if c.X then { c with RXl := lo8 c.RX, RYl := lo8 c.RY }
           else { c with RX := zx c.RXl, RY := zx c.RYl })
        else c
      if oldM != c.M then
        (if c.M then { c with RAl := lo8 c.RA, RAh := hi8 c.RA }
         else { c with RA := mk16 c.RAh c.RAl })
      else c
  { c with V := tb f 6, N := tb f 7 }

def setZN8 (v : U8) (c : Regs) : Regs := { c with Z := v == 0, N := v.getLsbD 7 }
def setZN16 (v : U16) (c : Regs) : Regs := { c with Z := v == 0, N := v.getLsbD 15 }
def setZ8 (v : U8) (c : Regs) : Regs := { c with Z := v == 0 }
def setZ16 (v : U16) (c : Regs) : Regs := { c with Z := v == 0 }

def pagesDiffer (a b : U16) : Bool := (a &&& 0xFF00) != (b &&& 0xFF00)

def addBranchCycles (c : Regs) : Regs :=
  let c := { c with Cycles := c.Cycles + 1 }
  if pagesDiffer (c.PC + 2) c.Addr then { c with Cycles := c.Cycles + 1 } else c

def branchIf (cond : Regs → Bool) : Ex Unit :=
  modify fun c => if cond c then
      let c := addBranchCycles c
      { c with PC := c.Addr, stepPC := 0 }
    else c

def compare8 (a b : U8) (c : Regs) : Regs := { setZN8 (a - b) c with C := decide (b.toNat ≤ a.toNat) }
def compare16 (a b : U16) (c : Regs) : Regs := { setZN16 (a - b) c with C := decide (b.toNat ≤ a.toNat) }

/-! ### ADC / SBC as the Go code computes them (binary add, then the per-nibble "+6" when D is set) -/

def adcCore8 (a d : Nat) (cIn dec : Bool) : Nat × Bool × Bool :=
  let sum := a + d + b2n cIn
  let sum := if dec then
      let s := if sum % 16 > 9 then sum + 6 else sum
      if s % 256 / 16 * 16 > 0x90 then s + 0x60 else s
    else sum
  let carry := decide (sum > 0xFF)
  let ov := decide (((a ^^^ d) &&& 0x80 = 0) ∧ ((a ^^^ sum) &&& 0x80 ≠ 0))
  (sum % 256, carry, ov)

def adcCore16 (a d : Nat) (cIn dec : Bool) : Nat × Bool × Bool :=
  let sum := a + d + b2n cIn
  let sum := if dec then
      let s := if sum &&& 0x000F > 0x0009 then sum + 0x0006 else sum
      let s := if s &&& 0x00F0 > 0x0090 then s + 0x0060 else s
      let s := if s &&& 0x0F00 > 0x0900 then s + 0x0600 else s
      if s &&& 0xF000 > 0x9000 then s + 0x6000 else s
    else sum
  let carry := decide (sum > 0xFFFF)
  let ov := decide (((a ^^^ d) &&& 0x8000 = 0) ∧ ((a ^^^ sum) &&& 0x8000 ≠ 0))
  (sum % 65536, carry, ov)

def op_adcLike (neg : Bool) : Ex Unit := do
  let c ← get
  if c.M then
    let v ← cmdRead
    let d := if neg then (~~~ v).toNat else v.toNat
    let r := adcCore8 c.RAl.toNat d c.C c.D
    modify fun c => setZN8 (BitVec.ofNat 8 r.1) { c with C := r.2.1, V := r.2.2, RAl := BitVec.ofNat 8 r.1 }
  else
    let v ← cmdRead16
    let d := if neg then (~~~ v).toNat else v.toNat
    let r := adcCore16 c.RA.toNat d c.C c.D
    modify fun c => setZN16 (BitVec.ofNat 16 r.1) { c with C := r.2.1, V := r.2.2, RA := BitVec.ofNat 16 r.1 }

/-! ### read-modify-write helpers -/

def rmw (f8 : U8 → Bool → U8 × Bool) (f16 : U16 → Bool → U16 × Bool) (setC : Bool) : Ex Unit := do
  let c ← get
  if c.Mode == .Accumulator then
    if c.M then
      let r := f8 c.RAl c.C
      modify fun c => setZN8 r.1 { c with RAl := r.1, C := if setC then r.2 else c.C }
    else
      let r := f16 c.RA c.C
      modify fun c => setZN16 r.1 { c with RA := r.1, C := if setC then r.2 else c.C }
  else
    if c.M then
      let v ← cmdRead
      let r := f8 v c.C
      modify fun c => { c with C := if setC then r.2 else c.C }
      cmdWrite r.1
      modify (setZN8 r.1)
    else
      let v ← cmdRead16
      let r := f16 v c.C
      modify fun c => { c with C := if setC then r.2 else c.C }
      cmdWrite16 r.1
      modify (setZN16 r.1)

def logic (f8 : U8 → U8 → U8) (f16 : U16 → U16 → U16) : Ex Unit := do
  let c ← get
  if c.M then
    let v ← cmdRead
    modify fun c => let r := f8 c.RAl v; setZN8 r { c with RAl := r }
  else
    let v ← cmdRead16
    modify fun c => let r := f16 c.RA v; setZN16 r { c with RA := r }

def blockMove (inc : Bool) : Ex Unit := do
  let c ← get
  let dst ← nRead c.RK c.Addr
  let src ← nRead c.RK (c.Addr + 1)
  modify fun c => if c.M then { c with RA := mk16 c.RAh c.RAl } else c
  modify fun c => { c with RDBR := dst }
  let c ← get
  if c.X then
    let v ← nRead src (zx c.RXl)
    nWrite dst (zx c.RYl) v
    modify fun c => if inc then { c with RYl := c.RYl + 1, RXl := c.RXl + 1 } else { c with RYl := c.RYl - 1, RXl := c.RXl - 1 }
  else
    let v ← nRead src c.RX
    nWrite dst c.RY v
    modify fun c => if inc then { c with RY := c.RY + 1, RX := c.RX + 1 } else { c with RY := c.RY - 1, RX := c.RX - 1 }
  modify fun c =>
    let ra := c.RA - 1
    let c := { c with RA := ra, RAl := lo8 ra, RAh := hi8 ra }
    if ra != 0xFFFF then { c with stepPC := 0 } else c

/-- BRK / COP up to the vector fetch (the emulation-mode cycle correction is applied by `interruptLike`) -/
def interruptBody (vecE vecN : U16) (orB : Bool) (c : Regs) : Ex Unit := do
  if c.E then
    push16 (c.PC + 2)
    let c ← get
    push (if orB then flagsByte c ||| 0x10 else flagsByte c)
    modify fun c => { c with I := true, D := false, RK := 0 }
    let pc ← nRead16_cross 0 vecE
    modify fun c => { c with PC := pc }
  else
    push c.RK
    push16 (c.PC + 2)
    let c ← get
    push (flagsByte c)
    modify fun c => { c with I := true, D := false, RK := 0 }
    let pc ← nRead16_cross 0 vecN
    modify fun c => { c with PC := pc }

def interruptLike (vecE vecN : U16) (orB : Bool) : Ex Unit := do
  let c ← get
  interruptBody vecE vecN orB c
  modify fun c' => { c' with stepPC := 0, Cycles := if c.E then c'.Cycles - 1 else c'.Cycles }

/-- RTI up to the last pull (E is not changed by `SetFlags`) -/
def rtiBody (e : Bool) : Ex Unit := do
  if e then
    let f ← pull
    modify (setFlags f)
    let pc ← pull16
    modify fun c => { c with PC := pc }
  else
    let f ← pull
    modify (setFlags f)
    let pc ← pull16
    modify fun c => { c with PC := pc }
    let k ← pull
    modify fun c => { c with RK := k }

/-- the accumulator as a 16-bit source (TAX/TAY/TCD/TCS) -/
def srcC (c : Regs) : U16 := if c.M then mk16 c.RAh c.RAl else c.RA
def srcX (c : Regs) : U16 := if c.X then zx c.RXl else c.RX
def srcY (c : Regs) : U16 := if c.X then zx c.RYl else c.RY

def toIndex (which : Bool) (src : U16) (c : Regs) : Regs :=   -- which = true: X, false: Y
  if c.X then
    (if which then setZN8 (lo8 src) { c with RXl := lo8 src } else setZN8 (lo8 src) { c with RYl := lo8 src })
  else
    (if which then setZN16 src { c with RX := src } else setZN16 src { c with RY := src })

def toAcc (src : U16) (c : Regs) : Regs :=
  if c.M then setZN8 (lo8 src) { c with RAl := lo8 src } else setZN16 src { c with RA := src }

/-- the routines named in the opcode tables -/
inductive Proc
  | adc | sbc | and | ora | eor | asl | lsr | rol | ror | inc | dec | bcc
  | bcs | beq | bne | bmi | bpl | bvc | bvs | bra | brl | bit | brk | cop
  | clc | cld | cli | clv | sec | sed | sei | cmp | cpx | cpy | dex | dey
  | inx | iny | jmp | jsl | jsr | lda | ldx | ldy | nop | pha | php | phx
  | phy | pla | plp | plx | ply | rti | rtl | rts | sta | stx | sty | stz
  | tax | tay | tsx | txa | tya | txs | txy | tyx | mvn | mvp | phb | phd
  | phk | pea | per | pld | plb | rep | sep | stp | tcd | tcs | tdc | tsc
  | trb | tsb | wdm | xba | xce | none
  deriving DecidableEq, Repr, Inhabited

def procOfName : String → Proc
  | "op_adc" => .adc
  | "op_sbc" => .sbc
  | "op_and" => .and
  | "op_ora" => .ora
  | "op_eor" => .eor
  | "op_asl" => .asl
  | "op_lsr" => .lsr
  | "op_rol" => .rol
  | "op_ror" => .ror
  | "op_inc" => .inc
  | "op_dec" => .dec
  | "op_bcc" => .bcc
  | "op_bcs" => .bcs
  | "op_beq" => .beq
  | "op_bne" => .bne
  | "op_bmi" => .bmi
  | "op_bpl" => .bpl
  | "op_bvc" => .bvc
  | "op_bvs" => .bvs
  | "op_bra" => .bra
  | "op_brl" => .brl
  | "op_bit" => .bit
  | "op_brk" => .brk
  | "op_cop" => .cop
  | "op_clc" => .clc
  | "op_cld" => .cld
  | "op_cli" => .cli
  | "op_clv" => .clv
  | "op_sec" => .sec
  | "op_sed" => .sed
  | "op_sei" => .sei
  | "op_cmp" => .cmp
  | "op_cpx" => .cpx
  | "op_cpy" => .cpy
  | "op_dex" => .dex
  | "op_dey" => .dey
  | "op_inx" => .inx
  | "op_iny" => .iny
  | "op_jmp" => .jmp
  | "op_jsl" => .jsl
  | "op_jsr" => .jsr
  | "op_lda" => .lda
  | "op_ldx" => .ldx
  | "op_ldy" => .ldy
  | "op_nop" | "op_wai" | "wai" => .nop
  | "op_pha" => .pha
  | "op_php" => .php
  | "op_phx" => .phx
  | "op_phy" => .phy
  | "op_pla" => .pla
  | "op_plp" => .plp
  | "op_plx" => .plx
  | "op_ply" => .ply
  | "op_rti" => .rti
  | "op_rtl" => .rtl
  | "op_rts" => .rts
  | "op_sta" => .sta
  | "op_stx" => .stx
  | "op_sty" => .sty
  | "op_stz" => .stz
  | "op_tax" => .tax
  | "op_tay" => .tay
  | "op_tsx" => .tsx
  | "op_txa" => .txa
  | "op_tya" => .tya
  | "op_txs" => .txs
  | "op_txy" => .txy
  | "op_tyx" => .tyx
  | "op_mvn" => .mvn
  | "op_mvp" => .mvp
  | "op_phb" => .phb
  | "op_phd" => .phd
  | "op_phk" => .phk
  | "op_pea" | "op_pei" => .pea
  | "op_per" => .per
  | "op_pld" => .pld
  | "op_plb" => .plb
  | "op_rep" => .rep
  | "op_sep" => .sep
  | "op_stp" | "stp" => .stp
  | "op_tcd" => .tcd
  | "op_tcs" => .tcs
  | "op_tdc" => .tdc
  | "op_tsc" => .tsc
  | "op_trb" => .trb
  | "op_tsb" => .tsb
  | "op_wdm" => .wdm
  | "op_xba" => .xba
  | "op_xce" => .xce
  | _ => .none

/-- the routine named in the opcode table -/
def runP : Proc → Ex Unit
  | .adc => op_adcLike false
  | .sbc => op_adcLike true
  | .and => logic (· &&& ·) (· &&& ·)
  | .ora => logic (· ||| ·) (· ||| ·)
  | .eor => logic (· ^^^ ·) (· ^^^ ·)
  | .asl => rmw (fun v _ => (v <<< 1, v.getLsbD 7)) (fun v _ => (v <<< 1, v.getLsbD 15)) true
  | .lsr => rmw (fun v _ => (v >>> 1, v.getLsbD 0)) (fun v _ => (v >>> 1, v.getLsbD 0)) true
  | .rol => rmw (fun v ci => ((v <<< 1) ||| bit ci, v.getLsbD 7)) (fun v ci => ((v <<< 1) ||| zx (bit ci), v.getLsbD 15)) true
  | .ror => rmw (fun v ci => ((v >>> 1) ||| (bit ci <<< 7), v.getLsbD 0)) (fun v ci => ((v >>> 1) ||| (zx (bit ci) <<< 15), v.getLsbD 0)) true
  | .inc => rmw (fun v _ => (v + 1, false)) (fun v _ => (v + 1, false)) false
  | .dec => rmw (fun v _ => (v - 1, false)) (fun v _ => (v - 1, false)) false
  | .bcc => branchIf (fun c => !c.C)
  | .bcs => branchIf (fun c => c.C)
  | .beq => branchIf (fun c => c.Z)
  | .bne => branchIf (fun c => !c.Z)
  | .bmi => branchIf (fun c => c.N)
  | .bpl => branchIf (fun c => !c.N)
  | .bvc => branchIf (fun c => !c.V)
  | .bvs => branchIf (fun c => c.V)
  | .bra => branchIf (fun _ => true)
  | .brl => modify fun c => { c with PC := c.Addr, stepPC := 0 }
  | .bit => do
    let c ← get
    if c.M then
      let v ← cmdRead
      modify fun c =>
        let c := setZ8 (c.RAl &&& v) c
        if c.Mode != .Immediate_flagM then { c with N := v.getLsbD 7, V := v.getLsbD 6 } else c
    else
      let v ← cmdRead16
      modify fun c =>
        let c := setZ16 (c.RA &&& v) c
        if c.Mode != .Immediate_flagM then { c with N := v.getLsbD 15, V := v.getLsbD 14 } else c
  | .brk => interruptLike 0xFFFE 0xFFE6 true
  | .cop => interruptLike 0xFFF4 0xFFE4 false
  | .clc => modify fun c => { c with C := false }
  | .cld => modify fun c => { c with D := false }
  | .cli => modify fun c => { c with I := false }
  | .clv => modify fun c => { c with V := false }
  | .sec => modify fun c => { c with C := true }
  | .sed => modify fun c => { c with D := true }
  | .sei => modify fun c => { c with I := true }
  | .cmp => do
    let c ← get
    if c.M then let v ← cmdRead; modify fun c => compare8 c.RAl v c
    else let v ← cmdRead16; modify fun c => compare16 c.RA v c
  | .cpx => do
    let c ← get
    if c.X then let v ← cmdRead; modify fun c => compare8 c.RXl v c
    else let v ← cmdRead16; modify fun c => compare16 c.RX v c
  | .cpy => do
    let c ← get
    if c.X then let v ← cmdRead; modify fun c => compare8 c.RYl v c
    else let v ← cmdRead16; modify fun c => compare16 c.RY v c
  | .dex => modify fun c => if c.X then setZN8 (c.RXl - 1) { c with RXl := c.RXl - 1 } else setZN16 (c.RX - 1) { c with RX := c.RX - 1 }
  | .dey => modify fun c => if c.X then setZN8 (c.RYl - 1) { c with RYl := c.RYl - 1 } else setZN16 (c.RY - 1) { c with RY := c.RY - 1 }
  | .inx => modify fun c => if c.X then setZN8 (c.RXl + 1) { c with RXl := c.RXl + 1 } else setZN16 (c.RX + 1) { c with RX := c.RX + 1 }
  | .iny => modify fun c => if c.X then setZN8 (c.RYl + 1) { c with RYl := c.RYl + 1 } else setZN16 (c.RY + 1) { c with RY := c.RY + 1 }
  | .jmp => do
    let c ← get
    match c.Mode with
    | .Absolute => modify fun c => { c with PC := c.Addr }
    | .Absolute_Indirect => do
      let pc ← nRead16_wrap 0 c.Addr
      modify fun c => { c with PC := pc }
    | .Absolute_Long => modify fun c => { c with PC := BitVec.ofNat 16 c.EA, RK := BitVec.ofNat 8 (c.EA / 65536) }
    | .Absolute_Indirect_Long => do
      let pc ← nRead16_wrap 0 c.Addr
      modify fun c => { c with PC := pc }
      let k ← nRead 0 (c.Addr + 2)
      modify fun c => { c with RK := k }
    | .Absolute_X_Indirect => modify fun c => { c with PC := c.Addr }
    | _ => do
      let pc ← cmdRead16
      modify fun c => { c with PC := pc }
    modify fun c => { c with stepPC := 0 }
  | .jsl => do
    let c ← get
    push c.RK
    push16 (c.PC + 3)
    modify fun c => { c with PC := BitVec.ofNat 16 c.EA, stepPC := 0, RK := BitVec.ofNat 8 (c.EA / 65536) }
  | .jsr => do
    let c ← get
    push16 (c.PC + 2)
    match c.Mode with
    | .Absolute | .Absolute_X_Indirect => modify fun c => { c with PC := c.Addr }
    | _ => do
      let pc ← cmdRead16
      modify fun c => { c with PC := pc }
    modify fun c => { c with stepPC := 0 }
  | .lda => do
    let c ← get
    if c.M then let v ← cmdRead; modify fun c => setZN8 v { c with RAl := v }
    else let v ← cmdRead16; modify fun c => setZN16 v { c with RA := v }
  | .ldx => do
    let c ← get
    if c.X then let v ← cmdRead; modify fun c => setZN8 v { c with RXl := v }
    else let v ← cmdRead16; modify fun c => setZN16 v { c with RX := v }
  | .ldy => do
    let c ← get
    if c.X then let v ← cmdRead; modify fun c => setZN8 v { c with RYl := v }
    else let v ← cmdRead16; modify fun c => setZN16 v { c with RY := v }
  | .nop => pure ()
  | .pha => do
    let c ← get
    if c.M then push c.RAl else push16 c.RA
  | .php => do
    let c ← get
    push (flagsByte c)
  | .phx => do
    let c ← get
    if c.X then push c.RXl else push16 c.RX
  | .phy => do
    let c ← get
    if c.X then push c.RYl else push16 c.RY
  | .pla => do
    let c ← get
    if c.M then let v ← pull; modify fun c => setZN8 v { c with RAl := v }
    else let v ← pull16; modify fun c => setZN16 v { c with RA := v }
  | .plp => do
    let v ← pull
    modify (setFlags v)
  | .plx => do
    let c ← get
    if c.X then let v ← pull; modify fun c => setZN8 v { c with RXl := v }
    else let v ← pull16; modify fun c => setZN16 v { c with RX := v }
  | .ply => do
    let c ← get
    if c.X then let v ← pull; modify fun c => setZN8 v { c with RYl := v }
    else let v ← pull16; modify fun c => setZN16 v { c with RY := v }
  | .rti => do
    let c ← get
    rtiBody c.E
    modify fun c' => { c' with stepPC := 0, Cycles := if c.E then c'.Cycles - 1 else c'.Cycles }
  | .rtl => do
    let pc ← pull16
    modify fun c => { c with PC := pc + 1 }
    let k ← pull
    modify fun c => { c with RK := k, stepPC := 0 }
  | .rts => do
    let pc ← pull16
    modify fun c => { c with PC := pc + 1, stepPC := 0 }
  | .sta => do
    let c ← get
    if c.M then cmdWrite c.RAl else cmdWrite16 c.RA
  | .stx => do
    let c ← get
    if c.X then cmdWrite c.RXl else cmdWrite16 c.RX
  | .sty => do
    let c ← get
    if c.X then cmdWrite c.RYl else cmdWrite16 c.RY
  | .stz => do
    let c ← get
    if c.M then cmdWrite 0 else cmdWrite16 0
  | .tax => modify fun c => toIndex true (srcC c) c
  | .tay => modify fun c => toIndex false (srcC c) c
  | .tsx => modify fun c => toIndex true c.SP c
  | .txa => modify fun c => toAcc (srcX c) c
  | .tya => modify fun c => toAcc (srcY c) c
  | .txs => modify fun c => { c with SP := if c.E then 0x0100 ||| (srcX c &&& 0x00FF) else srcX c }
  | .txy => modify fun c => if c.X then setZN8 c.RXl { c with RYl := c.RXl } else setZN16 c.RX { c with RY := c.RX }
  | .tyx => modify fun c => if c.X then setZN8 c.RYl { c with RXl := c.RYl } else setZN16 c.RY { c with RX := c.RY }
  | .mvn => blockMove true
  | .mvp => blockMove false
  | .phb => do let c ← get; push c.RDBR
  | .phd => do let c ← get; push16 c.RD
  | .phk => do let c ← get; push c.RK
  | .pea => do
    let v ← cmdRead16
    push16 v
  | .per => do let c ← get; push16 c.Addr
  | .pld => do
    let v ← pull16
    modify fun c => setZN16 v { c with RD := v }
  | .plb => do
    let v ← pull
    modify fun c => setZN8 v { c with RDBR := v }
  | .rep => do
    let v ← rdEA
    modify fun c => setFlags (flagsByte c &&& ~~~ v) c
  | .sep => do
    let v ← rdEA
    modify fun c => setFlags (flagsByte c ||| v) c
  | .stp => modify fun c => { c with Stopped := true }
  | .tcd => modify fun c => setZN16 (srcC c) { c with RD := srcC c }
  | .tcs => modify fun c => { c with SP := if c.E then 0x0100 ||| (srcC c &&& 0x00FF) else srcC c }
  | .tdc => modify fun c =>
      setZN16 c.RD (if c.M then { c with RAh := hi8 c.RD, RAl := lo8 c.RD } else { c with RA := c.RD })
  | .tsc => modify fun c =>
      setZN16 c.SP (if c.M then { c with RAh := hi8 c.SP, RAl := lo8 c.SP } else { c with RA := c.SP })
  | .trb => do
    let c ← get
    if c.M then
      let v ← cmdRead
      modify fun c => setZ8 (v &&& c.RAl) c
      cmdWrite (v &&& ~~~ c.RAl)
    else
      let v ← cmdRead16
      modify fun c => setZ16 (v &&& c.RA) c
      cmdWrite16 (v &&& ~~~ c.RA)
  | .tsb => do
    let c ← get
    if c.M then
      let v ← cmdRead
      modify fun c => setZ8 (v &&& c.RAl) c
      cmdWrite (v ||| c.RAl)
    else
      let v ← cmdRead16
      modify fun c => setZ16 (v &&& c.RA) c
      cmdWrite16 (v ||| c.RA)
  | .wdm => do
    let v ← cmdRead
    modify fun c => { c with WDM := v }
  | .xba => modify fun c =>
      if c.M then setZN8 c.RAh { c with RAh := c.RAl, RAl := c.RAh }
      else
        let newl := c.RA >>> 8
        let newh := c.RA <<< 8
        setZN8 (lo8 newl) { c with RA := newh ||| newl }
  | .xce => modify fun c =>
      let cIn := c.C
      let c := { c with C := c.E }
      if cIn then
        let c := setFlags (flagsByte c ||| 0x30) c
        { c with E := true, SP := 0x0100 ||| (c.SP &&& 0x00FF), RX := c.RX &&& 0x00FF, RY := c.RY &&& 0x00FF }
      else { c with E := false }
  | .none => pure ()     -- op_xxx (log.Fatalf) is not reachable from the tables

def runProc (name : String) : Ex Unit := runP (procOfName name)

/-! ### Step -/

def tableOf : Variant → Array InsRow
  | .primary => primary_instructions
  | .alt => alt_instructions

def cycTables : Variant → Array Nat × Array Nat × Array Nat × Array Nat
  | .primary => (primary_decCycles_flagM, primary_decCycles_flagX, primary_incCycles_regDL_not00, primary_incCycles_PageCross)
  | .alt => (alt_decCycles_flagM, alt_decCycles_flagX, alt_incCycles_regDL_not00, alt_incCycles_PageCross)

def idx (c : Regs) (which : Bool) : U16 := if which then srcX c else srcY c

/-- the addressing switch: (addr, ea, pageCrossed, stepPC adjustment) -/
def addressing (mode : AMode) : Ex (U16 × Nat × Bool) := do
  let c ← get
  match mode with
  | .Absolute => do let a ← nRead16_wrap c.RK (c.PC + 1); pure (a, 0, false)
  | .Absolute_X => do
    let a ← nRead16_wrap c.RK (c.PC + 1)
    pure (0, lin c.RDBR a + (srcX c).toNat, pagesDiffer a (a + srcX c))
  | .Absolute_Y => do
    let a ← nRead16_wrap c.RK (c.PC + 1)
    pure (0, lin c.RDBR a + (srcY c).toNat, pagesDiffer a (a + srcY c))
  | .Accumulator | .Implied => pure (0, 0, false)
  | .Immediate => pure (c.PC + 1, lin c.RK (c.PC + 1), false)
  | .Immediate_flagM => do
    modify fun c => { c with stepPC := c.stepPC - zx (bit c.M) }
    pure (c.PC + 1, 0, false)
  | .Immediate_flagX => do
    modify fun c => { c with stepPC := c.stepPC - zx (bit c.X) }
    pure (c.PC + 1, 0, false)
  | .DP => do let a ← nRead c.RK (c.PC + 1); pure (zx a + c.RD, 0, false)
  | .DP_X => do let a ← nRead c.RK (c.PC + 1); pure (zx a + srcX c + c.RD, 0, false)
  | .DP_Y => do let a ← nRead c.RK (c.PC + 1); pure (zx a + srcY c + c.RD, 0, false)
  | .DP_X_Indirect => do
    let a ← nRead c.RK (c.PC + 1)
    let p ← nRead16_wrap 0 (zx a + srcX c + c.RD)
    pure (p, 0, false)
  | .DP_Indirect => do
    let a ← nRead c.RK (c.PC + 1)
    let p ← nRead16_wrap 0 (zx a + c.RD)
    pure (p, 0, false)
  | .DP_Indirect_Long => do
    let a ← nRead c.RK (c.PC + 1)
    let e ← nRead24_wrap 0 (zx a + c.RD)
    pure (0, e, false)
  | .DP_Indirect_Y => do
    let a ← nRead c.RK (c.PC + 1)
    let p ← nRead16_wrap 0 (zx a + c.RD)
    let addr := p + srcY c
    pure (addr, lin c.RDBR p + (srcY c).toNat, pagesDiffer (addr - srcY c) addr)
  | .DP_Indirect_Long_Y => do
    let a ← nRead c.RK (c.PC + 1)
    let e ← nRead24_wrap 0 (zx a + c.RD)
    pure (0, e + (srcY c).toNat, false)
  | .Absolute_X_Indirect => do
    let a ← nRead16_wrap c.RK (c.PC + 1)
    let a := a + srcX c
    let p ← nRead16_wrap c.RK a
    pure (p, lin c.RK a, false)
  | .Absolute_Indirect | .Absolute_Indirect_Long => do
    let a ← nRead16_wrap c.RK (c.PC + 1)
    pure (a, 0, false)
  | .Absolute_Long => do let e ← nRead24_wrap c.RK (c.PC + 1); pure (0, e, false)
  | .Absolute_Long_X => do let e ← nRead24_wrap c.RK (c.PC + 1); pure (0, e + (srcX c).toNat, false)
  | .PC_Relative => do
    let a ← nRead c.RK (c.PC + 1)
    let a16 := zx a
    pure (if a.toNat < 0x80 then c.PC + 2 + a16 else c.PC + 2 + a16 - 0x100, 0, false)
  | .PC_Relative_Long => do
    let a ← nRead16_wrap c.RK (c.PC + 1)
    pure (c.PC + 3 + a, 0, false)
  | .Stack_Relative => do let a ← nRead c.RK (c.PC + 1); pure (zx a + c.SP, 0, false)
  | .Stack_Relative_Indirect_Y => do
    let a ← nRead c.RK (c.PC + 1)
    let p ← nRead16_wrap 0 (zx a + c.SP)
    pure (0, lin c.RDBR p + (srcY c).toNat, false)
  | .BlockMove => pure (c.PC + 1, 0, false)
  | .Unknown => do
    modify fun c => { c with stepPC := 0 }
    pure (0, 0, false)

/-- what `Step` uses of an opcode-table row -/
structure RowSem where
  proc : Proc
  mode : AMode
  size : Nat
  cycles : Nat
  deriving DecidableEq, Repr

def rowSem (r : InsRow) : RowSem := ⟨procOfName r.proc, modeOfName r.modeName, r.size, r.cycles⟩

/-- the per-opcode cycle adjustments: (decCycles_flagM, decCycles_flagX, incCycles_regDL_not00, incCycles_PageCross) -/
structure CycAdj where
  decM : Nat
  decX : Nat
  incDL : Nat
  incPage : Nat
  deriving DecidableEq, Repr

def semOf (v : Variant) (opb : U8) : RowSem := rowSem ((tableOf v).getD opb.toNat default)
def adjOf (v : Variant) (opb : U8) : CycAdj :=
  let t := cycTables v
  ⟨t.1.getD opb.toNat 0, t.2.1.getD opb.toNat 0, t.2.2.1.getD opb.toNat 0, t.2.2.2.getD opb.toNat 0⟩

/-- the table-driven cycle adjustments (byte arithmetic, as in Go) -/
def adjCycles (t : CycAdj) (pageCrossed : Bool) (c : Regs) : U8 :=
  let cy := c.Cycles
  let cy := if c.M then cy - BitVec.ofNat 8 t.decM else cy
  let cy := if c.X then
      let cy := cy - BitVec.ofNat 8 t.decX
      if pageCrossed then cy + BitVec.ofNat 8 t.incPage else cy
    else cy
  if c.RD &&& 0x00FF != 0 then cy + BitVec.ofNat 8 t.incDL else cy

/-- cycle adjustment and the hand-over of the decoded operand location (`StepInfo`) -/
def adjustRegs (row : RowSem) (t : CycAdj) (pageCrossed : Bool) (ea : Nat) (addr : U16) (c : Regs) : Regs :=
  { c with Cycles := adjCycles t pageCrossed c, EA := ea % 16777216, Addr := addr, Mode := row.mode }

/-- the end of `Step`: account the cycles, advance the PC -/
def finishRegs (c : Regs) : Regs :=
  { c with AllCycles := c.AllCycles + c.Cycles.setWidth 64, PC := c.PC + c.stepPC }

/-- the first half of `Step()`: fetch, table lookup, addressing switch, cycle adjustment, `StepInfo` hand-over -/
def decodeStage (sem : U8 → RowSem) (adj : U8 → CycAdj) : Ex RowSem := do
  modify fun c => { c with PPC := c.PC, PRK := c.RK }
  let c ← get
  let opb ← nRead c.RK c.PC
  let row := sem opb
  let t := adj opb
  modify fun c => { c with stepPC := BitVec.ofNat 16 row.size, Cycles := BitVec.ofNat 8 row.cycles }
  let (addr, ea, pageCrossed) ← addressing row.mode
  modify (adjustRegs row t pageCrossed ea addr)
  pure row

/-- `Step()` with the interrupt latch idle, over abstract decode tables -/
def stepWith (sem : U8 → RowSem) (adj : U8 → CycAdj) : Ex Unit := do
  let row ← decodeStage sem adj
  runP row.proc
  modify finishRegs

/-- `Step()` of one interpreter; the Go result pair is (Cycles, Stopped) of the new state -/
def step (v : Variant) : Ex Unit := stepWith (semOf v) (adjOf v)

def run (v : Variant) : Nat → Ex Unit
  | 0 => pure ()
  | n + 1 => do step v; run v n

end Cpu
