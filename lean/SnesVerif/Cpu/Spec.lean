/-
The WDC 65C816 programming model, native mode: one instruction on the architectural state.
Hand-written from the W65C816S data sheet and "Programming the 65816" (Eyes & Lichty) — NOT derived from the Go
code.  It is the formal reading of "as the WDC model prescribes" in C01 and part of the trusted base (DESIGN.md
Appendix A lists the wrap rules used).  Decode: Spec/Decode.lean.

Level: the programming model.  Operands are resolved first (all pointer reads), then data is read, then registers and
flags are updated, then memory is written, then PC.  Cycle-level bus order is below this level.
-/
import SnesVerif.Spec.Decode
namespace WDC
open Spec

abbrev U8 := BitVec 8
abbrev U16 := BitVec 16

/-- architectural state: the programmer-visible registers, the stop latch, and the 16 MiB memory -/
structure Arch where
  A : U16        -- the 16-bit accumulator C = B:A
  X : U16
  Y : U16
  S : U16
  D : U16
  PC : U16
  DBR : U8
  PBR : U8
  fN : Bool
  fV : Bool
  fM : Bool
  fX : Bool
  fD : Bool
  fI : Bool
  fZ : Bool
  fC : Bool
  E : Bool
  stopped : Bool
  mem : Nat → U8
  /-- ghost: addresses written so far, newest first (lets a driver print the written bytes) -/
  wlog : List Nat

def zx (b : U8) : U16 := b.setWidth 16
def lo (w : U16) : U8 := w.setWidth 8
def hi (w : U16) : U8 := (w >>> 8).setWidth 8
def word (h l : U8) : U16 := (zx h <<< 8) ||| zx l

/-- 24-bit bus address bank:offset -/
def addr24 (bank : U8) (off : U16) : Nat := bank.toNat * 65536 + off.toNat
def wrap24 (a : Nat) : Nat := a % 16777216

def rd (a : Arch) (addr : Nat) : U8 := a.mem addr
def wr (a : Arch) (addr : Nat) (v : U8) : Arch :=
  { a with mem := fun x => if x = addr then v else a.mem x, wlog := addr :: a.wlog }

/-- the index registers as seen by address arithmetic: 8 bits when X=1 -/
def xv (a : Arch) : U16 := if a.fX then zx (lo a.X) else a.X
def yv (a : Arch) : U16 := if a.fX then zx (lo a.Y) else a.Y

/-! ### operand bytes (program bank, wrapping at the bank end) -/
def op1 (a : Arch) : U8 := rd a (addr24 a.PBR (a.PC + 1))
def op2 (a : Arch) : U8 := rd a (addr24 a.PBR (a.PC + 2))
def op3 (a : Arch) : U8 := rd a (addr24 a.PBR (a.PC + 3))
def op16 (a : Arch) : U16 := word (op2 a) (op1 a)

/-- a 16-bit pointer stored in bank 0 (wraps inside bank 0) -/
def ptr16 (a : Arch) (off : U16) : U16 := word (rd a (addr24 0 (off + 1))) (rd a (addr24 0 off))
/-- a 24-bit pointer stored in bank 0 (wraps inside bank 0) -/
def ptr24 (a : Arch) (off : U16) : Nat :=
  (rd a (addr24 0 (off + 2))).toNat * 65536 + (rd a (addr24 0 (off + 1))).toNat * 256 + (rd a (addr24 0 off)).toNat

/-- where the data of a data-addressing mode lives: the address of the low byte and of the high byte -/
structure Loc where
  lo : Nat
  hi : Nat

/-- data in bank `b` that wraps inside the bank (direct page, stack, immediates) -/
def inBank (b : U8) (off : U16) : Loc := ⟨addr24 b off, addr24 b (off + 1)⟩
/-- data at a 24-bit address; the high byte follows linearly, wrapping at 2^24 -/
def linear (ad : Nat) : Loc := ⟨wrap24 ad, wrap24 (ad + 1)⟩

/-- effective location of the data operand for the data addressing modes -/
def resolve (a : Arch) : Mode → Loc
  | .immM | .immX | .imm8 | .imm16 => inBank a.PBR (a.PC + 1)
  | .dp => inBank 0 (a.D + zx (op1 a))
  | .dpX => inBank 0 (a.D + zx (op1 a) + xv a)
  | .dpY => inBank 0 (a.D + zx (op1 a) + yv a)
  | .sr => inBank 0 (a.S + zx (op1 a))
  | .abs => linear (addr24 a.DBR (op16 a))
  | .absX => linear (addr24 a.DBR (op16 a) + (xv a).toNat)
  | .absY => linear (addr24 a.DBR (op16 a) + (yv a).toNat)
  | .long => linear ((op3 a).toNat * 65536 + (op16 a).toNat)
  | .longX => linear ((op3 a).toNat * 65536 + (op16 a).toNat + (xv a).toNat)
  | .dpInd => linear (addr24 a.DBR (ptr16 a (a.D + zx (op1 a))))
  | .dpIndX => linear (addr24 a.DBR (ptr16 a (a.D + zx (op1 a) + xv a)))
  | .dpIndY => linear (addr24 a.DBR (ptr16 a (a.D + zx (op1 a))) + (yv a).toNat)
  | .dpIndLong => linear (ptr24 a (a.D + zx (op1 a)))
  | .dpIndLongY => linear (ptr24 a (a.D + zx (op1 a)) + (yv a).toNat)
  | .srIndY => linear (addr24 a.DBR (ptr16 a (a.S + zx (op1 a))) + (yv a).toNat)
  | _ => ⟨0, 0⟩

def read8 (a : Arch) (l : Loc) : U8 := rd a l.lo
def read16 (a : Arch) (l : Loc) : U16 := word (rd a l.hi) (rd a l.lo)
def write8 (a : Arch) (l : Loc) (v : U8) : Arch := wr a l.lo v
def write16 (a : Arch) (l : Loc) (v : U16) : Arch := wr (wr a l.lo (lo v)) l.hi (hi v)

/-! ### stack (native mode: 16-bit S, bank 0) -/
def push8 (a : Arch) (v : U8) : Arch := { wr a (addr24 0 a.S) v with S := a.S - 1 }
def push16 (a : Arch) (v : U16) : Arch := push8 (push8 a (hi v)) (lo v)
def pull8 (a : Arch) : U8 × Arch := (rd a (addr24 0 (a.S + 1)), { a with S := a.S + 1 })
def pull16 (a : Arch) : U16 × Arch :=
  let (l, a) := pull8 a
  let (h, a) := pull8 a
  (word h l, a)

/-! ### status register -/
def b2u (b : Bool) : U8 := if b then 1 else 0
def getP (a : Arch) : U8 :=
  b2u a.fC ||| (b2u a.fZ <<< 1) ||| (b2u a.fI <<< 2) ||| (b2u a.fD <<< 3) ||| (b2u a.fX <<< 4) ||| (b2u a.fM <<< 5) |||
    (b2u a.fV <<< 6) ||| (b2u a.fN <<< 7)

/-- entering X=1 clears the high bytes of the index registers -/
def normX (a : Arch) : Arch := if a.fX then { a with X := zx (lo a.X), Y := zx (lo a.Y) } else a

/-- write all eight bits of P (native mode), with the index-width side effect -/
def setP (a : Arch) (p : U8) : Arch :=
  normX { a with fC := p.getLsbD 0, fZ := p.getLsbD 1, fI := p.getLsbD 2, fD := p.getLsbD 3,
                 fX := p.getLsbD 4, fM := p.getLsbD 5, fV := p.getLsbD 6, fN := p.getLsbD 7 }

def nz8 (a : Arch) (v : U8) : Arch := { a with fN := v.getLsbD 7, fZ := v == 0 }
def nz16 (a : Arch) (v : U16) : Arch := { a with fN := v.getLsbD 15, fZ := v == 0 }

/-- set the low byte of the accumulator, keeping the hidden B -/
def setAlo (a : Arch) (v : U8) : Arch := { a with A := word (hi a.A) v }

/-! ### arithmetic -/

/-- 8-bit binary ADC: (result, carry, overflow) -/
def adc8 (x d : U8) (c : Bool) : U8 × Bool × Bool :=
  let x := x.toNat; let d := d.toNat; let ci := if c then 1 else 0
  let r := x + d + ci
  (BitVec.ofNat 8 r, decide (r > 0xFF), decide (((x ^^^ d) &&& 0x80 = 0) ∧ ((x ^^^ r) &&& 0x80 ≠ 0)))

/-- 8-bit binary SBC: A + ~M + C -/
def sbc8 (x d : U8) (c : Bool) : U8 × Bool × Bool := adc8 x (~~~ d) c

/-- one decimal digit step of ADC: (digit sum incl. carry-in) → (digit, carry-out) -/
def decAddDigit (s : Nat) : Nat × Nat := if s > 9 then ((s + 6) % 16, 1) else (s, 0)
/-- one decimal digit step of SBC on the complemented operand: no carry-out means borrow: subtract 6 -/
def decSubDigit (s : Nat) : Nat × Nat := if s ≤ 15 then ((s + 10) % 16, 0) else (s % 16, 1)

/-- 16-bit ADC -/
def adc16 (x d : U16) (c dec : Bool) : U16 × Bool × Bool :=
  let x := x.toNat; let d := d.toNat; let ci := if c then 1 else 0
  if dec then
    let n0 := decAddDigit (x % 16 + d % 16 + ci)
    let n1 := decAddDigit (x / 16 % 16 + d / 16 % 16 + n0.2)
    let n2 := decAddDigit (x / 256 % 16 + d / 256 % 16 + n1.2)
    let s3 := x / 4096 + d / 4096 + n2.2                       -- top digit before its correction
    let pre := s3 % 16 * 4096 + n2.1 * 256 + n1.1 * 16 + n0.1
    let v := decide (((x ^^^ d) &&& 0x8000 = 0) ∧ ((x ^^^ pre) &&& 0x8000 ≠ 0))
    let n3 := decAddDigit s3
    let carry := decide (s3 > 9)
    (BitVec.ofNat 16 (n3.1 * 4096 + n2.1 * 256 + n1.1 * 16 + n0.1), carry, v)
  else
    let r := x + d + ci
    (BitVec.ofNat 16 r, decide (r > 0xFFFF), decide (((x ^^^ d) &&& 0x8000 = 0) ∧ ((x ^^^ r) &&& 0x8000 ≠ 0)))

/-- 16-bit SBC -/
def sbc16 (x d : U16) (c dec : Bool) : U16 × Bool × Bool :=
  let x := x.toNat; let d := (~~~ d).toNat; let ci := if c then 1 else 0
  if dec then
    let n0 := decSubDigit (x % 16 + d % 16 + ci)
    let n1 := decSubDigit (x / 16 % 16 + d / 16 % 16 + n0.2)
    let n2 := decSubDigit (x / 256 % 16 + d / 256 % 16 + n1.2)
    let s3 := x / 4096 + d / 4096 + n2.2
    let pre := s3 % 16 * 4096 + n2.1 * 256 + n1.1 * 16 + n0.1
    let v := decide (((x ^^^ d) &&& 0x8000 = 0) ∧ ((x ^^^ pre) &&& 0x8000 ≠ 0))
    let n3 := decSubDigit s3
    (BitVec.ofNat 16 (n3.1 * 4096 + n2.1 * 256 + n1.1 * 16 + n0.1), decide (s3 > 15), v)
  else
    let r := x + d + ci
    (BitVec.ofNat 16 r, decide (r > 0xFFFF), decide (((x ^^^ d) &&& 0x8000 = 0) ∧ ((x ^^^ r) &&& 0x8000 ≠ 0)))

/-- 8-bit decimal ADC / SBC (same digit rule as the 16-bit one; V is taken before the top digit's correction) -/
def adc8d (x d : U8) (c : Bool) : U8 × Bool × Bool :=
  let x := x.toNat; let d := d.toNat; let ci := if c then 1 else 0
  let n0 := decAddDigit (x % 16 + d % 16 + ci)
  let s1 := x / 16 + d / 16 + n0.2
  let pre := s1 % 16 * 16 + n0.1
  let v := decide (((x ^^^ d) &&& 0x80 = 0) ∧ ((x ^^^ pre) &&& 0x80 ≠ 0))
  let n1 := decAddDigit s1
  (BitVec.ofNat 8 (n1.1 * 16 + n0.1), decide (s1 > 9), v)

def sbc8d (x d : U8) (c : Bool) : U8 × Bool × Bool :=
  let x := x.toNat; let d := (~~~ d).toNat; let ci := if c then 1 else 0
  let n0 := decSubDigit (x % 16 + d % 16 + ci)
  let s1 := x / 16 + d / 16 + n0.2
  let pre := s1 % 16 * 16 + n0.1
  let v := decide (((x ^^^ d) &&& 0x80 = 0) ∧ ((x ^^^ pre) &&& 0x80 ≠ 0))
  let n1 := decSubDigit s1
  (BitVec.ofNat 8 (n1.1 * 16 + n0.1), decide (s1 > 15), v)

def addA (a : Arch) (sub : Bool) (l : Loc) : Arch :=
  if a.fM then
    let d := read8 a l
    let r := if a.fD then (if sub then sbc8d (lo a.A) d a.fC else adc8d (lo a.A) d a.fC)
             else (if sub then sbc8 (lo a.A) d a.fC else adc8 (lo a.A) d a.fC)
    nz8 { setAlo a r.1 with fC := r.2.1, fV := r.2.2 } r.1
  else
    let d := read16 a l
    let r := if sub then sbc16 a.A d a.fC a.fD else adc16 a.A d a.fC a.fD
    nz16 { a with A := r.1, fC := r.2.1, fV := r.2.2 } r.1

/-! ### instruction groups -/

/-- AND / ORA / EOR / LDA on the accumulator -/
def accOp (a : Arch) (l : Loc) (f8 : U8 → U8 → U8) (f16 : U16 → U16 → U16) : Arch :=
  if a.fM then let r := f8 (lo a.A) (read8 a l); nz8 (setAlo a r) r
  else let r := f16 a.A (read16 a l); nz16 { a with A := r } r

def cmpGen (a : Arch) (l : Loc) (w8 : Bool) (reg : U16) : Arch :=
  if w8 then
    let m := read8 a l
    nz8 { a with fC := decide (m.toNat ≤ (lo reg).toNat) } (lo reg - m)
  else
    let m := read16 a l
    nz16 { a with fC := decide (m.toNat ≤ reg.toNat) } (reg - m)

/-- read-modify-write on memory or the accumulator; `f` returns (result, new carry or none) -/
def rmwOp (a : Arch) (mode : Mode) (f8 : U8 → Bool → U8 × Option Bool) (f16 : U16 → Bool → U16 × Option Bool) : Arch :=
  let l := resolve a mode
  if a.fM then
    let v := if mode = .acc then lo a.A else read8 a l
    let r := f8 v a.fC
    let a := match r.2 with | some c => { a with fC := c } | none => a
    let a := if mode = .acc then setAlo a r.1 else write8 a l r.1
    nz8 a r.1
  else
    let v := if mode = .acc then a.A else read16 a l
    let r := f16 v a.fC
    let a := match r.2 with | some c => { a with fC := c } | none => a
    let a := if mode = .acc then { a with A := r.1 } else write16 a l r.1
    nz16 a r.1

def setIdx (a : Arch) (isX : Bool) (v : U16) : Arch :=
  -- store into X or Y in the current index width, flags from that width
  if a.fX then
    let b := lo v
    nz8 (if isX then { a with X := zx b } else { a with Y := zx b }) b
  else
    nz16 (if isX then { a with X := v } else { a with Y := v }) v

def branch (a : Arch) (taken : Bool) : Arch :=
  let d := op1 a
  let t := if d.toNat < 0x80 then a.PC + 2 + zx d else a.PC + 2 + zx d - 0x100
  { a with PC := if taken then t else a.PC + 2 }

def storeReg (a : Arch) (l : Loc) (w8 : Bool) (v : U16) : Arch :=
  if w8 then write8 a l (lo v) else write16 a l v

def interrupt (a : Arch) (vec : U16) : Arch :=
  let a := push8 a a.PBR
  let a := push16 a (a.PC + 2)
  let a := push8 a (getP a)
  { a with fI := true, fD := false, PBR := 0, PC := word (rd a (addr24 0 (vec + 1))) (rd a (addr24 0 vec)) }

/-- execute one decoded instruction; PC handling is part of each case (`next` = fall through to the next instruction) -/
def exec (a : Arch) (mn : Mnem) (mode : Mode) : Arch :=
  let l := resolve a mode
  let next (a' : Arch) : Arch := { a' with PC := a.PC + BitVec.ofNat 16 (instrLen mode a.fM a.fX) }
  match mn with
  | .lda => next (accOp a l (fun _ m => m) (fun _ m => m))
  | .and => next (accOp a l (· &&& ·) (· &&& ·))
  | .ora => next (accOp a l (· ||| ·) (· ||| ·))
  | .eor => next (accOp a l (· ^^^ ·) (· ^^^ ·))
  | .adc => next (addA a false l)
  | .sbc => next (addA a true l)
  | .cmp => next (cmpGen a l a.fM a.A)
  | .cpx => next (cmpGen a l a.fX a.X)
  | .cpy => next (cmpGen a l a.fX a.Y)
  | .bit =>
    next (if a.fM then
        let m := read8 a l
        let a' := { a with fZ := (lo a.A &&& m) == 0 }
        if mode = .immM then a' else { a' with fN := m.getLsbD 7, fV := m.getLsbD 6 }
      else
        let m := read16 a l
        let a' := { a with fZ := (a.A &&& m) == 0 }
        if mode = .immM then a' else { a' with fN := m.getLsbD 15, fV := m.getLsbD 14 })
  | .ldx => next (setIdx a true (if a.fX then zx (read8 a l) else read16 a l))
  | .ldy => next (setIdx a false (if a.fX then zx (read8 a l) else read16 a l))
  | .sta => next (storeReg a l a.fM a.A)
  | .stx => next (storeReg a l a.fX a.X)
  | .sty => next (storeReg a l a.fX a.Y)
  | .stz => next (storeReg a l a.fM 0)
  | .asl => next (rmwOp a mode (fun v _ => (v <<< 1, some (v.getLsbD 7))) (fun v _ => (v <<< 1, some (v.getLsbD 15))))
  | .lsr => next (rmwOp a mode (fun v _ => (v >>> 1, some (v.getLsbD 0))) (fun v _ => (v >>> 1, some (v.getLsbD 0))))
  | .rol => next (rmwOp a mode (fun v c => ((v <<< 1) ||| b2u c, some (v.getLsbD 7)))
                              (fun v c => ((v <<< 1) ||| zx (b2u c), some (v.getLsbD 15))))
  | .ror => next (rmwOp a mode (fun v c => ((v >>> 1) ||| (b2u c <<< 7), some (v.getLsbD 0)))
                              (fun v c => ((v >>> 1) ||| (zx (b2u c) <<< 15), some (v.getLsbD 0))))
  | .inc => next (rmwOp a mode (fun v _ => (v + 1, none)) (fun v _ => (v + 1, none)))
  | .dec => next (rmwOp a mode (fun v _ => (v - 1, none)) (fun v _ => (v - 1, none)))
  | .trb =>
    next (if a.fM then
        let m := read8 a l
        write8 { a with fZ := (m &&& lo a.A) == 0 } l (m &&& ~~~ lo a.A)
      else
        let m := read16 a l
        write16 { a with fZ := (m &&& a.A) == 0 } l (m &&& ~~~ a.A))
  | .tsb =>
    next (if a.fM then
        let m := read8 a l
        write8 { a with fZ := (m &&& lo a.A) == 0 } l (m ||| lo a.A)
      else
        let m := read16 a l
        write16 { a with fZ := (m &&& a.A) == 0 } l (m ||| a.A))
  | .inx => next (setIdx a true (a.X + 1))
  | .iny => next (setIdx a false (a.Y + 1))
  | .dex => next (setIdx a true (a.X - 1))
  | .dey => next (setIdx a false (a.Y - 1))
  | .tax => next (setIdx a true a.A)
  | .tay => next (setIdx a false a.A)
  | .tsx => next (setIdx a true a.S)
  | .txy => next (setIdx a false a.X)
  | .tyx => next (setIdx a true a.Y)
  | .txa => next (if a.fM then nz8 (setAlo a (lo a.X)) (lo a.X) else nz16 { a with A := xv a } (xv a))
  | .tya => next (if a.fM then nz8 (setAlo a (lo a.Y)) (lo a.Y) else nz16 { a with A := yv a } (yv a))
  | .txs => next { a with S := xv a }
  | .tcs => next { a with S := a.A }
  | .tcd => next (nz16 { a with D := a.A } a.A)
  | .tdc => next (nz16 { a with A := a.D } a.D)
  | .tsc => next (nz16 { a with A := a.S } a.S)
  | .xba => let r := word (lo a.A) (hi a.A); next (nz8 { a with A := r } (lo r))
  | .clc => next { a with fC := false }
  | .sec => next { a with fC := true }
  | .cld => next { a with fD := false }
  | .sed => next { a with fD := true }
  | .cli => next { a with fI := false }
  | .sei => next { a with fI := true }
  | .clv => next { a with fV := false }
  | .rep => next (setP a (getP a &&& ~~~ read8 a l))
  | .sep => next (setP a (getP a ||| read8 a l))
  | .xce =>
    if a.fC then
      -- to emulation mode: E←1, C←old E (0), M←X←1, index high bytes 0, S high byte $01
      next (normX { a with E := true, fC := a.E, fM := true, fX := true, S := 0x0100 ||| (a.S &&& 0x00FF) })
    else next { a with E := false, fC := a.E }
  | .nop | .wai | .wdm => next a
  | .stp => next { a with stopped := true }
  | .bcc => branch a (!a.fC)
  | .bcs => branch a a.fC
  | .beq => branch a a.fZ
  | .bne => branch a (!a.fZ)
  | .bmi => branch a a.fN
  | .bpl => branch a (!a.fN)
  | .bvc => branch a (!a.fV)
  | .bvs => branch a a.fV
  | .bra => branch a true
  | .brl => { a with PC := a.PC + 3 + op16 a }
  | .jmp =>
    match mode with
    | .abs => { a with PC := op16 a }
    | .long => { a with PC := op16 a, PBR := op3 a }
    | .absInd => { a with PC := ptr16 a (op16 a) }
    | .absIndLong => let p := ptr24 a (op16 a); { a with PC := BitVec.ofNat 16 p, PBR := BitVec.ofNat 8 (p / 65536) }
    | .absIndX =>
      let t := op16 a + xv a
      { a with PC := word (rd a (addr24 a.PBR (t + 1))) (rd a (addr24 a.PBR t)) }
    | _ => next a
  | .jsr =>
    match mode with
    | .abs => { push16 a (a.PC + 2) with PC := op16 a }
    | .absIndX =>
      let t := op16 a + xv a
      let tgt := word (rd a (addr24 a.PBR (t + 1))) (rd a (addr24 a.PBR t))   -- pointer resolved before the push
      { push16 a (a.PC + 2) with PC := tgt }
    | _ => next a
  | .jsl => { push16 (push8 a a.PBR) (a.PC + 3) with PC := op16 a, PBR := op3 a }
  | .rts => let (t, a') := pull16 a; { a' with PC := t + 1 }
  | .rtl =>
    let (t, a') := pull16 a
    let (b, a'') := pull8 a'
    { a'' with PC := t + 1, PBR := b }
  | .rti =>
    let (p, a1) := pull8 a
    let a2 := setP a1 p
    let (t, a3) := pull16 a2
    let (b, a4) := pull8 a3
    { a4 with PC := t, PBR := b }
  | .brk => interrupt a 0xFFE6
  | .cop => interrupt a 0xFFE4
  | .pha => next (if a.fM then push8 a (lo a.A) else push16 a a.A)
  | .phx => next (if a.fX then push8 a (lo a.X) else push16 a a.X)
  | .phy => next (if a.fX then push8 a (lo a.Y) else push16 a a.Y)
  | .php => next (push8 a (getP a))
  | .phb => next (push8 a a.DBR)
  | .phk => next (push8 a a.PBR)
  | .phd => next (push16 a a.D)
  | .pea => next (push16 a (op16 a))
  | .pei => next (push16 a (ptr16 a (a.D + zx (op1 a))))
  | .per => next (push16 a (a.PC + 3 + op16 a))
  | .pla =>
    next (if a.fM then let (v, a') := pull8 a; nz8 (setAlo a' v) v
          else let (v, a') := pull16 a; nz16 { a' with A := v } v)
  | .plx => next (if a.fX then let (v, a') := pull8 a; setIdx a' true (zx v) else let (v, a') := pull16 a; setIdx a' true v)
  | .ply => next (if a.fX then let (v, a') := pull8 a; setIdx a' false (zx v) else let (v, a') := pull16 a; setIdx a' false v)
  | .plb => next (let (v, a') := pull8 a; nz8 { a' with DBR := v } v)
  | .pld => next (let (v, a') := pull16 a; nz16 { a' with D := v } v)
  | .plp => next (let (v, a') := pull8 a; setP a' v)
  | .mvn | .mvp =>
    -- one byte per step: operand bytes are destination bank, then source bank
    let dst := op1 a
    let src := op2 a
    let v := rd a (addr24 src (xv a))
    let a := wr a (addr24 dst (yv a)) v
    let stepI (r : U16) : U16 :=
      if a.fX then zx (if mn = .mvn then lo r + 1 else lo r - 1) else (if mn = .mvn then r + 1 else r - 1)
    let c := a.A - 1
    { a with DBR := dst, X := stepI a.X, Y := stepI a.Y, A := c, PC := if c = 0xFFFF then a.PC + 3 else a.PC }

/-- one instruction of the WDC model -/
def step (a : Arch) : Arch :=
  let d := decode (rd a (addr24 a.PBR a.PC)).toNat
  exec a d.1 d.2

def run : Nat → Arch → Arch
  | 0, a => a
  | n + 1, a => run n (step a)

end WDC
