/-
Totality of the interpreter model: no bus access ever leaves the 24-bit address space
(`none` = the Go index-out-of-range panic).  Compositional predicate `Tot` + one lemma per primitive.
-/
import SnesVerif.Cpu.Impl
namespace Cpu
set_option maxRecDepth 100000

def EAok (s : St) : Prop := s.r.EA < 16777216

/-- every address in the write log is a 24-bit address -/
def WOK (s : St) : Prop := ∀ a ∈ s.m.wlog, a < 16777216

/-- the computation succeeds from every state (for `p = true`: every state whose `StepInfo.EA` is a 24-bit
address, and it keeps it so) -/
def Tot2 {α : Type} (p q : Bool) (x : Ex α) : Prop :=
  ∀ s, (p = true → EAok s) → ∃ a s', x s = some (a, s') ∧ (q = true → EAok s') ∧ (WOK s → WOK s')

def Tot {α : Type} (p : Bool) (x : Ex α) : Prop := Tot2 p p x

variable {p : Bool}

theorem bind_eq {α β : Type} (x : Ex α) (f : α → Ex β) (s : St) :
    (x >>= f) s = match x s with | none => none | some (a, s') => f a s' := rfl

theorem tot_pure {α : Type} (a : α) : Tot p (pure a : Ex α) := fun s h => ⟨a, s, rfl, h, id⟩

theorem tot_bind {α β : Type} (x : Ex α) (f : α → Ex β) (hx : Tot p x) (hf : ∀ a, Tot p (f a)) : Tot p (x >>= f) := by
  intro s h
  obtain ⟨a, s', e, h', w'⟩ := hx s h
  obtain ⟨b, s'', e', h'', w''⟩ := hf a s' h'
  refine ⟨b, s'', ?_, h'', fun w => w'' (w' w)⟩
  rw [bind_eq, e]; exact e'

theorem tot_get : Tot p get := fun s h => ⟨s.r, s, rfl, h, id⟩

theorem tot_modify (f : Regs → Regs) (hf : ∀ c, (f c).EA = c.EA) : Tot p (modify f) := by
  intro s h
  refine ⟨(), { s with r := f s.r }, rfl, ?_, id⟩
  intro hp; have := h hp; unfold EAok at *; simp only; rw [hf]; exact this

theorem lin_lt (b : U8) (a : U16) : lin b a < 16777216 := by
  unfold lin
  have := b.isLt; have := a.isLt
  omega

theorem tot_eaRead (a : Nat) (ha : a < 16777216) : Tot p (eaRead a) := by
  intro s h; exact ⟨s.m.f a, s, by simp [eaRead, ha], h, id⟩

theorem tot_eaWrite (a : Nat) (v : U8) (ha : a < 16777216) : Tot p (eaWrite a v) := by
  intro s h
  refine ⟨(), { s with m := ⟨fun x => if x = a then v else s.m.f x, a :: s.m.wlog⟩ }, ?_, h, ?_⟩
  · simp only [eaWrite, ha, if_true]
  · intro w b hb
    rcases List.mem_cons.mp hb with rfl | hb
    · exact ha
    · exact w b hb

attribute [local irreducible] eaRead eaWrite lin

theorem tot_rdEA : Tot true rdEA := by
  intro s h
  have h' : s.r.EA < 16777216 := h rfl
  exact tot_eaRead _ h' s h

theorem tot_wrEA (v : U8) : Tot true (wrEA v) := by
  intro s h
  have h' : s.r.EA < 16777216 := h rfl
  exact tot_eaWrite _ v h' s h

theorem tot_ite {α : Type} (c : Prop) [Decidable c] (x y : Ex α) (hx : Tot p x) (hy : Tot p y) :
    Tot p (if c then x else y) := by
  split <;> assumption

theorem tot_nRead (b : U8) (a : U16) : Tot p (nRead b a) := tot_eaRead _ (lin_lt b a)
theorem tot_nWrite (b : U8) (a : U16) (v : U8) : Tot p (nWrite b a v) := tot_eaWrite _ _ (lin_lt b a)

theorem mod_lt (x : Nat) : x % 16777216 < 16777216 := Nat.mod_lt _ (by decide)
theorem u16_lt (a : U16) : a.toNat < 16777216 := by have := a.isLt; omega

theorem tot_nRead16_wrap (b : U8) (a : U16) : Tot p (nRead16_wrap b a) :=
  tot_bind _ _ (tot_eaRead _ (lin_lt _ _)) fun _ => tot_bind _ _ (tot_eaRead _ (lin_lt _ _)) fun _ => tot_pure _
theorem tot_nRead16_cross (b : U8) (a : U16) : Tot p (nRead16_cross b a) :=
  tot_bind _ _ (tot_eaRead _ (lin_lt _ _)) fun _ => tot_bind _ _ (tot_eaRead _ (mod_lt _)) fun _ => tot_pure _
theorem tot_nRead24_wrap (b : U8) (a : U16) : Tot p (nRead24_wrap b a) :=
  tot_bind _ _ (tot_eaRead _ (lin_lt _ _)) fun _ => tot_bind _ _ (tot_eaRead _ (lin_lt _ _)) fun _ =>
    tot_bind _ _ (tot_eaRead _ (lin_lt _ _)) fun _ => tot_pure _
theorem tot_nWrite16_wrap (b : U8) (a : U16) (v : U16) : Tot p (nWrite16_wrap b a v) :=
  tot_bind _ _ (tot_eaWrite _ _ (lin_lt _ _)) fun _ => tot_eaWrite _ _ (lin_lt _ _)
theorem tot_nWrite16_cross (b : U8) (a : U16) (v : U16) : Tot p (nWrite16_cross b a v) :=
  tot_bind _ _ (tot_eaWrite _ _ (lin_lt _ _)) fun _ => tot_eaWrite _ _ (mod_lt _)

theorem tot_eaRead16 (a : Nat) (ha : a < 16777216) : Tot p (eaRead16 a) :=
  tot_bind _ _ (tot_eaRead _ ha) fun _ => tot_bind _ _ (tot_eaRead _ (mod_lt _)) fun _ => tot_pure _
theorem tot_eaWrite16 (a : Nat) (v : U16) (ha : a < 16777216) : Tot p (eaWrite16 a v) :=
  tot_bind _ _ (tot_eaWrite _ _ ha) fun _ => tot_eaWrite _ _ (mod_lt _)

theorem tot_rdEA16 : Tot true rdEA16 := by
  intro s h
  have h' : s.r.EA < 16777216 := h rfl
  exact tot_eaRead16 _ h' s h

theorem tot_wrEA16 (v : U16) : Tot true (wrEA16 v) := by
  intro s h
  have h' : s.r.EA < 16777216 := h rfl
  exact tot_eaWrite16 _ v h' s h

/-! ### automation -/

/-- closes one primitive goal; extended by later `macro_rules` (tried newest first) -/
syntax "tot_prim" : tactic
macro_rules | `(tactic| tot_prim) => `(tactic| with_reducible
  first
  | exact tot_pure _
  | exact tot_get
  | exact tot_rdEA | exact tot_rdEA16 | exact tot_wrEA _ | exact tot_wrEA16 _
  | exact tot_nRead _ _ | exact tot_nWrite _ _ _
  | exact tot_nRead16_wrap _ _ | exact tot_nRead16_cross _ _ | exact tot_nRead24_wrap _ _
  | exact tot_nWrite16_wrap _ _ _ | exact tot_nWrite16_cross _ _ _
  | exact tot_eaRead _ (u16_lt _) | exact tot_eaWrite _ _ (u16_lt _)
  | exact tot_eaRead _ (lin_lt _ _) | exact tot_eaRead _ (mod_lt _))

macro "tot_step" : tactic => `(tactic|
  first
  | tot_prim
  | (with_reducible refine tot_bind _ _ ?_ (fun _ => ?_))
  | (with_reducible apply tot_ite)
  | ((with_reducible apply tot_modify); intro c;
      (first | rfl
             | ((repeat' split) <;> rfl)
             | ((try dsimp only [setZN8, setZN16, setZ8, setZ16, compare8, compare16, toIndex, toAcc, addBranchCycles, setFlags]);
                (repeat' split) <;> rfl)))
  | split)

macro "tot_tac" : tactic => `(tactic| repeat tot_step)

theorem tot_cmdRead : Tot true cmdRead := by
  unfold cmdRead
  apply tot_bind _ _ tot_get
  intro c
  cases c.Mode <;> simp only <;> tot_tac

theorem tot_cmdRead16 : Tot true cmdRead16 := by
  unfold cmdRead16
  apply tot_bind _ _ tot_get
  intro c
  cases c.Mode <;> simp only <;> tot_tac

theorem tot_cmdWrite (v : U8) : Tot true (cmdWrite v) := by
  unfold cmdWrite
  apply tot_bind _ _ tot_get
  intro c
  cases c.Mode <;> simp only <;> tot_tac

theorem tot_cmdWrite16 (v : U16) : Tot true (cmdWrite16 v) := by
  unfold cmdWrite16
  apply tot_bind _ _ tot_get
  intro c
  cases c.Mode <;> simp only <;> tot_tac

macro_rules | `(tactic| tot_prim) => `(tactic| with_reducible
  first | exact tot_cmdRead | exact tot_cmdRead16 | exact tot_cmdWrite _ | exact tot_cmdWrite16 _)

theorem tot_push (v : U8) : Tot p (push v) := by unfold push; tot_tac
theorem tot_pull : Tot p pull := by unfold pull; tot_tac
theorem tot_push16 (v : U16) : Tot p (push16 v) :=
  tot_bind _ _ (tot_push _) fun _ => tot_push _
theorem tot_pull16 : Tot p pull16 :=
  tot_bind _ _ tot_pull fun _ => tot_bind _ _ tot_pull fun _ => tot_pure _


macro_rules | `(tactic| tot_prim) => `(tactic| with_reducible
  first | exact tot_push _ | exact tot_pull | exact tot_push16 _ | exact tot_pull16)

theorem tot_op_adcLike (n : Bool) : Tot true (op_adcLike n) := by
  unfold op_adcLike; tot_tac

theorem tot_rmw f8 f16 sc : Tot true (rmw f8 f16 sc) := by
  unfold rmw; tot_tac

theorem tot_logic f8 f16 : Tot true (logic f8 f16) := by
  unfold logic; tot_tac

theorem tot_blockMove (i : Bool) : Tot p (blockMove i) := by
  unfold blockMove; tot_tac

theorem tot_interruptBody a b c d : Tot p (interruptBody a b c d) := by
  unfold interruptBody; tot_tac
theorem tot_interruptLike a b c : Tot p (interruptLike a b c) := by
  unfold interruptLike
  refine tot_bind _ _ tot_get (fun _ => tot_bind _ _ (tot_interruptBody _ _ _ _) (fun _ => ?_))
  tot_tac
theorem tot_rtiBody e : Tot p (rtiBody e) := by
  unfold rtiBody; tot_tac

theorem tot_branchIf f : Tot p (branchIf f) := by
  unfold branchIf; tot_tac


macro_rules | `(tactic| tot_prim) => `(tactic| with_reducible
  first | exact tot_op_adcLike _ | exact tot_rmw _ _ _ | exact tot_logic _ _ | exact tot_blockMove _
        | exact tot_interruptLike _ _ _ | exact tot_branchIf _ | exact tot_rtiBody _)

theorem tot_runP (q : Proc) : Tot true (runP q) := by
  cases q <;> unfold runP <;> simp only <;> tot_tac

theorem tot_runProc (name : String) : Tot true (runProc name) := tot_runP _

theorem tot_addressing (m : AMode) : Tot p (addressing m) := by
  unfold addressing
  refine tot_bind _ _ tot_get (fun c => ?_)
  cases m <;> simp only <;> tot_tac

theorem tot2_bind {α β : Type} {p q r : Bool} (x : Ex α) (f : α → Ex β) (hx : Tot2 p q x) (hf : ∀ a, Tot2 q r (f a)) :
    Tot2 p r (x >>= f) := by
  intro s h
  obtain ⟨a, s', e, h', w'⟩ := hx s h
  obtain ⟨b, s'', e', h'', w''⟩ := hf a s' h'
  refine ⟨b, s'', ?_, h'', fun w => w'' (w' w)⟩
  rw [bind_eq, e]; exact e'

/-- a `modify` that installs a 24-bit `EA` establishes the invariant for the rest of the step -/
theorem tot_setEA (f : Regs → Regs) (hf : ∀ c, (f c).EA < 16777216) : Tot2 false true (modify f) := by
  intro s _
  exact ⟨(), { s with r := f s.r }, rfl, fun _ => hf s.r, id⟩

/-- the decode stage succeeds from any state and installs a 24-bit `EA` -/
theorem tot_decodeStage (sem : U8 → RowSem) (adj : U8 → CycAdj) : Tot2 false true (decodeStage sem adj) := by
  unfold decodeStage
  refine tot2_bind (q := false) _ _ ?_ (fun _ => ?_)
  · exact tot_modify _ (fun _ => rfl)
  refine tot2_bind (q := false) _ _ tot_get (fun c => ?_)
  refine tot2_bind (q := false) _ _ (tot_nRead _ _) (fun opb => ?_)
  simp only
  refine tot2_bind (q := false) _ _ ?_ (fun _ => ?_)
  · exact tot_modify _ (fun _ => rfl)
  refine tot2_bind (q := false) _ _ (tot_addressing _) (fun r => ?_)
  refine tot2_bind (q := true) _ _ ?_ (fun _ => tot_pure _)
  apply tot_setEA
  intro c; unfold adjustRegs; exact mod_lt _

theorem tot_stepWith (sem : U8 → RowSem) (adj : U8 → CycAdj) : Tot2 false true (stepWith sem adj) := by
  unfold stepWith
  refine tot2_bind _ _ (tot_decodeStage sem adj) (fun row => ?_)
  refine tot_bind _ _ (tot_runP _) (fun _ => ?_)
  exact tot_modify _ (fun _ => rfl)

theorem tot_step (v : Variant) : Tot2 false true (step v) := tot_stepWith _ _

end Cpu
