/-
Straight-line instructions of the WDC model: every mnemonic that neither transfers control, nor restores P from the
stack, nor switches the emulation bit advances PC by its architectural length inside the program bank and leaves the
register widths alone — except REP / SEP, which change M and X exactly by their operand byte.
(Used by C07: the CPU walks an emitted program along the assembler's instruction starts.)
-/
import SnesVerif.Cpu.Spec
namespace WDC
open Spec
set_option maxRecDepth 100000

/-- mnemonics whose execution falls through to the next instruction and does not reload P or E -/
def straight : Mnem → Bool
  | .bcc | .bcs | .beq | .bne | .bmi | .bpl | .bvc | .bvs | .bra | .brl
  | .jmp | .jsr | .jsl | .rts | .rtl | .rti | .brk | .cop | .plp | .xce | .mvn | .mvp => false
  | _ => true

/-- the control part of the architectural state that the fetch of the next instruction depends on -/
structure Ctl where
  pbr : U8
  e : Bool
  m : Bool
  x : Bool
  deriving DecidableEq

def ctl (a : Arch) : Ctl := ⟨a.PBR, a.E, a.fM, a.fX⟩

@[simp] theorem ctl_wr (a : Arch) (ad : Nat) (v : U8) : ctl (wr a ad v) = ctl a := rfl
@[simp] theorem ctl_nz8 (a : Arch) (v : U8) : ctl (nz8 a v) = ctl a := rfl
@[simp] theorem ctl_nz16 (a : Arch) (v : U16) : ctl (nz16 a v) = ctl a := rfl
@[simp] theorem ctl_setAlo (a : Arch) (v : U8) : ctl (setAlo a v) = ctl a := rfl
@[simp] theorem ctl_write8 (a : Arch) (l : Loc) (v : U8) : ctl (write8 a l v) = ctl a := rfl
@[simp] theorem ctl_write16 (a : Arch) (l : Loc) (v : U16) : ctl (write16 a l v) = ctl a := rfl
@[simp] theorem ctl_push8 (a : Arch) (v : U8) : ctl (push8 a v) = ctl a := rfl
@[simp] theorem ctl_push16 (a : Arch) (v : U16) : ctl (push16 a v) = ctl a := rfl
@[simp] theorem ctl_pull8 (a : Arch) : ctl (pull8 a).2 = ctl a := rfl
@[simp] theorem ctl_pull16 (a : Arch) : ctl (pull16 a).2 = ctl a := rfl

@[simp] theorem ctl_accOp (a : Arch) (l : Loc) f8 f16 : ctl (accOp a l f8 f16) = ctl a := by
  unfold accOp; split <;> rfl
@[simp] theorem ctl_addA (a : Arch) (s : Bool) (l : Loc) : ctl (addA a s l) = ctl a := by
  unfold addA; split <;> rfl
@[simp] theorem ctl_cmpGen (a : Arch) (l : Loc) (w : Bool) (r : U16) : ctl (cmpGen a l w r) = ctl a := by
  unfold cmpGen; split <;> rfl
@[simp] theorem ctl_setIdx (a : Arch) (b : Bool) (v : U16) : ctl (setIdx a b v) = ctl a := by
  unfold setIdx; split <;> split <;> rfl
@[simp] theorem ctl_storeReg (a : Arch) (l : Loc) (w : Bool) (v : U16) : ctl (storeReg a l w v) = ctl a := by
  unfold storeReg; split <;> rfl
@[simp] theorem ctl_rmwOp (a : Arch) (md : Mode) f8 f16 : ctl (rmwOp a md f8 f16) = ctl a := by
  unfold rmwOp
  simp only
  split <;> (split <;> split <;> rfl)


@[simp] theorem ctl_setPC (a : Arch) (pc : U16) : ctl { a with PC := pc } = ctl a := rfl

/-- **fall-through**: a straight-line instruction other than REP / SEP continues at PC + its length in the same bank,
with the same register widths and mode -/
theorem exec_straight (a : Arch) (mn : Mnem) (md : Mode) (h : straight mn = true) (hr : mn ≠ .rep) (hs : mn ≠ .sep) :
    (exec a mn md).PC = a.PC + BitVec.ofNat 16 (instrLen md a.fM a.fX) ∧ ctl (exec a mn md) = ctl a := by
  cases mn <;> first
    | (exact absurd h (by decide))
    | (exact absurd rfl hr)
    | (exact absurd rfl hs)
    | (constructor <;> simp only [exec] <;> (repeat' split) <;> first | rfl | simp)

/-- the width bits of P after REP / SEP in native mode -/
theorem exec_rep (a : Arch) (md : Mode) :
    (exec a .rep md).PC = a.PC + BitVec.ofNat 16 (instrLen md a.fM a.fX) ∧
    (exec a .rep md).PBR = a.PBR ∧ (exec a .rep md).E = a.E ∧
    (exec a .rep md).fM = (getP a &&& ~~~ read8 a (resolve a md)).getLsbD 5 ∧
    (exec a .rep md).fX = (getP a &&& ~~~ read8 a (resolve a md)).getLsbD 4 := by
  simp only [exec, setP, normX]
  split <;> simp

theorem exec_sep (a : Arch) (md : Mode) :
    (exec a .sep md).PC = a.PC + BitVec.ofNat 16 (instrLen md a.fM a.fX) ∧
    (exec a .sep md).PBR = a.PBR ∧ (exec a .sep md).E = a.E ∧
    (exec a .sep md).fM = (getP a ||| read8 a (resolve a md)).getLsbD 5 ∧
    (exec a .sep md).fX = (getP a ||| read8 a (resolve a md)).getLsbD 4 := by
  simp only [exec, setP, normX]
  split <;> simp

/-- bits 5 and 4 of P are the M and X flags -/
theorem getP_bits (a : Arch) : (getP a).getLsbD 5 = a.fM ∧ (getP a).getLsbD 4 = a.fX := by
  unfold getP b2u
  cases a.fC <;> cases a.fZ <;> cases a.fI <;> cases a.fD <;> cases a.fX <;> cases a.fM <;> cases a.fV <;> cases a.fN <;> decide

end WDC
