/-
Tie, addressing switch of Step(), cpu65c816 (part 1 of 3): for each addressing mode the outlined switch
`Step_switch1` computes the model's (addr, ea, pageCrossed); ea is compared modulo 2^24, which is all `Step` uses of it.
Written by tools/mkgotie.py.
-/
import SnesVerif.Cpu.GoTie.FlagsPrimary
namespace Cpu.GoTie.Primary
open Cpu Cpu.GoPrim Cpu.GoTie
set_option maxRecDepth 100000
set_option linter.unusedSimpArgs false

theorem sw_Absolute :
    (Gen.CpuGo.Primary.Step_switch1 .Absolute false 0 0 0 0 >>= fun r => pure (r.1, r.2.1, r.2.2 % 16777216)) =
      (Cpu.addressing .Absolute >>= fun r => pure (r.2.2, r.1, r.2.1 % 16777216)) := by
  funext s
  simp only [Gen.CpuGo.Primary.Step_switch1, Cpu.addressing, gotie_p]
  gorun [srcX, srcY, lin_go, zx_toNat, and_mask24, mod32_24, lin_mod32]

theorem sw_Absolute_X :
    (Gen.CpuGo.Primary.Step_switch1 .Absolute_X false 0 0 0 0 >>= fun r => pure (r.1, r.2.1, r.2.2 % 16777216)) =
      (Cpu.addressing .Absolute_X >>= fun r => pure (r.2.2, r.1, r.2.1 % 16777216)) := by
  funext s
  simp only [Gen.CpuGo.Primary.Step_switch1, Cpu.addressing, gotie_p]
  gorun [srcX, srcY, lin_go, zx_toNat, and_mask24, mod32_24, lin_mod32]

theorem sw_Absolute_Y :
    (Gen.CpuGo.Primary.Step_switch1 .Absolute_Y false 0 0 0 0 >>= fun r => pure (r.1, r.2.1, r.2.2 % 16777216)) =
      (Cpu.addressing .Absolute_Y >>= fun r => pure (r.2.2, r.1, r.2.1 % 16777216)) := by
  funext s
  simp only [Gen.CpuGo.Primary.Step_switch1, Cpu.addressing, gotie_p]
  gorun [srcX, srcY, lin_go, zx_toNat, and_mask24, mod32_24, lin_mod32]

theorem sw_Accumulator :
    (Gen.CpuGo.Primary.Step_switch1 .Accumulator false 0 0 0 0 >>= fun r => pure (r.1, r.2.1, r.2.2 % 16777216)) =
      (Cpu.addressing .Accumulator >>= fun r => pure (r.2.2, r.1, r.2.1 % 16777216)) := by
  funext s
  simp only [Gen.CpuGo.Primary.Step_switch1, Cpu.addressing, gotie_p]
  gorun [srcX, srcY, lin_go, zx_toNat, and_mask24, mod32_24, lin_mod32]

theorem sw_Immediate :
    (Gen.CpuGo.Primary.Step_switch1 .Immediate false 0 0 0 0 >>= fun r => pure (r.1, r.2.1, r.2.2 % 16777216)) =
      (Cpu.addressing .Immediate >>= fun r => pure (r.2.2, r.1, r.2.1 % 16777216)) := by
  funext s
  simp only [Gen.CpuGo.Primary.Step_switch1, Cpu.addressing, gotie_p]
  gorun [srcX, srcY, lin_go, zx_toNat, and_mask24, mod32_24, lin_mod32]

theorem sw_Immediate_flagM :
    (Gen.CpuGo.Primary.Step_switch1 .Immediate_flagM false 0 0 0 0 >>= fun r => pure (r.1, r.2.1, r.2.2 % 16777216)) =
      (Cpu.addressing .Immediate_flagM >>= fun r => pure (r.2.2, r.1, r.2.1 % 16777216)) := by
  funext s
  simp only [Gen.CpuGo.Primary.Step_switch1, Cpu.addressing, gotie_p]
  gorun [srcX, srcY, lin_go, zx_toNat, and_mask24, mod32_24, lin_mod32]

theorem sw_Immediate_flagX :
    (Gen.CpuGo.Primary.Step_switch1 .Immediate_flagX false 0 0 0 0 >>= fun r => pure (r.1, r.2.1, r.2.2 % 16777216)) =
      (Cpu.addressing .Immediate_flagX >>= fun r => pure (r.2.2, r.1, r.2.1 % 16777216)) := by
  funext s
  simp only [Gen.CpuGo.Primary.Step_switch1, Cpu.addressing, gotie_p]
  gorun [srcX, srcY, lin_go, zx_toNat, and_mask24, mod32_24, lin_mod32]

theorem sw_Implied :
    (Gen.CpuGo.Primary.Step_switch1 .Implied false 0 0 0 0 >>= fun r => pure (r.1, r.2.1, r.2.2 % 16777216)) =
      (Cpu.addressing .Implied >>= fun r => pure (r.2.2, r.1, r.2.1 % 16777216)) := by
  funext s
  simp only [Gen.CpuGo.Primary.Step_switch1, Cpu.addressing, gotie_p]
  gorun [srcX, srcY, lin_go, zx_toNat, and_mask24, mod32_24, lin_mod32]

theorem sw_DP :
    (Gen.CpuGo.Primary.Step_switch1 .DP false 0 0 0 0 >>= fun r => pure (r.1, r.2.1, r.2.2 % 16777216)) =
      (Cpu.addressing .DP >>= fun r => pure (r.2.2, r.1, r.2.1 % 16777216)) := by
  funext s
  simp only [Gen.CpuGo.Primary.Step_switch1, Cpu.addressing, gotie_p]
  gorun [srcX, srcY, lin_go, zx_toNat, and_mask24, mod32_24, lin_mod32]

end Cpu.GoTie.Primary
