/-
Tie, helper layer, cpu65c816: every regenerated bus / stack / flag helper of emulator/cpu65c816/cpu.go equals the model's.
-/
import SnesVerif.Cpu.GoTie.Sym
import SnesVerif.Gen.CpuGoPrimary
namespace Cpu.GoTie.Primary
open Cpu Cpu.GoPrim Cpu.GoTie
set_option maxRecDepth 100000
set_option linter.unusedSimpArgs false

@[gotie_p] theorem pagesDiffer_eq (a b : U16) : Gen.CpuGo.Primary.pagesDiffer a b = Cpu.pagesDiffer a b := rfl

/-! ### emulator/bus: `Bus.EaRead`, `Bus.EaWrite`, `Bus.EaRead24_wrap` as translated are the model's bus primitives -/

@[gotie_p] theorem Bus_EaRead_eq (a : Nat) : Gen.CpuGo.Primary.Bus_EaRead a = Cpu.eaRead a := by
  funext s
  gosym [Gen.CpuGo.Primary.Bus_EaRead]

@[gotie_p] theorem Bus_EaWrite_eq (a : Nat) (v : U8) : Gen.CpuGo.Primary.Bus_EaWrite a v = Cpu.eaWrite a v := by
  funext s
  gosym [Gen.CpuGo.Primary.Bus_EaWrite]

@[gotie_p] theorem Bus_EaRead24_wrap_eq (b : U8) (a : U16) : Gen.CpuGo.Primary.Bus_EaRead24_wrap b a = Cpu.nRead24_wrap b a := by
  funext s
  gosym [Gen.CpuGo.Primary.Bus_EaRead24_wrap, Cpu.nRead24_wrap, le24_go]

@[gotie_p] theorem nRead_eq (b : U8) (a : U16) : Gen.CpuGo.Primary.nRead b a = Cpu.nRead b a := by
  funext s
  simp only [Gen.CpuGo.Primary.nRead, Bus_EaRead_eq]
  gosym []

@[gotie_p] theorem nWrite_eq (b : U8) (a : U16) (v : U8) : Gen.CpuGo.Primary.nWrite b a v = Cpu.nWrite b a v := by
  funext s
  simp only [Gen.CpuGo.Primary.nWrite, Bus_EaWrite_eq]
  gosym []

@[gotie_p] theorem nRead16_wrap_eq (b : U8) (a : U16) : Gen.CpuGo.Primary.nRead16_wrap b a = Cpu.nRead16_wrap b a := by
  funext s
  simp only [Gen.CpuGo.Primary.nRead16_wrap, Bus_EaRead_eq]
  gosym [Cpu.nRead16_wrap]

@[gotie_p] theorem nRead16_cross_eq (b : U8) (a : U16) : Gen.CpuGo.Primary.nRead16_cross b a = Cpu.nRead16_cross b a := by
  funext s
  simp only [Gen.CpuGo.Primary.nRead16_cross, Bus_EaRead_eq]
  gosym [Cpu.nRead16_cross, and_mask24, lin_succ_mod]

@[gotie_p] theorem nRead24_wrap_eq (b : U8) (a : U16) : Gen.CpuGo.Primary.nRead24_wrap b a = Cpu.nRead24_wrap b a := by
  simp only [Gen.CpuGo.Primary.nRead24_wrap, Bus_EaRead24_wrap_eq, bind_pure']

@[gotie_p] theorem nWrite16_wrap_eq (b : U8) (a : U16) (v : U16) : Gen.CpuGo.Primary.nWrite16_wrap b a v = Cpu.nWrite16_wrap b a v := by
  funext s
  simp only [Gen.CpuGo.Primary.nWrite16_wrap, Bus_EaWrite_eq]
  gosym [Cpu.nWrite16_wrap, lo8_shr8]

@[gotie_p] theorem nWrite16_cross_eq (b : U8) (a : U16) (v : U16) : Gen.CpuGo.Primary.nWrite16_cross b a v = Cpu.nWrite16_cross b a v := by
  funext s
  simp only [Gen.CpuGo.Primary.nWrite16_cross, Bus_EaWrite_eq]
  gosym [Cpu.nWrite16_cross, lo8_shr8, and_mask24, lin_succ_mod]

theorem succ_mod24 (x : Nat) : ((x + 1) % 4294967296) % 16777216 = (x + 1) % 16777216 := by omega

@[gotie_p] theorem cmdRead_eq : Gen.CpuGo.Primary.cmdRead = Cpu.cmdRead := by
  funext s
  simp only [Gen.CpuGo.Primary.cmdRead, Cpu.cmdRead, nRead_eq, Bus_EaRead_eq, get_bind]
  cases s.r.Mode <;> gosym []

@[gotie_p] theorem cmdRead16_eq : Gen.CpuGo.Primary.cmdRead16 = Cpu.cmdRead16 := by
  funext s
  simp only [Gen.CpuGo.Primary.cmdRead16, Cpu.cmdRead16, nRead16_wrap_eq, nRead16_cross_eq, Bus_EaRead_eq, get_bind]
  cases s.r.Mode <;> gosym [Cpu.nRead16_wrap, Cpu.nRead16_cross, rdEA16, eaRead16, and_mask24, succ_mod24]

@[gotie_p] theorem cmdWrite_eq (v : U8) : Gen.CpuGo.Primary.cmdWrite v = Cpu.cmdWrite v := by
  funext s
  simp only [Gen.CpuGo.Primary.cmdWrite, Cpu.cmdWrite, nWrite_eq, Bus_EaWrite_eq, get_bind]
  cases s.r.Mode <;> gosym []

@[gotie_p] theorem cmdWrite16_eq (v : U16) : Gen.CpuGo.Primary.cmdWrite16 v = Cpu.cmdWrite16 v := by
  funext s
  simp only [Gen.CpuGo.Primary.cmdWrite16, Cpu.cmdWrite16, nWrite16_wrap_eq, nWrite16_cross_eq, Bus_EaWrite_eq, get_bind]
  cases s.r.Mode <;> gosym [Cpu.nWrite16_wrap, Cpu.nWrite16_cross, wrEA16, eaWrite16, and_mask24, succ_mod24, lo8_shr8]

/-! ### stack -/

@[gotie_p] theorem push_eq (v : U8) : Gen.CpuGo.Primary.push v = Cpu.push v := by
  funext s
  simp only [Gen.CpuGo.Primary.push, Cpu.push, nWrite_eq]
  gosym []

@[gotie_p] theorem pull_eq : Gen.CpuGo.Primary.pull = Cpu.pull := by
  funext s
  simp only [Gen.CpuGo.Primary.pull, Cpu.pull, nRead_eq]
  gosym []

@[gotie_p] theorem push16_eq (v : U16) : Gen.CpuGo.Primary.push16 v = Cpu.push16 v := by
  simp only [Gen.CpuGo.Primary.push16, Cpu.push16, push_eq, lo8_shr8, lo8_and_ff, bind_pure_unit]

@[gotie_p] theorem pull16_eq : Gen.CpuGo.Primary.pull16 = Cpu.pull16 := by
  funext s
  simp only [Gen.CpuGo.Primary.pull16, Cpu.pull16, pull_eq, mk16_go, bind_eq']

end Cpu.GoTie.Primary
