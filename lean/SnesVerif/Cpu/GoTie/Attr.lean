import Lean
/-- the helper-layer tie lemmas of cpu65c816 (rewrite a regenerated helper into the model's) -/
register_simp_attr gotie_p
/-- the helper-layer tie lemmas of cpualt -/
register_simp_attr gotie_a
