/-
Tie, routine layer, cpualt (part 4 of 4): every regenerated `op_*` equals the model's routine `Cpu.runP`.
Written by tools/mkgotie.py (one proof script for all routines).
-/
import SnesVerif.Cpu.GoTie.FlagsAlt
namespace Cpu.GoTie.Alt
open Cpu Cpu.GoPrim Cpu.GoTie
set_option maxRecDepth 100000
set_option linter.unusedSimpArgs false

theorem op_mvn_eq : Gen.CpuGo.Alt.op_mvn = Cpu.runP .mvn := by
  funext s
  simp only [Gen.CpuGo.Alt.op_mvn, Cpu.runP, Cpu.logic, Cpu.rmw, Cpu.branchIf, Cpu.blockMove, Cpu.interruptLike,
    Cpu.interruptBody, Cpu.rtiBody, gotie_a]
  gorun [shr16, Cpu.setZN8, Cpu.setZN16, Cpu.setZ8, Cpu.setZ16, Cpu.toIndex, Cpu.toAcc, Cpu.srcC, Cpu.srcX, Cpu.srcY, Cpu.compare8,
    Cpu.compare16, Cpu.addBranchCycles]

theorem op_mvp_eq : Gen.CpuGo.Alt.op_mvp = Cpu.runP .mvp := by
  funext s
  simp only [Gen.CpuGo.Alt.op_mvp, Cpu.runP, Cpu.logic, Cpu.rmw, Cpu.branchIf, Cpu.blockMove, Cpu.interruptLike,
    Cpu.interruptBody, Cpu.rtiBody, gotie_a]
  gorun [shr16, Cpu.setZN8, Cpu.setZN16, Cpu.setZ8, Cpu.setZ16, Cpu.toIndex, Cpu.toAcc, Cpu.srcC, Cpu.srcX, Cpu.srcY, Cpu.compare8,
    Cpu.compare16, Cpu.addBranchCycles]

theorem op_phb_eq : Gen.CpuGo.Alt.op_phb = Cpu.runP .phb := by
  funext s
  simp only [Gen.CpuGo.Alt.op_phb, Cpu.runP, Cpu.logic, Cpu.rmw, Cpu.branchIf, Cpu.blockMove, Cpu.interruptLike,
    Cpu.interruptBody, Cpu.rtiBody, gotie_a]
  gorun [shr16, Cpu.setZN8, Cpu.setZN16, Cpu.setZ8, Cpu.setZ16, Cpu.toIndex, Cpu.toAcc, Cpu.srcC, Cpu.srcX, Cpu.srcY, Cpu.compare8,
    Cpu.compare16, Cpu.addBranchCycles]

theorem op_phd_eq : Gen.CpuGo.Alt.op_phd = Cpu.runP .phd := by
  funext s
  simp only [Gen.CpuGo.Alt.op_phd, Cpu.runP, Cpu.logic, Cpu.rmw, Cpu.branchIf, Cpu.blockMove, Cpu.interruptLike,
    Cpu.interruptBody, Cpu.rtiBody, gotie_a]
  gorun [shr16, Cpu.setZN8, Cpu.setZN16, Cpu.setZ8, Cpu.setZ16, Cpu.toIndex, Cpu.toAcc, Cpu.srcC, Cpu.srcX, Cpu.srcY, Cpu.compare8,
    Cpu.compare16, Cpu.addBranchCycles]

theorem op_phk_eq : Gen.CpuGo.Alt.op_phk = Cpu.runP .phk := by
  funext s
  simp only [Gen.CpuGo.Alt.op_phk, Cpu.runP, Cpu.logic, Cpu.rmw, Cpu.branchIf, Cpu.blockMove, Cpu.interruptLike,
    Cpu.interruptBody, Cpu.rtiBody, gotie_a]
  gorun [shr16, Cpu.setZN8, Cpu.setZN16, Cpu.setZ8, Cpu.setZ16, Cpu.toIndex, Cpu.toAcc, Cpu.srcC, Cpu.srcX, Cpu.srcY, Cpu.compare8,
    Cpu.compare16, Cpu.addBranchCycles]

theorem op_pea_eq : Gen.CpuGo.Alt.op_pea = Cpu.runP .pea := by
  funext s
  simp only [Gen.CpuGo.Alt.op_pea, Cpu.runP, Cpu.logic, Cpu.rmw, Cpu.branchIf, Cpu.blockMove, Cpu.interruptLike,
    Cpu.interruptBody, Cpu.rtiBody, gotie_a]
  gorun [shr16, Cpu.setZN8, Cpu.setZN16, Cpu.setZ8, Cpu.setZ16, Cpu.toIndex, Cpu.toAcc, Cpu.srcC, Cpu.srcX, Cpu.srcY, Cpu.compare8,
    Cpu.compare16, Cpu.addBranchCycles]

theorem op_per_eq : Gen.CpuGo.Alt.op_per = Cpu.runP .per := by
  funext s
  simp only [Gen.CpuGo.Alt.op_per, Cpu.runP, Cpu.logic, Cpu.rmw, Cpu.branchIf, Cpu.blockMove, Cpu.interruptLike,
    Cpu.interruptBody, Cpu.rtiBody, gotie_a]
  gorun [shr16, Cpu.setZN8, Cpu.setZN16, Cpu.setZ8, Cpu.setZ16, Cpu.toIndex, Cpu.toAcc, Cpu.srcC, Cpu.srcX, Cpu.srcY, Cpu.compare8,
    Cpu.compare16, Cpu.addBranchCycles]

theorem op_pld_eq : Gen.CpuGo.Alt.op_pld = Cpu.runP .pld := by
  funext s
  simp only [Gen.CpuGo.Alt.op_pld, Cpu.runP, Cpu.logic, Cpu.rmw, Cpu.branchIf, Cpu.blockMove, Cpu.interruptLike,
    Cpu.interruptBody, Cpu.rtiBody, gotie_a]
  gorun [shr16, Cpu.setZN8, Cpu.setZN16, Cpu.setZ8, Cpu.setZ16, Cpu.toIndex, Cpu.toAcc, Cpu.srcC, Cpu.srcX, Cpu.srcY, Cpu.compare8,
    Cpu.compare16, Cpu.addBranchCycles]

theorem op_plb_eq : Gen.CpuGo.Alt.op_plb = Cpu.runP .plb := by
  funext s
  simp only [Gen.CpuGo.Alt.op_plb, Cpu.runP, Cpu.logic, Cpu.rmw, Cpu.branchIf, Cpu.blockMove, Cpu.interruptLike,
    Cpu.interruptBody, Cpu.rtiBody, gotie_a]
  gorun [shr16, Cpu.setZN8, Cpu.setZN16, Cpu.setZ8, Cpu.setZ16, Cpu.toIndex, Cpu.toAcc, Cpu.srcC, Cpu.srcX, Cpu.srcY, Cpu.compare8,
    Cpu.compare16, Cpu.addBranchCycles]

theorem op_rep_eq : Gen.CpuGo.Alt.op_rep = Cpu.runP .rep := by
  funext s
  simp only [Gen.CpuGo.Alt.op_rep, Cpu.runP, Cpu.logic, Cpu.rmw, Cpu.branchIf, Cpu.blockMove, Cpu.interruptLike,
    Cpu.interruptBody, Cpu.rtiBody, gotie_a]
  gorun [shr16, Cpu.setZN8, Cpu.setZN16, Cpu.setZ8, Cpu.setZ16, Cpu.toIndex, Cpu.toAcc, Cpu.srcC, Cpu.srcX, Cpu.srcY, Cpu.compare8,
    Cpu.compare16, Cpu.addBranchCycles]

theorem op_sep_eq : Gen.CpuGo.Alt.op_sep = Cpu.runP .sep := by
  funext s
  simp only [Gen.CpuGo.Alt.op_sep, Cpu.runP, Cpu.logic, Cpu.rmw, Cpu.branchIf, Cpu.blockMove, Cpu.interruptLike,
    Cpu.interruptBody, Cpu.rtiBody, gotie_a]
  gorun [shr16, Cpu.setZN8, Cpu.setZN16, Cpu.setZ8, Cpu.setZ16, Cpu.toIndex, Cpu.toAcc, Cpu.srcC, Cpu.srcX, Cpu.srcY, Cpu.compare8,
    Cpu.compare16, Cpu.addBranchCycles]

theorem stp_eq : Gen.CpuGo.Alt.stp = Cpu.runP .stp := by
  funext s
  simp only [Gen.CpuGo.Alt.stp, Cpu.runP, Cpu.logic, Cpu.rmw, Cpu.branchIf, Cpu.blockMove, Cpu.interruptLike,
    Cpu.interruptBody, Cpu.rtiBody, gotie_a]
  gorun [shr16, Cpu.setZN8, Cpu.setZN16, Cpu.setZ8, Cpu.setZ16, Cpu.toIndex, Cpu.toAcc, Cpu.srcC, Cpu.srcX, Cpu.srcY, Cpu.compare8,
    Cpu.compare16, Cpu.addBranchCycles]

theorem op_tcd_eq : Gen.CpuGo.Alt.op_tcd = Cpu.runP .tcd := by
  funext s
  simp only [Gen.CpuGo.Alt.op_tcd, Cpu.runP, Cpu.logic, Cpu.rmw, Cpu.branchIf, Cpu.blockMove, Cpu.interruptLike,
    Cpu.interruptBody, Cpu.rtiBody, gotie_a]
  gorun [shr16, Cpu.setZN8, Cpu.setZN16, Cpu.setZ8, Cpu.setZ16, Cpu.toIndex, Cpu.toAcc, Cpu.srcC, Cpu.srcX, Cpu.srcY, Cpu.compare8,
    Cpu.compare16, Cpu.addBranchCycles]

theorem op_tcs_eq : Gen.CpuGo.Alt.op_tcs = Cpu.runP .tcs := by
  funext s
  simp only [Gen.CpuGo.Alt.op_tcs, Cpu.runP, Cpu.logic, Cpu.rmw, Cpu.branchIf, Cpu.blockMove, Cpu.interruptLike,
    Cpu.interruptBody, Cpu.rtiBody, gotie_a]
  gorun [shr16, Cpu.setZN8, Cpu.setZN16, Cpu.setZ8, Cpu.setZ16, Cpu.toIndex, Cpu.toAcc, Cpu.srcC, Cpu.srcX, Cpu.srcY, Cpu.compare8,
    Cpu.compare16, Cpu.addBranchCycles]

theorem op_tdc_eq : Gen.CpuGo.Alt.op_tdc = Cpu.runP .tdc := by
  funext s
  simp only [Gen.CpuGo.Alt.op_tdc, Cpu.runP, Cpu.logic, Cpu.rmw, Cpu.branchIf, Cpu.blockMove, Cpu.interruptLike,
    Cpu.interruptBody, Cpu.rtiBody, gotie_a]
  gorun [shr16, Cpu.setZN8, Cpu.setZN16, Cpu.setZ8, Cpu.setZ16, Cpu.toIndex, Cpu.toAcc, Cpu.srcC, Cpu.srcX, Cpu.srcY, Cpu.compare8,
    Cpu.compare16, Cpu.addBranchCycles]

theorem op_tsc_eq : Gen.CpuGo.Alt.op_tsc = Cpu.runP .tsc := by
  funext s
  simp only [Gen.CpuGo.Alt.op_tsc, Cpu.runP, Cpu.logic, Cpu.rmw, Cpu.branchIf, Cpu.blockMove, Cpu.interruptLike,
    Cpu.interruptBody, Cpu.rtiBody, gotie_a]
  gorun [shr16, Cpu.setZN8, Cpu.setZN16, Cpu.setZ8, Cpu.setZ16, Cpu.toIndex, Cpu.toAcc, Cpu.srcC, Cpu.srcX, Cpu.srcY, Cpu.compare8,
    Cpu.compare16, Cpu.addBranchCycles]

theorem op_trb_eq : Gen.CpuGo.Alt.op_trb = Cpu.runP .trb := by
  funext s
  simp only [Gen.CpuGo.Alt.op_trb, Cpu.runP, Cpu.logic, Cpu.rmw, Cpu.branchIf, Cpu.blockMove, Cpu.interruptLike,
    Cpu.interruptBody, Cpu.rtiBody, gotie_a]
  gorun [shr16, Cpu.setZN8, Cpu.setZN16, Cpu.setZ8, Cpu.setZ16, Cpu.toIndex, Cpu.toAcc, Cpu.srcC, Cpu.srcX, Cpu.srcY, Cpu.compare8,
    Cpu.compare16, Cpu.addBranchCycles]

theorem op_tsb_eq : Gen.CpuGo.Alt.op_tsb = Cpu.runP .tsb := by
  funext s
  simp only [Gen.CpuGo.Alt.op_tsb, Cpu.runP, Cpu.logic, Cpu.rmw, Cpu.branchIf, Cpu.blockMove, Cpu.interruptLike,
    Cpu.interruptBody, Cpu.rtiBody, gotie_a]
  gorun [shr16, Cpu.setZN8, Cpu.setZN16, Cpu.setZ8, Cpu.setZ16, Cpu.toIndex, Cpu.toAcc, Cpu.srcC, Cpu.srcX, Cpu.srcY, Cpu.compare8,
    Cpu.compare16, Cpu.addBranchCycles]

theorem op_wdm_eq : Gen.CpuGo.Alt.op_wdm = Cpu.runP .wdm := by
  funext s
  simp only [Gen.CpuGo.Alt.op_wdm, Cpu.runP, Cpu.logic, Cpu.rmw, Cpu.branchIf, Cpu.blockMove, Cpu.interruptLike,
    Cpu.interruptBody, Cpu.rtiBody, gotie_a]
  gorun [shr16, Cpu.setZN8, Cpu.setZN16, Cpu.setZ8, Cpu.setZ16, Cpu.toIndex, Cpu.toAcc, Cpu.srcC, Cpu.srcX, Cpu.srcY, Cpu.compare8,
    Cpu.compare16, Cpu.addBranchCycles]

theorem op_xba_eq : Gen.CpuGo.Alt.op_xba = Cpu.runP .xba := by
  funext s
  simp only [Gen.CpuGo.Alt.op_xba, Cpu.runP, Cpu.logic, Cpu.rmw, Cpu.branchIf, Cpu.blockMove, Cpu.interruptLike,
    Cpu.interruptBody, Cpu.rtiBody, gotie_a]
  gorun [shr16, Cpu.setZN8, Cpu.setZN16, Cpu.setZ8, Cpu.setZ16, Cpu.toIndex, Cpu.toAcc, Cpu.srcC, Cpu.srcX, Cpu.srcY, Cpu.compare8,
    Cpu.compare16, Cpu.addBranchCycles]

theorem op_xce_eq : Gen.CpuGo.Alt.op_xce = Cpu.runP .xce := by
  funext s
  simp only [Gen.CpuGo.Alt.op_xce, Cpu.runP, Cpu.logic, Cpu.rmw, Cpu.branchIf, Cpu.blockMove, Cpu.interruptLike,
    Cpu.interruptBody, Cpu.rtiBody, gotie_a]
  gorun [shr16, Cpu.setZN8, Cpu.setZN16, Cpu.setZ8, Cpu.setZ16, Cpu.toIndex, Cpu.toAcc, Cpu.srcC, Cpu.srcX, Cpu.srcY, Cpu.compare8,
    Cpu.compare16, Cpu.addBranchCycles]

theorem wai_eq : Gen.CpuGo.Alt.wai = Cpu.runP .nop := by
  funext s
  simp only [Gen.CpuGo.Alt.wai, Cpu.runP, Cpu.logic, Cpu.rmw, Cpu.branchIf, Cpu.blockMove, Cpu.interruptLike,
    Cpu.interruptBody, Cpu.rtiBody, gotie_a]
  gorun [shr16, Cpu.setZN8, Cpu.setZN16, Cpu.setZ8, Cpu.setZ16, Cpu.toIndex, Cpu.toAcc, Cpu.srcC, Cpu.srcX, Cpu.srcY, Cpu.compare8,
    Cpu.compare16, Cpu.addBranchCycles]

end Cpu.GoTie.Alt
