/-
Tie, routine layer, cpu65c816 (part 1): every regenerated `op_*` equals the model's routine `Cpu.runP`.
-/
import SnesVerif.Cpu.GoTie.FlagsPrimary
namespace Cpu.GoTie.Primary
open Cpu Cpu.GoPrim Cpu.GoTie
set_option maxRecDepth 100000
set_option linter.unusedSimpArgs false

theorem op_lda_eq : Gen.CpuGo.Primary.op_lda = Cpu.runP .lda := by
  funext s
  simp only [Gen.CpuGo.Primary.op_lda, Cpu.runP, gotie_p]
  gorun [Cpu.setZN8, Cpu.setZN16]

theorem op_and_eq : Gen.CpuGo.Primary.op_and = Cpu.runP .and := by
  funext s
  simp only [Gen.CpuGo.Primary.op_and, Cpu.runP, Cpu.logic, gotie_p]
  gorun [Cpu.setZN8, Cpu.setZN16]

theorem op_asl_eq : Gen.CpuGo.Primary.op_asl = Cpu.runP .asl := by
  funext s
  simp only [Gen.CpuGo.Primary.op_asl, Cpu.runP, Cpu.rmw, gotie_p]
  gorun [Cpu.setZN8, Cpu.setZN16]

end Cpu.GoTie.Primary
