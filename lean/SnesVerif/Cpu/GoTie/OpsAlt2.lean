/-
Tie, routine layer, cpualt (part 2 of 4): every regenerated `op_*` equals the model's routine `Cpu.runP`.
Written by tools/mkgotie.py (one proof script for all routines).
-/
import SnesVerif.Cpu.GoTie.FlagsAlt
namespace Cpu.GoTie.Alt
open Cpu Cpu.GoPrim Cpu.GoTie
set_option maxRecDepth 100000
set_option linter.unusedSimpArgs false

theorem op_clc_eq : Gen.CpuGo.Alt.op_clc = Cpu.runP .clc := by
  funext s
  simp only [Gen.CpuGo.Alt.op_clc, Cpu.runP, Cpu.logic, Cpu.rmw, Cpu.branchIf, Cpu.blockMove, Cpu.interruptLike,
    Cpu.interruptBody, Cpu.rtiBody, gotie_a]
  gorun [shr16, Cpu.setZN8, Cpu.setZN16, Cpu.setZ8, Cpu.setZ16, Cpu.toIndex, Cpu.toAcc, Cpu.srcC, Cpu.srcX, Cpu.srcY, Cpu.compare8,
    Cpu.compare16, Cpu.addBranchCycles]

theorem op_cld_eq : Gen.CpuGo.Alt.op_cld = Cpu.runP .cld := by
  funext s
  simp only [Gen.CpuGo.Alt.op_cld, Cpu.runP, Cpu.logic, Cpu.rmw, Cpu.branchIf, Cpu.blockMove, Cpu.interruptLike,
    Cpu.interruptBody, Cpu.rtiBody, gotie_a]
  gorun [shr16, Cpu.setZN8, Cpu.setZN16, Cpu.setZ8, Cpu.setZ16, Cpu.toIndex, Cpu.toAcc, Cpu.srcC, Cpu.srcX, Cpu.srcY, Cpu.compare8,
    Cpu.compare16, Cpu.addBranchCycles]

theorem op_cli_eq : Gen.CpuGo.Alt.op_cli = Cpu.runP .cli := by
  funext s
  simp only [Gen.CpuGo.Alt.op_cli, Cpu.runP, Cpu.logic, Cpu.rmw, Cpu.branchIf, Cpu.blockMove, Cpu.interruptLike,
    Cpu.interruptBody, Cpu.rtiBody, gotie_a]
  gorun [shr16, Cpu.setZN8, Cpu.setZN16, Cpu.setZ8, Cpu.setZ16, Cpu.toIndex, Cpu.toAcc, Cpu.srcC, Cpu.srcX, Cpu.srcY, Cpu.compare8,
    Cpu.compare16, Cpu.addBranchCycles]

theorem op_clv_eq : Gen.CpuGo.Alt.op_clv = Cpu.runP .clv := by
  funext s
  simp only [Gen.CpuGo.Alt.op_clv, Cpu.runP, Cpu.logic, Cpu.rmw, Cpu.branchIf, Cpu.blockMove, Cpu.interruptLike,
    Cpu.interruptBody, Cpu.rtiBody, gotie_a]
  gorun [shr16, Cpu.setZN8, Cpu.setZN16, Cpu.setZ8, Cpu.setZ16, Cpu.toIndex, Cpu.toAcc, Cpu.srcC, Cpu.srcX, Cpu.srcY, Cpu.compare8,
    Cpu.compare16, Cpu.addBranchCycles]

theorem op_sec_eq : Gen.CpuGo.Alt.op_sec = Cpu.runP .sec := by
  funext s
  simp only [Gen.CpuGo.Alt.op_sec, Cpu.runP, Cpu.logic, Cpu.rmw, Cpu.branchIf, Cpu.blockMove, Cpu.interruptLike,
    Cpu.interruptBody, Cpu.rtiBody, gotie_a]
  gorun [shr16, Cpu.setZN8, Cpu.setZN16, Cpu.setZ8, Cpu.setZ16, Cpu.toIndex, Cpu.toAcc, Cpu.srcC, Cpu.srcX, Cpu.srcY, Cpu.compare8,
    Cpu.compare16, Cpu.addBranchCycles]

theorem op_sed_eq : Gen.CpuGo.Alt.op_sed = Cpu.runP .sed := by
  funext s
  simp only [Gen.CpuGo.Alt.op_sed, Cpu.runP, Cpu.logic, Cpu.rmw, Cpu.branchIf, Cpu.blockMove, Cpu.interruptLike,
    Cpu.interruptBody, Cpu.rtiBody, gotie_a]
  gorun [shr16, Cpu.setZN8, Cpu.setZN16, Cpu.setZ8, Cpu.setZ16, Cpu.toIndex, Cpu.toAcc, Cpu.srcC, Cpu.srcX, Cpu.srcY, Cpu.compare8,
    Cpu.compare16, Cpu.addBranchCycles]

theorem op_sei_eq : Gen.CpuGo.Alt.op_sei = Cpu.runP .sei := by
  funext s
  simp only [Gen.CpuGo.Alt.op_sei, Cpu.runP, Cpu.logic, Cpu.rmw, Cpu.branchIf, Cpu.blockMove, Cpu.interruptLike,
    Cpu.interruptBody, Cpu.rtiBody, gotie_a]
  gorun [shr16, Cpu.setZN8, Cpu.setZN16, Cpu.setZ8, Cpu.setZ16, Cpu.toIndex, Cpu.toAcc, Cpu.srcC, Cpu.srcX, Cpu.srcY, Cpu.compare8,
    Cpu.compare16, Cpu.addBranchCycles]

theorem op_cmp_eq : Gen.CpuGo.Alt.op_cmp = Cpu.runP .cmp := by
  funext s
  simp only [Gen.CpuGo.Alt.op_cmp, Cpu.runP, Cpu.logic, Cpu.rmw, Cpu.branchIf, Cpu.blockMove, Cpu.interruptLike,
    Cpu.interruptBody, Cpu.rtiBody, gotie_a]
  gorun [shr16, Cpu.setZN8, Cpu.setZN16, Cpu.setZ8, Cpu.setZ16, Cpu.toIndex, Cpu.toAcc, Cpu.srcC, Cpu.srcX, Cpu.srcY, Cpu.compare8,
    Cpu.compare16, Cpu.addBranchCycles]

theorem op_cpx_eq : Gen.CpuGo.Alt.op_cpx = Cpu.runP .cpx := by
  funext s
  simp only [Gen.CpuGo.Alt.op_cpx, Cpu.runP, Cpu.logic, Cpu.rmw, Cpu.branchIf, Cpu.blockMove, Cpu.interruptLike,
    Cpu.interruptBody, Cpu.rtiBody, gotie_a]
  gorun [shr16, Cpu.setZN8, Cpu.setZN16, Cpu.setZ8, Cpu.setZ16, Cpu.toIndex, Cpu.toAcc, Cpu.srcC, Cpu.srcX, Cpu.srcY, Cpu.compare8,
    Cpu.compare16, Cpu.addBranchCycles]

theorem op_cpy_eq : Gen.CpuGo.Alt.op_cpy = Cpu.runP .cpy := by
  funext s
  simp only [Gen.CpuGo.Alt.op_cpy, Cpu.runP, Cpu.logic, Cpu.rmw, Cpu.branchIf, Cpu.blockMove, Cpu.interruptLike,
    Cpu.interruptBody, Cpu.rtiBody, gotie_a]
  gorun [shr16, Cpu.setZN8, Cpu.setZN16, Cpu.setZ8, Cpu.setZ16, Cpu.toIndex, Cpu.toAcc, Cpu.srcC, Cpu.srcX, Cpu.srcY, Cpu.compare8,
    Cpu.compare16, Cpu.addBranchCycles]

theorem op_dex_eq : Gen.CpuGo.Alt.op_dex = Cpu.runP .dex := by
  funext s
  simp only [Gen.CpuGo.Alt.op_dex, Cpu.runP, Cpu.logic, Cpu.rmw, Cpu.branchIf, Cpu.blockMove, Cpu.interruptLike,
    Cpu.interruptBody, Cpu.rtiBody, gotie_a]
  gorun [shr16, Cpu.setZN8, Cpu.setZN16, Cpu.setZ8, Cpu.setZ16, Cpu.toIndex, Cpu.toAcc, Cpu.srcC, Cpu.srcX, Cpu.srcY, Cpu.compare8,
    Cpu.compare16, Cpu.addBranchCycles]

theorem op_dey_eq : Gen.CpuGo.Alt.op_dey = Cpu.runP .dey := by
  funext s
  simp only [Gen.CpuGo.Alt.op_dey, Cpu.runP, Cpu.logic, Cpu.rmw, Cpu.branchIf, Cpu.blockMove, Cpu.interruptLike,
    Cpu.interruptBody, Cpu.rtiBody, gotie_a]
  gorun [shr16, Cpu.setZN8, Cpu.setZN16, Cpu.setZ8, Cpu.setZ16, Cpu.toIndex, Cpu.toAcc, Cpu.srcC, Cpu.srcX, Cpu.srcY, Cpu.compare8,
    Cpu.compare16, Cpu.addBranchCycles]

theorem op_inx_eq : Gen.CpuGo.Alt.op_inx = Cpu.runP .inx := by
  funext s
  simp only [Gen.CpuGo.Alt.op_inx, Cpu.runP, Cpu.logic, Cpu.rmw, Cpu.branchIf, Cpu.blockMove, Cpu.interruptLike,
    Cpu.interruptBody, Cpu.rtiBody, gotie_a]
  gorun [shr16, Cpu.setZN8, Cpu.setZN16, Cpu.setZ8, Cpu.setZ16, Cpu.toIndex, Cpu.toAcc, Cpu.srcC, Cpu.srcX, Cpu.srcY, Cpu.compare8,
    Cpu.compare16, Cpu.addBranchCycles]

theorem op_iny_eq : Gen.CpuGo.Alt.op_iny = Cpu.runP .iny := by
  funext s
  simp only [Gen.CpuGo.Alt.op_iny, Cpu.runP, Cpu.logic, Cpu.rmw, Cpu.branchIf, Cpu.blockMove, Cpu.interruptLike,
    Cpu.interruptBody, Cpu.rtiBody, gotie_a]
  gorun [shr16, Cpu.setZN8, Cpu.setZN16, Cpu.setZ8, Cpu.setZ16, Cpu.toIndex, Cpu.toAcc, Cpu.srcC, Cpu.srcX, Cpu.srcY, Cpu.compare8,
    Cpu.compare16, Cpu.addBranchCycles]

theorem op_jmp_eq : Gen.CpuGo.Alt.op_jmp = Cpu.runP .jmp := by
  funext s
  simp only [Gen.CpuGo.Alt.op_jmp, Cpu.runP, Cpu.logic, Cpu.rmw, Cpu.branchIf, Cpu.blockMove, Cpu.interruptLike,
    Cpu.interruptBody, Cpu.rtiBody, gotie_a, get_bind]
  cases hm : s.r.Mode <;> gorun [shr16, Cpu.setZN8, Cpu.setZN16]

theorem op_jsl_eq : Gen.CpuGo.Alt.op_jsl = Cpu.runP .jsl := by
  funext s
  simp only [Gen.CpuGo.Alt.op_jsl, Cpu.runP, Cpu.logic, Cpu.rmw, Cpu.branchIf, Cpu.blockMove, Cpu.interruptLike,
    Cpu.interruptBody, Cpu.rtiBody, gotie_a]
  gorun [shr16, Cpu.setZN8, Cpu.setZN16, Cpu.setZ8, Cpu.setZ16, Cpu.toIndex, Cpu.toAcc, Cpu.srcC, Cpu.srcX, Cpu.srcY, Cpu.compare8,
    Cpu.compare16, Cpu.addBranchCycles]

theorem op_jsr_eq : Gen.CpuGo.Alt.op_jsr = Cpu.runP .jsr := by
  funext s
  simp only [Gen.CpuGo.Alt.op_jsr, Cpu.runP, Cpu.logic, Cpu.rmw, Cpu.branchIf, Cpu.blockMove, Cpu.interruptLike,
    Cpu.interruptBody, Cpu.rtiBody, gotie_a]
  gorun [shr16, Cpu.setZN8, Cpu.setZN16, Cpu.setZ8, Cpu.setZ16, Cpu.toIndex, Cpu.toAcc, Cpu.srcC, Cpu.srcX, Cpu.srcY, Cpu.compare8,
    Cpu.compare16, Cpu.addBranchCycles]

theorem op_lda_eq : Gen.CpuGo.Alt.op_lda = Cpu.runP .lda := by
  funext s
  simp only [Gen.CpuGo.Alt.op_lda, Cpu.runP, Cpu.logic, Cpu.rmw, Cpu.branchIf, Cpu.blockMove, Cpu.interruptLike,
    Cpu.interruptBody, Cpu.rtiBody, gotie_a]
  gorun [shr16, Cpu.setZN8, Cpu.setZN16, Cpu.setZ8, Cpu.setZ16, Cpu.toIndex, Cpu.toAcc, Cpu.srcC, Cpu.srcX, Cpu.srcY, Cpu.compare8,
    Cpu.compare16, Cpu.addBranchCycles]

theorem op_ldx_eq : Gen.CpuGo.Alt.op_ldx = Cpu.runP .ldx := by
  funext s
  simp only [Gen.CpuGo.Alt.op_ldx, Cpu.runP, Cpu.logic, Cpu.rmw, Cpu.branchIf, Cpu.blockMove, Cpu.interruptLike,
    Cpu.interruptBody, Cpu.rtiBody, gotie_a]
  gorun [shr16, Cpu.setZN8, Cpu.setZN16, Cpu.setZ8, Cpu.setZ16, Cpu.toIndex, Cpu.toAcc, Cpu.srcC, Cpu.srcX, Cpu.srcY, Cpu.compare8,
    Cpu.compare16, Cpu.addBranchCycles]

theorem op_ldy_eq : Gen.CpuGo.Alt.op_ldy = Cpu.runP .ldy := by
  funext s
  simp only [Gen.CpuGo.Alt.op_ldy, Cpu.runP, Cpu.logic, Cpu.rmw, Cpu.branchIf, Cpu.blockMove, Cpu.interruptLike,
    Cpu.interruptBody, Cpu.rtiBody, gotie_a]
  gorun [shr16, Cpu.setZN8, Cpu.setZN16, Cpu.setZ8, Cpu.setZ16, Cpu.toIndex, Cpu.toAcc, Cpu.srcC, Cpu.srcX, Cpu.srcY, Cpu.compare8,
    Cpu.compare16, Cpu.addBranchCycles]

theorem op_nop_eq : Gen.CpuGo.Alt.op_nop = Cpu.runP .nop := by
  funext s
  simp only [Gen.CpuGo.Alt.op_nop, Cpu.runP, Cpu.logic, Cpu.rmw, Cpu.branchIf, Cpu.blockMove, Cpu.interruptLike,
    Cpu.interruptBody, Cpu.rtiBody, gotie_a]
  gorun [shr16, Cpu.setZN8, Cpu.setZN16, Cpu.setZ8, Cpu.setZ16, Cpu.toIndex, Cpu.toAcc, Cpu.srcC, Cpu.srcX, Cpu.srcY, Cpu.compare8,
    Cpu.compare16, Cpu.addBranchCycles]

theorem op_pha_eq : Gen.CpuGo.Alt.op_pha = Cpu.runP .pha := by
  funext s
  simp only [Gen.CpuGo.Alt.op_pha, Cpu.runP, Cpu.logic, Cpu.rmw, Cpu.branchIf, Cpu.blockMove, Cpu.interruptLike,
    Cpu.interruptBody, Cpu.rtiBody, gotie_a]
  gorun [shr16, Cpu.setZN8, Cpu.setZN16, Cpu.setZ8, Cpu.setZ16, Cpu.toIndex, Cpu.toAcc, Cpu.srcC, Cpu.srcX, Cpu.srcY, Cpu.compare8,
    Cpu.compare16, Cpu.addBranchCycles]

end Cpu.GoTie.Alt
