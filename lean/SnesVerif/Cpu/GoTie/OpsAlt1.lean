/-
Tie, routine layer, cpualt (part 1 of 4): every regenerated `op_*` equals the model's routine `Cpu.runP`.
Written by tools/mkgotie.py (one proof script for all routines).
-/
import SnesVerif.Cpu.GoTie.FlagsAlt
namespace Cpu.GoTie.Alt
open Cpu Cpu.GoPrim Cpu.GoTie
set_option maxRecDepth 100000
set_option linter.unusedSimpArgs false

theorem op_and_eq : Gen.CpuGo.Alt.op_and = Cpu.runP .and := by
  funext s
  simp only [Gen.CpuGo.Alt.op_and, Cpu.runP, Cpu.logic, Cpu.rmw, Cpu.branchIf, Cpu.blockMove, Cpu.interruptLike,
    Cpu.interruptBody, Cpu.rtiBody, gotie_a]
  gorun [shr16, Cpu.setZN8, Cpu.setZN16, Cpu.setZ8, Cpu.setZ16, Cpu.toIndex, Cpu.toAcc, Cpu.srcC, Cpu.srcX, Cpu.srcY, Cpu.compare8,
    Cpu.compare16, Cpu.addBranchCycles]

theorem op_ora_eq : Gen.CpuGo.Alt.op_ora = Cpu.runP .ora := by
  funext s
  simp only [Gen.CpuGo.Alt.op_ora, Cpu.runP, Cpu.logic, Cpu.rmw, Cpu.branchIf, Cpu.blockMove, Cpu.interruptLike,
    Cpu.interruptBody, Cpu.rtiBody, gotie_a]
  gorun [shr16, Cpu.setZN8, Cpu.setZN16, Cpu.setZ8, Cpu.setZ16, Cpu.toIndex, Cpu.toAcc, Cpu.srcC, Cpu.srcX, Cpu.srcY, Cpu.compare8,
    Cpu.compare16, Cpu.addBranchCycles]

theorem op_eor_eq : Gen.CpuGo.Alt.op_eor = Cpu.runP .eor := by
  funext s
  simp only [Gen.CpuGo.Alt.op_eor, Cpu.runP, Cpu.logic, Cpu.rmw, Cpu.branchIf, Cpu.blockMove, Cpu.interruptLike,
    Cpu.interruptBody, Cpu.rtiBody, gotie_a]
  gorun [shr16, Cpu.setZN8, Cpu.setZN16, Cpu.setZ8, Cpu.setZ16, Cpu.toIndex, Cpu.toAcc, Cpu.srcC, Cpu.srcX, Cpu.srcY, Cpu.compare8,
    Cpu.compare16, Cpu.addBranchCycles]

theorem op_asl_eq : Gen.CpuGo.Alt.op_asl = Cpu.runP .asl := by
  funext s
  simp only [Gen.CpuGo.Alt.op_asl, Cpu.runP, Cpu.logic, Cpu.rmw, Cpu.branchIf, Cpu.blockMove, Cpu.interruptLike,
    Cpu.interruptBody, Cpu.rtiBody, gotie_a]
  gorun [shr16, Cpu.setZN8, Cpu.setZN16, Cpu.setZ8, Cpu.setZ16, Cpu.toIndex, Cpu.toAcc, Cpu.srcC, Cpu.srcX, Cpu.srcY, Cpu.compare8,
    Cpu.compare16, Cpu.addBranchCycles]

theorem op_lsr_eq : Gen.CpuGo.Alt.op_lsr = Cpu.runP .lsr := by
  funext s
  simp only [Gen.CpuGo.Alt.op_lsr, Cpu.runP, Cpu.logic, Cpu.rmw, Cpu.branchIf, Cpu.blockMove, Cpu.interruptLike,
    Cpu.interruptBody, Cpu.rtiBody, gotie_a]
  gorun [shr16, Cpu.setZN8, Cpu.setZN16, Cpu.setZ8, Cpu.setZ16, Cpu.toIndex, Cpu.toAcc, Cpu.srcC, Cpu.srcX, Cpu.srcY, Cpu.compare8,
    Cpu.compare16, Cpu.addBranchCycles]

theorem op_rol_eq : Gen.CpuGo.Alt.op_rol = Cpu.runP .rol := by
  funext s
  simp only [Gen.CpuGo.Alt.op_rol, Cpu.runP, Cpu.logic, Cpu.rmw, Cpu.branchIf, Cpu.blockMove, Cpu.interruptLike,
    Cpu.interruptBody, Cpu.rtiBody, gotie_a]
  gorun [shr16, Cpu.setZN8, Cpu.setZN16, Cpu.setZ8, Cpu.setZ16, Cpu.toIndex, Cpu.toAcc, Cpu.srcC, Cpu.srcX, Cpu.srcY, Cpu.compare8,
    Cpu.compare16, Cpu.addBranchCycles]

theorem op_ror_eq : Gen.CpuGo.Alt.op_ror = Cpu.runP .ror := by
  funext s
  simp only [Gen.CpuGo.Alt.op_ror, Cpu.runP, Cpu.logic, Cpu.rmw, Cpu.branchIf, Cpu.blockMove, Cpu.interruptLike,
    Cpu.interruptBody, Cpu.rtiBody, gotie_a]
  gorun [shr16, Cpu.setZN8, Cpu.setZN16, Cpu.setZ8, Cpu.setZ16, Cpu.toIndex, Cpu.toAcc, Cpu.srcC, Cpu.srcX, Cpu.srcY, Cpu.compare8,
    Cpu.compare16, Cpu.addBranchCycles]

theorem op_inc_eq : Gen.CpuGo.Alt.op_inc = Cpu.runP .inc := by
  funext s
  simp only [Gen.CpuGo.Alt.op_inc, Cpu.runP, Cpu.logic, Cpu.rmw, Cpu.branchIf, Cpu.blockMove, Cpu.interruptLike,
    Cpu.interruptBody, Cpu.rtiBody, gotie_a]
  gorun [shr16, Cpu.setZN8, Cpu.setZN16, Cpu.setZ8, Cpu.setZ16, Cpu.toIndex, Cpu.toAcc, Cpu.srcC, Cpu.srcX, Cpu.srcY, Cpu.compare8,
    Cpu.compare16, Cpu.addBranchCycles]

theorem op_dec_eq : Gen.CpuGo.Alt.op_dec = Cpu.runP .dec := by
  funext s
  simp only [Gen.CpuGo.Alt.op_dec, Cpu.runP, Cpu.logic, Cpu.rmw, Cpu.branchIf, Cpu.blockMove, Cpu.interruptLike,
    Cpu.interruptBody, Cpu.rtiBody, gotie_a]
  gorun [shr16, Cpu.setZN8, Cpu.setZN16, Cpu.setZ8, Cpu.setZ16, Cpu.toIndex, Cpu.toAcc, Cpu.srcC, Cpu.srcX, Cpu.srcY, Cpu.compare8,
    Cpu.compare16, Cpu.addBranchCycles]

theorem op_bcc_eq : Gen.CpuGo.Alt.op_bcc = Cpu.runP .bcc := by
  funext s
  simp only [Gen.CpuGo.Alt.op_bcc, Cpu.runP, Cpu.logic, Cpu.rmw, Cpu.branchIf, Cpu.blockMove, Cpu.interruptLike,
    Cpu.interruptBody, Cpu.rtiBody, gotie_a]
  gorun [shr16, Cpu.setZN8, Cpu.setZN16, Cpu.setZ8, Cpu.setZ16, Cpu.toIndex, Cpu.toAcc, Cpu.srcC, Cpu.srcX, Cpu.srcY, Cpu.compare8,
    Cpu.compare16, Cpu.addBranchCycles]

theorem op_bcs_eq : Gen.CpuGo.Alt.op_bcs = Cpu.runP .bcs := by
  funext s
  simp only [Gen.CpuGo.Alt.op_bcs, Cpu.runP, Cpu.logic, Cpu.rmw, Cpu.branchIf, Cpu.blockMove, Cpu.interruptLike,
    Cpu.interruptBody, Cpu.rtiBody, gotie_a]
  gorun [shr16, Cpu.setZN8, Cpu.setZN16, Cpu.setZ8, Cpu.setZ16, Cpu.toIndex, Cpu.toAcc, Cpu.srcC, Cpu.srcX, Cpu.srcY, Cpu.compare8,
    Cpu.compare16, Cpu.addBranchCycles]

theorem op_beq_eq : Gen.CpuGo.Alt.op_beq = Cpu.runP .beq := by
  funext s
  simp only [Gen.CpuGo.Alt.op_beq, Cpu.runP, Cpu.logic, Cpu.rmw, Cpu.branchIf, Cpu.blockMove, Cpu.interruptLike,
    Cpu.interruptBody, Cpu.rtiBody, gotie_a]
  gorun [shr16, Cpu.setZN8, Cpu.setZN16, Cpu.setZ8, Cpu.setZ16, Cpu.toIndex, Cpu.toAcc, Cpu.srcC, Cpu.srcX, Cpu.srcY, Cpu.compare8,
    Cpu.compare16, Cpu.addBranchCycles]

theorem op_bne_eq : Gen.CpuGo.Alt.op_bne = Cpu.runP .bne := by
  funext s
  simp only [Gen.CpuGo.Alt.op_bne, Cpu.runP, Cpu.logic, Cpu.rmw, Cpu.branchIf, Cpu.blockMove, Cpu.interruptLike,
    Cpu.interruptBody, Cpu.rtiBody, gotie_a]
  gorun [shr16, Cpu.setZN8, Cpu.setZN16, Cpu.setZ8, Cpu.setZ16, Cpu.toIndex, Cpu.toAcc, Cpu.srcC, Cpu.srcX, Cpu.srcY, Cpu.compare8,
    Cpu.compare16, Cpu.addBranchCycles]

theorem op_bmi_eq : Gen.CpuGo.Alt.op_bmi = Cpu.runP .bmi := by
  funext s
  simp only [Gen.CpuGo.Alt.op_bmi, Cpu.runP, Cpu.logic, Cpu.rmw, Cpu.branchIf, Cpu.blockMove, Cpu.interruptLike,
    Cpu.interruptBody, Cpu.rtiBody, gotie_a]
  gorun [shr16, Cpu.setZN8, Cpu.setZN16, Cpu.setZ8, Cpu.setZ16, Cpu.toIndex, Cpu.toAcc, Cpu.srcC, Cpu.srcX, Cpu.srcY, Cpu.compare8,
    Cpu.compare16, Cpu.addBranchCycles]

theorem op_bpl_eq : Gen.CpuGo.Alt.op_bpl = Cpu.runP .bpl := by
  funext s
  simp only [Gen.CpuGo.Alt.op_bpl, Cpu.runP, Cpu.logic, Cpu.rmw, Cpu.branchIf, Cpu.blockMove, Cpu.interruptLike,
    Cpu.interruptBody, Cpu.rtiBody, gotie_a]
  gorun [shr16, Cpu.setZN8, Cpu.setZN16, Cpu.setZ8, Cpu.setZ16, Cpu.toIndex, Cpu.toAcc, Cpu.srcC, Cpu.srcX, Cpu.srcY, Cpu.compare8,
    Cpu.compare16, Cpu.addBranchCycles]

theorem op_bvc_eq : Gen.CpuGo.Alt.op_bvc = Cpu.runP .bvc := by
  funext s
  simp only [Gen.CpuGo.Alt.op_bvc, Cpu.runP, Cpu.logic, Cpu.rmw, Cpu.branchIf, Cpu.blockMove, Cpu.interruptLike,
    Cpu.interruptBody, Cpu.rtiBody, gotie_a]
  gorun [shr16, Cpu.setZN8, Cpu.setZN16, Cpu.setZ8, Cpu.setZ16, Cpu.toIndex, Cpu.toAcc, Cpu.srcC, Cpu.srcX, Cpu.srcY, Cpu.compare8,
    Cpu.compare16, Cpu.addBranchCycles]

theorem op_bvs_eq : Gen.CpuGo.Alt.op_bvs = Cpu.runP .bvs := by
  funext s
  simp only [Gen.CpuGo.Alt.op_bvs, Cpu.runP, Cpu.logic, Cpu.rmw, Cpu.branchIf, Cpu.blockMove, Cpu.interruptLike,
    Cpu.interruptBody, Cpu.rtiBody, gotie_a]
  gorun [shr16, Cpu.setZN8, Cpu.setZN16, Cpu.setZ8, Cpu.setZ16, Cpu.toIndex, Cpu.toAcc, Cpu.srcC, Cpu.srcX, Cpu.srcY, Cpu.compare8,
    Cpu.compare16, Cpu.addBranchCycles]

theorem op_bra_eq : Gen.CpuGo.Alt.op_bra = Cpu.runP .bra := by
  funext s
  simp only [Gen.CpuGo.Alt.op_bra, Cpu.runP, Cpu.logic, Cpu.rmw, Cpu.branchIf, Cpu.blockMove, Cpu.interruptLike,
    Cpu.interruptBody, Cpu.rtiBody, gotie_a]
  gorun [shr16, Cpu.setZN8, Cpu.setZN16, Cpu.setZ8, Cpu.setZ16, Cpu.toIndex, Cpu.toAcc, Cpu.srcC, Cpu.srcX, Cpu.srcY, Cpu.compare8,
    Cpu.compare16, Cpu.addBranchCycles]

theorem op_brl_eq : Gen.CpuGo.Alt.op_brl = Cpu.runP .brl := by
  funext s
  simp only [Gen.CpuGo.Alt.op_brl, Cpu.runP, Cpu.logic, Cpu.rmw, Cpu.branchIf, Cpu.blockMove, Cpu.interruptLike,
    Cpu.interruptBody, Cpu.rtiBody, gotie_a]
  gorun [shr16, Cpu.setZN8, Cpu.setZN16, Cpu.setZ8, Cpu.setZ16, Cpu.toIndex, Cpu.toAcc, Cpu.srcC, Cpu.srcX, Cpu.srcY, Cpu.compare8,
    Cpu.compare16, Cpu.addBranchCycles]

theorem op_bit_eq : Gen.CpuGo.Alt.op_bit = Cpu.runP .bit := by
  funext s
  simp only [Gen.CpuGo.Alt.op_bit, Cpu.runP, Cpu.logic, Cpu.rmw, Cpu.branchIf, Cpu.blockMove, Cpu.interruptLike,
    Cpu.interruptBody, Cpu.rtiBody, gotie_a]
  gorun [shr16, Cpu.setZN8, Cpu.setZN16, Cpu.setZ8, Cpu.setZ16, Cpu.toIndex, Cpu.toAcc, Cpu.srcC, Cpu.srcX, Cpu.srcY, Cpu.compare8,
    Cpu.compare16, Cpu.addBranchCycles]

theorem op_brk_eq : Gen.CpuGo.Alt.op_brk = Cpu.runP .brk := by
  funext s
  simp only [Gen.CpuGo.Alt.op_brk, Cpu.runP, Cpu.logic, Cpu.rmw, Cpu.branchIf, Cpu.blockMove, Cpu.interruptLike,
    Cpu.interruptBody, Cpu.rtiBody, gotie_a]
  gorun [shr16, Cpu.setZN8, Cpu.setZN16, Cpu.setZ8, Cpu.setZ16, Cpu.toIndex, Cpu.toAcc, Cpu.srcC, Cpu.srcX, Cpu.srcY, Cpu.compare8,
    Cpu.compare16, Cpu.addBranchCycles]

theorem op_cop_eq : Gen.CpuGo.Alt.op_cop = Cpu.runP .cop := by
  funext s
  simp only [Gen.CpuGo.Alt.op_cop, Cpu.runP, Cpu.logic, Cpu.rmw, Cpu.branchIf, Cpu.blockMove, Cpu.interruptLike,
    Cpu.interruptBody, Cpu.rtiBody, gotie_a]
  gorun [shr16, Cpu.setZN8, Cpu.setZN16, Cpu.setZ8, Cpu.setZ16, Cpu.toIndex, Cpu.toAcc, Cpu.srcC, Cpu.srcX, Cpu.srcY, Cpu.compare8,
    Cpu.compare16, Cpu.addBranchCycles]

end Cpu.GoTie.Alt
