/-
Tie, top layer, cpualt: the routine dispatcher, nmi / irq / Reset, and `Step()` itself — the regenerated `Step` (fetch, table
lookup, the 26-way addressing switch, cycle adjustment, dispatch, PC / cycle bookkeeping, result pair) equals the model's
`stepFull` followed by reading (Cycles, Stopped).
-/
import SnesVerif.Cpu.GoTie.OpsAlt1
import SnesVerif.Cpu.GoTie.OpsAlt2
import SnesVerif.Cpu.GoTie.OpsAlt3
import SnesVerif.Cpu.GoTie.OpsAlt4
import SnesVerif.Cpu.GoTie.AdcAlt
import SnesVerif.Cpu.InterruptModel
import SnesVerif.Cpu.GoTie.SwitchAlt1
import SnesVerif.Cpu.GoTie.SwitchAlt2
import SnesVerif.Cpu.GoTie.SwitchAlt3
namespace Cpu.GoTie.Alt
open Cpu Cpu.GoPrim Cpu.GoTie
set_option maxRecDepth 100000
set_option linter.unusedSimpArgs false

/-- `instructions[opcode].proc(cpu)` runs the model's routine (every routine the table can name) -/
theorem callProc_eq : ∀ (p : Proc), p ≠ .none → Gen.CpuGo.Alt.callProc p = Cpu.runP p
  | .adc, _ => op_adc_eq
  | .sbc, _ => op_sbc_eq
  | .and, _ => op_and_eq
  | .ora, _ => op_ora_eq
  | .eor, _ => op_eor_eq
  | .asl, _ => op_asl_eq
  | .lsr, _ => op_lsr_eq
  | .rol, _ => op_rol_eq
  | .ror, _ => op_ror_eq
  | .inc, _ => op_inc_eq
  | .dec, _ => op_dec_eq
  | .bcc, _ => op_bcc_eq
  | .bcs, _ => op_bcs_eq
  | .beq, _ => op_beq_eq
  | .bne, _ => op_bne_eq
  | .bmi, _ => op_bmi_eq
  | .bpl, _ => op_bpl_eq
  | .bvc, _ => op_bvc_eq
  | .bvs, _ => op_bvs_eq
  | .bra, _ => op_bra_eq
  | .brl, _ => op_brl_eq
  | .bit, _ => op_bit_eq
  | .brk, _ => op_brk_eq
  | .cop, _ => op_cop_eq
  | .clc, _ => op_clc_eq
  | .cld, _ => op_cld_eq
  | .cli, _ => op_cli_eq
  | .clv, _ => op_clv_eq
  | .sec, _ => op_sec_eq
  | .sed, _ => op_sed_eq
  | .sei, _ => op_sei_eq
  | .cmp, _ => op_cmp_eq
  | .cpx, _ => op_cpx_eq
  | .cpy, _ => op_cpy_eq
  | .dex, _ => op_dex_eq
  | .dey, _ => op_dey_eq
  | .inx, _ => op_inx_eq
  | .iny, _ => op_iny_eq
  | .jmp, _ => op_jmp_eq
  | .jsl, _ => op_jsl_eq
  | .jsr, _ => op_jsr_eq
  | .lda, _ => op_lda_eq
  | .ldx, _ => op_ldx_eq
  | .ldy, _ => op_ldy_eq
  | .nop, _ => op_nop_eq
  | .pha, _ => op_pha_eq
  | .php, _ => op_php_eq
  | .phx, _ => op_phx_eq
  | .phy, _ => op_phy_eq
  | .pla, _ => op_pla_eq
  | .plp, _ => op_plp_eq
  | .plx, _ => op_plx_eq
  | .ply, _ => op_ply_eq
  | .rti, _ => op_rti_eq
  | .rtl, _ => op_rtl_eq
  | .rts, _ => op_rts_eq
  | .sta, _ => op_sta_eq
  | .stx, _ => op_stx_eq
  | .sty, _ => op_sty_eq
  | .stz, _ => op_stz_eq
  | .tax, _ => op_tax_eq
  | .tay, _ => op_tay_eq
  | .tsx, _ => op_tsx_eq
  | .txa, _ => op_txa_eq
  | .tya, _ => op_tya_eq
  | .txs, _ => op_txs_eq
  | .txy, _ => op_txy_eq
  | .tyx, _ => op_tyx_eq
  | .mvn, _ => op_mvn_eq
  | .mvp, _ => op_mvp_eq
  | .phb, _ => op_phb_eq
  | .phd, _ => op_phd_eq
  | .phk, _ => op_phk_eq
  | .pea, _ => op_pea_eq
  | .per, _ => op_per_eq
  | .pld, _ => op_pld_eq
  | .plb, _ => op_plb_eq
  | .rep, _ => op_rep_eq
  | .sep, _ => op_sep_eq
  | .stp, _ => stp_eq
  | .tcd, _ => op_tcd_eq
  | .tcs, _ => op_tcs_eq
  | .tdc, _ => op_tdc_eq
  | .tsc, _ => op_tsc_eq
  | .trb, _ => op_trb_eq
  | .tsb, _ => op_tsb_eq
  | .wdm, _ => op_wdm_eq
  | .xba, _ => op_xba_eq
  | .xce, _ => op_xce_eq
  | .none, h => absurd rfl h

@[gotie_a] theorem nmi_eq : Gen.CpuGo.Alt.nmi = Cpu.nmi := by
  funext s
  simp only [Gen.CpuGo.Alt.nmi, Gen.CpuGo.Alt.op_php, Cpu.nmi, gotie_a]
  gorun []

@[gotie_a] theorem irq_eq : Gen.CpuGo.Alt.irq = Cpu.irq := by
  funext s
  simp only [Gen.CpuGo.Alt.irq, Cpu.irq, gotie_a]
  gorun []

theorem Reset_eq : Gen.CpuGo.Alt.Reset = Cpu.reset := by
  funext s
  simp only [Gen.CpuGo.Alt.Reset, Cpu.reset, gotie_a]
  gorun []

/-- `TriggerIRQ()` / `triggerNMI()` as translated: the new value of the interrupt latch is the model's, the registers are untouched -/
theorem TriggerIRQ_eq (latch : Nat) (s : St) :
    Gen.CpuGo.Alt.TriggerIRQ latch s = some (Cpu.triggerIRQ .alt s.r latch, s) := by
  simp only [Gen.CpuGo.Alt.TriggerIRQ, Cpu.triggerIRQ, Cpu.latchIRQ, get_bind, pure_run]
  cases s.r.I <;> rfl

theorem triggerNMI_eq (latch : Nat) (s : St) :
    Gen.CpuGo.Alt.triggerNMI latch s = some (Cpu.triggerNMI .alt, s) := rfl

/-! ### Step -/

open Gen

theorem alt_proc_ne : ∀ i, i < 256 → (rowSem (alt_instructions.getD i default)).proc ≠ .none := by
  decide +kernel

theorem bind_congr_run' {α β : Type} (x : Ex α) (f g : α → Ex β) (s s' : St) (hs : s = s') (h : ∀ a s'', f a s'' = g a s'') :
    (x >>= f) s = (x >>= g) s' := by
  subst hs; exact bind_congr_run x f g s h

/-- the addressing switch of `Step()` (outlined by the translator as `Step_switch1`): for every mode it computes the model's
(addr, ea, pageCrossed); the effective address is compared modulo 2^24, which is all `Step` uses of it (`ea &= 0x00ffffff`) -/
theorem Step_switch1_norm : ∀ (mode : AMode),
    (Gen.CpuGo.Alt.Step_switch1 mode false 0 0 0 0 >>= fun r => pure (r.1, r.2.1, r.2.2 % 16777216)) =
      (Cpu.addressing mode >>= fun r => pure (r.2.2, r.1, r.2.1 % 16777216))
  | .Absolute => sw_Absolute
  | .Absolute_X => sw_Absolute_X
  | .Absolute_Y => sw_Absolute_Y
  | .Accumulator => sw_Accumulator
  | .Immediate => sw_Immediate
  | .Immediate_flagM => sw_Immediate_flagM
  | .Immediate_flagX => sw_Immediate_flagX
  | .Implied => sw_Implied
  | .DP => sw_DP
  | .DP_X => sw_DP_X
  | .DP_Y => sw_DP_Y
  | .DP_X_Indirect => sw_DP_X_Indirect
  | .DP_Indirect => sw_DP_Indirect
  | .DP_Indirect_Long => sw_DP_Indirect_Long
  | .DP_Indirect_Y => sw_DP_Indirect_Y
  | .DP_Indirect_Long_Y => sw_DP_Indirect_Long_Y
  | .Absolute_X_Indirect => sw_Absolute_X_Indirect
  | .Absolute_Indirect => sw_Absolute_Indirect
  | .Absolute_Indirect_Long => sw_Absolute_Indirect_Long
  | .Absolute_Long => sw_Absolute_Long
  | .Absolute_Long_X => sw_Absolute_Long_X
  | .BlockMove => sw_BlockMove
  | .PC_Relative => sw_PC_Relative
  | .PC_Relative_Long => sw_PC_Relative_Long
  | .Stack_Relative => sw_Stack_Relative
  | .Stack_Relative_Indirect_Y => sw_Stack_Relative_Indirect_Y
  | .Unknown => sw_Unknown

/-- stepping over the addressing switch: the continuations are compared on results that agree up to the 24-bit reduction of ea -/
theorem switch_step {β : Type} (mode : AMode) (f : Bool × U16 × Nat → Ex β) (g : U16 × Nat × Bool → Ex β) (s : St)
    (h : ∀ (p : Bool) (a : U16) (e1 e2 : Nat) (s' : St), e1 % 16777216 = e2 % 16777216 → f (p, a, e1) s' = g (a, e2, p) s') :
    (Gen.CpuGo.Alt.Step_switch1 mode false 0 0 0 0 >>= f) s = (Cpu.addressing mode >>= g) s := by
  have hn := congrFun (Step_switch1_norm mode) s
  rw [bind_eq', bind_eq'] at hn
  rw [bind_eq', bind_eq']
  cases h1 : Gen.CpuGo.Alt.Step_switch1 mode false 0 0 0 0 s with
  | none =>
    rw [h1] at hn
    cases h2 : Cpu.addressing mode s with
    | none => rfl
    | some q => rw [h2] at hn; cases hn
  | some q1 =>
    rw [h1] at hn
    cases h2 : Cpu.addressing mode s with
    | none => rw [h2] at hn; cases hn
    | some q2 =>
      rw [h2] at hn
      obtain ⟨⟨p1, a1, e1⟩, s1⟩ := q1
      obtain ⟨⟨a2, e2, p2⟩, s2⟩ := q2
      have hh := Option.some.inj hn
      have hs : s1 = s2 := (Prod.mk.inj hh).2
      have hv := (Prod.mk.inj hh).1
      have hp : p1 = p2 := (Prod.mk.inj hv).1
      have ha : a1 = a2 := (Prod.mk.inj (Prod.mk.inj hv).2).1
      have he : e1 % 16777216 = e2 % 16777216 := (Prod.mk.inj (Prod.mk.inj hv).2).2
      subst hs; subst hp; subst ha
      exact h p1 a1 e1 e2 s1 he

/-- **`Step()` as translated from emulator/cpualt/cpu.go is the model's `stepFull`** followed by reading Go's result pair
`(int(cpu.Cycles), cpu.Stopped)` — for every value of the interrupt latch, every register state and every memory -/
theorem Step_eq (latch : Nat) :
    Gen.CpuGo.Alt.Step (semOf .alt) (adjOf .alt) latch =
      (do Cpu.stepFull .alt latch; let c ← Cpu.get; pure (c.Cycles.toNat, c.Stopped)) := by
  funext s
  simp only [Gen.CpuGo.Alt.Step, gotie_a, Cpu.stepFull, Cpu.service, Cpu.latchNMI, Cpu.latchIRQ, Cpu.step, Cpu.stepWith,
    Cpu.decodeStage, bind_assoc, beq_iff_eq]
  apply bind_congr_run; intro _ s1
  simp only [modify_bind, get_bind]
  with_reducible apply read_step _ (isRead_nRead _ _); intro opb
  simp only [modify_bind, get_bind, Cpu.pure_bind]
  have hne : (semOf Variant.alt opb).proc ≠ .none := alt_proc_ne opb.toNat opb.isLt
  generalize hrow : semOf Variant.alt opb = row at hne
  generalize hadj : adjOf Variant.alt opb = t
  obtain ⟨proc, mode, size, cycles⟩ := row
  apply switch_step; intro p a e1 e2 s2 he
  simp only [modify_bind, get_bind, Cpu.pure_bind, bind_assoc, bind_pure_unit, callProc_eq proc hne]
  apply bind_congr_run'
  · simp only [adjustRegs, adjCycles, and_mask24, he]
    all_goals (rcases Bool.eq_false_or_eq_true s2.r.M with hM | hM <;> rcases Bool.eq_false_or_eq_true s2.r.X with hX | hX <;>
      cases p <;> simp [hM, hX])
    all_goals (first | rfl | (split <;> simp_all))
  · intro _ s3
    simp only [modify_bind, get_bind, Cpu.pure_bind, bind_assoc, finishRegs, ite_run, pure_run]
    all_goals ((try split) <;> (try simp_all))

end Cpu.GoTie.Alt
