/-
Tie, flag layer, cpualt: Flags / SetFlags / ChangeRegisterSizes_* / setZN* / compare* / addBranchCycles.
-/
import SnesVerif.Cpu.GoTie.HelpAlt
namespace Cpu.GoTie.Alt
open Cpu Cpu.GoPrim Cpu.GoTie
set_option maxRecDepth 100000
set_option linter.unusedSimpArgs false

@[gotie_a] theorem Flags_eq : Gen.CpuGo.Alt.Flags = (do let c ← Cpu.get; pure (flagsByte c)) := by
  funext s
  simp [Gen.CpuGo.Alt.Flags, flagsByte]

@[gotie_a] theorem setZN8_eq (v : U8) : Gen.CpuGo.Alt.setZN8 v = Cpu.modify (Cpu.setZN8 v) := by
  funext s
  gosym [Gen.CpuGo.Alt.setZN8, Gen.CpuGo.Alt.setZ8, Gen.CpuGo.Alt.setN8, Cpu.setZN8, bit7_ne, bit7_eq]


@[gotie_a] theorem setZN16_eq (v : U16) : Gen.CpuGo.Alt.setZN16 v = Cpu.modify (Cpu.setZN16 v) := by
  funext s
  gosym [Gen.CpuGo.Alt.setZN16, Gen.CpuGo.Alt.setZ16, Gen.CpuGo.Alt.setN16, Cpu.setZN16]

@[gotie_a] theorem setZ8_eq (v : U8) : Gen.CpuGo.Alt.setZ8 v = Cpu.modify (Cpu.setZ8 v) := by
  funext s
  gosym [Gen.CpuGo.Alt.setZ8, Cpu.setZ8]

@[gotie_a] theorem setZ16_eq (v : U16) : Gen.CpuGo.Alt.setZ16 v = Cpu.modify (Cpu.setZ16 v) := by
  funext s
  gosym [Gen.CpuGo.Alt.setZ16, Cpu.setZ16]

@[gotie_a] theorem setN8_eq (v : U8) : Gen.CpuGo.Alt.setN8 v = Cpu.modify (fun c => { c with N := v.getLsbD 7 }) := by
  funext s
  gosym [Gen.CpuGo.Alt.setN8]

@[gotie_a] theorem setN16_eq (v : U16) : Gen.CpuGo.Alt.setN16 v = Cpu.modify (fun c => { c with N := v.getLsbD 15 }) := by
  funext s
  gosym [Gen.CpuGo.Alt.setN16]

@[gotie_a] theorem compare8_eq (a b : U8) : Gen.CpuGo.Alt.compare8 a b = Cpu.modify (Cpu.compare8 a b) := by
  funext s
  simp only [Gen.CpuGo.Alt.compare8, setZN8_eq]
  gosym [Cpu.compare8, Cpu.setZN8]

@[gotie_a] theorem compare16_eq (a b : U16) : Gen.CpuGo.Alt.compare16 a b = Cpu.modify (Cpu.compare16 a b) := by
  funext s
  simp only [Gen.CpuGo.Alt.compare16, setZN16_eq]
  gosym [Cpu.compare16, Cpu.setZN16]

@[gotie_a] theorem addBranchCycles_eq : Gen.CpuGo.Alt.addBranchCycles = Cpu.modify Cpu.addBranchCycles := by
  funext s
  gosym [Gen.CpuGo.Alt.addBranchCycles, Cpu.addBranchCycles, pagesDiffer_eq]

@[gotie_a] theorem SetFlags_eq (f : U8) : Gen.CpuGo.Alt.SetFlags f = Cpu.modify (Cpu.setFlags f) := by
  funext s
  obtain ⟨⟨PC, SP, RA, RX, RY, RD, RAh, RAl, RXl, RYl, RDBR, RK, N, V, M, X, D, I, Z, C, B, E, Cycles, AllCycles, Stopped, WDM,
    PPC, PRK, stepPC, EA, Addr, Mode⟩, m⟩ := s
  have e0 : f >>> 0 = f := by simp
  cases E <;> cases X <;> cases M <;> cases h4 : f[4] <;> cases h5 : f[5] <;>
    simp [Gen.CpuGo.Alt.SetFlags, Gen.CpuGo.Alt.ChangeRegisterSizes_X, Gen.CpuGo.Alt.ChangeRegisterSizes_M,
      bind_assoc, bind_pure_unit, ite_bind, ite_run, Cpu.setFlags, tb, h4, h5, bit, lo8_shr8, mk16_go, flagOf_shr, flagOf_and1, e0]

end Cpu.GoTie.Alt
