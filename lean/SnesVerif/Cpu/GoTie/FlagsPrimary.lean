/-
Tie, flag layer, cpu65c816: Flags / SetFlags / ChangeRegisterSizes_* / setZN* / compare* / addBranchCycles.
-/
import SnesVerif.Cpu.GoTie.HelpPrimary
namespace Cpu.GoTie.Primary
open Cpu Cpu.GoPrim Cpu.GoTie
set_option maxRecDepth 100000
set_option linter.unusedSimpArgs false

@[gotie_p] theorem Flags_eq : Gen.CpuGo.Primary.Flags = (do let c ← Cpu.get; pure (flagsByte c)) := by
  funext s
  simp [Gen.CpuGo.Primary.Flags, flagsByte]

@[gotie_p] theorem setZN8_eq (v : U8) : Gen.CpuGo.Primary.setZN8 v = Cpu.modify (Cpu.setZN8 v) := by
  funext s
  gosym [Gen.CpuGo.Primary.setZN8, Gen.CpuGo.Primary.setZ8, Gen.CpuGo.Primary.setN8, Cpu.setZN8, bit7_ne, bit7_eq]


@[gotie_p] theorem setZN16_eq (v : U16) : Gen.CpuGo.Primary.setZN16 v = Cpu.modify (Cpu.setZN16 v) := by
  funext s
  gosym [Gen.CpuGo.Primary.setZN16, Gen.CpuGo.Primary.setZ16, Gen.CpuGo.Primary.setN16, Cpu.setZN16]

@[gotie_p] theorem setZ8_eq (v : U8) : Gen.CpuGo.Primary.setZ8 v = Cpu.modify (Cpu.setZ8 v) := by
  funext s
  gosym [Gen.CpuGo.Primary.setZ8, Cpu.setZ8]

@[gotie_p] theorem setZ16_eq (v : U16) : Gen.CpuGo.Primary.setZ16 v = Cpu.modify (Cpu.setZ16 v) := by
  funext s
  gosym [Gen.CpuGo.Primary.setZ16, Cpu.setZ16]

@[gotie_p] theorem setN8_eq (v : U8) : Gen.CpuGo.Primary.setN8 v = Cpu.modify (fun c => { c with N := v.getLsbD 7 }) := by
  funext s
  gosym [Gen.CpuGo.Primary.setN8]

@[gotie_p] theorem setN16_eq (v : U16) : Gen.CpuGo.Primary.setN16 v = Cpu.modify (fun c => { c with N := v.getLsbD 15 }) := by
  funext s
  gosym [Gen.CpuGo.Primary.setN16]

@[gotie_p] theorem compare8_eq (a b : U8) : Gen.CpuGo.Primary.compare8 a b = Cpu.modify (Cpu.compare8 a b) := by
  funext s
  simp only [Gen.CpuGo.Primary.compare8, setZN8_eq]
  gosym [Cpu.compare8, Cpu.setZN8]

@[gotie_p] theorem compare16_eq (a b : U16) : Gen.CpuGo.Primary.compare16 a b = Cpu.modify (Cpu.compare16 a b) := by
  funext s
  simp only [Gen.CpuGo.Primary.compare16, setZN16_eq]
  gosym [Cpu.compare16, Cpu.setZN16]

@[gotie_p] theorem addBranchCycles_eq : Gen.CpuGo.Primary.addBranchCycles = Cpu.modify Cpu.addBranchCycles := by
  funext s
  gosym [Gen.CpuGo.Primary.addBranchCycles, Cpu.addBranchCycles, pagesDiffer_eq]

@[gotie_p] theorem SetFlags_eq (f : U8) : Gen.CpuGo.Primary.SetFlags f = Cpu.modify (Cpu.setFlags f) := by
  funext s
  obtain ⟨⟨PC, SP, RA, RX, RY, RD, RAh, RAl, RXl, RYl, RDBR, RK, N, V, M, X, D, I, Z, C, B, E, Cycles, AllCycles, Stopped, WDM,
    PPC, PRK, stepPC, EA, Addr, Mode⟩, m⟩ := s
  have e0 : f >>> 0 = f := by simp
  cases E <;> cases X <;> cases M <;> cases h4 : f[4] <;> cases h5 : f[5] <;>
    simp [Gen.CpuGo.Primary.SetFlags, Gen.CpuGo.Primary.ChangeRegisterSizes_X, Gen.CpuGo.Primary.ChangeRegisterSizes_M,
      bind_assoc, bind_pure_unit, ite_bind, ite_run, Cpu.setFlags, tb, h4, h5, bit, lo8_shr8, mk16_go, flagOf_shr, flagOf_and1, e0]

end Cpu.GoTie.Primary
