/-
Tie, top layer, cpu65c816: the routine dispatcher, nmi / irq / Reset, and `Step()` itself — the regenerated `Step` (fetch, table
lookup, the 26-way addressing switch, cycle adjustment, dispatch, PC / cycle bookkeeping, result pair) equals the model's
`stepFull` followed by reading (Cycles, Stopped).
-/
import SnesVerif.Cpu.GoTie.OpsPrimary1
import SnesVerif.Cpu.GoTie.OpsPrimary2
import SnesVerif.Cpu.GoTie.OpsPrimary3
import SnesVerif.Cpu.GoTie.OpsPrimary4
import SnesVerif.Cpu.GoTie.AdcPrimary
import SnesVerif.Cpu.InterruptModel
namespace Cpu.GoTie.Primary
open Cpu Cpu.GoPrim Cpu.GoTie
set_option maxRecDepth 100000
set_option linter.unusedSimpArgs false

/-- `instructions[opcode].proc(cpu)` runs the model's routine (every routine the table can name) -/
theorem callProc_eq : ∀ (p : Proc), p ≠ .none → Gen.CpuGo.Primary.callProc p = Cpu.runP p
  | .adc, _ => op_adc_eq
  | .sbc, _ => op_sbc_eq
  | .and, _ => op_and_eq
  | .ora, _ => op_ora_eq
  | .eor, _ => op_eor_eq
  | .asl, _ => op_asl_eq
  | .lsr, _ => op_lsr_eq
  | .rol, _ => op_rol_eq
  | .ror, _ => op_ror_eq
  | .inc, _ => op_inc_eq
  | .dec, _ => op_dec_eq
  | .bcc, _ => op_bcc_eq
  | .bcs, _ => op_bcs_eq
  | .beq, _ => op_beq_eq
  | .bne, _ => op_bne_eq
  | .bmi, _ => op_bmi_eq
  | .bpl, _ => op_bpl_eq
  | .bvc, _ => op_bvc_eq
  | .bvs, _ => op_bvs_eq
  | .bra, _ => op_bra_eq
  | .brl, _ => op_brl_eq
  | .bit, _ => op_bit_eq
  | .brk, _ => op_brk_eq
  | .cop, _ => op_cop_eq
  | .clc, _ => op_clc_eq
  | .cld, _ => op_cld_eq
  | .cli, _ => op_cli_eq
  | .clv, _ => op_clv_eq
  | .sec, _ => op_sec_eq
  | .sed, _ => op_sed_eq
  | .sei, _ => op_sei_eq
  | .cmp, _ => op_cmp_eq
  | .cpx, _ => op_cpx_eq
  | .cpy, _ => op_cpy_eq
  | .dex, _ => op_dex_eq
  | .dey, _ => op_dey_eq
  | .inx, _ => op_inx_eq
  | .iny, _ => op_iny_eq
  | .jmp, _ => op_jmp_eq
  | .jsl, _ => op_jsl_eq
  | .jsr, _ => op_jsr_eq
  | .lda, _ => op_lda_eq
  | .ldx, _ => op_ldx_eq
  | .ldy, _ => op_ldy_eq
  | .nop, _ => op_nop_eq
  | .pha, _ => op_pha_eq
  | .php, _ => op_php_eq
  | .phx, _ => op_phx_eq
  | .phy, _ => op_phy_eq
  | .pla, _ => op_pla_eq
  | .plp, _ => op_plp_eq
  | .plx, _ => op_plx_eq
  | .ply, _ => op_ply_eq
  | .rti, _ => op_rti_eq
  | .rtl, _ => op_rtl_eq
  | .rts, _ => op_rts_eq
  | .sta, _ => op_sta_eq
  | .stx, _ => op_stx_eq
  | .sty, _ => op_sty_eq
  | .stz, _ => op_stz_eq
  | .tax, _ => op_tax_eq
  | .tay, _ => op_tay_eq
  | .tsx, _ => op_tsx_eq
  | .txa, _ => op_txa_eq
  | .tya, _ => op_tya_eq
  | .txs, _ => op_txs_eq
  | .txy, _ => op_txy_eq
  | .tyx, _ => op_tyx_eq
  | .mvn, _ => op_mvn_eq
  | .mvp, _ => op_mvp_eq
  | .phb, _ => op_phb_eq
  | .phd, _ => op_phd_eq
  | .phk, _ => op_phk_eq
  | .pea, _ => op_pea_eq
  | .per, _ => op_per_eq
  | .pld, _ => op_pld_eq
  | .plb, _ => op_plb_eq
  | .rep, _ => op_rep_eq
  | .sep, _ => op_sep_eq
  | .stp, _ => op_stp_eq
  | .tcd, _ => op_tcd_eq
  | .tcs, _ => op_tcs_eq
  | .tdc, _ => op_tdc_eq
  | .tsc, _ => op_tsc_eq
  | .trb, _ => op_trb_eq
  | .tsb, _ => op_tsb_eq
  | .wdm, _ => op_wdm_eq
  | .xba, _ => op_xba_eq
  | .xce, _ => op_xce_eq
  | .none, h => absurd rfl h

@[gotie_p] theorem nmi_eq : Gen.CpuGo.Primary.nmi = Cpu.nmi := by
  funext s
  simp only [Gen.CpuGo.Primary.nmi, Gen.CpuGo.Primary.op_php, Cpu.nmi, gotie_p]
  gorun []

@[gotie_p] theorem irq_eq : Gen.CpuGo.Primary.irq = Cpu.irq := by
  funext s
  simp only [Gen.CpuGo.Primary.irq, Cpu.irq, gotie_p]
  gorun []

theorem Reset_eq : Gen.CpuGo.Primary.Reset = Cpu.reset := by
  funext s
  simp only [Gen.CpuGo.Primary.Reset, Cpu.reset, gotie_p]
  gorun []

end Cpu.GoTie.Primary
