/-
Tie for ADC / SBC: the Go routines compute in uint16 (8-bit accumulator) and uint32 (16-bit accumulator); the model's
`adcCore8` / `adcCore16` compute over `Nat`.  `goAdc8` / `goAdc16` spell the Go computation (same conditions, same order);
the bridge lemmas relate them to the model's cores for every operand, carry and decimal flag.
-/
import SnesVerif.Cpu.GoTie.Sym
import SnesVerif.Base.Bits
namespace Cpu.GoTie
open Cpu Cpu.GoPrim
set_option maxRecDepth 100000

/-- the uint16 computation of `op_adc` / `op_sbc` with M=1: (sum, C, V) -/
def goAdc8 (ral t : U8) (cf df : Bool) : U16 × Bool × Bool :=
  let a := zx ral
  let d := zx t
  let sum := (a + d) + zx (bit cf)
  let sum := if df then
      (let s := if decide ((sum &&& (0xF : U16)).toNat > (9 : U16).toNat) then sum + (6 : U16) else sum
       if decide ((s &&& (0xF0 : U16)).toNat > (0x90 : U16).toNat) then s + (0x60 : U16) else s)
    else sum
  (sum, decide (sum.toNat > (0xFF : U16).toNat), ((((a ^^^ d) &&& (0x80 : U16)) == (0 : U16)) && (((a ^^^ sum) &&& (0x80 : U16)) != (0 : U16))))

theorem u16_beq_zero (x : U16) : (x == (0 : U16)) = decide (x.toNat = 0) := by
  rw [Bool.eq_iff_iff]; simp only [beq_iff_eq, decide_eq_true_eq]
  constructor
  · intro h; rw [h]; rfl
  · intro h; exact BitVec.eq_of_toNat_eq h
theorem u16_bne_zero (x : U16) : (x != (0 : U16)) = decide (x.toNat ≠ 0) := by
  unfold bne; rw [u16_beq_zero]; simp

theorem goAdc8_core (ral t : U8) (cf df : Bool) :
    let g := goAdc8 ral t cf df
    let r := adcCore8 ral.toNat t.toNat cf df
    lo8 g.1 = BitVec.ofNat 8 r.1 ∧ g.2.1 = r.2.1 ∧ g.2.2 = r.2.2 := by
  have hr := ral.isLt; have ht := t.isLt
  have hb : b2n cf ≤ 1 := by cases cf <;> decide
  -- the uint16 sum never overflows: it equals the model's natural-number sum
  have n0 : ((zx ral + zx t) + zx (bit cf)).toNat = ral.toNat + t.toNat + b2n cf := by
    rw [BitVec.toNat_add, BitVec.toNat_add, zx_toNat, zx_toNat, zx_toNat]
    have : (bit cf).toNat = b2n cf := by cases cf <;> rfl
    rw [this]; omega
  generalize hs0 : (zx ral + zx t) + zx (bit cf) = sum0 at n0
  generalize hn : ral.toNat + t.toNat + b2n cf = n at n0
  have hnlt : n < 513 := by omega
  have m15 : ∀ x : U16, (x &&& (0xF : U16)).toNat = x.toNat % 16 := by
    intro x; rw [BitVec.toNat_and]; exact Bits.and_low_mask x.toNat 4
  have m240 : ∀ x : U16, (x &&& (0xF0 : U16)).toNat = x.toNat % 256 / 16 * 16 := by
    intro x; rw [BitVec.toNat_and]
    have := Bits.and_run x.toNat 4 4
    have e : ((0xF0 : U16)).toNat = (2 ^ 4 - 1) * 2 ^ 4 := by decide
    rw [e, this]; omega
  have add6 : ∀ x : U16, x.toNat < 1000 → (x + (6 : U16)).toNat = x.toNat + 6 := by
    intro x h; rw [BitVec.toNat_add]; show (x.toNat + 6) % 65536 = _; omega
  have add60 : ∀ x : U16, x.toNat < 1000 → (x + (0x60 : U16)).toNat = x.toNat + 0x60 := by
    intro x h; rw [BitVec.toNat_add]; show (x.toNat + 96) % 65536 = _; omega
  -- the decimal adjustment, as a statement about toNat
  have key : ∀ (sumG : U16) (sumN : Nat), sumG.toNat = sumN →
      lo8 sumG = BitVec.ofNat 8 (sumN % 256) ∧ decide (sumG.toNat > (0xFF : U16).toNat) = decide (sumN > 0xFF) ∧
      ((((zx ral ^^^ zx t) &&& (0x80 : U16)) == (0 : U16)) && (((zx ral ^^^ sumG) &&& (0x80 : U16)) != (0 : U16))) =
        decide (((ral.toNat ^^^ t.toNat) &&& 0x80 = 0) ∧ ((ral.toNat ^^^ sumN) &&& 0x80 ≠ 0)) := by
    intro sumG sumN h
    refine ⟨?_, ?_, ?_⟩
    · apply BitVec.eq_of_toNat_eq; rw [lo8_toNat, h, BitVec.toNat_ofNat]; omega
    · rw [h]; rfl
    · rw [u16_beq_zero, u16_bne_zero, BitVec.toNat_and, BitVec.toNat_and, BitVec.toNat_xor, BitVec.toNat_xor, zx_toNat, zx_toNat, h]
      show (decide _ && decide _) = _
      simp only [Bool.decide_and]
      rfl
  unfold goAdc8 adcCore8
  simp only [hs0, hn]
  cases df
  · simp only [Bool.false_eq_true, if_false]
    exact key sum0 n n0
  · simp only [if_true]
    -- first nibble
    by_cases c1 : n % 16 > 9
    · have g1 : decide ((sum0 &&& (0xF : U16)).toNat > (9 : U16).toNat) = true := by
        rw [m15, n0]; exact decide_eq_true c1
      simp only [g1, if_true, c1]
      have n1 : (sum0 + (6 : U16)).toNat = n + 6 := by rw [add6 _ (by omega), n0]
      by_cases c2 : (n + 6) % 256 / 16 * 16 > 0x90
      · have g2 : decide (((sum0 + (6 : U16)) &&& (0xF0 : U16)).toNat > (0x90 : U16).toNat) = true := by
          rw [m240, n1]; exact decide_eq_true c2
        simp only [g2, if_true, c2]
        exact key _ _ (by rw [add60 _ (by omega), n1])
      · have g2 : decide (((sum0 + (6 : U16)) &&& (0xF0 : U16)).toNat > (0x90 : U16).toNat) = false := by
          rw [m240, n1]; exact decide_eq_false c2
        simp only [g2, Bool.false_eq_true, if_false, c2]
        exact key _ _ n1
    · have g1 : decide ((sum0 &&& (0xF : U16)).toNat > (9 : U16).toNat) = false := by
        rw [m15, n0]; exact decide_eq_false c1
      simp only [g1, Bool.false_eq_true, if_false, c1]
      by_cases c2 : n % 256 / 16 * 16 > 0x90
      · have g2 : decide ((sum0 &&& (0xF0 : U16)).toNat > (0x90 : U16).toNat) = true := by
          rw [m240, n0]; exact decide_eq_true c2
        simp only [g2, if_true, c2]
        exact key _ _ (by rw [add60 _ (by omega), n0])
      · have g2 : decide ((sum0 &&& (0xF0 : U16)).toNat > (0x90 : U16).toNat) = false := by
          rw [m240, n0]; exact decide_eq_false c2
        simp only [g2, Bool.false_eq_true, if_false, c2]
        exact key _ _ n0


/-- the uint32 computation of `op_adc` / `op_sbc` with M=0: (sum, C, V) -/
def goAdc16 (ra t : U16) (cf df : Bool) : Nat × Bool × Bool :=
  let a := ra.toNat
  let d := t.toNat
  let sum := (((a + d) % 4294967296) + (bit cf).toNat) % 4294967296
  let sum := if df then
      (let s1 := if decide ((sum &&& 0xF) > 9) then (sum + 6) % 4294967296 else sum
       let s2 := if decide ((s1 &&& 0xF0) > 0x90) then (s1 + 0x60) % 4294967296 else s1
       let s3 := if decide ((s2 &&& 0xF00) > 0x900) then (s2 + 0x600) % 4294967296 else s2
       if decide ((s3 &&& 0xF000) > 0x9000) then (s3 + 0x6000) % 4294967296 else s3)
    else sum
  (sum, decide (sum > 0xFFFF), ((((a ^^^ d) &&& 0x8000) == 0) && (((a ^^^ sum) &&& 0x8000) != 0)))

theorem adj_step (x m lim k : Nat) (hx : x + k < 4294967296) :
    (if decide ((x &&& m) > lim) then (x + k) % 4294967296 else x) = (if (x &&& m) > lim then x + k else x) ∧
    (if (x &&& m) > lim then x + k else x) ≤ x + k := by
  by_cases h : (x &&& m) > lim
  · simp only [h, decide_true, if_true]; exact ⟨Nat.mod_eq_of_lt hx, Nat.le_refl _⟩
  · simp only [h, decide_false, Bool.false_eq_true, if_false]; exact ⟨by simp, Nat.le_add_right _ _⟩

theorem goAdc16_core (ra t : U16) (cf df : Bool) :
    let g := goAdc16 ra t cf df
    let r := adcCore16 ra.toNat t.toNat cf df
    BitVec.ofNat 16 g.1 = BitVec.ofNat 16 r.1 ∧ g.2.1 = r.2.1 ∧ g.2.2 = r.2.2 := by
  have hr := ra.isLt; have ht := t.isLt
  have hb : (bit cf).toNat = b2n cf := by cases cf <;> rfl
  have hb1 : b2n cf ≤ 1 := by cases cf <;> decide
  have e0 : (((ra.toNat + t.toNat) % 4294967296) + (bit cf).toNat) % 4294967296 = ra.toNat + t.toNat + b2n cf := by
    rw [hb]; omega
  have nbeq : ∀ x : Nat, (x == 0) = decide (x = 0) := by
    intro x; by_cases h : x = 0
    · rw [h]; rfl
    · rw [decide_eq_false h]; exact beq_eq_false_iff_ne.mpr h
  have key : ∀ (s : Nat), BitVec.ofNat 16 s = BitVec.ofNat 16 (s % 65536) ∧
      ((((ra.toNat ^^^ t.toNat) &&& 0x8000) == 0) && (((ra.toNat ^^^ s) &&& 0x8000) != 0)) =
        decide (((ra.toNat ^^^ t.toNat) &&& 0x8000 = 0) ∧ ((ra.toNat ^^^ s) &&& 0x8000 ≠ 0)) := by
    intro s
    refine ⟨?_, ?_⟩
    · apply BitVec.eq_of_toNat_eq; simp [BitVec.toNat_ofNat]
    · unfold bne; rw [nbeq, nbeq]; simp [Bool.decide_and]
  unfold goAdc16 adcCore16
  simp only [e0]
  generalize hn : ra.toNat + t.toNat + b2n cf = n
  have hnlt : n < 131073 := by omega
  cases df
  · simp only [Bool.false_eq_true, if_false]; exact ⟨(key n).1, by simp, (key n).2⟩
  · simp only [if_true]
    obtain ⟨e1, b1⟩ := adj_step n 0xF 9 6 (by omega)
    rw [e1]
    generalize (if (n &&& 0xF) > 9 then n + 6 else n) = s1 at b1 ⊢
    obtain ⟨e2, b2⟩ := adj_step s1 0xF0 0x90 0x60 (by omega)
    rw [e2]
    generalize (if (s1 &&& 0xF0) > 0x90 then s1 + 0x60 else s1) = s2 at b2 ⊢
    obtain ⟨e3, b3⟩ := adj_step s2 0xF00 0x900 0x600 (by omega)
    rw [e3]
    generalize (if (s2 &&& 0xF00) > 0x900 then s2 + 0x600 else s2) = s3 at b3 ⊢
    obtain ⟨e4, b4⟩ := adj_step s3 0xF000 0x9000 0x6000 (by omega)
    rw [e4]
    exact ⟨(key _).1, by simp, (key _).2⟩


theorem ite_flagOf (b : Bool) : (if b = true then flagOf (1 : U8) else flagOf (0 : U8)) = b := by cases b <;> decide

/-- the model's ADC / SBC routine restated over the Go-shaped computations -/
def adcLikeGo (neg : Bool) : Ex Unit := do
  let c ← Cpu.get
  if c.M then
    let v ← Cpu.cmdRead
    let g := goAdc8 c.RAl (if neg then ~~~v else v) c.C c.D
    Cpu.modify fun c => Cpu.setZN8 (lo8 g.1) { c with C := g.2.1, V := g.2.2, RAl := lo8 g.1 }
  else
    let v ← Cpu.cmdRead16
    let g := goAdc16 c.RA (if neg then ~~~v else v) c.C c.D
    Cpu.modify fun c => Cpu.setZN16 (BitVec.ofNat 16 g.1) { c with C := g.2.1, V := g.2.2, RA := BitVec.ofNat 16 g.1 }

theorem adcLike_go (neg : Bool) : Cpu.op_adcLike neg = adcLikeGo neg := by
  funext s
  simp only [Cpu.op_adcLike, adcLikeGo, get_bind]
  split
  · apply bind_congr_run; intro v s'
    have h := goAdc8_core s.r.RAl (if neg then ~~~v else v) s.r.C s.r.D
    have e : (if neg = true then (~~~v).toNat else v.toNat) = (if neg = true then ~~~v else v).toNat := by cases neg <;> rfl
    simp only [e]
    obtain ⟨h1, h2, h3⟩ := h
    simp only [h1, h2, h3]
  · apply bind_congr_run; intro v s'
    have h := goAdc16_core s.r.RA (if neg then ~~~v else v) s.r.C s.r.D
    have e : (if neg = true then (~~~v).toNat else v.toNat) = (if neg = true then ~~~v else v).toNat := by cases neg <;> rfl
    simp only [e]
    obtain ⟨h1, h2, h3⟩ := h
    simp only [h1, h2, h3]

end Cpu.GoTie
