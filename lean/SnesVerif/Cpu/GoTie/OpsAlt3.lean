/-
Tie, routine layer, cpualt (part 3 of 4): every regenerated `op_*` equals the model's routine `Cpu.runP`.
Written by tools/mkgotie.py (one proof script for all routines).
-/
import SnesVerif.Cpu.GoTie.FlagsAlt
namespace Cpu.GoTie.Alt
open Cpu Cpu.GoPrim Cpu.GoTie
set_option maxRecDepth 100000
set_option linter.unusedSimpArgs false

theorem op_php_eq : Gen.CpuGo.Alt.op_php = Cpu.runP .php := by
  funext s
  simp only [Gen.CpuGo.Alt.op_php, Cpu.runP, Cpu.logic, Cpu.rmw, Cpu.branchIf, Cpu.blockMove, Cpu.interruptLike,
    Cpu.interruptBody, Cpu.rtiBody, gotie_a]
  gorun [shr16, Cpu.setZN8, Cpu.setZN16, Cpu.setZ8, Cpu.setZ16, Cpu.toIndex, Cpu.toAcc, Cpu.srcC, Cpu.srcX, Cpu.srcY, Cpu.compare8,
    Cpu.compare16, Cpu.addBranchCycles]

theorem op_phx_eq : Gen.CpuGo.Alt.op_phx = Cpu.runP .phx := by
  funext s
  simp only [Gen.CpuGo.Alt.op_phx, Cpu.runP, Cpu.logic, Cpu.rmw, Cpu.branchIf, Cpu.blockMove, Cpu.interruptLike,
    Cpu.interruptBody, Cpu.rtiBody, gotie_a]
  gorun [shr16, Cpu.setZN8, Cpu.setZN16, Cpu.setZ8, Cpu.setZ16, Cpu.toIndex, Cpu.toAcc, Cpu.srcC, Cpu.srcX, Cpu.srcY, Cpu.compare8,
    Cpu.compare16, Cpu.addBranchCycles]

theorem op_phy_eq : Gen.CpuGo.Alt.op_phy = Cpu.runP .phy := by
  funext s
  simp only [Gen.CpuGo.Alt.op_phy, Cpu.runP, Cpu.logic, Cpu.rmw, Cpu.branchIf, Cpu.blockMove, Cpu.interruptLike,
    Cpu.interruptBody, Cpu.rtiBody, gotie_a]
  gorun [shr16, Cpu.setZN8, Cpu.setZN16, Cpu.setZ8, Cpu.setZ16, Cpu.toIndex, Cpu.toAcc, Cpu.srcC, Cpu.srcX, Cpu.srcY, Cpu.compare8,
    Cpu.compare16, Cpu.addBranchCycles]

theorem op_pla_eq : Gen.CpuGo.Alt.op_pla = Cpu.runP .pla := by
  funext s
  simp only [Gen.CpuGo.Alt.op_pla, Cpu.runP, Cpu.logic, Cpu.rmw, Cpu.branchIf, Cpu.blockMove, Cpu.interruptLike,
    Cpu.interruptBody, Cpu.rtiBody, gotie_a]
  gorun [shr16, Cpu.setZN8, Cpu.setZN16, Cpu.setZ8, Cpu.setZ16, Cpu.toIndex, Cpu.toAcc, Cpu.srcC, Cpu.srcX, Cpu.srcY, Cpu.compare8,
    Cpu.compare16, Cpu.addBranchCycles]

theorem op_plp_eq : Gen.CpuGo.Alt.op_plp = Cpu.runP .plp := by
  funext s
  simp only [Gen.CpuGo.Alt.op_plp, Cpu.runP, Cpu.logic, Cpu.rmw, Cpu.branchIf, Cpu.blockMove, Cpu.interruptLike,
    Cpu.interruptBody, Cpu.rtiBody, gotie_a]
  gorun [shr16, Cpu.setZN8, Cpu.setZN16, Cpu.setZ8, Cpu.setZ16, Cpu.toIndex, Cpu.toAcc, Cpu.srcC, Cpu.srcX, Cpu.srcY, Cpu.compare8,
    Cpu.compare16, Cpu.addBranchCycles]

theorem op_plx_eq : Gen.CpuGo.Alt.op_plx = Cpu.runP .plx := by
  funext s
  simp only [Gen.CpuGo.Alt.op_plx, Cpu.runP, Cpu.logic, Cpu.rmw, Cpu.branchIf, Cpu.blockMove, Cpu.interruptLike,
    Cpu.interruptBody, Cpu.rtiBody, gotie_a]
  gorun [shr16, Cpu.setZN8, Cpu.setZN16, Cpu.setZ8, Cpu.setZ16, Cpu.toIndex, Cpu.toAcc, Cpu.srcC, Cpu.srcX, Cpu.srcY, Cpu.compare8,
    Cpu.compare16, Cpu.addBranchCycles]

theorem op_ply_eq : Gen.CpuGo.Alt.op_ply = Cpu.runP .ply := by
  funext s
  simp only [Gen.CpuGo.Alt.op_ply, Cpu.runP, Cpu.logic, Cpu.rmw, Cpu.branchIf, Cpu.blockMove, Cpu.interruptLike,
    Cpu.interruptBody, Cpu.rtiBody, gotie_a]
  gorun [shr16, Cpu.setZN8, Cpu.setZN16, Cpu.setZ8, Cpu.setZ16, Cpu.toIndex, Cpu.toAcc, Cpu.srcC, Cpu.srcX, Cpu.srcY, Cpu.compare8,
    Cpu.compare16, Cpu.addBranchCycles]

theorem op_rti_eq : Gen.CpuGo.Alt.op_rti = Cpu.runP .rti := by
  funext s
  simp only [Gen.CpuGo.Alt.op_rti, Cpu.runP, Cpu.logic, Cpu.rmw, Cpu.branchIf, Cpu.blockMove, Cpu.interruptLike,
    Cpu.interruptBody, Cpu.rtiBody, gotie_a]
  gorun [shr16, Cpu.setZN8, Cpu.setZN16, Cpu.setZ8, Cpu.setZ16, Cpu.toIndex, Cpu.toAcc, Cpu.srcC, Cpu.srcX, Cpu.srcY, Cpu.compare8,
    Cpu.compare16, Cpu.addBranchCycles]

theorem op_rtl_eq : Gen.CpuGo.Alt.op_rtl = Cpu.runP .rtl := by
  funext s
  simp only [Gen.CpuGo.Alt.op_rtl, Cpu.runP, Cpu.logic, Cpu.rmw, Cpu.branchIf, Cpu.blockMove, Cpu.interruptLike,
    Cpu.interruptBody, Cpu.rtiBody, gotie_a]
  gorun [shr16, Cpu.setZN8, Cpu.setZN16, Cpu.setZ8, Cpu.setZ16, Cpu.toIndex, Cpu.toAcc, Cpu.srcC, Cpu.srcX, Cpu.srcY, Cpu.compare8,
    Cpu.compare16, Cpu.addBranchCycles]

theorem op_rts_eq : Gen.CpuGo.Alt.op_rts = Cpu.runP .rts := by
  funext s
  simp only [Gen.CpuGo.Alt.op_rts, Cpu.runP, Cpu.logic, Cpu.rmw, Cpu.branchIf, Cpu.blockMove, Cpu.interruptLike,
    Cpu.interruptBody, Cpu.rtiBody, gotie_a]
  gorun [shr16, Cpu.setZN8, Cpu.setZN16, Cpu.setZ8, Cpu.setZ16, Cpu.toIndex, Cpu.toAcc, Cpu.srcC, Cpu.srcX, Cpu.srcY, Cpu.compare8,
    Cpu.compare16, Cpu.addBranchCycles]

theorem op_sta_eq : Gen.CpuGo.Alt.op_sta = Cpu.runP .sta := by
  funext s
  simp only [Gen.CpuGo.Alt.op_sta, Cpu.runP, Cpu.logic, Cpu.rmw, Cpu.branchIf, Cpu.blockMove, Cpu.interruptLike,
    Cpu.interruptBody, Cpu.rtiBody, gotie_a]
  gorun [shr16, Cpu.setZN8, Cpu.setZN16, Cpu.setZ8, Cpu.setZ16, Cpu.toIndex, Cpu.toAcc, Cpu.srcC, Cpu.srcX, Cpu.srcY, Cpu.compare8,
    Cpu.compare16, Cpu.addBranchCycles]

theorem op_stx_eq : Gen.CpuGo.Alt.op_stx = Cpu.runP .stx := by
  funext s
  simp only [Gen.CpuGo.Alt.op_stx, Cpu.runP, Cpu.logic, Cpu.rmw, Cpu.branchIf, Cpu.blockMove, Cpu.interruptLike,
    Cpu.interruptBody, Cpu.rtiBody, gotie_a]
  gorun [shr16, Cpu.setZN8, Cpu.setZN16, Cpu.setZ8, Cpu.setZ16, Cpu.toIndex, Cpu.toAcc, Cpu.srcC, Cpu.srcX, Cpu.srcY, Cpu.compare8,
    Cpu.compare16, Cpu.addBranchCycles]

theorem op_sty_eq : Gen.CpuGo.Alt.op_sty = Cpu.runP .sty := by
  funext s
  simp only [Gen.CpuGo.Alt.op_sty, Cpu.runP, Cpu.logic, Cpu.rmw, Cpu.branchIf, Cpu.blockMove, Cpu.interruptLike,
    Cpu.interruptBody, Cpu.rtiBody, gotie_a]
  gorun [shr16, Cpu.setZN8, Cpu.setZN16, Cpu.setZ8, Cpu.setZ16, Cpu.toIndex, Cpu.toAcc, Cpu.srcC, Cpu.srcX, Cpu.srcY, Cpu.compare8,
    Cpu.compare16, Cpu.addBranchCycles]

theorem op_stz_eq : Gen.CpuGo.Alt.op_stz = Cpu.runP .stz := by
  funext s
  simp only [Gen.CpuGo.Alt.op_stz, Cpu.runP, Cpu.logic, Cpu.rmw, Cpu.branchIf, Cpu.blockMove, Cpu.interruptLike,
    Cpu.interruptBody, Cpu.rtiBody, gotie_a]
  gorun [shr16, Cpu.setZN8, Cpu.setZN16, Cpu.setZ8, Cpu.setZ16, Cpu.toIndex, Cpu.toAcc, Cpu.srcC, Cpu.srcX, Cpu.srcY, Cpu.compare8,
    Cpu.compare16, Cpu.addBranchCycles]

theorem op_tax_eq : Gen.CpuGo.Alt.op_tax = Cpu.runP .tax := by
  funext s
  simp only [Gen.CpuGo.Alt.op_tax, Cpu.runP, Cpu.logic, Cpu.rmw, Cpu.branchIf, Cpu.blockMove, Cpu.interruptLike,
    Cpu.interruptBody, Cpu.rtiBody, gotie_a]
  gorun [shr16, Cpu.setZN8, Cpu.setZN16, Cpu.setZ8, Cpu.setZ16, Cpu.toIndex, Cpu.toAcc, Cpu.srcC, Cpu.srcX, Cpu.srcY, Cpu.compare8,
    Cpu.compare16, Cpu.addBranchCycles]

theorem op_tay_eq : Gen.CpuGo.Alt.op_tay = Cpu.runP .tay := by
  funext s
  simp only [Gen.CpuGo.Alt.op_tay, Cpu.runP, Cpu.logic, Cpu.rmw, Cpu.branchIf, Cpu.blockMove, Cpu.interruptLike,
    Cpu.interruptBody, Cpu.rtiBody, gotie_a]
  gorun [shr16, Cpu.setZN8, Cpu.setZN16, Cpu.setZ8, Cpu.setZ16, Cpu.toIndex, Cpu.toAcc, Cpu.srcC, Cpu.srcX, Cpu.srcY, Cpu.compare8,
    Cpu.compare16, Cpu.addBranchCycles]

theorem op_tsx_eq : Gen.CpuGo.Alt.op_tsx = Cpu.runP .tsx := by
  funext s
  simp only [Gen.CpuGo.Alt.op_tsx, Cpu.runP, Cpu.logic, Cpu.rmw, Cpu.branchIf, Cpu.blockMove, Cpu.interruptLike,
    Cpu.interruptBody, Cpu.rtiBody, gotie_a]
  gorun [shr16, Cpu.setZN8, Cpu.setZN16, Cpu.setZ8, Cpu.setZ16, Cpu.toIndex, Cpu.toAcc, Cpu.srcC, Cpu.srcX, Cpu.srcY, Cpu.compare8,
    Cpu.compare16, Cpu.addBranchCycles]

theorem op_txa_eq : Gen.CpuGo.Alt.op_txa = Cpu.runP .txa := by
  funext s
  simp only [Gen.CpuGo.Alt.op_txa, Cpu.runP, Cpu.logic, Cpu.rmw, Cpu.branchIf, Cpu.blockMove, Cpu.interruptLike,
    Cpu.interruptBody, Cpu.rtiBody, gotie_a]
  gorun [shr16, Cpu.setZN8, Cpu.setZN16, Cpu.setZ8, Cpu.setZ16, Cpu.toIndex, Cpu.toAcc, Cpu.srcC, Cpu.srcX, Cpu.srcY, Cpu.compare8,
    Cpu.compare16, Cpu.addBranchCycles]

theorem op_tya_eq : Gen.CpuGo.Alt.op_tya = Cpu.runP .tya := by
  funext s
  simp only [Gen.CpuGo.Alt.op_tya, Cpu.runP, Cpu.logic, Cpu.rmw, Cpu.branchIf, Cpu.blockMove, Cpu.interruptLike,
    Cpu.interruptBody, Cpu.rtiBody, gotie_a]
  gorun [shr16, Cpu.setZN8, Cpu.setZN16, Cpu.setZ8, Cpu.setZ16, Cpu.toIndex, Cpu.toAcc, Cpu.srcC, Cpu.srcX, Cpu.srcY, Cpu.compare8,
    Cpu.compare16, Cpu.addBranchCycles]

theorem op_txs_eq : Gen.CpuGo.Alt.op_txs = Cpu.runP .txs := by
  funext s
  simp only [Gen.CpuGo.Alt.op_txs, Cpu.runP, Cpu.logic, Cpu.rmw, Cpu.branchIf, Cpu.blockMove, Cpu.interruptLike,
    Cpu.interruptBody, Cpu.rtiBody, gotie_a]
  gorun [shr16, Cpu.setZN8, Cpu.setZN16, Cpu.setZ8, Cpu.setZ16, Cpu.toIndex, Cpu.toAcc, Cpu.srcC, Cpu.srcX, Cpu.srcY, Cpu.compare8,
    Cpu.compare16, Cpu.addBranchCycles]

theorem op_txy_eq : Gen.CpuGo.Alt.op_txy = Cpu.runP .txy := by
  funext s
  simp only [Gen.CpuGo.Alt.op_txy, Cpu.runP, Cpu.logic, Cpu.rmw, Cpu.branchIf, Cpu.blockMove, Cpu.interruptLike,
    Cpu.interruptBody, Cpu.rtiBody, gotie_a]
  gorun [shr16, Cpu.setZN8, Cpu.setZN16, Cpu.setZ8, Cpu.setZ16, Cpu.toIndex, Cpu.toAcc, Cpu.srcC, Cpu.srcX, Cpu.srcY, Cpu.compare8,
    Cpu.compare16, Cpu.addBranchCycles]

theorem op_tyx_eq : Gen.CpuGo.Alt.op_tyx = Cpu.runP .tyx := by
  funext s
  simp only [Gen.CpuGo.Alt.op_tyx, Cpu.runP, Cpu.logic, Cpu.rmw, Cpu.branchIf, Cpu.blockMove, Cpu.interruptLike,
    Cpu.interruptBody, Cpu.rtiBody, gotie_a]
  gorun [shr16, Cpu.setZN8, Cpu.setZN16, Cpu.setZ8, Cpu.setZ16, Cpu.toIndex, Cpu.toAcc, Cpu.srcC, Cpu.srcX, Cpu.srcY, Cpu.compare8,
    Cpu.compare16, Cpu.addBranchCycles]

end Cpu.GoTie.Alt
