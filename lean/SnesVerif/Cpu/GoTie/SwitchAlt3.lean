/-
Tie, addressing switch of Step(), cpualt (part 3 of 3): for each addressing mode the outlined switch
`Step_switch1` computes the model's (addr, ea, pageCrossed); ea is compared modulo 2^24, which is all `Step` uses of it.
Written by tools/mkgotie.py.
-/
import SnesVerif.Cpu.GoTie.FlagsAlt
namespace Cpu.GoTie.Alt
open Cpu Cpu.GoPrim Cpu.GoTie
set_option maxRecDepth 100000
set_option linter.unusedSimpArgs false

theorem sw_Absolute_Indirect_Long :
    (Gen.CpuGo.Alt.Step_switch1 .Absolute_Indirect_Long false 0 0 0 0 >>= fun r => pure (r.1, r.2.1, r.2.2 % 16777216)) =
      (Cpu.addressing .Absolute_Indirect_Long >>= fun r => pure (r.2.2, r.1, r.2.1 % 16777216)) := by
  funext s
  simp only [Gen.CpuGo.Alt.Step_switch1, Cpu.addressing, gotie_a]
  gorun [srcX, srcY, lin_go, zx_toNat, and_mask24, mod32_24, lin_mod32]

theorem sw_Absolute_Long :
    (Gen.CpuGo.Alt.Step_switch1 .Absolute_Long false 0 0 0 0 >>= fun r => pure (r.1, r.2.1, r.2.2 % 16777216)) =
      (Cpu.addressing .Absolute_Long >>= fun r => pure (r.2.2, r.1, r.2.1 % 16777216)) := by
  funext s
  simp only [Gen.CpuGo.Alt.Step_switch1, Cpu.addressing, gotie_a]
  gorun [srcX, srcY, lin_go, zx_toNat, and_mask24, mod32_24, lin_mod32]

theorem sw_Absolute_Long_X :
    (Gen.CpuGo.Alt.Step_switch1 .Absolute_Long_X false 0 0 0 0 >>= fun r => pure (r.1, r.2.1, r.2.2 % 16777216)) =
      (Cpu.addressing .Absolute_Long_X >>= fun r => pure (r.2.2, r.1, r.2.1 % 16777216)) := by
  funext s
  simp only [Gen.CpuGo.Alt.Step_switch1, Cpu.addressing, gotie_a]
  gorun [srcX, srcY, lin_go, zx_toNat, and_mask24, mod32_24, lin_mod32]

theorem sw_BlockMove :
    (Gen.CpuGo.Alt.Step_switch1 .BlockMove false 0 0 0 0 >>= fun r => pure (r.1, r.2.1, r.2.2 % 16777216)) =
      (Cpu.addressing .BlockMove >>= fun r => pure (r.2.2, r.1, r.2.1 % 16777216)) := by
  funext s
  simp only [Gen.CpuGo.Alt.Step_switch1, Cpu.addressing, gotie_a]
  gorun [srcX, srcY, lin_go, zx_toNat, and_mask24, mod32_24, lin_mod32]

theorem sw_PC_Relative :
    (Gen.CpuGo.Alt.Step_switch1 .PC_Relative false 0 0 0 0 >>= fun r => pure (r.1, r.2.1, r.2.2 % 16777216)) =
      (Cpu.addressing .PC_Relative >>= fun r => pure (r.2.2, r.1, r.2.1 % 16777216)) := by
  funext s
  simp only [Gen.CpuGo.Alt.Step_switch1, Cpu.addressing, gotie_a]
  gorun [srcX, srcY, lin_go, zx_toNat, and_mask24, mod32_24, lin_mod32]

theorem sw_PC_Relative_Long :
    (Gen.CpuGo.Alt.Step_switch1 .PC_Relative_Long false 0 0 0 0 >>= fun r => pure (r.1, r.2.1, r.2.2 % 16777216)) =
      (Cpu.addressing .PC_Relative_Long >>= fun r => pure (r.2.2, r.1, r.2.1 % 16777216)) := by
  funext s
  simp only [Gen.CpuGo.Alt.Step_switch1, Cpu.addressing, gotie_a]
  gorun [srcX, srcY, lin_go, zx_toNat, and_mask24, mod32_24, lin_mod32]

theorem sw_Stack_Relative :
    (Gen.CpuGo.Alt.Step_switch1 .Stack_Relative false 0 0 0 0 >>= fun r => pure (r.1, r.2.1, r.2.2 % 16777216)) =
      (Cpu.addressing .Stack_Relative >>= fun r => pure (r.2.2, r.1, r.2.1 % 16777216)) := by
  funext s
  simp only [Gen.CpuGo.Alt.Step_switch1, Cpu.addressing, gotie_a]
  gorun [srcX, srcY, lin_go, zx_toNat, and_mask24, mod32_24, lin_mod32]

theorem sw_Stack_Relative_Indirect_Y :
    (Gen.CpuGo.Alt.Step_switch1 .Stack_Relative_Indirect_Y false 0 0 0 0 >>= fun r => pure (r.1, r.2.1, r.2.2 % 16777216)) =
      (Cpu.addressing .Stack_Relative_Indirect_Y >>= fun r => pure (r.2.2, r.1, r.2.1 % 16777216)) := by
  funext s
  simp only [Gen.CpuGo.Alt.Step_switch1, Cpu.addressing, gotie_a]
  gorun [srcX, srcY, lin_go, zx_toNat, and_mask24, mod32_24, lin_mod32]

theorem sw_Unknown :
    (Gen.CpuGo.Alt.Step_switch1 .Unknown false 0 0 0 0 >>= fun r => pure (r.1, r.2.1, r.2.2 % 16777216)) =
      (Cpu.addressing .Unknown >>= fun r => pure (r.2.2, r.1, r.2.1 % 16777216)) := by
  funext s
  simp only [Gen.CpuGo.Alt.Step_switch1, Cpu.addressing, gotie_a]
  gorun [srcX, srcY, lin_go, zx_toNat, and_mask24, mod32_24, lin_mod32]

end Cpu.GoTie.Alt
