/-
Symbolic execution for the tie between the regenerated interpreters (Gen/CpuGo*.lean) and the hand-written model
(Cpu/Impl.lean): unconditional rewrite rules for the bus primitives, the vocabulary bridges between the Go
spelling of an expression and the model's, and the tactic `gosym` that runs both sides of an equation of `Ex`
programs to nested `if`s over `some` / `none` and compares them.
-/
import SnesVerif.Cpu.Refine.Sym
import SnesVerif.Cpu.GoPrim
import SnesVerif.Cpu.GoTie.Attr
namespace Cpu.GoTie
open Cpu Cpu.GoPrim
set_option maxRecDepth 100000

theorem eaRead_bind' {β : Type} (a : Nat) (f : U8 → Ex β) (s : St) :
    (eaRead a >>= f) s = if a < 16777216 then f (s.m.f a) s else none := by
  by_cases h : a < 16777216 <;> simp [bind_eq', eaRead, h]
theorem eaRead_run' (a : Nat) (s : St) : eaRead a s = if a < 16777216 then some (s.m.f a, s) else none := rfl
theorem eaWrite_bind' {β : Type} (a : Nat) (v : U8) (f : Unit → Ex β) (s : St) :
    (eaWrite a v >>= f) s =
      if a < 16777216 then f () { s with m := ⟨fun x => if x = a then v else s.m.f x, a :: s.m.wlog⟩ } else none := by
  by_cases h : a < 16777216 <;> simp [bind_eq', eaWrite, h]
theorem eaWrite_run' (a : Nat) (v : U8) (s : St) :
    eaWrite a v s = if a < 16777216 then some ((), { s with m := ⟨fun x => if x = a then v else s.m.f x, a :: s.m.wlog⟩ }) else none := rfl

theorem bind_pure_unit (x : Ex Unit) : (x >>= fun _ => (pure () : Ex Unit)) = x := by
  funext s; rw [bind_eq']; cases h : x s with
  | none => rfl
  | some p => cases p; rfl
theorem bind_pure' {α : Type} (x : Ex α) : (x >>= fun a => (pure a : Ex α)) = x := by
  funext s; rw [bind_eq']; cases h : x s with
  | none => rfl
  | some p => cases p; rfl

@[simp] theorem flagOf_zero : flagOf 0#8 = false := by decide
@[simp] theorem flagOf_one : flagOf 1#8 = true := by decide
@[simp] theorem flagOf_zero' : flagOf (0 : U8) = false := by decide
@[simp] theorem flagOf_one' : flagOf (1 : U8) = true := by decide
@[simp] theorem flagOf_bit (b : Bool) : flagOf (bit b) = b := by cases b <;> decide

theorem bit7_ne (v : U8) : ((v &&& 128#8) != 0#8) = v.getLsbD 7 := by revert v; decide
theorem bit7_eq (v : U8) : (v &&& 128#8 = 0#8) = (v.getLsbD 7 = false) := by revert v; decide
theorem bit15_and (v : U16) : v &&& 0x8000#16 = if v.getLsbD 15 then 0x8000#16 else 0#16 := by
  have h : (0x8000#16) = BitVec.twoPow 16 15 := by decide
  rw [h, BitVec.and_twoPow]
theorem bit15_ne (v : U16) : ((v &&& 0x8000#16) != 0#16) = v.getLsbD 15 := by
  rw [bit15_and]; cases v.getLsbD 15 <;> decide
theorem bit15_eq (v : U16) : (v &&& 0x8000#16 = 0#16) = (v.getLsbD 15 = false) := by
  rw [bit15_and]; cases v.getLsbD 15 <;> simp

@[simp] theorem bit_eq_one (b : Bool) : (bit b = 1#8) = (b = true) := by cases b <;> decide
@[simp] theorem bit_eq_zero (b : Bool) : (bit b = 0#8) = (b = false) := by cases b <;> decide
@[simp] theorem bit_beq_one (b : Bool) : (bit b == 1#8) = b := by cases b <;> decide
@[simp] theorem bit_beq_zero (b : Bool) : (bit b == 0#8) = !b := by cases b <;> decide
@[simp] theorem bit_inj (a b : Bool) : (bit a = bit b) = (a = b) := by cases a <;> cases b <;> decide
theorem bit6_ne (v : U8) : ((v &&& 64#8) != 0#8) = v.getLsbD 6 := by revert v; decide
theorem bit6_eq (v : U8) : (v &&& 64#8 = 0#8) = (v.getLsbD 6 = false) := by revert v; decide
theorem bit14_and (v : U16) : v &&& 0x4000#16 = if v.getLsbD 14 then 0x4000#16 else 0#16 := by
  have h : (0x4000#16) = BitVec.twoPow 16 14 := by decide
  rw [h, BitVec.and_twoPow]
theorem bit14_ne (v : U16) : ((v &&& 0x4000#16) != 0#16) = v.getLsbD 14 := by
  rw [bit14_and]; cases v.getLsbD 14 <;> decide
theorem bit14_eq (v : U16) : (v &&& 0x4000#16 = 0#16) = (v.getLsbD 14 = false) := by
  rw [bit14_and]; cases v.getLsbD 14 <;> simp
theorem flagOf_shr (f : U8) (i : Nat) : flagOf ((f >>> i) &&& 1#8) = f.getLsbD i := by
  unfold flagOf
  have h : ((f >>> i) &&& 1#8) = if f.getLsbD i then 1#8 else 0#8 := by
    have := BitVec.and_twoPow (f >>> i) 0
    simp only [BitVec.getLsbD_ushiftRight, Nat.add_zero] at this
    exact this
  rw [h]; cases f.getLsbD i <;> decide
theorem flagOf_and1 (f : U8) : flagOf (f &&& 1#8) = f.getLsbD 0 := by
  have := flagOf_shr f 0; simpa using this
theorem flagOf_lo8_shr15 (w : U16) : flagOf (lo8 (w >>> 15) &&& 1#8) = w.getLsbD 15 := by
  unfold flagOf lo8
  rw [Bool.eq_iff_iff]; simp only [bne_iff_ne, ne_eq]
  have h : ((w >>> 15).setWidth 8 &&& 1#8) = if w.getLsbD 15 then 1#8 else 0#8 := by
    have := BitVec.and_twoPow ((w >>> 15).setWidth 8) 0
    simp only [BitVec.getLsbD_setWidth, BitVec.getLsbD_ushiftRight, Nat.add_zero] at this
    rw [show (1#8) = BitVec.twoPow 8 0 from by decide]
    simpa using this
  rw [h]; cases w.getLsbD 15 <;> decide
theorem flagOf_lo8_and1 (w : U16) : flagOf (lo8 (w &&& 1#16)) = w.getLsbD 0 := by
  unfold flagOf lo8
  have h : (w &&& 1#16) = if w.getLsbD 0 then 1#16 else 0#16 := by
    have := BitVec.and_twoPow w 0
    rw [show (1#16) = BitVec.twoPow 16 0 from by decide]
    simpa using this
  rw [h]; cases w.getLsbD 0 <;> decide

/-- `uint32(bank)<<16 | uint32(addr)` -/
theorem lin_go (b : U8) (a : U16) : ((b.toNat <<< 0x10) % 4294967296) ||| a.toNat = lin b a := by
  have hb := b.isLt; have ha := a.isLt
  unfold lin
  rw [Nat.shiftLeft_eq, Nat.mod_eq_of_lt (by omega)]
  rw [show b.toNat * 2 ^ 0x10 = b.toNat <<< 16 from (Nat.shiftLeft_eq _ _).symm]
  rw [← Nat.shiftLeft_add_eq_or_of_lt (by omega : a.toNat < 2 ^ 16), Nat.shiftLeft_eq]

/-- `uint32(hh)<<16 | uint32(mm)<<8 | uint32(ll)` -/
theorem le24_go (h m l : U8) :
    (((h.toNat <<< 0x10) % 4294967296) ||| ((m.toNat <<< 8) % 4294967296)) ||| l.toNat = h.toNat * 65536 + m.toNat * 256 + l.toNat := by
  have hh := h.isLt; have hm := m.isLt; have hl := l.isLt
  have e1 : (h.toNat <<< 0x10) % 4294967296 = (h.toNat <<< 8) <<< 8 := by
    rw [Nat.shiftLeft_eq, Nat.shiftLeft_eq, Nat.shiftLeft_eq, Nat.mod_eq_of_lt (by omega)]; omega
  have e2 : (m.toNat <<< 8) % 4294967296 = m.toNat <<< 8 := by
    rw [Nat.shiftLeft_eq, Nat.mod_eq_of_lt (by omega)]
  rw [e1, e2, ← Nat.shiftLeft_or_distrib, ← Nat.shiftLeft_add_eq_or_of_lt (by omega : m.toNat < 2 ^ 8),
    ← Nat.shiftLeft_add_eq_or_of_lt (by omega : l.toNat < 2 ^ 8), Nat.shiftLeft_eq, Nat.shiftLeft_eq]
  omega

/-- `uint16(hh)<<8 | uint16(ll)` -/
theorem mk16_go (h l : U8) : ((zx h) <<< 8) ||| (zx l) = mk16 h l := rfl

theorem lo8_and_ff (v : U16) : lo8 (v &&& (0xFF : U16)) = lo8 v := by
  apply BitVec.eq_of_toNat_eq
  rw [lo8_toNat, lo8_toNat, BitVec.toNat_and]
  show (v.toNat &&& 255) % 256 = v.toNat % 256
  rw [show (255 : Nat) = 2 ^ 8 - 1 from rfl, Nat.and_two_pow_sub_one_eq_mod]; omega

theorem lo8_shr8 (w : U16) : lo8 (w >>> 8) = hi8 w := rfl

theorem shr16 (n : Nat) : n >>> 16 = n / 65536 := by rw [Nat.shiftRight_eq_div_pow]

theorem and_mask24 (x : Nat) : x &&& 0xFFFFFF = x % 16777216 := by
  rw [show (0xFFFFFF : Nat) = 2 ^ 24 - 1 from rfl, Nat.and_two_pow_sub_one_eq_mod]

theorem mod32_24 (x : Nat) : x % 4294967296 % 16777216 = x % 16777216 := by omega
theorem lin_mod32 (b : U8) (a : U16) : lin b a % 4294967296 = lin b a := by
  have := lin_lt b a; omega

theorem lin_succ_mod (b : U8) (a : U16) : ((lin b a + 1) % 4294967296) % 16777216 = (lin b a + 1) % 16777216 := by
  have := lin_lt b a; omega

end Cpu.GoTie

namespace Cpu.GoTie
open Cpu Cpu.GoPrim

theorem flagOf_shr7 (f : U8) : flagOf (f >>> 7) = f.getLsbD 7 := by revert f; decide
theorem flagOf_lo8_shr15_raw (w : U16) : flagOf (lo8 (w >>> 15)) = w.getLsbD 15 := by
  have h := flagOf_lo8_shr15 w
  have e : lo8 (w >>> 15) &&& 1#8 = lo8 (w >>> 15) := by
    apply BitVec.eq_of_getLsbD_eq; intro i hi
    simp only [BitVec.getLsbD_and]
    by_cases h0 : i = 0
    · subst h0; simp
    · have : (lo8 (w >>> 15)).getLsbD i = false := by
        unfold lo8; simp only [BitVec.getLsbD_setWidth, BitVec.getLsbD_ushiftRight]
        have : w.getLsbD (15 + i) = false := BitVec.getLsbD_of_ge _ _ (by omega)
        simp [this]
      simp [this]
  rw [e] at h; exact h
theorem flagOf_shr' (f : U8) (i : Nat) : flagOf ((f >>> i) &&& (1 : U8)) = f.getLsbD i := flagOf_shr f i
theorem flagOf_and1' (f : U8) : flagOf (f &&& (1 : U8)) = f.getLsbD 0 := flagOf_and1 f
theorem flagOf_lo8_shr15' (w : U16) : flagOf (lo8 (w >>> 15) &&& (1 : U8)) = w.getLsbD 15 := flagOf_lo8_shr15 w
theorem flagOf_lo8_and1' (w : U16) : flagOf (lo8 (w &&& (1 : U16))) = w.getLsbD 0 := flagOf_lo8_and1 w

theorem lo8_shr15_bit0 (w : U16) : (lo8 (w >>> 15))[0] = w[15] := by
  unfold lo8; simp [BitVec.getElem_setWidth, BitVec.getElem_ushiftRight]
theorem lo8_and1_bit0 (w : U16) : (lo8 (w &&& 1#16))[0] = w[0] := by
  unfold lo8; simp [BitVec.getElem_setWidth]

/-- run both sides: unfold the given definitions, execute the monad by rewriting, split every remaining `if` / `match`,
close the leaves with `simp` -/
macro "gosym" "[" ls:Lean.Parser.Tactic.simpLemma,* "]" : tactic => `(tactic|
  (simp only [bind_assoc, bind_pure_unit, bind_pure', ite_bind, ite_run, modify_bind, get_bind, Cpu.pure_bind, modify_run, pure_run, get_run,
      eaRead_bind', eaRead_run', eaWrite_bind', eaWrite_run', Cpu.nRead, Cpu.nWrite, rdEA, wrEA, lin_go, mk16_go, $ls,*]
   repeat' split
   all_goals (try simp_all [bit7_eq, bit15_eq, bit7_ne, bit15_ne, bit6_eq, bit6_ne, bit14_eq, bit14_ne, flagOf_shr, flagOf_and1, flagOf_lo8_shr15, flagOf_lo8_and1, flagOf_shr7, flagOf_lo8_shr15_raw, lo8_shr15_bit0, lo8_and1_bit0, $ls,*])
   all_goals (try (with_reducible rfl))))

end Cpu.GoTie

namespace Cpu.GoTie
open Cpu Cpu.GoPrim

theorem bind_congr_run {α β : Type} (x : Ex α) (f g : α → Ex β) (s : St) (h : ∀ a s', f a s' = g a s') :
    (x >>= f) s = (x >>= g) s := by
  rw [bind_eq', bind_eq']; cases x s with
  | none => rfl
  | some p => exact h p.1 p.2

end Cpu.GoTie

namespace Cpu.GoTie
open Cpu Cpu.GoPrim

/-- a computation that only reads: it fails or returns a value and leaves the state as it was -/
def IsRead {α : Type} (x : Ex α) : Prop := ∀ s, x s = none ∨ ∃ v, x s = some (v, s)

theorem isRead_pure {α : Type} (a : α) : IsRead (pure a : Ex α) := fun s => Or.inr ⟨a, rfl⟩
theorem isRead_get : IsRead Cpu.get := fun s => Or.inr ⟨s.r, rfl⟩
theorem isRead_bind {α β : Type} (x : Ex α) (f : α → Ex β) (hx : IsRead x) (hf : ∀ a, IsRead (f a)) : IsRead (x >>= f) := by
  intro s
  rw [bind_eq']
  rcases hx s with h | ⟨v, h⟩
  · left; rw [h]
  · rw [h]; exact hf v s
theorem isRead_eaRead (a : Nat) : IsRead (eaRead a) := by
  intro s; unfold eaRead; split
  · exact Or.inr ⟨_, rfl⟩
  · exact Or.inl rfl
theorem isRead_nRead (b : U8) (a : U16) : IsRead (Cpu.nRead b a) := isRead_eaRead _
theorem isRead_nRead16_wrap (b : U8) (a : U16) : IsRead (Cpu.nRead16_wrap b a) :=
  isRead_bind _ _ (isRead_eaRead _) fun _ => isRead_bind _ _ (isRead_eaRead _) fun _ => isRead_pure _
theorem isRead_nRead16_cross (b : U8) (a : U16) : IsRead (Cpu.nRead16_cross b a) :=
  isRead_bind _ _ (isRead_eaRead _) fun _ => isRead_bind _ _ (isRead_eaRead _) fun _ => isRead_pure _
theorem isRead_nRead24_wrap (b : U8) (a : U16) : IsRead (Cpu.nRead24_wrap b a) :=
  isRead_bind _ _ (isRead_eaRead _) fun _ => isRead_bind _ _ (isRead_eaRead _) fun _ =>
    isRead_bind _ _ (isRead_eaRead _) fun _ => isRead_pure _
theorem isRead_rdEA : IsRead rdEA := fun s => isRead_eaRead _ s
theorem isRead_rdEA16 : IsRead rdEA16 := fun s =>
  (isRead_bind _ _ (isRead_eaRead s.r.EA) fun _ => isRead_bind _ _ (isRead_eaRead _) fun _ => isRead_pure _) s
theorem isRead_cmdRead : IsRead Cpu.cmdRead := by
  unfold Cpu.cmdRead
  apply isRead_bind _ _ isRead_get; intro c
  cases c.Mode <;> dsimp only <;> first | with_reducible exact isRead_pure _ | with_reducible exact isRead_nRead _ _ | with_reducible exact isRead_eaRead _ | with_reducible exact isRead_rdEA
theorem isRead_cmdRead16 : IsRead Cpu.cmdRead16 := by
  unfold Cpu.cmdRead16
  apply isRead_bind _ _ isRead_get; intro c
  cases c.Mode <;> dsimp only <;> first | with_reducible exact isRead_pure _ | with_reducible exact isRead_nRead16_wrap _ _ | with_reducible exact isRead_nRead16_cross _ _ | with_reducible exact isRead_rdEA16

theorem rdEA_bind {β : Type} (f : U8 → Ex β) (s : St) : (rdEA >>= f) s = (eaRead s.r.EA >>= f) s := rfl
theorem rdEA_run (s : St) : rdEA s = eaRead s.r.EA s := rfl

/-- stepping over a read that both sides make from the same state: the continuation runs from that same state -/
theorem read_step {α β : Type} (x : Ex α) (hx : IsRead x) (f g : α → Ex β) (s : St) (h : ∀ a, f a s = g a s) :
    (x >>= f) s = (x >>= g) s := by
  rw [bind_eq', bind_eq']
  rcases hx s with e | ⟨v, e⟩ <;> rw [e]
  exact h v

end Cpu.GoTie

namespace Cpu.GoTie
open Cpu Cpu.GoPrim

/-- a computation that changes no register except the stack pointer -/
def SPOnly {α : Type} (x : Ex α) : Prop := ∀ s a s', x s = some (a, s') → ∃ sp, s'.r = { s.r with SP := sp }

theorem spOnly_bind {α β : Type} (x : Ex α) (f : α → Ex β) (hx : SPOnly x) (hf : ∀ a, SPOnly (f a)) : SPOnly (x >>= f) := by
  intro s b s'' h
  rw [bind_eq'] at h
  cases e : x s with
  | none => rw [e] at h; cases h
  | some p =>
    rw [e] at h
    obtain ⟨sp, h1⟩ := hx s p.1 p.2 (by rw [e])
    obtain ⟨sp', h2⟩ := hf p.1 p.2 b s'' h
    exact ⟨sp', by rw [h2, h1]⟩
theorem spOnly_pure {α : Type} (a : α) : SPOnly (pure a : Ex α) := by
  intro s b s' h; cases h; exact ⟨s.r.SP, rfl⟩
theorem spOnly_intro {α : Type} {a b : α} {t s s' : St} (h : some (a, t) = some (b, s')) (ht : t.r = { s.r with SP := t.r.SP }) :
    ∃ sp, s'.r = { s.r with SP := sp } := by
  have h2 := (Prod.mk.inj (Option.some.inj h)).2
  rw [← h2]; exact ⟨_, ht⟩
theorem spOnly_push (v : U8) : SPOnly (Cpu.push v) := by
  intro s a s' h
  simp only [Cpu.push, Cpu.nWrite, get_bind, eaWrite_bind', modify_run] at h
  split at h
  · exact spOnly_intro h rfl
  · exact absurd h (by simp)
theorem spOnly_pull : SPOnly Cpu.pull := by
  intro s a s' h
  simp only [Cpu.pull, Cpu.nRead, modify_bind, get_bind, eaRead_run'] at h
  split at h <;> split at h
  · exact spOnly_intro h rfl
  · exact absurd h (by simp)
  · exact spOnly_intro h rfl
  · exact absurd h (by simp)
theorem spOnly_push16 (v : U16) : SPOnly (Cpu.push16 v) := spOnly_bind _ _ (spOnly_push _) fun _ => spOnly_push _
theorem spOnly_pull16 : SPOnly Cpu.pull16 :=
  spOnly_bind _ _ spOnly_pull fun _ => spOnly_bind _ _ spOnly_pull fun _ => spOnly_pure _

/-- stepping over a stack operation that both sides make from the same state -/
theorem sp_step {α β : Type} (x : Ex α) (hx : SPOnly x) (f g : α → Ex β) (s : St)
    (h : ∀ a s' sp, s'.r = { s.r with SP := sp } → f a s' = g a s') : (x >>= f) s = (x >>= g) s := by
  rw [bind_eq', bind_eq']
  cases e : x s with
  | none => rfl
  | some p =>
    obtain ⟨sp, h1⟩ := hx s p.1 p.2 (by rw [e])
    exact h p.1 p.2 sp h1

/-- compare two `Ex` programs applied to a state: execute `get` / `modify` / `pure` by rewriting, split conditionals, and step over
a call that both sides make from the same state (`bind_congr_run`) -/
macro "gorun" "[" ls:Lean.Parser.Tactic.simpLemma,* "]" : tactic => `(tactic|
  (repeat' (first
      | with_reducible rfl
      | simp only [↓reduceIte, if_true, if_false, rdEA_bind, rdEA_run, bind_assoc, bind_pure_unit, bind_pure', ite_bind, ite_run, modify_bind, get_bind, Cpu.pure_bind, modify_run,
          pure_run, get_run, flagOf_zero, flagOf_one, flagOf_zero', flagOf_one', flagOf_bit, flagOf_lo8_shr15, flagOf_lo8_and1, flagOf_shr, flagOf_lo8_shr15', flagOf_lo8_and1', flagOf_shr', flagOf_and1', mk16_go, lo8_shr8, lo8_and_ff, $ls,*]
      | split
      | (with_reducible apply read_step _ isRead_cmdRead; intro _)
      | (with_reducible apply read_step _ isRead_cmdRead16; intro _)
      | (with_reducible apply read_step _ (isRead_eaRead _); intro _)
      | (with_reducible apply read_step _ (isRead_nRead _ _); intro _)
      | (with_reducible apply read_step _ (isRead_nRead16_wrap _ _); intro _)
      | (with_reducible apply read_step _ (isRead_nRead16_cross _ _); intro _)
      | (with_reducible apply read_step _ (isRead_nRead24_wrap _ _); intro _)
      | (with_reducible apply sp_step _ (spOnly_push _); intro _ s' _ hsp; obtain ⟨r', m'⟩ := s'; dsimp only at hsp; subst hsp)
      | (with_reducible apply sp_step _ (spOnly_push16 _); intro _ s' _ hsp; obtain ⟨r', m'⟩ := s'; dsimp only at hsp; subst hsp)
      | (with_reducible apply sp_step _ spOnly_pull; intro _ s' _ hsp; obtain ⟨r', m'⟩ := s'; dsimp only at hsp; subst hsp)
      | (with_reducible apply sp_step _ spOnly_pull16; intro _ s' _ hsp; obtain ⟨r', m'⟩ := s'; dsimp only at hsp; subst hsp)
      | (with_reducible apply bind_congr_run; intro _ _))
   all_goals (try simp_all [bit7_eq, bit15_eq, bit7_ne, bit15_ne, bit6_eq, bit6_ne, bit14_eq, bit14_ne, flagOf_shr, flagOf_and1, flagOf_lo8_shr15, flagOf_lo8_and1, flagOf_shr7, flagOf_lo8_shr15_raw, lo8_shr15_bit0, lo8_and1_bit0, $ls,*])
   all_goals (try (with_reducible rfl))))

end Cpu.GoTie
