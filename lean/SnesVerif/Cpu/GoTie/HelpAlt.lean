/-
Tie, helper layer, cpualt: every regenerated bus helper of emulator/cpualt/bus.go and every stack / operand helper of
emulator/cpualt/cpu.go equals the model's.
-/
import SnesVerif.Cpu.GoTie.Sym
import SnesVerif.Gen.CpuGoAlt
namespace Cpu.GoTie.Alt
open Cpu Cpu.GoPrim Cpu.GoTie
set_option maxRecDepth 100000
set_option linter.unusedSimpArgs false

theorem succ_mod24 (x : Nat) : ((x + 1) % 4294967296) % 16777216 = (x + 1) % 16777216 := by omega

@[gotie_a] theorem pagesDiffer_eq (a b : U16) : Gen.CpuGo.Alt.pagesDiffer a b = Cpu.pagesDiffer a b := rfl

@[gotie_a] theorem Bus_EaRead_eq (a : Nat) : Gen.CpuGo.Alt.Bus_EaRead a = Cpu.eaRead a := by
  funext s
  gosym [Gen.CpuGo.Alt.Bus_EaRead]

@[gotie_a] theorem Bus_EaWrite_eq (a : Nat) (v : U8) : Gen.CpuGo.Alt.Bus_EaWrite a v = Cpu.eaWrite a v := by
  funext s
  gosym [Gen.CpuGo.Alt.Bus_EaWrite]

@[gotie_a] theorem Bus_nRead_eq (b : U8) (a : U16) : Gen.CpuGo.Alt.Bus_nRead b a = Cpu.nRead b a := by
  funext s
  gosym [Gen.CpuGo.Alt.Bus_nRead]

@[gotie_a] theorem Bus_nWrite_eq (b : U8) (a : U16) (v : U8) : Gen.CpuGo.Alt.Bus_nWrite b a v = Cpu.nWrite b a v := by
  funext s
  gosym [Gen.CpuGo.Alt.Bus_nWrite]

@[gotie_a] theorem Bus_nRead16_wrap_eq (b : U8) (a : U16) : Gen.CpuGo.Alt.Bus_nRead16_wrap b a = Cpu.nRead16_wrap b a := by
  funext s
  gosym [Gen.CpuGo.Alt.Bus_nRead16_wrap, Cpu.nRead16_wrap]

@[gotie_a] theorem Bus_nRead16_cross_eq (b : U8) (a : U16) : Gen.CpuGo.Alt.Bus_nRead16_cross b a = Cpu.nRead16_cross b a := by
  funext s
  gosym [Gen.CpuGo.Alt.Bus_nRead16_cross, Cpu.nRead16_cross, and_mask24, lin_succ_mod]

@[gotie_a] theorem Bus_nRead24_wrap_eq (b : U8) (a : U16) : Gen.CpuGo.Alt.Bus_nRead24_wrap b a = Cpu.nRead24_wrap b a := by
  funext s
  gosym [Gen.CpuGo.Alt.Bus_nRead24_wrap, Cpu.nRead24_wrap, le24_go]

@[gotie_a] theorem Bus_eaRead16_cross_eq (a : Nat) : Gen.CpuGo.Alt.Bus_eaRead16_cross a = Cpu.eaRead16 a := by
  funext s
  gosym [Gen.CpuGo.Alt.Bus_eaRead16_cross, Cpu.eaRead16, and_mask24, succ_mod24]

@[gotie_a] theorem Bus_nWrite16_wrap_eq (b : U8) (a : U16) (v : U16) : Gen.CpuGo.Alt.Bus_nWrite16_wrap b a v = Cpu.nWrite16_wrap b a v := by
  funext s
  gosym [Gen.CpuGo.Alt.Bus_nWrite16_wrap, Cpu.nWrite16_wrap, lo8_shr8]

@[gotie_a] theorem Bus_nWrite16_cross_eq (b : U8) (a : U16) (v : U16) : Gen.CpuGo.Alt.Bus_nWrite16_cross b a v = Cpu.nWrite16_cross b a v := by
  funext s
  gosym [Gen.CpuGo.Alt.Bus_nWrite16_cross, Cpu.nWrite16_cross, lo8_shr8, and_mask24, lin_succ_mod]

@[gotie_a] theorem Bus_eaWrite16_cross_eq (a : Nat) (v : U16) : Gen.CpuGo.Alt.Bus_eaWrite16_cross a v = Cpu.eaWrite16 a v := by
  funext s
  gosym [Gen.CpuGo.Alt.Bus_eaWrite16_cross, Cpu.eaWrite16, lo8_shr8, and_mask24, succ_mod24]

@[gotie_a] theorem cmdRead_eq : Gen.CpuGo.Alt.cmdRead = Cpu.cmdRead := by
  funext s
  simp only [Gen.CpuGo.Alt.cmdRead, Cpu.cmdRead, Bus_nRead_eq, Bus_EaRead_eq, get_bind]
  cases s.r.Mode <;> gosym []

@[gotie_a] theorem cmdRead16_eq : Gen.CpuGo.Alt.cmdRead16 = Cpu.cmdRead16 := by
  funext s
  simp only [Gen.CpuGo.Alt.cmdRead16, Cpu.cmdRead16, Bus_nRead16_wrap_eq, Bus_nRead16_cross_eq, Bus_eaRead16_cross_eq, get_bind]
  cases s.r.Mode <;> gosym [rdEA16]

@[gotie_a] theorem cmdWrite_eq (v : U8) : Gen.CpuGo.Alt.cmdWrite v = Cpu.cmdWrite v := by
  funext s
  simp only [Gen.CpuGo.Alt.cmdWrite, Cpu.cmdWrite, Bus_nWrite_eq, Bus_EaWrite_eq, get_bind]
  cases s.r.Mode <;> gosym []

@[gotie_a] theorem cmdWrite16_eq (v : U16) : Gen.CpuGo.Alt.cmdWrite16 v = Cpu.cmdWrite16 v := by
  funext s
  simp only [Gen.CpuGo.Alt.cmdWrite16, Cpu.cmdWrite16, Bus_nWrite16_wrap_eq, Bus_nWrite16_cross_eq, Bus_eaWrite16_cross_eq, get_bind]
  cases s.r.Mode <;> gosym [wrEA16]

/-! ### stack -/

@[gotie_a] theorem push_eq (v : U8) : Gen.CpuGo.Alt.push v = Cpu.push v := by
  funext s
  simp only [Gen.CpuGo.Alt.push, Cpu.push, Bus_nWrite_eq]
  gosym []

@[gotie_a] theorem pull_eq : Gen.CpuGo.Alt.pull = Cpu.pull := by
  funext s
  simp only [Gen.CpuGo.Alt.pull, Cpu.pull, Bus_nRead_eq]
  gosym []

@[gotie_a] theorem push16_eq (v : U16) : Gen.CpuGo.Alt.push16 v = Cpu.push16 v := by
  simp only [Gen.CpuGo.Alt.push16, Cpu.push16, push_eq, lo8_shr8, lo8_and_ff, bind_pure_unit]

@[gotie_a] theorem pull16_eq : Gen.CpuGo.Alt.pull16 = Cpu.pull16 := by
  funext s
  simp only [Gen.CpuGo.Alt.pull16, Cpu.pull16, pull_eq, mk16_go, bind_eq']

end Cpu.GoTie.Alt
