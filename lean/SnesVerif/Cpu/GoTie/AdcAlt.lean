/-
Tie, ADC / SBC, cpualt: the regenerated routines equal the model's (through the Go-shaped cores of Cpu/GoTie/Adc.lean).
-/
import SnesVerif.Cpu.GoTie.Adc
import SnesVerif.Cpu.GoTie.FlagsAlt
namespace Cpu.GoTie.Alt
open Cpu Cpu.GoPrim Cpu.GoTie
set_option maxRecDepth 100000
set_option linter.unusedSimpArgs false

theorem op_adc_eq : Gen.CpuGo.Alt.op_adc = Cpu.runP .adc := by
  funext s
  simp only [Gen.CpuGo.Alt.op_adc, Cpu.runP, adcLike_go, adcLikeGo, gotie_a]
  simp only [bind_assoc, bind_pure_unit, ite_bind, get_bind, ite_run]
  by_cases hM : s.r.M = true
  · simp only [hM, if_true]
    with_reducible apply read_step _ isRead_cmdRead; intro t
    simp only [bind_assoc, bind_pure_unit, get_bind, modify_bind, modify_run, ite_flagOf, goAdc8, Cpu.setZN8, if_true, if_false, Bool.false_eq_true]
  · simp only [hM, if_false, Bool.false_eq_true]
    with_reducible apply read_step _ isRead_cmdRead16; intro t
    simp only [bind_assoc, bind_pure_unit, get_bind, modify_bind, modify_run, ite_flagOf, goAdc16, Cpu.setZN16, if_true, if_false, Bool.false_eq_true]

theorem op_sbc_eq : Gen.CpuGo.Alt.op_sbc = Cpu.runP .sbc := by
  funext s
  simp only [Gen.CpuGo.Alt.op_sbc, Cpu.runP, adcLike_go, adcLikeGo, gotie_a]
  simp only [bind_assoc, bind_pure_unit, ite_bind, get_bind, ite_run]
  by_cases hM : s.r.M = true
  · simp only [hM, if_true]
    with_reducible apply read_step _ isRead_cmdRead; intro t
    simp only [bind_assoc, bind_pure_unit, get_bind, modify_bind, modify_run, ite_flagOf, goAdc8, Cpu.setZN8, if_true, if_false, Bool.false_eq_true]
  · simp only [hM, if_false, Bool.false_eq_true]
    with_reducible apply read_step _ isRead_cmdRead16; intro t
    simp only [bind_assoc, bind_pure_unit, get_bind, modify_bind, modify_run, ite_flagOf, goAdc16, Cpu.setZN16, if_true, if_false, Bool.false_eq_true]

end Cpu.GoTie.Alt
