/-
Tie, addressing switch of Step(), cpu65c816 (part 2 of 3): for each addressing mode the outlined switch
`Step_switch1` computes the model's (addr, ea, pageCrossed); ea is compared modulo 2^24, which is all `Step` uses of it.
Written by tools/mkgotie.py.
-/
import SnesVerif.Cpu.GoTie.FlagsPrimary
namespace Cpu.GoTie.Primary
open Cpu Cpu.GoPrim Cpu.GoTie
set_option maxRecDepth 100000
set_option linter.unusedSimpArgs false

theorem sw_DP_X :
    (Gen.CpuGo.Primary.Step_switch1 .DP_X false 0 0 0 0 >>= fun r => pure (r.1, r.2.1, r.2.2 % 16777216)) =
      (Cpu.addressing .DP_X >>= fun r => pure (r.2.2, r.1, r.2.1 % 16777216)) := by
  funext s
  simp only [Gen.CpuGo.Primary.Step_switch1, Cpu.addressing, gotie_p]
  gorun [srcX, srcY, lin_go, zx_toNat, and_mask24, mod32_24, lin_mod32]

theorem sw_DP_Y :
    (Gen.CpuGo.Primary.Step_switch1 .DP_Y false 0 0 0 0 >>= fun r => pure (r.1, r.2.1, r.2.2 % 16777216)) =
      (Cpu.addressing .DP_Y >>= fun r => pure (r.2.2, r.1, r.2.1 % 16777216)) := by
  funext s
  simp only [Gen.CpuGo.Primary.Step_switch1, Cpu.addressing, gotie_p]
  gorun [srcX, srcY, lin_go, zx_toNat, and_mask24, mod32_24, lin_mod32]

theorem sw_DP_X_Indirect :
    (Gen.CpuGo.Primary.Step_switch1 .DP_X_Indirect false 0 0 0 0 >>= fun r => pure (r.1, r.2.1, r.2.2 % 16777216)) =
      (Cpu.addressing .DP_X_Indirect >>= fun r => pure (r.2.2, r.1, r.2.1 % 16777216)) := by
  funext s
  simp only [Gen.CpuGo.Primary.Step_switch1, Cpu.addressing, gotie_p]
  gorun [srcX, srcY, lin_go, zx_toNat, and_mask24, mod32_24, lin_mod32]

theorem sw_DP_Indirect :
    (Gen.CpuGo.Primary.Step_switch1 .DP_Indirect false 0 0 0 0 >>= fun r => pure (r.1, r.2.1, r.2.2 % 16777216)) =
      (Cpu.addressing .DP_Indirect >>= fun r => pure (r.2.2, r.1, r.2.1 % 16777216)) := by
  funext s
  simp only [Gen.CpuGo.Primary.Step_switch1, Cpu.addressing, gotie_p]
  gorun [srcX, srcY, lin_go, zx_toNat, and_mask24, mod32_24, lin_mod32]

theorem sw_DP_Indirect_Long :
    (Gen.CpuGo.Primary.Step_switch1 .DP_Indirect_Long false 0 0 0 0 >>= fun r => pure (r.1, r.2.1, r.2.2 % 16777216)) =
      (Cpu.addressing .DP_Indirect_Long >>= fun r => pure (r.2.2, r.1, r.2.1 % 16777216)) := by
  funext s
  simp only [Gen.CpuGo.Primary.Step_switch1, Cpu.addressing, gotie_p]
  gorun [srcX, srcY, lin_go, zx_toNat, and_mask24, mod32_24, lin_mod32]

theorem sw_DP_Indirect_Y :
    (Gen.CpuGo.Primary.Step_switch1 .DP_Indirect_Y false 0 0 0 0 >>= fun r => pure (r.1, r.2.1, r.2.2 % 16777216)) =
      (Cpu.addressing .DP_Indirect_Y >>= fun r => pure (r.2.2, r.1, r.2.1 % 16777216)) := by
  funext s
  simp only [Gen.CpuGo.Primary.Step_switch1, Cpu.addressing, gotie_p]
  gorun [srcX, srcY, lin_go, zx_toNat, and_mask24, mod32_24, lin_mod32]

theorem sw_DP_Indirect_Long_Y :
    (Gen.CpuGo.Primary.Step_switch1 .DP_Indirect_Long_Y false 0 0 0 0 >>= fun r => pure (r.1, r.2.1, r.2.2 % 16777216)) =
      (Cpu.addressing .DP_Indirect_Long_Y >>= fun r => pure (r.2.2, r.1, r.2.1 % 16777216)) := by
  funext s
  simp only [Gen.CpuGo.Primary.Step_switch1, Cpu.addressing, gotie_p]
  gorun [srcX, srcY, lin_go, zx_toNat, and_mask24, mod32_24, lin_mod32]

theorem sw_Absolute_X_Indirect :
    (Gen.CpuGo.Primary.Step_switch1 .Absolute_X_Indirect false 0 0 0 0 >>= fun r => pure (r.1, r.2.1, r.2.2 % 16777216)) =
      (Cpu.addressing .Absolute_X_Indirect >>= fun r => pure (r.2.2, r.1, r.2.1 % 16777216)) := by
  funext s
  simp only [Gen.CpuGo.Primary.Step_switch1, Cpu.addressing, gotie_p]
  gorun [srcX, srcY, lin_go, zx_toNat, and_mask24, mod32_24, lin_mod32]

theorem sw_Absolute_Indirect :
    (Gen.CpuGo.Primary.Step_switch1 .Absolute_Indirect false 0 0 0 0 >>= fun r => pure (r.1, r.2.1, r.2.2 % 16777216)) =
      (Cpu.addressing .Absolute_Indirect >>= fun r => pure (r.2.2, r.1, r.2.1 % 16777216)) := by
  funext s
  simp only [Gen.CpuGo.Primary.Step_switch1, Cpu.addressing, gotie_p]
  gorun [srcX, srcY, lin_go, zx_toNat, and_mask24, mod32_24, lin_mod32]

end Cpu.GoTie.Primary
