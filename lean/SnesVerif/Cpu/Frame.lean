/-
Two-state relations on the register file along the interpreter's computations (`Rel`), and the frame
`Fr`: AllCycles, Stopped and Cycles are untouched.  Same compositional style as Cpu/Total.lean.
-/
import SnesVerif.Cpu.Total
namespace Cpu
set_option maxRecDepth 100000
attribute [local irreducible] eaRead eaWrite lin

/-- whenever the computation succeeds, the register files before and after are related by `R` -/
def Rel {α : Type} (R : Regs → Regs → Prop) (x : Ex α) : Prop :=
  ∀ s a s', x s = some (a, s') → R s.r s'.r

/-- what the cycle / stop bookkeeping of `Step` reads back after the routine -/
def Same (c c' : Regs) : Prop := c'.AllCycles = c.AllCycles ∧ c'.Stopped = c.Stopped ∧ c'.Cycles = c.Cycles

abbrev Fr {α : Type} (x : Ex α) : Prop := Rel Same x

theorem same_refl (c : Regs) : Same c c := ⟨rfl, rfl, rfl⟩
theorem same_trans {a b c : Regs} (h1 : Same a b) (h2 : Same b c) : Same a c :=
  ⟨h2.1.trans h1.1, h2.2.1.trans h1.2.1, h2.2.2.trans h1.2.2⟩

theorem rel_bind {α β : Type} {R1 R2 R3 : Regs → Regs → Prop} (x : Ex α) (f : α → Ex β)
    (comp : ∀ a b c, R1 a b → R2 b c → R3 a c) (hx : Rel R1 x) (hf : ∀ a, Rel R2 (f a)) : Rel R3 (x >>= f) := by
  intro s b s'' h
  rw [bind_eq] at h
  cases e : x s with
  | none => rw [e] at h; cases h
  | some r =>
    obtain ⟨a, s'⟩ := r
    rw [e] at h
    exact comp _ _ _ (hx s a s' e) (hf a s' b s'' h)

theorem rel_weaken {α : Type} {R R' : Regs → Regs → Prop} (x : Ex α) (h : ∀ a b, R a b → R' a b) (hx : Rel R x) : Rel R' x :=
  fun s a s' e => h _ _ (hx s a s' e)

theorem rel_modify (R : Regs → Regs → Prop) (f : Regs → Regs) (hf : ∀ c, R c (f c)) : Rel R (modify f) := by
  intro s a s' h
  cases h
  exact hf s.r

theorem fr_pure {α : Type} (a : α) : Fr (pure a : Ex α) := by
  intro s b s' h; cases h; exact same_refl _
theorem fr_bind {α β : Type} (x : Ex α) (f : α → Ex β) (hx : Fr x) (hf : ∀ a, Fr (f a)) : Fr (x >>= f) :=
  rel_bind (R1 := Same) (R2 := Same) (R3 := Same) x f (fun _ _ _ => same_trans) hx hf
theorem fr_get : Fr get := by
  intro s b s' h; cases h; exact same_refl _
theorem fr_modify (f : Regs → Regs) (hf : ∀ c, Same c (f c)) : Fr (modify f) := rel_modify _ f hf
theorem fr_eaRead (a : Nat) : Fr (eaRead a) := by
  intro s b s' h
  unfold eaRead at h
  split at h
  · cases h; exact same_refl _
  · cases h
theorem fr_eaWrite (a : Nat) (v : U8) : Fr (eaWrite a v) := by
  intro s b s' h
  unfold eaWrite at h
  split at h
  · cases h; exact same_refl _
  · cases h
theorem fr_ite {α : Type} (c : Prop) [Decidable c] (x y : Ex α) (hx : Fr x) (hy : Fr y) : Fr (if c then x else y) := by
  split <;> assumption

theorem fr_nRead (b : U8) (a : U16) : Fr (nRead b a) := fr_eaRead _
theorem fr_nWrite (b : U8) (a : U16) (v : U8) : Fr (nWrite b a v) := fr_eaWrite _ _
theorem fr_nRead16_wrap (b : U8) (a : U16) : Fr (nRead16_wrap b a) :=
  fr_bind _ _ (fr_eaRead _) fun _ => fr_bind _ _ (fr_eaRead _) fun _ => fr_pure _
theorem fr_nRead16_cross (b : U8) (a : U16) : Fr (nRead16_cross b a) :=
  fr_bind _ _ (fr_eaRead _) fun _ => fr_bind _ _ (fr_eaRead _) fun _ => fr_pure _
theorem fr_nRead24_wrap (b : U8) (a : U16) : Fr (nRead24_wrap b a) :=
  fr_bind _ _ (fr_eaRead _) fun _ => fr_bind _ _ (fr_eaRead _) fun _ => fr_bind _ _ (fr_eaRead _) fun _ => fr_pure _
theorem fr_nWrite16_wrap (b : U8) (a : U16) (v : U16) : Fr (nWrite16_wrap b a v) :=
  fr_bind _ _ (fr_eaWrite _ _) fun _ => fr_eaWrite _ _
theorem fr_nWrite16_cross (b : U8) (a : U16) (v : U16) : Fr (nWrite16_cross b a v) :=
  fr_bind _ _ (fr_eaWrite _ _) fun _ => fr_eaWrite _ _
theorem fr_eaRead16 (a : Nat) : Fr (eaRead16 a) :=
  fr_bind _ _ (fr_eaRead _) fun _ => fr_bind _ _ (fr_eaRead _) fun _ => fr_pure _
theorem fr_eaWrite16 (a : Nat) (v : U16) : Fr (eaWrite16 a v) :=
  fr_bind _ _ (fr_eaWrite _ _) fun _ => fr_eaWrite _ _
theorem fr_rdEA : Fr rdEA := fun s a s' h => fr_eaRead _ s a s' h
theorem fr_rdEA16 : Fr rdEA16 := fun s a s' h => fr_eaRead16 _ s a s' h
theorem fr_wrEA (v : U8) : Fr (wrEA v) := fun s a s' h => fr_eaWrite _ v s a s' h
theorem fr_wrEA16 (v : U16) : Fr (wrEA16 v) := fun s a s' h => fr_eaWrite16 _ v s a s' h

syntax "fr_prim" : tactic
macro_rules | `(tactic| fr_prim) => `(tactic| with_reducible
  first
  | exact fr_pure _
  | exact fr_get
  | exact fr_rdEA | exact fr_rdEA16 | exact fr_wrEA _ | exact fr_wrEA16 _
  | exact fr_nRead _ _ | exact fr_nWrite _ _ _
  | exact fr_nRead16_wrap _ _ | exact fr_nRead16_cross _ _ | exact fr_nRead24_wrap _ _
  | exact fr_nWrite16_wrap _ _ _ | exact fr_nWrite16_cross _ _ _
  | exact fr_eaRead _ | exact fr_eaWrite _ _)

/-- side condition of `fr_modify`: the three fields are definitionally untouched, possibly under `if`s -/
macro "same_tac" : tactic => `(tactic|
  (intro c;
   first
   | exact ⟨rfl, rfl, rfl⟩
   | ((repeat' split) <;> exact ⟨rfl, rfl, rfl⟩)
   | ((try dsimp only [setZN8, setZN16, setZ8, setZ16, compare8, compare16, toIndex, toAcc, setFlags]);
      (repeat' split) <;> exact ⟨rfl, rfl, rfl⟩)))

macro "fr_step" : tactic => `(tactic|
  first
  | fr_prim
  | (with_reducible refine fr_bind _ _ ?_ (fun _ => ?_))
  | (with_reducible apply fr_ite)
  | ((with_reducible apply fr_modify); same_tac)
  | split)

macro "fr_tac" : tactic => `(tactic| repeat fr_step)

theorem fr_cmdRead : Fr cmdRead := by
  unfold cmdRead; refine fr_bind _ _ fr_get (fun c => ?_); cases c.Mode <;> simp only <;> fr_tac
theorem fr_cmdRead16 : Fr cmdRead16 := by
  unfold cmdRead16; refine fr_bind _ _ fr_get (fun c => ?_); cases c.Mode <;> simp only <;> fr_tac
theorem fr_cmdWrite (v : U8) : Fr (cmdWrite v) := by
  unfold cmdWrite; refine fr_bind _ _ fr_get (fun c => ?_); cases c.Mode <;> simp only <;> fr_tac
theorem fr_cmdWrite16 (v : U16) : Fr (cmdWrite16 v) := by
  unfold cmdWrite16; refine fr_bind _ _ fr_get (fun c => ?_); cases c.Mode <;> simp only <;> fr_tac

macro_rules | `(tactic| fr_prim) => `(tactic| with_reducible
  first | exact fr_cmdRead | exact fr_cmdRead16 | exact fr_cmdWrite _ | exact fr_cmdWrite16 _)

theorem fr_push (v : U8) : Fr (push v) := by unfold push; fr_tac
theorem fr_pull : Fr pull := by unfold pull; fr_tac
theorem fr_push16 (v : U16) : Fr (push16 v) := fr_bind _ _ (fr_push _) fun _ => fr_push _
theorem fr_pull16 : Fr pull16 := fr_bind _ _ fr_pull fun _ => fr_bind _ _ fr_pull fun _ => fr_pure _

macro_rules | `(tactic| fr_prim) => `(tactic| with_reducible
  first | exact fr_push _ | exact fr_pull | exact fr_push16 _ | exact fr_pull16)

theorem fr_op_adcLike (n : Bool) : Fr (op_adcLike n) := by unfold op_adcLike; fr_tac
theorem fr_rmw f8 f16 sc : Fr (rmw f8 f16 sc) := by unfold rmw; fr_tac
theorem fr_logic f8 f16 : Fr (logic f8 f16) := by unfold logic; fr_tac
theorem fr_blockMove (i : Bool) : Fr (blockMove i) := by unfold blockMove; fr_tac

macro_rules | `(tactic| fr_prim) => `(tactic| with_reducible
  first | exact fr_op_adcLike _ | exact fr_rmw _ _ _ | exact fr_logic _ _ | exact fr_blockMove _)

/-- the routines that touch Cycles or Stopped: taken branches, BRK/COP/RTI in emulation mode, STP -/
def Proc.special : Proc → Bool
  | .bcc | .bcs | .beq | .bne | .bmi | .bpl | .bvc | .bvs | .bra | .brk | .cop | .rti | .stp => true
  | _ => false

theorem fr_runP (q : Proc) (hq : q.special = false) : Fr (runP q) := by
  cases q <;> first | (cases hq; done) | (unfold runP <;> simp only <;> fr_tac)

theorem fr_addressing (m : AMode) : Fr (addressing m) := by
  unfold addressing
  refine fr_bind _ _ fr_get (fun c => ?_)
  cases m <;> simp only <;> fr_tac

end Cpu
