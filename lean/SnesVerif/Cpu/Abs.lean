/-
The abstraction from the interpreters' register file (with its live / shadow copies) to the WDC architectural state.
-/
import SnesVerif.Cpu.Impl
import SnesVerif.Cpu.Spec
namespace Cpu

/-- pick the live copy of each register: `RAh:RAl` when M=1, `RXl`/`RYl` (high byte 0) when X=1 -/
def absR (c : Regs) (mem : Nat → U8) (wlog : List Nat) : WDC.Arch :=
  { A := srcC c, X := srcX c, Y := srcY c, S := c.SP, D := c.RD, PC := c.PC, DBR := c.RDBR, PBR := c.RK,
    fN := c.N, fV := c.V, fM := c.M, fX := c.X, fD := c.D, fI := c.I, fZ := c.Z, fC := c.C,
    E := c.E, stopped := c.Stopped, mem := mem, wlog := wlog }

def abs (s : St) : WDC.Arch := absR s.r s.m.f s.m.wlog

end Cpu
