/-
WDC 65C816 opcode matrix: mnemonic and addressing mode of each of the 256 opcodes, and instruction lengths.
Hand-written from the W65C816S data sheet / "Programming the 65816" opcode matrix — NOT derived from the Go tables.
It is part of the trusted specification ("as the WDC model prescribes") and is cross-checked by kernel evaluation
against both interpreters' regenerated tables and against the Emitter's method table.
-/
namespace Spec

inductive Mnem
  | adc | and | asl | bcc | bcs | beq | bit | bmi | bne | bpl | bra | brk | brl | bvc | bvs
  | clc | cld | cli | clv | cmp | cop | cpx | cpy | dec | dex | dey | eor | inc | inx | iny
  | jmp | jsl | jsr | lda | ldx | ldy | lsr | mvn | mvp | nop | ora | pea | pei | per
  | pha | phb | phd | phk | php | phx | phy | pla | plb | pld | plp | plx | ply
  | rep | rol | ror | rti | rtl | rts | sbc | sec | sed | sei | sep | sta | stp | stx | sty | stz
  | tax | tay | tcd | tcs | tdc | trb | tsb | tsc | tsx | txa | txs | txy | tya | tyx
  | wai | wdm | xba | xce
  deriving DecidableEq, Repr, Inhabited

inductive Mode
  | imp        -- implied / stack
  | acc        -- accumulator
  | immM       -- #imm, 8 or 16 bit by M
  | immX       -- #imm, 8 or 16 bit by X
  | imm8       -- #imm8 (REP, SEP, COP, WDM)
  | imm16      -- #imm16 (PEA)
  | dp | dpX | dpY
  | dpInd      -- (dp)
  | dpIndX     -- (dp,X)
  | dpIndY     -- (dp),Y
  | dpIndLong  -- [dp]
  | dpIndLongY -- [dp],Y
  | abs | absX | absY
  | absInd     -- (abs)
  | absIndX    -- (abs,X)
  | absIndLong -- [abs]
  | long | longX
  | sr         -- sr,S
  | srIndY     -- (sr,S),Y
  | rel8 | rel16
  | blockMove
  deriving DecidableEq, Repr, Inhabited

open Mnem Mode in
/-- the opcode matrix, row by row ($00..$FF) -/
def matrix : Array (Mnem × Mode) := #[
  -- 0x
  (brk, imp), (ora, dpIndX), (cop, imm8), (ora, sr), (tsb, dp), (ora, dp), (asl, dp), (ora, dpIndLong),
  (php, imp), (ora, immM), (asl, acc), (phd, imp), (tsb, abs), (ora, abs), (asl, abs), (ora, long),
  -- 1x
  (bpl, rel8), (ora, dpIndY), (ora, dpInd), (ora, srIndY), (trb, dp), (ora, dpX), (asl, dpX), (ora, dpIndLongY),
  (clc, imp), (ora, absY), (inc, acc), (tcs, imp), (trb, abs), (ora, absX), (asl, absX), (ora, longX),
  -- 2x
  (jsr, abs), (and, dpIndX), (jsl, long), (and, sr), (bit, dp), (and, dp), (rol, dp), (and, dpIndLong),
  (plp, imp), (and, immM), (rol, acc), (pld, imp), (bit, abs), (and, abs), (rol, abs), (and, long),
  -- 3x
  (bmi, rel8), (and, dpIndY), (and, dpInd), (and, srIndY), (bit, dpX), (and, dpX), (rol, dpX), (and, dpIndLongY),
  (sec, imp), (and, absY), (dec, acc), (tsc, imp), (bit, absX), (and, absX), (rol, absX), (and, longX),
  -- 4x
  (rti, imp), (eor, dpIndX), (wdm, imm8), (eor, sr), (mvp, blockMove), (eor, dp), (lsr, dp), (eor, dpIndLong),
  (pha, imp), (eor, immM), (lsr, acc), (phk, imp), (jmp, abs), (eor, abs), (lsr, abs), (eor, long),
  -- 5x
  (bvc, rel8), (eor, dpIndY), (eor, dpInd), (eor, srIndY), (mvn, blockMove), (eor, dpX), (lsr, dpX), (eor, dpIndLongY),
  (cli, imp), (eor, absY), (phy, imp), (tcd, imp), (jmp, long), (eor, absX), (lsr, absX), (eor, longX),
  -- 6x
  (rts, imp), (adc, dpIndX), (per, rel16), (adc, sr), (stz, dp), (adc, dp), (ror, dp), (adc, dpIndLong),
  (pla, imp), (adc, immM), (ror, acc), (rtl, imp), (jmp, absInd), (adc, abs), (ror, abs), (adc, long),
  -- 7x
  (bvs, rel8), (adc, dpIndY), (adc, dpInd), (adc, srIndY), (stz, dpX), (adc, dpX), (ror, dpX), (adc, dpIndLongY),
  (sei, imp), (adc, absY), (ply, imp), (tdc, imp), (jmp, absIndX), (adc, absX), (ror, absX), (adc, longX),
  -- 8x
  (bra, rel8), (sta, dpIndX), (brl, rel16), (sta, sr), (sty, dp), (sta, dp), (stx, dp), (sta, dpIndLong),
  (dey, imp), (bit, immM), (txa, imp), (phb, imp), (sty, abs), (sta, abs), (stx, abs), (sta, long),
  -- 9x
  (bcc, rel8), (sta, dpIndY), (sta, dpInd), (sta, srIndY), (sty, dpX), (sta, dpX), (stx, dpY), (sta, dpIndLongY),
  (tya, imp), (sta, absY), (txs, imp), (txy, imp), (stz, abs), (sta, absX), (stz, absX), (sta, longX),
  -- Ax
  (ldy, immX), (lda, dpIndX), (ldx, immX), (lda, sr), (ldy, dp), (lda, dp), (ldx, dp), (lda, dpIndLong),
  (tay, imp), (lda, immM), (tax, imp), (plb, imp), (ldy, abs), (lda, abs), (ldx, abs), (lda, long),
  -- Bx
  (bcs, rel8), (lda, dpIndY), (lda, dpInd), (lda, srIndY), (ldy, dpX), (lda, dpX), (ldx, dpY), (lda, dpIndLongY),
  (clv, imp), (lda, absY), (tsx, imp), (tyx, imp), (ldy, absX), (lda, absX), (ldx, absY), (lda, longX),
  -- Cx
  (cpy, immX), (cmp, dpIndX), (rep, imm8), (cmp, sr), (cpy, dp), (cmp, dp), (dec, dp), (cmp, dpIndLong),
  (iny, imp), (cmp, immM), (dex, imp), (wai, imp), (cpy, abs), (cmp, abs), (dec, abs), (cmp, long),
  -- Dx
  (bne, rel8), (cmp, dpIndY), (cmp, dpInd), (cmp, srIndY), (pei, dp), (cmp, dpX), (dec, dpX), (cmp, dpIndLongY),
  (cld, imp), (cmp, absY), (phx, imp), (stp, imp), (jmp, absIndLong), (cmp, absX), (dec, absX), (cmp, longX),
  -- Ex
  (cpx, immX), (sbc, dpIndX), (sep, imm8), (sbc, sr), (cpx, dp), (sbc, dp), (inc, dp), (sbc, dpIndLong),
  (inx, imp), (sbc, immM), (nop, imp), (xba, imp), (cpx, abs), (sbc, abs), (inc, abs), (sbc, long),
  -- Fx
  (beq, rel8), (sbc, dpIndY), (sbc, dpInd), (sbc, srIndY), (pea, imm16), (sbc, dpX), (inc, dpX), (sbc, dpIndLongY),
  (sed, imp), (sbc, absY), (plx, imp), (xce, imp), (jsr, absIndX), (sbc, absX), (inc, absX), (sbc, longX)
]

def decode (op : Nat) : Mnem × Mode := matrix.getD op (.nop, .imp)

/-- instruction length in bytes for the given register widths (m8 / x8 = the M / X flag is set) -/
def instrLen (mode : Mode) (m8 x8 : Bool) : Nat :=
  match mode with
  | .imp | .acc => 1
  | .immM => if m8 then 2 else 3
  | .immX => if x8 then 2 else 3
  | .imm8 => 2
  | .imm16 => 3
  | .dp | .dpX | .dpY | .dpInd | .dpIndX | .dpIndY | .dpIndLong | .dpIndLongY | .sr | .srIndY | .rel8 => 2
  | .abs | .absX | .absY | .absInd | .absIndX | .absIndLong | .rel16 | .blockMove => 3
  | .long | .longX => 4

/-- the first opcode carrying a given (mnemonic, mode) pair -/
def opcodeOf (mn : Mnem) (mode : Mode) : Option Nat :=
  (List.range 256).find? (fun op => decide (decode op = (mn, mode)))

def mnemName : Mnem → String
  | .adc => "adc" | .and => "and" | .asl => "asl" | .bcc => "bcc" | .bcs => "bcs" | .beq => "beq" | .bit => "bit"
  | .bmi => "bmi" | .bne => "bne" | .bpl => "bpl" | .bra => "bra" | .brk => "brk" | .brl => "brl" | .bvc => "bvc"
  | .bvs => "bvs" | .clc => "clc" | .cld => "cld" | .cli => "cli" | .clv => "clv" | .cmp => "cmp" | .cop => "cop"
  | .cpx => "cpx" | .cpy => "cpy" | .dec => "dec" | .dex => "dex" | .dey => "dey" | .eor => "eor" | .inc => "inc"
  | .inx => "inx" | .iny => "iny" | .jmp => "jmp" | .jsl => "jsl" | .jsr => "jsr" | .lda => "lda" | .ldx => "ldx"
  | .ldy => "ldy" | .lsr => "lsr" | .mvn => "mvn" | .mvp => "mvp" | .nop => "nop" | .ora => "ora" | .pea => "pea"
  | .pei => "pei" | .per => "per" | .pha => "pha" | .phb => "phb" | .phd => "phd" | .phk => "phk" | .php => "php"
  | .phx => "phx" | .phy => "phy" | .pla => "pla" | .plb => "plb" | .pld => "pld" | .plp => "plp" | .plx => "plx"
  | .ply => "ply" | .rep => "rep" | .rol => "rol" | .ror => "ror" | .rti => "rti" | .rtl => "rtl" | .rts => "rts"
  | .sbc => "sbc" | .sec => "sec" | .sed => "sed" | .sei => "sei" | .sep => "sep" | .sta => "sta" | .stp => "stp"
  | .stx => "stx" | .sty => "sty" | .stz => "stz" | .tax => "tax" | .tay => "tay" | .tcd => "tcd" | .tcs => "tcs"
  | .tdc => "tdc" | .trb => "trb" | .tsb => "tsb" | .tsc => "tsc" | .tsx => "tsx" | .txa => "txa" | .txs => "txs"
  | .txy => "txy" | .tya => "tya" | .tyx => "tyx" | .wai => "wai" | .wdm => "wdm" | .xba => "xba" | .xce => "xce"

end Spec
