/-
Bit-level helper lemmas over `Nat` used by the regenerated integer models.
Everything here is proved from core Lean only (no Mathlib, no axioms beyond propext/Quot.sound).
-/
set_option maxRecDepth 10000

namespace Bits

/-- Splitting a bitwise AND at bit `j`. -/
theorem and_split (x m j : Nat) :
    x &&& m = (x % 2^j &&& m % 2^j) + 2^j * (x / 2^j &&& m / 2^j) := by
  have h1 := Nat.and_div_two_pow (a := x) (b := m) (n := j)
  have h2 := Nat.and_mod_two_pow (a := x) (b := m) (n := j)
  have h3 := Nat.mod_add_div (x &&& m) (2^j)
  rw [h1, h2] at h3
  exact h3.symm

theorem and_low_mask (x k : Nat) : x &&& (2^k - 1) = x % 2^k :=
  Nat.and_two_pow_sub_one_eq_mod x k

/-- A run of `len` one-bits starting at bit `lo`. -/
theorem and_run (x lo len : Nat) :
    x &&& ((2^len - 1) * 2^lo) = (x / 2^lo) % 2^len * 2^lo := by
  have h := and_split x ((2^len - 1) * 2^lo) lo
  have hm : (2^len - 1) * 2^lo % 2^lo = 0 := Nat.mul_mod_left _ _
  have hd : (2^len - 1) * 2^lo / 2^lo = 2^len - 1 := Nat.mul_div_cancel _ (Nat.two_pow_pos lo)
  rw [hm, hd, Nat.and_zero, Nat.zero_add, and_low_mask] at h
  rw [h, Nat.mul_comm]

/-- AND distributes over a mask that is the sum of a high part (multiple of `2^j`) and a low part (< `2^j`). -/
theorem and_mask_add (x hi lo j : Nat) (hlo : lo < 2^j) :
    x &&& (hi * 2^j + lo) = (x / 2^j &&& hi) * 2^j + (x % 2^j &&& lo) := by
  have h := and_split x (hi * 2^j + lo) j
  have hm : (hi * 2^j + lo) % 2^j = lo := by
    rw [Nat.add_comm, Nat.add_mul_mod_self_right, Nat.mod_eq_of_lt hlo]
  have hd : (hi * 2^j + lo) / 2^j = hi := by
    rw [Nat.add_comm, Nat.add_mul_div_right _ _ (Nat.two_pow_pos j), Nat.div_eq_of_lt hlo, Nat.zero_add]
  rw [hm, hd] at h
  rw [h, Nat.mul_comm, Nat.add_comm]

/-- OR of a multiple of `2^k` with something below `2^k` is addition. -/
theorem or_eq_add (a b k : Nat) (ha : a % 2^k = 0) (hb : b < 2^k) : a ||| b = a + b := by
  have hd : a = 2^k * (a / 2^k) := by
    have := Nat.mod_add_div a (2^k); omega
  rw [hd]
  exact (Nat.two_pow_add_eq_or_of_lt hb (a / 2^k)).symm

theorem or_eq_add' (a b k : Nat) (ha : a % 2^k = 0) (hb : b < 2^k) : b ||| a = b + a := by
  rw [Nat.or_comm, or_eq_add a b k ha hb, Nat.add_comm]

/-- `(x % 2^a) / 2^b % 2^c = x / 2^b % 2^c` when the selected bit field lies below bit `a`. -/
theorem mod_div_mod (x a b c : Nat) (h : b + c ≤ a) :
    (x % 2^a) / 2^b % 2^c = x / 2^b % 2^c := by
  have ha : 2^a = 2^b * 2^(a-b) := by rw [← Nat.pow_add]; congr 1; omega
  rw [ha, Nat.mod_mul_right_div_self]
  have hc : 2^c ∣ 2^(a-b) := Nat.pow_dvd_pow 2 (by omega)
  exact Nat.mod_mod_of_dvd _ hc

/-- Mask with one-bit runs `(lo, len)`, listed from the highest run to the lowest. -/
def maskOfRuns : List (Nat × Nat) → Nat
  | [] => 0
  | (lo, len) :: rs => (2^len - 1) * 2^lo + maskOfRuns rs

/-- The value selected by such a mask, written with `/`, `%` and `*` only (omega-friendly). -/
def runsSum (x : Nat) : List (Nat × Nat) → Nat
  | [] => 0
  | (lo, len) :: rs => (x / 2^lo) % 2^len * 2^lo + runsSum x rs

/-- Runs are listed in descending order and do not touch. -/
def RunsOk : Nat → List (Nat × Nat) → Prop
  | _, [] => True
  | top, (lo, len) :: rs => lo + len ≤ top ∧ RunsOk lo rs

instance : (top : Nat) → (rs : List (Nat × Nat)) → Decidable (RunsOk top rs)
  | _, [] => isTrue trivial
  | top, (lo, len) :: rs =>
    have := instDecidableRunsOk lo rs
    inferInstanceAs (Decidable (lo + len ≤ top ∧ RunsOk lo rs))

theorem maskOfRuns_lt (top : Nat) (rs : List (Nat × Nat)) (h : RunsOk top rs) : maskOfRuns rs < 2^top := by
  induction rs generalizing top with
  | nil => exact Nat.two_pow_pos top
  | cons r rs ih =>
    obtain ⟨lo, len⟩ := r
    obtain ⟨h1, h2⟩ := h
    have ih' := ih lo h2
    show (2^len - 1) * 2^lo + maskOfRuns rs < 2^top
    have hp : 2^len * 2^lo ≤ 2^top := by
      rw [← Nat.pow_add]; exact Nat.pow_le_pow_right (by decide) (by omega)
    have hl : 1 ≤ 2^len := Nat.two_pow_pos len
    have : (2^len - 1) * 2^lo + 2^lo = 2^len * 2^lo := by
      rw [Nat.sub_mul, Nat.one_mul]
      have : 2^lo ≤ 2^len * 2^lo := Nat.le_mul_of_pos_left _ hl
      omega
    omega

theorem runsSum_mod (x top : Nat) (rs : List (Nat × Nat)) (h : RunsOk top rs) :
    runsSum (x % 2^top) rs = runsSum x rs := by
  induction rs generalizing top with
  | nil => rfl
  | cons r rs ih =>
    obtain ⟨lo, len⟩ := r
    obtain ⟨h1, h2⟩ := h
    show (x % 2^top / 2^lo) % 2^len * 2^lo + runsSum (x % 2^top) rs = (x / 2^lo) % 2^len * 2^lo + runsSum x rs
    rw [mod_div_mod x top lo len h1]
    have e1 := ih lo h2
    -- both sides reduce to the runs of `x % 2^lo`
    have hh : RunsOk top rs := by
      cases rs with
      | nil => trivial
      | cons r' rs' => exact ⟨by have := h2.1; omega, h2.2⟩
    have e2 : runsSum (x % 2^top) rs = runsSum x rs := by
      have a := ih top hh
      exact a
    rw [e2]

theorem and_runs (x top : Nat) (rs : List (Nat × Nat)) (h : RunsOk top rs) :
    x &&& maskOfRuns rs = runsSum x rs := by
  induction rs generalizing x top with
  | nil => exact Nat.and_zero x
  | cons r rs ih =>
    obtain ⟨lo, len⟩ := r
    obtain ⟨h1, h2⟩ := h
    show x &&& ((2^len - 1) * 2^lo + maskOfRuns rs) = (x / 2^lo) % 2^len * 2^lo + runsSum x rs
    rw [and_mask_add x (2^len - 1) (maskOfRuns rs) lo (maskOfRuns_lt lo rs h2), and_low_mask,
      ih (x % 2^lo) lo h2, runsSum_mod x lo rs h2]

/-- Go `a - c` on uint32 when no borrow happens. -/
theorem sub_wrap32 (a c : Nat) (h1 : c ≤ a) (h2 : a < 4294967296) :
    (a + 4294967296 - c) % 4294967296 = a - c := by omega

/-- A uint32 result that did not overflow. -/
theorem wrap32 (a : Nat) (h : a < 4294967296) : a % 4294967296 = a := Nat.mod_eq_of_lt h
theorem wrap16 (a : Nat) (h : a < 65536) : a % 65536 = a := Nat.mod_eq_of_lt h
theorem wrap8 (a : Nat) (h : a < 256) : a % 256 = a := Nat.mod_eq_of_lt h

end Bits
