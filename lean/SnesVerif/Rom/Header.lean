/-
Model of header.go / rom.go header handling, parameterised by the *regenerated* layout and constants
(Gen/HeaderLayout.lean): the generic struct walker (readBinaryStruct / writeBinaryStruct + encoding/binary
little-endian), version detection, ROM.ReadHeader and ROM.WriteHeader.  Tied to the Go code by `vh header`.
-/
import SnesVerif.Gen.HeaderLayout
namespace HeaderModel
open Gen

def leDecode : List UInt8 → Nat
  | [] => 0
  | b :: bs => b.toNat + 256 * leDecode bs

def leEncode (v : Nat) : Nat → List UInt8
  | 0 => []
  | k + 1 => UInt8.ofNat (v % 256) :: leEncode (v / 256) k

/-- value of a leaf field: a little-endian scalar or a byte array -/
inductive Val | num (v : Nat) | arr (bs : List UInt8)
  deriving DecidableEq, Repr

def readLeaf (l : Leaf) (bs : List UInt8) : Val := if l.isArr then .arr bs else .num (leDecode bs)

def writeLeaf (l : Leaf) : Val → List UInt8
  | .num v => leEncode v l.size
  | .arr bs => bs

def zeroVal (l : Leaf) : Val := if l.isArr then .arr (List.replicate l.size 0) else .num 0

def total (ls : List Leaf) : Nat := (ls.map (·.size)).sum

/-- the reflection walker reading: fails (error) when the input is short -/
def readStruct : List Leaf → List UInt8 → Option (List Val)
  | [], _ => some []
  | l :: ls, bs =>
    if bs.length < l.size then none
    else (readStruct ls (bs.drop l.size)).map (fun vs => readLeaf l (bs.take l.size) :: vs)

def writeStruct : List Leaf → List Val → List UInt8
  | l :: ls, v :: vs => writeLeaf l v ++ writeStruct ls vs
  | _, _ => []

/-- look a leaf value up by field path -/
def getVal : List Leaf → List Val → String → Option Val
  | l :: ls, v :: vs, name => if l.path = name then some v else getVal ls vs name
  | _, _, _ => none

def ruleMatches (ls : List Leaf) (vs : List Val) (r : String × Option Nat × Nat × Nat) : Bool :=
  match getVal ls vs r.1, r.2.1 with
  | some (.num v), none => v == r.2.2.1
  | some (.arr bs), some i => (bs.getD i 0).toNat == r.2.2.1
  | _, _ => false

def versionOf (ls : List Leaf) (vs : List Val) : List (String × Option Nat × Nat × Nat) → Nat
  | [] => headerDefaultVersion
  | r :: rs => if ruleMatches ls vs r then r.2.2.2 else versionOf ls vs rs

def zeroFields : List Leaf → List Val → List String → List Val
  | l :: ls, v :: vs, names => (if names.contains l.path then zeroVal l else v) :: zeroFields ls vs names
  | _, _, _ => []

structure Header where
  version : Nat
  vals : List Val
  deriving DecidableEq, Repr

/-- `Header.ReadHeader`: walk, detect the version, zero the extended fields for the default version -/
def parse (bs : List UInt8) : Option Header :=
  (readStruct headerLeaves bs).map fun vs =>
    let v := versionOf headerLeaves vs headerVersionRules
    ⟨v, if v = headerDefaultVersion then zeroFields headerLeaves vs headerDefaultZeroed else vs⟩

/-- `Header.WriteHeader` -/
def serialise (h : Header) : List UInt8 := writeStruct headerLeaves h.vals

def splice (img : List UInt8) (pos : Nat) (new : List UInt8) : List UInt8 :=
  img.take pos ++ new ++ img.drop (pos + new.length)

/-- `copy(dst[lo:hi], src)` into an image -/
def copyInto (img : List UInt8) (lo hi : Nat) (src : List UInt8) : List UInt8 :=
  splice img lo (src.take (min (hi - lo) src.length))

/-- `ROM.ReadHeader` (image at least `romMinSize` long, as NewROM requires) -/
def romReadHeader (img : List UInt8) : Option Header :=
  parse ((img.drop romHeaderOffset).take romHeaderReadLen)

/-- `ROM.WriteHeader` -/
def romWriteHeader (img : List UInt8) (h : Header) : List UInt8 :=
  let b := serialise h
  let c := if h.version ≤ romV1Max then romV1Copy else romV2Copy
  copyInto img (romHeaderOffset + c.1) (romHeaderOffset + c.2.1) (b.drop c.2.2)

end HeaderModel
