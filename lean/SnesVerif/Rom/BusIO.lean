/-
Hand-written model of the io.Reader / io.Writer objects returned by ROM.BusReader / ROM.BusWriter (rom.go),
on top of the *regenerated* window arithmetic and write guard (Gen/RomWin.lean).
`bytes.Reader` semantics (trusted, DESIGN §2.4): Read at end returns (0, io.EOF); otherwise copies min(len p, remaining).
Tied to the Go code by `vh rom`.
-/
import SnesVerif.Gen.RomWin
namespace RomIO

abbrev Image := Nat → UInt8

def slice (img : Image) (lo n : Nat) : List UInt8 := (List.range n).map (fun j => img (lo + j))

/-- result of a Read / Write call: count, and the error class -/
inductive Err | none | eof | unexpectedEOF
  deriving DecidableEq, Repr

/-- `bytes.NewReader(Contents[start:end])` with read position `pos` -/
structure Reader where
  start : Nat
  end_ : Nat
  pos : Nat

def Reader.read (r : Reader) (img : Image) (n : Nat) : Reader × List UInt8 × Err :=
  if r.pos ≥ r.end_ - r.start then (r, [], .eof)
  else
    let k := min n (r.end_ - r.start - r.pos)
    ({ r with pos := r.pos + k }, slice img (r.start + r.pos) k, .none)

/-- `&busWriter{r, busAddr, start, end, o}` -/
structure Writer where
  start : Nat
  end_ : Nat
  o : Nat

def overwrite (img : Image) (lo : Nat) (p : List UInt8) : Image :=
  fun a => if h : lo ≤ a ∧ a - lo < p.length then p[a - lo]'h.2 else img a

/-- `busWriter.Write(p)`: guard, then `n = copy(Contents[lo:hi], p)`, `o += n` -/
def Writer.write (w : Writer) (img : Image) (p : List UInt8) : Writer × Image × Nat × Err :=
  if Gen.rom_busWriter_guard w.o w.start w.end_ p.length = true then (w, img, 0, .unexpectedEOF)
  else
    let lo := Gen.rom_busWriter_lo w.o w.start w.end_
    let hi := Gen.rom_busWriter_hi w.o w.start w.end_
    let n := min (hi - lo) p.length
    ({ w with o := (w.o + n) % 4294967296 }, overwrite img lo (p.take n), n, .none)

/-- what `ROM.BusReader(addr)` returns: the always-error object, or a reader over the window -/
def openReader (addr : Nat) : Option Reader :=
  (Gen.snes_ROM_BusReader addr).map (fun w => ⟨w.1, w.2, 0⟩)

def openWriter (addr : Nat) : Option Writer :=
  (Gen.snes_ROM_BusWriter addr).map (fun w => ⟨w.1, w.2, 0⟩)

end RomIO
