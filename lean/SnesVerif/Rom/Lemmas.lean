/- Helper lemmas for the ROM reader / writer model. -/
import SnesVerif.Rom.BusIO
namespace RomIO

theorem slice_length (img : Image) (lo n : Nat) : (slice img lo n).length = n := by
  simp [slice]

theorem slice_get (img : Image) (lo n j : Nat) (h : j < n) :
    (slice img lo n)[j]'(by rw [slice_length]; exact h) = img (lo + j) := by
  simp [slice]

theorem slice_ext (f g : Image) (lo n : Nat) (h : ∀ j, j < n → f (lo + j) = g (lo + j)) :
    slice f lo n = slice g lo n := by
  unfold slice
  apply List.map_congr_left
  intro j hj
  exact h j (List.mem_range.mp hj)

theorem slice_append (img : Image) (lo m n : Nat) :
    slice img lo (m + n) = slice img lo m ++ slice img (lo + m) n := by
  apply List.ext_getElem
  · simp [slice_length]
  · intro j h1 h2
    rw [slice_get img lo (m + n) j (by rw [slice_length] at h1; exact h1)]
    by_cases c : j < m
    · rw [List.getElem_append_left (by rw [slice_length]; exact c), slice_get img lo m j c]
    · rw [List.getElem_append_right (by rw [slice_length]; omega)]
      simp only [slice_length]
      rw [slice_get img (lo + m) n (j - m) (by rw [slice_length] at h1; omega)]
      congr 1; omega

theorem overwrite_outside (img : Image) (lo : Nat) (p : List UInt8) (a : Nat)
    (h : a < lo ∨ lo + p.length ≤ a) : overwrite img lo p a = img a := by
  unfold overwrite
  rw [dif_neg]
  omega

theorem overwrite_inside (img : Image) (lo : Nat) (p : List UInt8) (j : Nat) (h : j < p.length) :
    overwrite img lo p (lo + j) = p[j] := by
  unfold overwrite
  have c : lo ≤ lo + j ∧ lo + j - lo < p.length := by omega
  rw [dif_pos c]
  congr 1; omega

theorem slice_overwrite (img : Image) (lo : Nat) (p : List UInt8) :
    slice (overwrite img lo p) lo p.length = p := by
  apply List.ext_getElem
  · rw [slice_length]
  · intro j h1 h2
    rw [slice_get _ lo p.length j h2, overwrite_inside img lo p j h2]

end RomIO
