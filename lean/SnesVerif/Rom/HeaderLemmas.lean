/- Generic lemmas about the struct walker (any layout) and list splicing. -/
import SnesVerif.Rom.Header
namespace HeaderModel
open Gen

theorem leEncode_length (v k : Nat) : (leEncode v k).length = k := by
  induction k generalizing v with
  | zero => rfl
  | succ k ih => simp [leEncode, ih]

theorem leDecode_lt (bs : List UInt8) : leDecode bs < 256 ^ bs.length := by
  induction bs with
  | nil => simp [leDecode]
  | cons b bs ih =>
    simp only [leDecode, List.length_cons, Nat.pow_succ]
    have := b.toNat_lt
    omega

theorem leEncode_leDecode (bs : List UInt8) : leEncode (leDecode bs) bs.length = bs := by
  induction bs with
  | nil => rfl
  | cons b bs ih =>
    simp only [leDecode, List.length_cons, leEncode]
    have hb := b.toNat_lt
    have e1 : (b.toNat + 256 * leDecode bs) % 256 = b.toNat := by omega
    have e2 : (b.toNat + 256 * leDecode bs) / 256 = leDecode bs := by omega
    rw [e1, e2, ih]
    simp

theorem leDecode_leEncode (v k : Nat) (h : v < 256 ^ k) : leDecode (leEncode v k) = v := by
  induction k generalizing v with
  | zero => simp [leEncode, leDecode]; simp at h; omega
  | succ k ih =>
    simp only [leEncode, leDecode]
    have h2 : v / 256 < 256 ^ k := by
      rw [Nat.pow_succ] at h
      exact Nat.div_lt_of_lt_mul (by omega)
    rw [ih _ h2]
    have : (UInt8.ofNat (v % 256)).toNat = v % 256 := by
      simp [UInt8.toNat_ofNat']
    rw [this]
    omega

/-- a value fits its leaf -/
def wfVal (l : Leaf) : Val → Prop
  | .num v => l.isArr = false ∧ v < 256 ^ l.size
  | .arr bs => l.isArr = true ∧ bs.length = l.size

def wfVals : List Leaf → List Val → Prop
  | [], [] => True
  | l :: ls, v :: vs => wfVal l v ∧ wfVals ls vs
  | _, _ => False

theorem writeLeaf_length (l : Leaf) (v : Val) (h : wfVal l v) : (writeLeaf l v).length = l.size := by
  cases v with
  | num n => simp [writeLeaf, leEncode_length]
  | arr bs => exact h.2

theorem readLeaf_wf (l : Leaf) (bs : List UInt8) (h : bs.length = l.size) : wfVal l (readLeaf l bs) := by
  unfold readLeaf
  by_cases c : l.isArr
  · simp [c, wfVal, h]
  · simp only [c, Bool.false_eq_true, if_false, wfVal, true_and]
    rw [← h]; exact leDecode_lt bs

theorem write_readLeaf (l : Leaf) (bs : List UInt8) (h : bs.length = l.size) : writeLeaf l (readLeaf l bs) = bs := by
  unfold readLeaf
  by_cases c : l.isArr
  · simp [c, writeLeaf]
  · simp only [c, Bool.false_eq_true, if_false, writeLeaf]
    rw [← h]; exact leEncode_leDecode bs

theorem read_writeLeaf (l : Leaf) (v : Val) (h : wfVal l v) : readLeaf l (writeLeaf l v) = v := by
  cases v with
  | num n =>
    have := h.1
    simp only [readLeaf, writeLeaf, this, Bool.false_eq_true, if_false]
    rw [leDecode_leEncode n l.size h.2]
  | arr bs =>
    have := h.1
    simp [readLeaf, writeLeaf, this]

theorem zeroVal_wf (l : Leaf) : wfVal l (zeroVal l) := by
  unfold zeroVal
  by_cases c : l.isArr
  · simp [c, wfVal]
  · simp [c, wfVal, Nat.pow_pos]

/-- G1: reading enough bytes succeeds, the values fit, and writing them back reproduces the bytes consumed -/
theorem read_then_write (ls : List Leaf) (bs : List UInt8) (h : total ls ≤ bs.length) :
    ∃ vs, readStruct ls bs = some vs ∧ wfVals ls vs ∧ writeStruct ls vs = bs.take (total ls) := by
  induction ls generalizing bs with
  | nil => exact ⟨[], rfl, trivial, by simp [writeStruct, total]⟩
  | cons l ls ih =>
    have ht : total (l :: ls) = l.size + total ls := by simp [total]
    rw [ht] at h ⊢
    obtain ⟨vs, h1, h2, h3⟩ := ih (bs.drop l.size) (by simp; omega)
    refine ⟨readLeaf l (bs.take l.size) :: vs, ?_, ?_, ?_⟩
    · simp only [readStruct]
      rw [if_neg (by omega), h1]; rfl
    · exact ⟨readLeaf_wf l _ (by simp; omega), h2⟩
    · simp only [writeStruct]
      rw [write_readLeaf l _ (by simp; omega), h3, List.take_add]

theorem writeStruct_length (ls : List Leaf) (vs : List Val) (h : wfVals ls vs) :
    (writeStruct ls vs).length = total ls := by
  induction ls generalizing vs with
  | nil => cases vs <;> simp [writeStruct, total]
  | cons l ls ih =>
    cases vs with
    | nil => exact absurd h (by simp [wfVals])
    | cons v vs =>
      simp only [writeStruct, List.length_append, total, List.map_cons, List.sum_cons]
      rw [writeLeaf_length l v h.1]
      have := ih vs h.2
      simp only [total] at this
      rw [this]

/-- G2: writing fitting values and reading them back returns the same values -/
theorem write_then_read (ls : List Leaf) (vs : List Val) (rest : List UInt8) (h : wfVals ls vs) :
    readStruct ls (writeStruct ls vs ++ rest) = some vs := by
  induction ls generalizing vs with
  | nil => cases vs with
    | nil => rfl
    | cons v vs => exact absurd h (by simp [wfVals])
  | cons l ls ih =>
    cases vs with
    | nil => exact absurd h (by simp [wfVals])
    | cons v vs =>
      have hl := writeLeaf_length l v h.1
      simp only [writeStruct, readStruct, List.append_assoc]
      rw [if_neg (by simp; omega)]
      have e1 : (writeLeaf l v ++ (writeStruct ls vs ++ rest)).drop l.size = writeStruct ls vs ++ rest := by
        rw [← hl]; simp
      have e2 : (writeLeaf l v ++ (writeStruct ls vs ++ rest)).take l.size = writeLeaf l v := by
        rw [← hl]; simp
      rw [e1, e2, ih vs h.2, read_writeLeaf l v h.1]; rfl

/-- leaf and byte offset of a field path -/
def findLeaf : List Leaf → String → Option (Leaf × Nat)
  | [], _ => none
  | l :: ls, name => if l.path = name then some (l, 0) else (findLeaf ls name).map (fun p => (p.1, p.2 + l.size))

/-- G3: every field is decoded from exactly the bytes at its offset -/
theorem getVal_bytes (ls : List Leaf) (bs : List UInt8) (vs : List Val) (name : String) (l : Leaf) (off : Nat)
    (h : readStruct ls bs = some vs) (hf : findLeaf ls name = some (l, off)) :
    getVal ls vs name = some (readLeaf l ((bs.drop off).take l.size)) := by
  induction ls generalizing bs vs off with
  | nil => simp [findLeaf] at hf
  | cons l0 ls ih =>
    simp only [readStruct] at h
    by_cases c : bs.length < l0.size
    · simp [c] at h
    · rw [if_neg c] at h
      cases hr : readStruct ls (bs.drop l0.size) with
      | none => rw [hr] at h; simp at h
      | some vs0 =>
        rw [hr] at h
        simp only [Option.map_some, Option.some.injEq] at h
        subst h
        simp only [findLeaf] at hf
        by_cases cn : l0.path = name
        · rw [if_pos cn] at hf
          simp only [Option.some.injEq, Prod.mk.injEq] at hf
          obtain ⟨rfl, rfl⟩ := hf
          simp [getVal, cn]
        · rw [if_neg cn] at hf
          cases hf0 : findLeaf ls name with
          | none => rw [hf0] at hf; simp at hf
          | some p =>
            rw [hf0] at hf
            simp only [Option.map_some, Option.some.injEq, Prod.mk.injEq] at hf
            obtain ⟨rfl, rfl⟩ := hf
            simp only [getVal, cn, if_false]
            rw [ih (bs.drop l0.size) vs0 p.2 hr (by rw [hf0])]
            simp [List.drop_drop, Nat.add_comm]

/-! zeroing -/

theorem zeroFields_wf (ls : List Leaf) (vs : List Val) (names : List String) (h : wfVals ls vs) :
    wfVals ls (zeroFields ls vs names) := by
  induction ls generalizing vs with
  | nil => cases vs <;> simp_all [zeroFields, wfVals]
  | cons l ls ih =>
    cases vs with
    | nil => exact absurd h (by simp [wfVals])
    | cons v vs =>
      simp only [zeroFields, wfVals]
      refine ⟨?_, ih vs h.2⟩
      split
      · exact zeroVal_wf l
      · exact h.1

theorem zeroFields_idem (ls : List Leaf) (vs : List Val) (names : List String) (h : wfVals ls vs) :
    zeroFields ls (zeroFields ls vs names) names = zeroFields ls vs names := by
  induction ls generalizing vs with
  | nil => cases vs <;> simp [zeroFields]
  | cons l ls ih =>
    cases vs with
    | nil => exact absurd h (by simp [wfVals])
    | cons v vs =>
      simp only [zeroFields]
      rw [ih vs h.2]
      split <;> rfl

theorem getVal_zeroFields (ls : List Leaf) (vs : List Val) (names : List String) (name : String)
    (h : wfVals ls vs) (hn : names.contains name = false) :
    getVal ls (zeroFields ls vs names) name = getVal ls vs name := by
  induction ls generalizing vs with
  | nil => cases vs <;> simp [zeroFields, getVal]
  | cons l ls ih =>
    cases vs with
    | nil => exact absurd h (by simp [wfVals])
    | cons v vs =>
      simp only [zeroFields, getVal]
      by_cases c : l.path = name
      · rw [if_pos c, if_pos c]
        rw [c, hn]; simp
      · rw [if_neg c, if_neg c]; exact ih vs h.2

/-- every zeroed leaf lies wholly below byte `n` -/
def zeroedBelow : List Leaf → List String → Nat → Bool
  | [], _, _ => true
  | l :: ls, names, n =>
    (if names.contains l.path then decide (l.size ≤ n) else true) && zeroedBelow ls names (n - l.size)

theorem drop_zeroFields (ls : List Leaf) (vs : List Val) (names : List String) (n : Nat)
    (h : wfVals ls vs) (hz : zeroedBelow ls names n = true) :
    (writeStruct ls (zeroFields ls vs names)).drop n = (writeStruct ls vs).drop n := by
  induction ls generalizing vs n with
  | nil => cases vs <;> simp [zeroFields, writeStruct]
  | cons l ls ih =>
    cases vs with
    | nil => exact absurd h (by simp [wfVals])
    | cons v vs =>
      simp only [zeroedBelow, Bool.and_eq_true] at hz
      simp only [zeroFields, writeStruct]
      have hl := writeLeaf_length l v h.1
      by_cases c : names.contains l.path
      · rw [if_pos c]
        have hs : l.size ≤ n := by
          have := hz.1; rw [if_pos c] at this; simpa using this
        have hl0 := writeLeaf_length l (zeroVal l) (zeroVal_wf l)
        rw [List.drop_append, List.drop_append]
        have e0 : (writeLeaf l (zeroVal l)).drop n = [] := List.drop_of_length_le (by omega)
        have e1 : (writeLeaf l v).drop n = [] := List.drop_of_length_le (by omega)
        rw [e0, e1, hl0, hl]
        simp only [List.nil_append]
        exact ih vs (n - l.size) h.2 hz.2
      · rw [if_neg c]
        rw [List.drop_append, List.drop_append, hl]
        congr 1
        exact ih vs (n - l.size) h.2 hz.2

/-! splicing -/

theorem splice_self (img : List UInt8) (pos n : Nat) (h : pos + n ≤ img.length) :
    splice img pos ((img.drop pos).take n) = img := by
  unfold splice
  have hl : ((img.drop pos).take n).length = n := by simp; omega
  rw [hl]
  have : img.drop (pos + n) = (img.drop pos).drop n := by rw [List.drop_drop]
  rw [this, List.append_assoc, List.take_append_drop, List.take_append_drop]

end HeaderModel
