/- The reference invariant: dangling references point at distinct operand bytes inside the emitted code. -/
import SnesVerif.Asm.Finalize
namespace AsmModel
open Gen
set_option maxRecDepth 100000

/-- code positions Finalize may write for signed-8 / absolute-16 references -/
def potS8 (base : Nat) (m : List (String × List Nat)) : List Nat := m.flatMap (fun p => p.2.map (· - base))
def potU16 (base : Nat) (m : List (String × List Nat)) : List Nat :=
  m.flatMap (fun p => p.2.flatMap (fun r => [r - base, r - base + 1]))

structure RefsInv (e : Em) : Prop where
  s8b : ∀ p ∈ e.dS8, ∀ r ∈ p.2, e.base ≤ r ∧ r - e.base < e.code.length
  u16b : ∀ p ∈ e.dU16, ∀ r ∈ p.2, e.base ≤ r ∧ r - e.base + 2 ≤ e.code.length
  nodup : (potS8 e.base e.dS8 ++ potU16 e.base e.dU16).Nodup

/-! association-list facts -/

theorem lookup_setKey_mem {α : Type} (m : List (String × α)) (k : String) (v : α) (p : String × α)
    (h : p ∈ setKey m k v) : p = (k, v) ∨ p ∈ m := by
  induction m with
  | nil => simp [setKey] at h; exact Or.inl h
  | cons q rest ih =>
    obtain ⟨k', w⟩ := q
    simp only [setKey] at h
    by_cases c : k' = k
    · rw [if_pos c] at h
      rcases List.mem_cons.mp h with h | h
      · exact Or.inl (by rw [h, c])
      · exact Or.inr (List.mem_cons_of_mem _ h)
    · rw [if_neg c] at h
      rcases List.mem_cons.mp h with h | h
      · exact Or.inr (by rw [h]; exact List.mem_cons_self ..)
      · rcases ih h with h | h
        · exact Or.inl h
        · exact Or.inr (List.mem_cons_of_mem _ h)

theorem lookup_mem {α : Type} (m : List (String × α)) (k : String) (v : α) (h : lookup m k = some v) : (k, v) ∈ m := by
  induction m with
  | nil => simp [lookup] at h
  | cons q rest ih =>
    obtain ⟨k', w⟩ := q
    simp only [lookup] at h
    by_cases c : k' = k
    · rw [if_pos c] at h; simp at h; subst h; subst c; exact List.mem_cons_self ..
    · rw [if_neg c] at h; exact List.mem_cons_of_mem _ (ih h)

/-- references of `addRef m k r`: those of `m` plus `r` -/
theorem addRef_refs (m : List (String × List Nat)) (k : String) (r : Nat) (p : String × List Nat)
    (hp : p ∈ addRef m k r) (x : Nat) (hx : x ∈ p.2) : x = r ∨ ∃ q ∈ m, x ∈ q.2 := by
  unfold addRef at hp
  rcases lookup_setKey_mem m k _ p hp with h | h
  · subst h
    simp only [List.mem_append, List.mem_singleton] at hx
    rcases hx with hx | hx
    · cases hl : lookup m k with
      | none => rw [hl] at hx; simp at hx
      | some v => rw [hl] at hx; exact Or.inr ⟨(k, v), lookup_mem m k v hl, hx⟩
    · exact Or.inl hx
  · exact Or.inr ⟨p, h, hx⟩

/-- adding a reference permutes the flattened image: `f [r]` is inserted somewhere -/
theorem addRef_perm (f : List Nat → List Nat) (hf : ∀ a b, f (a ++ b) = f a ++ f b)
    (m : List (String × List Nat)) (k : String) (r : Nat) :
    ((addRef m k r).flatMap (fun p => f p.2)).Perm (f [r] ++ m.flatMap (fun p => f p.2)) := by
  induction m with
  | nil =>
    simp only [addRef, lookup, Option.getD_none, List.nil_append, setKey, List.flatMap_cons, List.flatMap_nil, List.append_nil]
    exact List.Perm.refl _
  | cons q rest ih =>
    obtain ⟨k', v⟩ := q
    unfold addRef at ih ⊢
    simp only [lookup, setKey]
    by_cases c : k' = k
    · simp only [if_pos c, Option.getD_some, List.flatMap_cons, hf]
      rw [List.append_assoc]
      exact (List.perm_append_comm_assoc _ _ _)
    · simp only [if_neg c, List.flatMap_cons]
      have h2 : (f v ++ (f [r] ++ rest.flatMap (fun p => f p.2))).Perm (f [r] ++ (f v ++ rest.flatMap (fun p => f p.2))) :=
        List.perm_append_comm_assoc _ _ _
      exact (List.Perm.append_left _ ih).trans h2

theorem potS8_addRef (base : Nat) (m : List (String × List Nat)) (k : String) (r : Nat) :
    (potS8 base (addRef m k r)).Perm ((r - base) :: potS8 base m) := by
  have := addRef_perm (fun l => l.map (· - base)) (fun a b => List.map_append) m k r
  simpa [potS8] using this

theorem potU16_addRef (base : Nat) (m : List (String × List Nat)) (k : String) (r : Nat) :
    (potU16 base (addRef m k r)).Perm ((r - base) :: (r - base + 1) :: potU16 base m) := by
  have := addRef_perm (fun l => l.flatMap (fun r => [r - base, r - base + 1])) (fun a b => List.flatMap_append) m k r
  simpa [potU16] using this

theorem potS8_lt (e : Em) (hr : RefsInv e) (x : Nat) (hx : x ∈ potS8 e.base e.dS8) : x < e.code.length := by
  simp only [potS8, List.mem_flatMap, List.mem_map] at hx
  obtain ⟨p, hp, r, hr', rfl⟩ := hx
  exact (hr.s8b p hp r hr').2

theorem potU16_lt (e : Em) (hr : RefsInv e) (x : Nat) (hx : x ∈ potU16 e.base e.dU16) : x < e.code.length := by
  simp only [potU16, List.mem_flatMap, List.mem_cons, List.not_mem_nil, or_false] at hx
  obtain ⟨p, hp, r, hr', h⟩ := hx
  have := (hr.u16b p hp r hr').2
  rcases h with rfl | rfl <;> omega

/-- the invariant only depends on base, code length and the two maps -/
theorem refsInv_grow (e e' : Em) (hr : RefsInv e) (hb : e'.base = e.base) (h8 : e'.dS8 = e.dS8) (h16 : e'.dU16 = e.dU16)
    (hl : e.code.length ≤ e'.code.length) : RefsInv e' := by
  constructor
  · intro p hp r hr'
    rw [h8] at hp; rw [hb]
    have := hr.s8b p hp r hr'; omega
  · intro p hp r hr'
    rw [h16] at hp; rw [hb]
    have := hr.u16b p hp r hr'; omega
  · rw [hb, h8, h16]; exact hr.nodup

/-- the write positions of Finalize are a sub-list of the potential positions, hence pairwise distinct -/
theorem allS8Writes_sub (labels : List (String × Nat)) (base : Nat) (m : List (String × List Nat)) :
    ((allS8Writes labels base m).map (·.1)).Sublist (potS8 base m) := by
  induction m with
  | nil => exact List.Sublist.refl _
  | cons p rest ih =>
    simp only [allS8Writes, potS8, List.flatMap_cons, List.map_append] at ih ⊢
    apply List.Sublist.append _ ih
    cases lookup labels p.1 with
    | none => simp
    | some t => simp [s8Writes, List.map_map]; exact List.Sublist.refl _

theorem allU16Writes_sub (labels : List (String × Nat)) (base : Nat) (m : List (String × List Nat)) :
    ((allU16Writes labels base m).map (·.1)).Sublist (potU16 base m) := by
  induction m with
  | nil => exact List.Sublist.refl _
  | cons p rest ih =>
    simp only [allU16Writes, potU16, List.flatMap_cons, List.map_append] at ih ⊢
    apply List.Sublist.append _ ih
    cases lookup labels p.1 with
    | none => simp
    | some t =>
      simp only [u16Writes]
      induction p.2 with
      | nil => simp
      | cons r rs ih2 => simp only [List.flatMap_cons, List.map_append, List.map_cons, List.map_nil]; exact List.Sublist.append (List.Sublist.refl _) ih2

theorem allWrites_nodup (e : Em) (hr : RefsInv e) : ((allWrites e).map (·.1)).Nodup := by
  unfold allWrites
  rw [List.map_append]
  exact List.Nodup.sublist (List.Sublist.append (allS8Writes_sub _ _ _) (allU16Writes_sub _ _ _)) hr.nodup

end AsmModel
