/- Finalize as a sequence of byte writes; frame and value lemmas. -/
import SnesVerif.Asm.Listing
namespace AsmModel
set_option maxRecDepth 100000

/-- apply byte writes (position, value) in order -/
def applyWrites (code : List Nat) : List (Nat × Nat) → List Nat
  | [] => code
  | w :: ws => applyWrites (code.set w.1 w.2) ws

theorem applyWrites_length (code : List Nat) (ws : List (Nat × Nat)) : (applyWrites code ws).length = code.length := by
  induction ws generalizing code with
  | nil => rfl
  | cons w ws ih => simp [applyWrites, ih]

theorem applyWrites_append (code : List Nat) (xs ys : List (Nat × Nat)) :
    applyWrites code (xs ++ ys) = applyWrites (applyWrites code xs) ys := by
  induction xs generalizing code with
  | nil => rfl
  | cons w ws ih => simp [applyWrites, ih]

/-- frame: positions that are not written keep their value -/
theorem applyWrites_frame (code : List Nat) (ws : List (Nat × Nat)) (j : Nat) (h : ∀ w ∈ ws, w.1 ≠ j) :
    (applyWrites code ws)[j]? = code[j]? := by
  induction ws generalizing code with
  | nil => rfl
  | cons w ws ih =>
    simp only [applyWrites]
    rw [ih _ (fun w' hw' => h w' (List.mem_cons_of_mem _ hw'))]
    exact List.getElem?_set_ne (h w (List.mem_cons_self ..))

/-- value: with pairwise distinct positions, every write is visible at the end -/
theorem applyWrites_value (code : List Nat) (ws : List (Nat × Nat)) (hn : (ws.map (·.1)).Nodup)
    (w : Nat × Nat) (hw : w ∈ ws) (hb : w.1 < code.length) :
    (applyWrites code ws)[w.1]? = some w.2 := by
  induction ws generalizing code with
  | nil => simp at hw
  | cons x xs ih =>
    simp only [List.map_cons, List.nodup_cons] at hn
    simp only [applyWrites]
    rcases List.mem_cons.mp hw with rfl | hmem
    · rw [applyWrites_frame _ xs w.1 (fun w' hw' heq => hn.1 (by rw [← heq]; exact List.mem_map_of_mem hw'))]
      simp [hb]
    · exact ih _ hn.2 hmem (by simp; exact hb)

/-! ### patch loops as write lists -/

def s8Writes (base t : Nat) (refs : List Nat) : List (Nat × Nat) := refs.map (fun r => (r - base, s8Byte t r))
def u16Writes (base t : Nat) (refs : List Nat) : List (Nat × Nat) :=
  refs.flatMap (fun r => [(r - base, t % 256), (r - base + 1, t / 256 % 256)])

def okS8 (base t len : Nat) (r : Nat) : Prop := inS8Range t r = true ∧ base ≤ r ∧ r - base < len
def okU16 (base len : Nat) (r : Nat) : Prop := base ≤ r ∧ r - base + 2 ≤ len

instance (base t len r : Nat) : Decidable (okS8 base t len r) := by unfold okS8; exact inferInstance
instance (base len r : Nat) : Decidable (okU16 base len r) := by unfold okU16; exact inferInstance

/-- whatever happens, the result of `patchS8` is the code with a prefix of the label's writes applied; it succeeds
exactly when every reference is in range and inside the code, and then all writes are applied -/
theorem patchS8_spec (base t : Nat) (refs code : List Nat) :
    (∃ ws, ws <+: s8Writes base t refs ∧ (patchS8 base t refs code).1 = applyWrites code ws) ∧
    ((patchS8 base t refs code).2 = .ok ↔ ∀ r ∈ refs, okS8 base t code.length r) ∧
    ((patchS8 base t refs code).2 = .ok → (patchS8 base t refs code).1 = applyWrites code (s8Writes base t refs)) := by
  induction refs generalizing code with
  | nil => exact ⟨⟨[], List.nil_prefix, rfl⟩, by simp [patchS8], fun _ => rfl⟩
  | cons r rs ih =>
    simp only [patchS8]
    by_cases h1 : inS8Range t r = true
    · by_cases h2 : r < base ∨ r - base ≥ code.length
      · simp only [h1, Bool.not_true, Bool.false_eq_true, if_false, h2, if_true]
        refine ⟨⟨[], List.nil_prefix, rfl⟩, ?_, by simp⟩
        simp only [reduceCtorEq, false_iff]
        intro hall
        have := hall r (List.mem_cons_self ..)
        unfold okS8 at this; omega
      · simp only [h1, Bool.not_true, Bool.false_eq_true, if_false, h2]
        obtain ⟨⟨ws, hp, he⟩, hiff, hall⟩ := ih (code.set (r - base) (s8Byte t r))
        refine ⟨⟨(r - base, s8Byte t r) :: ws, ?_, ?_⟩, ?_, ?_⟩
        · simp only [s8Writes, List.map_cons]; exact List.prefix_cons_inj _ |>.mpr hp
        · rw [he]; rfl
        · rw [hiff]
          simp only [List.length_set, List.mem_cons, forall_eq_or_imp]
          constructor
          · intro h; exact ⟨⟨h1, by omega, by omega⟩, h⟩
          · intro h; exact h.2
        · intro hok; rw [hall hok]; rfl
    · simp only [h1, Bool.not_false, if_true]
      refine ⟨⟨[], List.nil_prefix, rfl⟩, ?_, by simp⟩
      simp only [reduceCtorEq, false_iff]
      intro hall
      have := hall r (List.mem_cons_self ..)
      unfold okS8 at this; exact h1 this.1

theorem patchU16_spec (base t : Nat) (refs code : List Nat) :
    (∃ ws, ws <+: u16Writes base t refs ∧ (patchU16 base t refs code).1 = applyWrites code ws) ∧
    ((patchU16 base t refs code).2 = .ok ↔ ∀ r ∈ refs, okU16 base code.length r) ∧
    ((patchU16 base t refs code).2 = .ok → (patchU16 base t refs code).1 = applyWrites code (u16Writes base t refs)) := by
  induction refs generalizing code with
  | nil => exact ⟨⟨[], List.nil_prefix, rfl⟩, by simp [patchU16], fun _ => rfl⟩
  | cons r rs ih =>
    simp only [patchU16]
    by_cases h2 : r < base ∨ r - base + 2 > code.length
    · simp only [h2, if_true]
      refine ⟨⟨[], List.nil_prefix, rfl⟩, ?_, by simp⟩
      simp only [reduceCtorEq, false_iff]
      intro hall
      have := hall r (List.mem_cons_self ..)
      unfold okU16 at this; omega
    · simp only [h2, if_false]
      obtain ⟨⟨ws, hp, he⟩, hiff, hall⟩ := ih ((code.set (r - base) (t % 256)).set (r - base + 1) (t / 256 % 256))
      refine ⟨⟨(r - base, t % 256) :: (r - base + 1, t / 256 % 256) :: ws, ?_, ?_⟩, ?_, ?_⟩
      · simp only [u16Writes, List.flatMap_cons, List.cons_append, List.nil_append]
        exact (List.prefix_cons_inj _).mpr ((List.prefix_cons_inj _).mpr hp)
      · rw [he]; rfl
      · rw [hiff]
        simp only [List.length_set, List.mem_cons, forall_eq_or_imp]
        constructor
        · intro h; exact ⟨⟨by omega, by omega⟩, h⟩
        · intro h; exact h.2
      · intro hok; rw [hall hok]; rfl

end AsmModel

namespace AsmModel

def allS8Writes (labels : List (String × Nat)) (base : Nat) (l : List (String × List Nat)) : List (Nat × Nat) :=
  l.flatMap (fun p => match lookup labels p.1 with | some t => s8Writes base t p.2 | none => [])

def allU16Writes (labels : List (String × Nat)) (base : Nat) (l : List (String × List Nat)) : List (Nat × Nat) :=
  l.flatMap (fun p => match lookup labels p.1 with | some t => u16Writes base t p.2 | none => [])

def ResolvedS8 (labels : List (String × Nat)) (base len : Nat) (l : List (String × List Nat)) : Prop :=
  ∀ p ∈ l, ∃ t, lookup labels p.1 = some t ∧ ∀ r ∈ p.2, okS8 base t len r

def ResolvedU16 (labels : List (String × Nat)) (base len : Nat) (l : List (String × List Nat)) : Prop :=
  ∀ p ∈ l, ∃ t, lookup labels p.1 = some t ∧ ∀ r ∈ p.2, okU16 base len r

theorem finS8_spec (e : Em) (l : List (String × List Nat)) :
    (finS8 e l).1.labels = e.labels ∧ (finS8 e l).1.base = e.base ∧ (finS8 e l).1.dU16 = e.dU16 ∧
    (∃ ws, ws <+: allS8Writes e.labels e.base l ∧ (finS8 e l).1.code = applyWrites e.code ws) ∧
    ((finS8 e l).2 = .ok ↔ ResolvedS8 e.labels e.base e.code.length l) ∧
    ((finS8 e l).2 = .ok → (finS8 e l).1.code = applyWrites e.code (allS8Writes e.labels e.base l)) := by
  induction l generalizing e with
  | nil => exact ⟨rfl, rfl, rfl, ⟨[], List.nil_prefix, rfl⟩, by simp [finS8, ResolvedS8], fun _ => rfl⟩
  | cons p rest ih =>
    obtain ⟨lbl, refs⟩ := p
    simp only [finS8]
    cases hl : lookup e.labels lbl with
    | none =>
      refine ⟨rfl, rfl, rfl, ⟨[], List.nil_prefix, rfl⟩, ?_, by simp⟩
      simp only [reduceCtorEq, false_iff, ResolvedS8]
      intro h
      obtain ⟨t, ht, _⟩ := h (lbl, refs) (List.mem_cons_self ..)
      simp only at ht
      rw [hl] at ht; simp at ht
    | some t =>
      simp only
      obtain ⟨⟨ws1, hp1, he1⟩, hiff1, hall1⟩ := patchS8_spec e.base t refs e.code
      have hw : allS8Writes e.labels e.base ((lbl, refs) :: rest) = s8Writes e.base t refs ++ allS8Writes e.labels e.base rest := by
        simp only [allS8Writes, List.flatMap_cons, hl]
      by_cases hok : (patchS8 e.base t refs e.code).2 = .ok
      · rw [if_pos hok]
        have := ih { e with code := (patchS8 e.base t refs e.code).1, dS8 := delKey e.dS8 lbl }
        obtain ⟨a1, a2, a3, ⟨ws, hp, he⟩, hiff, hall⟩ := this
        have hcode := hall1 hok
        have hlen : (patchS8 e.base t refs e.code).1.length = e.code.length := by rw [hcode, applyWrites_length]
        refine ⟨a1, a2, a3, ⟨s8Writes e.base t refs ++ ws, ?_, ?_⟩, ?_, ?_⟩
        · rw [hw]; exact (List.prefix_append_right_inj _).mpr hp
        · rw [he, hcode, applyWrites_append]
        · rw [hiff, hlen]
          simp only [ResolvedS8, List.mem_cons, forall_eq_or_imp]
          constructor
          · intro h; exact ⟨⟨t, hl, hiff1.mp hok⟩, h⟩
          · intro h; exact h.2
        · intro h; rw [hall h, hcode, hw, applyWrites_append]
      · have hne : (patchS8 e.base t refs e.code).2 ≠ .ok := hok
        rw [if_neg hok]
        refine ⟨rfl, rfl, rfl, ⟨ws1, ?_, he1⟩, ?_, fun h => absurd h hne⟩
        · rw [hw]; exact List.IsPrefix.trans hp1 (List.prefix_append _ _)
        · simp only [ResolvedS8, List.mem_cons, forall_eq_or_imp]
          constructor
          · intro h; exact absurd h hne
          · intro h
            obtain ⟨⟨t', ht', hr⟩, _⟩ := h
            rw [hl] at ht'; simp at ht'; subst ht'
            exact absurd (hiff1.mpr hr) hne

theorem finU16_spec (e : Em) (l : List (String × List Nat)) :
    (finU16 e l).1.labels = e.labels ∧ (finU16 e l).1.base = e.base ∧
    (∃ ws, ws <+: allU16Writes e.labels e.base l ∧ (finU16 e l).1.code = applyWrites e.code ws) ∧
    ((finU16 e l).2 = .ok ↔ ResolvedU16 e.labels e.base e.code.length l) ∧
    ((finU16 e l).2 = .ok → (finU16 e l).1.code = applyWrites e.code (allU16Writes e.labels e.base l)) := by
  induction l generalizing e with
  | nil => exact ⟨rfl, rfl, ⟨[], List.nil_prefix, rfl⟩, by simp [finU16, ResolvedU16], fun _ => rfl⟩
  | cons p rest ih =>
    obtain ⟨lbl, refs⟩ := p
    simp only [finU16]
    cases hl : lookup e.labels lbl with
    | none =>
      refine ⟨rfl, rfl, ⟨[], List.nil_prefix, rfl⟩, ?_, by simp⟩
      simp only [reduceCtorEq, false_iff, ResolvedU16]
      intro h
      obtain ⟨t, ht, _⟩ := h (lbl, refs) (List.mem_cons_self ..)
      simp only at ht
      rw [hl] at ht; simp at ht
    | some t =>
      simp only
      obtain ⟨⟨ws1, hp1, he1⟩, hiff1, hall1⟩ := patchU16_spec e.base t refs e.code
      have hw : allU16Writes e.labels e.base ((lbl, refs) :: rest) = u16Writes e.base t refs ++ allU16Writes e.labels e.base rest := by
        simp only [allU16Writes, List.flatMap_cons, hl]
      by_cases hok : (patchU16 e.base t refs e.code).2 = .ok
      · rw [if_pos hok]
        have := ih { e with code := (patchU16 e.base t refs e.code).1, dU16 := delKey e.dU16 lbl }
        obtain ⟨a1, a2, ⟨ws, hp, he⟩, hiff, hall⟩ := this
        have hcode := hall1 hok
        have hlen : (patchU16 e.base t refs e.code).1.length = e.code.length := by rw [hcode, applyWrites_length]
        refine ⟨a1, a2, ⟨u16Writes e.base t refs ++ ws, ?_, ?_⟩, ?_, ?_⟩
        · rw [hw]; exact (List.prefix_append_right_inj _).mpr hp
        · rw [he, hcode, applyWrites_append]
        · rw [hiff, hlen]
          simp only [ResolvedU16, List.mem_cons, forall_eq_or_imp]
          constructor
          · intro h; exact ⟨⟨t, hl, hiff1.mp hok⟩, h⟩
          · intro h; exact h.2
        · intro h; rw [hall h, hcode, hw, applyWrites_append]
      · have hne : (patchU16 e.base t refs e.code).2 ≠ .ok := hok
        rw [if_neg hok]
        refine ⟨rfl, rfl, ⟨ws1, ?_, he1⟩, ?_, fun h => absurd h hne⟩
        · rw [hw]; exact List.IsPrefix.trans hp1 (List.prefix_append _ _)
        · simp only [ResolvedU16, List.mem_cons, forall_eq_or_imp]
          constructor
          · intro h; exact absurd h hne
          · intro h
            obtain ⟨⟨t', ht', hr⟩, _⟩ := h
            rw [hl] at ht'; simp at ht'; subst ht'
            exact absurd (hiff1.mpr hr) hne

/-- all the writes Finalize performs when it succeeds -/
def allWrites (e : Em) : List (Nat × Nat) :=
  allS8Writes e.labels e.base e.dS8 ++ allU16Writes e.labels e.base e.dU16

/-- **Finalize as writes**: its result code is the original with a prefix of `allWrites` applied; it succeeds exactly when
every reference is resolved, in range and inside the code; on success all writes are applied -/
theorem finalize_spec (e : Em) :
    (∃ ws, ws <+: allWrites e ∧ (finalize e).1.code = applyWrites e.code ws) ∧
    ((finalize e).2 = .ok ↔ ResolvedS8 e.labels e.base e.code.length e.dS8 ∧ ResolvedU16 e.labels e.base e.code.length e.dU16) ∧
    ((finalize e).2 = .ok → (finalize e).1.code = applyWrites e.code (allWrites e)) := by
  obtain ⟨s1, s2, s3, ⟨ws1, hp1, he1⟩, hiff1, hall1⟩ := finS8_spec e e.dS8
  unfold finalize
  simp only
  by_cases hok : (finS8 e e.dS8).2 = .ok
  · rw [if_pos hok]
    obtain ⟨u1, u2, ⟨ws2, hp2, he2⟩, hiff2, hall2⟩ := finU16_spec (finS8 e e.dS8).1 (finS8 e e.dS8).1.dU16
    have hcode := hall1 hok
    have hlen : (finS8 e e.dS8).1.code.length = e.code.length := by rw [hcode, applyWrites_length]
    rw [s1, s2] at hp2 hiff2 hall2
    rw [s3] at hp2
    have hiff2' : (finU16 (finS8 e e.dS8).1 (finS8 e e.dS8).1.dU16).2 = .ok ↔
        ResolvedU16 e.labels e.base (finS8 e e.dS8).1.code.length e.dU16 := by rw [hiff2, s3]
    have hall2' : (finU16 (finS8 e e.dS8).1 (finS8 e e.dS8).1.dU16).2 = .ok →
        (finU16 (finS8 e e.dS8).1 (finS8 e e.dS8).1.dU16).1.code =
          applyWrites (finS8 e e.dS8).1.code (allU16Writes e.labels e.base e.dU16) := by
      intro h; rw [hall2 h, s3]
    refine ⟨⟨allS8Writes e.labels e.base e.dS8 ++ ws2, (List.prefix_append_right_inj _).mpr hp2, ?_⟩, ?_, ?_⟩
    · rw [he2, hcode, applyWrites_append]
    · rw [hiff2', hlen]; exact ⟨fun h => ⟨hiff1.mp hok, h⟩, fun h => h.2⟩
    · intro h; rw [hall2' h, hcode]; unfold allWrites; rw [applyWrites_append]
  · rw [if_neg hok]
    refine ⟨⟨ws1, List.IsPrefix.trans hp1 (List.prefix_append _ _), he1⟩, ?_, fun h => absurd h hok⟩
    exact ⟨fun h => absurd h hok, fun h => absurd (hiff1.mpr h.1) hok⟩

end AsmModel
