/- Emitter call histories as data. -/
import SnesVerif.Asm.Lemmas
namespace AsmModel
open Gen

inductive Op
  | ins (m : AsmMethod) (args : List Nat) (lbl : String)
  | bytes (b : List Nat)
  | label (name : String)
  | comment (s : String)
  | setBase (a : Nat)

def step (e : Em) : Op → Em × Res
  | .ins m a l => ins e m a l
  | .bytes b => emitBytes e b
  | .label n => label e n
  | .comment s => (comment e s, .ok)
  | .setBase a => (setBase e a, .ok)

def run (e : Em) (ops : List Op) : Em := ops.foldl (fun e o => (step e o).1) e

/-- every call of the history was accepted -/
def allAccepted (e : Em) : List Op → Prop
  | [] => True
  | o :: os => (step e o).2 = .ok ∧ allAccepted (step e o).1 os

/-- the tracker-updated emitter an instruction method hands to emitN -/
def tracked (e : Em) (m : AsmMethod) (args : List Nat) : Em :=
  match m.track with
  | .none => e
  | .rep i => { e with flags := assumeREP e.flags (args.getD i 0) }
  | .sep i => { e with flags := assumeSEP e.flags (args.getD i 0) }

theorem ins_eq (e : Em) (m : AsmMethod) (args : List Nat) (lbl : String) :
    ins e m args lbl =
      if !guardOK m.guard e.flags then (e, .refused)
      else emit (tracked e m args) (lineKindOf m.kind (m.bytes.map (AsmExpect.evalB args)).length)
        (m.bytes.map (AsmExpect.evalB args)) m.ins lbl m.fmt
        (dangOf m.kind) := by
  unfold ins tracked; rfl

theorem tracked_fields (e : Em) (m : AsmMethod) (args : List Nat) :
    (tracked e m args).code = e.code ∧ (tracked e m args).address = e.address ∧ (tracked e m args).cap = e.cap ∧
    (tracked e m args).labels = e.labels ∧ (tracked e m args).genText = e.genText ∧ (tracked e m args).lines = e.lines ∧
    (tracked e m args).base = e.base ∧ (tracked e m args).baseSet = e.baseSet ∧
    (tracked e m args).dS8 = e.dS8 ∧ (tracked e m args).dU16 = e.dU16 := by
  unfold tracked; cases m.track <;> simp

/-- what an `emitN` does to the fields the properties talk about -/
theorem emit_fields (e : Em) (k : LineKind) (d : List Nat) (i l f : String) (dg : Dangling) :
    ((emit e k d i l f dg).2 = .refused ∧ (emit e k d i l f dg).1 = e ∧ ∃ c, e.cap = some c ∧ c < e.code.length + d.length) ∨
    ((emit e k d i l f dg).2 = .ok ∧
      (emit e k d i l f dg).1.address = e.address + d.length ∧
      (emit e k d i l f dg).1.labels = e.labels ∧ (emit e k d i l f dg).1.flags = e.flags ∧
      (emit e k d i l f dg).1.cap = e.cap ∧ (emit e k d i l f dg).1.genText = e.genText ∧
      (emit e k d i l f dg).1.base = e.base ∧
      ((e.cap = none ∧ (emit e k d i l f dg).1.code = e.code) ∨
       (∃ c, e.cap = some c ∧ e.code.length + d.length ≤ c ∧ (emit e k d i l f dg).1.code = e.code ++ d))) := by
  unfold emit
  cases hw : write e d with
  | none => exact Or.inl ⟨rfl, rfl, AsmLemmas.write_none e d hw⟩
  | some e2 =>
    refine Or.inr ?_
    rcases AsmLemmas.write_some e e2 d hw with ⟨hn, rfl⟩ | ⟨c, hc, hle, rfl⟩
    · simp only [emitTail]
      refine ⟨trivial, ?_, ?_, ?_, ?_, ?_, ?_, Or.inl ⟨hn, ?_⟩⟩ <;>
        (cases dg <;> simp only [emitBase] <;> (repeat' split) <;> simp)
    · simp only [emitTail]
      refine ⟨trivial, ?_, ?_, ?_, ?_, ?_, ?_, Or.inr ⟨c, hc, hle, ?_⟩⟩ <;>
        (cases dg <;> simp only [emitBase] <;> (repeat' split) <;> simp)

/-- the fields of an `emitBytes` result -/
theorem emitBytes_fields (e : Em) (b : List Nat) :
    ((emitBytes e b).2 = .refused ∧ (emitBytes e b).1.code = e.code ∧ (emitBytes e b).1.address = e.address ∧
        (emitBytes e b).1.labels = e.labels ∧ (emitBytes e b).1.cap = e.cap ∧ (∃ c, e.cap = some c ∧ c < e.code.length + b.length) ∧
        (emitBytes e b).1.genText = e.genText) ∨
    ((emitBytes e b).2 = .ok ∧ (emitBytes e b).1.address = e.address + b.length ∧
      (emitBytes e b).1.labels = e.labels ∧ (emitBytes e b).1.flags = e.flags ∧ (emitBytes e b).1.cap = e.cap ∧
      ((e.cap = none ∧ (emitBytes e b).1.code = e.code) ∨
       (∃ c, e.cap = some c ∧ e.code.length + b.length ≤ c ∧ (emitBytes e b).1.code = e.code ++ b)) ∧
      (emitBytes e b).1.genText = e.genText) := by
  unfold emitBytes
  generalize he1 : (if e.genText = true then
      { emitBase e with lines := (emitBase e).lines ++ dbLines (emitBase e).address b } else e) = e1
  have hf : e1.code = e.code ∧ e1.address = e.address ∧ e1.labels = e.labels ∧ e1.cap = e.cap ∧ e1.flags = e.flags ∧ e1.genText = e.genText := by
    subst he1; simp only [emitBase]; (repeat' split) <;> simp_all
  obtain ⟨f1, f2, f3, f4, f5, f6⟩ := hf
  simp only
  cases hw : write e1 b with
  | none =>
    obtain ⟨c, hc, hlt⟩ := AsmLemmas.write_none e1 b hw
    exact Or.inl ⟨rfl, f1, f2, f3, f4, ⟨c, by rw [← f4]; exact hc, by rw [← f1]; exact hlt⟩, f6⟩
  | some e2 =>
    refine Or.inr ?_
    rcases AsmLemmas.write_some e1 e2 b hw with ⟨hn, rfl⟩ | ⟨c, hc, hle, rfl⟩
    · exact ⟨rfl, by simp [f2], f3, f5, f4, Or.inl ⟨by rw [← f4]; exact hn, f1⟩, f6⟩
    · exact ⟨rfl, by simp [f2], f3, f5, f4, Or.inr ⟨c, by rw [← f4]; exact hc, by rw [← f1]; exact hle, by simp [f1]⟩, by simp [f6]⟩

theorem label_fields (e : Em) (n : String) :
    ((label e n).2 = .refused ∧ (label e n).1 = e ∧ (lookup e.labels n).isSome) ∨
    ((label e n).2 = .ok ∧ lookup e.labels n = none ∧ (label e n).1.code = e.code ∧ (label e n).1.address = e.address ∧
      (label e n).1.labels = e.labels ++ [(n, e.address)] ∧ (label e n).1.flags = e.flags ∧ (label e n).1.cap = e.cap ∧
      (label e n).1.genText = e.genText) := by
  unfold label
  cases h : lookup e.labels n with
  | some v => exact Or.inl ⟨rfl, rfl, rfl⟩
  | none => refine Or.inr ⟨rfl, rfl, ?_, ?_, ?_, ?_, ?_, ?_⟩ <;> (simp only; split <;> rfl)


/-- what an accepted `emitN` does to the dangling maps -/
theorem emit_dangling (e : Em) (k : LineKind) (d : List Nat) (i l f : String) (dg : Dangling) (c : Nat)
    (hc : e.cap = some c) (hok : (emit e k d i l f dg).2 = .ok) :
    (emit e k d i l f dg).1.base = e.base ∧ (emit e k d i l f dg).1.code = e.code ++ d ∧
    (emit e k d i l f dg).1.address = e.address + d.length ∧
    (emit e k d i l f dg).1.dS8 = (if dg = .s8 then addRef e.dS8 l (e.address + d.length - 1) else e.dS8) ∧
    (emit e k d i l f dg).1.dU16 = (if dg = .u16 then addRef e.dU16 l (e.address + d.length - 2) else e.dU16) := by
  unfold emit at hok ⊢
  cases hw : write e d with
  | none => rw [hw] at hok; simp at hok
  | some e2 =>
    rcases AsmLemmas.write_some e e2 d hw with ⟨hn, _⟩ | ⟨c', _, _, rfl⟩
    · rw [hc] at hn; simp at hn
    · simp only [emitTail, emitBase]
      cases dg <;> (repeat' split) <;> simp_all


/-- data blocks never touch the base or the dangling maps -/
theorem emitBytes_static (e : Em) (b : List Nat) :
    (emitBytes e b).1.base = e.base ∧ (emitBytes e b).1.dS8 = e.dS8 ∧ (emitBytes e b).1.dU16 = e.dU16 := by
  unfold emitBytes
  generalize he1 : (if e.genText = true then
      { emitBase e with lines := (emitBase e).lines ++ dbLines (emitBase e).address b } else e) = e1
  have hf : e1.base = e.base ∧ e1.dS8 = e.dS8 ∧ e1.dU16 = e.dU16 := by
    subst he1; simp only [emitBase]; (repeat' split) <;> simp_all
  simp only
  cases hw : write e1 b with
  | none => exact hf
  | some e2 =>
    rcases AsmLemmas.write_some e1 e2 b hw with ⟨_, rfl⟩ | ⟨_, _, _, rfl⟩ <;> exact hf

theorem label_static (e : Em) (n : String) :
    (label e n).1.base = e.base ∧ (label e n).1.dS8 = e.dS8 ∧ (label e n).1.dU16 = e.dU16 := by
  unfold label
  cases lookup e.labels n with
  | some v => exact ⟨rfl, rfl, rfl⟩
  | none => simp only; by_cases g : e.genText = true <;> simp [g]

end AsmModel
