/- The tiling invariant of listing records and its consequences. -/
import SnesVerif.Asm.Ops
namespace AsmModel
open Gen
set_option maxRecDepth 100000

/-- byte-carrying records, in order, cover consecutive addresses starting at `a`; result: the end address -/
def tiled : List Line → Nat → Option Nat
  | [], a => some a
  | l :: ls, a =>
    if nBytes l = 0 then tiled ls a
    else if l.address = a then tiled ls (a + nBytes l) else none

theorem tiled_append (xs ys : List Line) (a : Nat) : tiled (xs ++ ys) a = (tiled xs a).bind (tiled ys) := by
  induction xs generalizing a with
  | nil => rfl
  | cons l ls ih =>
    simp only [List.cons_append, tiled]
    split
    · exact ih a
    · split
      · exact ih _
      · rfl

theorem tiled_mono (ls : List Line) (a b : Nat) (h : tiled ls a = some b) : a ≤ b := by
  induction ls generalizing a with
  | nil => simp [tiled] at h; omega
  | cons l ls ih =>
    simp only [tiled] at h
    split at h
    · exact ih a h
    · split at h
      · have := ih _ h; omega
      · simp at h

theorem tiled_dbLines (a : Nat) (b : List Nat) : tiled (dbLines a b) a = some (a + b.length) := by
  fun_induction dbLines a b with
  | case1 a b h => simp [tiled, h]
  | case2 a b h ih =>
    have hn : nBytes ⟨.db, a, min 16 b.length, "", "", "", b.take 16⟩ = min 16 b.length := rfl
    simp only [tiled, hn]
    rw [if_neg (by omega)]
    simp only [if_true]
    by_cases c : b.length ≤ 16
    · have e : min 16 b.length = b.length := by omega
      rw [e]
      have e2 : b.drop 16 = [] := List.drop_of_length_le c
      rw [e2] at ih ⊢
      -- dbLines of the empty rest is empty
      have : dbLines (a + 16) [] = [] := by unfold dbLines; simp
      rw [this]; simp [tiled]
    · have e : min 16 b.length = 16 := by omega
      rw [e, ih]
      simp only [List.length_drop]
      congr 1; omega

/-- the listing invariant: records tile `[base, base+n)` and the program counter is `base+n` -/
structure Inv (e : Em) : Prop where
  tile : tiled e.lines e.base = some (e.base + e.code.length)
  addr : e.address = e.base + e.code.length

theorem emitBase_tiled (e : Em) (a : Nat) : tiled (emitBase e).lines a = tiled e.lines a := by
  unfold emitBase
  split
  · rfl
  · split
    · rfl
    · simp only
      rw [tiled_append]
      cases tiled e.lines a with
      | none => rfl
      | some b => simp [tiled, nBytes]

theorem emitBase_fields (e : Em) :
    (emitBase e).code = e.code ∧ (emitBase e).base = e.base ∧ (emitBase e).address = e.address ∧
    (emitBase e).cap = e.cap ∧ (emitBase e).genText = e.genText := by
  unfold emitBase; (repeat' split) <;> simp

/-- kind and length of an instruction record agree for every row of the method table -/
def rowKindOK (m : AsmMethod) : Bool :=
  match m.kind with
  | .plain => decide (1 ≤ m.bytes.length ∧ m.bytes.length ≤ 4)
  | .label8 => m.bytes.length == 2
  | .label16 => m.bytes.length == 3

theorem all_rows_kind_ok : asmMethods.all rowKindOK = true := by decide +kernel

theorem nBytes_ins (m : AsmMethod) (hm : m ∈ asmMethods) (a : Nat) (i l f : String) (dt : List Nat) :
    nBytes ⟨lineKindOf m.kind m.bytes.length, a, m.bytes.length, i, l, f, dt⟩ = m.bytes.length ∧ 0 < m.bytes.length := by
  have h := (List.all_eq_true.mp all_rows_kind_ok) m hm
  unfold rowKindOK at h
  unfold nBytes lineKindOf
  cases hk : m.kind <;> rw [hk] at h <;> simp only at h ⊢
  · simp only [decide_eq_true_eq] at h
    have : m.bytes.length = 1 ∨ m.bytes.length = 2 ∨ m.bytes.length = 3 ∨ m.bytes.length = 4 := by omega
    rcases this with e | e | e | e <;> simp [e]
  · simp only [beq_iff_eq] at h; simp [h]
  · simp only [beq_iff_eq] at h; simp [h]

/-- the part of `emitN` after a successful write keeps the invariant when the record covers exactly the `n > 0` new bytes -/
theorem emitTail_inv (e e1 : Em) (k : LineKind) (n : Nat) (i l f : String) (dg : Dangling)
    (hinv : Inv e) (hg : e1.genText = true) (hb : e1.base = e.base) (ha : e1.address = e.address)
    (hl : e1.lines = e.lines) (hcl : e1.code.length = e.code.length + n)
    (hk : ∀ a dt, nBytes ⟨k, a, n, i, l, f, dt⟩ = n) (hpos : 0 < n) :
    Inv (emitTail e1 k n i l f dg) := by
  have bf := emitBase_fields e1
  have bt := emitBase_tiled e1 e.base
  have core : Inv { emitBase e1 with lines := (emitBase e1).lines ++ [⟨k, (emitBase e1).address, n, i, l, f, []⟩],
                                     address := (emitBase e1).address + n } := by
    constructor
    · simp only [bf.2.1, bf.1, hb, hcl]
      rw [tiled_append, bt, hl, hinv.tile]
      simp only [Option.bind_some, tiled, hk, bf.2.2.1, ha, hinv.addr]
      rw [if_neg (by omega)]
      simp only [if_true]
      congr 1; omega
    · simp only [bf.2.1, bf.1, bf.2.2.1, hb, ha, hcl, hinv.addr]; omega
  unfold emitTail
  simp only [hg, if_true]
  cases dg
  · exact core
  · exact ⟨core.tile, core.addr⟩
  · exact ⟨core.tile, core.addr⟩

end AsmModel
