/- Lemmas about the emitter model's primitives and the method-table expectations. -/
import SnesVerif.Asm.Model
import SnesVerif.Gen.CpuTables
namespace AsmLemmas
open AsmModel AsmExpect Gen Spec
set_option maxRecDepth 100000

/-- `opcodeOf` returns an opcode that decodes to the requested pair -/
theorem opcodeOf_decode (mn : Mnem) (mode : Mode) (op : Nat) (h : opcodeOf mn mode = some op) :
    decode op = (mn, mode) ∧ op < 256 := by
  unfold opcodeOf at h
  have h1 := List.find?_some h
  have h2 := List.mem_of_find?_eq_some h
  exact ⟨by simpa using h1, List.mem_range.mp h2⟩

/-- evaluating the expected byte expressions gives the canonical little-endian encoding -/
theorem eval_operand (o : Operand) (args : List Nat) :
    (operandExprs o).map (evalB args) = operandBytes o args := by
  cases o <;> simp [operandExprs, operandBytes, evalB, asm_imm16, asm_imm24]

/-- every regenerated method row has exactly the shape its name demands (kernel evaluation over the whole table) -/
theorem all_rows_ok : asmMethods.all rowOK = true := by decide +kernel

/-- the machine-level M / X values under which a guard lets a method through -/
def guardAllows (g : AsmGuard) (m8 x8 : Bool) : Bool :=
  match g with
  | .none => true | .m8 => m8 | .m16 => !m8 | .x8 => x8 | .x16 => !x8

/-- length of the instruction as each interpreter's `Step` computes it: table size minus the M / X adjustment -/
def cpuInstrLen (tbl : Array InsRow) (op : Nat) (m8 x8 : Bool) : Nat :=
  let r := tbl.getD op default
  r.size - (if r.modeName == "m_Immediate_flagM" then (if m8 then 1 else 0)
            else if r.modeName == "m_Immediate_flagX" then (if x8 then 1 else 0) else 0)

/-- per row: architectural length = emitted length = both interpreters' decoded length, under every width the guard admits;
and both interpreters' tables name the same mnemonic at that opcode -/
def rowLenOK (m : AsmMethod) : Bool :=
  match expect m.mnemonic m.suffix (m.params == [0]) with
  | none => false
  | some e =>
    match opcodeOf e.mn e.mode with
    | none => false
    | some op =>
      [(false, false), (false, true), (true, false), (true, true)].all (fun w =>
        !guardAllows m.guard w.1 w.2 ||
          (m.bytes.length == instrLen e.mode w.1 w.2 &&
           m.bytes.length == cpuInstrLen primary_instructions op w.1 w.2 &&
           m.bytes.length == cpuInstrLen alt_instructions op w.1 w.2)) &&
      (primary_instructions.getD op default).name == mnemName e.mn &&
      (alt_instructions.getD op default).name == mnemName e.mn

theorem all_rows_len_ok : asmMethods.all rowLenOK = true := by decide +kernel

/-- an immediate method carries a width guard exactly matching its operand size, every other method carries none -/
def rowGuardOK (m : AsmMethod) : Bool :=
  match expect m.mnemonic m.suffix (m.params == [0]) with
  | none => false
  | some e =>
    match e.mode, e.operand with
    | .immM, .b8 => m.guard == .m8
    | .immM, .w16 | .immM, .lh => m.guard == .m16
    | .immX, .b8 => m.guard == .x8
    | .immX, .w16 | .immX, .lh => m.guard == .x16
    | .immM, _ | .immX, _ => false
    | _, _ => m.guard == .none

theorem all_rows_guard_ok : asmMethods.all rowGuardOK = true := by decide +kernel

/-! primitives -/

theorem write_some (e e1 : Em) (d : List Nat) (h : write e d = some e1) :
    (e.cap = none ∧ e1 = e) ∨ (∃ c, e.cap = some c ∧ e.code.length + d.length ≤ c ∧ e1 = { e with code := e.code ++ d }) := by
  unfold write at h
  cases hc : e.cap with
  | none => rw [hc] at h; simp at h; exact Or.inl ⟨rfl, h.symm⟩
  | some c =>
    rw [hc] at h
    simp only at h
    by_cases g : e.code.length + d.length > c
    · rw [if_pos g] at h; simp at h
    · rw [if_neg g] at h; simp at h; exact Or.inr ⟨c, rfl, by omega, h.symm⟩

theorem write_none (e : Em) (d : List Nat) (h : write e d = none) :
    ∃ c, e.cap = some c ∧ c < e.code.length + d.length := by
  unfold write at h
  cases hc : e.cap with
  | none => rw [hc] at h; simp at h
  | some c =>
    rw [hc] at h
    simp only at h
    by_cases g : e.code.length + d.length > c
    · exact ⟨c, rfl, g⟩
    · rw [if_neg g] at h; simp at h

end AsmLemmas
