/-
Hand-written model of asm.Emitter (asm/emitter.go, asm/flags.go): the state machine behind every call —
write / emitN / EmitBytes / Label / Comment / SetBase / Finalize / Clone / Append and the two listing writers —
keeping Go's real order of effects (e.g. REP/SEP update the tracker before the capacity check; EmitBytes appends its
listing lines before the capacity check).  Instruction methods are interpreted through the *regenerated* method table
(Gen/AsmMethods.lean).  Tied to the Go code by `vh asm`.

Go maps are association lists here; Go panics are the `refused` result.  `address` arithmetic is unbounded
(programs inside one bank, as the properties assume).
-/
import SnesVerif.Asm.Expect
namespace AsmModel
open Gen

inductive LineKind | ins1 | ins2 | ins2Label | ins3 | ins3Label | ins4 | base | db | comment | label
  deriving DecidableEq, Repr

structure Line where
  kind : LineKind
  address : Nat
  byteCount : Nat
  ins : String
  label : String
  fmt : String
  data : List Nat := []               -- data lines only: the bytes rendered into the `db` text at emit time
  deriving DecidableEq, Repr

structure Em where
  flags : Nat                         -- tracked P byte (flagsTracker)
  genText : Bool
  cap : Option Nat                    -- `none`: nil target (dry run)
  code : List Nat                     -- the bytes written so far: Bytes(); Len() = code.length
  lines : List Line
  base : Nat
  baseSet : Bool
  address : Nat                       -- PC()
  labels : List (String × Nat)
  dS8 : List (String × List Nat)      -- dangling signed-8 references (address of the operand byte)
  dU16 : List (String × List Nat)     -- dangling absolute-16 references (address of the first operand byte)
  deriving DecidableEq, Repr

def newEmitter (cap : Option Nat) (genText : Bool) : Em :=
  ⟨0, genText, cap, [], [], 0, false, 0, [], [], []⟩

inductive Res | ok | refused
  deriving DecidableEq, Repr

/-! association lists (Go maps) -/
def lookup {α : Type} : List (String × α) → String → Option α
  | [], _ => none
  | (k, v) :: rest, key => if k = key then some v else lookup rest key

def setKey {α : Type} : List (String × α) → String → α → List (String × α)
  | [], key, v => [(key, v)]
  | (k, w) :: rest, key, v => if k = key then (k, v) :: rest else (k, w) :: setKey rest key v

def delKey {α : Type} : List (String × α) → String → List (String × α)
  | [], _ => []
  | (k, w) :: rest, key => if k = key then rest else (k, w) :: delKey rest key

def addRef (m : List (String × List Nat)) (key : String) (r : Nat) : List (String × List Nat) :=
  setKey m key ((lookup m key).getD [] ++ [r])

/-! the core -/

/-- `write(d)`: nil target accepts and stores nothing; otherwise all-or-nothing against the capacity -/
def write (e : Em) (d : List Nat) : Option Em :=
  match e.cap with
  | none => some e
  | some c => if e.code.length + d.length > c then none else some { e with code := e.code ++ d }

def emitBase (e : Em) : Em :=
  if !e.genText then e
  else if !e.baseSet then e
  else { e with lines := e.lines ++ [⟨.base, e.address, 0, "", "", "", []⟩], baseSet := false }

inductive Dangling | none | s8 | u16
  deriving DecidableEq, Repr

/-- what `emitN` does after a successful `write`: listing record, address, dangling reference -/
def emitTail (e1 : Em) (kind : LineKind) (n : Nat) (ins label fmt : String) (dg : Dangling) : Em :=
  let e2 := if e1.genText then
      let b := emitBase e1
      { b with lines := b.lines ++ [⟨kind, b.address, n, ins, label, fmt, []⟩] }
    else e1
  let e3 := { e2 with address := e2.address + n }
  match dg with
  | .none => e3
  | .s8 => { e3 with dS8 := addRef e3.dS8 label (e3.address - 1) }
  | .u16 => { e3 with dU16 := addRef e3.dU16 label (e3.address - 2) }

/-- `emit1..emit4`, `emit2Label`, `emit3Label` -/
def emit (e : Em) (kind : LineKind) (d : List Nat) (ins label fmt : String) (dg : Dangling) : Em × Res :=
  match write e d with
  | none => (e, .refused)
  | some e1 => (emitTail e1 kind d.length ins label fmt dg, .ok)

def isM16 (flags : Nat) : Bool := flags / 32 % 2 == 0
def isX16 (flags : Nat) : Bool := flags / 16 % 2 == 0

def guardOK (g : AsmGuard) (flags : Nat) : Bool :=
  match g with
  | .none => true
  | .m8 => !isM16 flags
  | .m16 => isM16 flags
  | .x8 => !isX16 flags
  | .x16 => isX16 flags

/-- `AssumeREP` / `AssumeSEP` on the uint8 tracker -/
def assumeREP (flags c : Nat) : Nat := flags &&& (255 - c % 256)
def assumeSEP (flags c : Nat) : Nat := (flags ||| (c % 256)) % 256

def lineKindOf (k : AsmKind) (n : Nat) : LineKind :=
  match k with
  | .label8 => .ins2Label
  | .label16 => .ins3Label
  | .plain => if n = 1 then .ins1 else if n = 2 then .ins2 else if n = 3 then .ins3 else .ins4

def dangOf : AsmKind → Dangling
  | .plain => .none | .label8 => .s8 | .label16 => .u16

/-- one instruction method call: guard (panic), tracker update, then emitN -/
def ins (e : Em) (m : AsmMethod) (args : List Nat) (label : String) : Em × Res :=
  if !guardOK m.guard e.flags then (e, .refused)
  else
    let e1 := match m.track with
      | .none => e
      | .rep i => { e with flags := assumeREP e.flags (args.getD i 0) }
      | .sep i => { e with flags := assumeSEP e.flags (args.getD i 0) }
    let d := m.bytes.map (AsmExpect.evalB args)
    emit e1 (lineKindOf m.kind d.length) d m.ins label m.fmt (dangOf m.kind)

/-- listing records of a data block: one per 16 bytes -/
def dbLines (addr : Nat) (b : List Nat) : List Line :=
  if h : b.length = 0 then [] else
  ⟨.db, addr, min 16 b.length, "", "", "", b.take 16⟩ :: dbLines (addr + 16) (b.drop 16)
termination_by b.length
decreasing_by simp only [List.length_drop]; omega

/-- `EmitBytes(b)`: listing lines first, then the capacity check -/
def emitBytes (e : Em) (b : List Nat) : Em × Res :=
  let e1 := if e.genText then
      let x := emitBase e
      { x with lines := x.lines ++ dbLines x.address b }
    else e
  match write e1 b with
  | none => (e1, .refused)
  | some e2 => ({ e2 with address := e2.address + b.length }, .ok)

/-- `Label(name)`: redefinition panics -/
def label (e : Em) (name : String) : Em × Res :=
  match lookup e.labels name with
  | some _ => (e, .refused)
  | none =>
    let e1 := { e with labels := e.labels ++ [(name, e.address)] }
    (if e1.genText then { e1 with lines := e1.lines ++ [⟨.label, e1.address, 0, "", name, "", []⟩] } else e1, .ok)

def comment (e : Em) (s : String) : Em :=
  if e.genText then
    let b := emitBase e
    { b with lines := b.lines ++ [⟨.comment, b.address, 0, s, "", "", []⟩] }
  else e

def setBase (e : Em) (a : Nat) : Em := { e with base := a, address := a, baseSet := true }

/-! Finalize -/

inductive FinRes | ok | unresolved (label : String) | tooFar (fromAddr toAddr : Nat) | crash
  deriving DecidableEq, Repr

/-- signed distance as the byte that is stored: `uint8(int8(diff))` -/
def s8Byte (target ref : Nat) : Nat := (target + 256 - (ref + 1) % 256) % 256

def inS8Range (target ref : Nat) : Bool :=
  decide (target + 128 ≥ ref + 1) && decide (target ≤ ref + 1 + 127)

/-- patch the signed-8 references of one label, in order; stops at the first one out of range -/
def patchS8 (base target : Nat) : List Nat → List Nat → List Nat × FinRes
  | [], code => (code, .ok)
  | r :: rs, code =>
    if !inS8Range target r then (code, .tooFar (r + 1) target)
    else if r < base ∨ r - base ≥ code.length then (code, .crash)
    else patchS8 base target rs (code.set (r - base) (s8Byte target r))

def patchU16 (base target : Nat) : List Nat → List Nat → List Nat × FinRes
  | [], code => (code, .ok)
  | r :: rs, code =>
    if r < base ∨ r - base + 2 > code.length then (code, .crash)
    else patchU16 base target rs ((code.set (r - base) (target % 256)).set (r - base + 1) (target / 256 % 256))

/-- the loop over `danglingS8` (in association-list order; Go's map order is arbitrary — see C06) -/
def finS8 (e : Em) : List (String × List Nat) → Em × FinRes
  | [] => (e, .ok)
  | (lbl, refs) :: rest =>
    match lookup e.labels lbl with
    | none => (e, .unresolved lbl)
    | some target =>
      let r := patchS8 e.base target refs e.code
      let e1 := { e with code := r.1 }
      if r.2 = .ok then finS8 { e1 with dS8 := delKey e1.dS8 lbl } rest
      else (e1, r.2)

def finU16 (e : Em) : List (String × List Nat) → Em × FinRes
  | [] => (e, .ok)
  | (lbl, refs) :: rest =>
    match lookup e.labels lbl with
    | none => (e, .unresolved lbl)
    | some target =>
      let r := patchU16 e.base target refs e.code
      let e1 := { e with code := r.1 }
      if r.2 = .ok then finU16 { e1 with dU16 := delKey e1.dU16 lbl } rest
      else (e1, r.2)

def finalize (e : Em) : Em × FinRes :=
  let r := finS8 e e.dS8
  if r.2 = .ok then finU16 r.1 r.1.dU16
  else (r.1, r.2)

/-! Clone / Append -/

def clone (a : Em) (cap : Option Nat) : Em :=
  { flags := a.flags, genText := a.genText, cap := cap, code := [], lines := [], address := a.address,
    base := a.base, baseSet := a.baseSet, labels := a.labels, dS8 := a.dS8, dU16 := a.dU16 }

def mergeMap {α : Type} (a e : List (String × α)) : List (String × α) :=
  e.foldl (fun acc kv => setKey acc kv.1 kv.2) a

def append (a e : Em) : Em × Res :=
  if a.code.length + e.code.length > a.cap.getD 0 then (a, .refused)
  else
    ({ a with address := e.address, baseSet := e.baseSet, flags := e.flags,
              code := a.code ++ e.code, lines := a.lines ++ e.lines,
              labels := mergeMap a.labels e.labels, dS8 := mergeMap a.dS8 e.dS8, dU16 := mergeMap a.dU16 e.dU16 }, .ok)

/-! listings: the records the two writers render (kind, address, bytes shown, label / comment text) -/

structure Rec where
  kind : LineKind
  address : Nat
  bytes : List Nat
  text : String
  deriving DecidableEq, Repr

/-- number of code bytes a listing record covers (what the writers slice out of `code`) -/
def nBytes (l : Line) : Nat :=
  match l.kind with
  | .ins1 => 1 | .ins2 | .ins2Label => 2 | .ins3 | .ins3Label => 3 | .ins4 => 4
  | .db => l.byteCount
  | .base | .comment | .label => 0

def lineBytes (e : Em) (l : Line) : Option (List Nat) :=
  if nBytes l = 0 then some []
  else if l.address < e.base ∨ l.address - e.base + nBytes l > e.code.length then none
  else some ((e.code.drop (l.address - e.base)).take (nBytes l))

def hexText (l : Line) : String :=
  match l.kind with | .comment => l.ins | .label => l.label | _ => ""

def textText (l : Line) : String :=
  match l.kind with | .comment => l.ins | .label => l.label | .ins2Label | .ins3Label => l.label | _ => ""

/-- `WriteHexTo`: one record per line; `none` = the Go code would slice out of range -/
def hexRecsOf (e : Em) : List Line → Option (List Rec)
  | [] => some []
  | l :: ls =>
    match lineBytes e l, hexRecsOf e ls with
    | some bs, some rs => some (⟨l.kind, l.address, bs, hexText l⟩ :: rs)
    | _, _ => none

def hexRecords (e : Em) : Option (List Rec) := hexRecsOf e e.lines

/-- `WriteTextTo`: data lines print the `db` text rendered from the block at emit time, instruction lines slice `code` -/
def textRecsOf (e : Em) : List Line → Option (List Rec)
  | [] => some []
  | l :: ls =>
    match (if l.kind = .db then some l.data else lineBytes e l), textRecsOf e ls with
    | some bs, some rs => some (⟨l.kind, l.address, bs, textText l⟩ :: rs)
    | _, _ => none

def textRecords (e : Em) : Option (List Rec) := textRecsOf e e.lines

end AsmModel
