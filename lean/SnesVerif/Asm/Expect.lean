/-
What each Emitter instruction method must emit, as a function of the *name* of the method
("the mnemonic and addressing mode the method is named after") and the WDC opcode matrix (Spec/Decode.lean).
Hand-written specification; nothing here looks at the method bodies.
-/
import SnesVerif.Spec.Decode
import SnesVerif.Gen.AsmMethods
namespace AsmExpect
open Spec Gen

/-- mnemonic named by the upper-case prefix of a method name -/
def mnemOfString (s : String) : Option Mnem :=
  match s with
  | "ADC" => some .adc | "AND" => some .and | "ASL" => some .asl | "BCC" => some .bcc | "BCS" => some .bcs
  | "BEQ" => some .beq | "BIT" => some .bit | "BMI" => some .bmi | "BNE" => some .bne | "BPL" => some .bpl
  | "BRA" => some .bra | "BRK" => some .brk | "BRL" => some .brl | "BVC" => some .bvc | "BVS" => some .bvs
  | "CLC" => some .clc | "CLD" => some .cld | "CLI" => some .cli | "CLV" => some .clv | "CMP" => some .cmp
  | "COP" => some .cop | "CPX" => some .cpx | "CPY" => some .cpy | "DEC" => some .dec | "DEX" => some .dex
  | "DEY" => some .dey | "EOR" => some .eor | "INC" => some .inc | "INX" => some .inx | "INY" => some .iny
  | "JMP" => some .jmp | "JML" => some .jmp | "JSL" => some .jsl | "JSR" => some .jsr | "LDA" => some .lda
  | "LDX" => some .ldx | "LDY" => some .ldy | "LSR" => some .lsr | "MVN" => some .mvn | "MVP" => some .mvp
  | "NOP" => some .nop | "ORA" => some .ora | "PEA" => some .pea | "PEI" => some .pei | "PER" => some .per
  | "PHA" => some .pha | "PHB" => some .phb | "PHD" => some .phd | "PHK" => some .phk | "PHP" => some .php
  | "PHX" => some .phx | "PHY" => some .phy | "PLA" => some .pla | "PLB" => some .plb | "PLD" => some .pld
  | "PLP" => some .plp | "PLX" => some .plx | "PLY" => some .ply | "REP" => some .rep | "ROL" => some .rol
  | "ROR" => some .ror | "RTI" => some .rti | "RTL" => some .rtl | "RTS" => some .rts | "SBC" => some .sbc
  | "SEC" => some .sec | "SED" => some .sed | "SEI" => some .sei | "SEP" => some .sep | "STA" => some .sta
  | "STP" => some .stp | "STX" => some .stx | "STY" => some .sty | "STZ" => some .stz | "TAX" => some .tax
  | "TAY" => some .tay | "TCD" => some .tcd | "TCS" => some .tcs | "TDC" => some .tdc | "TRB" => some .trb
  | "TSB" => some .tsb | "TSC" => some .tsc | "TSX" => some .tsx | "TXA" => some .txa | "TXS" => some .txs
  | "TXY" => some .txy | "TYA" => some .tya | "TYX" => some .tyx | "WAI" => some .wai | "WDM" => some .wdm
  | "XBA" => some .xba | "XCE" => some .xce
  | _ => none

def isBranch : Mnem → Bool
  | .bcc | .bcs | .beq | .bmi | .bne | .bpl | .bra | .bvc | .bvs => true
  | _ => false

def usesIndexWidth : Mnem → Bool
  | .ldx | .ldy | .cpx | .cpy => true
  | _ => false

/-- how the operand is supplied by the caller -/
inductive Operand
  | none            -- no operand bytes
  | b8              -- one 8-bit parameter
  | w16             -- one 16-bit parameter, little-endian
  | l24             -- one 24-bit parameter (uint32), little-endian
  | lh              -- two byte parameters: low, high
  | lhb             -- three byte parameters: low, high, bank
  | mv              -- block move: destination bank, source bank
  | lab8            -- label, 8-bit relative placeholder $FF
  | lab16           -- label, 16-bit absolute placeholder $FFFF
  deriving DecidableEq, Repr

structure Expect where
  mn : Mnem
  mode : Mode
  operand : Operand
  guard : AsmGuard
  track : AsmTrack
  kind : AsmKind
  deriving DecidableEq, Repr

/-- expectation from the method name alone (mnemonic string, suffix tokens, and whether the parameter is a label) -/
def expect (mnS : String) (suffix : List String) (isLabel : Bool) : Option Expect :=
  match mnemOfString mnS with
  | none => none
  | some mn =>
    let immMode := if usesIndexWidth mn then Mode.immX else Mode.immM
    let g8 := if usesIndexWidth mn then AsmGuard.x8 else AsmGuard.m8
    let g16 := if usesIndexWidth mn then AsmGuard.x16 else AsmGuard.m16
    let plain (mode : Mode) (o : Operand) : Option Expect := some ⟨mn, mode, o, .none, .none, .plain⟩
    match suffix, isLabel with
    | [], true => if isBranch mn then some ⟨mn, .rel8, .lab8, .none, .none, .label8⟩ else none
    | [], false =>
      if mnS == "JML" then plain .long .l24
      else match mn with
        | .asl | .lsr | .rol | .ror | .inc | .dec => plain .acc .none
        | .rep => some ⟨mn, .imm8, .b8, .none, .rep 0, .plain⟩
        | .sep => some ⟨mn, .imm8, .b8, .none, .sep 0, .plain⟩
        | .wdm | .cop => plain .imm8 .b8
        | .mvn | .mvp => plain .blockMove .mv
        | .jsl => plain .long .l24
        | _ => if isBranch mn then none else plain .imp .none
    | ["imm8", "b"], false => some ⟨mn, immMode, .b8, g8, .none, .plain⟩
    | ["imm16", "w"], false => some ⟨mn, immMode, .w16, g16, .none, .plain⟩
    | ["imm16", "lh"], false => some ⟨mn, immMode, .lh, g16, .none, .plain⟩
    | ["imm8"], false => if isBranch mn then plain .rel8 .b8 else none
    | ["dp"], false => plain .dp .b8
    | ["dp", "x"], false => plain .dpX .b8
    | ["dp", "y"], false => plain .dpY .b8
    | ["abs"], false => plain .abs .w16
    | ["abs"], true => some ⟨mn, .abs, .lab16, .none, .none, .label16⟩
    | ["abs", "imm16", "w"], false => plain .abs .w16
    | ["abs", "x"], false => plain .absX .w16
    | ["abs", "y"], false => plain .absY .w16
    | ["long"], false => plain .long .l24
    | ["long", "x"], false => plain .longX .l24
    | ["lhb"], false => plain .long .lhb
    | ["indirect"], false => plain .absInd .w16
    | _, _ => none

/-- the parameter widths an operand kind takes -/
def operandParams : Operand → List Nat
  | .none => [] | .b8 => [8] | .w16 => [16] | .l24 => [32] | .lh => [8, 8] | .lhb => [8, 8, 8] | .mv => [8, 8]
  | .lab8 => [0] | .lab16 => [0]

/-- the operand bytes as byte expressions over the parameters -/
def operandExprs : Operand → List BExpr
  | .none => []
  | .b8 => [.p8 0]
  | .w16 => [.imm16 0 0, .imm16 0 1]
  | .l24 => [.imm24 0 0, .imm24 0 1, .imm24 0 2]
  | .lh => [.p8 0, .p8 1]
  | .lhb => [.p8 0, .p8 1, .p8 2]
  | .mv => [.p8 0, .p8 1]
  | .lab8 => [.const 255]
  | .lab16 => [.const 255, .const 255]

/-- structural check of one extracted method row against its name-derived expectation -/
def rowOK (m : AsmMethod) : Bool :=
  match expect m.mnemonic m.suffix (m.params == [0]) with
  | none => false
  | some e =>
    match opcodeOf e.mn e.mode with
    | none => false
    | some op =>
      m.bytes == (BExpr.const op :: operandExprs e.operand) &&
      m.params == operandParams e.operand &&
      m.guard == e.guard && m.track == e.track && m.kind == e.kind

/-- value of a byte expression for concrete arguments -/
def evalB (args : List Nat) : BExpr → Nat
  | .const k => k
  | .p8 i => args.getD i 0 % 256
  | .imm16 i j =>
    let t := asm_imm16 (args.getD i 0)
    if j = 0 then t.1 else t.2
  | .imm24 i j =>
    let t := asm_imm24 (args.getD i 0)
    if j = 0 then t.1 else if j = 1 then t.2.1 else t.2.2

/-- the canonical operand bytes, stated directly (little-endian; destination bank then source bank for block moves) -/
def operandBytes (o : Operand) (args : List Nat) : List Nat :=
  let a := args.getD 0 0
  match o with
  | .none => []
  | .b8 => [a % 256]
  | .w16 => [a % 256, a / 256 % 256]
  | .l24 => [a % 256, a / 256 % 256, a / 65536 % 256]
  | .lh => [a % 256, args.getD 1 0 % 256]
  | .lhb => [a % 256, args.getD 1 0 % 256, args.getD 2 0 % 256]
  | .mv => [a % 256, args.getD 1 0 % 256]
  | .lab8 => [255]
  | .lab16 => [255, 255]

end AsmExpect
