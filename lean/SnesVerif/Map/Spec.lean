/-
Hand-written specification of the four cartridge memory maps at 8 KiB page granularity.

This file is written from the SNES / FX Pak Pro memory map documentation, not from the Go code:
a bus address `a` (24 bit) lies in page `k = a / 8192`; bank = `k / 8`, page-in-bank `pg = k % 8`
(pg 0 = $0000-$1FFF, 1..3 = $2000-$7FFF, 4..7 = $8000-$FFFF).  Each `*Page` function returns the FX Pak Pro
address of the first byte of the page, or `none` when the page is not translated.
FX Pak Pro address space: ROM $000000-$DFFFFF, SRAM $E00000-$EFFFFF, WRAM $F50000-$F6FFFF.
-/
namespace MapSpec

inductive Cls | rom | sram | wram
  deriving DecidableEq, Repr

/-- memory class of an FX Pak Pro address (the $F70000+ mirrors count as WRAM). -/
def clsOfPak (p : Nat) : Option Cls :=
  if p < 0xE00000 then some .rom
  else if p < 0xF00000 then some .sram
  else if 0xF50000 ≤ p ∧ p < 0x1000000 then some .wram
  else none

/-- canonical (non-mirror) class windows, as C05 lists them. -/
def inClassWindow (p : Nat) : Prop :=
  p < 0xE00000 ∨ (0xE00000 ≤ p ∧ p < 0xF00000) ∨ (0xF50000 ≤ p ∧ p < 0xF70000)

/-- A translation in "page form": page table applied to `a / 8192`, byte order kept inside the page.
Result is `(address, err)` like the Go functions (`err = true` is ErrUnmappedAddress, with a zero address). -/
def pageForm (tbl : Nat → Option Nat) (a : Nat) : Nat × Bool :=
  (tbl (a / 8192)).elim (0, true) (fun base => (base + a % 8192, false))

theorem elim_ite {α β : Type} (c : Prop) [Decidable c] (x y : Option α) (d : β) (f : α → β) :
    (if c then x else y).elim d f = if c then x.elim d f else y.elim d f := by
  split <;> rfl

/-- console-owned pages common to every mapper: WRAM banks $7E-$7F. -/
def wramBank (bank : Nat) : Prop := bank = 0x7E ∨ bank = 0x7F
/-- "system" banks $00-$3F and $80-$BF. -/
def sysBank (bank : Nat) : Prop := bank < 0x40 ∨ (0x80 ≤ bank ∧ bank < 0xC0)

/-! ### LoROM -/
def loromPage (k : Nat) : Option Nat :=
  let bank := k / 8; let pg := k % 8
  if bank = 0x7E ∨ bank = 0x7F then some (0xF50000 + (k - 0x3F0) * 8192)       -- WRAM 128 KiB
  else if pg ≥ 4 then some (((bank % 64) * 4 + (pg - 4)) * 8192)                     -- ROM: 32 KiB per bank, $40-bank mirrors
  else if 0x70 ≤ bank ∧ bank ≤ 0x7D then some (0xE00000 + ((bank - 0x70) * 4 + pg) * 8192)  -- SRAM $70-$7D:0000-7FFF
  else if 0xF0 ≤ bank then some (0xE00000 + ((bank - 0xF0) * 4 + pg) * 8192)           -- SRAM $F0-$FF:0000-7FFF
  else if pg = 0 then some 0xF50000                                                  -- low 8 KiB WRAM mirror
  else none                                                                          -- registers / unmapped

/-- FX Pak Pro page → canonical bus page (first byte). -/
def loromPakPage (q : Nat) : Option Nat :=
  if q < 0x700 then                                              -- ROM: canonical copy in banks $80-$FF upper halves
    let h := q % 512                                              -- 4 MiB mirror
    some ((0x80 + h / 4) * 65536 + 0x8000 + (h % 4) * 8192)
  else if q < 0x780 then                                         -- SRAM, 512 KiB mirror, canonical copy in banks $F0-$FF
    let h := (q - 0x700) % 64
    some ((0xF0 + h / 4) * 65536 + (h % 4) * 8192)
  else if 0x7A8 ≤ q then                                         -- WRAM (+ mirrors of $F7..$FF)
    some (0x7E0000 + ((q - 0x7A8) % 16) * 8192)
  else none

/-! ### HiROM -/
def hiromPage (k : Nat) : Option Nat :=
  let bank := k / 8; let pg := k % 8
  if bank = 0x7E ∨ bank = 0x7F then some (0xF50000 + (k - 0x3F0) * 8192)
  else if (0x40 ≤ bank ∧ bank < 0x7E) ∨ 0xC0 ≤ bank then some ((k % 512) * 8192)   -- full 64 KiB banks, 4 MiB
  else if pg ≥ 4 then some (((bank % 64) * 4 + (pg - 4)) * 8192)                     -- $8000-$FFFF of system banks
  else if pg = 3 ∧ 0x20 ≤ bank % 128 then some (0xE00000 + (bank % 128 - 0x20) * 8192) -- SRAM $20-$3F/$A0-$BF:6000-7FFF
  else if pg = 0 then some 0xF50000
  else none

def hiromPakPage (q : Nat) : Option Nat :=
  if q < 0x700 then some (0xC00000 + (q % 512) * 8192)
  else if q < 0x780 then some ((0xA0 + (q - 0x700) % 32) * 65536 + 0x6000)
  else if 0x7A8 ≤ q then some (0x7E0000 + ((q - 0x7A8) % 16) * 8192)
  else none

/-! ### ExHiROM -/
def exhiromPage (k : Nat) : Option Nat :=
  let bank := k / 8; let pg := k % 8
  if bank = 0x7E ∨ bank = 0x7F then some (0xF50000 + (k - 0x3F0) * 8192)
  else if 0xC0 ≤ bank then some ((k % 512) * 8192)                                   -- program area 1
  else if 0x40 ≤ bank ∧ bank < 0x7E then some (0x400000 + (k % 512) * 8192)          -- program area 2
  else if pg ≥ 4 then
    (if 0x80 ≤ bank then some (((bank % 64) * 4 + (pg - 4)) * 8192)                  -- area 1 halves
     else some (0x400000 + ((bank % 64) * 4 + (pg - 4)) * 8192))                     -- area 2/3 halves
  else if pg = 3 ∧ 0xA0 ≤ bank then some (0xE00000 + (bank - 0xA0) * 8192)           -- SRAM $A0-$BF:6000-7FFF
  else if pg = 0 then some 0xF50000
  else none

def exhiromPakPage (q : Nat) : Option Nat :=
  if q < 0x200 then some (0xC00000 + q * 8192)                                       -- area 1 → $C0-$FF
  else if q < 0x3F0 then some (0x400000 + (q % 512) * 8192)                          -- area 2 → $40-$7D
  else if q < 0x400 then some ((0x3E + (q - 0x3F0) / 4) * 65536 + 0x8000 + ((q - 0x3F0) % 4) * 8192)  -- area 3
  else if q < 0x700 then                                                             -- $800000+: 32 KiB halves
    let h := (q - 0x400) % 512
    (if h / 4 ≥ 0x7E then some ((h / 4 + 0x80) * 65536 + 0x8000 + (h % 4) * 8192)
     else some ((h / 4) * 65536 + 0x8000 + (h % 4) * 8192))
  else if q < 0x780 then some ((0xA0 + (q - 0x700) % 32) * 65536 + 0x6000)
  else if 0x7A8 ≤ q then some (0x7E0000 + ((q - 0x7A8) % 16) * 8192)
  else none

/-! ### SA-1 -/
def sa1romPage (k : Nat) : Option Nat :=
  let bank := k / 8; let pg := k % 8
  if bank = 0x7E ∨ bank = 0x7F then some (0xF50000 + (k - 0x3F0) * 8192)
  else if 0xC0 ≤ bank then some ((k - 0x600) * 8192)                                 -- ROM CX..FX linear
  else if 0x50 ≤ bank ∧ bank < 0x7E then none
  else if 0x44 ≤ bank ∧ bank < 0x50 then some 0xE00000                               -- BW-RAM 8 KiB image
  else if 0x40 ≤ bank ∧ bank < 0x44 then some (0xE00000 + (k - 0x200) * 8192)         -- BW-RAM linear
  else if pg ≥ 4 then
    (if 0x80 ≤ bank then some (((bank - 0x40) * 4 + (pg - 4)) * 8192)
     else some ((bank * 4 + (pg - 4)) * 8192))
  else if pg = 3 then some 0xE00000                                                  -- BW-RAM image $6000-$7FFF
  else if pg = 0 then some 0xF50000
  else none

def sa1romPakPage (q : Nat) : Option Nat :=
  if q < 0x700 then
    let h := q % 512
    (if h / 4 ≥ 0x40 then some ((0x80 + (h / 4 - 0x40)) * 65536 + 0x8000 + (h % 4) * 8192)
     else some ((h / 4) * 65536 + 0x8000 + (h % 4) * 8192))
  else if q < 0x780 then some (0x400000 + ((q - 0x700) % 32) * 8192)
  else if 0x7A8 ≤ q then some (0x7E0000 + ((q - 0x7A8) % 16) * 8192)
  else none

end MapSpec
