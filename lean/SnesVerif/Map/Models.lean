/- The four mapper models: regenerated functions + page tables + bridges + finite facts. -/
import SnesVerif.Map.Bridge
import SnesVerif.Map.Generic
open MapSpec PageFacts MapGeneric

namespace MapModels
def lorom : Model := ⟨Gen.lorom_BusAddressToPak, Gen.lorom_PakAddressToBus, loromPage, loromPakPage,
  MapBridge.lorom_b2p, MapBridge.lorom_p2b, lorom_bus, lorom_pak, lorom_rt, lorom_back, lorom_console⟩
def hirom : Model := ⟨Gen.hirom_BusAddressToPak, Gen.hirom_PakAddressToBus, hiromPage, hiromPakPage,
  MapBridge.hirom_b2p, MapBridge.hirom_p2b, hirom_bus, hirom_pak, hirom_rt, hirom_back, hirom_console⟩
def exhirom : Model := ⟨Gen.exhirom_BusAddressToPak, Gen.exhirom_PakAddressToBus, exhiromPage, exhiromPakPage,
  MapBridge.exhirom_b2p, MapBridge.exhirom_p2b, exhirom_bus, exhirom_pak, exhirom_rt, exhirom_back, exhirom_console⟩
def sa1rom : Model := ⟨Gen.sa1rom_BusAddressToPak, Gen.sa1rom_PakAddressToBus, sa1romPage, sa1romPakPage,
  MapBridge.sa1rom_b2p, MapBridge.sa1rom_p2b, sa1rom_bus, sa1rom_pak, sa1rom_rt, sa1rom_back, sa1rom_console⟩
end MapModels
