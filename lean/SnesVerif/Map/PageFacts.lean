/-
Generic consequences of the page form, and the finite (2048-page) facts about the hand-written page tables,
the latter by kernel evaluation over the whole table.
-/
import SnesVerif.Map.Spec
open MapSpec
set_option maxRecDepth 100000

namespace PageFacts

/-- `pageForm` on an address written as page * 8192 + offset. -/
theorem pageForm_some (tbl : Nat → Option Nat) (a base : Nat) (h : tbl (a / 8192) = some base) :
    pageForm tbl a = (base + a % 8192, false) := by
  unfold pageForm; rw [h]; rfl

theorem pageForm_none (tbl : Nat → Option Nat) (a : Nat) (h : tbl (a / 8192) = none) :
    pageForm tbl a = (0, true) := by
  unfold pageForm; rw [h]; rfl

theorem pageForm_cases (tbl : Nat → Option Nat) (a : Nat) :
    (tbl (a / 8192) = none ∧ pageForm tbl a = (0, true)) ∨
    (∃ base, tbl (a / 8192) = some base ∧ pageForm tbl a = (base + a % 8192, false)) := by
  cases h : tbl (a / 8192) with
  | none => exact Or.inl ⟨rfl, pageForm_none tbl a h⟩
  | some b => exact Or.inr ⟨b, rfl, pageForm_some tbl a b h⟩

/-- a page lies wholly inside one canonical class window -/
def pageInWindow (base : Nat) : Bool :=
  base % 8192 == 0 &&
  (base + 8192 ≤ 0xE00000 || (0xE00000 ≤ base && base + 8192 ≤ 0xF00000) || (0xF50000 ≤ base && base + 8192 ≤ 0xF70000))

theorem pageInWindow_spec (base r : Nat) (h : pageInWindow base = true) (hr : r < 8192) :
    inClassWindow (base + r) := by
  unfold pageInWindow at h
  simp only [Bool.and_eq_true, Bool.or_eq_true, beq_iff_eq, decide_eq_true_eq] at h
  unfold inClassWindow
  omega

/-- every entry of a bus page table is a whole page inside one class window -/
def busTableOK (tbl : Nat → Option Nat) (k : Nat) : Bool :=
  match tbl k with
  | none => true
  | some base => pageInWindow base

/-- every entry of a pak page table is a whole 24-bit bus page; rejected exactly in $F00000-$F4FFFF ($780 ≤ q < $7A8) -/
def pakTableOK (tbl : Nat → Option Nat) (q : Nat) : Bool :=
  match tbl q with
  | none => decide (0x780 ≤ q ∧ q < 0x7A8)
  | some base => base % 8192 == 0 && decide (base / 8192 < 2048) && !decide (0x780 ≤ q ∧ q < 0x7A8)

/-- C04 first clause at page level: a translated bus page comes back to a bus page that translates to the same pak page -/
def roundTripOK (bus pak : Nat → Option Nat) (k : Nat) : Bool :=
  match bus k with
  | none => true
  | some base =>
    match pak (base / 8192) with
    | none => false
    | some bb => bb % 8192 == 0 && decide (bb / 8192 < 2048) && (bus (bb / 8192) == some base)

/-- C04 second clause at page level: an accepted pak page lands on a translated bus page of the same class -/
def backOK (bus pak : Nat → Option Nat) (q : Nat) : Bool :=
  match pak q with
  | none => true
  | some bb =>
    bb % 8192 == 0 && decide (bb / 8192 < 2048) &&
    (match bus (bb / 8192) with
     | none => false
     | some base => base % 8192 == 0 && decide (clsOfPak base = clsOfPak (q * 8192)))

/-- console-owned pages -/
def consoleOK (bus : Nat → Option Nat) (k : Nat) : Bool :=
  let bank := k / 8; let pg := k % 8
  if bank = 0x7E ∨ bank = 0x7F then bus k == some (0xF50000 + (k - 0x3F0) * 8192)
  else if bank < 0x40 ∨ (0x80 ≤ bank ∧ bank < 0xC0) then
    (if pg = 0 then bus k == some 0xF50000 else if pg = 1 ∨ pg = 2 then bus k == none else true)
  else true

def allPages (f : Nat → Bool) : Bool := (List.range 2048).all f

theorem allPages_spec (f : Nat → Bool) (h : allPages f = true) (k : Nat) (hk : k < 2048) : f k = true := by
  unfold allPages at h
  rw [List.all_eq_true] at h
  exact h k (List.mem_range.mpr hk)

/-! ### the finite facts (kernel evaluation over all 2048 pages of each table) -/

theorem lorom_bus : allPages (busTableOK loromPage) = true := by decide +kernel
theorem hirom_bus : allPages (busTableOK hiromPage) = true := by decide +kernel
theorem exhirom_bus : allPages (busTableOK exhiromPage) = true := by decide +kernel
theorem sa1rom_bus : allPages (busTableOK sa1romPage) = true := by decide +kernel

theorem lorom_pak : allPages (pakTableOK loromPakPage) = true := by decide +kernel
theorem hirom_pak : allPages (pakTableOK hiromPakPage) = true := by decide +kernel
theorem exhirom_pak : allPages (pakTableOK exhiromPakPage) = true := by decide +kernel
theorem sa1rom_pak : allPages (pakTableOK sa1romPakPage) = true := by decide +kernel

theorem lorom_rt : allPages (roundTripOK loromPage loromPakPage) = true := by decide +kernel
theorem hirom_rt : allPages (roundTripOK hiromPage hiromPakPage) = true := by decide +kernel
theorem exhirom_rt : allPages (roundTripOK exhiromPage exhiromPakPage) = true := by decide +kernel
theorem sa1rom_rt : allPages (roundTripOK sa1romPage sa1romPakPage) = true := by decide +kernel

theorem lorom_back : allPages (backOK loromPage loromPakPage) = true := by decide +kernel
theorem hirom_back : allPages (backOK hiromPage hiromPakPage) = true := by decide +kernel
theorem exhirom_back : allPages (backOK exhiromPage exhiromPakPage) = true := by decide +kernel
theorem sa1rom_back : allPages (backOK sa1romPage sa1romPakPage) = true := by decide +kernel

theorem lorom_console : allPages (consoleOK loromPage) = true := by decide +kernel
theorem hirom_console : allPages (consoleOK hiromPage) = true := by decide +kernel
theorem exhirom_console : allPages (consoleOK exhiromPage) = true := by decide +kernel
theorem sa1rom_console : allPages (consoleOK sa1romPage) = true := by decide +kernel

end PageFacts
