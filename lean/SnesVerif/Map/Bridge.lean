/-
Bridging theorems: each regenerated mapper function equals the hand-written page table in page form,
for every 24-bit address.  Proof scripts are generic (unfold, rewrite masks to div/mod, case split, omega)
so that they survive refactors of the Go code that keep its behaviour.
-/
import SnesVerif.Gen.Map
import SnesVerif.Map.Spec
open MapSpec Gen
set_option maxRecDepth 10000
set_option linter.unusedSimpArgs false
set_option maxHeartbeats 4000000

macro "wrap_simp" : tactic => `(tactic|
  simp (disch := omega) only [Bits.sub_wrap32, Bits.wrap32,
    Bits.or_eq_add _ _ 13, Bits.or_eq_add _ _ 15, Bits.or_eq_add _ _ 16, Bits.or_eq_add _ _ 21,
    Bits.or_eq_add' _ _ 13, Bits.or_eq_add' _ _ 15, Bits.or_eq_add' _ _ 16, Bits.or_eq_add' _ _ 21])

macro "pair_simp" : tactic => `(tactic|
  simp only [Prod.mk.injEq, and_true, and_false, true_and, false_and, Bool.false_eq_true, Bool.true_eq_false, reduceCtorEq])

macro "pair_omega" : tactic => `(tactic|
  first
  | omega
  | (pair_simp; done)
  | (pair_simp; omega)
  | (wrap_simp; omega)
  | (wrap_simp; pair_simp; done)
  | (wrap_simp; pair_simp; omega)
  | (wrap_simp; wrap_simp; pair_simp; omega))

macro "map_bridge" : tactic => `(tactic|
  (simp only [map_mask_3, map_mask_1f, map_mask_1fff, map_mask_7fff, map_mask_8000, map_mask_ffff, map_mask_1ffff, map_mask_7ffff,
      map_mask_3f7fff, map_mask_3fffff, elim_ite, Option.elim_some, Option.elim_none]
   repeat' split
   all_goals pair_omega))

namespace MapBridge

theorem lorom_b2p (a : Nat) (h : a < 16777216) : lorom_BusAddressToPak a = pageForm loromPage a := by
  unfold lorom_BusAddressToPak pageForm loromPage util_BankToLinear
  map_bridge

theorem lorom_p2b (p : Nat) (h : p < 16777216) : lorom_PakAddressToBus p = pageForm loromPakPage p := by
  unfold lorom_PakAddressToBus pageForm loromPakPage
  map_bridge

theorem hirom_b2p (a : Nat) (h : a < 16777216) : hirom_BusAddressToPak a = pageForm hiromPage a := by
  unfold hirom_BusAddressToPak pageForm hiromPage util_BankToLinear
  map_bridge

theorem hirom_p2b (p : Nat) (h : p < 16777216) : hirom_PakAddressToBus p = pageForm hiromPakPage p := by
  unfold hirom_PakAddressToBus pageForm hiromPakPage
  map_bridge

theorem exhirom_b2p (a : Nat) (h : a < 16777216) : exhirom_BusAddressToPak a = pageForm exhiromPage a := by
  unfold exhirom_BusAddressToPak pageForm exhiromPage util_BankToLinear
  map_bridge

theorem exhirom_p2b (p : Nat) (h : p < 16777216) : exhirom_PakAddressToBus p = pageForm exhiromPakPage p := by
  unfold exhirom_PakAddressToBus pageForm exhiromPakPage
  map_bridge

theorem sa1rom_b2p (a : Nat) (h : a < 16777216) : sa1rom_BusAddressToPak a = pageForm sa1romPage a := by
  unfold sa1rom_BusAddressToPak pageForm sa1romPage
  map_bridge

theorem sa1rom_p2b (p : Nat) (h : p < 16777216) : sa1rom_PakAddressToBus p = pageForm sa1romPakPage p := by
  unfold sa1rom_PakAddressToBus pageForm sa1romPakPage
  map_bridge

end MapBridge
