/-
Generic theorems: everything C04/C05 say about a mapper follows from
 (1) the two bridge theorems (regenerated code = page form of the page tables), and
 (2) the finite page-table facts of `PageFacts`.
-/
import SnesVerif.Map.PageFacts
open MapSpec PageFacts
set_option maxRecDepth 100000

namespace MapGeneric

structure Model where
  b2p : Nat → Nat × Bool
  p2b : Nat → Nat × Bool
  page : Nat → Option Nat
  pakPage : Nat → Option Nat
  hb : ∀ a, a < 16777216 → b2p a = pageForm page a
  hp : ∀ p, p < 16777216 → p2b p = pageForm pakPage p
  fbus : allPages (busTableOK page) = true
  fpak : allPages (pakTableOK pakPage) = true
  frt : allPages (roundTripOK page pakPage) = true
  fback : allPages (backOK page pakPage) = true
  fconsole : allPages (consoleOK page) = true

/-! #### unfolding the Boolean page checks -/

theorem bus_spec (M : Model) (k base : Nat) (hk : k < 2048) (h : M.page k = some base) : pageInWindow base = true := by
  have := allPages_spec _ M.fbus k hk
  unfold busTableOK at this; rw [h] at this; exact this

theorem window_bounds (base : Nat) (h : pageInWindow base = true) : base % 8192 = 0 ∧ base + 8192 ≤ 0xF70000 := by
  unfold pageInWindow at h
  simp only [Bool.and_eq_true, Bool.or_eq_true, beq_iff_eq, decide_eq_true_eq] at h
  omega

theorem pak_spec_none (M : Model) (q : Nat) (hq : q < 2048) (h : M.pakPage q = none) : 0x780 ≤ q ∧ q < 0x7A8 := by
  have := allPages_spec _ M.fpak q hq
  unfold pakTableOK at this; rw [h] at this
  simpa using this

theorem pak_spec_some (M : Model) (q bb : Nat) (hq : q < 2048) (h : M.pakPage q = some bb) :
    bb % 8192 = 0 ∧ bb / 8192 < 2048 ∧ ¬ (0x780 ≤ q ∧ q < 0x7A8) := by
  have := allPages_spec _ M.fpak q hq
  unfold pakTableOK at this; rw [h] at this
  simp only [Bool.and_eq_true, beq_iff_eq, decide_eq_true_eq, Bool.not_eq_true', decide_eq_false_iff_not] at this
  exact ⟨this.1.1, this.1.2, this.2⟩

theorem rt_spec (M : Model) (k base : Nat) (hk : k < 2048) (h : M.page k = some base) :
    ∃ bb, M.pakPage (base / 8192) = some bb ∧ bb % 8192 = 0 ∧ bb / 8192 < 2048 ∧ M.page (bb / 8192) = some base := by
  have := allPages_spec _ M.frt k hk
  unfold roundTripOK at this; rw [h] at this; simp only at this
  cases hq : M.pakPage (base / 8192) with
  | none => rw [hq] at this; simp at this
  | some bb =>
    rw [hq] at this
    simp only [Bool.and_eq_true, beq_iff_eq, decide_eq_true_eq] at this
    exact ⟨bb, rfl, this.1.1, this.1.2, this.2⟩

theorem back_spec (M : Model) (q bb : Nat) (hq : q < 2048) (h : M.pakPage q = some bb) :
    bb % 8192 = 0 ∧ bb / 8192 < 2048 ∧ ∃ base, M.page (bb / 8192) = some base ∧ base % 8192 = 0 ∧
      clsOfPak base = clsOfPak (q * 8192) := by
  have := allPages_spec _ M.fback q hq
  unfold backOK at this; rw [h] at this; simp only at this
  cases hb : M.page (bb / 8192) with
  | none => rw [hb] at this; simp at this
  | some base =>
    rw [hb] at this
    simp only [Bool.and_eq_true, beq_iff_eq, decide_eq_true_eq] at this
    exact ⟨this.1.1, this.1.2, base, rfl, this.2.1, this.2.2⟩

/-! #### C05 -/

/-- every bus address is rejected with a zero result or lands in exactly one class window -/
theorem wellFormedImage (M : Model) (a : Nat) (ha : a < 16777216) :
    M.b2p a = (0, true) ∨ ∃ p, M.b2p a = (p, false) ∧ inClassWindow p := by
  rw [M.hb a ha]
  rcases pageForm_cases M.page a with ⟨_, h⟩ | ⟨base, hs, h⟩
  · exact Or.inl h
  · refine Or.inr ⟨base + a % 8192, h, ?_⟩
    exact pageInWindow_spec base (a % 8192) (bus_spec M (a / 8192) base (by omega) hs) (Nat.mod_lt _ (by decide))

/-- only the unassigned window $F00000-$F4FFFF is rejected by the reverse translation -/
theorem rejectsExactly (M : Model) (p : Nat) (hp : p < 16777216) :
    ((M.p2b p).2 = true ↔ (0xF00000 ≤ p ∧ p < 0xF50000)) ∧ ((M.p2b p).2 = true → (M.p2b p).1 = 0) := by
  rw [M.hp p hp]
  rcases pageForm_cases M.pakPage p with ⟨hn, h⟩ | ⟨bb, hs, h⟩
  · rw [h]
    have := pak_spec_none M (p / 8192) (by omega) hn
    simp only [true_iff, forall_const, and_true]
    omega
  · rw [h]
    have := pak_spec_some M (p / 8192) bb (by omega) hs
    simp only [Bool.false_eq_true, false_iff, false_imp_iff, and_true]
    omega

/-- banks $7E-$7F, the low 8 KiB of system banks and the register hole, identically for every mapper -/
theorem consoleOwned (M : Model) (a : Nat) (ha : a < 16777216) :
    (wramBank (a / 65536) → M.b2p a = (0xF50000 + (a - 0x7E0000), false)) ∧
    (sysBank (a / 65536) → a % 65536 < 0x2000 → M.b2p a = (0xF50000 + a % 65536, false)) ∧
    (sysBank (a / 65536) → 0x2000 ≤ a % 65536 → a % 65536 < 0x6000 → M.b2p a = (0, true)) := by
  rw [M.hb a ha]
  have hc := allPages_spec _ M.fconsole (a / 8192) (by omega)
  unfold consoleOK at hc
  simp only at hc
  unfold wramBank sysBank
  refine ⟨?_, ?_, ?_⟩
  · intro hw
    have e : a / 8192 / 8 = 0x7E ∨ a / 8192 / 8 = 0x7F := by omega
    rw [if_pos e] at hc
    have := pageForm_some M.page a (0xF50000 + (a / 8192 - 0x3F0) * 8192) (by simpa using hc)
    rw [this]; simp only [Prod.mk.injEq, and_true]; omega
  · intro hs ho
    have e : ¬ (a / 8192 / 8 = 0x7E ∨ a / 8192 / 8 = 0x7F) := by omega
    have e2 : a / 8192 / 8 < 0x40 ∨ (0x80 ≤ a / 8192 / 8 ∧ a / 8192 / 8 < 0xC0) := by omega
    have e3 : a / 8192 % 8 = 0 := by omega
    rw [if_neg e, if_pos e2, if_pos e3] at hc
    have := pageForm_some M.page a 0xF50000 (by simpa using hc)
    rw [this]; simp only [Prod.mk.injEq, and_true]; omega
  · intro hs h1 h2
    have e : ¬ (a / 8192 / 8 = 0x7E ∨ a / 8192 / 8 = 0x7F) := by omega
    have e2 : a / 8192 / 8 < 0x40 ∨ (0x80 ≤ a / 8192 / 8 ∧ a / 8192 / 8 < 0xC0) := by omega
    have e3 : ¬ a / 8192 % 8 = 0 := by omega
    have e4 : a / 8192 % 8 = 1 ∨ a / 8192 % 8 = 2 := by omega
    rw [if_neg e, if_pos e2, if_neg e3, if_pos e4] at hc
    exact pageForm_none M.page a (by simpa using hc)

/-- mappedness is constant on an 8 KiB page and translation keeps byte order inside it (a function in page form) -/
theorem pageOrder (tbl : Nat → Option Nat) (a : Nat) (h : a % 8192 ≠ 8191) :
    (pageForm tbl a).2 = (pageForm tbl (a + 1)).2 ∧
    ((pageForm tbl a).2 = false → (pageForm tbl (a + 1)).1 = (pageForm tbl a).1 + 1) := by
  have e : (a + 1) / 8192 = a / 8192 := by omega
  have e2 : (a + 1) % 8192 = a % 8192 + 1 := by omega
  unfold pageForm
  rw [e, e2]
  cases tbl (a / 8192) with
  | none => simp
  | some b => simp; omega

theorem busPageOrder (M : Model) (a : Nat) (ha : a + 1 < 16777216) (h : a % 8192 ≠ 8191) :
    (M.b2p a).2 = (M.b2p (a + 1)).2 ∧ ((M.b2p a).2 = false → (M.b2p (a + 1)).1 = (M.b2p a).1 + 1) := by
  rw [M.hb a (by omega), M.hb (a + 1) ha]; exact pageOrder M.page a h

theorem pakPageOrder (M : Model) (p : Nat) (hp : p + 1 < 16777216) (h : p % 8192 ≠ 8191) :
    (M.p2b p).2 = (M.p2b (p + 1)).2 ∧ ((M.p2b p).2 = false → (M.p2b (p + 1)).1 = (M.p2b p).1 + 1) := by
  rw [M.hp p (by omega), M.hp (p + 1) hp]; exact pageOrder M.pakPage p h

/-! #### C04 -/

/-- bus → pak → bus → pak is the identity on the pak side -/
theorem rightInverse (M : Model) (b p : Nat) (hb : b < 16777216) (h : M.b2p b = (p, false)) :
    ∃ b', M.p2b p = (b', false) ∧ b' < 16777216 ∧ M.b2p b' = (p, false) := by
  rw [M.hb b hb] at h
  rcases pageForm_cases M.page b with ⟨_, h'⟩ | ⟨base, hs, h'⟩
  · rw [h'] at h; simp at h
  · rw [h'] at h
    have hp : p = base + b % 8192 := by simpa using h.symm
    have hk : b / 8192 < 2048 := by omega
    have hw := window_bounds base (bus_spec M _ base hk hs)
    obtain ⟨bb, hq, hbb0, hbbk, hback⟩ := rt_spec M _ base hk hs
    have hr : b % 8192 < 8192 := Nat.mod_lt _ (by decide)
    have hp24 : p < 16777216 := by omega
    have e1 : p / 8192 = base / 8192 := by omega
    have e2 : p % 8192 = b % 8192 := by omega
    refine ⟨bb + b % 8192, ?_, by omega, ?_⟩
    · rw [M.hp p hp24, pageForm_some M.pakPage p bb (by rw [e1]; exact hq), e2]
    · have e3 : (bb + b % 8192) / 8192 = bb / 8192 := by omega
      have e4 : (bb + b % 8192) % 8192 = b % 8192 := by omega
      rw [M.hb _ (by omega), pageForm_some M.page _ base (by rw [e3]; exact hback), e4, hp]

/-- the class windows are unions of whole 8 KiB pages -/
theorem clsOfPak_page (x r : Nat) (hx : x % 8192 = 0) (hr : r < 8192) : clsOfPak (x + r) = clsOfPak x := by
  unfold clsOfPak
  repeat' split
  all_goals first | rfl | omega

/-- an accepted pak address comes back to a translated bus address of the same class at the same page offset -/
theorem backTranslation (M : Model) (p b : Nat) (hp : p < 16777216) (h : M.p2b p = (b, false)) :
    b < 16777216 ∧ ∃ p', M.b2p b = (p', false) ∧ clsOfPak p' = clsOfPak p ∧ p' % 8192 = p % 8192 := by
  rw [M.hp p hp] at h
  rcases pageForm_cases M.pakPage p with ⟨_, h'⟩ | ⟨bb, hs, h'⟩
  · rw [h'] at h; simp at h
  · rw [h'] at h
    have hb : b = bb + p % 8192 := by simpa using h.symm
    have hq : p / 8192 < 2048 := by omega
    obtain ⟨hbb0, hbbk, base, hpg, hb0, hc⟩ := back_spec M _ bb hq hs
    have hr : p % 8192 < 8192 := Nat.mod_lt _ (by decide)
    have e3 : b / 8192 = bb / 8192 := by omega
    have e4 : b % 8192 = p % 8192 := by omega
    have hb24 : b < 16777216 := by omega
    refine ⟨hb24, base + p % 8192, ?_, ?_, by omega⟩
    · rw [M.hb b hb24, pageForm_some M.page b base (by rw [e3]; exact hpg), e4]
    · have hp' : p = p / 8192 * 8192 + p % 8192 := by omega
      rw [clsOfPak_page base _ hb0 hr, hc]
      conv => rhs; rw [hp']
      exact (clsOfPak_page _ _ (by omega) hr).symm

end MapGeneric
