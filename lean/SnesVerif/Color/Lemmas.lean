/- Helper lemmas about the regenerated color15 functions (closed forms). -/
import SnesVerif.Gen.Color
open Gen
set_option maxRecDepth 10000

namespace ColorLemmas

/-- closed form of unpacking, for every 16-bit colour value -/
theorem toRGB_eq (c : Nat) (_h : c < 65536) :
    color15_Color_ToRGB c = (c % 32, c / 32 % 32, c / 1024 % 32) := by
  unfold color15_Color_ToRGB
  simp only [color_mask_1f, color_mask_3e0, color_mask_7e00, Prod.mk.injEq]
  omega

/-- closed form of packing, for every channel triple -/
theorem toColor15_eq (r g b : Nat) :
    color15_ToColor15 r g b = b % 32 * 1024 + g % 32 * 32 + r % 32 := by
  unfold color15_ToColor15
  simp only [color_mask_1f]
  have h1 : (b % 32 * 1024 % 65536 ||| g % 32 * 32 % 65536) = b % 32 * 1024 % 65536 + g % 32 * 32 % 65536 :=
    Bits.or_eq_add _ _ 10 (by omega) (by omega)
  rw [h1]
  have h2 : (b % 32 * 1024 % 65536 + g % 32 * 32 % 65536 ||| r % 32) = b % 32 * 1024 % 65536 + g % 32 * 32 % 65536 + r % 32 :=
    Bits.or_eq_add _ _ 5 (by omega) (by omega)
  rw [h2]
  omega

theorem toColor15_lt (r g b : Nat) : color15_ToColor15 r g b < 32768 := by
  rw [toColor15_eq]; omega

theorem unpack_pack (r g b : Nat) :
    color15_Color_ToRGB (color15_ToColor15 r g b) = (r % 32, g % 32, b % 32) := by
  rw [toRGB_eq _ (by have := toColor15_lt r g b; omega), toColor15_eq]
  simp only [Prod.mk.injEq]
  omega

end ColorLemmas
