/-
C19 — emission is all-or-nothing at capacity; dry-run emitters track addresses equally.

Model: Asm/Model.lean (hand-written, tied by `vh asm`), histories of calls `AsmModel.Op`.
The model keeps Go's real order of effects: a refused REP/SEP has already updated the tracked flags and a refused
EmitBytes has already appended its listing lines — neither is in the property's list (bytes, length, PC, labels).
-/
import SnesVerif.Asm.Ops
open AsmModel AsmLemmas Gen
set_option maxRecDepth 100000

namespace C19

/-- **The number of emitted bytes never exceeds the capacity**, step by step … -/
theorem step_capacity (e : Em) (o : Op) (c : Nat) (hc : e.cap = some c) (hl : e.code.length ≤ c) :
    (step e o).1.cap = some c ∧ (step e o).1.code.length ≤ c := by
  cases o with
  | ins m a l =>
    simp only [step, ins_eq]
    split
    · exact ⟨hc, hl⟩
    · have tf := tracked_fields e m a
      rcases emit_fields (tracked e m a) (lineKindOf m.kind (m.bytes.map (AsmExpect.evalB a)).length)
          (m.bytes.map (AsmExpect.evalB a)) m.ins l m.fmt
          (dangOf m.kind) with ⟨_, h1, _⟩ | ⟨_, _, _, _, h5, _, _, h8⟩
      · rw [h1]; exact ⟨by rw [tf.2.2.1]; exact hc, by rw [tf.1]; exact hl⟩
      · refine ⟨by rw [h5, tf.2.2.1]; exact hc, ?_⟩
        rcases h8 with ⟨hn, _⟩ | ⟨c', hc', hle, hcode⟩
        · rw [tf.2.2.1, hc] at hn; simp at hn
        · rw [hcode]; rw [tf.2.2.1, hc] at hc'; simp at hc'; subst hc'
          simpa using hle
  | bytes b =>
    simp only [step]
    rcases emitBytes_fields e b with ⟨_, h1, _, _, h4, _⟩ | ⟨_, _, _, _, h5, h6, _⟩
    · exact ⟨by rw [h4]; exact hc, by rw [h1]; exact hl⟩
    · refine ⟨by rw [h5]; exact hc, ?_⟩
      rcases h6 with ⟨hn, _⟩ | ⟨c', hc', hle, hcode⟩
      · rw [hc] at hn; simp at hn
      · rw [hcode]; rw [hc] at hc'; simp at hc'; subst hc'; simpa using hle
  | label n =>
    simp only [step]
    rcases label_fields e n with ⟨_, h1, _⟩ | ⟨_, _, h3, _, _, _, h7, _⟩
    · rw [h1]; exact ⟨hc, hl⟩
    · exact ⟨by rw [h7]; exact hc, by rw [h3]; exact hl⟩
  | comment s =>
    simp only [step, comment, emitBase]
    (repeat' split) <;> exact ⟨hc, hl⟩
  | setBase a => exact ⟨hc, hl⟩

/-- … and along every history -/
theorem run_capacity (e : Em) (ops : List Op) (c : Nat) (hc : e.cap = some c) (hl : e.code.length ≤ c) :
    (run e ops).cap = some c ∧ (run e ops).code.length ≤ c := by
  induction ops generalizing e with
  | nil => exact ⟨hc, hl⟩
  | cons o os ih =>
    have h := step_capacity e o c hc hl
    exact ih (step e o).1 h.1 h.2

/-- **A call that does not fit is refused as a whole**: emitted bytes, length, program counter and labels are exactly
as before. -/
theorem refused_unchanged (e : Em) (o : Op) (h : (step e o).2 = .refused) :
    (step e o).1.code = e.code ∧ (step e o).1.address = e.address ∧ (step e o).1.labels = e.labels := by
  cases o with
  | ins m a l =>
    simp only [step, ins_eq] at h ⊢
    split at h
    · rename_i g; rw [if_pos g]; exact ⟨rfl, rfl, rfl⟩
    · rename_i g; rw [if_neg g]
      have tf := tracked_fields e m a
      rcases emit_fields (tracked e m a) (lineKindOf m.kind (m.bytes.map (AsmExpect.evalB a)).length)
          (m.bytes.map (AsmExpect.evalB a)) m.ins l m.fmt
          (dangOf m.kind) with ⟨_, h1, _⟩ | ⟨h0, _⟩
      · rw [h1]; exact ⟨tf.1, tf.2.1, tf.2.2.2.1⟩
      · rw [h0] at h; simp at h
  | bytes b =>
    simp only [step] at h ⊢
    rcases emitBytes_fields e b with ⟨_, h1, h2, h3, _⟩ | ⟨h0, _⟩
    · exact ⟨h1, h2, h3⟩
    · rw [h0] at h; simp at h
  | label n =>
    simp only [step] at h ⊢
    rcases label_fields e n with ⟨_, h1, _⟩ | ⟨h0, _⟩
    · rw [h1]; exact ⟨rfl, rfl, rfl⟩
    · rw [h0] at h; simp at h
  | comment s => simp [step] at h
  | setBase a => simp [step] at h

/-- a refusal of an emission happens exactly when the bytes do not fit (instruction whose width guard passes, or data) -/
theorem data_refused_iff (e : Em) (b : List Nat) (c : Nat) (hc : e.cap = some c) :
    (emitBytes e b).2 = .refused ↔ c < e.code.length + b.length := by
  rcases emitBytes_fields e b with ⟨h0, _, _, _, _, ⟨c', hc', hlt⟩, _⟩ | ⟨h0, _, _, _, _, h6, _⟩
  · rw [hc] at hc'; simp at hc'; subst hc'; simp [h0, hlt]
  · rcases h6 with ⟨hn, _⟩ | ⟨c', hc', hle, _⟩
    · rw [hc] at hn; simp at hn
    · rw [hc] at hc'; simp at hc'; subst hc'
      rw [h0]; simp; omega

/-! ### dry-run emitters -/

/-- what a nil-target emitter shares with a real one: program counter, label addresses and tracked flags -/
def Tracks (d r : Em) : Prop :=
  d.cap = none ∧ d.address = r.address ∧ d.labels = r.labels ∧ d.flags = r.flags

/-- one call: whenever the real emitter accepts, so does the dry-run emitter, and they keep tracking each other -/
theorem dry_step (d r : Em) (o : Op) (ht : Tracks d r) (hok : (step r o).2 = .ok) :
    (step d o).2 = .ok ∧ Tracks (step d o).1 (step r o).1 := by
  obtain ⟨t1, t2, t3, t4⟩ := ht
  cases o with
  | ins m a l =>
    simp only [step, ins_eq] at hok ⊢
    by_cases g : guardOK m.guard r.flags
    · have g' : guardOK m.guard d.flags := by rw [t4]; exact g
      simp only [g, g', Bool.not_true, Bool.false_eq_true, if_false] at hok ⊢
      have tfd := tracked_fields d m a
      have tfr := tracked_fields r m a
      have hfl : (tracked d m a).flags = (tracked r m a).flags := by
        unfold tracked; cases m.track <;> simp [t4]
      rcases emit_fields (tracked d m a) (lineKindOf m.kind (m.bytes.map (AsmExpect.evalB a)).length)
          (m.bytes.map (AsmExpect.evalB a)) m.ins l m.fmt
          (dangOf m.kind) with ⟨_, _, c, hc, _⟩ | ⟨d0, d1, d2, d3, d4, _⟩
      · rw [tfd.2.2.1, t1] at hc; simp at hc
      · rcases emit_fields (tracked r m a) (lineKindOf m.kind (m.bytes.map (AsmExpect.evalB a)).length)
            (m.bytes.map (AsmExpect.evalB a)) m.ins l m.fmt
            (dangOf m.kind) with ⟨r0, _⟩ | ⟨_, r1, r2, r3, _⟩
        · rw [r0] at hok; simp at hok
        · exact ⟨d0, by rw [d4, tfd.2.2.1]; exact t1, by rw [d1, r1, tfd.2.1, tfr.2.1, t2],
            by rw [d2, r2, tfd.2.2.2.1, tfr.2.2.2.1, t3], by rw [d3, r3, hfl]⟩
    · simp only [g, Bool.not_false, if_true] at hok
      simp at hok
  | bytes b =>
    simp only [step] at hok ⊢
    rcases emitBytes_fields d b with ⟨_, _, _, _, _, ⟨c, hc, _⟩, _⟩ | ⟨d0, d1, d2, d3, d4, _⟩
    · rw [t1] at hc; simp at hc
    · rcases emitBytes_fields r b with ⟨r0, _⟩ | ⟨_, r1, r2, r3, _⟩
      · rw [r0] at hok; simp at hok
      · exact ⟨d0, by rw [d4]; exact t1, by rw [d1, r1, t2], by rw [d2, r2, t3], by rw [d3, r3, t4]⟩
  | label n =>
    simp only [step] at hok ⊢
    rcases label_fields r n with ⟨r0, _⟩ | ⟨_, rn, _, r4, r5, r6, _⟩
    · rw [r0] at hok; simp at hok
    · rcases label_fields d n with ⟨_, _, hs⟩ | ⟨d0, _, _, d4, d5, d6, d7, _⟩
      · rw [t3, rn] at hs; simp at hs
      · exact ⟨d0, by rw [d7]; exact t1, by rw [d4, r4, t2], by rw [d5, r5, t3, t2], by rw [d6, r6, t4]⟩
  | comment s =>
    refine ⟨rfl, ?_⟩
    simp only [step, comment, emitBase]
    refine ⟨?_, ?_, ?_, ?_⟩ <;> ((repeat' split) <;> simp_all)
  | setBase a => exact ⟨rfl, t1, rfl, t3, t4⟩

/-- **Dry run.**  For every history the real emitter accepts, a nil-target emitter accepts it too and reports the same
program counter, label addresses and tracked flags after every call (by induction over the history). -/
theorem dry_run_tracks (d r : Em) (ops : List Op) (ht : Tracks d r) (hok : allAccepted r ops) :
    allAccepted d ops ∧ Tracks (run d ops) (run r ops) := by
  induction ops generalizing d r with
  | nil => exact ⟨trivial, ht⟩
  | cons o os ih =>
    obtain ⟨h1, h2⟩ := hok
    have hs := dry_step d r o ht h1
    have := ih (step d o).1 (step r o).1 hs.2 h2
    exact ⟨⟨hs.1, this.1⟩, this.2⟩

/-- fresh emitters track each other -/
theorem fresh_tracks (c : Nat) (t1 t2 : Bool) : Tracks (newEmitter none t1) (newEmitter (some c) t2) :=
  ⟨rfl, rfl, rfl, rfl⟩

/-! non-vacuity: a 3-byte instruction into a 2-byte buffer is refused as a whole -/
example : (match asmMethods.find? (·.name == "LDA_abs") with
    | some m => ((ins (newEmitter (some 2) true) m [0x1234] "").2, (ins (newEmitter (some 2) true) m [0x1234] "").1.code)
    | none => (.ok, [])) = (.refused, []) := by decide

end C19
