/-
C06 — Finalize resolves every label reference to the right target or reports an error.

Model: Asm/Model.lean (tied by `vh asm`; directed branch distances −129 … +128 and random label histories).
A dangling reference is the address `r` of an operand byte: for a relative branch the branch ends at `r+1`, so the
stored byte must be the signed distance `target − (r+1)`; for an absolute jump the two bytes at `r`, `r+1` receive the
low 16 bits of the target.  Go iterates its maps in arbitrary order; the model iterates association lists in order.
The theorems below are order-independent statements: success/failure is a property of the *set* of references, on
success every reference holds its value (the write positions are pairwise distinct), and in every case only operand
bytes of references can change.
-/
import SnesVerif.Asm.Refs
open AsmModel AsmLemmas Gen
set_option maxRecDepth 100000

namespace C06

/-- the invariant of emitter states reached by accepted calls on an emitter with a buffer -/
structure K (e : Em) : Prop where
  addr : e.address = e.base + e.code.length
  refs : RefsInv e

def OpOK : Op → Prop
  | .ins m _ _ => m ∈ asmMethods
  | .setBase _ => False
  | _ => True

theorem k_fresh (c : Option Nat) (t : Bool) : K (newEmitter c t) :=
  ⟨rfl, ⟨by simp [newEmitter], by simp [newEmitter], by simp [newEmitter, potS8, potU16]⟩⟩
theorem k_fresh_base (c : Option Nat) (t : Bool) (a : Nat) : K (setBase (newEmitter c t) a) :=
  ⟨by simp [setBase, newEmitter], ⟨by simp [setBase, newEmitter], by simp [setBase, newEmitter],
    by simp [setBase, newEmitter, potS8, potU16]⟩⟩

theorem step_k (e : Em) (o : Op) (c : Nat) (hk : K e) (hc : e.cap = some c) (ho : OpOK o) (hok : (step e o).2 = .ok) :
    K (step e o).1 := by
  cases o with
  | ins m a l =>
    simp only [step, ins_eq] at hok ⊢
    by_cases g : guardOK m.guard e.flags
    · simp only [g, Bool.not_true, Bool.false_eq_true, if_false] at hok ⊢
      have tf := tracked_fields e m a
      have hcap : (tracked e m a).cap = some c := by rw [tf.2.2.1]; exact hc
      obtain ⟨e1, e2, e3, e4, e5⟩ := emit_dangling (tracked e m a) _ _ _ l _ (dangOf m.kind) c hcap hok
      have hkind := (List.all_eq_true.mp all_rows_kind_ok) m ho
      unfold rowKindOK at hkind
      generalize (emit (tracked e m a) (lineKindOf m.kind (m.bytes.map (AsmExpect.evalB a)).length)
          (m.bytes.map (AsmExpect.evalB a)) m.ins l m.fmt (dangOf m.kind)).1 = e' at e1 e2 e3 e4 e5 ⊢
      rw [tf.2.2.2.2.2.2.1] at e1
      rw [tf.1] at e2
      rw [tf.2.1] at e3 e4 e5
      rw [tf.2.2.2.2.2.2.2.2.1] at e4
      rw [tf.2.2.2.2.2.2.2.2.2] at e5
      simp only [List.length_map] at e3 e4 e5
      have hcl : e'.code.length = e.code.length + m.bytes.length := by rw [e2]; simp
      refine ⟨by rw [e3, e1, hcl, hk.addr]; omega, ?_⟩
      cases hkd : m.kind <;> rw [hkd] at hkind e4 e5 <;> simp only [dangOf, reduceCtorEq, if_false, if_true] at e4 e5
      · -- plain: maps unchanged
        exact refsInv_grow e e' hk.refs e1 e4 e5 (by omega)
      · -- label8: one new signed-8 reference at the last byte
        simp only [beq_iff_eq] at hkind
        have hr : e.address + m.bytes.length - 1 = e.base + e.code.length + 1 := by rw [hk.addr, hkind]; omega
        rw [hr] at e4
        constructor
        · intro p hp r hr'
          rw [e4] at hp
          rcases addRef_refs _ _ _ p hp r hr' with rfl | ⟨q, hq, hrq⟩
          · rw [e1, hcl, hkind]; omega
          · have := hk.refs.s8b q hq r hrq; rw [e1, hcl]; omega
        · intro p hp r hr'
          rw [e5] at hp
          have := hk.refs.u16b p hp r hr'; rw [e1, hcl]; omega
        · rw [e1, e4, e5]
          have hp := potS8_addRef e.base e.dS8 l (e.base + e.code.length + 1)
          refine (List.Perm.nodup_iff (List.Perm.append_right _ hp)).mpr ?_
          simp only [List.cons_append, List.nodup_cons]
          refine ⟨?_, hk.refs.nodup⟩
          intro hmem
          rcases List.mem_append.mp hmem with h | h
          · have := potS8_lt e hk.refs _ h; omega
          · have := potU16_lt e hk.refs _ h; omega
      · -- label16: one new absolute-16 reference at the last two bytes
        simp only [beq_iff_eq] at hkind
        have hr : e.address + m.bytes.length - 2 = e.base + e.code.length + 1 := by rw [hk.addr, hkind]; omega
        rw [hr] at e5
        constructor
        · intro p hp r hr'
          rw [e4] at hp
          have := hk.refs.s8b p hp r hr'; rw [e1, hcl]; omega
        · intro p hp r hr'
          rw [e5] at hp
          rcases addRef_refs _ _ _ p hp r hr' with rfl | ⟨q, hq, hrq⟩
          · rw [e1, hcl, hkind]; omega
          · have := hk.refs.u16b q hq r hrq; rw [e1, hcl]; omega
        · rw [e1, e4, e5]
          have hp := potU16_addRef e.base e.dU16 l (e.base + e.code.length + 1)
          refine (List.Perm.nodup_iff (List.Perm.append_left _ hp)).mpr ?_
          have hmid : (potS8 e.base e.dS8 ++ (e.base + e.code.length + 1 - e.base) :: (e.base + e.code.length + 1 - e.base + 1) :: potU16 e.base e.dU16).Perm
              ((e.base + e.code.length + 1 - e.base) :: (e.base + e.code.length + 1 - e.base + 1) :: (potS8 e.base e.dS8 ++ potU16 e.base e.dU16)) := by
            exact (List.perm_middle).trans (List.Perm.cons _ List.perm_middle)
          refine (List.Perm.nodup_iff hmid).mpr ?_
          simp only [List.nodup_cons, List.mem_cons]
          refine ⟨?_, ?_, hk.refs.nodup⟩
          · intro hmem
            rcases hmem with h | h
            · omega
            · rcases List.mem_append.mp h with h | h
              · have := potS8_lt e hk.refs _ h; omega
              · have := potU16_lt e hk.refs _ h; omega
          · intro hmem
            rcases List.mem_append.mp hmem with h | h
            · have := potS8_lt e hk.refs _ h; omega
            · have := potU16_lt e hk.refs _ h; omega
    · simp only [g, Bool.not_false, if_true] at hok; simp at hok
  | bytes b =>
    simp only [step] at hok ⊢
    rcases emitBytes_fields e b with ⟨h0, _⟩ | ⟨_, h1, _, _, h4, h6, _⟩
    · rw [h0] at hok; simp at hok
    · rcases h6 with ⟨hn, _⟩ | ⟨c', _, _, hcode⟩
      · rw [hc] at hn; simp at hn
      · have hb := emitBytes_static e b
        have hcl : (emitBytes e b).1.code.length = e.code.length + b.length := by rw [hcode]; simp
        exact ⟨by rw [h1, hb.1, hcl, hk.addr]; omega, refsInv_grow e _ hk.refs hb.1 hb.2.1 hb.2.2 (by omega)⟩
  | label n =>
    simp only [step] at hok ⊢
    rcases label_fields e n with ⟨h0, _⟩ | ⟨_, _, h3, h4, _, _, _, _⟩
    · rw [h0] at hok; simp at hok
    · have hb := label_static e n
      exact ⟨by rw [h4, hb.1, h3]; exact hk.addr, refsInv_grow e _ hk.refs hb.1 hb.2.1 hb.2.2 (by rw [h3]; exact Nat.le_refl _)⟩
  | comment s =>
    have hb : (step e (.comment s)).1.base = e.base ∧ (step e (.comment s)).1.dS8 = e.dS8 ∧ (step e (.comment s)).1.dU16 = e.dU16 ∧
        (step e (.comment s)).1.code = e.code ∧ (step e (.comment s)).1.address = e.address := by
      simp only [step, comment, emitBase]; (repeat' split) <;> simp_all
    exact ⟨by rw [hb.2.2.2.2, hb.1, hb.2.2.2.1]; exact hk.addr,
      refsInv_grow e _ hk.refs hb.1 hb.2.1 hb.2.2.1 (by rw [hb.2.2.2.1]; exact Nat.le_refl _)⟩
  | setBase a => exact absurd ho (by simp [OpOK])

theorem step_cap (e : Em) (o : Op) (ho : OpOK o) : (step e o).1.cap = e.cap := by
  cases o with
  | ins m a l =>
    simp only [step, ins_eq]
    split
    · rfl
    · have tf := tracked_fields e m a
      rcases emit_fields (tracked e m a) (lineKindOf m.kind (m.bytes.map (AsmExpect.evalB a)).length)
          (m.bytes.map (AsmExpect.evalB a)) m.ins l m.fmt (dangOf m.kind) with ⟨_, h1, _⟩ | ⟨_, _, _, _, h5, _⟩
      · rw [h1]; exact tf.2.2.1
      · rw [h5]; exact tf.2.2.1
  | bytes b =>
    simp only [step]
    rcases emitBytes_fields e b with ⟨_, _, _, _, h4, _⟩ | ⟨_, _, _, _, h5, _⟩
    · exact h4
    · exact h5
  | label n =>
    simp only [step]
    rcases label_fields e n with ⟨_, h1, _⟩ | ⟨_, _, _, _, _, _, h7, _⟩
    · rw [h1]
    · exact h7
  | comment s => simp only [step, comment, emitBase]; (repeat' split) <;> rfl
  | setBase a => exact absurd ho (by simp [OpOK])

theorem run_k (e : Em) (ops : List Op) (c : Nat) (hk : K e) (hc : e.cap = some c)
    (ho : ∀ o ∈ ops, OpOK o) (hok : allAccepted e ops) : K (run e ops) := by
  induction ops generalizing e with
  | nil => exact hk
  | cons o os ih =>
    have ho1 := ho o (List.mem_cons_self ..)
    exact ih (step e o).1 (step_k e o c hk hc ho1 hok.1) (by rw [step_cap e o ho1]; exact hc)
      (fun o' h' => ho o' (List.mem_cons_of_mem _ h')) hok.2

/-! ### the statements of the property, for any state satisfying the invariant -/

/-- every referenced label is defined and every relative branch is within −128 … +127 of its target -/
def AllResolvable (e : Em) : Prop :=
  (∀ p ∈ e.dS8, ∃ t, lookup e.labels p.1 = some t ∧ ∀ r ∈ p.2, inS8Range t r = true) ∧
  (∀ p ∈ e.dU16, ∃ t, lookup e.labels p.1 = some t)

/-- **Finalize succeeds exactly when every referenced label is defined and every relative branch is in range.** -/
theorem finalize_ok_iff (e : Em) (hk : K e) : (finalize e).2 = .ok ↔ AllResolvable e := by
  rw [(finalize_spec e).2.1]
  unfold AllResolvable ResolvedS8 ResolvedU16
  constructor
  · rintro ⟨h1, h2⟩
    exact ⟨fun p hp => let ⟨t, ht, hr⟩ := h1 p hp; ⟨t, ht, fun r hr' => (hr r hr').1⟩,
           fun p hp => let ⟨t, ht, _⟩ := h2 p hp; ⟨t, ht⟩⟩
  · rintro ⟨h1, h2⟩
    exact ⟨fun p hp => let ⟨t, ht, hr⟩ := h1 p hp;
             ⟨t, ht, fun r hr' => ⟨hr r hr', (hk.refs.s8b p hp r hr').1, (hk.refs.s8b p hp r hr').2⟩⟩,
           fun p hp => let ⟨t, ht⟩ := h2 p hp; ⟨t, ht, fun r hr' => hk.refs.u16b p hp r hr'⟩⟩

/-- **Whether it succeeds or fails, Finalize changes nothing except operand bytes of label references**
(and never the number of bytes). -/
theorem finalize_frame (e : Em) (j : Nat) (hj : j ∉ potS8 e.base e.dS8 ++ potU16 e.base e.dU16) :
    (finalize e).1.code[j]? = e.code[j]? ∧ (finalize e).1.code.length = e.code.length := by
  obtain ⟨⟨ws, hp, he⟩, _, _⟩ := finalize_spec e
  rw [he]
  refine ⟨applyWrites_frame _ ws j ?_, applyWrites_length _ _⟩
  intro w hw heq
  apply hj
  have hsub : (ws.map (·.1)).Sublist ((allWrites e).map (·.1)) := (List.IsPrefix.sublist hp).map _
  have hsub2 : ((allWrites e).map (·.1)).Sublist (potS8 e.base e.dS8 ++ potU16 e.base e.dU16) := by
    unfold allWrites; rw [List.map_append]
    exact List.Sublist.append (allS8Writes_sub _ _ _) (allU16Writes_sub _ _ _)
  exact (hsub.trans hsub2).subset (by rw [← heq]; exact List.mem_map_of_mem hw)

/-- **After success each relative branch's operand byte is the signed distance from the end of the branch to its label** … -/
theorem finalize_branch_value (e : Em) (hk : K e) (hok : (finalize e).2 = .ok)
    (p : String × List Nat) (hp : p ∈ e.dS8) (r : Nat) (hr : r ∈ p.2) (t : Nat) (ht : lookup e.labels p.1 = some t) :
    (finalize e).1.code[r - e.base]? = some (s8Byte t r) := by
  rw [(finalize_spec e).2.2 hok]
  have hmem : (r - e.base, s8Byte t r) ∈ allWrites e := by
    unfold allWrites allS8Writes
    apply List.mem_append_left
    rw [List.mem_flatMap]
    refine ⟨p, hp, ?_⟩
    rw [ht]
    simp only [s8Writes, List.mem_map]
    exact ⟨r, hr, rfl⟩
  exact applyWrites_value e.code (allWrites e) (allWrites_nodup e hk.refs) _ hmem (hk.refs.s8b p hp r hr).2

/-- … and each absolute jump's operand is the low 16 bits of its label's address, little-endian. -/
theorem finalize_jump_value (e : Em) (hk : K e) (hok : (finalize e).2 = .ok)
    (p : String × List Nat) (hp : p ∈ e.dU16) (r : Nat) (hr : r ∈ p.2) (t : Nat) (ht : lookup e.labels p.1 = some t) :
    (finalize e).1.code[r - e.base]? = some (t % 256) ∧ (finalize e).1.code[r - e.base + 1]? = some (t / 256 % 256) := by
  rw [(finalize_spec e).2.2 hok]
  have hb := hk.refs.u16b p hp r hr
  have hmem : ∀ w, w ∈ [(r - e.base, t % 256), (r - e.base + 1, t / 256 % 256)] → w ∈ allWrites e := by
    intro w hw
    unfold allWrites allU16Writes
    apply List.mem_append_right
    rw [List.mem_flatMap]
    refine ⟨p, hp, ?_⟩
    rw [ht]
    simp only [u16Writes, List.mem_flatMap]
    exact ⟨r, hr, hw⟩
  have m1 := hmem (r - e.base, t % 256) (by simp)
  have m2 := hmem (r - e.base + 1, t / 256 % 256) (by simp)
  exact ⟨applyWrites_value e.code (allWrites e) (allWrites_nodup e hk.refs) _ m1 (by simp only; omega),
         applyWrites_value e.code (allWrites e) (allWrites_nodup e hk.refs) _ m2 (by simp only; omega)⟩

/-- the stored byte is the two's-complement encoding of the signed distance `target − (r+1)` -/
theorem s8Byte_meaning (t r : Nat) (h : inS8Range t r = true) :
    (r + 1 ≤ t → s8Byte t r = t - (r + 1) ∧ t - (r + 1) ≤ 127) ∧
    (t < r + 1 → s8Byte t r = 256 - (r + 1 - t) ∧ r + 1 - t ≤ 128) := by
  unfold inS8Range at h
  simp only [Bool.and_eq_true, decide_eq_true_eq] at h
  unfold s8Byte
  constructor <;> intro h' <;> omega

/-- defining the same label twice is rejected -/
theorem label_redefinition_refused (e : Em) (n : String) (h : (lookup e.labels n).isSome) : (label e n).2 = .refused := by
  unfold label
  cases hl : lookup e.labels n with
  | none => rw [hl] at h; simp at h
  | some v => rfl

/-! non-vacuity: boundary distances.  A branch whose operand byte is at address 1 (the branch ends at 2): -/
example : inS8Range 129 1 = true ∧ inS8Range 130 1 = false := by decide   -- +127 in range, +128 not
example : inS8Range 0 127 = true ∧ inS8Range 0 128 = false := by decide   -- −128 in range, −129 not
example : s8Byte 0 127 = 0x80 ∧ s8Byte 129 1 = 0x7F ∧ s8Byte 4 5 = 0xFE := by decide

end C06
