/-
C01 — both 65C816 interpreters execute native-mode code exactly per the WDC model.

Specification: Cpu/Spec.lean (`WDC.step`, hand-written from the WDC programming model; decode matrix Spec/Decode.lean).
Model of the code: Cpu/Impl.lean (`Cpu.step v`, one body, regenerated opcode tables per package), tied to both Go
packages by `vh cpu`; `vh cpu-spec` additionally runs the Go packages against `WDC.step` directly.
Abstraction: Cpu/Abs.lean (`abs`: the live copy of A/X/Y by the M/X flags).

Known finding D14: ADC/SBC with D=1 do not follow the WDC decimal rule (both packages).  The refinement is therefore
stated for every instruction except decimal-mode ADC/SBC (`NotDecimalArith`), and `decimal_adc_deviates` exhibits the
deviation on the model ($09 + $09).
-/
import SnesVerif.Cpu.Refine.Step4
import SnesVerif.Cpu.Refine.Ops9b
import SnesVerif.Cpu.Interrupt
open Cpu Gen
open Spec (Mode Mnem)
set_option maxRecDepth 100000
namespace C01

/-- the immediate-size correction as a function of the flags -/
def sizeAdjB (md : Mode) (m x : Bool) : U16 :=
  match md with
  | .immM => zx (bit m)
  | .immX => zx (bit x)
  | _ => 0

theorem sizeAdj_eq (md : Mode) (c : Regs) : sizeAdj md c = sizeAdjB md c.M c.X := by cases md <;> rfl

/-- one table row agrees with the WDC matrix entry: routine, addressing mode, mode validity, length under all widths -/
def rowOK (row : RowSem) (d : Mnem × Mode) : Bool :=
  decide (row.proc = procOf d.1) && decide (row.mode = amodeOf d.2) && modeOK d.1 d.2 &&
  [false, true].all fun m => [false, true].all fun x =>
    decide (BitVec.ofNat 16 row.size - sizeAdjB d.2 m x = BitVec.ofNat 16 (Spec.instrLen d.2 m x))

theorem primary_rows : ∀ i, i < 256 → rowOK (rowSem (primary_instructions.getD i default)) (Spec.decode i) = true := by
  decide +kernel
theorem alt_rows : ∀ i, i < 256 → rowOK (rowSem (alt_instructions.getD i default)) (Spec.decode i) = true := by
  decide +kernel

theorem rows_ok (v : Variant) (b : U8) : rowOK (semOf v b) (Spec.decode b.toNat) = true := by
  cases v
  · exact primary_rows b.toNat b.isLt
  · exact alt_rows b.toNat b.isLt

/-- the instruction about to execute is ADC or SBC in decimal mode (known finding D14) -/
def DecimalArith (a : WDC.Arch) : Prop :=
  a.fD = true ∧ ((Spec.decode (a.mem (WDC.addr24 a.PBR a.PC)).toNat).1 = .adc ∨
                 (Spec.decode (a.mem (WDC.addr24 a.PBR a.PC)).toNat).1 = .sbc)

/-- **C01, one instruction**: from every native-mode state (any registers, any junk in the shadow copies, any
memory), for either interpreter, `Step` succeeds and the abstraction of its result is what the WDC model prescribes:
all registers incl. the hidden B, flags, PC/PBR, the stop latch and every memory byte -/
theorem step_refines (v : Variant) (s : St) (hE : s.r.E = false) (hnd : ¬ DecimalArith (abs s)) :
    ∃ s', step v s = some ((), s') ∧ abs s' = WDC.step (abs s) := by
  have hrow := rows_ok v (s.m.f (lin s.r.RK s.r.PC))
  generalize hd : Spec.decode (s.m.f (lin s.r.RK s.r.PC)).toNat = d at hrow
  obtain ⟨mn, md⟩ := d
  unfold rowOK at hrow
  simp only [Bool.and_eq_true, decide_eq_true_eq, List.all_cons, List.all_nil, Bool.and_true] at hrow
  obtain ⟨⟨⟨hproc, hmode⟩, hok⟩, hsize⟩ := hrow
  obtain ⟨cyc, hds⟩ := decodeStage_eq (semOf v) (adjOf v) md s hmode
  have hsz : BitVec.ofNat 16 (semOf v (s.m.f (lin s.r.RK s.r.PC))).size - sizeAdj md s.r =
      BitVec.ofNat 16 (Spec.instrLen md s.r.M s.r.X) := by
    rw [sizeAdj_eq]
    cases hM : s.r.M <;> cases hX : s.r.X <;>
      first | exact hsize.1.1 | exact hsize.1.2 | exact hsize.2.1 | exact hsize.2.2
  have hdec : s.r.D = true → mn ≠ .adc ∧ mn ≠ .sbc := by
    intro hD
    have hmn : (Spec.decode ((abs s).mem (WDC.addr24 (abs s).PBR (abs s).PC)).toNat).1 = mn := by
      show (Spec.decode (s.m.f (lin s.r.RK s.r.PC)).toNat).1 = mn
      rw [hd]
    constructor <;> intro h <;> apply hnd <;> refine ⟨hD, ?_⟩ <;> rw [hmn, h] <;> simp
  obtain ⟨s3, h1, h2⟩ := tail_refines mn md hok s.r s.m.f s.m.wlog cyc _ hsz hE hdec
  refine ⟨s3, ?_, ?_⟩
  · show stepWith (semOf v) (adjOf v) s = _
    unfold stepWith
    rw [bind_eq', hds]
    simp only [hproc]
    exact h1
  · rw [h2]
    show WDC.exec (abs s) mn md = WDC.exec (abs s) (Spec.decode (s.m.f (lin s.r.RK s.r.PC)).toNat).1 (Spec.decode (s.m.f (lin s.r.RK s.r.PC)).toNat).2
    rw [hd]

/-- **C01 over the whole of `Step()`**: with the interrupt latch idle (any value other than the NMI / IRQ constants of the
package — `interruptNone` or the zero value of a fresh CPU) the full `Step`, including its interrupt switch, executes
exactly the WDC instruction.  A pending interrupt is not an instruction of the program and is outside C01. -/
theorem stepFull_refines (v : Variant) (latch : Nat) (s : St) (hl : latch ≠ latchNMI v ∧ latch ≠ latchIRQ v)
    (hE : s.r.E = false) (hnd : ¬ DecimalArith (abs s)) :
    ∃ s', stepFull v latch s = some ((), s') ∧ abs s' = WDC.step (abs s) := by
  rw [stepFull_idle v latch hl.1 hl.2]
  exact step_refines v s hE hnd

/-- **C01, decimal ADC/SBC (partial)**: the one case `step_refines` excludes.  Everything these instructions do not
compute arithmetically still conforms: operand fetch and addressing (memory untouched, same PC advance), all other
registers, the hidden B byte in 8-bit mode, the mode flags.  What deviates is the sum itself and N V Z C (known finding D14). -/
theorem step_refines_decimal_partial (v : Variant) (s : St) (hE : s.r.E = false) (hd : DecimalArith (abs s)) :
    ∃ s', step v s = some ((), s') ∧ ArithFrame (abs s') (WDC.step (abs s)) := by
  have hrow := rows_ok v (s.m.f (lin s.r.RK s.r.PC))
  generalize hdc : Spec.decode (s.m.f (lin s.r.RK s.r.PC)).toNat = d at hrow
  obtain ⟨mn, md⟩ := d
  unfold rowOK at hrow
  simp only [Bool.and_eq_true, decide_eq_true_eq, List.all_cons, List.all_nil, Bool.and_true] at hrow
  obtain ⟨⟨⟨hproc, hmode⟩, hok⟩, hsize⟩ := hrow
  obtain ⟨cyc, hds⟩ := decodeStage_eq (semOf v) (adjOf v) md s hmode
  have hsz : BitVec.ofNat 16 (semOf v (s.m.f (lin s.r.RK s.r.PC))).size - sizeAdj md s.r =
      BitVec.ofNat 16 (Spec.instrLen md s.r.M s.r.X) := by
    rw [sizeAdj_eq]
    cases hM : s.r.M <;> cases hX : s.r.X <;>
      first | exact hsize.1.1 | exact hsize.1.2 | exact hsize.2.1 | exact hsize.2.2
  have hmn : mn = .adc ∨ mn = .sbc := by
    have h2 := hd.2
    have e : (Spec.decode ((abs s).mem (WDC.addr24 (abs s).PBR (abs s).PC)).toNat).1 = mn := by
      show (Spec.decode (s.m.f (lin s.r.RK s.r.PC)).toNat).1 = mn
      rw [hdc]
    rw [e] at h2; exact h2
  have key : ∀ (neg : Bool) (q : Proc), runP q = op_adcLike neg → procOf mn = q →
      WDC.exec (abs s) mn md = { WDC.addA (abs s) neg (WDC.resolve (abs s) md) with
        PC := (abs s).PC + BitVec.ofNat 16 (Spec.instrLen md (abs s).fM (abs s).fX) } →
      Mode.isData md = true →
      ∃ s', step v s = some ((), s') ∧ ArithFrame (abs s') (WDC.step (abs s)) := by
    intro neg q hq hpq hex hdm
    obtain ⟨s3, h1, h2⟩ := adcLike_frame s.r s.m.f s.m.wlog _ cyc ((implInfo md s.r s.m.f).2 % 16777216) (implInfo md s.r s.m.f).1
      (amodeOf md) neg q hq (isData_amodeOf md hdm) (mod_lt _)
    refine ⟨s3, ?_, ?_⟩
    · show stepWith (semOf v) (adjOf v) s = _
      unfold stepWith
      rw [bind_eq', hds]
      simp only [hproc, hpq]
      exact h1
    · rw [implLoc_resolve md hdm s.r s.m.f s.m.wlog, hsz] at h2
      have : WDC.step (abs s) = WDC.exec (abs s) mn md := by
        show WDC.exec (abs s) (Spec.decode (s.m.f (lin s.r.RK s.r.PC)).toNat).1 (Spec.decode (s.m.f (lin s.r.RK s.r.PC)).toNat).2 = _
        rw [hdc]
      rw [this, hex]
      exact h2
  rcases hmn with h | h <;> subst h
  · exact key false .adc rfl rfl rfl hok
  · exact key true .sbc rfl rfl rfl hok

/-- the conditions under which the next spec state is again covered: native mode, no decimal ADC/SBC -/
def Covered (a : WDC.Arch) : Prop := a.E = false ∧ ¬ DecimalArith a

/-- **C01, along every program**: as long as the spec trace stays in native mode and executes no decimal ADC/SBC,
`n` steps of either interpreter are `n` steps of the WDC model — including across REP/SEP/PLP/RTI/XCE width switches
and repeated block moves (the state after each step is again an arbitrary native state, which `step_refines` covers) -/
theorem run_refines (v : Variant) (n : Nat) (s : St) (h : ∀ k, k < n → Covered (WDC.run k (abs s))) :
    ∃ s', run v n s = some ((), s') ∧ abs s' = WDC.run n (abs s) := by
  induction n generalizing s with
  | zero => exact ⟨s, rfl, rfl⟩
  | succ n ih =>
    have h0 := h 0 (Nat.succ_pos n)
    obtain ⟨s1, e1, a1⟩ := step_refines v s h0.1 h0.2
    have h' : ∀ k, k < n → Covered (WDC.run k (abs s1)) := by
      intro k hk
      have := h (k + 1) (Nat.succ_lt_succ hk)
      rw [a1]; exact this
    obtain ⟨s2, e2, a2⟩ := ih s1 h'
    refine ⟨s2, ?_, ?_⟩
    · show (step v >>= fun _ => run v n) s = _
      rw [bind_eq', e1]; exact e2
    · rw [a2, a1]; rfl

/-! ### non-vacuity and the known deviation -/

deriving instance Inhabited for Cpu.AMode
deriving instance Inhabited for Cpu.Regs

/-- a native 8-bit state about to execute `ADC #$09` with A = $09 in decimal mode -/
def bcdState : St :=
  { r := { (default : Regs) with PC := 0x8000, RAl := 0x09, M := true, X := true, D := true, E := false },
    m := { f := fun a => if a = 0x8000 then 0x69 else if a = 0x8001 then 0x09 else 0, wlog := [] } }

/-- D14: the interpreters' decimal ADC yields $12, the WDC rule $18 -/
theorem decimal_adc_deviates :
    (step .primary bcdState).map (fun r => (abs r.2).A) = some 0x0012 ∧ (WDC.step (abs bcdState)).A = 0x0018 := by
  constructor <;> decide +kernel

/-- the same instruction with D = 0 is covered by the theorem (hypotheses are satisfiable) -/
example : ({ bcdState with r := { bcdState.r with D := false } } : St).r.E = false ∧
    ¬ DecimalArith (abs { bcdState with r := { bcdState.r with D := false } }) := by
  refine ⟨rfl, fun h => ?_⟩
  exact absurd h.1 (by decide)

end C01
