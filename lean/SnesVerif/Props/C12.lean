/-
C12 — Step accounts cycles faithfully and RunUntil always stops within its budget.

Model: Cpu/Impl.lean (`step`) and System/RunUntil.lean (`runUntil`, with `OnPC` / `OnWDM` / Logger reduced to
observer logs).  Tables regenerated from both packages.  `vh cpu` ties `step` (incl. Cycles, AllCycles, Stopped and
the result pair) and `vh run` ties `runUntil` (result, final state, callback sequences, Logger.Write count) to the Go code.
-/
import SnesVerif.Cpu.Interrupt
import SnesVerif.System.RunUntil
import SnesVerif.Cpu.Refine.Wdm
open Cpu Sys Gen
set_option maxRecDepth 100000
namespace C12

/-! ### Step -/

theorem primary_ok : ∀ i, i < 256 → entryOK (rowSem (primary_instructions.getD i default))
    ⟨primary_decCycles_flagM.getD i 0, primary_decCycles_flagX.getD i 0,
     primary_incCycles_regDL_not00.getD i 0, primary_incCycles_PageCross.getD i 0⟩ = true := by
  decide +kernel

theorem alt_ok : ∀ i, i < 256 → entryOK (rowSem (alt_instructions.getD i default))
    ⟨alt_decCycles_flagM.getD i 0, alt_decCycles_flagX.getD i 0,
     alt_incCycles_regDL_not00.getD i 0, alt_incCycles_PageCross.getD i 0⟩ = true := by
  decide +kernel

/-- every opcode of both regenerated tables, under every combination of M, X, page crossing and DL ≠ 0, leaves room
for the routine's own correction (E=1 BRK/COP/RTI −1; branches +1/+2): the byte arithmetic never reaches 0 -/
theorem table_ok (v : Variant) (b : U8) : entryOK (semOf v b) (adjOf v b) = true := by
  cases v
  · exact primary_ok b.toNat b.isLt
  · exact alt_ok b.toNat b.isLt

/-- the opcode about to be fetched executes STP -/
def fetchesStp (v : Variant) (s : St) : Bool := decide ((semOf v (s.m.f (pc24 s.r))).proc.kind = .stp)

/-- **C12 (Step)** for every state, memory and variant: at least one cycle; the running total grows by exactly the
reported count; the stop condition is the old one or-ed with "this instruction is STP" (never before, never cleared) -/
theorem step_book (v : Variant) (s s' : St) (h : step v s = some ((), s')) :
    1 ≤ s'.r.Cycles.toNat ∧
    s'.r.AllCycles = s.r.AllCycles + s'.r.Cycles.setWidth 64 ∧
    s'.r.Stopped = (s.r.Stopped || fetchesStp v s) :=
  stepWith_book (semOf v) (adjOf v) (table_ok v) s s' h

/-- once stopped, stopped after any number of further steps (only a reset, which is not a step, clears it) -/
theorem stopped_latched (v : Variant) (n : Nat) (s s' : St) (h : run v n s = some ((), s')) (hs : s.r.Stopped = true) :
    s'.r.Stopped = true := by
  induction n generalizing s with
  | zero => cases h; exact hs
  | succ n ih =>
    obtain ⟨_, s1, h1, h2⟩ := bind_some (x := step v) (f := fun _ => run v n) h
    exact ih s1 h2 (by rw [(step_book v s s1 h1).2.2, hs]; rfl)

/-- not stopped before an STP executes -/
theorem not_stopped_before (v : Variant) (s s' : St) (h : step v s = some ((), s'))
    (hs : s.r.Stopped = false) (hn : fetchesStp v s = false) : s'.r.Stopped = false := by
  rw [(step_book v s s' h).2.2, hs, hn]; rfl

/-- **C12 (Step with a pending interrupt)**: for every latch value the whole `Step()` — interrupt entry, then the
instruction at the vector — reports at least one cycle, adds exactly the reported count to the running total (the
interrupt sequence is not charged separately), and the stop condition is the old one or-ed with "the instruction
executed after the entry is STP" -/
theorem stepFull_book (v : Variant) (latch : Nat) (s s' : St) (h : stepFull v latch s = some ((), s')) :
    ∃ s1, service v latch s = some ((), s1) ∧
      1 ≤ s'.r.Cycles.toNat ∧
      s'.r.AllCycles = s.r.AllCycles + s'.r.Cycles.setWidth 64 ∧
      s'.r.Stopped = (s.r.Stopped || fetchesStp v s1) := by
  obtain ⟨_, s1, h1, h2⟩ := bind_some (x := service v latch) (f := fun _ => step v) h
  have k := keep_service v latch s () s1 h1
  have b := step_book v s1 s' h2
  exact ⟨s1, h1, b.1, by rw [b.2.1, k.1], by rw [b.2.2, k.2]⟩

/-- **C12 (reset)**: `Reset()` is what clears the stop condition -/
theorem reset_clears_stop (s s' : St) (h : reset s = some ((), s')) : s'.r.Stopped = false := by
  unfold reset at h
  obtain ⟨_, s1, h1, h⟩ := bind_some h
  cases modify_some h1
  obtain ⟨pc, s2, h2, h⟩ := bind_some h
  cases modify_some h
  rfl

/-- opcode $42 is WDM with an immediate operand in both regenerated tables -/
theorem wdm_rows : (rowSem (primary_instructions.getD 0x42 default)).proc = .wdm ∧
    (rowSem (primary_instructions.getD 0x42 default)).mode = .Immediate ∧
    (rowSem (alt_instructions.getD 0x42 default)).proc = .wdm ∧
    (rowSem (alt_instructions.getD 0x42 default)).mode = .Immediate := by decide +kernel

/-- **C12 (WDM callback)**: executing WDM latches exactly its operand — the byte after the opcode in the program bank —
into the WDM register that `OnWDM` is called with; memory is untouched -/
theorem wdm_operand (v : Variant) (s : St) (h : s.m.f (lin s.r.RK s.r.PC) = 0x42) :
    ∃ s', step v s = some ((), s') ∧ s'.r.WDM = s.m.f (lin s.r.RK (s.r.PC + 1)) ∧ s'.m = s.m := by
  have hsem : (semOf v (s.m.f (lin s.r.RK s.r.PC))).proc = .wdm ∧ (semOf v (s.m.f (lin s.r.RK s.r.PC))).mode = amodeOf .imm8 := by
    rw [h]
    cases v
    · exact ⟨wdm_rows.1, wdm_rows.2.1⟩
    · exact ⟨wdm_rows.2.2.1, wdm_rows.2.2.2⟩
  obtain ⟨cyc, hds⟩ := decodeStage_eq (semOf v) (adjOf v) .imm8 s hsem.2
  obtain ⟨s3, h1, h2, h3⟩ := wdm_latches s.r s.m.f s.m.wlog
    (BitVec.ofNat 16 (semOf v (s.m.f (lin s.r.RK s.r.PC))).size - sizeAdj .imm8 s.r) cyc
    ((implInfo .imm8 s.r s.m.f).2 % 16777216) (implInfo .imm8 s.r s.m.f).1 (mod_lt _)
  refine ⟨s3, ?_, h2, h3⟩
  show stepWith (semOf v) (adjOf v) s = _
  unfold stepWith
  rw [bind_eq', hds]
  simp only [hsem.1]
  exact h1

/-! ### RunUntil -/

attribute [local irreducible] lin step semOf

/-- what holds of the loop state at every loop head -/
structure Inv (hasLogger : Bool) (cbs : List Nat) (target max : Nat) (s0 : St) (r : RU) : Prop where
  budget : ∀ e ∈ r.execd, e.1 < max ∧ e.2 ≠ target
  onpc : r.onpc = (r.execd.map (·.2)).filter cbs.contains
  logs : r.logs = if hasLogger then r.execd.length else 0
  total : r.s.r.AllCycles = s0.r.AllCycles + BitVec.ofNat 64 r.cycles
  stay : r.execd = [] → r.s = s0

/-- what the caller of RunUntil can rely on -/
structure Post (hasLogger : Bool) (cbs : List Nat) (target max : Nat) (s0 : St) (r : RU) (reached : Bool) : Prop where
  /-- true exactly when bank:offset equals the target on exit -/
  result : reached = (pc24 r.s.r == target)
  /-- instructions ran only while fewer than `max` cycles had been consumed, and never the one at the target -/
  budget : ∀ e ∈ r.execd, e.1 < max ∧ e.2 ≠ target
  /-- it stops early only because the target was reached -/
  early : r.cycles < max → reached = true
  /-- `OnPC` ran exactly once before each executed instruction whose address has a callback, in order -/
  onpc : r.onpc = (r.execd.map (·.2)).filter cbs.contains
  /-- one Logger.Write per loop iteration (one more than instructions when the loop left through the target test) -/
  logs : r.logs = if hasLogger then r.execd.length + (if r.cycles < max then 1 else 0) else 0
  /-- the cycles counted by the loop are the cycles the CPU accounted -/
  total : r.s.r.AllCycles = s0.r.AllCycles + BitVec.ofNat 64 r.cycles
  stay : r.execd = [] → r.s = s0

theorem stepObs_some (v : Variant) (cbs : List Nat) (r : RU) : ∃ r', stepObs v cbs r = some r' := by
  obtain ⟨_, s1, e1, _⟩ := tot_service (p := false) v r.latch r.s (by intro h; cases h)
  obtain ⟨_, s', e, _⟩ := tot_step v s1 (by intro h; cases h)
  exact ⟨_, by unfold stepObs; rw [e1]; simp only; rw [e]⟩

theorem logIt_s (b : Bool) (r : RU) : (logIt b r).s = r.s := by cases b <;> rfl
theorem logIt_cycles (b : Bool) (r : RU) : (logIt b r).cycles = r.cycles := by cases b <;> rfl
theorem logIt_execd (b : Bool) (r : RU) : (logIt b r).execd = r.execd := by cases b <;> rfl
theorem logIt_onpc (b : Bool) (r : RU) : (logIt b r).onpc = r.onpc := by cases b <;> rfl
theorem logIt_logs (b : Bool) (r : RU) : (logIt b r).logs = if b then r.logs + 1 else r.logs := by cases b <;> rfl
theorem logIt_latch (b : Bool) (r : RU) : (logIt b r).latch = r.latch := by cases b <;> rfl
theorem logIt_wdm (b : Bool) (r : RU) : (logIt b r).wdm = r.wdm := by cases b <;> rfl

theorem post_break {hasLogger cbs target max s0 r} (inv : Inv hasLogger cbs target max s0 r)
    (hc : r.cycles < max) (ht : pc24 r.s.r = target) : Post hasLogger cbs target max s0 (logIt hasLogger r) true := by
  refine ⟨?_, ?_, fun _ => rfl, ?_, ?_, ?_, ?_⟩
  · rw [logIt_s]; simp [ht]
  · rw [logIt_execd]; exact inv.budget
  · rw [logIt_onpc, logIt_execd]; exact inv.onpc
  · rw [logIt_logs, logIt_execd, logIt_cycles, inv.logs]; cases hasLogger <;> simp [hc]
  · rw [logIt_s, logIt_cycles]; exact inv.total
  · rw [logIt_s, logIt_execd]; exact inv.stay

theorem post_exhausted {hasLogger cbs target max s0 r} (inv : Inv hasLogger cbs target max s0 r)
    (hc : ¬ r.cycles < max) : Post hasLogger cbs target max s0 r (pc24 r.s.r == target) :=
  ⟨rfl, inv.budget, fun h => absurd h hc, inv.onpc, by simp [hc, inv.logs], inv.total, inv.stay⟩

/-- one more iteration keeps the invariant and consumes at least one cycle -/
theorem inv_step {v hasLogger cbs target max s0 r r'} (inv : Inv hasLogger cbs target max s0 r)
    (hc : r.cycles < max) (ht : pc24 r.s.r ≠ target) (hr' : stepObs v cbs (logIt hasLogger r) = some r') :
    Inv hasLogger cbs target max s0 r' ∧ r.cycles + 1 ≤ r'.cycles := by
  unfold stepObs at hr'
  rw [logIt_s, logIt_cycles, logIt_execd, logIt_onpc, logIt_logs, logIt_latch, logIt_wdm] at hr'
  cases hsv : service v r.latch r.s with
  | none => rw [hsv] at hr'; cases hr'
  | some p1 =>
  obtain ⟨u1, s1⟩ := p1
  rw [hsv] at hr'
  simp only at hr'
  have kp := keep_service v r.latch r.s u1 s1 hsv
  cases hs : step v s1 with
  | none => rw [hs] at hr'; cases hr'
  | some p =>
    obtain ⟨u, s'⟩ := p
    rw [hs] at hr'
    cases hr'
    have bk := step_book v s1 s' hs
    refine ⟨⟨?_, ?_, ?_, ?_, ?_⟩, by simp only; omega⟩
    · intro e he
      rcases List.mem_cons.mp he with rfl | he
      · exact ⟨hc, ht⟩
      · exact inv.budget e he
    · simp only [List.map_cons, List.filter_cons]
      split <;> simp [inv.onpc]
    · cases hasLogger <;> simp [inv.logs]
    · simp only
      rw [bk.2.1, kp.1, inv.total]
      apply BitVec.eq_of_toNat_eq
      simp [BitVec.toNat_add, BitVec.toNat_ofNat, BitVec.toNat_setWidth]
      omega
    · intro h; cases h

theorem loop_done (v : Variant) (hasLogger : Bool) (cbs : List Nat) (target max : Nat) (s0 : St) :
    ∀ fuel r, Inv hasLogger cbs target max s0 r → max - r.cycles ≤ fuel →
      ∃ r' b, ruLoop v hasLogger cbs target max fuel r = .done r' b ∧ Post hasLogger cbs target max s0 r' b := by
  intro fuel
  induction fuel with
  | zero =>
    intro r inv hf
    have hc : ¬ r.cycles < max := by omega
    rw [ruLoop, if_neg hc]
    exact ⟨r, _, rfl, post_exhausted inv hc⟩
  | succ fuel ih =>
    intro r inv hf
    rw [ruLoop]
    by_cases hc : r.cycles < max
    · rw [if_pos hc]
      by_cases ht : pc24 r.s.r = target
      · rw [if_pos ht]
        exact ⟨_, true, rfl, post_break inv hc ht⟩
      · rw [if_neg ht]
        obtain ⟨r', hr'⟩ := stepObs_some v cbs (logIt hasLogger r)
        rw [hr']
        have key := inv_step inv hc ht hr'
        exact ih r' key.1 (by omega)
    · rw [if_neg hc]
      exact ⟨r, _, rfl, post_exhausted inv hc⟩

/-- **C12 (RunUntil)** for every variant, program, start state, target, budget and value of the interrupt latch on entry:
the call returns (the model neither runs out of fuel nor crashes) and the result satisfies `Post` -/
theorem runUntilL_terminates (v : Variant) (hasLogger : Bool) (cbs : List Nat) (target max latch : Nat) (s : St) :
    ∃ r b, runUntilL v hasLogger cbs target max latch s = .done r b ∧ Post hasLogger cbs target max s r b := by
  apply loop_done v hasLogger cbs target max s max { s := s, latch := latch }
  · exact ⟨(by intro e h; cases h), rfl, (by cases hasLogger <;> rfl), (by simp), fun _ => rfl⟩
  · simp

/-- … in particular with no interrupt pending -/
theorem runUntil_terminates (v : Variant) (hasLogger : Bool) (cbs : List Nat) (target max : Nat) (s : St) :
    ∃ r b, runUntil v hasLogger cbs target max s = .done r b ∧ Post hasLogger cbs target max s r b :=
  runUntilL_terminates v hasLogger cbs target max 0 s

/-- executes nothing if the CPU is already there -/
theorem already_there (v : Variant) (hasLogger : Bool) (cbs : List Nat) (target max : Nat) (s : St)
    (h : pc24 s.r = target) :
    ∃ r, runUntil v hasLogger cbs target max s = .done r true ∧ r.s = s ∧ r.execd = [] ∧ r.onpc = [] ∧ r.wdm = [] := by
  unfold runUntil runUntilL
  cases max with
  | zero =>
    refine ⟨{ s := s }, ?_, rfl, rfl, rfl, rfl⟩
    rw [ruLoop]; simp [h]
  | succ n =>
    refine ⟨logIt hasLogger { s := s }, ?_, ?_, ?_, ?_, ?_⟩
    · rw [ruLoop]; simp [h]
    all_goals (cases hasLogger <;> rfl)

/-! ### non-vacuity: a concrete run, evaluated by the kernel -/

deriving instance Inhabited for Cpu.AMode
deriving instance Inhabited for Cpu.Regs

/-- `NOP; NOP; NOP` at $00:8000 (8-bit native mode), target $00:8002, budget 100 cycles, Logger attached, a callback at $8001 -/
def nopState : St :=
  { r := { (default : Regs) with PC := 0x8000, M := true, X := true, E := false },
    m := { f := fun _ => 0xEA, wlog := [] } }

/-- two instructions run (2 cycles each), the callback fires once, three Logger writes (one per iteration incl. the
iteration that finds the target), the call returns true at the target -/
theorem nop_run :
    (match runUntil .primary true [0x8001] 0x8002 100 nopState with
     | .done r b => some (b, r.cycles, r.logs, r.onpc, r.execd.length, pc24 r.s.r)
     | _ => none) = some (true, 4, 3, [0x8001], 2, 0x8002) := by
  decide +kernel

end C12
