/-
C08 — the CPU stays inside the 24-bit address space and never crashes on mapped memory.

Model: Cpu/Impl.lean (one model for both interpreters; the variant only selects the regenerated opcode and cycle
tables).  Every bus access of the model goes through `eaRead` / `eaWrite`, which return `none` exactly when the
address is ≥ 2^24 — the Go index-out-of-range panic in the 2^20-entry segment table.  "The whole bus mapped" is the
model's total memory function.  `vh cpu` ties the model to both Go packages (registers, flags, cycles, every write
address, the highest address seen by the backend, panics).
-/
import SnesVerif.Cpu.Interrupt
open Cpu
namespace C08

/-- the model's only two bus primitives fail exactly outside the 24-bit space (this is what `none` means) -/
theorem read_fails_iff (a : Nat) (s : St) : eaRead a s = none ↔ 16777216 ≤ a := by
  unfold eaRead; split <;> simp <;> omega
theorem write_fails_iff (a : Nat) (v : U8) (s : St) : eaWrite a v s = none ↔ 16777216 ≤ a := by
  unfold eaWrite; split <;> simp <;> omega

/-- **C08** one instruction, any variant, any registers (any E/M/X/D, any DBR, any index), any memory: the step
completes (no access at an address ≥ 2^24 is ever attempted), and every address it writes is a 24-bit address. -/
theorem step_total (v : Variant) (s : St) :
    ∃ s', step v s = some ((), s') ∧ (WOK s → WOK s') := by
  obtain ⟨a, s', e, _, w⟩ := tot_step v s (by intro h; cases h)
  exact ⟨s', e, w⟩

/-- **C08** the whole of `Step()` with any value of the interrupt latch (a pending NMI or IRQ is serviced first: pushes,
vector fetch), from any state: completes, and every write is a 24-bit address -/
theorem stepFull_total (v : Variant) (latch : Nat) (s : St) :
    ∃ s', stepFull v latch s = some ((), s') ∧ (WOK s → WOK s') := by
  obtain ⟨a, s', e, _, w⟩ := tot_stepFull v latch s (by intro h; cases h)
  exact ⟨s', e, w⟩

/-- `Reset()` (vector fetch at $00FFFC) completes from any state -/
theorem reset_total (s : St) : ∃ s', reset s = some ((), s') ∧ (WOK s → WOK s') := by
  obtain ⟨a, s', e, _, w⟩ := tot_reset (p := false) s (by intro h; cases h)
  exact ⟨s', e, w⟩

/-- along every program: any number of steps -/
theorem run_total (v : Variant) (n : Nat) (s : St) :
    ∃ s', run v n s = some ((), s') ∧ (WOK s → WOK s') := by
  induction n generalizing s with
  | zero => exact ⟨s, rfl, id⟩
  | succ n ih =>
    obtain ⟨s1, e1, w1⟩ := step_total v s
    obtain ⟨s2, e2, w2⟩ := ih s1
    refine ⟨s2, ?_, fun w => w2 (w1 w)⟩
    show (step v >>= fun _ => run v n) s = _
    rw [bind_eq, e1]; exact e2

/-- starting with an empty write log, every write of every run is below 2^24 -/
theorem writes_in_range (v : Variant) (n : Nat) (r : Regs) (f : Nat → U8) :
    ∃ s', run v n ⟨r, ⟨f, []⟩⟩ = some ((), s') ∧ ∀ a ∈ s'.m.wlog, a < 16777216 := by
  obtain ⟨s', e, w⟩ := run_total v n ⟨r, ⟨f, []⟩⟩
  exact ⟨s', e, w (by intro a h; cases h)⟩

/-! ### the wrap rules named in the statement -/

/-- the second byte of a 16-bit datum at $FFFFFF comes from $000000 -/
theorem data16_wraps (s : St) :
    eaRead16 0xFFFFFF s = some (mk16 (s.m.f 0) (s.m.f 0xFFFFFF), s) := by
  simp [eaRead16, eaRead, bind, pure]

/-! ### non-vacuity: the D9 reproducer runs in the model and wraps -/

deriving instance Inhabited for Cpu.AMode
deriving instance Inhabited for Cpu.Regs

/-- DBR = $FF, 8-bit accumulator, 16-bit X = $0001, `STZ $FFFF,X` at $00:8000 -/
def d9State : St :=
  { r := { (default : Regs) with PC := 0x8000, RDBR := 0xFF, RX := 1, M := true, X := false, E := false },
    m := { f := fun a => if a = 0x8000 then 0x9E else if a = 0x8001 then 0xFF else if a = 0x8002 then 0xFF else 0x55,
           wlog := [] } }

/-- the store lands on $00:0000 (the address $FF:FFFF + 1 wraps) in both variants -/
theorem d9_wraps :
    (step .primary d9State).map (fun r => r.2.m.wlog) = some [0] ∧
    (step .alt d9State).map (fun r => r.2.m.wlog) = some [0] := by
  constructor <;> decide +kernel

end C08
