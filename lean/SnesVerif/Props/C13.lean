/-
C13 — bus routing follows Attach exactly and EaDump agrees with byte-wise reads.

Model: lean/SnesVerif/Bus/Model.lean (hand-written from emulator/bus/bus.go; tied to the Go code by `vh bus`).
Scope: addresses and ranges inside the 24-bit space (a Go call with end ≥ 2^24 panics while filling the table and
is excluded by hypothesis, as DESIGN.md says).
-/
import SnesVerif.Bus.Lemmas
open BusModel

namespace C13

/-- one `Attach(mem, _, start, end)` call -/
structure Req where
  m : Nat
  start : Nat
  end_ : Nat

@[reducible] def aligned (r : Req) : Prop := r.start % 16 = 0 ∧ (r.end_ + 1) % 16 = 0
@[reducible] def covers (r : Req) (a : Nat) : Prop := r.start ≤ a ∧ a ≤ r.end_

def step (b : Bus) (r : Req) : Bus := (b.attach r.m r.start r.end_).1
def attachAll (b : Bus) (rs : List Req) : Bus := rs.foldl step b

/-- the memory of the most recent successful (aligned) Attach covering `a`, if any -/
def lastCover : List Req → Nat → Option Nat
  | [], _ => none
  | r :: rs, a =>
    match lastCover rs a with
    | some m => some m
    | none => if aligned r ∧ covers r a then some r.m else none

/-- a misaligned Attach is rejected and changes no routing; an aligned one is accepted -/
theorem attach_alignment (b : Bus) (r : Req) :
    (¬ aligned r → (b.attach r.m r.start r.end_).1 = b ∧ (b.attach r.m r.start r.end_).2 ≠ .ok) ∧
    (aligned r → (b.attach r.m r.start r.end_).2 = .ok) := by
  unfold Bus.attach aligned
  constructor
  · intro h
    by_cases h1 : r.start % 16 = 0
    · have h2 : ¬ (r.end_ + 1) % 16 = 0 := fun h2 => h ⟨h1, h2⟩
      simp [h1, h2]
    · simp [h1]
  · intro h; simp [h.1, h.2]

/-- one Attach: inside its range the new memory, outside unaffected -/
theorem attach_route (b : Bus) (r : Req) (a : Nat) (ha : a < 16777216) :
    (step b r).route a = if aligned r ∧ covers r a then some r.m else b.route a := by
  unfold step Bus.attach Bus.route aligned covers
  by_cases h1 : r.start % 16 = 0
  · by_cases h2 : (r.end_ + 1) % 16 = 0
    · simp only [h1, h2, ne_eq, not_true_eq_false, if_false, ha, if_true, true_and]
      by_cases c : r.start ≤ a ∧ a ≤ r.end_
      · have c' : r.start / 16 ≤ a / 16 ∧ a / 16 ≤ r.end_ / 16 := by omega
        rw [if_pos c', if_pos c]
      · have c' : ¬ (r.start / 16 ≤ a / 16 ∧ a / 16 ≤ r.end_ / 16) := by omega
        rw [if_neg c', if_neg c]
    · simp [h1, h2, ha]
  · simp [h1, ha]

theorem attachAll_route_gen (b : Bus) (rs : List Req) (a : Nat) (ha : a < 16777216) :
    (attachAll b rs).route a = (match lastCover rs a with | some m => some m | none => b.route a) := by
  induction rs generalizing b with
  | nil => rfl
  | cons r rs ih =>
    show (attachAll (step b r) rs).route a = _
    rw [ih (step b r), attach_route b r a ha]
    have e : lastCover (r :: rs) a =
        (match lastCover rs a with
         | some m => some m
         | none => if aligned r ∧ covers r a then some r.m else none) := rfl
    rw [e]
    cases lastCover rs a with
    | some m => rfl
    | none => simp only; split <;> rfl

/-- **Routing follows Attach**: after any sequence of Attach calls on a fresh bus, an access of `a` goes to the memory
most recently attached over `a`; never-attached addresses fail loudly (`none`). -/
theorem routing_follows_attach (rs : List Req) (a : Nat) (ha : a < 16777216) :
    (attachAll Bus.empty rs).route a = lastCover rs a := by
  rw [attachAll_route_gen Bus.empty rs a ha]
  cases lastCover rs a with
  | some m => rfl
  | none => simp [Bus.route, Bus.empty]

/-- an access beyond the 24-bit space fails loudly (Go: index out of range) -/
theorem out_of_space (b : Bus) (a : Nat) (ha : 16777216 ≤ a) : b.route a = none := by
  unfold Bus.route; simp; omega

/-- **EaDump**: returns the number of addresses in the range and position `j` holds exactly what a single read of
`start + j` returns (the routed memory handed the full address), holes and positions past the range untouched. -/
theorem eaDump_pointwise (b : Bus) (rd : Nat → Nat → UInt8) (start end_ : Nat) (d : Nat → UInt8)
    (hs : start < 16777216) (he : end_ < 16777216) :
    (b.eaDump rd start end_ d).1 = end_ + 1 - start ∧
    ∀ j, (b.eaDump rd start end_ d).2 j =
      if j < end_ + 1 - start then
        (match b.route (start + j) with | some m => rd m (start + j) | none => d j)
      else d j := by
  unfold Bus.eaDump
  rw [Nat.mod_eq_of_lt hs, Nat.mod_eq_of_lt he, dumpOuter_spec b rd end_ (start / 16) start 0 d (Or.inl rfl)]
  refine ⟨by simp, ?_⟩
  intro j
  simp only [Nat.zero_le, true_and, Nat.zero_add, Nat.sub_zero]
  by_cases c : j < end_ + 1 - start
  · rw [if_pos c, if_pos c]
    have hlt : start + j < 16777216 := by omega
    unfold Bus.route cell
    rw [if_pos hlt]
    cases b.seg ((start + j) / 16) <;> rfl
  · rw [if_neg c, if_neg c]

/-- **EaRead24_wrap** is three single reads: it succeeds exactly when all three bank-wrapped addresses are routed, and
then each byte comes from the memory a single read of that address goes to, which is handed that full address -/
theorem read24_is_three_reads (b : Bus) (bank addr : Nat) :
    let a := fun k => bank % 256 * 65536 + (addr + k) % 65536
    (b.read24 bank addr = none ↔ (b.route (a 0) = none ∨ b.route (a 1) = none ∨ b.route (a 2) = none)) ∧
    ∀ l, b.read24 bank addr = some l →
      l.map (·.2) = [a 0, a 1, a 2] ∧ l.map (fun p => some p.1) = [b.route (a 0), b.route (a 1), b.route (a 2)] := by
  simp only [Bus.read24, Nat.add_zero]
  cases h0 : b.route (bank % 256 * 65536 + addr % 65536) <;>
  cases h1 : b.route (bank % 256 * 65536 + (addr + 1) % 65536) <;>
  cases h2 : b.route (bank % 256 * 65536 + (addr + 2) % 65536) <;> simp

/-- … after any Attach history: each of the three bytes is served by the memory most recently attached over it -/
theorem read24_follows_attach (rs : List Req) (bank addr : Nat) (l : List (Nat × Nat))
    (h : (attachAll Bus.empty rs).read24 bank addr = some l) :
    ∀ p ∈ l, lastCover rs p.2 = some p.1 := by
  have lt0 : bank % 256 * 65536 + addr % 65536 < 16777216 := by omega
  have lt1 : bank % 256 * 65536 + (addr + 1) % 65536 < 16777216 := by omega
  have lt2 : bank % 256 * 65536 + (addr + 2) % 65536 < 16777216 := by omega
  cases h0 : (attachAll Bus.empty rs).route (bank % 256 * 65536 + addr % 65536) <;>
  cases h1 : (attachAll Bus.empty rs).route (bank % 256 * 65536 + (addr + 1) % 65536) <;>
  cases h2 : (attachAll Bus.empty rs).route (bank % 256 * 65536 + (addr + 2) % 65536) <;>
  simp only [Bus.read24, h0, h1, h2, reduceCtorEq, Option.some.injEq] at h
  subst h
  rw [routing_follows_attach rs _ lt0] at h0
  rw [routing_follows_attach rs _ lt1] at h1
  rw [routing_follows_attach rs _ lt2] at h2
  intro p hp
  simp only [List.mem_cons, List.not_mem_nil, or_false] at hp
  rcases hp with rfl | rfl | rfl <;> assumption

/-! non-vacuity: two memories and a hole, dump straddling both boundaries (the D5 scenario) -/
example :
    let b := attachAll Bus.empty [⟨1, 0, 15⟩, ⟨2, 32, 47⟩]
    (b.route 8, b.route 16, b.route 40) = (some 1, none, some 2) := by decide

end C13
