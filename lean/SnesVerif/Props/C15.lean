/-
C15 — assembler listings reproduce exactly the bytes that were emitted.

Model: Asm/Model.lean (tied by `vh asm`, which parses WriteHexTo / WriteTextTo of the real emitter into the same
(kind, address, bytes, text) records).  Scope as the property states it: listing generation on, a target buffer,
every call accepted, the base set at most once before the first emission (SetBase is not a history step here; it is
applied to the fresh emitter).
Not claimed (DESIGN.md §C15): the base directive is emitted lazily by the next instruction / data block / comment.
-/
import SnesVerif.Asm.Listing
open AsmModel AsmLemmas Gen
set_option maxRecDepth 100000

namespace C15

/-- histories of this property: method-table instructions, data, labels, comments (no SetBase in the middle) -/
def OpOK : Op → Prop
  | .ins m _ _ => m ∈ asmMethods
  | .setBase _ => False
  | _ => True

/-- the invariant holds initially, with or without a base -/
theorem inv_fresh (c : Option Nat) (t : Bool) : Inv (newEmitter c t) := ⟨rfl, rfl⟩
theorem inv_fresh_base (c : Option Nat) (t : Bool) (a : Nat) : Inv (setBase (newEmitter c t) a) :=
  ⟨by simp [setBase, newEmitter, tiled], by simp [setBase, newEmitter]⟩

/-- every accepted call keeps the tiling invariant -/
theorem step_inv (e : Em) (o : Op) (c : Nat) (hinv : Inv e) (hc : e.cap = some c) (hg : e.genText = true)
    (ho : OpOK o) (hok : (step e o).2 = .ok) : Inv (step e o).1 := by
  cases o with
  | ins m a l =>
    simp only [step, ins_eq] at hok ⊢
    by_cases g : guardOK m.guard e.flags
    · simp only [g, Bool.not_true, Bool.false_eq_true, if_false] at hok ⊢
      have tf := tracked_fields e m a
      unfold emit at hok ⊢
      cases hw : write (tracked e m a) (m.bytes.map (AsmExpect.evalB a)) with
      | none => rw [hw] at hok; simp at hok
      | some e1 =>
        simp only
        rcases write_some _ e1 _ hw with ⟨hn, _⟩ | ⟨c', _, _, rfl⟩
        · rw [tf.2.2.1, hc] at hn; simp at hn
        · have hk := nBytes_ins m ho
          apply emitTail_inv e _ _ _ _ _ _ _ hinv
          · simp only [tf.2.2.2.2.1]; exact hg
          · exact tf.2.2.2.2.2.2.1
          · exact tf.2.1
          · exact tf.2.2.2.2.2.1
          · simp [tf.1]
          · intro x dt; simp only [List.length_map]; exact (hk x _ _ _ dt).1
          · simp only [List.length_map]; exact (hk 0 "" "" "" []).2
    · simp only [g, Bool.not_false, if_true] at hok; simp at hok
  | bytes b =>
    simp only [step] at hok ⊢
    unfold emitBytes at hok ⊢
    simp only [hg, if_true] at hok ⊢
    have bf := emitBase_fields e
    have bt := emitBase_tiled e e.base
    cases hw : write { emitBase e with lines := (emitBase e).lines ++ dbLines (emitBase e).address b } b with
    | none => rw [hw] at hok; simp at hok
    | some e2 =>
      simp only
      rcases write_some _ e2 _ hw with ⟨hn, _⟩ | ⟨c', _, _, rfl⟩
      · simp only [bf.2.2.2.1, hc] at hn; simp at hn
      · constructor
        · simp only [bf.2.1, bf.1, List.length_append]
          rw [tiled_append, bt, hinv.tile]
          simp only [Option.bind_some, bf.2.2.1, hinv.addr, tiled_dbLines]
          congr 1; omega
        · simp only [bf.2.1, bf.1, bf.2.2.1, List.length_append, hinv.addr]; omega
  | label n =>
    simp only [step] at hok ⊢
    unfold label at hok ⊢
    cases hlk : lookup e.labels n with
    | some v => rw [hlk] at hok; simp at hok
    | none =>
      simp only [hg, if_true]
      constructor
      · simp only
        rw [tiled_append, hinv.tile]
        simp [tiled, nBytes]
      · exact hinv.addr
  | comment s =>
    simp only [step, comment, hg, if_true]
    have bf := emitBase_fields e
    have bt := emitBase_tiled e e.base
    constructor
    · simp only [bf.2.1, bf.1]
      rw [tiled_append, bt, hinv.tile]
      simp [tiled, nBytes]
    · simp only [bf.2.1, bf.1, bf.2.2.1]; exact hinv.addr
  | setBase a => exact absurd ho (by simp [OpOK])

/-- capacity and the text flag never change -/
theorem step_static (e : Em) (o : Op) (ho : OpOK o) :
    (step e o).1.cap = e.cap ∧ (step e o).1.genText = e.genText := by
  cases o with
  | ins m a l =>
    simp only [step, ins_eq]
    split
    · exact ⟨rfl, rfl⟩
    · have tf := tracked_fields e m a
      rcases emit_fields (tracked e m a) (lineKindOf m.kind (m.bytes.map (AsmExpect.evalB a)).length)
          (m.bytes.map (AsmExpect.evalB a)) m.ins l m.fmt (dangOf m.kind) with ⟨_, h1, _⟩ | ⟨_, _, _, _, h5, h6, _⟩
      · rw [h1]; exact ⟨tf.2.2.1, tf.2.2.2.2.1⟩
      · exact ⟨by rw [h5, tf.2.2.1], by rw [h6, tf.2.2.2.2.1]⟩
  | bytes b =>
    simp only [step]
    rcases emitBytes_fields e b with ⟨_, _, _, _, h4, _, h6⟩ | ⟨_, _, _, _, h5, _, h7⟩
    · exact ⟨h4, h6⟩
    · exact ⟨h5, h7⟩
  | label n => simp only [step, label]; (repeat' split) <;> simp
  | comment s =>
    have bf := emitBase_fields e
    simp only [step, comment]; split <;> simp [bf.2.2.2.1, bf.2.2.2.2]
  | setBase a => exact absurd ho (by simp [OpOK])

/-- … hence along every accepted history -/
theorem run_inv (e : Em) (ops : List Op) (c : Nat) (hinv : Inv e) (hc : e.cap = some c) (hg : e.genText = true)
    (ho : ∀ o ∈ ops, OpOK o) (hok : allAccepted e ops) : Inv (run e ops) := by
  induction ops generalizing e with
  | nil => exact hinv
  | cons o os ih =>
    have ho1 := ho o (List.mem_cons_self ..)
    have hs := step_static e o ho1
    exact ih (step e o).1 (step_inv e o c hinv hc hg ho1 hok.1) (by rw [hs.1]; exact hc) (by rw [hs.2]; exact hg)
      (fun o' h' => ho o' (List.mem_cons_of_mem _ h')) hok.2

/-! ### what the listings show -/

/-- records produced for a tiled run of lines show exactly the code bytes of the addresses they cover, in order -/
theorem hexRecs_tiled (e : Em) (ls : List Line) (a b : Nat) (ht : tiled ls a = some b)
    (ha : e.base ≤ a) (hb : b ≤ e.base + e.code.length) :
    ∃ recs, hexRecsOf e ls = some recs ∧
      (recs.map (·.bytes)).flatten = (e.code.drop (a - e.base)).take (b - a) := by
  induction ls generalizing a with
  | nil =>
    simp only [tiled, Option.some.injEq] at ht
    subst ht
    exact ⟨[], rfl, by simp⟩
  | cons l ls ih =>
    simp only [tiled] at ht
    by_cases hz : nBytes l = 0
    · rw [if_pos hz] at ht
      obtain ⟨recs, h1, h2⟩ := ih a ht ha
      refine ⟨⟨l.kind, l.address, [], hexText l⟩ :: recs, ?_, by simpa using h2⟩
      simp only [hexRecsOf, lineBytes, hz, if_true, h1]
    · rw [if_neg hz] at ht
      by_cases hadr : l.address = a
      · rw [if_pos hadr] at ht
        have hm := tiled_mono ls _ b ht
        obtain ⟨recs, h1, h2⟩ := ih (a + nBytes l) ht (by omega)
        have hlb : lineBytes e l = some ((e.code.drop (a - e.base)).take (nBytes l)) := by
          simp only [lineBytes, hz, if_false, hadr]
          rw [if_neg (by omega)]
        refine ⟨⟨l.kind, l.address, (e.code.drop (a - e.base)).take (nBytes l), hexText l⟩ :: recs, ?_, ?_⟩
        · simp only [hexRecsOf, hlb, h1]
        · simp only [List.map_cons, List.flatten_cons, h2]
          have e1 : a + nBytes l - e.base = (a - e.base) + nBytes l := by omega
          have e2 : b - a = nBytes l + (b - (a + nBytes l)) := by omega
          rw [e1, e2, List.take_add, List.drop_drop]
      · rw [if_neg hadr] at ht; simp at ht

/-- **The hex listing contains, in order and each exactly once, precisely the bytes returned by Bytes().** -/
theorem hex_listing_is_bytes (e : Em) (hinv : Inv e) :
    ∃ recs, hexRecords e = some recs ∧ (recs.map (·.bytes)).flatten = e.code := by
  obtain ⟨recs, h1, h2⟩ := hexRecs_tiled e e.lines e.base _ hinv.tile (Nat.le_refl _) (Nat.le_refl _)
  refine ⟨recs, h1, ?_⟩
  rw [h2]; simp

/-- a listing never fails for such a program, and each instruction / data record of either listing shows exactly the
bytes that sit at its address -/
theorem record_truthful (e : Em) (l : Line) (_hl : l ∈ e.lines) (bs : List Nat) (hb : lineBytes e l = some bs) (hn : nBytes l ≠ 0) :
    e.base ≤ l.address ∧ bs = (e.code.drop (l.address - e.base)).take (nBytes l) ∧ bs.length = nBytes l := by
  unfold lineBytes at hb
  rw [if_neg hn] at hb
  by_cases c : l.address < e.base ∨ l.address - e.base + nBytes l > e.code.length
  · rw [if_pos c] at hb; simp at hb
  · rw [if_neg c] at hb
    simp only [Option.some.injEq] at hb
    subst hb
    exact ⟨by omega, rfl, by simp; omega⟩

/-- Finalize changes neither the listing records nor the number of bytes: the invariant survives it,
so the hex listing equals Bytes() after Finalize as well -/
theorem patchS8_length (base t : Nat) (refs code : List Nat) : (patchS8 base t refs code).1.length = code.length := by
  induction refs generalizing code with
  | nil => rfl
  | cons r rs ih => simp only [patchS8]; (repeat' split) <;> simp [ih]

theorem patchU16_length (base t : Nat) (refs code : List Nat) : (patchU16 base t refs code).1.length = code.length := by
  induction refs generalizing code with
  | nil => rfl
  | cons r rs ih => simp only [patchU16]; (repeat' split) <;> simp [ih]

theorem finS8_frame (e : Em) (l : List (String × List Nat)) :
    (finS8 e l).1.lines = e.lines ∧ (finS8 e l).1.base = e.base ∧ (finS8 e l).1.address = e.address ∧
    (finS8 e l).1.code.length = e.code.length := by
  induction l generalizing e with
  | nil => exact ⟨rfl, rfl, rfl, rfl⟩
  | cons p rest ih =>
    obtain ⟨lbl, refs⟩ := p
    simp only [finS8]
    cases lookup e.labels lbl with
    | none => exact ⟨rfl, rfl, rfl, rfl⟩
    | some t =>
      simp only
      have hl := patchS8_length e.base t refs e.code
      split
      · have := ih { e with code := (patchS8 e.base t refs e.code).1, dS8 := delKey e.dS8 lbl }
        simp only at this
        exact ⟨this.1, this.2.1, this.2.2.1, by rw [this.2.2.2, hl]⟩
      · exact ⟨rfl, rfl, rfl, hl⟩

theorem finU16_frame (e : Em) (l : List (String × List Nat)) :
    (finU16 e l).1.lines = e.lines ∧ (finU16 e l).1.base = e.base ∧ (finU16 e l).1.address = e.address ∧
    (finU16 e l).1.code.length = e.code.length := by
  induction l generalizing e with
  | nil => exact ⟨rfl, rfl, rfl, rfl⟩
  | cons p rest ih =>
    obtain ⟨lbl, refs⟩ := p
    simp only [finU16]
    cases lookup e.labels lbl with
    | none => exact ⟨rfl, rfl, rfl, rfl⟩
    | some t =>
      simp only
      have hl := patchU16_length e.base t refs e.code
      split
      · have := ih { e with code := (patchU16 e.base t refs e.code).1, dU16 := delKey e.dU16 lbl }
        simp only at this
        exact ⟨this.1, this.2.1, this.2.2.1, by rw [this.2.2.2, hl]⟩
      · exact ⟨rfl, rfl, rfl, hl⟩

theorem finalize_inv (e : Em) (hinv : Inv e) : Inv (finalize e).1 := by
  have h1 := finS8_frame e e.dS8
  unfold finalize
  simp only
  split
  · have h2 := finU16_frame (finS8 e e.dS8).1 (finS8 e e.dS8).1.dU16
    exact ⟨by rw [h2.1, h2.2.1, h2.2.2.2, h1.1, h1.2.1, h1.2.2.2]; exact hinv.tile,
           by rw [h2.2.2.1, h2.2.1, h2.2.2.2, h1.2.2.1, h1.2.1, h1.2.2.2]; exact hinv.addr⟩
  · exact ⟨by rw [h1.1, h1.2.1, h1.2.2.2]; exact hinv.tile, by rw [h1.2.2.1, h1.2.1, h1.2.2.2]; exact hinv.addr⟩

/-- **Main statement.**  For any accepted history with listing generation on, starting from a fresh emitter (optionally
with a base set first), before and after Finalize, the hex listing is exactly Bytes(). -/
theorem listing_reproduces_bytes (e0 : Em) (c : Nat) (ops : List Op)
    (h0 : e0 = newEmitter (some c) true ∨ ∃ a, e0 = setBase (newEmitter (some c) true) a)
    (ho : ∀ o ∈ ops, OpOK o) (hok : allAccepted e0 ops) :
    (∃ recs, hexRecords (run e0 ops) = some recs ∧ (recs.map (·.bytes)).flatten = (run e0 ops).code) ∧
    (∃ recs, hexRecords (finalize (run e0 ops)).1 = some recs ∧
      (recs.map (·.bytes)).flatten = (finalize (run e0 ops)).1.code) := by
  have hi : Inv e0 ∧ e0.cap = some c ∧ e0.genText = true := by
    rcases h0 with rfl | ⟨a, rfl⟩
    · exact ⟨inv_fresh _ _, rfl, rfl⟩
    · exact ⟨inv_fresh_base _ _ a, rfl, rfl⟩
  have hr := run_inv e0 ops c hi.1 hi.2.1 hi.2.2 ho hok
  exact ⟨hex_listing_is_bytes _ hr, hex_listing_is_bytes _ (finalize_inv _ hr)⟩

theorem emitBase_lines (e : Em) : ∃ x, (emitBase e).lines = e.lines ++ x := by
  unfold emitBase
  split
  · exact ⟨[], by simp⟩
  · split
    · exact ⟨[], by simp⟩
    · exact ⟨_, rfl⟩

/-- listing records appear in the order their calls were issued: a call only ever appends records -/
theorem lines_append_only (e : Em) (o : Op) : ∃ new, (step e o).1.lines = e.lines ++ new := by
  cases o with
  | ins m a l =>
    simp only [step, ins_eq]
    split
    · exact ⟨[], by simp⟩
    · have tf := tracked_fields e m a
      unfold emit
      cases hw : write (tracked e m a) (m.bytes.map (AsmExpect.evalB a)) with
      | none => exact ⟨[], by simp [tf.2.2.2.2.2.1]⟩
      | some e1 =>
        have hl : e1.lines = e.lines := by
          rcases write_some _ e1 _ hw with ⟨_, rfl⟩ | ⟨_, _, _, rfl⟩ <;> simp [tf.2.2.2.2.2.1]
        simp only [emitTail, emitBase]
        cases dangOf m.kind <;> (repeat' split) <;> simp [hl]
  | bytes b =>
    simp only [step, emitBytes]
    obtain ⟨x, hx⟩ := emitBase_lines e
    by_cases hg : e.genText = true
    · simp only [hg, if_true]
      cases hw : write { emitBase e with lines := (emitBase e).lines ++ dbLines (emitBase e).address b } b with
      | none => exact ⟨x ++ dbLines (emitBase e).address b, by simp [hx]⟩
      | some e2 =>
        rcases write_some _ e2 _ hw with ⟨_, rfl⟩ | ⟨_, _, _, rfl⟩ <;>
          exact ⟨x ++ dbLines (emitBase e).address b, by simp [hx]⟩
    · simp only [hg, Bool.false_eq_true, if_false]
      cases hw : write e b with
      | none => exact ⟨[], by simp⟩
      | some e2 => rcases write_some _ e2 _ hw with ⟨_, rfl⟩ | ⟨_, _, _, rfl⟩ <;> exact ⟨[], by simp⟩
  | label n => simp only [step, label]; (repeat' split) <;> simp
  | comment s => simp only [step, comment, emitBase]; (repeat' split) <;> simp
  | setBase a => exact ⟨[], by simp [step, setBase]⟩

/-! non-vacuity: a 20-byte data block is covered by listing records up to byte 20 (the D6 scenario), and a concrete
accepted history satisfies the hypotheses of the main theorem -/
example : tiled (dbLines 0 (List.range 20)) 0 = some 20 := by rw [tiled_dbLines]; rfl
example : allAccepted (newEmitter (some 8) true) [.comment "x", .label "a", .bytes [1, 2, 3]] := by
  refine ⟨rfl, ?_, ?_, trivial⟩ <;> decide

end C15
