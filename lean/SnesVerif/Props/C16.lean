/-
C16 — emitting through Clone and Append is equivalent to emitting directly.

Model: Asm/Model.lean (tied by `vh asm`: every history with a clone/append split is also run as direct emission and
the observations after the Append — bytes, length, PC, flags, labels, both listings, Finalize outcome and finalized
bytes — are compared; the original is re-observed after clone operations).
Partial (DESIGN.md §C16): "until Append the original is unaffected by the clone" is true by construction in a pure
model and says nothing about Go aliasing; that clause is carried by the correspondence run only.
-/
import SnesVerif.Asm.Refs
open AsmModel AsmLemmas Gen
set_option maxRecDepth 100000

namespace C16

/-- clone `c` (tail emitted so far) against direct emitter `d` (same tail emitted directly after the same head `a0`) -/
structure Sim (a0 c d : Em) : Prop where
  code : d.code = a0.code ++ c.code
  lines : d.lines = a0.lines ++ c.lines
  address : c.address = d.address
  flags : c.flags = d.flags
  baseSet : c.baseSet = d.baseSet
  base : c.base = d.base
  genText : c.genText = d.genText
  labels : c.labels = d.labels
  dS8 : c.dS8 = d.dS8
  dU16 : c.dU16 = d.dU16

theorem sim_clone (a0 : Em) (cap : Option Nat) : Sim a0 (clone a0 cap) a0 :=
  ⟨by simp [clone], by simp [clone], rfl, rfl, rfl, rfl, rfl, rfl, rfl, rfl⟩

theorem emitBase_sim (a0 c d : Em) (h : Sim a0 c d) : Sim a0 (emitBase c) (emitBase d) := by
  obtain ⟨h1, h2, h3, h4, h5, h6, h7, h8, h9, h10⟩ := h
  unfold emitBase
  rw [h7, h5]
  by_cases g1 : d.genText = true
  · by_cases g2 : d.baseSet = true
    · simp only [g1, g2, Bool.not_true, Bool.false_eq_true, if_false]
      constructor <;> simp_all
    · simp only [g1, g2, Bool.not_true, Bool.false_eq_true, if_false, Bool.not_false, if_true]
      constructor <;> simp_all
  · simp only [g1, Bool.not_false, if_true]
    constructor <;> simp_all

theorem emitTail_sim (a0 c d : Em) (k : LineKind) (n : Nat) (i l f : String) (dg : Dangling) (h : Sim a0 c d) :
    Sim a0 (emitTail c k n i l f dg) (emitTail d k n i l f dg) := by
  have hb := emitBase_sim a0 c d h
  obtain ⟨b1, b2, b3, b4, b5, b6, b7, b8, b9, b10⟩ := hb
  obtain ⟨h1, h2, h3, h4, h5, h6, h7, h8, h9, h10⟩ := h
  unfold emitTail
  rw [h7]
  by_cases g : d.genText = true
  · simp only [g, if_true]
    cases dg <;> simp only <;> constructor <;> simp_all
  · simp only [g, Bool.false_eq_true, if_false]
    cases dg <;> simp only <;> constructor <;> simp_all

theorem write_sim (a0 c d c1 d1 : Em) (b : List Nat) (h : Sim a0 c d) (cc cd : Nat)
    (hcc : c.cap = some cc) (hcd : d.cap = some cd) (hc : write c b = some c1) (hd : write d b = some d1) :
    Sim a0 c1 d1 := by
  rcases write_some c c1 b hc with ⟨hn, _⟩ | ⟨_, _, _, rfl⟩
  · rw [hcc] at hn; simp at hn
  · rcases write_some d d1 b hd with ⟨hn, _⟩ | ⟨_, _, _, rfl⟩
    · rw [hcd] at hn; simp at hn
    · obtain ⟨h1, h2, h3, h4, h5, h6, h7, h8, h9, h10⟩ := h
      constructor <;> simp_all

def OpOK : Op → Prop
  | .setBase _ => False
  | _ => True

/-- one call, accepted by both the clone and the direct emitter, keeps them in step -/
theorem step_sim (a0 c d : Em) (o : Op) (h : Sim a0 c d) (cc cd : Nat) (hcc : c.cap = some cc) (hcd : d.cap = some cd)
    (ho : OpOK o) (hokc : (step c o).2 = .ok) (hokd : (step d o).2 = .ok) :
    Sim a0 (step c o).1 (step d o).1 := by
  cases o with
  | ins m a l =>
    simp only [step, ins_eq] at hokc hokd ⊢
    have hfl := h.flags
    by_cases g : guardOK m.guard d.flags
    · have g' : guardOK m.guard c.flags := by rw [hfl]; exact g
      simp only [g, g', Bool.not_true, Bool.false_eq_true, if_false] at hokc hokd ⊢
      have ht : Sim a0 (tracked c m a) (tracked d m a) := by
        obtain ⟨h1, h2, h3, h4, h5, h6, h7, h8, h9, h10⟩ := h
        unfold tracked
        cases m.track <;> constructor <;> simp_all
      have tc := tracked_fields c m a
      have td := tracked_fields d m a
      unfold emit at hokc hokd ⊢
      cases hwc : write (tracked c m a) (m.bytes.map (AsmExpect.evalB a)) with
      | none => rw [hwc] at hokc; simp at hokc
      | some c1 =>
        cases hwd : write (tracked d m a) (m.bytes.map (AsmExpect.evalB a)) with
        | none => rw [hwd] at hokd; simp at hokd
        | some d1 =>
          simp only
          exact emitTail_sim a0 c1 d1 _ _ _ _ _ _
            (write_sim a0 _ _ c1 d1 _ ht cc cd (by rw [tc.2.2.1]; exact hcc) (by rw [td.2.2.1]; exact hcd) hwc hwd)
    · simp only [g, Bool.not_false, if_true] at hokd; simp at hokd
  | bytes b =>
    simp only [step] at hokc hokd ⊢
    unfold emitBytes at hokc hokd ⊢
    have hb := emitBase_sim a0 c d h
    have hg := h.genText
    have fc := emitBase_fields c
    have fd := emitBase_fields d
    rw [hg] at hokc ⊢
    by_cases g : d.genText = true
    · simp only [g, if_true] at hokc hokd ⊢
      have hs : Sim a0 { emitBase c with lines := (emitBase c).lines ++ dbLines (emitBase c).address b }
          { emitBase d with lines := (emitBase d).lines ++ dbLines (emitBase d).address b } := by
        obtain ⟨b1, b2, b3, b4, b5, b6, b7, b8, b9, b10⟩ := hb
        constructor <;> simp_all
      cases hwc : write { emitBase c with lines := (emitBase c).lines ++ dbLines (emitBase c).address b } b with
      | none => rw [hwc] at hokc; simp at hokc
      | some c1 =>
        cases hwd : write { emitBase d with lines := (emitBase d).lines ++ dbLines (emitBase d).address b } b with
        | none => rw [hwd] at hokd; simp at hokd
        | some d1 =>
          have := write_sim a0 _ _ c1 d1 b hs cc cd (by simp [fc.2.2.2.1, hcc]) (by simp [fd.2.2.2.1, hcd]) hwc hwd
          obtain ⟨w1, w2, w3, w4, w5, w6, w7, w8, w9, w10⟩ := this
          constructor <;> simp_all
    · simp only [g, Bool.false_eq_true, if_false] at hokc hokd ⊢
      cases hwc : write c b with
      | none => rw [hwc] at hokc; simp at hokc
      | some c1 =>
        cases hwd : write d b with
        | none => rw [hwd] at hokd; simp at hokd
        | some d1 =>
          have := write_sim a0 _ _ c1 d1 b h cc cd hcc hcd hwc hwd
          obtain ⟨w1, w2, w3, w4, w5, w6, w7, w8, w9, w10⟩ := this
          constructor <;> simp_all
  | label n =>
    simp only [step] at hokc hokd ⊢
    obtain ⟨h1, h2, h3, h4, h5, h6, h7, h8, h9, h10⟩ := h
    unfold label at hokc hokd ⊢
    rw [h8] at hokc ⊢
    cases hl : lookup d.labels n with
    | some v => rw [hl] at hokd; simp at hokd
    | none =>
      simp only [h7]
      by_cases g : d.genText = true
      · simp only [g, if_true]
        constructor <;> simp_all
      · simp only [g, Bool.false_eq_true, if_false]
        constructor <;> simp_all
  | comment s =>
    simp only [step, comment]
    have hb := emitBase_sim a0 c d h
    rw [h.genText]
    by_cases g : d.genText = true
    · simp only [g, if_true]
      obtain ⟨b1, b2, b3, b4, b5, b6, b7, b8, b9, b10⟩ := hb
      constructor <;> simp_all
    · simp only [g, Bool.false_eq_true, if_false]; exact h
  | setBase a => exact absurd ho (by simp [OpOK])

theorem step_cap (e : Em) (o : Op) (ho : OpOK o) : (step e o).1.cap = e.cap := by
  cases o with
  | ins m a l =>
    simp only [step, ins_eq]
    split
    · rfl
    · have tf := tracked_fields e m a
      rcases emit_fields (tracked e m a) (lineKindOf m.kind (m.bytes.map (AsmExpect.evalB a)).length)
          (m.bytes.map (AsmExpect.evalB a)) m.ins l m.fmt (dangOf m.kind) with ⟨_, h1, _⟩ | ⟨_, _, _, _, h5, _⟩
      · rw [h1]; exact tf.2.2.1
      · rw [h5]; exact tf.2.2.1
  | bytes b =>
    simp only [step]
    rcases emitBytes_fields e b with ⟨_, _, _, _, h4, _⟩ | ⟨_, _, _, _, h5, _⟩
    · exact h4
    · exact h5
  | label n =>
    simp only [step]
    rcases label_fields e n with ⟨_, h1, _⟩ | ⟨_, _, _, _, _, _, h7, _⟩
    · rw [h1]
    · exact h7
  | comment s => simp only [step, comment, emitBase]; (repeat' split) <;> rfl
  | setBase a => exact absurd ho (by simp [OpOK])

/-- a whole tail, accepted by both -/
theorem run_sim (a0 c d : Em) (ops : List Op) (h : Sim a0 c d) (cc cd : Nat) (hcc : c.cap = some cc) (hcd : d.cap = some cd)
    (ho : ∀ o ∈ ops, OpOK o) (hokc : allAccepted c ops) (hokd : allAccepted d ops) :
    Sim a0 (run c ops) (run d ops) := by
  induction ops generalizing c d with
  | nil => exact h
  | cons o os ih =>
    have ho1 := ho o (List.mem_cons_self ..)
    exact ih (step c o).1 (step d o).1 (step_sim a0 c d o h cc cd hcc hcd ho1 hokc.1 hokd.1)
      (by rw [step_cap c o ho1]; exact hcc) (by rw [step_cap d o ho1]; exact hcd)
      (fun o' h' => ho o' (List.mem_cons_of_mem _ h')) hokc.2 hokd.2

/-! ### merging the maps back -/

theorem lookup_setKey {α : Type} (m : List (String × α)) (k k' : String) (v : α) :
    lookup (setKey m k v) k' = if k = k' then some v else lookup m k' := by
  induction m with
  | nil => simp [setKey, lookup]
  | cons q rest ih =>
    obtain ⟨k0, w⟩ := q
    simp only [setKey]
    by_cases c : k0 = k
    · subst c
      simp only [if_true, lookup]
      by_cases c2 : k0 = k' <;> simp [c2]
    · simp only [if_neg c, lookup, ih]
      by_cases c2 : k0 = k'
      · subst c2; simp [c, Ne.symm c]
      · simp [c2]

def keys {α : Type} (m : List (String × α)) : List String := m.map (·.1)

theorem lookup_none_of_not_mem {α : Type} (m : List (String × α)) (k : String) (h : k ∉ keys m) : lookup m k = none := by
  induction m with
  | nil => rfl
  | cons q rest ih =>
    obtain ⟨k0, w⟩ := q
    simp only [keys, List.map_cons, List.mem_cons, not_or] at h
    simp only [lookup]
    rw [if_neg (fun c => h.1 c.symm)]
    exact ih h.2

/-- Go's `for k, v := range e.m { a.m[k] = v }` with a map (pairwise distinct keys): entries of `e` win, keys only in `a` survive -/
theorem lookup_mergeMap {α : Type} (a e : List (String × α)) (hn : (keys e).Nodup) (k : String) :
    lookup (mergeMap a e) k = (match lookup e k with | some v => some v | none => lookup a k) := by
  induction e generalizing a with
  | nil => rfl
  | cons q rest ih =>
    obtain ⟨k0, v0⟩ := q
    simp only [keys, List.map_cons, List.nodup_cons] at hn
    have : mergeMap a ((k0, v0) :: rest) = mergeMap (setKey a k0 v0) rest := rfl
    rw [this, ih _ hn.2, lookup_setKey]
    simp only [lookup]
    by_cases c : k0 = k
    · subst c
      rw [lookup_none_of_not_mem rest k0 hn.1]
      simp
    · simp [c]

theorem keys_setKey {α : Type} (m : List (String × α)) (k : String) (v : α) :
    keys (setKey m k v) = if k ∈ keys m then keys m else keys m ++ [k] := by
  induction m with
  | nil => simp [setKey, keys]
  | cons q rest ih =>
    obtain ⟨k0, w⟩ := q
    simp only [setKey]
    by_cases c : k0 = k
    · subst c; simp [keys]
    · simp only [if_neg c, keys, List.map_cons, List.mem_cons] at ih ⊢
      rw [ih]
      have c' : ¬ k = k0 := fun h => c h.symm
      by_cases m1 : k ∈ List.map (·.1) rest <;> simp [m1, c']

theorem lookup_isSome_of_mem {α : Type} (m : List (String × α)) (k : String) (h : k ∈ keys m) : (lookup m k).isSome := by
  induction m with
  | nil => simp [keys] at h
  | cons q rest ih =>
    obtain ⟨k0, w⟩ := q
    simp only [keys, List.map_cons, List.mem_cons] at h
    simp only [lookup]
    by_cases c : k0 = k
    · simp [c]
    · rw [if_neg c]
      rcases h with h | h
      · exact absurd h.symm c
      · exact ih h

theorem mem_keys_of_lookup {α : Type} (m : List (String × α)) (k : String) (v : α) (h : lookup m k = some v) : k ∈ keys m := by
  have := lookup_mem m k v h
  exact List.mem_map_of_mem (f := (·.1)) this

/-- the three maps are maps (pairwise distinct keys), and every key of the original is a key of the clone -/
structure MapsOK (a0 c : Em) : Prop where
  nl : (keys c.labels).Nodup
  n8 : (keys c.dS8).Nodup
  n16 : (keys c.dU16).Nodup
  sl : ∀ k, k ∈ keys a0.labels → k ∈ keys c.labels
  s8 : ∀ k, k ∈ keys a0.dS8 → k ∈ keys c.dS8
  s16 : ∀ k, k ∈ keys a0.dU16 → k ∈ keys c.dU16

theorem addRef_keys (m : List (String × List Nat)) (k : String) (r : Nat) (hn : (keys m).Nodup) :
    (keys (addRef m k r)).Nodup ∧ ∀ x, x ∈ keys m → x ∈ keys (addRef m k r) := by
  unfold addRef
  rw [keys_setKey]
  by_cases c : k ∈ keys m
  · simp only [c, if_true]; exact ⟨hn, fun x hx => hx⟩
  · simp only [c, if_false]
    refine ⟨?_, fun x hx => List.mem_append_left _ hx⟩
    rw [List.nodup_append]
    refine ⟨hn, by simp, ?_⟩
    intro a ha b hb
    simp only [List.mem_singleton] at hb
    subst hb
    intro heq; subst heq; exact c ha

theorem step_maps (a0 c : Em) (o : Op) (cc : Nat) (h : MapsOK a0 c) (hcc : c.cap = some cc) (ho : OpOK o)
    (hok : (step c o).2 = .ok) : MapsOK a0 (step c o).1 := by
  obtain ⟨nl, n8, n16, sl, s8, s16⟩ := h
  cases o with
  | ins m a l =>
    simp only [step, ins_eq] at hok ⊢
    by_cases g : guardOK m.guard c.flags
    · simp only [g, Bool.not_true, Bool.false_eq_true, if_false] at hok ⊢
      have tf := tracked_fields c m a
      obtain ⟨_, _, _, e4, e5⟩ := emit_dangling (tracked c m a) _ _ _ l _ (dangOf m.kind) cc (by rw [tf.2.2.1]; exact hcc) hok
      rcases emit_fields (tracked c m a) (lineKindOf m.kind (m.bytes.map (AsmExpect.evalB a)).length)
          (m.bytes.map (AsmExpect.evalB a)) m.ins l m.fmt (dangOf m.kind) with ⟨h0, _⟩ | ⟨_, _, hl, _⟩
      · rw [h0] at hok; simp at hok
      · rw [tf.2.2.2.1] at hl
        rw [tf.2.2.2.2.2.2.2.2.1] at e4
        rw [tf.2.2.2.2.2.2.2.2.2] at e5
        have a8 := addRef_keys c.dS8 l ((tracked c m a).address + (m.bytes.map (AsmExpect.evalB a)).length - 1) n8
        have a16 := addRef_keys c.dU16 l ((tracked c m a).address + (m.bytes.map (AsmExpect.evalB a)).length - 2) n16
        constructor
        · rw [hl]; exact nl
        · rw [e4]; split
          · exact a8.1
          · exact n8
        · rw [e5]; split
          · exact a16.1
          · exact n16
        · rw [hl]; exact sl
        · rw [e4]; split
          · exact fun k hk => a8.2 k (s8 k hk)
          · exact s8
        · rw [e5]; split
          · exact fun k hk => a16.2 k (s16 k hk)
          · exact s16
    · simp only [g, Bool.not_false, if_true] at hok; simp at hok
  | bytes b =>
    simp only [step] at hok ⊢
    have hs := emitBytes_static c b
    rcases emitBytes_fields c b with ⟨h0, _⟩ | ⟨_, _, hl, _⟩
    · rw [h0] at hok; simp at hok
    · exact ⟨by rw [hl]; exact nl, by rw [hs.2.1]; exact n8, by rw [hs.2.2]; exact n16,
        by rw [hl]; exact sl, by rw [hs.2.1]; exact s8, by rw [hs.2.2]; exact s16⟩
  | label n =>
    simp only [step] at hok ⊢
    have hs := label_static c n
    rcases label_fields c n with ⟨h0, _⟩ | ⟨_, hnone, _, _, hl, _⟩
    · rw [h0] at hok; simp at hok
    · have hnot : n ∉ keys c.labels := by
        intro hm
        have := lookup_isSome_of_mem c.labels n hm
        rw [hnone] at this; simp at this
      refine ⟨?_, by rw [hs.2.1]; exact n8, by rw [hs.2.2]; exact n16, ?_, by rw [hs.2.1]; exact s8, by rw [hs.2.2]; exact s16⟩
      · rw [hl]
        simp only [keys, List.map_append, List.map_cons, List.map_nil]
        rw [List.nodup_append]
        refine ⟨nl, by simp, ?_⟩
        intro a ha b hb
        simp only [List.mem_singleton] at hb
        subst hb
        intro heq; subst heq; exact hnot ha
      · rw [hl]
        intro k hk
        simp only [keys, List.map_append, List.mem_append]
        exact Or.inl (sl k hk)
  | comment s =>
    have hb : (step c (.comment s)).1.labels = c.labels ∧ (step c (.comment s)).1.dS8 = c.dS8 ∧ (step c (.comment s)).1.dU16 = c.dU16 := by
      simp only [step, comment, emitBase]; (repeat' split) <;> simp_all
    exact ⟨by rw [hb.1]; exact nl, by rw [hb.2.1]; exact n8, by rw [hb.2.2]; exact n16,
      by rw [hb.1]; exact sl, by rw [hb.2.1]; exact s8, by rw [hb.2.2]; exact s16⟩
  | setBase a => exact absurd ho (by simp [OpOK])

theorem run_maps (a0 c : Em) (ops : List Op) (cc : Nat) (h : MapsOK a0 c) (hcc : c.cap = some cc)
    (ho : ∀ o ∈ ops, OpOK o) (hok : allAccepted c ops) : MapsOK a0 (run c ops) := by
  induction ops generalizing c with
  | nil => exact h
  | cons o os ih =>
    have ho1 := ho o (List.mem_cons_self ..)
    exact ih (step c o).1 (step_maps a0 c o cc h hcc ho1 hok.1) (by rw [step_cap c o ho1]; exact hcc)
      (fun o' h' => ho o' (List.mem_cons_of_mem _ h')) hok.2

theorem merged_lookup {α : Type} (a e : List (String × α)) (hn : (keys e).Nodup) (hs : ∀ k, k ∈ keys a → k ∈ keys e) (k : String) :
    lookup (mergeMap a e) k = lookup e k := by
  rw [lookup_mergeMap a e hn k]
  cases he : lookup e k with
  | some v => rfl
  | none =>
    simp only
    cases ha : lookup a k with
    | none => rfl
    | some w =>
      have := lookup_isSome_of_mem e k (hs k (mem_keys_of_lookup a k w ha))
      rw [he] at this; simp at this

/-- **Clone + Append ≡ direct emission.**  `a0` is the emitter after the head of the call sequence (its three maps being
maps); the tail `ys` is emitted into `Clone(a0)` and, separately, directly into `a0`; both accept it.  If the Append
fits, the appended emitter is indistinguishable from the direct one: same bytes, length, program counter, tracked
flags, base state and listing records, and the same label / dangling-reference map contents. -/
theorem clone_append_equiv (a0 : Em) (ys : List Op) (capC cd : Nat)
    (hm : MapsOK a0 a0) (hcd : a0.cap = some cd) (ho : ∀ o ∈ ys, OpOK o)
    (hokc : allAccepted (clone a0 (some capC)) ys) (hokd : allAccepted a0 ys)
    (hfit : (append a0 (run (clone a0 (some capC)) ys)).2 = .ok) :
    let r := (append a0 (run (clone a0 (some capC)) ys)).1
    let d := run a0 ys
    r.code = d.code ∧ r.code.length = d.code.length ∧ r.address = d.address ∧ r.flags = d.flags ∧
    r.baseSet = d.baseSet ∧ r.base = d.base ∧ r.lines = d.lines ∧ r.genText = d.genText ∧
    (∀ k, lookup r.labels k = lookup d.labels k) ∧ (∀ k, lookup r.dS8 k = lookup d.dS8 k) ∧
    (∀ k, lookup r.dU16 k = lookup d.dU16 k) := by
  have hs := run_sim a0 (clone a0 (some capC)) a0 ys (sim_clone a0 _) capC cd rfl hcd ho hokc hokd
  have hmc : MapsOK a0 (clone a0 (some capC)) := ⟨hm.nl, hm.n8, hm.n16, fun k h => h, fun k h => h, fun k h => h⟩
  have hmr := run_maps a0 (clone a0 (some capC)) ys capC hmc rfl ho hokc
  obtain ⟨h1, h2, h3, h4, h5, h6, h7, h8, h9, h10⟩ := hs
  unfold append at hfit ⊢
  split at hfit
  · simp at hfit
  · rename_i hcap
    simp only [if_neg hcap]
    have hbase : a0.base = (run a0 ys).base := by
      rw [← h6]
      -- the clone keeps the original's base and no call of the tail changes it
      have key : ∀ (e : Em) (ops : List Op), (∀ o ∈ ops, OpOK o) → (run e ops).base = e.base := by
        intro e ops
        induction ops generalizing e with
        | nil => intro _; rfl
        | cons o os ih =>
          intro hoo
          have hb : (step e o).1.base = e.base := by
            cases o with
            | ins m a l =>
              simp only [step, ins_eq]
              split
              · rfl
              · have tf := tracked_fields e m a
                rcases emit_fields (tracked e m a) (lineKindOf m.kind (m.bytes.map (AsmExpect.evalB a)).length)
                    (m.bytes.map (AsmExpect.evalB a)) m.ins l m.fmt (dangOf m.kind) with ⟨_, h1, _⟩ | ⟨_, _, _, _, _, _, hb7, _⟩
                · rw [h1]; exact tf.2.2.2.2.2.2.1
                · rw [hb7]; exact tf.2.2.2.2.2.2.1
            | bytes b => exact (emitBytes_static e b).1
            | label n => exact (label_static e n).1
            | comment s => simp only [step, comment, emitBase]; (repeat' split) <;> rfl
            | setBase a => exact absurd (hoo _ (List.mem_cons_self ..)) (by simp [OpOK])
          have := ih (step e o).1 (fun o' h' => hoo o' (List.mem_cons_of_mem _ h'))
          show (run (step e o).1 os).base = e.base
          rw [this, hb]
      rw [key (clone a0 (some capC)) ys ho]; rfl
    refine ⟨by rw [h1], by rw [h1], h3, h4, h5, hbase, by rw [h2], ?_, ?_, ?_, ?_⟩
    · rw [← h7]
      -- genText never changes; the clone copies it
      have key : ∀ (e : Em) (ops : List Op), (∀ o ∈ ops, OpOK o) → (run e ops).genText = e.genText := by
        intro e ops
        induction ops generalizing e with
        | nil => intro _; rfl
        | cons o os ih =>
          intro hoo
          have hb : (step e o).1.genText = e.genText := by
            cases o with
            | ins m a l =>
              simp only [step, ins_eq]
              split
              · rfl
              · have tf := tracked_fields e m a
                rcases emit_fields (tracked e m a) (lineKindOf m.kind (m.bytes.map (AsmExpect.evalB a)).length)
                    (m.bytes.map (AsmExpect.evalB a)) m.ins l m.fmt (dangOf m.kind) with ⟨_, h1, _⟩ | ⟨_, _, _, _, _, hg6, _⟩
                · rw [h1]; exact tf.2.2.2.2.1
                · rw [hg6]; exact tf.2.2.2.2.1
            | bytes b =>
              rcases emitBytes_fields e b with ⟨_, _, _, _, _, _, h7⟩ | ⟨_, _, _, _, _, _, h7⟩ <;> exact h7
            | label n =>
              rcases label_fields e n with ⟨_, h1, _⟩ | ⟨_, _, _, _, _, _, _, h8⟩
              · simp only [step]; rw [h1]
              · exact h8
            | comment s => simp only [step, comment, emitBase]; (repeat' split) <;> rfl
            | setBase a => exact absurd (hoo _ (List.mem_cons_self ..)) (by simp [OpOK])
          have := ih (step e o).1 (fun o' h' => hoo o' (List.mem_cons_of_mem _ h'))
          show (run (step e o).1 os).genText = e.genText
          rw [this, hb]
      rw [key (clone a0 (some capC)) ys ho]; rfl
    · intro k; rw [merged_lookup _ _ hmr.nl hmr.sl, h8]
    · intro k; rw [merged_lookup _ _ hmr.n8 hmr.s8, h9]
    · intro k; rw [merged_lookup _ _ hmr.n16 hmr.s16, h10]

/-- the listings are functions of bytes, base and records only, so indistinguishable emitters list identically -/
theorem listing_equal (r d : Em) (hc : r.code = d.code) (hb : r.base = d.base) (hl : r.lines = d.lines) :
    hexRecords r = hexRecords d ∧ textRecords r = textRecords d := by
  have lb : ∀ l, lineBytes r l = lineBytes d l := by intro l; unfold lineBytes; rw [hc, hb]
  have h1 : ∀ ls, hexRecsOf r ls = hexRecsOf d ls := by
    intro ls; induction ls with
    | nil => rfl
    | cons l ls ih => simp only [hexRecsOf, lb, ih]
  have h2 : ∀ ls, textRecsOf r ls = textRecsOf d ls := by
    intro ls; induction ls with
    | nil => rfl
    | cons l ls ih => simp only [textRecsOf, lb, ih]
  unfold hexRecords textRecords
  rw [hl]; exact ⟨h1 _, h2 _⟩

/-- an Append that does not fit the remaining capacity is refused without modifying the original -/
theorem append_refused_unchanged (a e : Em) (h : (append a e).2 = .refused) : (append a e).1 = a := by
  unfold append at h ⊢
  split
  · rfl
  · rename_i hc; rw [if_neg hc] at h; simp at h

/-- a fresh emitter's maps are maps -/
theorem fresh_maps (c : Option Nat) (t : Bool) : MapsOK (newEmitter c t) (newEmitter c t) :=
  ⟨by simp [newEmitter, keys], by simp [newEmitter, keys], by simp [newEmitter, keys], fun _ h => h, fun _ h => h, fun _ h => h⟩

/-- … and stay maps along every accepted history (so that the hypothesis of `clone_append_equiv` is met by every
head sequence `xs`) -/
theorem head_maps (e0 : Em) (xs : List Op) (c : Nat) (h0 : MapsOK e0 e0) (hc : e0.cap = some c)
    (ho : ∀ o ∈ xs, OpOK o) (hok : allAccepted e0 xs) : MapsOK (run e0 xs) (run e0 xs) := by
  have := run_maps e0 e0 xs c h0 hc ho hok
  exact ⟨this.nl, this.n8, this.n16, fun _ h => h, fun _ h => h, fun _ h => h⟩

end C16
