/-
C02 — the two CPU interpreters are observationally equivalent, cycle for cycle.

The two Go packages are near-copies.  The Lean model has ONE interpreter body (`Cpu.stepWith`) parameterised by the
decode tables; the variant only selects which package's regenerated tables are used (`semOf`, `adjOf`).  C02 in the
model is therefore: (1) the regenerated tables of the two packages denote the same routine, addressing mode, length,
base cycles and cycle adjustments for all 256 opcodes, hence (2) `step .primary = step .alt` as functions on
(registers, flags, E/Stopped, memory, Cycles, AllCycles), for every state, and (3) the same after any number of steps.
That each Go package behaves like `stepWith` over its own tables is the correspondence `vh cpu`, which also runs the
two real packages against each other in lockstep (every register, flag, cycle count and memory write compared).
-/
import SnesVerif.Cpu.Interrupt
import SnesVerif.Gen.CpuDiff
open Cpu Gen
set_option maxRecDepth 100000
namespace C02

/-- (1a) opcode tables: same routine / mode / length / base cycles for every opcode byte -/
theorem rows_agree : ∀ i, i < 256 →
    rowSem (primary_instructions.getD i default) = rowSem (alt_instructions.getD i default) := by
  decide +kernel

/-- (1b) the four cycle adjustment tables agree entry by entry -/
theorem adj_agree : ∀ i, i < 256 →
    (primary_decCycles_flagM.getD i 0 = alt_decCycles_flagM.getD i 0 ∧
     primary_decCycles_flagX.getD i 0 = alt_decCycles_flagX.getD i 0 ∧
     primary_incCycles_regDL_not00.getD i 0 = alt_incCycles_regDL_not00.getD i 0 ∧
     primary_incCycles_PageCross.getD i 0 = alt_incCycles_PageCross.getD i 0) := by
  decide +kernel

theorem semOf_agree : semOf .primary = semOf .alt := by
  funext b
  exact rows_agree b.toNat b.isLt

theorem adjOf_agree : adjOf .primary = adjOf .alt := by
  funext b
  have h := adj_agree b.toNat b.isLt
  simp only [adjOf, cycTables, h.1, h.2.1, h.2.2.1, h.2.2.2]

/-- **C02** (2) one step: identical result (or identical failure) from every state -/
theorem step_agree : step .primary = step .alt := by
  unfold step; rw [semOf_agree, adjOf_agree]

/-- **C02** (3) lockstep along every program -/
theorem run_agree (n : Nat) : run .primary n = run .alt n := by
  induction n with
  | zero => rfl
  | succ n ih => show (step .primary >>= fun _ => run .primary n) = _; rw [step_agree, ih]; rfl

/-- the interrupt latch constants consulted by `Step` are the same numbers in both packages (regenerated) -/
theorem latch_consts_agree : latchNone .primary = latchNone .alt ∧ latchNMI .primary = latchNMI .alt ∧
    latchIRQ .primary = latchIRQ .alt := by decide

/-- **C02** with a pending interrupt: the whole of `Step()` — servicing the latched NMI / IRQ (or nothing), then the
instruction at the vector — agrees between the packages for every latch value, state and memory -/
theorem stepFull_agree (l : Nat) : stepFull .primary l = stepFull .alt l := by
  unfold stepFull service
  rw [step_agree, latch_consts_agree.2.1, latch_consts_agree.2.2]

/-- `TriggerIRQ` / `triggerNMI` set the same latch value in both packages -/
theorem trigger_agree (c : Regs) (l : Nat) :
    triggerIRQ .primary c l = triggerIRQ .alt c l ∧ triggerNMI .primary = triggerNMI .alt := by
  unfold triggerIRQ triggerNMI
  rw [latch_consts_agree.2.1, latch_consts_agree.2.2]; exact ⟨rfl, rfl⟩

/-- spelled out on observables: same registers, flags, stop status, memory, write sequence, per-step cycles, total -/
theorem observables_agree (n : Nat) (s : St) :
    (run .primary n s).map (fun r => (r.2.r, r.2.m.wlog)) = (run .alt n s).map (fun r => (r.2.r, r.2.m.wlog)) ∧
    ∀ a, (run .primary n s).map (fun r => r.2.m.f a) = (run .alt n s).map (fun r => r.2.m.f a) := by
  rw [run_agree]; exact ⟨rfl, fun _ => rfl⟩

/-- the functions in which the two packages are allowed to differ textually: construction, the bus helpers (closure
tables vs interface-backed segments), `Step`'s dispatch syntax, the disassemblers, STP/WAI naming.  These are compared
by the lockstep run only. -/
def bodyExceptions : List String := [
  "AttachReader", "AttachWriter", "Disassemble", "DisassembleCurrentPC", "DisassemblePreviousPC", "DisassembleTo", "EaRead", "EaWrite", "Init", "InitFrom", "New", "Read16", "Read24", "Read8", "Step", "Write16", "Write24", "Write8", "appendCPUFlags", "cmdRead16", "cmdWrite16", "createTable", "eaRead16_cross", "eaWrite16_cross", "formatInstructionAncillaryTo", "formatInstructionMode", "formatInstructionModeTo", "nRead", "nRead16_cross", "nRead16_wrap", "nRead24_wrap", "nWrite", "nWrite16_cross", "nWrite16_wrap", "nmi", "op_stp", "op_wai", "printCPUFlags", "stp", "wai"]

/-- (0) regenerated fact: every other function of the two packages — all `op_*` routines, the 8-bit operand accessors,
flag and register-size helpers — has the same body after normalising the receiver syntax -/
theorem routine_bodies_agree : ∀ fn ∈ cpuFns, fn.same = true ∨ fn.name ∈ bodyExceptions := by decide

/-- … and there are more than a hundred of them (the fact is not vacuous) -/
theorem routine_bodies_counted : 100 ≤ (cpuFns.filter (·.same)).length := by decide

/-- non-vacuity: the tables are the 256-entry tables of the packages, and decode to something -/
example : primary_instructions.size = 256 ∧ alt_instructions.size = 256 ∧
    (semOf .primary 0xA9).proc = .lda ∧ (semOf .alt 0xDB).proc = .stp ∧ (semOf .primary 0xDB).proc = .stp := by
  decide +kernel

end C02
