/-
C11 — the emulated System's memory map is the LoROM map of the mapper package.

`Gen.systemRows` is the routing table of the real `CreateEmulator()`ed System, probed at all 2^24 addresses on every
run (reads and writes; `vh sysmap`).  `Gen.lorom_BusAddressToPak` is regenerated from mapping/lorom/mapping.go.
-/
import SnesVerif.System.Routing
import SnesVerif.Map.Bridge
open SysModel MapSpec Gen
set_option maxRecDepth 100000
set_option maxHeartbeats 4000000

namespace C11

/-- the array cell an FX Pak Pro address designates: (class, index) with class 2 ROM, 3 SRAM, 4 WRAM -/
def Designates (p cls i : Nat) : Prop :=
  (cls = 2 ∧ p < 0xE00000 ∧ i = p) ∨
  (cls = 3 ∧ 0xE00000 ≤ p ∧ p < 0xF00000 ∧ i = p - 0xE00000) ∨
  (cls = 4 ∧ 0xF50000 ≤ p ∧ p < 0xF70000 ∧ i = p - 0xF50000)

/-- a routed address is served by some row of the table, with that row's class and index formula -/
theorem routeIn_mem (rs : List SysRow) (a cls i : Nat) (h : routeIn rs a = some (cls, i)) :
    ∃ r, r ∈ rs ∧ rowMatch r a ∧ cls = r.cls ∧ i = r.idx0 + (a / 65536 - r.bankLo) * r.stride + (a % 65536 - r.offLo) := by
  induction rs with
  | nil => simp [routeIn] at h
  | cons r rs ih =>
    simp only [routeIn] at h
    by_cases c : rowMatch r a
    · rw [if_pos c] at h
      simp only [Option.some.injEq, Prod.mk.injEq] at h
      exact ⟨r, List.mem_cons_self .., c, h.1.symm, h.2.symm⟩
    · rw [if_neg c] at h
      obtain ⟨r', hm, rest⟩ := ih h
      exact ⟨r', List.mem_cons_of_mem _ hm, rest⟩

/-- what one row has to satisfy against the LoROM page table -/
def RowOK (r : SysRow) : Prop :=
  ∀ a p, a < 16777216 → rowMatch r a → 2 ≤ r.cls → pageForm loromPage a = (p, false) →
    Designates p r.cls (r.idx0 + (a / 65536 - r.bankLo) * r.stride + (a % 65536 - r.offLo))

macro "row_tac" : tactic => `(tactic|
  (dsimp only
   intro a p ha hm hc hp
   simp only [rowMatch] at hm hc
   unfold pageForm loromPage at hp
   simp only [elim_ite, Option.elim_some, Option.elim_none] at hp
   unfold Designates
   first
   | omega
   | (repeat' split at hp
      all_goals (try (simp only [Prod.mk.injEq, Bool.false_eq_true, Bool.true_eq_false, and_false, and_true, reduceCtorEq] at hp))
      all_goals omega)))

/-- every row of the probed routing table agrees with the LoROM page table (one obligation per row) -/
theorem all_rows_ok : ∀ r ∈ systemRows, RowOK r := by
  unfold systemRows
  simp only [List.mem_cons, List.not_mem_nil, or_false, forall_eq_or_imp, forall_eq]
  unfold RowOK
  and_intros
  all_goals row_tac

/-- **For every bus address that both the console (an array-backed row) and the LoROM mapper translate, the bus is
backed by exactly the ROM / SRAM / WRAM cell the mapper's FX Pak Pro address designates** (never another class). -/
theorem system_map_is_lorom (a cls i p : Nat) (ha : a < 16777216)
    (hr : route a = some (cls, i)) (hc : 2 ≤ cls) (hm : lorom_BusAddressToPak a = (p, false)) :
    Designates p cls i := by
  rw [MapBridge.lorom_b2p a ha] at hm
  obtain ⟨r, hmem, hmatch, rfl, rfl⟩ := routeIn_mem systemRows a cls i hr
  exact all_rows_ok r hmem a p ha hmatch hc hm

/-- mirrors the mapper declares equivalent (same FX Pak Pro address) read and write the same storage in the emulator -/
theorem mirrors_share_storage (a a' cls i cls' i' p : Nat) (ha : a < 16777216) (ha' : a' < 16777216)
    (hr : route a = some (cls, i)) (hr' : route a' = some (cls', i')) (hc : 2 ≤ cls) (hc' : 2 ≤ cls')
    (hm : lorom_BusAddressToPak a = (p, false)) (hm' : lorom_BusAddressToPak a' = (p, false)) :
    cls = cls' ∧ i = i' := by
  have h1 := system_map_is_lorom a cls i p ha hr hc hm
  have h2 := system_map_is_lorom a' cls' i' p ha' hr' hc' hm'
  unfold Designates at h1 h2
  omega

/-! non-vacuity: the three mirror families of the property -/
example : route 0x008000 = some (2, 0) ∧ route 0x808000 = some (2, 0) := by decide
example : route 0x001234 = some (4, 0x1234) ∧ route 0x7E1234 = some (4, 0x1234) := by decide
example : route 0x700010 = some (3, 0x10) ∧ route 0xF00010 = some (3, 0x10) := by decide

end C11
