/-
C18 — separate emulator, emitter and ROM instances never interfere across goroutines.

What a theorem can carry here (DESIGN.md §C18): the library is a set of operations on caller-owned objects plus
package-level tables.  If no operation ever modifies a package-level variable, an operation is a function
`G → S → S` of the (constant) globals and its own instance, and then every interleaving of operations on distinct
instances leaves each instance exactly as its own operation sequence alone does.  The premise is a regenerated fact:
`gotolean globals` lists every package-level variable of all 15 library packages and every place outside `init` where
one is written, has its address taken, is modified by a pointer-receiver method, or escapes (as a slice / map / pointer)
into code that writes through the alias — `Gen.globalWrites`; the theorem `no_global_writes` pins it to the empty list.
What the theorem cannot carry — Go memory-model data races, unsafe sharing that does not go through a package-level
variable — is the `-race` run of `vh conc` (all instance kinds concurrently, results compared with the sequential run).
-/
import SnesVerif.Gen.Globals
import SnesVerif.Cpu.Impl
namespace C18

/-- regenerated fact: no package-level variable of the library is modified after initialisation -/
theorem no_global_writes : Gen.globalWrites = [] := by decide

/-! ### abstract non-interference -/

/-- one operation on one instance: reads the globals, transforms its own instance -/
abbrev Op (G S : Type) := G → S → S

structure World (G S : Type) where
  g : G
  inst : Nat → S

/-- an event: instance index and the operation applied to it -/
def World.apply {G S : Type} (w : World G S) (e : Nat × Op G S) : World G S :=
  { w with inst := fun j => if j = e.1 then e.2 w.g (w.inst j) else w.inst j }

/-- a schedule: any interleaving, as a list of events -/
def World.run {G S : Type} (w : World G S) (sched : List (Nat × Op G S)) : World G S := sched.foldl World.apply w

/-- the same instance driven alone by its own operations -/
def alone {G S : Type} (g : G) (s : S) (ops : List (Op G S)) : S := ops.foldl (fun s op => op g s) s

/-- projection of a schedule on one instance -/
def proj {G S : Type} (i : Nat) (sched : List (Nat × Op G S)) : List (Op G S) := (sched.filter (·.1 = i)).map (·.2)

theorem run_g {G S : Type} (w : World G S) (sched : List (Nat × Op G S)) : (w.run sched).g = w.g := by
  induction sched generalizing w with
  | nil => rfl
  | cons e es ih => show ((w.apply e).run es).g = w.g; rw [ih]; rfl

/-- **C18 (model level)**: for every schedule and every instance, the instance ends in the state its own operation
sequence produces when run alone -/
theorem interleaving_independent {G S : Type} (w : World G S) (sched : List (Nat × Op G S)) (i : Nat) :
    (w.run sched).inst i = alone w.g (w.inst i) (proj i sched) := by
  induction sched generalizing w with
  | nil => rfl
  | cons e es ih =>
    show ((w.apply e).run es).inst i = _
    rw [ih (w.apply e)]
    unfold proj alone
    by_cases h : e.1 = i
    · simp [List.filter_cons, h, World.apply]
    · have h' : ¬ i = e.1 := fun q => h q.symm
      simp [List.filter_cons, h, h', World.apply]

/-- two schedules that interleave the same per-instance sequences are indistinguishable to every instance -/
theorem schedules_equivalent {G S : Type} (w : World G S) (s1 s2 : List (Nat × Op G S))
    (h : ∀ i, proj i s1 = proj i s2) (i : Nat) : (w.run s1).inst i = (w.run s2).inst i := by
  rw [interleaving_independent, interleaving_independent, h]

/-- instance of the abstract statement: any number of CPUs of either kind stepped in any interleaving -/
example (v : Cpu.Variant) (w : World Unit (Option Cpu.St)) (sched : List Nat) (i : Nat) :
    (w.run (sched.map fun j => (j, fun _ s => s.bind fun st => (Cpu.step v st).map (·.2)))).inst i =
      alone () (w.inst i) (proj i (sched.map fun j => (j, fun _ s => s.bind fun st => (Cpu.step v st).map (·.2)))) :=
  interleaving_independent _ _ _

end C18
