/-
C07, CPU side — the interpreters walk straight-line code exactly as the width-tracking sweep of C07.linear_sweep does.

`C07.linear_sweep` shows that sweeping the emitted bytes with the WDC decoder visits the assembler's instruction starts.
This file closes the other half: for every straight-line instruction (no control transfer, no P restored from the stack,
no XCE) the real interpreters' `Step` (model `Cpu.step`, via the C01 refinement — decimal ADC/SBC included, through
`step_refines_decimal_partial`) moves PC by exactly the sweep's length inside the program bank and leaves M / X at
exactly the sweep's widths.  So along a straight-line program the CPU's fetch addresses are the sweep's offsets.
-/
import SnesVerif.Props.C01
import SnesVerif.Props.C07
import SnesVerif.Cpu.Straight
open Cpu Spec
set_option maxRecDepth 100000
namespace C07

/-- the control part of one `Step` of either interpreter in native mode is that of the WDC model (all instructions,
decimal arithmetic included) -/
theorem cpu_control (v : Variant) (s : St) (hE : s.r.E = false) :
    ∃ s', step v s = some ((), s') ∧ s'.r.PC = (WDC.step (abs s)).PC ∧ s'.r.RK = (WDC.step (abs s)).PBR ∧
      s'.r.E = (WDC.step (abs s)).E ∧ s'.r.M = (WDC.step (abs s)).fM ∧ s'.r.X = (WDC.step (abs s)).fX := by
  by_cases hd : C01.DecimalArith (abs s)
  · obtain ⟨s', e, fr⟩ := C01.step_refines_decimal_partial v s hE hd
    obtain ⟨_, _, _, _, hpc, _, hpbr, hm, hx, _, _, he, _⟩ := fr
    exact ⟨s', e, hpc, hpbr, he, hm, hx⟩
  · obtain ⟨s', e, a⟩ := C01.step_refines v s hE hd
    refine ⟨s', e, ?_, ?_, ?_, ?_, ?_⟩ <;> rw [← a] <;> rfl

theorem instrLen_le (md : Mode) (m x : Bool) : instrLen md m x ≤ 4 ∧ 1 ≤ instrLen md m x := by
  cases md <;> cases m <;> cases x <;> decide

/-- REP and SEP exist only with an 8-bit immediate operand -/
theorem rep_sep_mode : ∀ i, i < 256 → ((decode i).1 = .rep ∨ (decode i).1 = .sep) → (decode i).2 = .imm8 := by
  decide +kernel

theorem testBit_div (p : U8) (k : Nat) : p.getLsbD k = (p.toNat / 2 ^ k % 2 == 1) := by
  rw [BitVec.getLsbD, Nat.testBit_eq_decide_div_mod_eq]
  by_cases h : p.toNat / 2 ^ k % 2 = 1 <;> simp [h]

/-- the four bytes at the program counter (wrapping inside the program bank), as the sweep reads them -/
def codeAt (s : St) : List Nat :=
  [(s.m.f (lin s.r.RK s.r.PC)).toNat, (s.m.f (lin s.r.RK (s.r.PC + 1))).toNat,
   (s.m.f (lin s.r.RK (s.r.PC + 2))).toNat, (s.m.f (lin s.r.RK (s.r.PC + 3))).toNat]

/-- **sweep = execution, one instruction.**  In native mode, at a straight-line instruction, `Step` of either
interpreter succeeds and: the next opcode is fetched at PC + (the sweep's length) in the same bank, the processor stays
in native mode, and the M / X flags are the sweep's widths afterwards (changed only by REP / SEP, by their operand). -/
theorem step_follows_sweep (v : Variant) (s : St) (hE : s.r.E = false)
    (hst : WDC.straight (decode (s.m.f (lin s.r.RK s.r.PC)).toNat).1 = true) :
    ∃ s' len w', step v s = some ((), s') ∧
      sweepStep ⟨s.r.M, s.r.X⟩ (codeAt s) = some (len, w') ∧
      s'.r.PC = s.r.PC + BitVec.ofNat 16 len ∧ s'.r.RK = s.r.RK ∧ s'.r.E = false ∧
      (⟨s'.r.M, s'.r.X⟩ : W) = w' := by
  obtain ⟨s', e, hpc, hpbr, he, hm, hx⟩ := cpu_control v s hE
  have hstep : WDC.step (abs s) = WDC.exec (abs s) (decode (s.m.f (lin s.r.RK s.r.PC)).toNat).1
      (decode (s.m.f (lin s.r.RK s.r.PC)).toNat).2 := rfl
  have hop : (s.m.f (lin s.r.RK s.r.PC)).toNat < 256 := (s.m.f (lin s.r.RK s.r.PC)).isLt
  rw [hstep] at hpc hpbr he hm hx
  have hl := instrLen_le (decode (s.m.f (lin s.r.RK s.r.PC)).toNat).2 s.r.M s.r.X
  have hsw : sweepStep ⟨s.r.M, s.r.X⟩ (codeAt s) =
      some (instrLen (decode (s.m.f (lin s.r.RK s.r.PC)).toNat).2 s.r.M s.r.X,
        match (decode (s.m.f (lin s.r.RK s.r.PC)).toNat).1 with
        | .rep => repW ⟨s.r.M, s.r.X⟩ (s.m.f (lin s.r.RK (s.r.PC + 1))).toNat
        | .sep => sepW ⟨s.r.M, s.r.X⟩ (s.m.f (lin s.r.RK (s.r.PC + 1))).toNat
        | _ => ⟨s.r.M, s.r.X⟩) := by
    simp only [sweepStep, codeAt, List.length_cons, List.length_nil, List.headD_cons]
    have hc : ¬ (0 + 1 + 1 + 1 + 1 < instrLen (decode (s.m.f (lin s.r.RK s.r.PC)).toNat).2 s.r.M s.r.X) := by omega
    simp only [hc, ↓reduceIte]
    cases (decode (s.m.f (lin s.r.RK s.r.PC)).toNat).1 <;> rfl
  refine ⟨s', _, _, e, hsw, ?_⟩
  clear hsw
  generalize hdec : decode (s.m.f (lin s.r.RK s.r.PC)).toNat = d at hst hpc hpbr he hm hx hl ⊢
  obtain ⟨mn, md⟩ := d
  simp only at hst hpc hpbr he hm hx hl ⊢
  by_cases hr : mn = .rep
  · subst hr
    have hmd : md = .imm8 := by
      have := rep_sep_mode _ hop (Or.inl (by rw [hdec]))
      rw [hdec] at this; exact this
    subst hmd
    obtain ⟨p1, p2, p3, p4, p5⟩ := WDC.exec_rep (abs s) .imm8
    have g := WDC.getP_bits (abs s)
    refine ⟨by rw [hpc, p1]; rfl, by rw [hpbr, p2]; rfl, by rw [he, p3]; exact hE, ?_⟩
    simp only [repW, W.mk.injEq]
    constructor
    · rw [hm, p4, BitVec.getLsbD_and, g.1, BitVec.getLsbD_not, testBit_div]
      show (s.r.M && (decide (5 < 8) && !_)) = _
      simp; rfl
    · rw [hx, p5, BitVec.getLsbD_and, g.2, BitVec.getLsbD_not, testBit_div]
      show (s.r.X && (decide (4 < 8) && !_)) = _
      simp; rfl
  · by_cases hs : mn = .sep
    · subst hs
      have hmd : md = .imm8 := by
        have := rep_sep_mode _ hop (Or.inr (by rw [hdec]))
        rw [hdec] at this; exact this
      subst hmd
      obtain ⟨p1, p2, p3, p4, p5⟩ := WDC.exec_sep (abs s) .imm8
      have g := WDC.getP_bits (abs s)
      refine ⟨by rw [hpc, p1]; rfl, by rw [hpbr, p2]; rfl, by rw [he, p3]; exact hE, ?_⟩
      simp only [sepW, W.mk.injEq]
      constructor
      · rw [hm, p4, BitVec.getLsbD_or, g.1, testBit_div]; rfl
      · rw [hx, p5, BitVec.getLsbD_or, g.2, testBit_div]; rfl
    · obtain ⟨q1, q2⟩ := WDC.exec_straight (abs s) mn md hst hr hs
      have q2' : (WDC.exec (abs s) mn md).PBR = (abs s).PBR ∧ (WDC.exec (abs s) mn md).E = (abs s).E ∧
          (WDC.exec (abs s) mn md).fM = (abs s).fM ∧ (WDC.exec (abs s) mn md).fX = (abs s).fX := by
        have := congrArg WDC.Ctl.pbr q2; have := congrArg WDC.Ctl.e q2
        have := congrArg WDC.Ctl.m q2; have := congrArg WDC.Ctl.x q2
        exact ⟨‹_›, ‹_›, ‹_›, ‹_›⟩
      refine ⟨by rw [hpc, q1]; rfl, by rw [hpbr, q2'.1]; rfl, by rw [he, q2'.2.1]; exact hE, ?_⟩
      have : (match mn with
              | .rep => repW ⟨s.r.M, s.r.X⟩ (s.m.f (lin s.r.RK (s.r.PC + 1))).toNat
              | .sep => sepW ⟨s.r.M, s.r.X⟩ (s.m.f (lin s.r.RK (s.r.PC + 1))).toNat
              | _ => (⟨s.r.M, s.r.X⟩ : W)) = ⟨s.r.M, s.r.X⟩ := by
        cases mn <;> first | rfl | exact absurd rfl hr | exact absurd rfl hs
      rw [this, hm, hx, q2'.2.2.1, q2'.2.2.2]; rfl

end C07
