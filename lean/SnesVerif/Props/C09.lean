/-
C09 — ROM header parse/write round-trips and fields sit at their documented offsets.

Layout, version rule and ROM constants are regenerated from /repo/header.go and /repo/rom.go (Gen/HeaderLayout.lean);
the struct walker and the four operations are modelled in Rom/Header.lean and compared with the Go code by `vh header`.
A header is `80` bytes at file offset $7FB0 (= cartridge address $FFB0); images are lists of bytes of any length ≥ 32 KiB.
-/
import SnesVerif.Rom.HeaderLemmas
open HeaderModel Gen
set_option maxRecDepth 100000

namespace C09

/-! ### facts about the regenerated layout (finite: evaluated by the kernel) -/

/-- the documented cartridge address and size of every header and vector field ($FFB0-$FFFF) -/
def documented : List (String × Nat × Nat) := [
  ("MakerCode", 0xFFB0, 2), ("GameCode", 0xFFB2, 4), ("Fixed1", 0xFFB6, 6), ("FlashSize", 0xFFBC, 1),
  ("ExpansionRAMSize", 0xFFBD, 1), ("SpecialVersion", 0xFFBE, 1), ("CoCPUType", 0xFFBF, 1),
  ("Title", 0xFFC0, 21), ("MapMode", 0xFFD5, 1), ("CartridgeType", 0xFFD6, 1), ("ROMSize", 0xFFD7, 1),
  ("RAMSize", 0xFFD8, 1), ("DestinationCode", 0xFFD9, 1), ("OldMakerCode", 0xFFDA, 1), ("MaskROMVersion", 0xFFDB, 1),
  ("ComplementCheckSum", 0xFFDC, 2), ("CheckSum", 0xFFDE, 2),
  ("NativeVectors.Unused1", 0xFFE0, 4), ("NativeVectors.COP", 0xFFE4, 2), ("NativeVectors.BRK", 0xFFE6, 2),
  ("NativeVectors.ABORT", 0xFFE8, 2), ("NativeVectors.NMI", 0xFFEA, 2), ("NativeVectors.Unused2", 0xFFEC, 2),
  ("NativeVectors.IRQ", 0xFFEE, 2),
  ("EmulatedVectors.Unused1", 0xFFF0, 4), ("EmulatedVectors.COP", 0xFFF4, 2), ("EmulatedVectors.Unused2", 0xFFF6, 2),
  ("EmulatedVectors.ABORT", 0xFFF8, 2), ("EmulatedVectors.NMI", 0xFFFA, 2), ("EmulatedVectors.RESET", 0xFFFC, 2),
  ("EmulatedVectors.IRQBRK", 0xFFFE, 2)]

/-- cumulative offsets of the walked layout -/
def offsets : List Leaf → Nat → List (String × Nat × Nat)
  | [], _ => []
  | l :: ls, off => (l.path, off, l.size) :: offsets ls (off + l.size)

/-- the walked layout places every field at its documented cartridge address, with its documented size -/
theorem layout_is_documented : offsets headerLeaves 0xFFB0 = documented := by decide

/-- the struct tags agree with the walked position -/
theorem tags_agree :
    ((offsets headerLeaves 0xFFB0).zip headerLeaves).all (fun p => p.2.tag = none ∨ p.2.tag = some p.1.2.1) = true := by decide

theorem total_is_80 : total headerLeaves = 80 := by decide
theorem read_len_is_80 : romHeaderReadLen = 80 := by decide
theorem header_inside_min_image : romHeaderOffset + 80 ≤ romMinSize := by decide
theorem header_offset : romHeaderOffset = 0x7FB0 := by decide

/-- version rules never look at a zeroed field, rule versions are the non-default ones and are written in full -/
theorem rules_facts :
    headerVersionRules.all (fun r => !headerDefaultZeroed.contains r.1 && decide (r.2.2.2 ≠ headerDefaultVersion) && decide (romV1Max < r.2.2.2)) = true
    ∧ headerDefaultVersion ≤ romV1Max
    ∧ romV1Copy = (16, 80, 16) ∧ romV2Copy = (0, 80, 0)
    ∧ zeroedBelow headerLeaves headerDefaultZeroed 16 = true := by decide

/-! ### parsing and serialising -/

theorem parse_ok (bs : List UInt8) (h : 80 ≤ bs.length) :
    ∃ vs, readStruct headerLeaves bs = some vs ∧ wfVals headerLeaves vs ∧ writeStruct headerLeaves vs = bs.take 80 ∧
      parse bs = some ⟨versionOf headerLeaves vs headerVersionRules,
        if versionOf headerLeaves vs headerVersionRules = headerDefaultVersion
        then zeroFields headerLeaves vs headerDefaultZeroed else vs⟩ := by
  obtain ⟨vs, h1, h2, h3⟩ := read_then_write headerLeaves bs (by rw [total_is_80]; exact h)
  refine ⟨vs, h1, h2, by rw [h3, total_is_80], ?_⟩
  unfold parse; rw [h1]; rfl

/-- the version is decided only by fields that zeroing does not touch -/
theorem versionOf_zeroFields (vs : List Val) (h : wfVals headerLeaves vs) :
    versionOf headerLeaves (zeroFields headerLeaves vs headerDefaultZeroed) headerVersionRules =
    versionOf headerLeaves vs headerVersionRules := by
  have key : ∀ rs : List (String × Option Nat × Nat × Nat),
      rs.all (fun r => !headerDefaultZeroed.contains r.1) = true →
      versionOf headerLeaves (zeroFields headerLeaves vs headerDefaultZeroed) rs = versionOf headerLeaves vs rs := by
    intro rs
    induction rs with
    | nil => intro _; rfl
    | cons r rs ih =>
      intro hr
      simp only [List.all_cons, Bool.and_eq_true, Bool.not_eq_true'] at hr
      have hm : ruleMatches headerLeaves (zeroFields headerLeaves vs headerDefaultZeroed) r = ruleMatches headerLeaves vs r := by
        unfold ruleMatches
        rw [getVal_zeroFields headerLeaves vs headerDefaultZeroed r.1 h hr.1]
      simp only [versionOf]
      rw [hm, ih hr.2]
  apply key
  have := rules_facts.1
  rw [List.all_eq_true] at this ⊢
  intro r hr
  have := this r hr
  simp only [Bool.and_eq_true] at this
  exact this.1.1

/-- **Serialising a parsed header yields 80 bytes that parse back to an identical header.** -/
theorem serialise_parse_idempotent (bs : List UInt8) (h : 80 ≤ bs.length) :
    ∃ hd, parse bs = some hd ∧ (serialise hd).length = 80 ∧ parse (serialise hd) = some hd := by
  obtain ⟨vs, h1, hwf, h3, hp⟩ := parse_ok bs h
  refine ⟨_, hp, ?_, ?_⟩
  · unfold serialise
    simp only
    split
    · rw [writeStruct_length _ _ (zeroFields_wf _ _ _ hwf), total_is_80]
    · rw [writeStruct_length _ _ hwf, total_is_80]
  · by_cases c : versionOf headerLeaves vs headerVersionRules = headerDefaultVersion
    · simp only [c, if_true, serialise]
      have hz := zeroFields_wf headerLeaves vs headerDefaultZeroed hwf
      have hr := write_then_read headerLeaves _ [] hz
      rw [List.append_nil] at hr
      unfold parse
      rw [hr]
      simp only [Option.map_some, versionOf_zeroFields vs hwf, c, if_true, zeroFields_idem _ _ _ hwf]
    · simp only [c, if_false, serialise]
      have hr := write_then_read headerLeaves vs [] hwf
      rw [List.append_nil] at hr
      unfold parse
      rw [hr]
      simp only [Option.map_some, c, if_false]

/-! ### the ROM image round trip -/

/-- **Reading the header and writing it back leaves the image byte-for-byte unchanged**, whatever the version. -/
theorem rom_roundtrip (img : List UInt8) (h : romMinSize ≤ img.length) :
    ∃ hd, romReadHeader img = some hd ∧ romWriteHeader img hd = img := by
  have hmin : romMinSize = 32768 := by decide
  have hoff : romHeaderOffset = 32688 := by decide
  have hlen : romHeaderReadLen = 80 := by decide
  have hbs : ((img.drop romHeaderOffset).take romHeaderReadLen).length = 80 := by
    simp [hoff, hlen]; omega
  obtain ⟨vs, h1, hwf, h3, hp⟩ := parse_ok _ (Nat.le_of_eq hbs.symm)
  rw [List.take_of_length_le (Nat.le_of_eq hbs)] at h3
  refine ⟨_, hp, ?_⟩
  obtain ⟨rf1, rf2, rf3, rf4, rf5⟩ := rules_facts
  unfold romWriteHeader copyInto
  by_cases c : versionOf headerLeaves vs headerVersionRules = headerDefaultVersion
  · -- default version: bytes 16.. of the serialised header are the original ones
    simp only [c, if_true, serialise]
    rw [if_pos rf2, rf3]
    simp only
    rw [drop_zeroFields headerLeaves vs headerDefaultZeroed 16 hwf rf5, h3]
    have e : (((img.drop romHeaderOffset).take romHeaderReadLen).drop 16) = (img.drop (romHeaderOffset + 16)).take 64 := by
      rw [hlen, List.drop_take, List.drop_drop]
    rw [e]
    have e2 : min (romHeaderOffset + 80 - (romHeaderOffset + 16)) ((img.drop (romHeaderOffset + 16)).take 64).length = 64 := by
      simp [hoff]; omega
    rw [e2, List.take_take]
    exact splice_self img (romHeaderOffset + 16) 64 (by omega)
  · -- versions 2 and 3: the whole 80 bytes are rewritten with themselves
    have hv : ¬ versionOf headerLeaves vs headerVersionRules ≤ romV1Max := by
      -- a non-default version comes from a rule, and rule versions exceed romV1Max
      have key : ∀ rs : List (String × Option Nat × Nat × Nat),
          rs.all (fun r => decide (romV1Max < r.2.2.2)) = true →
          versionOf headerLeaves vs rs = headerDefaultVersion ∨ romV1Max < versionOf headerLeaves vs rs := by
        intro rs
        induction rs with
        | nil => intro _; exact Or.inl rfl
        | cons r rs ih =>
          intro hr
          simp only [List.all_cons, Bool.and_eq_true, decide_eq_true_eq] at hr
          simp only [versionOf]
          split
          · exact Or.inr hr.1
          · exact ih hr.2
      have hall : headerVersionRules.all (fun r => decide (romV1Max < r.2.2.2)) = true := by
        rw [List.all_eq_true] at rf1 ⊢
        intro r hr
        have := rf1 r hr
        simp only [Bool.and_eq_true] at this
        exact this.2
      rcases key _ hall with e | e
      · exact absurd e c
      · omega
    simp only [c, if_false, serialise]
    rw [if_neg hv, rf4]
    simp only [Nat.add_zero, List.drop_zero]
    rw [h3]
    have e2 : min (romHeaderOffset + 80 - romHeaderOffset) ((img.drop romHeaderOffset).take romHeaderReadLen).length = 80 := by
      rw [hbs]; omega
    rw [e2, hlen, List.take_take]
    exact splice_self img romHeaderOffset 80 (by omega)

/-! ### fields at documented offsets, little-endian; locality -/

/-- every field is decoded (little-endian for scalars) from exactly the bytes at its own offset -/
theorem field_at_offset (bs : List UInt8) (vs : List Val) (name : String) (l : Leaf) (off : Nat)
    (h : readStruct headerLeaves bs = some vs) (hf : findLeaf headerLeaves name = some (l, off)) :
    getVal headerLeaves vs name = some (readLeaf l ((bs.drop off).take l.size)) :=
  getVal_bytes headerLeaves bs vs name l off h hf

/-- changing bytes outside a field's own span does not change that field: a one-byte change touches exactly the
field covering it -/
theorem field_locality (bs bs' : List UInt8) (vs vs' : List Val) (name : String) (l : Leaf) (off : Nat)
    (h : readStruct headerLeaves bs = some vs) (h' : readStruct headerLeaves bs' = some vs')
    (hf : findLeaf headerLeaves name = some (l, off))
    (hsame : (bs.drop off).take l.size = (bs'.drop off).take l.size) :
    getVal headerLeaves vs name = getVal headerLeaves vs' name := by
  rw [field_at_offset bs vs name l off h hf, field_at_offset bs' vs' name l off h' hf, hsame]

/-! ### the version rule, in terms of header bytes -/

theorem find_oldMaker : findLeaf headerLeaves "OldMakerCode" = some (⟨"OldMakerCode", 1, false, some 0xFFDA⟩, 0x2A) := by decide
theorem find_title : findLeaf headerLeaves "Title" = some (⟨"Title", 21, true, some 0xFFC0⟩, 0x10) := by decide
theorem rules_are : headerVersionRules = [("OldMakerCode", none, 0x33, 3), ("Title", some 20, 0, 2)] ∧ headerDefaultVersion = 1 := by decide

/-- version 3 exactly when the old-maker-code byte ($FFDA) is $33, otherwise 2 exactly when the last title byte
($FFD4) is zero, otherwise 1 -/
theorem version_rule (bs : List UInt8) (h : 80 ≤ bs.length) :
    ∃ hd, parse bs = some hd ∧
      hd.version = (if (bs.getD 0x2A 0).toNat = 0x33 then 3 else if (bs.getD 0x24 0).toNat = 0 then 2 else 1) := by
  obtain ⟨vs, h1, hwf, h3, hp⟩ := parse_ok bs h
  refine ⟨_, hp, ?_⟩
  simp only
  have g1 := field_at_offset bs vs "OldMakerCode" _ _ h1 find_oldMaker
  have g2 := field_at_offset bs vs "Title" _ _ h1 find_title
  rw [rules_are.1]
  simp only [versionOf, ruleMatches, g1, g2, readLeaf, Bool.false_eq_true, if_false, if_true, rules_are.2]
  have e1 : leDecode ((bs.drop 0x2A).take 1) = (bs.getD 0x2A 0).toNat := by
    have : (bs.drop 0x2A).take 1 = [bs.getD 0x2A 0] := by
      rw [List.getD_eq_getElem?_getD, List.getElem?_eq_getElem (by omega)]
      simp only [Option.getD_some]
      rw [List.drop_eq_getElem_cons (show 42 < bs.length by omega), List.take_succ_cons, List.take_zero]
    rw [this]; simp [leDecode]
  have e2 : ((bs.drop 0x10).take 21).getD 20 0 = bs.getD 0x24 0 := by
    simp only [List.getD_eq_getElem?_getD]
    rw [List.getElem?_take_of_lt (by omega), List.getElem?_drop]
  rw [e1, e2]
  simp only [beq_iff_eq]

/-- for version 1 the seven extended fields are reported as zero -/
theorem v1_fields_zero (bs : List UInt8) (h : 80 ≤ bs.length) (hd : Header) (hp : parse bs = some hd)
    (hv : hd.version = headerDefaultVersion) (name : String) (hn : headerDefaultZeroed.contains name = true)
    (l : Leaf) (off : Nat) (hf : findLeaf headerLeaves name = some (l, off)) :
    getVal headerLeaves hd.vals name = some (zeroVal l) := by
  obtain ⟨vs, h1, hwf, h3, hp'⟩ := parse_ok bs h
  rw [hp'] at hp
  simp only [Option.some.injEq] at hp
  subst hp
  simp only at hv
  simp only [hv, if_true]
  -- generic: looking up a zeroed name in zeroFields gives the zero value of its leaf
  have key : ∀ (ls : List Leaf) (ws : List Val) (off : Nat), wfVals ls ws → findLeaf ls name = some (l, off) →
      getVal ls (zeroFields ls ws headerDefaultZeroed) name = some (zeroVal l) := by
    intro ls
    induction ls with
    | nil => intro ws off _ hf; simp [findLeaf] at hf
    | cons l0 ls ih =>
      intro ws off hw hf
      cases ws with
      | nil => exact absurd hw (by simp [wfVals])
      | cons w ws =>
        simp only [findLeaf] at hf
        simp only [zeroFields, getVal]
        by_cases c : l0.path = name
        · rw [if_pos c] at hf ⊢
          simp only [Option.some.injEq, Prod.mk.injEq] at hf
          rw [c, hn, if_pos rfl, hf.1]
        · rw [if_neg c] at hf ⊢
          cases hf0 : findLeaf ls name with
          | none => rw [hf0] at hf; simp at hf
          | some p =>
            rw [hf0] at hf
            simp only [Option.map_some, Option.some.injEq, Prod.mk.injEq] at hf
            exact ih ws p.2 hw.2 (by rw [hf0, ← hf.1])
  exact key headerLeaves vs off hwf hf

/-! non-vacuity: a concrete version-3 header byte string parses -/
example : (parse ((List.replicate 0x2A (0 : UInt8)) ++ [0x33] ++ List.replicate 37 0)).map (·.version) = some 3 := by decide

end C09
