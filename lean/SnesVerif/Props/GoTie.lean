/-
The regenerated interpreters are the model — and therefore inherit its theorems.

`Gen/CpuGoPrimary.lean` and `Gen/CpuGoAlt.lean` are written by `gotolean cpugo` from emulator/cpu65c816/cpu.go and
emulator/cpualt/{cpu,bus}.go on every run (one Lean definition per Go function).  `Cpu/GoTie/*` proves each of them equal to the
corresponding routine of the hand-written model `Cpu/Impl.lean`, up to `Step()` itself.  This file states the consequences for the
properties: what C01 / C02 / C08 / C12 prove about the model holds of the code as translated.
-/
import SnesVerif.Cpu.GoTie.StepPrimary
import SnesVerif.Cpu.GoTie.StepAlt
import SnesVerif.Props.C01
import SnesVerif.Props.C02
import SnesVerif.Props.C08
import SnesVerif.Props.C12
namespace GoTie
open Cpu Gen
set_option maxRecDepth 100000

/-- `Step()` of a package as regenerated from its Go source, over that package's regenerated tables; `latch` is the value of
`cpu.Interrupt` on entry, the result is Go's `(int(cpu.Cycles), cpu.Stopped)` -/
def goStep : Variant → Nat → Ex (Nat × Bool)
  | .primary, latch => Gen.CpuGo.Primary.Step (semOf .primary) (adjOf .primary) latch
  | .alt, latch => Gen.CpuGo.Alt.Step (semOf .alt) (adjOf .alt) latch

/-- the model's `Step()` with Go's result pair -/
def modelStep (v : Variant) (latch : Nat) : Ex (Nat × Bool) := do
  stepFull v latch
  let c ← Cpu.get
  pure (c.Cycles.toNat, c.Stopped)

/-- **the tie**: for both packages, every latch value, every state and memory -/
theorem goStep_eq (v : Variant) (latch : Nat) : goStep v latch = modelStep v latch := by
  cases v
  · exact Cpu.GoTie.Primary.Step_eq latch
  · exact Cpu.GoTie.Alt.Step_eq latch

theorem modelStep_run (v : Variant) (latch : Nat) (s : St) :
    modelStep v latch s = match stepFull v latch s with
      | none => none
      | some (_, s') => some ((s'.r.Cycles.toNat, s'.r.Stopped), s') := by
  unfold modelStep
  rw [bind_eq']
  cases stepFull v latch s with
  | none => rfl
  | some p => rfl

/-- **C02 on the regenerated code**: the two packages' `Step()` are the same function of latch, registers and memory —
results, cycle counts and stop status included -/
theorem go_steps_agree (latch : Nat) : goStep .primary latch = goStep .alt latch := by
  rw [goStep_eq, goStep_eq]; unfold modelStep; rw [C02.stepFull_agree]

/-- … and routine by routine: whatever the opcode tables can name runs the same computation in both packages -/
theorem go_routines_agree (p : Proc) (hp : p ≠ .none) : Gen.CpuGo.Primary.callProc p = Gen.CpuGo.Alt.callProc p := by
  rw [Cpu.GoTie.Primary.callProc_eq p hp, Cpu.GoTie.Alt.callProc_eq p hp]

/-- **C01 on the regenerated code**: from a native-mode state with no interrupt pending, `Step()` of either package as
translated from Go executes exactly the WDC instruction (decimal ADC/SBC excluded: known finding D14) -/
theorem go_step_refines (v : Variant) (latch : Nat) (s : St) (hl : latch ≠ latchNMI v ∧ latch ≠ latchIRQ v)
    (hE : s.r.E = false) (hnd : ¬ C01.DecimalArith (abs s)) :
    ∃ r s', goStep v latch s = some (r, s') ∧ abs s' = WDC.step (abs s) := by
  obtain ⟨s', h, ha⟩ := C01.stepFull_refines v latch s hl hE hnd
  refine ⟨(s'.r.Cycles.toNat, s'.r.Stopped), s', ?_, ha⟩
  rw [goStep_eq, modelStep_run, h]

/-- **C08 on the regenerated code**: `Step()` as translated completes from every state (no bus access leaves the 24-bit space) -/
theorem go_step_total (v : Variant) (latch : Nat) (s : St) : ∃ r s', goStep v latch s = some (r, s') ∧ (WOK s → WOK s') := by
  obtain ⟨s', h, w⟩ := C08.stepFull_total v latch s
  exact ⟨(s'.r.Cycles.toNat, s'.r.Stopped), s', by rw [goStep_eq, modelStep_run, h], w⟩

/-- **C12 on the regenerated code**: the pair `Step()` returns is (cycles of this step, stop status); at least one cycle is reported,
exactly that many are added to the running total, and the stop status is the old one or-ed with "the executed instruction is STP" -/
theorem go_step_book (v : Variant) (latch : Nat) (s s' : St) (r : Nat × Bool) (h : goStep v latch s = some (r, s')) :
    r = (s'.r.Cycles.toNat, s'.r.Stopped) ∧ 1 ≤ r.1 ∧
      s'.r.AllCycles = s.r.AllCycles + s'.r.Cycles.setWidth 64 ∧
      ∃ s1, service v latch s = some ((), s1) ∧ s'.r.Stopped = (s.r.Stopped || C12.fetchesStp v s1) := by
  rw [goStep_eq, modelStep_run] at h
  cases hs : stepFull v latch s with
  | none => rw [hs] at h; cases h
  | some p =>
    obtain ⟨u, s2⟩ := p
    rw [hs] at h
    have e : r = (s2.r.Cycles.toNat, s2.r.Stopped) ∧ s' = s2 := by
      have := Option.some.inj h
      exact ⟨(Prod.mk.inj this).1.symm, (Prod.mk.inj this).2.symm⟩
    obtain ⟨e1, e2⟩ := e
    subst e2
    obtain ⟨s1, h1, b1, b2, b3⟩ := C12.stepFull_book v latch s s' hs
    exact ⟨e1, by rw [e1]; exact b1, b2, s1, h1, b3⟩

/-- `n` calls of `Step()` as translated, the latch left at `interruptNone` in between (which is where `Step` leaves it) -/
def goRun (v : Variant) : Nat → Ex Unit
  | 0 => pure ()
  | n + 1 => do let _ ← goStep v (latchNone v); goRun v n

theorem latchNone_idle (v : Variant) : latchNone v ≠ latchNMI v ∧ latchNone v ≠ latchIRQ v := by
  cases v <;> decide

/-- … are `n` steps of the model -/
theorem goRun_eq (v : Variant) (n : Nat) : goRun v n = Cpu.run v n := by
  induction n with
  | zero => rfl
  | succ n ih =>
    funext s
    show (goStep v (latchNone v) >>= fun _ => goRun v n) s = (step v >>= fun _ => Cpu.run v n) s
    rw [goStep_eq, ih, Cpu.bind_eq', Cpu.bind_eq', modelStep_run,
      Cpu.stepFull_idle v _ (latchNone_idle v).1 (latchNone_idle v).2]
    cases step v s with
    | none => rfl
    | some p => rfl

/-- **C01 along every program, on the regenerated code**: while the WDC trace stays native and meets no decimal ADC/SBC, `n` calls of
`Step()` of either package as translated are `n` steps of the WDC model (width switches and block moves included) -/
theorem go_run_refines (v : Variant) (n : Nat) (s : St) (h : ∀ k, k < n → C01.Covered (WDC.run k (abs s))) :
    ∃ s', goRun v n s = some ((), s') ∧ abs s' = WDC.run n (abs s) := by
  rw [goRun_eq]; exact C01.run_refines v n s h

/-- **C02 along every program, on the regenerated code** -/
theorem go_runs_agree (n : Nat) : goRun .primary n = goRun .alt n := by
  rw [goRun_eq, goRun_eq, C02.run_agree]

/-- `Reset()` as translated is the model's -/
theorem go_reset_eq : Gen.CpuGo.Primary.Reset = Cpu.reset ∧ Gen.CpuGo.Alt.Reset = Cpu.reset :=
  ⟨Cpu.GoTie.Primary.Reset_eq, Cpu.GoTie.Alt.Reset_eq⟩

/-- a native-mode state: registers zero, PC = $8000, E = 0, memory full of NOPs ($EA) -/
def nopState : St :=
  ⟨⟨0x8000, 0x01FF, 0, 0, 0, 0, 0, 0, 0, 0, 0, 0, false, false, true, true, false, false, false, false, false, false, 0, 0, false, 0, 0, 0, 0, 0, 0,
    .Implied⟩, ⟨fun _ => 0xEA, []⟩⟩

/-- non-vacuity: the premises of `go_step_refines` are met by a concrete state and latch value, for both packages -/
example (v : Variant) : (latchNone v ≠ latchNMI v ∧ latchNone v ≠ latchIRQ v) ∧ nopState.r.E = false ∧
    ¬ C01.DecimalArith (abs nopState) :=
  ⟨latchNone_idle v, rfl, fun h => absurd h.1 (by decide)⟩

end GoTie
