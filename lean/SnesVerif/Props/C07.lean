/-
C07 — Emitter-accepted code is decoded by the CPU at the same instruction boundaries.

Emitter side: regenerated method table + hand model (Asm/Model.lean); decoder side: the hand-written WDC matrix
(Spec/Decode.lean) and both interpreters' regenerated opcode tables.  The run-time half of the tie (`vh asm-cpu`)
emits random straight-line programs with the real Emitter and single-steps both real CPUs over the bytes.
-/
import SnesVerif.Props.C03
import SnesVerif.Props.C19
open AsmModel AsmExpect AsmLemmas Gen Spec
set_option maxRecDepth 100000

namespace C07

/-- register widths as the CPU sees them: `m8` / `x8` = the M / X flag is set -/
structure W where
  m8 : Bool
  x8 : Bool
  deriving DecidableEq, Repr

/-- the widths the assembler tracks -/
def wOf (flags : Nat) : W := ⟨!isM16 flags, !isX16 flags⟩

/-- what REP / SEP #c do to the widths of a native-mode CPU -/
def repW (w : W) (c : Nat) : W := ⟨w.m8 && !(c / 32 % 2 == 1), w.x8 && !(c / 16 % 2 == 1)⟩
def sepW (w : W) (c : Nat) : W := ⟨w.m8 || (c / 32 % 2 == 1), w.x8 || (c / 16 % 2 == 1)⟩

/-- one step of a width-tracking linear sweep with the WDC decoder: (length, widths afterwards) -/
def sweepStep (w : W) (bs : List Nat) : Option (Nat × W) :=
  match bs with
  | [] => none
  | op :: rest =>
    let len := instrLen (decode op).2 w.m8 w.x8
    if bs.length < len then none
    else some (len, match (decode op).1 with
      | .rep => repW w (rest.headD 0)
      | .sep => sepW w (rest.headD 0)
      | _ => w)

/-- the sweep: instruction start offsets and final widths (fuel = number of bytes suffices) -/
def sweep : Nat → W → List Nat → Nat → Option (List Nat × W)
  | 0, w, bs, _ => if bs = [] then some ([], w) else none
  | fuel + 1, w, bs, off =>
    if bs = [] then some ([], w)
    else match sweepStep w bs with
      | none => none
      | some (len, w') =>
        if len = 0 then none
        else (sweep fuel w' (bs.drop len) (off + len)).map (fun r => (off :: r.1, r.2))

/-! ### (2) a width mismatch can never be emitted silently -/

/-- an instruction method is refused by its guard exactly when the tracked width disagrees with its operand size -/
theorem guard_iff (g : AsmGuard) (flags : Nat) :
    guardOK g flags = guardAllows g (wOf flags).m8 (wOf flags).x8 := by
  cases g <;> simp [guardOK, guardAllows, wOf]

/-- every immediate method carries the guard matching its operand size; every other method carries none
(kernel-evaluated over the regenerated table, see `AsmLemmas.all_rows_guard_ok`) -/
theorem immediate_guarded (m : AsmMethod) (hm : m ∈ asmMethods) : rowGuardOK m = true :=
  (List.all_eq_true.mp all_rows_guard_ok) m hm

/-- a guarded call that passes the guard is emitted with exactly the length the CPU will decode at these widths;
a call that fails the guard changes nothing (it is refused before any effect) -/
theorem refused_iff_mismatch (e : Em) (m : AsmMethod) (args : List Nat) (l : String) (c : Nat)
    (hc : e.cap = some c) (hfit : e.code.length + m.bytes.length ≤ c) :
    ((ins e m args l).2 = .refused ↔ guardAllows m.guard (wOf e.flags).m8 (wOf e.flags).x8 = false) ∧
    ((ins e m args l).2 = .refused → (ins e m args l).1 = e) := by
  rw [ins_eq, ← guard_iff]
  by_cases g : guardOK m.guard e.flags
  · simp only [g, Bool.not_true, Bool.false_eq_true, if_false]
    have tf := tracked_fields e m args
    rcases emit_fields (tracked e m args) (lineKindOf m.kind (m.bytes.map (evalB args)).length)
        (m.bytes.map (evalB args)) m.ins l m.fmt (dangOf m.kind) with ⟨_, _, c', hc', hlt⟩ | ⟨h0, _⟩
    · rw [tf.2.2.1, hc] at hc'; simp at hc'; subst hc'
      rw [tf.1] at hlt; simp at hlt; omega
    · rw [h0]; simp
  · simp [g]

/-! ### (3) the tracker follows REP / SEP exactly as the CPU's M and X flags do -/

theorem and_bit (x y j : Nat) : (x &&& y) / 2 ^ j % 2 = (x / 2 ^ j % 2) &&& (y / 2 ^ j % 2) := by
  have h1 := Nat.and_div_two_pow (a := x) (b := y) (n := j)
  have h2 := Nat.and_mod_two_pow (a := x / 2 ^ j) (b := y / 2 ^ j) (n := 1)
  rw [h1]; simpa using h2

theorem or_bit (x y j : Nat) : (x ||| y) / 2 ^ j % 2 = (x / 2 ^ j % 2) ||| (y / 2 ^ j % 2) := by
  have h1 := Nat.or_div_two_pow (a := x) (b := y) (n := j)
  have h2 := Nat.or_mod_two_pow (a := x / 2 ^ j) (b := y / 2 ^ j) (n := 1)
  rw [h1]; simpa using h2

theorem bit_cases (a b : Nat) (ha : a < 2) (hb : b < 2) :
    (a &&& b = 0 ↔ a = 0 ∨ b = 0) ∧ (a ||| b = 0 ↔ a = 0 ∧ b = 0) := by
  have : a = 0 ∨ a = 1 := by omega
  have : b = 0 ∨ b = 1 := by omega
  rcases ‹a = 0 ∨ a = 1› with rfl | rfl <;> rcases ‹b = 0 ∨ b = 1› with rfl | rfl <;> decide

theorem rep_bool (X F C : Nat) (m : X = 0 ↔ (F = 0 ∨ C = 1)) : (!(X == 0)) = ((!(F == 0)) && !(C == 1)) := by
  by_cases hX : X = 0
  · rcases m.mp hX with h | h <;> simp [hX, h]
  · have h1 : ¬ F = 0 := fun h => hX (m.mpr (Or.inl h))
    have h2 : ¬ C = 1 := fun h => hX (m.mpr (Or.inr h))
    have e1 : (X == 0) = false := by simpa using hX
    have e2 : (F == 0) = false := by simpa using h1
    have e3 : (C == 1) = false := by simpa using h2
    simp [e1, e2, e3]

theorem sep_bool (X F C : Nat) (hC2 : C < 2) (m : X = 0 ↔ (F = 0 ∧ C = 0)) : (!(X == 0)) = ((!(F == 0)) || (C == 1)) := by
  by_cases hX : X = 0
  · obtain ⟨h1, h2⟩ := m.mp hX
    simp [hX, h1, h2]
  · by_cases hF : F = 0
    · have hC : C = 1 := by
        have : ¬ C = 0 := fun h => hX (m.mpr ⟨hF, h⟩)
        omega
      simp [hX, hF, hC]
    · have e1 : (X == 0) = false := by simpa using hX
      have e2 : (F == 0) = false := by simpa using hF
      simp [e1, e2]

theorem flags_bits (f : Nat) (hf : f < 256) (c : Nat) (_hc : c < 256) :
    wOf (assumeREP f c) = repW (wOf f) c ∧ wOf (assumeSEP f c) = sepW (wOf f) c ∧
    assumeREP f c < 256 ∧ assumeSEP f c < 256 := by
  have hle : assumeREP f c ≤ f := by unfold assumeREP; exact Nat.and_le_left
  refine ⟨?_, ?_, by omega, by unfold assumeSEP; exact Nat.mod_lt _ (by decide)⟩
  · unfold wOf repW isM16 isX16 assumeREP
    have a5 := and_bit f (255 - c % 256) 5
    have a4 := and_bit f (255 - c % 256) 4
    have c5 : (255 - c % 256) / 2 ^ 5 % 2 = 1 - c / 32 % 2 := by omega
    have c4 : (255 - c % 256) / 2 ^ 4 % 2 = 1 - c / 16 % 2 := by omega
    have b5 := (bit_cases (f / 2 ^ 5 % 2) ((255 - c % 256) / 2 ^ 5 % 2) (Nat.mod_lt _ (by decide)) (Nat.mod_lt _ (by decide))).1
    have b4 := (bit_cases (f / 2 ^ 4 % 2) ((255 - c % 256) / 2 ^ 4 % 2) (Nat.mod_lt _ (by decide)) (Nat.mod_lt _ (by decide))).1
    rw [← a5] at b5; rw [← a4] at b4
    simp only [Nat.reducePow] at b5 b4 c5 c4
    have m1 : (f &&& (255 - c % 256)) / 32 % 2 = 0 ↔ (f / 32 % 2 = 0 ∨ c / 32 % 2 = 1) := by rw [b5, c5]; omega
    have m2 : (f &&& (255 - c % 256)) / 16 % 2 = 0 ↔ (f / 16 % 2 = 0 ∨ c / 16 % 2 = 1) := by rw [b4, c4]; omega
    simp only [W.mk.injEq]
    exact ⟨rep_bool _ _ _ m1, rep_bool _ _ _ m2⟩
  · unfold wOf sepW isM16 isX16 assumeSEP
    have a5 := or_bit f (c % 256) 5
    have a4 := or_bit f (c % 256) 4
    have c5 : (c % 256) / 2 ^ 5 % 2 = c / 32 % 2 := by omega
    have c4 : (c % 256) / 2 ^ 4 % 2 = c / 16 % 2 := by omega
    have b5 := (bit_cases (f / 2 ^ 5 % 2) ((c % 256) / 2 ^ 5 % 2) (Nat.mod_lt _ (by decide)) (Nat.mod_lt _ (by decide))).2
    have b4 := (bit_cases (f / 2 ^ 4 % 2) ((c % 256) / 2 ^ 4 % 2) (Nat.mod_lt _ (by decide)) (Nat.mod_lt _ (by decide))).2
    rw [← a5] at b5; rw [← a4] at b4
    simp only [Nat.reducePow] at b5 b4 c5 c4
    have e5 : (f ||| c % 256) % 256 / 32 % 2 = (f ||| c % 256) / 32 % 2 := by omega
    have e4 : (f ||| c % 256) % 256 / 16 % 2 = (f ||| c % 256) / 16 % 2 := by omega
    have m1 : (f ||| c % 256) % 256 / 32 % 2 = 0 ↔ (f / 32 % 2 = 0 ∧ c / 32 % 2 = 0) := by rw [e5, b5, c5]
    have m2 : (f ||| c % 256) % 256 / 16 % 2 = 0 ↔ (f / 16 % 2 = 0 ∧ c / 16 % 2 = 0) := by rw [e4, b4, c4]
    simp only [W.mk.injEq]
    exact ⟨sep_bool _ _ _ (Nat.mod_lt _ (by decide)) m1, sep_bool _ _ _ (Nat.mod_lt _ (by decide)) m2⟩

/-! ### per-row facts needed by the sweep -/

/-- tracker updates belong to REP and SEP and to nothing else, and read the operand byte -/
def rowTrackOK (m : AsmMethod) : Bool :=
  match expect m.mnemonic m.suffix (m.params == [0]) with
  | none => false
  | some e =>
    (match e.mn with
     | .rep => m.track == .rep 0 && e.operand == .b8
     | .sep => m.track == .sep 0 && e.operand == .b8
     | _ => m.track == .none)

theorem all_rows_track_ok : asmMethods.all rowTrackOK = true := by decide +kernel

/-- **One instruction.**  If a method call is accepted by an emitter whose tracked flags are a byte, the sweep
decodes, at the tracked widths, exactly the emitted bytes as one instruction, and continues with the widths the
assembler tracks afterwards. -/
theorem sweepStep_ins (e : Em) (m : AsmMethod) (hm : m ∈ asmMethods) (args : List Nat) (l : String) (rest : List Nat)
    (hf : e.flags < 256) (hg : guardOK m.guard e.flags = true) :
    sweepStep (wOf e.flags) (m.bytes.map (evalB args) ++ rest) =
      some (m.bytes.length, wOf (tracked e m args).flags) ∧ (tracked e m args).flags < 256 ∧ 0 < m.bytes.length := by
  obtain ⟨ex, op, hex, hop, hdec, _, hbytes, _⟩ := C03.canonical_encoding m hm args
  rw [guard_iff] at hg
  obtain ⟨ex', op', hex', hop', hlen, _⟩ := C03.architectural_length m hm _ _ hg
  rw [hex] at hex'; simp only [Option.some.injEq] at hex'; subst hex'
  rw [hop] at hop'; simp only [Option.some.injEq] at hop'; subst hop'
  have htr := (List.all_eq_true.mp all_rows_track_ok) m hm
  unfold rowTrackOK at htr
  rw [hex] at htr
  simp only at htr
  have hpos : 0 < m.bytes.length := by
    have : (m.bytes.map (evalB args)).length = m.bytes.length := List.length_map ..
    rw [hbytes] at this; simp at this; omega
  rw [hbytes]
  simp only [sweepStep, List.cons_append, hdec]
  have hl2 : ¬ ((op :: (operandBytes ex.operand args ++ rest)).length < instrLen ex.mode (wOf e.flags).m8 (wOf e.flags).x8) := by
    rw [← hlen]
    have : (m.bytes.map (evalB args)).length = m.bytes.length := List.length_map ..
    rw [hbytes] at this
    simp only [List.length_cons, List.length_append] at this ⊢; omega
  rw [if_neg hl2, ← hlen]
  unfold tracked
  cases hmn : ex.mn <;> rw [hmn] at htr <;> simp only [Bool.and_eq_true, beq_iff_eq] at htr
  case rep =>
    rw [htr.1, htr.2]
    simp only [operandBytes, List.cons_append, List.nil_append, List.headD_cons]
    have hb := flags_bits e.flags hf (args.getD 0 0 % 256) (Nat.mod_lt _ (by decide))
    have e1 : assumeREP e.flags (args.getD 0 0) = assumeREP e.flags (args.getD 0 0 % 256) := by
      unfold assumeREP; rw [Nat.mod_mod]
    rw [e1]
    exact ⟨by rw [hb.1], hb.2.2.1, hpos⟩
  case sep =>
    rw [htr.1, htr.2]
    simp only [operandBytes, List.cons_append, List.nil_append, List.headD_cons]
    have hb := flags_bits e.flags hf (args.getD 0 0 % 256) (Nat.mod_lt _ (by decide))
    have e1 : assumeSEP e.flags (args.getD 0 0) = assumeSEP e.flags (args.getD 0 0 % 256) := by
      unfold assumeSEP; rw [Nat.mod_mod]
    rw [e1]
    exact ⟨by rw [hb.2.1], hb.2.2.2, hpos⟩
  all_goals (rw [htr]; exact ⟨rfl, hf, hpos⟩)

/-! ### (4) the linear sweep visits exactly the assembler's instruction starts -/

/-- histories of this property: instruction methods only (a straight-line program) -/
def insOnly : List Op → Prop
  | [] => True
  | .ins m _ _ :: os => m ∈ asmMethods ∧ insOnly os
  | _ :: _ => False

/-- the start offsets the assembler reports (Len() before each call) -/
def starts (e : Em) : List Op → List Nat
  | [] => []
  | o :: os => e.code.length :: starts (step e o).1 os

/-- **Linear sweep.**  For every accepted straight-line program, sweeping the bytes emitted after `e` with the WDC
decoder from the widths the assembler tracked at the start visits exactly the offsets the assembler reported as
instruction starts — never the middle of an operand — and ends with the widths the assembler tracks at the end. -/
theorem linear_sweep (e : Em) (ops : List Op) (c : Nat) (hc : e.cap = some c) (hlen : e.code.length ≤ c) (hf : e.flags < 256)
    (hio : insOnly ops) (hok : allAccepted e ops) (fuel : Nat) (hfuel : (run e ops).code.length - e.code.length ≤ fuel) :
    sweep fuel (wOf e.flags) ((run e ops).code.drop e.code.length) e.code.length =
      some (starts e ops, wOf (run e ops).flags) ∧ (run e ops).flags < 256 := by
  induction ops generalizing e fuel with
  | nil =>
    simp only [run, List.foldl_nil, List.drop_length, starts]
    cases fuel <;> simp [sweep, hf]
  | cons o os ih =>
    cases o with
    | ins m a l =>
      obtain ⟨hm, hio'⟩ := hio
      obtain ⟨hok1, hok'⟩ := hok
      -- the first instruction
      have hg : guardOK m.guard e.flags = true := by
        simp only [step, ins_eq] at hok1
        by_cases g : guardOK m.guard e.flags
        · exact g
        · simp [g] at hok1
      have hok1' : (ins e m a l).2 = .ok := hok1
      have hok'' : allAccepted (ins e m a l).1 os := hok'
      have hadv := C03.len_pc_advance e m a l c hc hok1'
      have hfl : (ins e m a l).1.flags = (tracked e m a).flags := by
        rw [ins_eq] at hok1' ⊢
        simp only [hg, Bool.not_true, Bool.false_eq_true, if_false] at hok1' ⊢
        rcases emit_fields (tracked e m a) (lineKindOf m.kind (m.bytes.map (evalB a)).length)
            (m.bytes.map (evalB a)) m.ins l m.fmt (dangOf m.kind) with ⟨h0, _⟩ | ⟨_, _, _, h3, _⟩
        · rw [h0] at hok1'; simp at hok1'
        · exact h3
      have hcap : (ins e m a l).1.cap = some c ∧ (ins e m a l).1.code.length ≤ c :=
        C19.step_capacity e (.ins m a l) c hc hlen
      have hrun : run e (.ins m a l :: os) = run (ins e m a l).1 os := rfl
      have hst : starts e (.ins m a l :: os) = e.code.length :: starts (ins e m a l).1 os := rfl
      generalize (ins e m a l).1 = e1 at hadv hfl hcap hok'' hrun hst
      have hcode1 : e1.code = e.code ++ m.bytes.map (evalB a) := hadv.1
      -- the rest of the program only appends
      have hrest : ∃ tail, (run e1 os).code = e1.code ++ tail := by
        have key : ∀ (x : Em) (ops : List Op), ∃ t, (run x ops).code = x.code ++ t := by
          intro x ops
          induction ops generalizing x with
          | nil => exact ⟨[], by simp [run]⟩
          | cons o os ih2 =>
            obtain ⟨t, ht⟩ := ih2 (step x o).1
            have : ∃ t0, (step x o).1.code = x.code ++ t0 := by
              cases o with
              | ins m a l =>
                simp only [step, ins_eq]
                split
                · exact ⟨[], by simp⟩
                · have tf := tracked_fields x m a
                  rcases emit_fields (tracked x m a) (lineKindOf m.kind (m.bytes.map (evalB a)).length)
                      (m.bytes.map (evalB a)) m.ins l m.fmt (dangOf m.kind) with ⟨_, h1, _⟩ | ⟨_, _, _, _, _, _, _, h8⟩
                  · rw [h1]; exact ⟨[], by simp [tf.1]⟩
                  · rcases h8 with ⟨_, h⟩ | ⟨_, _, _, h⟩
                    · exact ⟨[], by rw [h, tf.1]; simp⟩
                    · exact ⟨_, by rw [h, tf.1]⟩
              | bytes b =>
                simp only [step]
                rcases emitBytes_fields x b with ⟨_, h1, _⟩ | ⟨_, _, _, _, _, h6, _⟩
                · exact ⟨[], by rw [h1]; simp⟩
                · rcases h6 with ⟨_, h⟩ | ⟨_, _, _, h⟩
                  · exact ⟨[], by rw [h]; simp⟩
                  · exact ⟨_, h⟩
              | label n =>
                simp only [step]
                rcases label_fields x n with ⟨_, h1, _⟩ | ⟨_, _, h3, _⟩
                · exact ⟨[], by rw [h1]; simp⟩
                · exact ⟨[], by rw [h3]; simp⟩
              | comment s => exact ⟨[], by simp only [step, comment, emitBase]; (repeat' split) <;> simp⟩
              | setBase a => exact ⟨[], by simp [step, setBase]⟩
            obtain ⟨t0, ht0⟩ := this
            exact ⟨t0 ++ t, by show (run (step x o).1 os).code = _; rw [ht, ht0, List.append_assoc]⟩
        exact key e1 os
      obtain ⟨tail, htail⟩ := hrest
      rw [hrun, htail, hcode1]
      have hstep := sweepStep_ins e m hm a l tail hf hg
      have hdrop : (e.code ++ m.bytes.map (evalB a) ++ tail).drop e.code.length = m.bytes.map (evalB a) ++ tail := by
        rw [List.append_assoc, List.drop_left]
      rw [hdrop]
      have hlen1 : e1.code.length = e.code.length + m.bytes.length := hadv.2.1
      have hfuel' : (e.code ++ m.bytes.map (evalB a) ++ tail).length - e.code.length = m.bytes.length + tail.length := by
        simp only [List.length_append, List.length_map]; omega
      rw [hrun, htail, hcode1] at hfuel
      rw [hst]
      cases fuel with
      | zero => have := hstep.2.2; omega
      | succ fuel =>
        have hne : ¬ (m.bytes.map (evalB a) ++ tail = []) := by
          intro h
          have : (m.bytes.map (evalB a) ++ tail).length = 0 := by rw [h]; rfl
          rw [List.length_append, List.length_map] at this
          have := hstep.2.2; omega
        simp only [sweep, hne, if_false, hstep.1]
        rw [if_neg (by have := hstep.2.2; omega)]
        have hd2 : (m.bytes.map (evalB a) ++ tail).drop m.bytes.length = tail := by
          have : m.bytes.length = (m.bytes.map (evalB a)).length := (List.length_map ..).symm
          rw [this, List.drop_left]
        rw [hd2]
        have hpos := hstep.2.2
        have hfu : (run e1 os).code.length - e1.code.length ≤ fuel := by
          rw [htail]; simp only [List.length_append]; omega
        have ih' := ih e1 hcap.1 hcap.2 (by rw [hfl]; exact hstep.2.1) hio' hok'' fuel hfu
        rw [htail, hfl] at ih'
        have hd3 : (e1.code ++ tail).drop e1.code.length = tail := List.drop_left
        rw [hd3, hlen1] at ih'
        rw [ih'.1]
        refine ⟨?_, ih'.2⟩
        simp only [Option.map_some]
    | bytes b => exact absurd hio (by simp [insOnly])
    | label n => exact absurd hio (by simp [insOnly])
    | comment s => exact absurd hio (by simp [insOnly])
    | setBase a => exact absurd hio (by simp [insOnly])

/-! non-vacuity: SEP #$20; LDA #$12 (8-bit); REP #$30; LDX #$1234 (16-bit) is swept at offsets 0,2,4,6 -/
example : sweep 16 ⟨false, false⟩ [0xE2, 0x20, 0xA9, 0x12, 0xC2, 0x30, 0xA2, 0x34, 0x12] 0 =
    some ([0, 2, 4, 6], ⟨false, false⟩) := by decide

end C07
