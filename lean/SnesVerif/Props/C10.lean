/-
C10 — ROM bus readers/writers stay inside the addressed bank and obey io contracts.

Window arithmetic and the write guard are regenerated from /repo/rom.go (Gen/RomWin.lean); reader/writer objects are
the hand model Rom/BusIO.lean, tied to the Go code by `vh rom`.

"Up to the end of that 32 KiB bank": the code uses `pcEnd = bankBase + $7FFF` as an exclusive bound, so byte
$xx:FFFF is never exposed (observation D4 in DESIGN.md; a baseline test pins this).  The window theorem accepts
`bankBase+$7FFF ≤ pcEnd ≤ bankBase+$8000`: the current code and a later repair both prove it, anything else does not.
Hypotheses: the bank lies inside the image (`end ≤ size`, a Go slice panic otherwise) and sizes are below 2^31.
-/
import SnesVerif.Rom.Lemmas
open RomIO Gen
set_option maxRecDepth 10000

namespace C10

/-! ### the window -/

/-- what a window must look like for a bus address `a` in the ROM half of its bank -/
def GoodWindow (a : Nat) (w : Option (Nat × Nat)) : Prop :=
  match w with
  | none => False
  | some (s, e) =>
    s = a / 65536 * 32768 + (a % 65536 - 32768) ∧            -- the LoROM file offset of `a`
    a / 65536 * 32768 + 32767 ≤ e ∧ e ≤ a / 65536 * 32768 + 32768   -- the end of that 32 KiB bank

theorem reader_window (a : Nat) (ha : a < 16777216) (ho : 32768 ≤ a % 65536) :
    GoodWindow a (snes_ROM_BusReader a) := by
  unfold snes_ROM_BusReader GoodWindow
  simp only [rom_mask_ffff]
  rw [if_neg (by omega)]
  simp (disch := omega) only [Bits.or_eq_add _ _ 15, Bits.or_eq_add _ _ 16]
  omega

theorem writer_window (a : Nat) (ha : a < 16777216) (ho : 32768 ≤ a % 65536) :
    GoodWindow a (snes_ROM_BusWriter a) := by
  unfold snes_ROM_BusWriter GoodWindow
  simp only [rom_mask_ffff]
  rw [if_neg (by omega)]
  simp (disch := omega) only [Bits.or_eq_add _ _ 15, Bits.or_eq_add _ _ 16]
  omega

/-- offsets below $8000: the always-error object, for reads and for writes -/
theorem low_half_always_error (a : Nat) (ho : a % 65536 < 32768) :
    openReader a = none ∧ openWriter a = none := by
  unfold openReader openWriter snes_ROM_BusReader snes_ROM_BusWriter
  simp only [rom_mask_ffff, if_pos ho]
  exact ⟨rfl, rfl⟩

/-- reader and writer at the same address use the same window -/
theorem same_window (a : Nat) : snes_ROM_BusReader a = snes_ROM_BusWriter a := by
  unfold snes_ROM_BusReader snes_ROM_BusWriter; rfl

/-! ### the reader -/

def runReads (r : Reader) (img : Image) : List Nat → Reader × List (List UInt8 × Err)
  | [] => (r, [])
  | n :: ns =>
    let s := r.read img n
    let t := runReads s.1 img ns
    (t.1, (s.2.1, s.2.2) :: t.2)

theorem foldl_add (ns : List Nat) (a : Nat) : ns.foldl (· + ·) a = a + ns.foldl (· + ·) 0 := by
  induction ns generalizing a with
  | nil => simp
  | cons n ns ih => simp only [List.foldl_cons, Nat.zero_add]; rw [ih (a + n), ih n]; omega

def outBytes (outs : List (List UInt8 × Err)) : List UInt8 := (outs.map (·.1)).flatten

/-- one Read: at the end → (nothing, EOF); otherwise min(n, remaining) consecutive window bytes and no error -/
theorem read_step (r : Reader) (img : Image) (n : Nat) (h : r.start + r.pos ≤ r.end_) :
    (r.start + r.pos = r.end_ → r.read img n = (r, [], .eof)) ∧
    (r.start + r.pos < r.end_ →
      r.read img n = ({ r with pos := r.pos + min n (r.end_ - r.start - r.pos) },
                      slice img (r.start + r.pos) (min n (r.end_ - r.start - r.pos)), .none)) := by
  unfold Reader.read
  constructor
  · intro e; rw [if_pos (by omega)]
  · intro e; rw [if_neg (by omega)]

/-- any sequence of Reads: the bytes returned, in order, are exactly the image bytes from the current position on;
the position never passes the window end; nothing outside `[start, end)` is ever returned. -/
theorem reads_spec (r : Reader) (img : Image) (ns : List Nat) (h : r.start + r.pos ≤ r.end_) :
    let t := runReads r img ns
    t.1.start = r.start ∧ t.1.end_ = r.end_ ∧ r.pos ≤ t.1.pos ∧ r.start + t.1.pos ≤ r.end_ ∧
    outBytes t.2 = slice img (r.start + r.pos) (t.1.pos - r.pos) ∧
    t.1.pos - r.pos = min (ns.foldl (· + ·) 0) (r.end_ - r.start - r.pos) := by
  induction ns generalizing r with
  | nil => simp [runReads, outBytes, slice, h]
  | cons n ns ih =>
    have hs := read_step r img n h
    by_cases e : r.start + r.pos = r.end_
    · have h1 := hs.1 e
      simp only [runReads, h1]
      have ih' := ih r h
      simp only at ih'
      obtain ⟨a1, a2, a3, a4, a5, a6⟩ := ih'
      refine ⟨a1, a2, a3, a4, ?_, ?_⟩
      · simpa [outBytes] using a5
      · omega
    · have h1 := hs.2 (by omega)
      simp only [runReads, h1]
      have ih' := ih { r with pos := r.pos + min n (r.end_ - r.start - r.pos) } (by simp only; omega)
      simp only at ih'
      obtain ⟨a1, a2, a3, a4, a5, a6⟩ := ih'
      refine ⟨a1, a2, by omega, a4, ?_, ?_⟩
      · simp only [outBytes, List.map_cons, List.flatten_cons] at a5 ⊢
        rw [a5]
        have : (runReads { r with pos := r.pos + min n (r.end_ - r.start - r.pos) } img ns).1.pos - r.pos =
            min n (r.end_ - r.start - r.pos) +
            ((runReads { r with pos := r.pos + min n (r.end_ - r.start - r.pos) } img ns).1.pos -
              (r.pos + min n (r.end_ - r.start - r.pos))) := by omega
        rw [this, slice_append]
        congr 2
        omega
      · have e2 : List.foldl (· + ·) 0 (n :: ns) = n + List.foldl (· + ·) 0 ns := by
          simp only [List.foldl_cons, Nat.zero_add]
          exact foldl_add ns n
        rw [e2]
        omega

/-- a fresh reader over a good window yields exactly `image[pcStart : pcEnd)` and then EOF -/
theorem reader_yields_window (s e : Nat) (img : Image) (ns : List Nat) (hse : s ≤ e)
    (hall : e - s ≤ ns.foldl (· + ·) 0) :
    let t := runReads ⟨s, e, 0⟩ img ns
    outBytes t.2 = slice img s (e - s) ∧ (t.1.read img 1).2.2 = .eof := by
  have h := reads_spec ⟨s, e, 0⟩ img ns (by simp only; omega)
  simp only at h ⊢
  obtain ⟨a1, a2, a3, a4, a5, a6⟩ := h
  have hp : (runReads ⟨s, e, 0⟩ img ns).1.pos = e - s := by omega
  constructor
  · rw [a5, hp]; simp
  · unfold Reader.read
    rw [if_pos (by rw [a1, a2, hp]; simp)]

/-! ### the writer -/

def runWrites (w : Writer) (img : Image) : List (List UInt8) → Writer × Image × List (List UInt8 × Nat × Err)
  | [] => (w, img, [])
  | p :: ps =>
    let s := w.write img p
    let t := runWrites s.1 s.2.1 ps
    (t.1, t.2.1, (p, s.2.2.1, s.2.2.2) :: t.2.2)

/-- the bytes of the accepted writes, in order -/
def accepted : List (List UInt8 × Nat × Err) → List UInt8
  | [] => []
  | (p, _, e) :: rest => (if e = .none then p else []) ++ accepted rest

/-- one Write is all-or-nothing: it fits → every byte stored at `start+o`, count = len, offset advanced;
it does not fit → unexpected-EOF, nothing stored, offset unchanged. -/
theorem write_step (w : Writer) (img : Image) (p : List UInt8)
    (hw : w.start + w.o ≤ w.end_) (hsz : w.end_ < 2147483648) (hl : p.length < 2147483648) :
    (w.start + w.o + p.length ≤ w.end_ →
      w.write img p = ({ w with o := w.o + p.length }, overwrite img (w.start + w.o) p, p.length, .none)) ∧
    (w.end_ < w.start + w.o + p.length → w.write img p = (w, img, 0, .unexpectedEOF)) := by
  unfold Writer.write rom_busWriter_guard rom_busWriter_lo rom_busWriter_hi
  have e1 : (w.o + w.start) % 4294967296 = w.start + w.o := by omega
  have e2 : p.length % 4294967296 = p.length := by omega
  simp only [decide_eq_true_eq]
  constructor
  · intro hf
    have g : ¬ ((w.o + w.start) % 4294967296 + p.length % 4294967296) % 4294967296 > w.end_ := by omega
    rw [if_neg g]
    simp only [e1]
    have m : min (w.end_ - (w.start + w.o)) p.length = p.length := by omega
    rw [m, List.take_length]
    congr 2
    omega
  · intro hf
    have g : ((w.o + w.start) % 4294967296 + p.length % 4294967296) % 4294967296 > w.end_ := by omega
    rw [if_pos g]

/-- any sequence of Writes: accepted writes land contiguously from `start`, never past `end`; every byte outside the
written span keeps its value (in particular everything outside the window); each write is all-or-nothing. -/
theorem writes_spec (w : Writer) (img : Image) (ps : List (List UInt8))
    (hw : w.start + w.o ≤ w.end_) (hsz : w.end_ < 2147483648) (hl : ∀ p ∈ ps, p.length < 2147483648) :
    let t := runWrites w img ps
    t.1.start = w.start ∧ t.1.end_ = w.end_ ∧ w.o ≤ t.1.o ∧ w.start + t.1.o ≤ w.end_ ∧
    (∀ a, a < w.start + w.o ∨ w.start + t.1.o ≤ a → t.2.1 a = img a) ∧
    slice t.2.1 (w.start + w.o) (t.1.o - w.o) = accepted t.2.2 ∧
    (∀ x ∈ t.2.2, (x.2.2 = .none ∧ x.2.1 = x.1.length) ∨ (x.2.2 = .unexpectedEOF ∧ x.2.1 = 0)) := by
  induction ps generalizing w img with
  | nil => simp [runWrites, accepted, slice, hw]
  | cons p ps ih =>
    have hp : p.length < 2147483648 := hl p (List.mem_cons_self ..)
    have hl' : ∀ q ∈ ps, q.length < 2147483648 := fun q hq => hl q (List.mem_cons_of_mem _ hq)
    have hs := write_step w img p hw hsz hp
    by_cases c : w.start + w.o + p.length ≤ w.end_
    · have h1 := hs.1 c
      simp only [runWrites, h1]
      have ih' := ih { w with o := w.o + p.length } (overwrite img (w.start + w.o) p) (by simp only; omega) hsz hl'
      simp only at ih'
      obtain ⟨a1, a2, a3, a4, a5, a6, a7⟩ := ih'
      refine ⟨a1, a2, by omega, a4, ?_, ?_, ?_⟩
      · intro a ha
        rw [a5 a (by omega)]
        exact overwrite_outside img _ p a (by omega)
      · simp only [accepted, if_true]
        have : (runWrites { w with o := w.o + p.length } (overwrite img (w.start + w.o) p) ps).1.o - w.o =
            p.length + ((runWrites { w with o := w.o + p.length } (overwrite img (w.start + w.o) p) ps).1.o - (w.o + p.length)) := by omega
        rw [this, slice_append]
        have e : w.start + w.o + p.length = w.start + (w.o + p.length) := by omega
        rw [e, a6]
        congr 1
        -- the first p.length bytes are still p: later writes only touch addresses ≥ start + o + len
        exact (slice_ext _ _ _ _ (fun j hj => a5 (w.start + w.o + j) (by omega))).trans
          (slice_overwrite img (w.start + w.o) p)
      · intro x hx
        rcases List.mem_cons.mp hx with rfl | hx
        · exact Or.inl ⟨rfl, rfl⟩
        · exact a7 x hx
    · have h1 := hs.2 (by omega)
      simp only [runWrites, h1]
      have ih' := ih w img hw hsz hl'
      simp only at ih'
      obtain ⟨a1, a2, a3, a4, a5, a6, a7⟩ := ih'
      refine ⟨a1, a2, a3, a4, a5, ?_, ?_⟩
      · simp only [accepted]
        rw [if_neg (by decide)]
        simpa using a6
      · intro x hx
        rcases List.mem_cons.mp hx with rfl | hx
        · exact Or.inr ⟨rfl, rfl⟩
        · exact a7 x hx

/-- data written through a writer is what a reader at the same address returns -/
theorem write_then_read (s e : Nat) (img : Image) (ps : List (List UInt8)) (hse : s ≤ e) (hsz : e < 2147483648)
    (hl : ∀ p ∈ ps, p.length < 2147483648) (ns : List Nat) (hall : e - s ≤ ns.foldl (· + ·) 0) :
    let t := runWrites ⟨s, e, 0⟩ img ps
    let rd := runReads ⟨s, e, 0⟩ t.2.1 ns
    (outBytes rd.2).take t.1.o = accepted t.2.2 := by
  have hw := writes_spec ⟨s, e, 0⟩ img ps (by simp only; omega) hsz hl
  simp only at hw ⊢
  obtain ⟨a1, a2, a3, a4, a5, a6, a7⟩ := hw
  have hr := (reader_yields_window s e (runWrites ⟨s, e, 0⟩ img ps).2.1 ns hse hall).1
  try simp only at hr
  rw [hr, ← a6]
  show (slice _ s (e - s)).take _ = slice _ (s + 0) (_ - 0)
  unfold slice
  rw [← List.map_take, List.take_range]
  have a4' : s + (runWrites ⟨s, e, 0⟩ img ps).1.o ≤ e := a4
  congr 2
  omega

/-! non-vacuity on the regenerated code -/
example : snes_ROM_BusReader 0x00FFEA = some (0x7FEA, 0x7FFF) := by decide
example : snes_ROM_BusWriter 0x018000 = some (0x8000, 0xFFFF) := by decide
example : GoodWindow 0x00FFEA (snes_ROM_BusReader 0x00FFEA) := reader_window _ (by decide) (by decide)

end C10
