/-
C05 — each mapper's bus decoding is a well-formed image of its cartridge memory map.
-/
import SnesVerif.Map.Models
open MapSpec MapGeneric

namespace C05

/-- (a) error-with-zero or exactly one class window (ROM < $E00000, SRAM $E00000-$EFFFFF, WRAM $F50000-$F6FFFF). -/
def WellFormedImage (b2p : Nat → Nat × Bool) : Prop :=
  ∀ a, a < 16777216 → b2p a = (0, true) ∨ ∃ p, b2p a = (p, false) ∧ inClassWindow p

/-- (b) the reverse direction rejects exactly $F00000-$F4FFFF (and then returns zero). -/
def RejectsExactly (p2b : Nat → Nat × Bool) : Prop :=
  ∀ p, p < 16777216 → ((p2b p).2 = true ↔ (0xF00000 ≤ p ∧ p < 0xF50000)) ∧ ((p2b p).2 = true → (p2b p).1 = 0)

/-- (c) the console-owned parts of the map, identical for all mappers. -/
def ConsoleOwned (b2p : Nat → Nat × Bool) : Prop :=
  ∀ a, a < 16777216 →
    (wramBank (a / 65536) → b2p a = (0xF50000 + (a - 0x7E0000), false)) ∧
    (sysBank (a / 65536) → a % 65536 < 0x2000 → b2p a = (0xF50000 + a % 65536, false)) ∧
    (sysBank (a / 65536) → 0x2000 ≤ a % 65536 → a % 65536 < 0x6000 → b2p a = (0, true))

/-- (d) mapped regions are unions of 8 KiB pages; translation preserves byte order inside a page. -/
def PageOrder (f : Nat → Nat × Bool) : Prop :=
  ∀ a, a + 1 < 16777216 → a % 8192 ≠ 8191 →
    (f a).2 = (f (a + 1)).2 ∧ ((f a).2 = false → (f (a + 1)).1 = (f a).1 + 1)

/-- (e) class and linear position are those of the documented region (page) table. -/
def FollowsTable (f : Nat → Nat × Bool) (tbl : Nat → Option Nat) : Prop :=
  ∀ a, a < 16777216 → f a = pageForm tbl a

structure Holds (b2p p2b : Nat → Nat × Bool) (page pakPage : Nat → Option Nat) : Prop where
  image : WellFormedImage b2p
  rejects : RejectsExactly p2b
  console : ConsoleOwned b2p
  busOrder : PageOrder b2p
  pakOrder : PageOrder p2b
  busTable : FollowsTable b2p page
  pakTable : FollowsTable p2b pakPage

theorem of_model (M : Model) : Holds M.b2p M.p2b M.page M.pakPage :=
  ⟨wellFormedImage M, rejectsExactly M, consoleOwned M, busPageOrder M, pakPageOrder M, M.hb, M.hp⟩

theorem lorom : Holds Gen.lorom_BusAddressToPak Gen.lorom_PakAddressToBus loromPage loromPakPage := of_model MapModels.lorom
theorem hirom : Holds Gen.hirom_BusAddressToPak Gen.hirom_PakAddressToBus hiromPage hiromPakPage := of_model MapModels.hirom
theorem exhirom : Holds Gen.exhirom_BusAddressToPak Gen.exhirom_PakAddressToBus exhiromPage exhiromPakPage := of_model MapModels.exhirom
theorem sa1rom : Holds Gen.sa1rom_BusAddressToPak Gen.sa1rom_PakAddressToBus sa1romPage sa1romPakPage := of_model MapModels.sa1rom

/-- BankToLinear packs 32 KiB half banks (for every 24-bit address). -/
theorem bankToLinear (a : Nat) (h : a < 16777216) : Gen.util_BankToLinear a = a / 65536 * 32768 + a % 32768 := by
  unfold Gen.util_BankToLinear
  simp only [Gen.map_mask_7fff]
  omega

example : Gen.hirom_BusAddressToPak 0x206000 = (0xE00000, false) := by decide
example : Gen.sa1rom_BusAddressToPak 0x500000 = (0, true) := by decide

end C05
