/-
C14 — execution tracing is truthful and does not perturb execution.

Model: Cpu/Disasm.lean (`traceRec`, the structured content of one trace line of either package's disassembler),
System/RunUntil.lean (the Logger is written once per loop iteration before the target test).  Ties: `vh trace` (all
three Go disassembler entry points parsed field by field against the model; Go-side oracles against the real `Step`),
`vh run` (RunUntil with and without a Logger: identical final registers, memory, cycles; Logger.Write count).
-/
import SnesVerif.Cpu.Disasm
import SnesVerif.System.RunUntil
import SnesVerif.Props.C01
open Cpu Sys Gen
open Spec (Mode Mnem)
set_option maxRecDepth 100000
namespace C14

/-! ### tracing does not perturb execution -/

/-- everything but the Logger.Write counter -/
def strip (r : RU) : RU := { r with logs := 0 }
def stripO : Outcome → Outcome
  | .done r b => .done (strip r) b
  | .crash r => .crash (strip r)
  | .outOfFuel r => .outOfFuel (strip r)

theorem strip_eq {r r' : RU} (h : strip r = strip r') :
    r.s = r'.s ∧ r.cycles = r'.cycles ∧ r.execd = r'.execd ∧ r.onpc = r'.onpc ∧ r.wdm = r'.wdm ∧ r.latch = r'.latch := by
  unfold strip at h
  injection h with h1 h2 h3 h4 h5 h6 h7
  exact ⟨h1, h2, h4, h5, h6, h7⟩

theorem strip_logIt (b : Bool) (r : RU) : strip (logIt b r) = strip r := by cases b <;> rfl

theorem stepObs_strip (v : Variant) (cbs : List Nat) (r r' : RU) (h : strip r = strip r') :
    (stepObs v cbs r).map strip = (stepObs v cbs r').map strip := by
  obtain ⟨hs, hc, he, ho, hw, hl⟩ := strip_eq h
  unfold stepObs
  rw [hs, hc, he, ho, hw, hl]
  cases service v r'.latch r'.s with
  | none => rfl
  | some p1 =>
    obtain ⟨u, s1⟩ := p1
    simp only
    cases step v s1 with
    | none => rfl
    | some p => rfl

theorem loop_strip (v : Variant) (b b' : Bool) (cbs : List Nat) (target max : Nat) :
    ∀ fuel r r', strip r = strip r' →
      stripO (ruLoop v b cbs target max fuel r) = stripO (ruLoop v b' cbs target max fuel r') := by
  intro fuel
  induction fuel with
  | zero =>
    intro r r' h
    obtain ⟨hs, hc, _, _, _, _⟩ := strip_eq h
    rw [ruLoop, ruLoop, hs, hc]
    split
    · split
      · simp only [stripO, strip_logIt, h]
      · simp only [stripO, strip_logIt, h]
    · simp only [stripO, h]
  | succ fuel ih =>
    intro r r' h
    obtain ⟨hs, hc, _, _, _, _⟩ := strip_eq h
    rw [ruLoop, ruLoop, hs, hc]
    split
    · split
      · simp only [stripO, strip_logIt, h]
      · have hl : strip (logIt b r) = strip (logIt b' r') := by rw [strip_logIt, strip_logIt, h]
        have hso := stepObs_strip v cbs _ _ hl
        cases e1 : stepObs v cbs (logIt b r) with
        | none =>
          cases e2 : stepObs v cbs (logIt b' r') with
          | none => simp only [stripO, strip_logIt, h]
          | some q => rw [e1, e2] at hso; cases hso
        | some p =>
          cases e2 : stepObs v cbs (logIt b' r') with
          | none => rw [e1, e2] at hso; cases hso
          | some q =>
            rw [e1, e2] at hso
            exact ih p q (Option.some.inj hso)
    · simp only [stripO, h]

/-- **C14 (no perturbation)**: with and without a Logger, RunUntil yields the same result, final registers, flags,
cycle totals, memory, executed-instruction sequence and callback sequences -/
theorem logger_transparent (v : Variant) (cbs : List Nat) (target max : Nat) (s : St) :
    stripO (runUntil v true cbs target max s) = stripO (runUntil v false cbs target max s) :=
  loop_strip v true false cbs target max max _ _ rfl

/-- … also when an interrupt is pending on entry (whatever value the latch holds): the trace line is written before
the `Step` that enters the interrupt and touches neither the latch nor the processor -/
theorem logger_transparent_latched (v : Variant) (cbs : List Nat) (target max latch : Nat) (s : St) :
    stripO (runUntilL v true cbs target max latch s) = stripO (runUntilL v false cbs target max latch s) :=
  loop_strip v true false cbs target max max _ _ rfl

/-! ### what a trace line says -/

/-- per opcode: the length the disassembler computes is the WDC instruction length for the current widths, the name
printed is the WDC mnemonic, and the mode used for the operand text is the image of the WDC addressing mode -/
def rowTraceOK (r : InsRow) (d : Mnem × Mode) : Bool :=
  decide (r.name = Spec.mnemName d.1) && decide (modeOfName r.modeName = amodeOf d.2) &&
  [false, true].all fun m => [false, true].all fun x =>
    decide (r.size - adjNat (modeOfName r.modeName) m x = Spec.instrLen d.2 m x)

theorem primary_trace_rows : ∀ i, i < 256 → rowTraceOK (primary_instructions.getD i default) (Spec.decode i) = true := by
  decide +kernel
theorem alt_trace_rows : ∀ i, i < 256 → rowTraceOK (alt_instructions.getD i default) (Spec.decode i) = true := by
  decide +kernel

theorem instrLen_range (md : Mode) (m x : Bool) : 1 ≤ Spec.instrLen md m x ∧ Spec.instrLen md m x ≤ 4 := by
  cases md <;> cases m <;> cases x <;> decide

/-- the fields of the trace line of the instruction at PBR:PC, against the WDC decode of its opcode -/
theorem trace_truthful (v : Variant) (c : Regs) (f : Nat → U8) :
    let op := f (lin c.RK c.PC)
    let d := Spec.decode op.toNat
    let t := traceRec v c f
    t.bank = c.RK ∧ t.pc = c.PC ∧
    -- exactly the bytes the instruction occupies for the current register widths (wrapping inside the bank)
    t.bytes = some ((List.range (Spec.instrLen d.2 c.M c.X)).map fun k => f (lin c.RK (c.PC + BitVec.ofNat 16 k))) ∧
    -- the mnemonic
    t.name = Spec.mnemName d.1 ∧
    -- the register and flag values the instruction will see (8-bit registers shown as their low byte)
    t.a = (if c.M then (zx (lo8 (absR c f []).A), false) else ((absR c f []).A, true)) ∧
    t.x = (if c.X then (zx (lo8 (absR c f []).X), false) else ((absR c f []).X, true)) ∧
    t.y = (if c.X then (zx (lo8 (absR c f []).Y), false) else ((absR c f []).Y, true)) ∧
    t.flags = [c.N, c.V, c.M, c.X, c.D, c.I, c.Z, c.C] := by
  intro op d t
  have hrow : rowTraceOK ((tableOf v).getD op.toNat default) d = true := by
    cases v
    · exact primary_trace_rows op.toNat op.isLt
    · exact alt_trace_rows op.toNat op.isLt
  unfold rowTraceOK at hrow
  simp only [Bool.and_eq_true, decide_eq_true_eq, List.all_cons, List.all_nil, Bool.and_true] at hrow
  obtain ⟨⟨hname, hmode⟩, hlen⟩ := hrow
  have hpc0 : c.PC + BitVec.ofNat 16 0 = c.PC := by simp
  have hn : ((tableOf v).getD op.toNat default).size -
      adjNat (modeOfName ((tableOf v).getD op.toNat default).modeName) c.M c.X = Spec.instrLen d.2 c.M c.X := by
    cases hM : c.M <;> cases hX : c.X <;>
      first | exact hlen.1.1 | exact hlen.1.2 | exact hlen.2.1 | exact hlen.2.2
  have hr := instrLen_range d.2 c.M c.X
  refine ⟨rfl, rfl, ?_, ?_, ?_, ?_, ?_, rfl⟩
  · show (traceRec v c f).bytes = _
    unfold traceRec
    simp only [hpc0]
    rw [hn, if_pos hr]
  · show (traceRec v c f).name = _
    unfold traceRec
    simp only [hpc0]
    exact hname
  · show (traceRec v c f).a = _
    unfold traceRec absR srcC
    cases c.M <;> simp
  · show (traceRec v c f).x = _
    unfold traceRec absR srcX
    cases c.X <;> simp
  · show (traceRec v c f).y = _
    unfold traceRec absR srcY
    cases c.X <;> simp

/-- a relative branch shows the address the branch leads to (the PC the WDC model reaches when it is taken) -/
theorem trace_branch_dest (v : Variant) (c : Regs) (f : Nat → U8)
    (h : (Spec.decode (f (lin c.RK c.PC)).toNat).2 = .rel8) :
    (traceRec v c f).dest = some (WDC.branch (absR c f []) true).PC := by
  have hrow : rowTraceOK ((tableOf v).getD (f (lin c.RK c.PC)).toNat default) (Spec.decode (f (lin c.RK c.PC)).toNat) = true := by
    cases v
    · exact primary_trace_rows _ (f (lin c.RK c.PC)).isLt
    · exact alt_trace_rows _ (f (lin c.RK c.PC)).isLt
  unfold rowTraceOK at hrow
  simp only [Bool.and_eq_true, decide_eq_true_eq, List.all_cons, List.all_nil, Bool.and_true] at hrow
  obtain ⟨⟨_, hmode⟩, hlen⟩ := hrow
  rw [h] at hmode hlen
  have hpc0 : c.PC + BitVec.ofNat 16 0 = c.PC := by simp
  have hsz : ((tableOf v).getD (f (lin c.RK c.PC)).toNat default).size = 2 := by
    have := hlen.1.1
    rw [hmode] at this
    simpa [adjNat, amodeOf, Spec.instrLen] using this
  rw [branch_abs]
  unfold traceRec
  have hadj : adjNat AMode.PC_Relative c.M c.X = 0 := rfl
  simp only [hpc0, hmode, amodeOf, hsz, fmtMode, implInfo, ob1, hadj]
  simp
  by_cases hh : BitVec.toNat (f (lin c.RK (c.PC + 1#16))) < 128 <;> simp [hh]

/-! ### non-vacuity: one concrete trace line, evaluated by the kernel -/

/-- `BNE $FC` at $00:8010 in 8-bit mode: two bytes, mnemonic, destination $800E (backward), live 8-bit registers -/
theorem trace_example :
    (traceRec .primary { (default : Regs) with PC := 0x8010, M := true, X := true, RAl := 0x12, Cycles := 3 }
      (fun a => if a = 0x8010 then 0xD0 else if a = 0x8011 then 0xFC else 0)).canon =
      "3 00:8010|d0 fc|bne|$fc ($800e -)|A=--12 X=--00 Y=--00|--MX----" := by
  decide +kernel

end C14
