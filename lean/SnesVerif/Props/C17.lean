/-
C17 — 15-bit colour packing is lossless and MulDiv scales channels with saturation.

`Gen.color15_*` are regenerated from /repo/color15/color.go on every run.  A `Color` is a uint16 (`c < 65536`),
channels and ratio operands are uint8 (`< 256`).  Division by zero panics in Go and is excluded, exactly as the
property excludes it (`0 < d`).
-/
import SnesVerif.Color.Lemmas
open Gen ColorLemmas
set_option maxRecDepth 10000

namespace C17

/-- unpack then pack returns the colour with bit 15 clear -/
theorem pack_unpack (c : Nat) (h : c < 65536) :
    color15_ToColor15 (color15_Color_ToRGB c).1 (color15_Color_ToRGB c).2.1 (color15_Color_ToRGB c).2.2 = c % 32768 := by
  rw [toRGB_eq c h, toColor15_eq]
  simp only
  omega

/-- pack then unpack returns each channel modulo 32 -/
theorem unpack_pack (r g b : Nat) :
    color15_Color_ToRGB (color15_ToColor15 r g b) = (r % 32, g % 32, b % 32) :=
  ColorLemmas.unpack_pack r g b

/-- the saturating per-channel scale: floor(ch * m / d) limited to 31 -/
def scale (ch m d : Nat) : Nat := min 31 (ch * m / d)

/-- MulDiv scales every channel independently by `scale` -/
theorem mulDiv_channels (c m d : Nat) (hc : c < 65536) (hm : m < 256) (_hd : 0 < d) (_hd' : d < 256) :
    color15_Color_ToRGB (color15_Color_MulDiv c m d) =
      (scale (c % 32) m d, scale (c / 32 % 32) m d, scale (c / 1024 % 32) m d) := by
  have hr : c % 32 * m < 65536 := by
    have : c % 32 * m ≤ 31 * 255 := Nat.mul_le_mul (by omega) (by omega)
    omega
  have hg : c / 32 % 32 * m < 65536 := by
    have : c / 32 % 32 * m ≤ 31 * 255 := Nat.mul_le_mul (by omega) (by omega)
    omega
  have hb : c / 1024 % 32 * m < 65536 := by
    have : c / 1024 % 32 * m ≤ 31 * 255 := Nat.mul_le_mul (by omega) (by omega)
    omega
  unfold color15_Color_MulDiv scale
  rw [toRGB_eq c hc]
  simp only [Nat.mod_eq_of_lt hr, Nat.mod_eq_of_lt hg, Nat.mod_eq_of_lt hb]
  generalize c % 32 * m / d = q1
  generalize c / 32 % 32 * m / d = q2
  generalize c / 1024 % 32 * m / d = q3
  repeat' split
  all_goals (rw [ColorLemmas.unpack_pack]; simp only [Prod.mk.injEq]; omega)

/-- no result exceeds 31 per channel or sets bit 15 -/
theorem mulDiv_range (c m d : Nat) : color15_Color_MulDiv c m d < 32768 := by
  unfold color15_Color_MulDiv
  simp only
  repeat' split
  all_goals exact toColor15_lt _ _ _

theorem scale_le (ch m d : Nat) : scale ch m d ≤ 31 := by unfold scale; omega

/-- equal multiplicand and divisor is the identity on 15-bit colours -/
theorem mulDiv_identity (c m : Nat) (hc : c < 32768) (hm : 0 < m) (hm' : m < 256) :
    color15_Color_MulDiv c m m = c := by
  have h := mulDiv_channels c m m (by omega) hm' hm hm'
  have hlt := mulDiv_range c m m
  have hp := pack_unpack (color15_Color_MulDiv c m m) (by omega)
  rw [h] at hp
  simp only [scale, Nat.mul_div_cancel _ hm] at hp
  rw [toColor15_eq] at hp
  omega

/-- a larger ratio never darkens a channel: m₁/d₁ ≤ m₂/d₂ (cross-multiplied) implies scale ≤ scale -/
theorem scale_mono (ch m₁ d₁ m₂ d₂ : Nat) (hd₁ : 0 < d₁) (hd₂ : 0 < d₂) (h : m₁ * d₂ ≤ m₂ * d₁) :
    scale ch m₁ d₁ ≤ scale ch m₂ d₂ := by
  have key : ch * m₁ / d₁ ≤ ch * m₂ / d₂ := by
    rw [Nat.le_div_iff_mul_le hd₂]
    have h1 : ch * m₁ / d₁ * d₁ ≤ ch * m₁ := Nat.div_mul_le_self _ _
    have h2 : ch * m₁ / d₁ * d₂ * d₁ ≤ ch * m₂ * d₁ := by
      calc ch * m₁ / d₁ * d₂ * d₁ = ch * m₁ / d₁ * d₁ * d₂ := by
            rw [Nat.mul_assoc, Nat.mul_comm d₂ d₁, ← Nat.mul_assoc]
        _ ≤ ch * m₁ * d₂ := Nat.mul_le_mul_right _ h1
        _ = ch * (m₁ * d₂) := Nat.mul_assoc _ _ _
        _ ≤ ch * (m₂ * d₁) := Nat.mul_le_mul_left _ h
        _ = ch * m₂ * d₁ := (Nat.mul_assoc _ _ _).symm
    exact Nat.le_of_mul_le_mul_right h2 hd₁
  unfold scale
  omega

/-- luminosity is the integer mean of the three channels -/
theorem luminosity (c : Nat) (hc : c < 65536) :
    color15_Color_Luminosity c = (c % 32 + c / 32 % 32 + c / 1024 % 32) / 3 := by
  unfold color15_Color_Luminosity
  rw [toRGB_eq c hc]
  simp only
  omega

/-! non-vacuity / textbook cases (evaluated on the regenerated code) -/
example : color15_Color_MulDiv 0x7FFF 255 30 = 0x7FFF := by decide
example : color15_Color_MulDiv 0x12EF 1 2 = 2407 := by decide
example : color15_Color_ToRGB 0xFFFF = (31, 31, 31) := by decide

end C17
