/-
C03 — every Emitter instruction method emits the canonical 65816 machine encoding.

`Gen.asmMethods` is regenerated from asm/emitter.go (one row per instruction method: guard, tracker update, byte
expressions, emit kind); `AsmExpect.expect` derives from the *name* of a method the mnemonic, addressing mode and
operand form it must have; `Spec.matrix` is the hand-written WDC opcode matrix.  The theorems hold for every operand
value at once.  The Go methods themselves are additionally swept (all 8- and 16-bit operands) by `vh asm-enc`.
-/
import SnesVerif.Asm.Lemmas
open AsmModel AsmExpect AsmLemmas Gen Spec
set_option maxRecDepth 100000

namespace C03

/-- **Canonical encoding.**  For every method row and every argument list: the emitted bytes are the opcode the WDC
matrix assigns to the (mnemonic, addressing mode) the method is named after, followed by the operand in little-endian
order (destination bank then source bank for block moves); decoding that opcode with the independent WDC decoder gives
the same mnemonic and mode back. -/
theorem canonical_encoding (m : AsmMethod) (hm : m ∈ asmMethods) (args : List Nat) :
    ∃ e op, expect m.mnemonic m.suffix (m.params == [0]) = some e ∧
      opcodeOf e.mn e.mode = some op ∧ decode op = (e.mn, e.mode) ∧ op < 256 ∧
      m.bytes.map (evalB args) = op :: operandBytes e.operand args ∧
      m.params = operandParams e.operand := by
  have h := (List.all_eq_true.mp all_rows_ok) m hm
  unfold rowOK at h
  cases he : expect m.mnemonic m.suffix (m.params == [0]) with
  | none => rw [he] at h; simp at h
  | some e =>
    rw [he] at h
    simp only at h
    cases ho : opcodeOf e.mn e.mode with
    | none => rw [ho] at h; simp at h
    | some op =>
      rw [ho] at h
      simp only [Bool.and_eq_true, beq_iff_eq] at h
      obtain ⟨⟨⟨⟨hb, hp⟩, _⟩, _⟩, _⟩ := h
      have hd := opcodeOf_decode e.mn e.mode op ho
      refine ⟨e, op, rfl, ho, hd.1, hd.2, ?_, hp⟩
      rw [hb, List.map_cons, eval_operand]
      rfl

/-- **Length.**  The emitted length equals the architectural instruction length for the register widths under which
the method is legal, and both CPU interpreters decode the same length and the same mnemonic at that opcode. -/
theorem architectural_length (m : AsmMethod) (hm : m ∈ asmMethods) (m8 x8 : Bool) (hg : guardAllows m.guard m8 x8 = true) :
    ∃ e op, expect m.mnemonic m.suffix (m.params == [0]) = some e ∧ opcodeOf e.mn e.mode = some op ∧
      m.bytes.length = instrLen e.mode m8 x8 ∧
      m.bytes.length = cpuInstrLen primary_instructions op m8 x8 ∧
      m.bytes.length = cpuInstrLen alt_instructions op m8 x8 ∧
      (primary_instructions.getD op default).name = mnemName e.mn ∧
      (alt_instructions.getD op default).name = mnemName e.mn := by
  have h := (List.all_eq_true.mp all_rows_len_ok) m hm
  unfold rowLenOK at h
  cases he : expect m.mnemonic m.suffix (m.params == [0]) with
  | none => rw [he] at h; simp at h
  | some e =>
    rw [he] at h
    simp only at h
    cases ho : opcodeOf e.mn e.mode with
    | none => rw [ho] at h; simp at h
    | some op =>
      rw [ho] at h
      simp only [Bool.and_eq_true, beq_iff_eq, List.all_eq_true] at h
      obtain ⟨⟨hw, hn1⟩, hn2⟩ := h
      have := hw (m8, x8) (by cases m8 <;> cases x8 <;> simp)
      simp only [hg, Bool.not_true, Bool.false_or, Bool.and_eq_true, beq_iff_eq] at this
      exact ⟨e, op, rfl, ho, this.1.1, this.1.2, this.2, hn1, hn2⟩

/-- the operand value is recovered from its little-endian bytes (the "decodes back" half for 16- and 24-bit operands) -/
theorem operand_roundtrip16 (a : Nat) (h : a < 65536) : a % 256 + 256 * (a / 256 % 256) = a := by omega
theorem operand_roundtrip24 (a : Nat) (h : a < 16777216) :
    a % 256 + 256 * (a / 256 % 256) + 65536 * (a / 65536 % 256) = a := by omega

/-- every emitted byte is a byte -/
theorem bytes_are_bytes (m : AsmMethod) (hm : m ∈ asmMethods) (args : List Nat) :
    ∀ b ∈ m.bytes.map (evalB args), b < 256 := by
  obtain ⟨e, op, _, _, _, hop, hb, _⟩ := canonical_encoding m hm args
  rw [hb]
  intro b hbm
  rcases List.mem_cons.mp hbm with rfl | hbm
  · exact hop
  · cases ho : e.operand <;> rw [ho] at hbm <;> simp [operandBytes] at hbm <;> omega

/-- an accepted `emitN` on an emitter with a buffer appends exactly `d` and advances the address by its length -/
theorem emit_ok (e : Em) (k : LineKind) (d : List Nat) (i l f : String) (dg : Dangling) (c : Nat)
    (hc : e.cap = some c) (hok : (emit e k d i l f dg).2 = .ok) :
    (emit e k d i l f dg).1.code = e.code ++ d ∧ (emit e k d i l f dg).1.address = e.address + d.length := by
  unfold emit at hok ⊢
  cases hw : write e d with
  | none => rw [hw] at hok; simp at hok
  | some e2 =>
    rcases write_some e e2 _ hw with ⟨hn, _⟩ | ⟨c', _, _, rfl⟩
    · rw [hc] at hn; simp at hn
    · simp only [emitTail]
      cases dg <;> simp only [emitBase] <;> (repeat' split) <;> simp

/-- **Len() and PC() advance by exactly the instruction length** when the call is accepted (emitter with a buffer). -/
theorem len_pc_advance (e : Em) (m : AsmMethod) (args : List Nat) (lbl : String) (c : Nat)
    (hc : e.cap = some c) (hok : (ins e m args lbl).2 = .ok) :
    (ins e m args lbl).1.code = e.code ++ m.bytes.map (evalB args) ∧
    (ins e m args lbl).1.code.length = e.code.length + m.bytes.length ∧
    (ins e m args lbl).1.address = e.address + m.bytes.length := by
  unfold ins at hok ⊢
  by_cases g : guardOK m.guard e.flags
  · simp only [g, Bool.not_true, Bool.false_eq_true, if_false] at hok ⊢
    cases ht : m.track with
    | none =>
      rw [ht] at hok; simp only at hok ⊢
      have := emit_ok e _ _ _ _ _ _ c hc hok
      refine ⟨this.1, ?_, by rw [this.2]; simp⟩
      rw [this.1]; simp
    | rep i =>
      rw [ht] at hok; simp only at hok ⊢
      have := emit_ok { e with flags := assumeREP e.flags (args.getD i 0) } _ _ _ _ _ _ c hc hok
      refine ⟨this.1, ?_, by rw [this.2]; simp⟩
      rw [this.1]; simp
    | sep i =>
      rw [ht] at hok; simp only at hok ⊢
      have := emit_ok { e with flags := assumeSEP e.flags (args.getD i 0) } _ _ _ _ _ _ c hc hok
      refine ⟨this.1, ?_, by rw [this.2]; simp⟩
      rw [this.1]; simp
  · simp only [g, Bool.not_false, if_true] at hok
    simp at hok

/-! non-vacuity: concrete rows -/
example : (asmMethods.find? (·.name == "LDA_long")).map (fun m => m.bytes.map (evalB [0x123456])) = some [0xAF, 0x56, 0x34, 0x12] := by decide
example : (asmMethods.find? (·.name == "MVN")).map (fun m => m.bytes.map (evalB [0x7E, 0x7F])) = some [0x54, 0x7E, 0x7F] := by decide

end C03
