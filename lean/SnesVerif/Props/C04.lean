/-
C04 — PakAddressToBus is a right inverse of BusAddressToPak for every cartridge mapper.

The functions `Gen.*_BusAddressToPak` / `Gen.*_PakAddressToBus` are regenerated from /repo/mapping/*/mapping.go on
every run; a result is `(address, err)` with `err = true` meaning `util.ErrUnmappedAddress`.
-/
import SnesVerif.Map.Models
open MapSpec MapGeneric

namespace C04

/-- Clause 1: every bus address the mapper translates to `p` is sent back by `p2b` to a bus address that translates
to exactly `p` again. -/
def RightInverse (b2p p2b : Nat → Nat × Bool) : Prop :=
  ∀ b p, b < 16777216 → b2p b = (p, false) →
    ∃ b', p2b p = (b', false) ∧ b' < 16777216 ∧ b2p b' = (p, false)

/-- Clause 2: every accepted FX Pak Pro address comes back to a *mapped* bus address that designates a cell of the same
memory class (ROM / SRAM / WRAM; $F70000+ mirrors are WRAM) at the same offset within its 8 KiB page. -/
def BackTranslation (b2p p2b : Nat → Nat × Bool) : Prop :=
  ∀ p b, p < 16777216 → p2b p = (b, false) →
    b < 16777216 ∧ ∃ p', b2p b = (p', false) ∧ clsOfPak p' = clsOfPak p ∧ p' % 8192 = p % 8192

theorem lorom_rightInverse : RightInverse Gen.lorom_BusAddressToPak Gen.lorom_PakAddressToBus :=
  fun b p hb h => rightInverse MapModels.lorom b p hb h
theorem hirom_rightInverse : RightInverse Gen.hirom_BusAddressToPak Gen.hirom_PakAddressToBus :=
  fun b p hb h => rightInverse MapModels.hirom b p hb h
theorem exhirom_rightInverse : RightInverse Gen.exhirom_BusAddressToPak Gen.exhirom_PakAddressToBus :=
  fun b p hb h => rightInverse MapModels.exhirom b p hb h
theorem sa1rom_rightInverse : RightInverse Gen.sa1rom_BusAddressToPak Gen.sa1rom_PakAddressToBus :=
  fun b p hb h => rightInverse MapModels.sa1rom b p hb h

theorem lorom_backTranslation : BackTranslation Gen.lorom_BusAddressToPak Gen.lorom_PakAddressToBus :=
  fun p b hp h => backTranslation MapModels.lorom p b hp h
theorem hirom_backTranslation : BackTranslation Gen.hirom_BusAddressToPak Gen.hirom_PakAddressToBus :=
  fun p b hp h => backTranslation MapModels.hirom p b hp h
theorem exhirom_backTranslation : BackTranslation Gen.exhirom_BusAddressToPak Gen.exhirom_PakAddressToBus :=
  fun p b hp h => backTranslation MapModels.exhirom p b hp h
theorem sa1rom_backTranslation : BackTranslation Gen.sa1rom_BusAddressToPak Gen.sa1rom_PakAddressToBus :=
  fun p b hp h => backTranslation MapModels.sa1rom p b hp h

/-! Non-vacuity: concrete addresses meeting the hypotheses (evaluated on the regenerated code). -/
example : Gen.lorom_BusAddressToPak 0xFE0000 = (0xE70000, false) := by decide
example : Gen.lorom_PakAddressToBus 0xE70000 = (0xFE0000, false) := by decide
example : Gen.exhirom_BusAddressToPak 0x008000 = (0x400000, false) := by decide
example : Gen.sa1rom_PakAddressToBus 0xE12345 = (0x412345, false) := by decide

end C04
