/-
C07, composition along a whole program: the CPU executes an emitted straight-line program instruction by instruction along
the width-tracking sweep — it fetches opcodes at exactly the sweep's instruction starts and ends with the sweep's widths.

`C07.linear_sweep` (Props/C07.lean): the sweep over `Bytes()` visits exactly the assembler's instruction starts and ends with the
tracked widths.  `C07.step_follows_sweep` (Props/C07Cpu.lean): one `Step` of either interpreter at a straight-line instruction
follows one sweep step.  This file composes the two over any number of instructions, under the two premises the property leaves
implicit: the program lies inside one bank without wrapping, and it does not overwrite its own bytes while it runs
(`KeepsCode`: each executed step leaves the bytes of the program region as they were).
-/
import SnesVerif.Props.C07Cpu
open Cpu Spec
set_option maxRecDepth 100000
namespace C07

/-- the bytes `bs` sit in the program bank at offsets `PC, PC+1, …` (no wrap past $FFFF) -/
def Loaded (s : St) (bs : List Nat) : Prop :=
  s.r.PC.toNat + bs.length ≤ 65536 ∧ ∀ i, i < bs.length → (s.m.f (lin s.r.RK (s.r.PC + BitVec.ofNat 16 i))).toNat = bs.getD i 0

/-- the program counters at which the next `n` opcodes are fetched (none if a step fails) -/
def fetches (v : Variant) : Nat → St → Option (List U16 × St)
  | 0, s => some ([], s)
  | n + 1, s => match step v s with
    | none => none
    | some (_, s') => (fetches v n s').map fun r => (s.r.PC :: r.1, r.2)

/-- along the next `n` steps, no step changes a byte of the region `[lo, lo+len)` of bank `k` -/
def KeepsCode (v : Variant) (k : U8) (lo len : Nat) : Nat → St → Prop
  | 0, _ => True
  | n + 1, s => ∀ s', step v s = some ((), s') →
      (∀ j, lo ≤ j → j < lo + len → s'.m.f (k.toNat * 65536 + j) = s.m.f (k.toNat * 65536 + j)) ∧ KeepsCode v k lo len n s'

/-- every instruction the sweep meets is straight-line -/
def sweepStraight : Nat → W → List Nat → Bool
  | 0, _, _ => true
  | fuel + 1, w, bs =>
    match bs with
    | [] => true
    | op :: _ =>
      WDC.straight (decode op).1 &&
        (match sweepStep w bs with
         | none => true
         | some (len, w') => sweepStraight fuel w' (bs.drop len))

theorem lin_add (k : U8) (a : U16) (i : Nat) (h : a.toNat + i < 65536) :
    lin k (a + BitVec.ofNat 16 i) = k.toNat * 65536 + (a.toNat + i) := by
  unfold lin
  rw [BitVec.toNat_add, BitVec.toNat_ofNat]
  have := a.isLt
  omega

/-- what the sweep reads from the byte list is what it reads from memory at the program counter -/
theorem sweepStep_codeAt (s : St) (w : W) (bs : List Nat) (len : Nat) (w' : W) (hl : Loaded s bs)
    (h : sweepStep w bs = some (len, w')) : sweepStep w (codeAt s) = some (len, w') := by
  cases bs with
  | nil => simp [sweepStep] at h
  | cons op rest =>
    obtain ⟨hb, hm⟩ := hl
    have h0 : (s.m.f (lin s.r.RK s.r.PC)).toNat = op := by
      have := hm 0 (by simp)
      simpa using this
    simp only [sweepStep] at h
    split at h
    · cases h
    · rename_i hlen
      have hle := instrLen_le (decode op).2 w.m8 w.x8
      simp only [sweepStep, codeAt, List.length_cons, List.length_nil, List.headD_cons, h0]
      have hc : ¬ (0 + 1 + 1 + 1 + 1 < instrLen (decode op).2 w.m8 w.x8) := by omega
      simp only [hc, ↓reduceIte]
      have key : ((decode op).1 = .rep ∨ (decode op).1 = .sep) → (s.m.f (lin s.r.RK (s.r.PC + 1))).toNat = rest.headD 0 := by
        intro hrs
        have hop : op < 256 := by rw [← h0]; exact (s.m.f _).isLt
        have hmd := rep_sep_mode op hop hrs
        have hl2 : instrLen (decode op).2 w.m8 w.x8 = 2 := by rw [hmd]; cases w.m8 <;> cases w.x8 <;> rfl
        have hr1 : 1 < (op :: rest).length := by
          simp only [List.length_cons] at hlen ⊢; omega
        have := hm 1 hr1
        cases rest with
        | nil => simp at hr1
        | cons r rs => simpa using this
      rw [← h]
      generalize (decode op).1 = mn at key ⊢
      cases mn <;> first | rfl | (rw [key (Or.inl rfl)]) | (rw [key (Or.inr rfl)])


theorem sweepStep_len (w : W) (bs : List Nat) (len : Nat) (w' : W) (h : sweepStep w bs = some (len, w')) :
    1 ≤ len ∧ len ≤ bs.length := by
  cases bs with
  | nil => simp [sweepStep] at h
  | cons op rest =>
    simp only [sweepStep] at h
    split at h
    · cases h
    · rename_i hlen
      have e := (Prod.mk.inj (Option.some.inj h)).1
      have := instrLen_le (decode op).2 w.m8 w.x8
      omega

theorem sweep_starts_ge : ∀ (fuel : Nat) (w : W) (bs : List Nat) (off : Nat) (starts : List Nat) (wEnd : W),
    sweep fuel w bs off = some (starts, wEnd) → ∀ o ∈ starts, off ≤ o := by
  intro fuel
  induction fuel with
  | zero =>
    intro w bs off starts wEnd h o ho
    simp only [sweep] at h
    split at h
    · have := (Prod.mk.inj (Option.some.inj h)).1; subst this; cases ho
    · cases h
  | succ fuel ih =>
    intro w bs off starts wEnd h o ho
    simp only [sweep] at h
    split at h
    · have := (Prod.mk.inj (Option.some.inj h)).1; subst this; cases ho
    · cases hss : sweepStep w bs with
      | none => rw [hss] at h; cases h
      | some p =>
        obtain ⟨len, w'⟩ := p
        rw [hss] at h
        simp only at h
        split at h
        · cases h
        · cases hrest : sweep fuel w' (bs.drop len) (off + len) with
          | none => rw [hrest] at h; cases h
          | some q =>
            obtain ⟨r1, wE⟩ := q
            rw [hrest] at h
            have e1 : starts = off :: r1 := ((Prod.mk.inj (Option.some.inj h)).1).symm
            subst e1
            rcases List.mem_cons.mp ho with rfl | ho'
            · exact Nat.le_refl _
            · have := ih w' (bs.drop len) (off + len) r1 wE hrest o ho'
              omega

/-- **C07, whole program (CPU side).**  Let the sweep over the byte list `bs` succeed from widths `w` with instruction starts
`starts` and final widths `wEnd`, every instruction it meets being straight-line.  Put a native-mode CPU of either kind at the first
byte with M / X = `w`, the bytes loaded in the program bank without wrapping, and suppose the run does not overwrite the program
region.  Then `starts.length` steps all succeed, the opcodes are fetched at exactly `PC₀ + (start − off)` for the sweep's starts — never
inside an operand —, the program counter ends right behind the last byte, in the same bank, still in native mode, and M / X are `wEnd`. -/
theorem run_follows_sweep (v : Variant) (lo total : Nat) : ∀ (fuel : Nat) (w : W) (bs : List Nat) (off : Nat) (starts : List Nat) (wEnd : W) (s : St),
    sweep fuel w bs off = some (starts, wEnd) →
    sweepStraight fuel w bs = true →
    s.r.E = false → (⟨s.r.M, s.r.X⟩ : W) = w →
    Loaded s bs →
    lo ≤ s.r.PC.toNat → s.r.PC.toNat + bs.length ≤ lo + total →
    KeepsCode v s.r.RK lo total starts.length s →
    ∃ pcs s', fetches v starts.length s = some (pcs, s') ∧
      pcs = starts.map (fun o => s.r.PC + BitVec.ofNat 16 (o - off)) ∧
      s'.r.PC = s.r.PC + BitVec.ofNat 16 bs.length ∧ s'.r.RK = s.r.RK ∧ s'.r.E = false ∧ (⟨s'.r.M, s'.r.X⟩ : W) = wEnd := by
  intro fuel
  induction fuel with
  | zero =>
    intro w bs off starts wEnd s hsw _ hE hw _ _ _ _
    simp only [sweep] at hsw
    split at hsw
    · rename_i hb
      have e := Option.some.inj hsw
      have e1 : starts = [] := (Prod.mk.inj e).1.symm
      have e2 : wEnd = w := (Prod.mk.inj e).2.symm
      subst e1; subst e2; subst hb
      exact ⟨[], s, rfl, rfl, by simp, rfl, hE, hw⟩
    · cases hsw
  | succ fuel ih =>
    intro w bs off starts wEnd s hsw hst hE hw hl hlo hhi hk
    simp only [sweep] at hsw
    split at hsw
    · rename_i hb
      have e := Option.some.inj hsw
      have e1 : starts = [] := (Prod.mk.inj e).1.symm
      have e2 : wEnd = w := (Prod.mk.inj e).2.symm
      subst e1; subst e2; subst hb
      exact ⟨[], s, rfl, rfl, by simp, rfl, hE, hw⟩
    · rename_i hb
      cases hss : sweepStep w bs with
      | none => rw [hss] at hsw; cases hsw
      | some p =>
        obtain ⟨len, w'⟩ := p
        rw [hss] at hsw
        simp only at hsw
        split at hsw
        · cases hsw
        · rename_i hlen0
          cases hrest : sweep fuel w' (bs.drop len) (off + len) with
          | none => rw [hrest] at hsw; cases hsw
          | some q =>
            obtain ⟨r1, wE⟩ := q
            rw [hrest] at hsw
            have e := Option.some.inj hsw
            have e1 : starts = off :: r1 := (Prod.mk.inj e).1.symm
            have e2 : wEnd = wE := (Prod.mk.inj e).2.symm
            subst e1; subst e2
            obtain ⟨hl1, hl2⟩ := sweepStep_len w bs len w' hss
            -- the instruction under the program counter
            cases bs with
            | nil => exact absurd rfl hb
            | cons op rest =>
              have h0 : (s.m.f (lin s.r.RK s.r.PC)).toNat = op := by
                have := hl.2 0 (by simp)
                simpa using this
              simp only [sweepStraight, hss, Bool.and_eq_true] at hst
              obtain ⟨hst1, hst2⟩ := hst
              have hstr : WDC.straight (decode (s.m.f (lin s.r.RK s.r.PC)).toNat).1 = true := by rw [h0]; exact hst1
              obtain ⟨s1, len', w'', hstep, hsw1, hpc, hrk, hE1, hw1⟩ := step_follows_sweep v s hE hstr
              have hsc := sweepStep_codeAt s w (op :: rest) len w' hl (hw ▸ hss)
              rw [hw] at hsw1
              rw [hsc] at hsw1
              have el : len' = len := ((Prod.mk.inj (Option.some.inj hsw1)).1).symm
              have ew : w'' = w' := ((Prod.mk.inj (Option.some.inj hsw1)).2).symm
              subst el; subst ew
              -- the step keeps the program bytes
              simp only [KeepsCode, List.length_cons] at hk
              obtain ⟨hkeep, hk'⟩ := hk s1 hstep
              by_cases hlast : len' = (op :: rest).length
              · -- the last instruction: nothing is left to sweep
                have hd : (op :: rest).drop len' = [] := by rw [hlast]; exact List.drop_length
                rw [hd] at hrest
                have hr : r1 = [] ∧ wEnd = w'' := by
                  cases fuel with
                  | zero => simp [sweep] at hrest; exact ⟨hrest.1, hrest.2.symm⟩
                  | succ f => simp [sweep] at hrest; exact ⟨hrest.1, hrest.2.symm⟩
                have hr1 : r1 = [] := hr.1
                have hr2 : wEnd = w'' := hr.2
                subst hr1; subst hr2
                refine ⟨[s.r.PC], s1, ?_, ?_, ?_, hrk, hE1, hw1⟩
                · simp [fetches, hstep]
                · simp
                · rw [hpc, hlast]
              · have hlt0 : len' < (op :: rest).length := by omega
                have hpcn : s1.r.PC.toNat = s.r.PC.toNat + len' := by
                  rw [hpc, BitVec.toNat_add, BitVec.toNat_ofNat]
                  have := hl.1
                  omega
                have hl' : Loaded s1 ((op :: rest).drop len') := by
                  constructor
                  · rw [hpcn, List.length_drop]; have := hl.1; omega
                  · intro i hi
                    rw [List.length_drop] at hi
                    have hb1 := hl.1
                    have hlt : s.r.PC.toNat + (len' + i) < 65536 := by omega
                    have hlt' : s1.r.PC.toNat + i < 65536 := by omega
                    rw [hrk, lin_add _ _ _ hlt', hpcn]
                    have := hl.2 (len' + i) (by omega)
                    rw [lin_add _ _ _ hlt] at this
                    rw [hkeep (s.r.PC.toNat + len' + i) (by omega) (by omega)]
                    rw [show s.r.PC.toNat + len' + i = s.r.PC.toNat + (len' + i) by omega, this]
                    simp [List.getD_eq_getElem?_getD, List.getElem?_drop]
                have hlo' : lo ≤ s1.r.PC.toNat := by omega
                have hhi' : s1.r.PC.toNat + ((op :: rest).drop len').length ≤ lo + total := by
                  rw [hpcn, List.length_drop]; omega
                obtain ⟨pcs, s', hf, hp, hpc', hrk', hE', hw'⟩ :=
                  ih w'' ((op :: rest).drop len') (off + len') r1 wEnd s1 hrest hst2 hE1 hw1 hl' hlo' hhi' (hrk ▸ hk')
                refine ⟨s.r.PC :: pcs, s', ?_, ?_, ?_, by rw [hrk', hrk], hE', hw'⟩
                · simp only [fetches, List.length_cons, hstep, hf, Option.map_some]
                · rw [hp]
                  simp only [List.map_cons, Nat.sub_self]
                  congr 1
                  · simp
                  · apply List.map_congr_left
                    intro o ho
                    have hge := sweep_starts_ge fuel w'' ((op :: rest).drop len') (off + len') r1 wEnd hrest o ho
                    rw [hpc]
                    apply BitVec.eq_of_toNat_eq
                    simp only [BitVec.toNat_add, BitVec.toNat_ofNat]
                    have e : o - off = len' + (o - (off + len')) := by omega
                    rw [e]
                    omega
                · rw [hpc', hpc, List.length_drop]
                  apply BitVec.eq_of_toNat_eq
                  simp only [BitVec.toNat_add, BitVec.toNat_ofNat]
                  have := hl.1
                  omega


/-- **C07, assembler and CPU together.**  Emit any accepted sequence of instruction methods into a fresh emitter (tracked flags
`e.flags`, nothing emitted yet); load `Bytes()` anywhere in a bank (no wrap) and start a native-mode CPU of either kind at the first
byte with M / X as the assembler was told to assume.  If every emitted instruction is straight-line and the run does not overwrite the
program, the CPU fetches its opcodes at exactly the addresses the assembler reported as instruction starts (`starts`: the `PC()` values
before each call, relative to the base), and after the last instruction M / X are exactly the widths the assembler tracks. -/
theorem emitted_program_runs (v : Variant) (e : AsmModel.Em) (ops : List AsmModel.Op) (c : Nat) (hc : e.cap = some c) (he0 : e.code = [])
    (hf : e.flags < 256) (hio : insOnly ops) (hok : AsmModel.allAccepted e ops) (s : St)
    (hlen : (AsmModel.run e ops).code.length ≤ 65536)
    (hst : sweepStraight (AsmModel.run e ops).code.length (wOf e.flags) (AsmModel.run e ops).code = true)
    (hE : s.r.E = false) (hw : (⟨s.r.M, s.r.X⟩ : W) = wOf e.flags) (hl : Loaded s (AsmModel.run e ops).code)
    (hk : KeepsCode v s.r.RK s.r.PC.toNat (AsmModel.run e ops).code.length (starts e ops).length s) :
    ∃ pcs s', fetches v (starts e ops).length s = some (pcs, s') ∧
      pcs = (starts e ops).map (fun o => s.r.PC + BitVec.ofNat 16 o) ∧
      s'.r.PC = s.r.PC + BitVec.ofNat 16 (AsmModel.run e ops).code.length ∧ s'.r.RK = s.r.RK ∧ s'.r.E = false ∧
      (⟨s'.r.M, s'.r.X⟩ : W) = wOf (AsmModel.run e ops).flags := by
  have h0 : e.code.length = 0 := by rw [he0]; rfl
  have hls := (linear_sweep e ops c hc (by rw [h0]; exact Nat.zero_le _) hf hio hok (AsmModel.run e ops).code.length (by omega)).1
  rw [h0, List.drop_zero] at hls
  obtain ⟨pcs, s', h1, h2, h3⟩ :=
    run_follows_sweep v s.r.PC.toNat (AsmModel.run e ops).code.length _ _ _ 0 _ _ s hls hst hE hw hl (Nat.le_refl _) (Nat.le_refl _) hk
  exact ⟨pcs, s', h1, by simpa using h2, h3⟩

/-- non-vacuity of the premises: a two-instruction program (`REP #$30 ; NOP`) sweeps from 8-bit widths to 16-bit widths, is
straight-line, and is `Loaded` in a memory that holds it at $00:8000 -/
example : sweep 3 ⟨true, true⟩ [0xC2, 0x30, 0xEA] 0 = some ([0, 2], ⟨false, false⟩) ∧
    sweepStraight 3 ⟨true, true⟩ [0xC2, 0x30, 0xEA] = true := by decide

end C07
