-- This module serves as the root of the `SnesVerif` library.
-- Import modules here that should be built as part of the library.
import SnesVerif.Basic
