/-
Axiom audit: for every theorem declared in the given modules, print the axioms it depends on.
usage: lake env lean --run Audit.lean Module1 Module2 ...
Output: one line per theorem:  AUDIT <module> <name> : ax1 ax2 ...
-/
import Lean
open Lean

unsafe def main (args : List String) : IO UInt32 := do
  initSearchPath (← findSysroot)
  unsafe enableInitializersExecution
  let mods := args.map (fun s => s.toName)
  let env ← importModules (mods.toArray.map (fun m => {module := m})) {} (trustLevel := 1024) (loadExts := true)
  let mut n := 0
  for m in mods do
    let some idx := env.getModuleIdx? m | throw (IO.userError s!"module {m} not found")
    let mut names : Array Name := #[]
    for (c, ci) in env.constants.map₁.toList do
      if env.getModuleIdxFor? c == some idx then
        match ci with
        | .thmInfo _ => if !c.isInternal then names := names.push c
        | _ => pure ()
    for c in names.qsort (fun a b => a.toString < b.toString) do
      let ctx : Core.Context := {fileName := "<audit>", fileMap := default}
      let (axs, _) ← (collectAxioms c : CoreM (Array Name)).toIO ctx {env}
      n := n + 1
      IO.println s!"AUDIT {m} {c} : {" ".intercalate (axs.toList.map toString)}"
  IO.println s!"AUDIT-DONE {n}"
  return 0
