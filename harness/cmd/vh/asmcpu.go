package main

import (
	"fmt"
	"strings"

	"github.com/alttpo/snes/asm"

	"verifharness/internal/cpuh"
	"verifharness/internal/prng"
	"verifharness/internal/report"
)

func init() { components["asm-cpu"] = func(string) { runAsmCPU() } }

// methods that transfer control, restore flags from the stack, or repeat (block move): not "straight-line"
var notStraight = map[string]bool{
	"JSR_abs": true, "JSL": true, "JSL_lhb": true, "JML": true, "RTS": true, "RTL": true, "RTI": true,
	"BNE_imm8": true, "BNE": true, "BEQ_imm8": true, "BEQ": true, "BPL_imm8": true, "BPL": true, "BMI": true, "BCC": true, "BCS": true,
	"BRA_imm8": true, "BRA": true, "JMP_abs": true, "JMP_abs_imm16_w": true, "JMP_indirect": true, "PLP": true, "MVN": true,
}

type acProg struct {
	initFlags uint8 // assumed widths at the start (bits $20 / $10)
	calls     []asmOp
	assume    []int // index into calls before which AssumeREP(-)/AssumeSEP(+) ... encoded in asmOp kind 'R'/'P'
	split     int   // > 0: the calls from this index on go into a Clone of the emitter, which is appended back at the end
}

func (p acProg) String() string {
	ss := []string{fmt.Sprintf("asm-cpu init=%02x split=%d", p.initFlags, p.split)}
	for _, o := range p.calls {
		ss = append(ss, o.String())
	}
	return strings.Join(ss, ";")
}

const acBank = 0xC0

// runProg assembles with the real Emitter and single-steps both real CPUs; returns a complaint or "".
func runProg(p acProg, rep *report.Report) (complaint string, steps int) {
	e := asm.NewEmitter(make([]byte, 4096), false)
	base := uint32(acBank)<<16 | 0x8000
	e.SetBase(base)
	e.AssumeSEP(asm.Flags(p.initFlags & 0x30))
	e.AssumeREP(asm.Flags(^p.initFlags & 0x30))
	var starts []uint32
	root := e
	for i, o := range p.calls {
		if p.split > 0 && i == p.split {
			e = root.Clone(make([]byte, 4096)) // the program is continued in a clone (C16) and appended back below
		}
		pc := e.PC()
		switch o.kind {
		case 'I':
			if callMethod(e, *o.m, o.args, o.label) {
				rep.Count("asm-cpu: call refused by width guard")
				continue // refused by a width guard: nothing emitted
			}
			starts = append(starts, pc)
		}
	}
	if e != root {
		root.Append(e)
		e = root
	}
	end := e.PC()
	code := e.Bytes()
	for _, variant := range []string{"primary", "alt"} {
		mem := cpuh.NewMem(uint64(p.initFlags) + 99)
		for i, b := range code {
			mem.Ovl[base+uint32(i)] = b
		}
		r := cpuh.Regs{PC: 0x8000, RK: acBank, SP: 0x01FF, M: (p.initFlags >> 5) & 1, X: (p.initFlags >> 4) & 1, RDBR: 0x7E}
		var step func() (int, bool, string)
		var get func() cpuh.Regs
		if variant == "primary" {
			c := cpuh.NewPrimary(mem)
			c.Set(r)
			step, get = c.Step, c.Get
		} else {
			c := cpuh.NewAlt(mem)
			c.Set(r)
			step, get = c.Step, c.Get
		}
		for i := 0; i < len(starts); i++ {
			g := get()
			pc := uint32(g.RK)<<16 | uint32(g.PC)
			if pc != starts[i] {
				return fmt.Sprintf("%s: instruction %d: CPU fetches at %06x, assembler reported the start %06x", variant, i, pc, starts[i]), steps
			}
			if _, _, pn := step(); pn != "" {
				return fmt.Sprintf("%s: instruction %d at %06x: panic %s", variant, i, pc, pn), steps
			}
			steps++
		}
		g := get()
		if pc := uint32(g.RK)<<16 | uint32(g.PC); pc != end {
			return fmt.Sprintf("%s: after the last instruction the CPU is at %06x, the assembler at %06x", variant, pc, end), steps
		}
		if (g.M == 0) != e.IsM16bit() || (g.X == 0) != e.IsX16bit() {
			return fmt.Sprintf("%s: final widths differ: CPU M=%d X=%d, assembler m16=%v x16=%v", variant, g.M, g.X, e.IsM16bit(), e.IsX16bit()), steps
		}
	}
	return "", steps
}

func genProg(r *prng.R, ms []asmMethod) acProg {
	p := acProg{initFlags: uint8(r.N(4)) << 4}
	n := 1 + r.N(24)
	var pool []int
	for i, m := range ms {
		if !notStraight[m.name] && !(len(m.widths) == 1 && m.widths[0] == 0) {
			pool = append(pool, i)
		}
	}
	var repI, sepI int
	for i := range ms {
		if ms[i].name == "REP" {
			repI = i
		}
		if ms[i].name == "SEP" {
			sepI = i
		}
	}
	for i := 0; i < n; i++ {
		if r.Chance(18) {
			k := []int{repI, sepI}[r.N(2)]
			mask := []uint32{0x10, 0x20, 0x30, 0x00, 0x31, 0xFF & uint32(r.U8())}[r.N(6)]
			// keep D clear and avoid touching I needlessly: decimal mode is irrelevant to lengths but harmless
			p.calls = append(p.calls, asmOp{kind: 'I', m: &ms[k], args: []uint32{mask}})
			continue
		}
		m := &ms[pool[r.N(len(pool))]]
		args := make([]uint32, len(m.widths))
		for j, w := range m.widths {
			args[j] = r.U32()
			if w == 32 {
				// long operands: keep stores away from the program bank so that the program cannot modify itself
				args[j] = (args[j] & 0xFFFF) | 0x7E0000
			}
		}
		p.calls = append(p.calls, asmOp{kind: 'I', m: m, args: args})
	}
	if r.Chance(25) && len(p.calls) > 1 {
		p.split = 1 + r.N(len(p.calls)-1)
	}
	return p
}

func runAsmCPU() {
	rep := report.New("asm-cpu", tier, seed)
	ms := asmMethods()
	n := 6000
	if tier == "thorough" {
		n = 150000
	}
	r := prng.New(seed)
	distinct := map[string]bool{}
	var total int64
	for i := 0; i < n; i++ {
		p := genProg(r.Fork(), ms)
		msg, steps := runProg(p, rep)
		total += int64(steps)
		sh := fmt.Sprintf("%02x", p.initFlags)
		for _, o := range p.calls {
			sh += o.m.name[:3]
		}
		distinct[sh] = true
		if i%800 == 0 {
			rep.Sample(p.String())
		}
		if msg != "" {
			// shrink: drop calls while the complaint persists
			for changed := true; changed; {
				changed = false
				for k := 0; k < len(p.calls); k++ {
					q := acProg{p.initFlags, append(append([]asmOp{}, p.calls[:k]...), p.calls[k+1:]...), nil, p.split}
					if q.split > k {
						q.split--
					}
					if q.split >= len(q.calls) {
						q.split = 0
					}
					if m2, _ := runProg(q, rep); m2 != "" {
						p, msg, changed = q, m2, true
						k--
					}
				}
			}
			rep.Add(report.Finding{Property: "C07", Kind: "violation", Clause: "CPU fetches opcodes exactly at the assembler's instruction starts and ends with the tracked widths: " + msg, Input: p.String()})
		}
	}
	rep.Evaluations = total
	rep.Distinct = int64(len(distinct))
	rep.CountN("programs", int64(n))
	rep.Rule = "random straight-line programs of 1..24 calls (a quarter of them continued in a Clone and appended back) over every non-transferring instruction method (by reflection) with REP/SEP interleavings and all four initial width assumptions, " +
		"assembled by the real Emitter at $C0:8000 and single-stepped on both real CPUs (whole bus mapped); compared: PC before every Step with the recorded PC(), final M/X with IsM16bit/IsX16bit. " +
		"evaluations = CPU steps; distinct_nontrivial = distinct (initial widths, mnemonic sequence)"
	rep.Emit()
}
