package main

import (
	"fmt"
	"strconv"
	"strings"

	"github.com/alttpo/snes/asm"

	"verifharness/internal/cpuh"
	"verifharness/internal/prng"
	"verifharness/internal/report"
)

func init() { components["asm-cpu"] = func(string) { runAsmCPU() } }

// methods that transfer control, restore flags from the stack, or repeat (block move): not "straight-line"
var notStraight = map[string]bool{
	"JSR_abs": true, "JSL": true, "JSL_lhb": true, "JML": true, "RTS": true, "RTL": true, "RTI": true,
	"BNE_imm8": true, "BNE": true, "BEQ_imm8": true, "BEQ": true, "BPL_imm8": true, "BPL": true, "BMI": true, "BCC": true, "BCS": true,
	"BRA_imm8": true, "BRA": true, "JMP_abs": true, "JMP_abs_imm16_w": true, "JMP_indirect": true, "PLP": true, "MVN": true,
}

// A program is a list of calls:
//
//	I  an instruction method (by reflection)
//	L  Label(name)
//	J  a conditional branch to a label (defined earlier or later) that is provably NOT taken at run time: the flag the branch
//	   tests is set the other way by the call(s) emitted right before it (args[0] = style of that setter, args[1] = width bits
//	   merged into a REP/SEP setter); setter and branch are one unit so that shrinking cannot turn it into a taken branch
//	R  REP given as raw bytes (EmitBytes C2 mm) followed by AssumeREP(mm): the assembler is told about a width change that
//	P  SEP likewise (E2 mm, AssumeSEP(mm))                                  it did not emit itself
//	D  side clones of the emitter in use (sub = the calls made on each; addr = k > 0: clone k is appended back, 0: all of them
//	   are dropped; args[0] odd: all clones are taken before any is used; args[1] odd: a kept clone's target is just as large
//	   as the room left in its original): a clone that changes widths (REP / SEP / raw bytes + Assume / r, s = AssumeREP,
//	   AssumeSEP alone) and is abandoned, second and third clones of the same original; the program goes on in the original
type acProg struct {
	initFlags uint8 // assumed widths at the start (bits $20 / $10)
	calls     []asmOp
	assume    []int // unused (kept for positional literals)
	split     int   // > 0: the calls from this index on go into a Clone of the emitter, which is appended back at the end
	cap       int   // size of the target buffer (acAmple unless the program is meant to fill it up)
	ccap      int   // size of the clone's target when split > 0
}

const acAmple = 4096

func (p acProg) String() string {
	ss := []string{fmt.Sprintf("asm-cpu init=%02x split=%d cap=%d ccap=%d", p.initFlags, p.split, p.cap, p.ccap)}
	for _, o := range p.calls {
		ss = append(ss, o.String())
	}
	return strings.Join(ss, ";")
}

const acBank = 0xC0

// notTaken: for each conditional branch with a label operand, the processor flag it tests and the value under which it falls
// through (WDC: BCC branches on C=0, BCS on C=1, BNE on Z=0, BEQ on Z=1, BPL on N=0, BMI on N=1)
var notTaken = map[string]struct {
	bit byte // P bit of the tested flag
	set bool // the branch falls through when the flag is set
}{
	"BCC": {0x01, true}, "BCS": {0x01, false}, "BNE": {0x02, true}, "BEQ": {0x02, false}, "BPL": {0x80, true}, "BMI": {0x80, false},
}

// widthDependent: the WDC immediates whose operand size follows M (accumulator group) or X (index group); from the method name
func widthDependent(name string) (dep bool, wide bool, index bool) {
	k := strings.Index(name, "_imm")
	if k < 0 {
		return
	}
	switch name[:k] {
	case "ADC", "AND", "BIT", "CMP", "EOR", "LDA", "ORA", "SBC":
	case "CPX", "CPY", "LDX", "LDY":
		index = true
	default:
		return
	}
	switch name[k:] {
	case "_imm8_b":
		return true, false, index
	case "_imm16_w", "_imm16_lh":
		return true, true, index
	}
	return
}

func findMethod(ms []asmMethod, n string) *asmMethod {
	for i := range ms {
		if ms[i].name == n {
			return &ms[i]
		}
	}
	return nil
}

// acCall: one emitter call; the J / R / P units expand into several
type acCall struct {
	kind  byte // 'I' method, 'L' label, 'B' raw bytes, 'r' AssumeREP, 's' AssumeSEP
	m     *asmMethod
	args  []uint32
	label string
	data  []byte
	mask  uint8
}

func expandOp(o asmOp, ms []asmMethod) []acCall {
	switch o.kind {
	case 'I':
		return []acCall{{kind: 'I', m: o.m, args: o.args, label: o.label}}
	case 'L':
		return []acCall{{kind: 'L', label: o.label}}
	case 'R':
		return []acCall{{kind: 'B', data: []byte{0xC2, byte(o.addr)}}, {kind: 'r', mask: byte(o.addr)}}
	case 'P':
		return []acCall{{kind: 'B', data: []byte{0xE2, byte(o.addr)}}, {kind: 's', mask: byte(o.addr)}}
	case 'r', 's':
		return []acCall{{kind: o.kind, mask: byte(o.addr)}}
	case 'J':
		nt, ok := notTaken[o.m.name]
		if !ok {
			return nil
		}
		var cs []acCall
		style, extra := o.args[0], o.args[1]&0x30
		switch {
		case style == 0:
			// REP / SEP with the tested flag's bit (and possibly width bits) in the mask
			nm := "REP"
			if nt.set {
				nm = "SEP"
			}
			cs = append(cs, acCall{kind: 'I', m: findMethod(ms, nm), args: []uint32{uint32(nt.bit) | extra}})
		case nt.bit == 0x01 && !nt.set:
			cs = append(cs, acCall{kind: 'I', m: findMethod(ms, "CLC")})
		case nt.bit == 0x01:
			// CMP #0 always sets the carry; both operand sizes are offered, the width guard lets exactly one through
			cs = append(cs, acCall{kind: 'I', m: findMethod(ms, "CMP_imm8_b"), args: []uint32{0}}, acCall{kind: 'I', m: findMethod(ms, "CMP_imm16_w"), args: []uint32{0}})
		default:
			// a load immediate sets N and Z from its operand; both operand sizes are offered
			reg := []string{"LDA", "LDX", "LDY"}[style%3]
			v8, v16 := uint32(1), uint32(1) // Z=0, N=0
			if nt.bit == 0x02 && nt.set {
				v8, v16 = 0, 0 // Z=1
			}
			if nt.bit == 0x80 && nt.set {
				v8, v16 = 0x80, 0x8000 // N=1
			}
			cs = append(cs, acCall{kind: 'I', m: findMethod(ms, reg+"_imm8_b"), args: []uint32{v8}}, acCall{kind: 'I', m: findMethod(ms, reg+"_imm16_w"), args: []uint32{v16}})
		}
		for _, c := range cs {
			if c.m == nil {
				return nil
			}
		}
		return append(cs, acCall{kind: 'I', m: o.m, label: o.label})
	}
	return nil
}

// acEm: one emitter of a program, with what the harness knows about it
type acEm struct {
	e      *asm.Emitter
	cap    int      // size of its target
	starts []uint32 // PC() before every accepted instruction (and raw REP/SEP) it holds, own calls and appended clones
}

// runProg assembles with the real Emitter and single-steps both real CPUs; returns a complaint or "".
func runProg(p acProg, ms []asmMethod, rep *report.Report) (complaint string, steps int) {
	if p.cap < 0 {
		p.cap = acAmple
	}
	if p.ccap < 0 {
		p.ccap = acAmple
	}
	root := &acEm{e: asm.NewEmitter(make([]byte, p.cap), false), cap: p.cap}
	base := uint32(acBank)<<16 | 0x8000
	root.e.SetBase(base)
	root.e.AssumeSEP(asm.Flags(p.initFlags & 0x30))
	root.e.AssumeREP(asm.Flags(^p.initFlags & 0x30))
	labelled, dropped := false, false
	// one emitter call.  full: it was refused because the target has no room for it (the caller recovers and goes on with
	// something shorter); the rest of a unit is then left out (a branch must not lose the call that makes it fall through)
	call := func(em *acEm, c acCall) (full bool) {
		e := em.e
		pc := e.PC()
		room := em.cap - e.Len()
		switch c.kind {
		case 'I':
			if (c.m.name == "REP" || c.m.name == "SEP") && room < 2 {
				// a REP / SEP that is refused for lack of room has changed the tracked widths all the same (noted in DESIGN.md; no
				// property lists the tracked flags among what a refused call leaves alone): not attempted
				rep.Count("asm-cpu: REP/SEP left out, no room")
				return true
			}
			m16, x16 := e.IsM16bit(), e.IsX16bit()
			// does the call fit?  Its length under the tracked widths, from an emitter with plenty of room
			need := -1
			fresh := asm.NewEmitter(make([]byte, 8), false)
			fresh.AssumeSEP(e.Flags())
			fresh.AssumeREP(^e.Flags())
			if !callMethod(fresh, *c.m, c.args, c.label) {
				need = fresh.Len()
			}
			refused := callMethod(e, *c.m, c.args, c.label)
			noRoom := need > room
			if dep, wide, index := widthDependent(c.m.name); dep && complaint == "" {
				tracked := m16
				if index {
					tracked = x16
				}
				if mismatch := wide != tracked; (!refused && mismatch) || (refused && !mismatch && !noRoom) {
					complaint = fmt.Sprintf("%s (operand of %d bits) was %s while the assembler tracks m16=%v x16=%v",
						c.m.name, map[bool]int{false: 8, true: 16}[wide], map[bool]string{false: "accepted", true: "refused"}[refused], m16, x16)
				}
			}
			if refused {
				if noRoom {
					rep.Count("asm-cpu: call refused, target full")
					return true
				}
				rep.Count("asm-cpu: call refused by width guard")
				return false // refused by a width guard: nothing emitted
			}
			em.starts = append(em.starts, pc)
		case 'L':
			if safe(func() { e.Label(c.label) }) {
				dropped = true // a duplicate label: not a program (C06's business)
			}
			labelled = true
		case 'B':
			if safe(func() { e.EmitBytes(c.data) }) {
				if len(c.data) > room {
					rep.Count("asm-cpu: call refused, target full")
					return true
				}
				dropped = true
				return true
			}
			em.starts = append(em.starts, pc)
		case 'r':
			e.AssumeREP(asm.Flags(c.mask))
		case 's':
			e.AssumeSEP(asm.Flags(c.mask))
		}
		return false
	}
	unit := func(em *acEm, o asmOp) {
		for _, c := range expandOp(o, ms) {
			if call(em, c) || complaint != "" || dropped {
				return
			}
		}
	}
	cur := root
	for i, o := range p.calls {
		if p.split > 0 && i == p.split {
			cur = &acEm{e: root.e.Clone(make([]byte, p.ccap)), cap: p.ccap} // the program is continued in a clone (C16) and appended back below
		}
		if o.kind != 'D' {
			unit(cur, o)
		} else {
			// side clones of the emitter in use; at most one of them is appended back, the others are abandoned
			keep := int(o.addr)
			upfront := len(o.args) > 0 && o.args[0]&1 == 1
			arms := make([]*acEm, len(o.sub))
			mk := func(i int) *acEm {
				k := acAmple
				if i+1 == keep && len(o.args) > 1 && o.args[1]&1 == 1 {
					k = cur.cap - cur.e.Len()
				}
				return &acEm{e: cur.e.Clone(make([]byte, k)), cap: k}
			}
			if upfront {
				for i := range arms {
					arms[i] = mk(i)
				}
			}
			for i, arm := range o.sub {
				if !upfront {
					arms[i] = mk(i)
				}
				for _, ao := range arm {
					if i+1 == keep && (ao.kind == 'r' || ao.kind == 's') {
						continue // an announcement without bytes belongs to clones that are dropped
					}
					if ao.kind == 'D' || ((ao.kind == 'L' || ao.kind == 'J') && i+1 != keep) {
						continue
					}
					unit(arms[i], ao)
				}
				if i+1 != keep {
					rep.Count("asm-cpu: clone abandoned")
				}
			}
			if keep > 0 && keep <= len(arms) {
				k := arms[keep-1]
				if !safe(func() { cur.e.Append(k.e) }) {
					cur.starts = append(cur.starts, k.starts...)
					rep.Count("asm-cpu: one of several clones appended back")
				}
			}
		}
		if complaint != "" {
			return complaint, steps
		}
		if dropped {
			return "", steps
		}
	}
	if cur != root {
		// (a clone that does not fit is refused: the program is then what the original holds)
		if !safe(func() { root.e.Append(cur.e) }) {
			root.starts = append(root.starts, cur.starts...)
		}
	}
	e, starts := root.e, root.starts
	end := e.PC()
	// label references are patched before the program runs; a program whose references cannot be resolved is not a program
	var ferr error
	if safe(func() { ferr = e.Finalize() }) || ferr != nil {
		rep.Count("asm-cpu: program dropped (Finalize failed)")
		return "", steps
	}
	if labelled {
		rep.Count("asm-cpu: programs with labels run")
	}
	code := e.Bytes()
	for _, variant := range []string{"primary", "alt"} {
		mem := cpuh.NewMem(uint64(p.initFlags) + 99)
		for i, b := range code {
			mem.Ovl[base+uint32(i)] = b
		}
		r := cpuh.Regs{PC: 0x8000, RK: acBank, SP: 0x01FF, M: (p.initFlags >> 5) & 1, X: (p.initFlags >> 4) & 1, RDBR: 0x7E}
		var step func() (int, bool, string)
		var get func() cpuh.Regs
		if variant == "primary" {
			c := cpuh.NewPrimary(mem)
			c.Set(r)
			step, get = c.Step, c.Get
		} else {
			c := cpuh.NewAlt(mem)
			c.Set(r)
			step, get = c.Step, c.Get
		}
		for i := 0; i < len(starts); i++ {
			g := get()
			pc := uint32(g.RK)<<16 | uint32(g.PC)
			if pc != starts[i] {
				return fmt.Sprintf("%s: instruction %d: CPU fetches at %06x, assembler reported the start %06x", variant, i, pc, starts[i]), steps
			}
			if _, _, pn := step(); pn != "" {
				return fmt.Sprintf("%s: instruction %d at %06x: panic %s", variant, i, pc, pn), steps
			}
			steps++
		}
		g := get()
		if pc := uint32(g.RK)<<16 | uint32(g.PC); pc != end {
			return fmt.Sprintf("%s: after the last instruction the CPU is at %06x, the assembler at %06x", variant, pc, end), steps
		}
		if (g.M == 0) != e.IsM16bit() || (g.X == 0) != e.IsX16bit() {
			return fmt.Sprintf("%s: final widths differ: CPU M=%d X=%d, assembler m16=%v x16=%v", variant, g.M, g.X, e.IsM16bit(), e.IsX16bit()), steps
		}
	}
	return "", steps
}

func genProg(r *prng.R, ms []asmMethod) acProg {
	p := acProg{initFlags: uint8(r.N(4)) << 4, cap: acAmple, ccap: acAmple}
	n := 1 + r.N(24)
	var pool []int
	for i, m := range ms {
		if !notStraight[m.name] && !(len(m.widths) == 1 && m.widths[0] == 0) {
			pool = append(pool, i)
		}
	}
	repI, sepI := findMethod(ms, "REP"), findMethod(ms, "SEP")
	var branches []*asmMethod
	for i := range ms {
		if _, ok := notTaken[ms[i].name]; ok && len(ms[i].widths) == 1 && ms[i].widths[0] == 0 {
			branches = append(branches, &ms[i])
		}
	}
	// labels: 0 = untouched, 1 = referenced but not defined yet, 2 = defined
	nLab := 0
	if r.Chance(55) && len(branches) > 0 {
		nLab = 1 + r.N(3)
	}
	state := make([]int, nLab)
	lname := func(j int) string { return "l" + strconv.Itoa(j) }
	widthMask := func() uint32 {
		return []uint32{0x10, 0x20, 0x30, 0x00, 0x31, 0xFF & uint32(r.U8())}[r.N(6)]
	}
	straight := func() asmOp {
		m := &ms[pool[r.N(len(pool))]]
		args := make([]uint32, len(m.widths))
		for j, w := range m.widths {
			args[j] = r.U32()
			if w == 32 {
				// long operands: keep stores away from the program bank so that the program cannot modify itself
				args[j] = (args[j] & 0xFFFF) | 0x7E0000
			}
		}
		return asmOp{kind: 'I', m: m, args: args}
	}
	for i := 0; i < n; i++ {
		if nLab > 0 && r.Chance(24) {
			j := r.N(nLab)
			if state[j] == 2 || r.Chance(60) {
				// a reference: forward while the label is not defined yet, backward afterwards; never taken at run time
				b := branches[r.N(len(branches))]
				p.calls = append(p.calls, asmOp{kind: 'J', m: b, label: lname(j), args: []uint32{uint32(r.N(4)), []uint32{0, 0, 0x10, 0x20, 0x30}[r.N(5)]}})
				if state[j] == 0 {
					state[j] = 1
				}
			} else {
				p.calls = append(p.calls, asmOp{kind: 'L', label: lname(j)})
				state[j] = 2
			}
			continue
		}
		if r.Chance(18) {
			k := []*asmMethod{repI, sepI}[r.N(2)]
			// keep D clear and avoid touching I needlessly: decimal mode is irrelevant to lengths but harmless
			p.calls = append(p.calls, asmOp{kind: 'I', m: k, args: []uint32{widthMask()}})
			continue
		}
		if r.Chance(5) {
			// the width change is made by bytes the assembler did not interpret; it is told through AssumeREP / AssumeSEP
			p.calls = append(p.calls, asmOp{kind: []byte{'R', 'P'}[r.N(2)], addr: []uint32{0x10, 0x20, 0x30, 0x00}[r.N(4)]})
			continue
		}
		p.calls = append(p.calls, straight())
	}
	// every label referenced so far is defined before the end, with some code behind it
	for j := range state {
		if state[j] == 1 {
			p.calls = append(p.calls, asmOp{kind: 'L', label: lname(j)})
			for k := r.N(4); k > 0; k-- {
				p.calls = append(p.calls, straight())
			}
		}
	}
	if r.Chance(25) && len(p.calls) > 1 {
		p.split = 1 + r.N(len(p.calls)-1)
	}
	return p
}

// directedBranchProgs: every label branch, falling through, with a width change between the branch and its label (forward) or
// between the label and the branch (backward), followed by immediates of both sizes for both register groups
func directedBranchProgs(ms []asmMethod) []acProg {
	var ps []acProg
	imm := func(names ...string) []asmOp {
		var os []asmOp
		for _, n := range names {
			if m := findMethod(ms, n); m != nil {
				os = append(os, asmOp{kind: 'I', m: m, args: make([]uint32, len(m.widths))})
			}
		}
		return os
	}
	tail := append(imm("LDA_imm8_b", "LDA_imm16_w", "LDX_imm8_b", "LDX_imm16_w"), imm("NOP", "NOP", "NOP")...)
	for i := range ms {
		b := &ms[i]
		if _, ok := notTaken[b.name]; !ok || len(b.widths) != 1 || b.widths[0] != 0 {
			continue
		}
		for _, init := range []uint8{0x00, 0x30} {
			for ci, chg := range []asmOp{
				{kind: 'I', m: findMethod(ms, "REP"), args: []uint32{0x20}}, {kind: 'I', m: findMethod(ms, "REP"), args: []uint32{0x10}},
				{kind: 'I', m: findMethod(ms, "SEP"), args: []uint32{0x20}}, {kind: 'I', m: findMethod(ms, "SEP"), args: []uint32{0x30}},
				{kind: 'R', addr: 0x30}, {kind: 'P', addr: 0x10},
			} {
				if chg.kind == 'I' && chg.m == nil {
					continue
				}
				style := uint32(ci % 4)
				fwd := []asmOp{{kind: 'J', m: b, label: "t", args: []uint32{style, 0}}, chg}
				fwd = append(fwd, imm("LDA_imm8_b", "LDA_imm16_w")...)
				fwd = append(fwd, asmOp{kind: 'L', label: "t"})
				fwd = append(fwd, tail...)
				ps = append(ps, acProg{initFlags: init, calls: fwd, cap: acAmple, ccap: acAmple})
				back := []asmOp{{kind: 'L', label: "t"}, chg, {kind: 'J', m: b, label: "t", args: []uint32{style, 0}}}
				back = append(back, tail...)
				ps = append(ps, acProg{initFlags: init, calls: back, split: ci % 3, cap: acAmple, ccap: acAmple})
			}
		}
	}
	return ps
}

// immediatesOfBothSizes: for both register groups the 8- and the 16-bit form; the width guard lets one of each pair through
func immediatesOfBothSizes(ms []asmMethod, names ...string) []asmOp {
	var os []asmOp
	for _, n := range names {
		if m := findMethod(ms, n); m != nil {
			os = append(os, asmOp{kind: 'I', m: m, args: make([]uint32, len(m.widths))})
		}
	}
	return os
}

// estLen: upper estimate of the bytes a call emits
func estLen(o asmOp) int {
	switch o.kind {
	case 'I':
		n := 1
		for _, w := range o.m.widths {
			switch w {
			case 0:
				n += 2
			case 32:
				n += 3
			default:
				n += w / 8
			}
		}
		return n
	case 'J':
		return 5
	case 'R', 'P':
		return 2
	case 'D':
		n := 0
		if k := int(o.addr); k > 0 && k <= len(o.sub) {
			for _, ao := range o.sub[k-1] {
				n += estLen(ao)
			}
		}
		return n
	}
	return 0
}

// sideClones: one D unit.  Clones that are dropped mostly change widths; the kept one (if any) carries ordinary code.
func sideClones(r *prng.R, ms []asmMethod, pool []int) asmOp {
	masks := []uint32{0x10, 0x20, 0x30, 0x30, 0x31, 0xFF & uint32(r.U8())}
	imms := []string{"LDA_imm8_b", "LDA_imm16_w", "LDX_imm8_b", "LDX_imm16_w", "LDY_imm8_b", "LDY_imm16_w", "CMP_imm8_b", "CMP_imm16_w", "CPY_imm8_b", "AND_imm16_w", "ORA_imm8_b"}
	nArms := 1 + r.N(3)
	d := asmOp{kind: 'D', args: []uint32{uint32(r.N(2)), uint32(r.N(2))}}
	if r.Chance(50) {
		d.addr = uint32(1 + r.N(nArms))
	}
	for a := 0; a < nArms; a++ {
		kept := int(d.addr) == a+1
		var arm []asmOp
		for i := 1 + r.N(4); i > 0; i-- {
			switch k := r.N(20); {
			case k < 11 && !kept || k < 4:
				mask := masks[r.N(len(masks))]
				kinds := []byte{'I', 'I', 'I', 'R', 'P', 'r', 's'}
				if kept {
					kinds = kinds[:5]
				}
				switch kd := kinds[r.N(len(kinds))]; kd {
				case 'I':
					arm = append(arm, asmOp{kind: 'I', m: findMethod(ms, []string{"REP", "SEP"}[r.N(2)]), args: []uint32{mask}})
				default:
					arm = append(arm, asmOp{kind: kd, addr: mask & 0x30})
				}
			case k < 16:
				if m := findMethod(ms, imms[r.N(len(imms))]); m != nil {
					arm = append(arm, asmOp{kind: 'I', m: m, args: []uint32{uint32(r.U16())}})
				}
			default:
				m := &ms[pool[r.N(len(pool))]]
				args := make([]uint32, len(m.widths))
				for j, w := range m.widths {
					args[j] = r.U32()
					if w == 32 {
						args[j] = (args[j] & 0xFFFF) | 0x7E0000
					}
				}
				arm = append(arm, asmOp{kind: 'I', m: m, args: args})
			}
		}
		d.sub = append(d.sub, arm)
	}
	return d
}

// genProg2: a program of genProg in which clones are taken and abandoned on the way (kind&1) and / or whose targets are so
// small that they fill up somewhere in the middle (kind&2)
func genProg2(r *prng.R, ms []asmMethod, kind int) acProg {
	p := genProg(r.Fork(), ms)
	var pool []int
	for i, m := range ms {
		if !notStraight[m.name] && !(len(m.widths) == 1 && m.widths[0] == 0) {
			pool = append(pool, i)
		}
	}
	insert := func(at int, os ...asmOp) {
		p.calls = append(p.calls[:at:at], append(append([]asmOp{}, os...), p.calls[at:]...)...)
		if p.split > 0 && at < p.split {
			p.split += len(os)
		}
	}
	if kind&1 != 0 {
		for k := 1 + r.N(3); k > 0; k-- {
			at := r.N(len(p.calls) + 1)
			os := []asmOp{sideClones(r, ms, pool)}
			if r.Chance(60) {
				// immediates right behind: whichever width the assembler tracks now decides which of each pair it lets through
				os = append(os, immediatesOfBothSizes(ms, [][]string{{"LDA_imm8_b", "LDA_imm16_w"}, {"LDX_imm8_b", "LDX_imm16_w"}, {"LDY_imm16_w", "LDY_imm8_b", "CMP_imm16_w", "CMP_imm8_b"}}[r.N(3)]...)...)
			}
			insert(at, os...)
		}
	}
	if kind&2 != 0 {
		if r.Chance(60) {
			// something short to go on with once a longer call has been refused
			for k := 1 + r.N(4); k > 0; k-- {
				if m := findMethod(ms, []string{"NOP", "DEX", "DEY", "CLC", "XBA", "LDA_dp", "TAX"}[r.N(7)]); m != nil {
					p.calls = append(p.calls, asmOp{kind: 'I', m: m, args: make([]uint32, len(m.widths))})
				}
			}
		}
		est, estTail := 0, 0
		for i, o := range p.calls {
			est += estLen(o)
			if p.split > 0 && i >= p.split {
				estTail += estLen(o)
			}
		}
		p.cap = r.N(est + 2)
		if p.split > 0 {
			p.ccap = []int{acAmple, r.N(estTail + 2), r.N(estTail + 2), 1 + r.N(4)}[r.N(4)]
		}
	}
	return p
}

// abandonedCloneProgs (directed): a clone changes the tracked widths in every way there is and is dropped; a second and a third
// clone of the same original are taken before or after; the program goes on in the original with immediates of both sizes
func abandonedCloneProgs(ms []asmMethod) []acProg {
	rep, sep, nop := findMethod(ms, "REP"), findMethod(ms, "SEP"), findMethod(ms, "NOP")
	if rep == nil || sep == nil || nop == nil {
		return nil
	}
	var chgs []asmOp
	for _, mask := range []uint32{0x30, 0x20, 0x10} {
		chgs = append(chgs, asmOp{kind: 'I', m: rep, args: []uint32{mask}}, asmOp{kind: 'I', m: sep, args: []uint32{mask}},
			asmOp{kind: 'R', addr: mask}, asmOp{kind: 'P', addr: mask}, asmOp{kind: 'r', addr: mask}, asmOp{kind: 's', addr: mask})
	}
	tail := append(immediatesOfBothSizes(ms, "LDA_imm8_b", "LDA_imm16_w", "LDX_imm8_b", "LDX_imm16_w", "CPY_imm8_b", "LDY_imm16_w"), asmOp{kind: 'I', m: nop})
	one := asmOp{kind: 'I', m: nop}
	code := append([]asmOp{one}, immediatesOfBothSizes(ms, "LDA_imm8_b", "LDA_imm16_w", "LDX_imm16_w", "LDX_imm8_b")...)
	var ps []acProg
	for _, init := range []uint8{0x00, 0x30, 0x10, 0x20} {
		for ci, chg := range chgs {
			chg2 := chgs[(ci+7)%len(chgs)]
			for _, up := range []uint32{0, 1} {
				shapes := [][]asmOp{
					{one, {kind: 'D', addr: 0, args: []uint32{up, 0}, sub: [][]asmOp{{chg}}}},               // changed and dropped
					{one, {kind: 'D', addr: 2, args: []uint32{up, 0}, sub: [][]asmOp{{chg}, code}}},         // the second clone of the same original is kept
					{{kind: 'D', addr: 1, args: []uint32{up, 0}, sub: [][]asmOp{code, {chg}, {chg2, one}}}}, // the first is kept, two more are dropped
					{one, {kind: 'D', addr: 3, args: []uint32{up, 1}, sub: [][]asmOp{{chg}, {chg2}, code}}}, // the third is kept
					{{kind: 'D', addr: 0, args: []uint32{up, 0}, sub: [][]asmOp{{chg, chg2}}}, one, {kind: 'D', addr: 0, args: []uint32{up, 0}, sub: [][]asmOp{{chg2}}}},
				}
				for si, sh := range shapes {
					if up == 1 && len(sh[len(sh)-1].sub) < 2 && si != 4 {
						continue // one clone: nothing to take beforehand
					}
					calls := append(append([]asmOp{}, sh...), tail...)
					ps = append(ps, acProg{initFlags: init, calls: calls, cap: acAmple, ccap: acAmple})
					if si < 2 {
						// the same inside a program that is itself continued in a clone
						ps = append(ps, acProg{initFlags: init, calls: append([]asmOp{one}, calls...), split: 1, cap: acAmple, ccap: acAmple})
					}
				}
			}
		}
	}
	return ps
}

// fullTargetProgs (directed): the target fills up in the middle of the program: a call of 1..4 bytes meets 0..3 bytes of room and
// is refused, shorter calls that still fit follow until the target is full, one more is refused; in the original, in a clone
// the program is continued in, and in a side clone that is appended back
func fullTargetProgs(ms []asmMethod) []acProg {
	nop, dex := findMethod(ms, "NOP"), findMethod(ms, "DEX")
	if nop == nil || dex == nil {
		return nil
	}
	ins := func(n string, a ...uint32) asmOp {
		m := findMethod(ms, n)
		if m == nil {
			m = nop
			a = nil
		}
		return asmOp{kind: 'I', m: m, args: a}
	}
	type victim struct {
		op  asmOp
		len int
	}
	var vs []victim
	vs = append(vs, victim{ins("LDA_dp", 0x12), 2}, victim{ins("WDM", 0x42), 2}, victim{asmOp{kind: 'R', addr: 0x00}, 2},
		victim{ins("LDA_abs", 0x1234), 3}, victim{ins("STA_abs_x", 0x1234), 3}, victim{ins("LDA_long", 0x7E1234), 4}, victim{ins("CMP_long", 0x7E1234), 4}, victim{ins("NOP"), 1})
	if b := findMethod(ms, "BNE"); b != nil {
		vs = append(vs, victim{asmOp{kind: 'J', m: b, label: "t", args: []uint32{1, 0}}, 2})
	}
	var ps []acProg
	for _, init := range []uint8{0x00, 0x30} {
		for _, v := range vs {
			for room := v.len - 1; room >= 0; room-- {
				for _, fill := range []int{1, 5, 0} {
					var calls []asmOp
					for i := 0; i < fill; i++ {
						calls = append(calls, asmOp{kind: 'I', m: []*asmMethod{nop, dex}[i%2]})
					}
					body := []asmOp{v.op}
					for i := 0; i <= room; i++ {
						body = append(body, asmOp{kind: 'I', m: []*asmMethod{dex, nop}[i%2]})
					}
					body = append(body, ins("LDA_abs", 0x4321), asmOp{kind: 'L', label: "t"})
					all := append(append([]asmOp{}, calls...), body...)
					ps = append(ps, acProg{initFlags: init, calls: all, cap: fill + room, ccap: acAmple})
					if fill > 0 {
						// the program is continued in a clone whose target fills up; the original has room for what the clone took
						ps = append(ps, acProg{initFlags: init, calls: all, split: fill, cap: acAmple, ccap: room})
						ps = append(ps, acProg{initFlags: init, calls: all, split: fill, cap: fill + room, ccap: room})
						// ... in a side clone with exactly the room the original has left
						side := append(append([]asmOp{}, calls...), asmOp{kind: 'D', addr: 1, args: []uint32{0, 1}, sub: [][]asmOp{body[:len(body)-1]}}, ins("NOP"), asmOp{kind: 'L', label: "t"})
						ps = append(ps, acProg{initFlags: init, calls: side, cap: fill + room, ccap: acAmple})
					}
				}
			}
		}
	}
	return ps
}

func runAsmCPU() {
	rep := report.New("asm-cpu", tier, seed)
	ms := asmMethods()
	n := 6000
	if tier == "thorough" {
		n = 150000
	}
	r := prng.New(seed)
	distinct := map[string]bool{}
	var total int64
	nFound := 0 // at most 20 (shrunk) failing programs are reported
	progs := directedBranchProgs(ms)
	rep.CountN("directed programs (fall-through branch, width change, label)", int64(len(progs)))
	ab := abandonedCloneProgs(ms)
	rep.CountN("directed programs (clones that change widths and are abandoned, second and third clones of one original)", int64(len(ab)))
	ft := fullTargetProgs(ms)
	rep.CountN("directed programs (target fills up mid-program, shorter calls follow a refusal)", int64(len(ft)))
	progs = append(append(progs, ab...), ft...)
	r2 := prng.New(seed ^ 0xC10E5)
	for i := 0; i < n/2; i++ {
		progs = append(progs, genProg2(r2.Fork(), ms, 1+i%3))
	}
	for i := 0; i < n; i++ {
		progs = append(progs, genProg(r.Fork(), ms))
	}
	for i, p := range progs {
		msg, steps := runProg(p, ms, rep)
		total += int64(steps)
		sh := fmt.Sprintf("%02x", p.initFlags)
		for _, o := range p.calls {
			if o.m != nil {
				sh += o.m.name[:3]
			} else {
				sh += string(o.kind)
			}
			switch o.kind {
			case 'D':
				rep.Count("op: side clones (D)")
			case 'J':
				rep.Count("op: fall-through branch to a label")
			case 'L':
				rep.Count("op: label")
			case 'R', 'P':
				rep.Count("op: raw REP/SEP bytes + AssumeREP/AssumeSEP")
			}
		}
		if p.cap < acAmple {
			rep.Count("programs with a target that may fill up")
		}
		distinct[sh] = true
		if i%800 == 0 {
			rep.Sample(p.String())
		}
		if msg != "" && nFound < 20 {
			nFound++
			// a shrunk program must fail the same clause (a fetch at an address that was not reported stays one)
			class := func(m string) string {
				for _, k := range []string{"CPU fetches at", "after the last instruction", "final widths differ", "was accepted", "was refused", "panic"} {
					if strings.Contains(m, k) {
						return k
					}
				}
				return m
			}
			want := class(msg)
			runProg := func(q acProg, ms []asmMethod, rep *report.Report) (string, int) {
				m, n := runProg(q, ms, rep)
				if m != "" && class(m) != want {
					return "", n
				}
				return m, n
			}
			// shrink: drop calls while the complaint persists
			for changed := true; changed; {
				changed = false
				for k := 0; k < len(p.calls); k++ {
					q := p
					q.calls = append(append([]asmOp{}, p.calls[:k]...), p.calls[k+1:]...)
					if q.split > k {
						q.split--
					}
					if q.split >= len(q.calls) {
						q.split = 0
					}
					if m2, _ := runProg(q, ms, rep); m2 != "" {
						p, msg, changed = q, m2, true
						k--
					}
				}
				// inside the side-clone units: drop whole clones (not the one that is appended back), then single calls
				tryD := func() bool {
					for k := range p.calls {
						d0 := p.calls[k]
						if d0.kind != 'D' {
							continue
						}
						var cands []asmOp
						for a := range d0.sub {
							if int(d0.addr) != a+1 {
								d := d0
								d.sub = append(append([][]asmOp{}, d0.sub[:a]...), d0.sub[a+1:]...)
								if int(d.addr) > a+1 {
									d.addr--
								}
								cands = append(cands, d)
							}
							for j := range d0.sub[a] {
								d := d0
								d.sub = append([][]asmOp{}, d0.sub...)
								d.sub[a] = append(append([]asmOp{}, d0.sub[a][:j]...), d0.sub[a][j+1:]...)
								cands = append(cands, d)
							}
						}
						for _, d := range cands {
							q := p
							q.calls = append([]asmOp{}, p.calls...)
							q.calls[k] = d
							if m2, _ := runProg(q, ms, rep); m2 != "" {
								p, msg = q, m2
								return true
							}
						}
					}
					return false
				}
				for tryD() {
					changed = true
				}
			}
			rep.Add(report.Finding{Property: "C07", Kind: "violation", Clause: "CPU fetches opcodes exactly at the assembler's instruction starts and ends with the tracked widths; an immediate is refused exactly when its size disagrees with the tracked width: " + msg, Input: p.String()})
		}
	}
	rep.Evaluations = total
	rep.Distinct = int64(len(distinct))
	rep.CountN("programs", int64(len(progs)))
	rep.Rule = "directed: every conditional label branch falling through, forward and backward, with a REP/SEP/AssumeREP/AssumeSEP width change between branch and label, immediates of both sizes behind it; " +
		"directed: a clone changes the tracked widths (REP / SEP / raw bytes + AssumeREP / AssumeSEP / the announcement alone) and is abandoned, second and third clones of one original taken before or after, " +
		"the program goes on in the original with immediates of both sizes; directed: targets (of the original, of the clone the program is continued in, of a side clone) that fill up mid-program - a call of 1..4 bytes " +
		"meets 0..3 bytes of room and is refused, shorter calls follow until the target is full; random: programs as below with 1..3 units of 1..3 side clones (half of the units keep one clone) and / or targets of 0..estimated size bytes; " +
		"random programs of 1..24 calls (a quarter of them continued in a Clone and appended back) over every non-transferring instruction method (by reflection) with REP/SEP interleavings, raw REP/SEP bytes announced by AssumeREP/AssumeSEP, " +
		"up to 3 labels referenced forward / backward / several times by conditional branches that are not taken at run time (the tested flag is set the other way by the unit's own REP/SEP/CLC/CMP/load immediate), all four initial width assumptions, " +
		"assembled by the real Emitter at $C0:8000, finalized, and single-stepped on both real CPUs (whole bus mapped); compared: PC before every Step with the recorded PC(), final M/X with IsM16bit/IsX16bit, " +
		"every width-dependent immediate refused exactly when its size disagrees with IsM16bit/IsX16bit. " +
		"evaluations = CPU steps; distinct_nontrivial = distinct (initial widths, mnemonic sequence)"
	rep.Emit()
}
