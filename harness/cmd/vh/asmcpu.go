package main

import (
	"fmt"
	"strconv"
	"strings"

	"github.com/alttpo/snes/asm"

	"verifharness/internal/cpuh"
	"verifharness/internal/prng"
	"verifharness/internal/report"
)

func init() { components["asm-cpu"] = func(string) { runAsmCPU() } }

// methods that transfer control, restore flags from the stack, or repeat (block move): not "straight-line"
var notStraight = map[string]bool{
	"JSR_abs": true, "JSL": true, "JSL_lhb": true, "JML": true, "RTS": true, "RTL": true, "RTI": true,
	"BNE_imm8": true, "BNE": true, "BEQ_imm8": true, "BEQ": true, "BPL_imm8": true, "BPL": true, "BMI": true, "BCC": true, "BCS": true,
	"BRA_imm8": true, "BRA": true, "JMP_abs": true, "JMP_abs_imm16_w": true, "JMP_indirect": true, "PLP": true, "MVN": true,
}

// A program is a list of calls:
//
//	I  an instruction method (by reflection)
//	L  Label(name)
//	J  a conditional branch to a label (defined earlier or later) that is provably NOT taken at run time: the flag the branch
//	   tests is set the other way by the call(s) emitted right before it (args[0] = style of that setter, args[1] = width bits
//	   merged into a REP/SEP setter); setter and branch are one unit so that shrinking cannot turn it into a taken branch
//	R  REP given as raw bytes (EmitBytes C2 mm) followed by AssumeREP(mm): the assembler is told about a width change that
//	P  SEP likewise (E2 mm, AssumeSEP(mm))                                  it did not emit itself
type acProg struct {
	initFlags uint8 // assumed widths at the start (bits $20 / $10)
	calls     []asmOp
	assume    []int // unused (kept for positional literals)
	split     int   // > 0: the calls from this index on go into a Clone of the emitter, which is appended back at the end
}

func (p acProg) String() string {
	ss := []string{fmt.Sprintf("asm-cpu init=%02x split=%d", p.initFlags, p.split)}
	for _, o := range p.calls {
		ss = append(ss, o.String())
	}
	return strings.Join(ss, ";")
}

const acBank = 0xC0

// notTaken: for each conditional branch with a label operand, the processor flag it tests and the value under which it falls
// through (WDC: BCC branches on C=0, BCS on C=1, BNE on Z=0, BEQ on Z=1, BPL on N=0, BMI on N=1)
var notTaken = map[string]struct {
	bit byte // P bit of the tested flag
	set bool // the branch falls through when the flag is set
}{
	"BCC": {0x01, true}, "BCS": {0x01, false}, "BNE": {0x02, true}, "BEQ": {0x02, false}, "BPL": {0x80, true}, "BMI": {0x80, false},
}

// widthDependent: the WDC immediates whose operand size follows M (accumulator group) or X (index group); from the method name
func widthDependent(name string) (dep bool, wide bool, index bool) {
	k := strings.Index(name, "_imm")
	if k < 0 {
		return
	}
	switch name[:k] {
	case "ADC", "AND", "BIT", "CMP", "EOR", "LDA", "ORA", "SBC":
	case "CPX", "CPY", "LDX", "LDY":
		index = true
	default:
		return
	}
	switch name[k:] {
	case "_imm8_b":
		return true, false, index
	case "_imm16_w", "_imm16_lh":
		return true, true, index
	}
	return
}

func findMethod(ms []asmMethod, n string) *asmMethod {
	for i := range ms {
		if ms[i].name == n {
			return &ms[i]
		}
	}
	return nil
}

// acCall: one emitter call; the J / R / P units expand into several
type acCall struct {
	kind  byte // 'I' method, 'L' label, 'B' raw bytes, 'r' AssumeREP, 's' AssumeSEP
	m     *asmMethod
	args  []uint32
	label string
	data  []byte
	mask  uint8
}

func expandOp(o asmOp, ms []asmMethod) []acCall {
	switch o.kind {
	case 'I':
		return []acCall{{kind: 'I', m: o.m, args: o.args, label: o.label}}
	case 'L':
		return []acCall{{kind: 'L', label: o.label}}
	case 'R':
		return []acCall{{kind: 'B', data: []byte{0xC2, byte(o.addr)}}, {kind: 'r', mask: byte(o.addr)}}
	case 'P':
		return []acCall{{kind: 'B', data: []byte{0xE2, byte(o.addr)}}, {kind: 's', mask: byte(o.addr)}}
	case 'J':
		nt, ok := notTaken[o.m.name]
		if !ok {
			return nil
		}
		var cs []acCall
		style, extra := o.args[0], o.args[1]&0x30
		switch {
		case style == 0:
			// REP / SEP with the tested flag's bit (and possibly width bits) in the mask
			nm := "REP"
			if nt.set {
				nm = "SEP"
			}
			cs = append(cs, acCall{kind: 'I', m: findMethod(ms, nm), args: []uint32{uint32(nt.bit) | extra}})
		case nt.bit == 0x01 && !nt.set:
			cs = append(cs, acCall{kind: 'I', m: findMethod(ms, "CLC")})
		case nt.bit == 0x01:
			// CMP #0 always sets the carry; both operand sizes are offered, the width guard lets exactly one through
			cs = append(cs, acCall{kind: 'I', m: findMethod(ms, "CMP_imm8_b"), args: []uint32{0}}, acCall{kind: 'I', m: findMethod(ms, "CMP_imm16_w"), args: []uint32{0}})
		default:
			// a load immediate sets N and Z from its operand; both operand sizes are offered
			reg := []string{"LDA", "LDX", "LDY"}[style%3]
			v8, v16 := uint32(1), uint32(1) // Z=0, N=0
			if nt.bit == 0x02 && nt.set {
				v8, v16 = 0, 0 // Z=1
			}
			if nt.bit == 0x80 && nt.set {
				v8, v16 = 0x80, 0x8000 // N=1
			}
			cs = append(cs, acCall{kind: 'I', m: findMethod(ms, reg+"_imm8_b"), args: []uint32{v8}}, acCall{kind: 'I', m: findMethod(ms, reg+"_imm16_w"), args: []uint32{v16}})
		}
		for _, c := range cs {
			if c.m == nil {
				return nil
			}
		}
		return append(cs, acCall{kind: 'I', m: o.m, label: o.label})
	}
	return nil
}

// runProg assembles with the real Emitter and single-steps both real CPUs; returns a complaint or "".
func runProg(p acProg, ms []asmMethod, rep *report.Report) (complaint string, steps int) {
	e := asm.NewEmitter(make([]byte, 4096), false)
	base := uint32(acBank)<<16 | 0x8000
	e.SetBase(base)
	e.AssumeSEP(asm.Flags(p.initFlags & 0x30))
	e.AssumeREP(asm.Flags(^p.initFlags & 0x30))
	var starts []uint32
	root := e
	labelled := false
	for i, o := range p.calls {
		if p.split > 0 && i == p.split {
			e = root.Clone(make([]byte, 4096)) // the program is continued in a clone (C16) and appended back below
		}
		for _, c := range expandOp(o, ms) {
			pc := e.PC()
			switch c.kind {
			case 'I':
				m16, x16 := e.IsM16bit(), e.IsX16bit()
				refused := callMethod(e, *c.m, c.args, c.label)
				if dep, wide, index := widthDependent(c.m.name); dep {
					tracked := m16
					if index {
						tracked = x16
					}
					if refused != (wide != tracked) {
						return fmt.Sprintf("%s (operand of %d bits) was %s while the assembler tracks m16=%v x16=%v",
							c.m.name, map[bool]int{false: 8, true: 16}[wide], map[bool]string{false: "accepted", true: "refused"}[refused], m16, x16), steps
					}
				}
				if refused {
					rep.Count("asm-cpu: call refused by width guard")
					continue // refused by a width guard: nothing emitted
				}
				starts = append(starts, pc)
			case 'L':
				if safe(func() { e.Label(c.label) }) {
					return "", steps // a duplicate label: not a program (C06's business)
				}
				labelled = true
			case 'B':
				if safe(func() { e.EmitBytes(c.data) }) {
					return "", steps
				}
				starts = append(starts, pc)
			case 'r':
				e.AssumeREP(asm.Flags(c.mask))
			case 's':
				e.AssumeSEP(asm.Flags(c.mask))
			}
		}
	}
	if e != root {
		root.Append(e)
		e = root
	}
	end := e.PC()
	// label references are patched before the program runs; a program whose references cannot be resolved is not a program
	var ferr error
	if safe(func() { ferr = e.Finalize() }) || ferr != nil {
		rep.Count("asm-cpu: program dropped (Finalize failed)")
		return "", steps
	}
	if labelled {
		rep.Count("asm-cpu: programs with labels run")
	}
	code := e.Bytes()
	for _, variant := range []string{"primary", "alt"} {
		mem := cpuh.NewMem(uint64(p.initFlags) + 99)
		for i, b := range code {
			mem.Ovl[base+uint32(i)] = b
		}
		r := cpuh.Regs{PC: 0x8000, RK: acBank, SP: 0x01FF, M: (p.initFlags >> 5) & 1, X: (p.initFlags >> 4) & 1, RDBR: 0x7E}
		var step func() (int, bool, string)
		var get func() cpuh.Regs
		if variant == "primary" {
			c := cpuh.NewPrimary(mem)
			c.Set(r)
			step, get = c.Step, c.Get
		} else {
			c := cpuh.NewAlt(mem)
			c.Set(r)
			step, get = c.Step, c.Get
		}
		for i := 0; i < len(starts); i++ {
			g := get()
			pc := uint32(g.RK)<<16 | uint32(g.PC)
			if pc != starts[i] {
				return fmt.Sprintf("%s: instruction %d: CPU fetches at %06x, assembler reported the start %06x", variant, i, pc, starts[i]), steps
			}
			if _, _, pn := step(); pn != "" {
				return fmt.Sprintf("%s: instruction %d at %06x: panic %s", variant, i, pc, pn), steps
			}
			steps++
		}
		g := get()
		if pc := uint32(g.RK)<<16 | uint32(g.PC); pc != end {
			return fmt.Sprintf("%s: after the last instruction the CPU is at %06x, the assembler at %06x", variant, pc, end), steps
		}
		if (g.M == 0) != e.IsM16bit() || (g.X == 0) != e.IsX16bit() {
			return fmt.Sprintf("%s: final widths differ: CPU M=%d X=%d, assembler m16=%v x16=%v", variant, g.M, g.X, e.IsM16bit(), e.IsX16bit()), steps
		}
	}
	return "", steps
}

func genProg(r *prng.R, ms []asmMethod) acProg {
	p := acProg{initFlags: uint8(r.N(4)) << 4}
	n := 1 + r.N(24)
	var pool []int
	for i, m := range ms {
		if !notStraight[m.name] && !(len(m.widths) == 1 && m.widths[0] == 0) {
			pool = append(pool, i)
		}
	}
	repI, sepI := findMethod(ms, "REP"), findMethod(ms, "SEP")
	var branches []*asmMethod
	for i := range ms {
		if _, ok := notTaken[ms[i].name]; ok && len(ms[i].widths) == 1 && ms[i].widths[0] == 0 {
			branches = append(branches, &ms[i])
		}
	}
	// labels: 0 = untouched, 1 = referenced but not defined yet, 2 = defined
	nLab := 0
	if r.Chance(55) && len(branches) > 0 {
		nLab = 1 + r.N(3)
	}
	state := make([]int, nLab)
	lname := func(j int) string { return "l" + strconv.Itoa(j) }
	widthMask := func() uint32 {
		return []uint32{0x10, 0x20, 0x30, 0x00, 0x31, 0xFF & uint32(r.U8())}[r.N(6)]
	}
	straight := func() asmOp {
		m := &ms[pool[r.N(len(pool))]]
		args := make([]uint32, len(m.widths))
		for j, w := range m.widths {
			args[j] = r.U32()
			if w == 32 {
				// long operands: keep stores away from the program bank so that the program cannot modify itself
				args[j] = (args[j] & 0xFFFF) | 0x7E0000
			}
		}
		return asmOp{kind: 'I', m: m, args: args}
	}
	for i := 0; i < n; i++ {
		if nLab > 0 && r.Chance(24) {
			j := r.N(nLab)
			if state[j] == 2 || r.Chance(60) {
				// a reference: forward while the label is not defined yet, backward afterwards; never taken at run time
				b := branches[r.N(len(branches))]
				p.calls = append(p.calls, asmOp{kind: 'J', m: b, label: lname(j), args: []uint32{uint32(r.N(4)), []uint32{0, 0, 0x10, 0x20, 0x30}[r.N(5)]}})
				if state[j] == 0 {
					state[j] = 1
				}
			} else {
				p.calls = append(p.calls, asmOp{kind: 'L', label: lname(j)})
				state[j] = 2
			}
			continue
		}
		if r.Chance(18) {
			k := []*asmMethod{repI, sepI}[r.N(2)]
			// keep D clear and avoid touching I needlessly: decimal mode is irrelevant to lengths but harmless
			p.calls = append(p.calls, asmOp{kind: 'I', m: k, args: []uint32{widthMask()}})
			continue
		}
		if r.Chance(5) {
			// the width change is made by bytes the assembler did not interpret; it is told through AssumeREP / AssumeSEP
			p.calls = append(p.calls, asmOp{kind: []byte{'R', 'P'}[r.N(2)], addr: []uint32{0x10, 0x20, 0x30, 0x00}[r.N(4)]})
			continue
		}
		p.calls = append(p.calls, straight())
	}
	// every label referenced so far is defined before the end, with some code behind it
	for j := range state {
		if state[j] == 1 {
			p.calls = append(p.calls, asmOp{kind: 'L', label: lname(j)})
			for k := r.N(4); k > 0; k-- {
				p.calls = append(p.calls, straight())
			}
		}
	}
	if r.Chance(25) && len(p.calls) > 1 {
		p.split = 1 + r.N(len(p.calls)-1)
	}
	return p
}

// directedBranchProgs: every label branch, falling through, with a width change between the branch and its label (forward) or
// between the label and the branch (backward), followed by immediates of both sizes for both register groups
func directedBranchProgs(ms []asmMethod) []acProg {
	var ps []acProg
	imm := func(names ...string) []asmOp {
		var os []asmOp
		for _, n := range names {
			if m := findMethod(ms, n); m != nil {
				os = append(os, asmOp{kind: 'I', m: m, args: make([]uint32, len(m.widths))})
			}
		}
		return os
	}
	tail := append(imm("LDA_imm8_b", "LDA_imm16_w", "LDX_imm8_b", "LDX_imm16_w"), imm("NOP", "NOP", "NOP")...)
	for i := range ms {
		b := &ms[i]
		if _, ok := notTaken[b.name]; !ok || len(b.widths) != 1 || b.widths[0] != 0 {
			continue
		}
		for _, init := range []uint8{0x00, 0x30} {
			for ci, chg := range []asmOp{
				{kind: 'I', m: findMethod(ms, "REP"), args: []uint32{0x20}}, {kind: 'I', m: findMethod(ms, "REP"), args: []uint32{0x10}},
				{kind: 'I', m: findMethod(ms, "SEP"), args: []uint32{0x20}}, {kind: 'I', m: findMethod(ms, "SEP"), args: []uint32{0x30}},
				{kind: 'R', addr: 0x30}, {kind: 'P', addr: 0x10},
			} {
				if chg.kind == 'I' && chg.m == nil {
					continue
				}
				style := uint32(ci % 4)
				fwd := []asmOp{{kind: 'J', m: b, label: "t", args: []uint32{style, 0}}, chg}
				fwd = append(fwd, imm("LDA_imm8_b", "LDA_imm16_w")...)
				fwd = append(fwd, asmOp{kind: 'L', label: "t"})
				fwd = append(fwd, tail...)
				ps = append(ps, acProg{initFlags: init, calls: fwd})
				back := []asmOp{{kind: 'L', label: "t"}, chg, {kind: 'J', m: b, label: "t", args: []uint32{style, 0}}}
				back = append(back, tail...)
				ps = append(ps, acProg{initFlags: init, calls: back, split: ci % 3})
			}
		}
	}
	return ps
}

func runAsmCPU() {
	rep := report.New("asm-cpu", tier, seed)
	ms := asmMethods()
	n := 6000
	if tier == "thorough" {
		n = 150000
	}
	r := prng.New(seed)
	distinct := map[string]bool{}
	var total int64
	nFound := 0 // at most 20 (shrunk) failing programs are reported
	progs := directedBranchProgs(ms)
	rep.CountN("directed programs (fall-through branch, width change, label)", int64(len(progs)))
	for i := 0; i < n; i++ {
		progs = append(progs, genProg(r.Fork(), ms))
	}
	for i, p := range progs {
		msg, steps := runProg(p, ms, rep)
		total += int64(steps)
		sh := fmt.Sprintf("%02x", p.initFlags)
		for _, o := range p.calls {
			if o.m != nil {
				sh += o.m.name[:3]
			} else {
				sh += string(o.kind)
			}
			switch o.kind {
			case 'J':
				rep.Count("op: fall-through branch to a label")
			case 'L':
				rep.Count("op: label")
			case 'R', 'P':
				rep.Count("op: raw REP/SEP bytes + AssumeREP/AssumeSEP")
			}
		}
		distinct[sh] = true
		if i%800 == 0 {
			rep.Sample(p.String())
		}
		if msg != "" && nFound < 20 {
			nFound++
			// shrink: drop calls while the complaint persists
			for changed := true; changed; {
				changed = false
				for k := 0; k < len(p.calls); k++ {
					q := acProg{p.initFlags, append(append([]asmOp{}, p.calls[:k]...), p.calls[k+1:]...), nil, p.split}
					if q.split > k {
						q.split--
					}
					if q.split >= len(q.calls) {
						q.split = 0
					}
					if m2, _ := runProg(q, ms, rep); m2 != "" {
						p, msg, changed = q, m2, true
						k--
					}
				}
			}
			rep.Add(report.Finding{Property: "C07", Kind: "violation", Clause: "CPU fetches opcodes exactly at the assembler's instruction starts and ends with the tracked widths; an immediate is refused exactly when its size disagrees with the tracked width: " + msg, Input: p.String()})
		}
	}
	rep.Evaluations = total
	rep.Distinct = int64(len(distinct))
	rep.CountN("programs", int64(len(progs)))
	rep.Rule = "directed: every conditional label branch falling through, forward and backward, with a REP/SEP/AssumeREP/AssumeSEP width change between branch and label, immediates of both sizes behind it; " +
		"random programs of 1..24 calls (a quarter of them continued in a Clone and appended back) over every non-transferring instruction method (by reflection) with REP/SEP interleavings, raw REP/SEP bytes announced by AssumeREP/AssumeSEP, " +
		"up to 3 labels referenced forward / backward / several times by conditional branches that are not taken at run time (the tested flag is set the other way by the unit's own REP/SEP/CLC/CMP/load immediate), all four initial width assumptions, " +
		"assembled by the real Emitter at $C0:8000, finalized, and single-stepped on both real CPUs (whole bus mapped); compared: PC before every Step with the recorded PC(), final M/X with IsM16bit/IsX16bit, " +
		"every width-dependent immediate refused exactly when its size disagrees with IsM16bit/IsX16bit. " +
		"evaluations = CPU steps; distinct_nontrivial = distinct (initial widths, mnemonic sequence)"
	rep.Emit()
}
