package main

import (
	"fmt"
	"runtime"
	"strconv"
	"sync"

	"github.com/alttpo/snes/color15"

	"verifharness/internal/drv"
	"verifharness/internal/prng"
	"verifharness/internal/report"
)

func scaleRef(ch, m, d uint32) uint32 {
	q := ch * m / d
	if q > 31 {
		q = 31
	}
	return q
}

func mulDivPanics(c color15.Color, m, d uint8) (res color15.Color, panicked bool) {
	defer func() {
		if recover() != nil {
			panicked = true
		}
	}()
	return c.MulDiv(m, d), false
}

func runColor() {
	rep := report.New("color", tier, seed)
	ff := &firstFail{m: map[string]report.Finding{}, n: map[string]int64{}}
	var evals int64
	// (1) unpack/pack on all 2^16 colours
	for c := 0; c < 65536; c++ {
		r, g, b := color15.Color(c).ToRGB()
		evals++
		if got := color15.ToColor15(r, g, b); uint16(got) != uint16(c)&0x7FFF {
			ff.add("C17", "pack(unpack(c)) = c with bit 15 clear", map[string]interface{}{"c": fmt.Sprintf("%04x", c)}, fmt.Sprintf("%04x", c&0x7FFF), fmt.Sprintf("%04x", got))
		}
		if r != uint8(c&31) || g != uint8(c>>5&31) || b != uint8(c>>10&31) {
			ff.add("C17", "unpack yields the three 5-bit fields", map[string]interface{}{"c": fmt.Sprintf("%04x", c)}, "", fmt.Sprintf("%d %d %d", r, g, b))
		}
		if l := color15.Color(c).Luminosity(); uint32(l) != (uint32(r)+uint32(g)+uint32(b))/3 {
			ff.add("C17", "luminosity is the integer mean of the channels", map[string]interface{}{"c": fmt.Sprintf("%04x", c)}, fmt.Sprint((uint32(r)+uint32(g)+uint32(b))/3), fmt.Sprint(l))
		}
	}
	// (2) pack/unpack on all 2^24 channel triples
	for t := 0; t < 1<<24; t++ {
		r, g, b := uint8(t), uint8(t>>8), uint8(t>>16)
		c := color15.ToColor15(r, g, b)
		r2, g2, b2 := c.ToRGB()
		evals++
		if r2 != r%32 || g2 != g%32 || b2 != b%32 || c >= 0x8000 {
			ff.add("C17", "unpack(pack(r,g,b)) = (r,g,b) mod 32", map[string]interface{}{"r": r, "g": g, "b": b}, fmt.Sprintf("%d %d %d", r%32, g%32, b%32), fmt.Sprintf("%d %d %d (%04x)", r2, g2, b2, c))
		}
	}
	// (3) MulDiv
	var ms, ds []int
	if tier == "thorough" {
		for i := 0; i < 256; i++ {
			ms = append(ms, i)
			if i > 0 {
				ds = append(ds, i)
			}
		}
	} else {
		lattice := []int{0, 1, 2, 3, 7, 8, 9, 15, 16, 17, 29, 30, 31, 32, 33, 63, 64, 65, 100, 127, 128, 129, 200, 254, 255}
		ms = lattice
		ds = lattice[1:]
		r := prng.New(seed)
		for i := 0; i < 6; i++ {
			ms = append(ms, r.N(256))
			ds = append(ds, 1+r.N(255))
		}
	}
	var wg sync.WaitGroup
	var mu sync.Mutex
	sem := make(chan struct{}, runtime.NumCPU())
	for _, m := range ms {
		wg.Add(1)
		sem <- struct{}{}
		go func(m int) {
			defer wg.Done()
			defer func() { <-sem }()
			var n int64
			for _, d := range ds {
				for c := 0; c < 65536; c++ {
					got := color15.Color(c).MulDiv(uint8(m), uint8(d))
					n++
					want := scaleRef(uint32(c&31), uint32(m), uint32(d)) | scaleRef(uint32(c>>5&31), uint32(m), uint32(d))<<5 | scaleRef(uint32(c>>10&31), uint32(m), uint32(d))<<10
					if uint32(got) != want {
						ff.add("C17", "MulDiv channel = min(31, floor(ch*m/d)), bit 15 clear", map[string]interface{}{"c": fmt.Sprintf("%04x", c), "m": m, "d": d}, fmt.Sprintf("%04x", want), fmt.Sprintf("%04x", got))
					}
					if m == d && c < 0x8000 && int(got) != c {
						ff.add("C17", "MulDiv with m = d is the identity", map[string]interface{}{"c": fmt.Sprintf("%04x", c), "m": m, "d": d}, fmt.Sprintf("%04x", c), fmt.Sprintf("%04x", got))
					}
				}
			}
			mu.Lock()
			evals += n
			mu.Unlock()
		}(m)
	}
	wg.Wait()
	// monotonicity in the ratio (per channel; grey colours so that every channel carries ch)
	{
		r := prng.New(seed + 1)
		nPairs := 20000
		if tier == "thorough" {
			nPairs = 2000000
		}
		for i := 0; i < nPairs; i++ {
			ch := uint32(r.N(32))
			m1, d1, m2, d2 := uint32(r.N(256)), uint32(1+r.N(255)), uint32(r.N(256)), uint32(1+r.N(255))
			if m1*d2 > m2*d1 {
				m1, d1, m2, d2 = m2, d2, m1, d1
			}
			c := color15.ToColor15(uint8(ch), uint8(ch), uint8(ch))
			a, _, _ := c.MulDiv(uint8(m1), uint8(d1)).ToRGB()
			b, _, _ := c.MulDiv(uint8(m2), uint8(d2)).ToRGB()
			evals += 2
			if a > b {
				ff.add("C17", "a larger ratio never darkens a channel", map[string]interface{}{"ch": ch, "m1": m1, "d1": d1, "m2": m2, "d2": d2}, "a <= b", fmt.Sprintf("%d > %d", a, b))
			}
		}
	}
	for k, f := range ff.m {
		f.Detail = fmt.Sprintf("%d failing inputs in the sweep; first one shown", ff.n[k])
		rep.Add(f)
	}
	rep.CountN("oracle sweep evaluations on the Go functions", evals)
	rep.CountN("multiplicands swept", int64(len(ms)))
	rep.CountN("divisors swept", int64(len(ds)))

	// translator validation against the Lean driver
	d, err := drv.Start(modelDrv)
	if err != nil {
		rep.Add(report.Finding{Property: "C17", Kind: "disagreement", Clause: "model driver unavailable", Detail: err.Error()})
		rep.Evaluations = evals
		rep.Emit()
		return
	}
	defer d.Close()
	var reqs, wants []string
	r := prng.New(seed + 2)
	h := func(v uint32) string { return strconv.FormatUint(uint64(v), 16) }
	cols := []uint32{0, 1, 0x1f, 0x20, 0x3e0, 0x400, 0x7c00, 0x7fff, 0x8000, 0xffff, 0x12ef, 0x7e00, 0x0200}
	nc := 4000
	if tier == "thorough" {
		nc = 65536
	}
	for i := 0; i < nc; i++ {
		if tier == "thorough" {
			cols = append(cols, uint32(i))
		} else {
			cols = append(cols, uint32(r.U16()))
		}
	}
	distinct := map[string]bool{}
	for _, c := range cols {
		rr, g, b := color15.Color(c).ToRGB()
		reqs = append(reqs, "color rgb "+h(c))
		wants = append(wants, h(uint32(rr))+" "+h(uint32(g))+" "+h(uint32(b)))
		reqs = append(reqs, "color lum "+h(c))
		wants = append(wants, h(uint32(color15.Color(c).Luminosity())))
		for k := 0; k < 6; k++ {
			m, dd := r.U8(), r.U8()
			switch k {
			case 0:
				m, dd = 255, 30
			case 1:
				dd = m
			case 2:
				dd = 0
			}
			reqs = append(reqs, "color muldiv "+h(c)+" "+h(uint32(m))+" "+h(uint32(dd)))
			res, p := mulDivPanics(color15.Color(c), m, dd)
			if p {
				wants = append(wants, "panic")
			} else {
				wants = append(wants, h(uint32(res)))
			}
			distinct[fmt.Sprintf("md/%d/%v/%v", c>>10, m >= dd, p)] = true
		}
		x, y, z := r.U8(), r.U8(), r.U8()
		reqs = append(reqs, "color pack "+h(uint32(x))+" "+h(uint32(y))+" "+h(uint32(z)))
		wants = append(wants, h(uint32(color15.ToColor15(x, y, z))))
		distinct[fmt.Sprintf("rgb/%d", c>>6)] = true
	}
	got, err := d.Batch(reqs)
	if err != nil {
		rep.Add(report.Finding{Property: "C17", Kind: "disagreement", Clause: "model driver failed", Detail: err.Error()})
	}
	for i := range got {
		if i%3001 == 0 {
			rep.Sample(map[string]string{"request": reqs[i], "go": wants[i], "lean": got[i]})
		}
		if got[i] != wants[i] {
			rep.Add(report.Finding{Property: "C17", Kind: "disagreement", Clause: "gotolean translation of color15 vs the Go functions",
				Input: reqs[i], Expected: wants[i], Actual: got[i]})
		}
	}
	rep.CountN("code-vs-model comparisons", int64(len(got)))
	rep.Evaluations = evals + int64(len(got))
	rep.Distinct = int64(len(distinct)) + 65536
	rep.Exhaustive = tier == "thorough"
	rep.Rule = "oracle sweep: all 2^16 colours (pack/unpack/luminosity), all 2^24 channel triples, all 2^16 colours x a lattice of (m,d) pairs " +
		"(thorough: every m in 0..255 x every d in 1..255); model correspondence on boundary + PRNG inputs including d = 0 (Go panics, model reports panic). " +
		"distinct_nontrivial = 65536 distinct colours swept + distinct (channel bucket, ratio class) pairs compared against the Lean driver"
	rep.Emit()
}
