package main

// vh trace — the trace disassemblers of both packages against the Lean model Cpu.traceRec, plus property oracles:
// the bytes shown are exactly the instruction's bytes for the current widths (the length the interpreter itself advances
// by when the instruction is not a transfer), a relative branch shows the address it leads to when taken, the register
// and flag columns show the live values, and disassembling changes neither registers nor memory.

import (
	"bytes"
	"fmt"
	"strings"

	"github.com/alttpo/snes/emulator/cpualt"

	"verifharness/internal/cpuh"
	"verifharness/internal/drv"
	"verifharness/internal/prng"
	"verifharness/internal/report"
)

func init() { components["trace"] = func(string) { runTrace() } }

// canonPrimary: "<cyc>\t<bb>:<pppp>|<bytes>|<nam> <arg>| A=.. X=.. Y=.. NVMXDIZC\n"
func canonPrimary(line string) string {
	p := strings.Split(strings.TrimRight(line, "\n"), "|")
	if len(p) != 4 {
		return "unparsed:" + line
	}
	head := strings.Replace(p[0], "\t", " ", 1)
	by := strings.TrimSpace(p[1])
	name, arg := p[2], ""
	if len(p[2]) >= 4 {
		name, arg = p[2][:3], strings.TrimRight(p[2][4:], " ")
	}
	f := strings.Fields(p[3])
	if len(f) != 4 {
		return "unparsed:" + line
	}
	return head + "|" + by + "|" + name + "|" + arg + "|" + f[0] + " " + f[1] + " " + f[2] + "|" + f[3]
}

// alt Disassemble(): "<cyc>\t<bb>:<pppp>│<numeric>│<nam> <arg>│"
func canonAltShort(line string) string {
	p := strings.Split(line, "│")
	if len(p) < 3 {
		return "unparsed:" + line
	}
	head := strings.Replace(p[0], "\t", " ", 1)
	by := strings.TrimSpace(p[1])
	if strings.HasPrefix(by, "err:") {
		by = "???"
	}
	name, arg := p[2], ""
	if len(p[2]) >= 4 {
		name, arg = p[2][:3], strings.TrimRight(p[2][4:], " ")
	}
	return head + "|" + by + "|" + name + "|" + arg
}

// alt DisassembleTo(): "ea=.., addr=.. | A=.. X=.. Y=.. S=.... nvmxdizc | bb:pppp│bytes│nam arg"
func canonAltLong(line string, cycles uint8) string {
	parts := strings.SplitN(line, " | ", 3)
	if len(parts) != 3 {
		return "unparsed:" + line
	}
	f := strings.Fields(parts[1])
	if len(f) != 5 {
		return "unparsed:" + line
	}
	p := strings.Split(parts[2], "│")
	if len(p) < 3 {
		return "unparsed:" + line
	}
	by := strings.TrimSpace(p[1])
	if strings.HasPrefix(by, "err:") {
		by = "???"
	}
	name, arg := p[2], ""
	if len(p[2]) >= 4 {
		name, arg = p[2][:3], strings.TrimRight(p[2][4:], " ")
	}
	return fmt.Sprintf("%d %s|%s|%s|%s|%s %s %s|%s", cycles, p[0], by, name, arg, f[0], f[1], f[2], strings.ToUpper(f[4]))
}

func runTrace() {
	rep := report.New("trace", tier, seed)
	r := prng.New(seed ^ 0x7ace)
	perOp := 40
	if tier == "thorough" {
		perOp = 1500
	}
	var cases []cpuCase
	for op := 0; op < 256; op++ {
		for k := 0; k < perOp; k++ {
			c := genCPUCase(r.Fork(), op, k%4 != 0)
			c.steps = 1
			cases = append(cases, c)
		}
	}
	d, err := drv.Start(modelDrv)
	var replies []string
	if err == nil {
		defer d.Close()
		reqs := make([]string, 0, 2*len(cases))
		for _, c := range cases {
			tl := fmt.Sprintf("%s %x %s", c.regs.Canon(), c.seed, ovlString(c.ovl))
			reqs = append(reqs, "trace p "+tl, "trace a "+tl)
		}
		replies, err = d.Batch(reqs)
	}
	if err != nil {
		rep.Add(report.Finding{Property: "C14", Kind: "disagreement", Clause: "model driver unavailable", Detail: err.Error()})
	}
	distinct := map[string]bool{}
	var n int64
	for i, c := range cases {
		in := fmt.Sprintf("trace p %s %x %s", c.regs.Canon(), c.seed, ovlString(c.ovl))
		viol := func(clause, exp, act string) {
			rep.Add(report.Finding{Property: "C14", Kind: "violation", Clause: clause, Input: in, Expected: exp, Actual: act})
		}
		// ---- primary ----
		mem := cpuh.NewMem(c.seed)
		for a, v := range c.ovl {
			mem.Ovl[a] = v
		}
		p := cpuh.NewPrimary(mem)
		p.Set(c.regs)
		latch := []byte{1, 1, 2, 3, 0}[i%5] // a trace line may be written while an interrupt is pending
		p.CPU.Interrupt = latch
		var line string
		func() {
			defer func() {
				if rr := recover(); rr != nil {
					line = fmt.Sprint("panic: ", rr)
				}
			}()
			line = string(p.CPU.DisassembleCurrentPC(nil))
		}()
		n++
		if p.Get().Canon() != c.regs.Canon() || len(mem.Writes) != 0 || p.CPU.Interrupt != latch {
			viol(fmt.Sprintf("disassembling changed the CPU, the interrupt latch (%d -> %d) or wrote memory (primary)", latch, p.CPU.Interrupt), c.regs.Canon(), p.Get().Canon()+"|"+mem.WritesCanon())
		}
		got := canonPrimary(line)
		primaryLineOracle(&c, mem, line, got, viol)
		if replies != nil && replies[2*i] != got {
			rep.Add(report.Finding{Property: "C14", Kind: "disagreement", Clause: "Lean Cpu.traceRec vs cpu65c816.DisassembleCurrentPC", Input: in, Expected: replies[2*i] + " (model)", Actual: got + " (go)"})
		}
		// ---- alt ----
		memA := cpuh.NewMem(c.seed)
		for a, v := range c.ovl {
			memA.Ovl[a] = v
		}
		pa := cpuh.NewAlt(memA)
		pa.Set(c.regs)
		pa.CPU.Interrupt = latch
		var short string
		var long bytes.Buffer
		func() {
			defer func() {
				if rr := recover(); rr != nil {
					short = fmt.Sprint("panic: ", rr)
				}
			}()
			short = pa.CPU.Disassemble(pa.CPU.PC)
			pa.CPU.DisassembleCurrentPC(&long)
		}()
		if pa.Get().Canon() != c.regs.Canon() || len(memA.Writes) != 0 || pa.CPU.Interrupt != latch {
			viol("disassembling changed the CPU or wrote memory (alt)", c.regs.Canon(), pa.Get().Canon())
		}
		if replies != nil {
			m := replies[2*i+1]
			ms := strings.Split(m, "|")
			if len(ms) == 6 {
				if gs := canonAltShort(short); gs != strings.Join(ms[:4], "|") {
					rep.Add(report.Finding{Property: "C14", Kind: "disagreement", Clause: "Lean Cpu.traceRec vs cpualt.Disassemble", Input: strings.Replace(in, "trace p", "trace a", 1), Expected: strings.Join(ms[:4], "|") + " (model)", Actual: gs + " (go)"})
				}
				if gl := canonAltLong(long.String(), c.regs.Cycles); gl != m {
					rep.Add(report.Finding{Property: "C14", Kind: "disagreement", Clause: "Lean Cpu.traceRec vs cpualt.DisassembleTo", Input: strings.Replace(in, "trace p", "trace a", 1), Expected: m + " (model)", Actual: gl + " (go)"})
				}
			}
		}
		distinct[fmt.Sprintf("%s M%dX%d", c.tag, c.regs.M, c.regs.X)] = true
		rep.Count(fmt.Sprintf("cases M%dX%d", c.regs.M, c.regs.X))
		if i%4999 == 0 {
			rep.Sample(map[string]string{"case": in, "go": got})
		}
	}
	n += runRetrace(rep)
	rep.Evaluations = n
	rep.Distinct = int64(len(distinct))
	rep.Rule = "every opcode x boundary-biased register files (PC near $FFFF so that operand bytes wrap in the bank, all M/X/E combinations) x seeded memory: " +
		"cpu65c816.DisassembleCurrentPC, cpualt.Disassemble and cpualt.DisassembleTo parsed into (cycles, bank:pc, bytes, mnemonic, operand text, A/X/Y, flags) and compared with the " +
		"compiled Lean model; oracles: bytes shown = memory at the instruction's address; shown length = PC advance of the real Step for non-transferring opcodes; relative branches show the PC the real " +
		"Step reaches when taken; register/flag columns = live values; no register or memory change; one CPU object per package re-traces the same address six times in a row (bytes there replaced, the instruction executed in between, " +
		"M / X switched and switched back, original bytes restored; DisassembleCurrentPC and DisassembleTo alternately), every line under the same clauses and equal to the line of an object that traced nothing / something else before. evaluations = trace lines"
	rep.Emit()
}

// ---- the same CPU object traces the same location again after something changed ----
//
// A trace line describes the instruction that is at PBR:PC now, for the widths in force now. One CPU object of each package
// serves the whole pass and is asked for a line at the same address several times in a row: with the bytes there replaced
// (the harness rewrote the code, or the instruction executed in between modified it), with M / X switched and switched back,
// with the original bytes restored; through DisassembleCurrentPC and DisassembleTo alternately. Every line is put to the same
// clauses as above and compared with the line of a CPU object that has never traced anything.
func runRetrace(rep *report.Report) (n int64) {
	r := prng.New(seed ^ 0x7e7ace)
	perOp := 3
	if tier == "thorough" {
		perOp = 60
	}
	var p *cpuh.Primary
	for op := 0; op < 256; op++ {
		for k := 0; k < perOp; k++ {
			c := genCPUCase(r.Fork(), op, k%3 != 0)
			pcA := func(i int) uint32 { return uint32(c.regs.RK)<<16 | uint32(c.regs.PC+uint16(i)) }
			rewrite := func(st cpuCase) cpuCase {
				n := cpuCase{regs: st.regs, seed: st.seed, ovl: map[uint32]byte{}, tag: st.tag}
				for a, v := range st.ovl {
					n.ovl[a] = v
				}
				old := st.byteAt(pcA(0))
				nb := r.U8()
				if nb == old {
					nb = old + 1 + byte(r.N(255))
				}
				n.ovl[pcA(0)] = nb
				for i := 1; i < 4; i++ {
					if r.Chance(70) {
						n.ovl[pcA(i)] = r.U8()
					}
				}
				return n
			}
			widths := func(st cpuCase) cpuCase {
				n := st
				if n.regs.E == 0 {
					switch r.N(3) {
					case 0:
						n.regs.M ^= 1
					case 1:
						n.regs.X ^= 1
					default:
						n.regs.M ^= 1
						n.regs.X ^= 1
					}
				}
				return n
			}
			s1 := rewrite(c)
			s2 := widths(s1)
			s3 := rewrite(s2)
			s4 := s3
			s4.regs.M, s4.regs.X = s1.regs.M, s1.regs.X
			states := []cpuCase{c, s1, s2, s3, s4, c}
			what := []string{"first line", "bytes at the address replaced", "M / X switched", "bytes replaced again", "M / X switched back", "original bytes and widths again"}
			execBetween := r.Chance(30)
			prevIn := ""
			for si := range states {
				st := states[si]
				mem := cpuh.NewMem(st.seed)
				for a, v := range st.ovl {
					mem.Ovl[a] = v
				}
				if p == nil {
					p = cpuh.NewPrimary(mem)
				}
				p.Mem = mem
				cpuh.Rebind(p)
				p.Set(st.regs)
				in := fmt.Sprintf("trace p %s %x %s", st.regs.Canon(), st.seed, ovlString(st.ovl))
				full := in
				if prevIn != "" {
					full = "same CPU object, after [" + prevIn + "] now (" + what[si] + "): " + in
				}
				viol := func(clause, exp, act string) {
					rep.Add(report.Finding{Property: "C14", Kind: "violation", Clause: "re-tracing the same address on the same CPU object: " + clause, Input: full, Expected: exp, Actual: act})
				}
				var line string
				func() {
					defer func() {
						if rr := recover(); rr != nil {
							line = fmt.Sprint("panic: ", rr)
						}
					}()
					if si%2 == 0 {
						line = string(p.CPU.DisassembleCurrentPC(nil))
					} else {
						line = string(p.CPU.DisassembleTo(p.CPU.PC, nil))
					}
				}()
				n++
				if p.Get().Canon() != st.regs.Canon() || len(mem.Writes) != 0 {
					viol("disassembling changed the CPU or wrote memory (primary)", st.regs.Canon(), p.Get().Canon()+"|"+mem.WritesCanon())
				}
				primaryLineOracle(&st, mem, line, canonPrimary(line), viol)
				q := cpuh.NewPrimary(mem.Clone())
				q.Set(st.regs)
				ref := ""
				func() {
					defer func() { recover() }()
					ref = string(q.CPU.DisassembleCurrentPC(nil))
				}()
				if ref != line {
					viol("the line differs from the line of a CPU object that has traced nothing before (same registers, same memory)", ref, line)
				}
				cpuh.Rebind(p)
				// alt: Disassemble / DisassembleTo on the shared object against a reference object that looked elsewhere in between
				memA := mem.Clone()
				pa := cpuh.NewAlt(memA)
				pa.Set(st.regs)
				short, long := altLines(pa)
				n++
				if fs := strings.Split(canonAltShort(short), "|"); len(fs) == 4 && fs[1] != "???" {
					var exp []string
					for i := range strings.Fields(fs[1]) {
						exp = append(exp, fmt.Sprintf("%02x", st.byteAt(pcA(i))))
					}
					if strings.Join(exp, " ") != fs[1] {
						rep.Add(report.Finding{Property: "C14", Kind: "violation", Clause: "re-tracing the same address on the same CPU object: bytes shown are not the bytes at the instruction's address (cpualt)",
							Input: strings.Replace(full, "trace p", "trace a", -1), Expected: strings.Join(exp, " "), Actual: fs[1]})
					}
				}
				if refS, refL := altReference(st, memA); refS != short || refL != long {
					rep.Add(report.Finding{Property: "C14", Kind: "violation", Clause: "re-tracing the same address on the same CPU object: the line differs from the line of another CPU object that traced a different place before (cpualt, same registers, same memory)",
						Input: strings.Replace(full, "trace p", "trace a", -1), Expected: refS + " / " + refL, Actual: short + " / " + long})
				}
				rep.Count("re-trace: " + what[si])
				// self-modifying code: the instruction executes on the same object, the next state keeps whatever it wrote
				if execBetween && si == 0 {
					if _, _, pn := p.Step(); pn == "" {
						for _, a := range mem.Writes {
							for j := si + 1; j < len(states)-1; j++ {
								if a != pcA(0) && a != pcA(1) && a != pcA(2) && a != pcA(3) { // the rewritten instruction bytes stay as rewritten
									states[j].ovl[a] = mem.Ovl[a]
								}
							}
						}
						rep.Count("re-trace: the instruction executed on the same object in between")
					}
				}
				prevIn = in
			}
		}
	}
	return n
}

var altRef *cpualt.CPU
var altRefMem *cpuh.Mem

func altLines(pa *cpuh.Alt) (short, long string) {
	var lb bytes.Buffer
	func() {
		defer func() {
			if rr := recover(); rr != nil {
				short = fmt.Sprint("panic: ", rr)
			}
		}()
		short = pa.CPU.Disassemble(pa.CPU.PC)
		pa.CPU.DisassembleCurrentPC(&lb)
	}()
	return short, lb.String()
}

// altReference: the lines of a second cpualt object for the same state; before that it is made to trace a different address
func altReference(st cpuCase, mem *cpuh.Mem) (short, long string) {
	if altRef == nil {
		altRef = &cpualt.CPU{}
		altRef.Init()
		altRef.Bus.AttachReader(0, 0xFFFFFF, func(a uint32) uint8 { return altRefMem.Get(a) })
		altRef.Bus.AttachWriter(0, 0xFFFFFF, func(a uint32, v uint8) {})
	}
	altRefMem = mem
	ra := &cpuh.Alt{CPU: altRef, Mem: mem}
	elsewhere := st.regs
	elsewhere.PC ^= 0x5555
	elsewhere.RK ^= 0x55
	ra.Set(elsewhere)
	altLines(ra)
	ra.Set(st.regs)
	return altLines(ra)
}

// primaryLineOracle: the property's clauses on one line of the primary disassembler (parsed: got) for the state c describes;
// mem holds c's memory (it is cloned for the Step that tells the executed length and the branch destination)
func primaryLineOracle(c *cpuCase, mem *cpuh.Mem, line, got string, viol func(clause, exp, act string)) {
	// oracles on the parsed line, from the interpreter itself
	fields := strings.Split(got, "|")
	if len(fields) == 6 {
		opc := c.byteAt(uint32(c.regs.RK)<<16 | uint32(c.regs.PC))
		// bytes shown = bytes at PBR:PC.. (wrapping in the bank), as many as the interpreter consumes
		nb := len(strings.Fields(fields[1]))
		var exp []string
		for k := 0; k < nb; k++ {
			exp = append(exp, fmt.Sprintf("%02x", c.byteAt(uint32(c.regs.RK)<<16|uint32(c.regs.PC+uint16(k)))))
		}
		if fields[1] != "???" && strings.Join(exp, " ") != fields[1] {
			viol("bytes shown are not the bytes at the instruction's address", strings.Join(exp, " "), fields[1])
		}
		// executed length: run the instruction; for non-transferring opcodes the PC advances by the shown length
		p2 := cpuh.NewPrimary(mem.Clone())
		p2.Set(c.regs)
		if _, _, pn := p2.Step(); pn == "" {
			after := p2.Get()
			adv := int(after.PC - c.regs.PC)
			if !isTransfer(opc) && after.RK == c.regs.RK && adv != nb {
				viol(fmt.Sprintf("opcode %02x: %d bytes shown but the interpreter advanced the PC by %d", opc, nb, adv), fmt.Sprint(adv), fmt.Sprint(nb))
			}
			// a relative branch shows where it leads: compare with the real PC after a taken branch
			if isRel8(opc) && adv != 2 {
				dest := fmt.Sprintf("($%04x", after.PC)
				if !strings.Contains(fields[3], dest) {
					viol(fmt.Sprintf("branch %02x leads to %04x but the trace shows %q", opc, after.PC, fields[3]), dest, fields[3])
				}
			}
			if opc == 0x82 { // BRL always taken
				if fields[3] != fmt.Sprintf("$%04x", after.PC) {
					viol("BRL destination", fmt.Sprintf("$%04x", after.PC), fields[3])
				}
			}
		}
		// register / flag columns
		g := c.regs
		sh := func(w bool, v16 uint16, v8 uint8) string {
			if w {
				return fmt.Sprintf("%04x", v16)
			}
			return fmt.Sprintf("--%02x", v8)
		}
		regs := "A=" + sh(g.M == 0, g.RA, g.RAl) + " X=" + sh(g.X == 0, g.RX, g.RXl) + " Y=" + sh(g.X == 0, g.RY, g.RYl)
		if fields[4] != regs {
			viol("register columns do not show the live register values", regs, fields[4])
		}
		fl := []byte("NVMXDIZC")
		for k, b := range []byte{g.N, g.V, g.M, g.X, g.D, g.I, g.Z, g.C} {
			if b == 0 {
				fl[k] = '-'
			}
		}
		if fields[5] != string(fl) {
			viol("flag column", string(fl), fields[5])
		}
	} else {
		viol("trace line does not have the documented shape", "", line)
	}
}

func isRel8(op byte) bool { return op&0x1F == 0x10 || op == 0x80 }

// opcodes that set PC themselves or may (branches, jumps, calls, returns, interrupts, block moves, STP/WAI are not transfers)
func isTransfer(op byte) bool {
	if isRel8(op) {
		return true
	}
	switch op {
	case 0x00, 0x02, 0x20, 0x22, 0x40, 0x4C, 0x5C, 0x60, 0x6B, 0x6C, 0x7C, 0x82, 0xDC, 0xFC, 0x44, 0x54:
		return true
	}
	return false
}
