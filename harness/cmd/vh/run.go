package main

// vh run — System.RunUntil (and the same loop around cpualt.Step) against the Lean model Sys.runUntil and against
// property oracles computed from an independent single-step replay: result, final state, cycle budget, target never
// executed, OnPC / OnWDM callback sequences, Logger.Write count.

import (
	"fmt"
	"io"
	"strings"

	"github.com/alttpo/snes/emulator"

	"verifharness/internal/cpuh"
	"verifharness/internal/drv"
	"verifharness/internal/prng"
	"verifharness/internal/report"
)

func init() { components["run"] = func(string) { runRunUntil() } }

type runCase struct {
	cpuCase
	logger bool
	target uint32
	max    uint64
	cbs    []uint32
	tag2   string
	latch  byte // CPU.Interrupt on entry (1 = interruptNone, 2 = NMI, 3 = IRQ, 0 = fresh CPU)
	lkind  int  // which kind of Logger (see loggerKinds); the model only knows whether there is one
	long   bool // a loop that runs for hundreds of iterations
	hiTarget bool // the target has bits above bit 23 set
	resumed  bool // a second RunUntil on the same System, started where the previous one stopped, after the code there was rewritten
}

// input: the replayable case line plus the kind of Logger object used on the Go side
func (c runCase) input(variant string) string {
	l := c.line(variant)
	if c.resumed {
		l += " resumed: second RunUntil on the same System / CPU object, which stopped here in a traced run before the bytes at this address were replaced"
	}
	if !c.logger {
		return l
	}
	return l + " logger=" + loggerKinds[c.lkind]
}

func (c runCase) line(variant string) string {
	cb := "-"
	if len(c.cbs) > 0 {
		ss := make([]string, len(c.cbs))
		for i, a := range c.cbs {
			ss[i] = fmt.Sprintf("%x", a)
		}
		cb = strings.Join(ss, ",")
	}
	lg := "0"
	if c.logger {
		lg = "1"
	}
	return fmt.Sprintf("runu %s %s %x %x %s %x %s %x %s", variant, lg, c.target, c.max, cb, c.latch, c.regs.Canon(), c.seed, ovlString(c.ovl))
}

type countingWriter struct {
	writes int
	bytes  int
	lines  []string
}

func (w *countingWriter) Write(p []byte) (int, error) {
	w.writes++
	w.bytes += len(p)
	if len(w.lines) < 4096 {
		w.lines = append(w.lines, string(p))
	}
	return len(p), nil
}

// Loggers implementing the optional interfaces System.RunUntil looks for (emulator.Reserver, emulator.Committer), each alone and
// together, and one that also offers the optional interfaces of the standard library's writers. All record through Write.
var loggerKinds = []string{"plain io.Writer", "Writer+Reserver", "Writer+Committer", "Writer+Reserver+Committer", "Writer+Reserver+Committer+StringWriter/ByteWriter/ReaderFrom/Flush/Sync/Close"}

type reservingWriter struct {
	countingWriter
	reserved []int
}

func (w *reservingWriter) Reserve(n int) { w.reserved = append(w.reserved, n) }

type committingWriter struct {
	countingWriter
	commits int
}

func (w *committingWriter) Commit() { w.commits++ }

type bufferedLogWriter struct {
	countingWriter
	reserved []int
	commits  int
}

func (w *bufferedLogWriter) Reserve(n int) { w.reserved = append(w.reserved, n) }
func (w *bufferedLogWriter) Commit()       { w.commits++ }

type richLogWriter struct{ bufferedLogWriter }

func (w *richLogWriter) WriteString(s string) (int, error) { return w.Write([]byte(s)) }
func (w *richLogWriter) WriteByte(b byte) error            { _, err := w.Write([]byte{b}); return err }
func (w *richLogWriter) ReadFrom(r io.Reader) (int64, error) {
	b, err := io.ReadAll(r)
	n, _ := w.Write(b)
	return int64(n), err
}
func (w *richLogWriter) Flush() error { return nil }
func (w *richLogWriter) Sync() error  { return nil }
func (w *richLogWriter) Close() error { return nil }
func (w *richLogWriter) Grow(n int)   {}

func newLogger(kind int) (io.Writer, *countingWriter) {
	switch kind {
	case 1:
		w := &reservingWriter{}
		return w, &w.countingWriter
	case 2:
		w := &committingWriter{}
		return w, &w.countingWriter
	case 3:
		w := &bufferedLogWriter{}
		return w, &w.countingWriter
	case 4:
		w := &richLogWriter{}
		return w, &w.countingWriter
	}
	w := &countingWriter{}
	return w, w
}

type runObs struct {
	panic   string
	reached bool
	regs    cpuh.Regs
	writes  string
	logs    int
	lines   []string
	onpc    []uint32
	wdm     []byte
	maxA    uint32
	ovl     map[uint32]byte // memory overlay after the run (preset bytes and everything written)
}

func (o runObs) String(cycles uint64) string {
	if o.panic != "" {
		return "crash " + o.panic
	}
	on := make([]string, len(o.onpc))
	for i, a := range o.onpc {
		on[i] = fmt.Sprintf("%x", a)
	}
	wd := make([]string, len(o.wdm))
	for i, a := range o.wdm {
		wd[i] = fmt.Sprintf("%x", a)
	}
	b := "0"
	if o.reached {
		b = "1"
	}
	return fmt.Sprintf("done %s %s %x %x [%s] [%s]|%s", b, o.regs.Canon(), cycles, o.logs, strings.Join(on, ","), strings.Join(wd, ","), o.writes)
}

var sharedSys *emulator.System
var sysDelegate = &sysMem{}

// sysMem routes the System's bus to the case's memory. It also bounds a run: a RunUntil that is still accessing memory after
// runawayAccesses accesses (the longest legitimate run of the generator needs well under a million; budgets of 2^31.. cycles are only given
// to programs known to reach their target) is stopped by a panic, which runSystem reports as the outcome of the run.
type sysMem struct {
	cur  *cpuh.Mem
	left int64
}

const runawayAccesses = 8 << 20

func (d *sysMem) tick() {
	d.left--
	if d.left < 0 {
		panic(fmt.Sprintf("runaway: RunUntil still running after %d memory accesses", runawayAccesses))
	}
}

func (d *sysMem) Read(a uint32) byte     { d.tick(); return d.cur.Read(a) }
func (d *sysMem) Write(a uint32, v byte) { d.tick(); d.cur.Write(a, v) }
func (d *sysMem) Shutdown()              {}
func (d *sysMem) Size() uint32           { return 1 << 24 }
func (d *sysMem) Clear()                 {}
func (d *sysMem) Dump(uint32) []byte     { return nil }

// the real System.RunUntil with the primary CPU; whole bus mapped to the seeded memory
func runSystem(c runCase) (o runObs) {
	mem := cpuh.NewMem(c.seed)
	for a, v := range c.ovl {
		mem.Ovl[a] = v
	}
	if sharedSys == nil {
		sharedSys = &emulator.System{}
		sharedSys.CPU.Init(&sharedSys.Bus)
		if err := sharedSys.Bus.Attach(sysDelegate, "all", 0, 0xFFFFFF); err != nil {
			panic(err)
		}
	}
	sysDelegate.cur, sysDelegate.left = mem, runawayAccesses
	s := sharedSys
	p := &cpuh.Primary{CPU: &s.CPU, Mem: mem}
	p.Set(c.regs)
	s.CPU.Interrupt = c.latch
	s.CPU.OnPC = map[uint32]func(){}
	for _, a := range c.cbs {
		a := a
		s.CPU.OnPC[a] = func() { o.onpc = append(o.onpc, a) }
	}
	s.CPU.OnWDM = func(v byte) { o.wdm = append(o.wdm, v) }
	var w *countingWriter
	s.Logger = nil
	if c.logger {
		s.Logger, w = newLogger(c.lkind)
	}
	func() {
		defer func() {
			if r := recover(); r != nil {
				o.panic = fmt.Sprint(r)
			}
		}()
		o.reached = s.RunUntil(c.target, c.max)
	}()
	o.regs = p.Get()
	o.writes = mem.WritesCanon()
	o.maxA = mem.MaxA
	o.ovl = make(map[uint32]byte, len(mem.Ovl))
	for a, v := range mem.Ovl {
		o.ovl[a] = v
	}
	if w != nil {
		o.logs = w.writes
		o.lines = w.lines
	}
	s.CPU.OnPC, s.CPU.OnWDM, s.Logger = nil, nil, nil
	return
}

// the same loop around cpualt.CPU.Step (the System type only embeds the primary CPU); no logger
func runAltLoop(c runCase) (o runObs) {
	mem := cpuh.NewMem(c.seed)
	for a, v := range c.ovl {
		mem.Ovl[a] = v
	}
	p := cpuh.NewAlt(mem)
	p.Set(c.regs)
	p.CPU.Interrupt = c.latch
	p.CPU.OnPC = map[uint32]func(){}
	for _, a := range c.cbs {
		a := a
		p.CPU.OnPC[a] = func() { o.onpc = append(o.onpc, a) }
	}
	p.CPU.OnWDM = func(v byte) { o.wdm = append(o.wdm, v) }
	getPC := func() uint32 { return uint32(p.CPU.RK)<<16 | uint32(p.CPU.PC) }
	for cycles := uint64(0); cycles < c.max; {
		if getPC() == c.target {
			break
		}
		n, _, pn := p.Step()
		if pn != "" {
			o.panic = pn
			break
		}
		cycles += uint64(n)
	}
	o.reached = getPC() == c.target
	o.regs = p.Get()
	o.writes = mem.WritesCanon()
	o.maxA = mem.MaxA
	p.CPU.OnPC, p.CPU.OnWDM = nil, nil
	return
}

// independent replay by single steps, no callbacks: what RunUntil must have done
type replay struct {
	pcs    []uint32 // address of each executed instruction
	opAt   []uint32 // where its opcode was fetched (differs from pcs only when the first Step entered a pending interrupt: the handler's first instruction)
	before []uint64 // cycles consumed before it
	wdm    []byte
	final  cpuh.Regs
	writes string
	cycles uint64
	iters  int
	lines  []string // primary only: DisassembleCurrentPC at the top of every iteration
	panic  string
	wdmUnknown bool
}

func replayCase(c runCase, variant string) (rp replay) {
	mem := cpuh.NewMem(c.seed)
	for a, v := range c.ovl {
		mem.Ovl[a] = v
	}
	var step func() (int, bool, string)
	var get func() cpuh.Regs
	var dis func() string
	if variant == "p" {
		p := cpuh.NewPrimary(mem)
		p.Set(c.regs)
		p.CPU.Interrupt = c.latch
		step, get = p.Step, p.Get
		// the expected trace line is produced on a detached copy of the processor and of the memory, so that this replay
		// stays free of any tracing (it is the Logger-free reference for C14)
		dis = func() string {
			cl := mem.Clone()
			q := cpuh.NewPrimary(cl)
			q.Set(p.Get())
			q.CPU.Interrupt = p.CPU.Interrupt
			line := string(q.CPU.DisassembleCurrentPC(nil))
			cpuh.Rebind(p)
			return line
		}
	} else {
		p := cpuh.NewAlt(mem)
		p.Set(c.regs)
		p.CPU.Interrupt = c.latch
		step, get = p.Step, p.Get
	}
	for rp.cycles < c.max {
		rp.iters++
		if dis != nil && c.logger && len(rp.lines) < 4096 {
			rp.lines = append(rp.lines, dis())
		}
		g := get()
		pc := uint32(g.RK)<<16 | uint32(g.PC)
		if pc == c.target {
			break
		}
		opc := mem.Get(pc)
		opAt := pc
		nw := len(mem.Writes)
		n, _, pn := step()
		if len(rp.pcs) == 0 && (c.latch == 2 || c.latch == 3) && pn == "" {
			// the first Step entered the interrupt: the instruction executed is the handler's first one, at PRK:PPC
			g := get()
			a := uint32(g.PRK)<<16 | uint32(g.PPC)
			opc = mem.Get(a)
			opAt = a
			for _, w := range mem.Writes[nw:] {
				if w == a {
					rp.wdmUnknown = true // the entry sequence or the instruction overwrote its own opcode
				}
			}
		}
		if pn != "" {
			rp.panic = pn
			break
		}
		if n < 1 {
			rp.panic = "Step reported 0 cycles: the loop would not terminate"
			break
		}
		rp.pcs = append(rp.pcs, pc)
		rp.opAt = append(rp.opAt, opAt)
		rp.before = append(rp.before, rp.cycles)
		if opc == 0x42 {
			rp.wdm = append(rp.wdm, get().WDM)
		}
		rp.cycles += uint64(n)
	}
	rp.final = get()
	rp.writes = mem.WritesCanon()
	return
}

// program templates with real control flow (loops, subroutine, WDM, STP) at $00:8000.. or a random bank
func genRunCase(r *prng.R) runCase {
	var c runCase
	hugeOK := false
	kind := r.N(10)
	switch {
	case kind < 5: // structured loop
		c.cpuCase = genCPUCase(r.Fork(), -1, true)
		c.regs.E, c.regs.D, c.regs.Stopped = 0, 0, false
		c.regs.PC = []uint16{0x8000, 0x0200, 0xFFE0, pick16(r)}[r.N(4)]
		c.regs.SP = 0x01FF
		base := c.regs.PC
		put := func(off int, bs ...byte) int {
			for i, b := range bs {
				c.ovl[uint32(c.regs.RK)<<16|uint32(base+uint16(off+i))] = b
			}
			return off + len(bs)
		}
		n := byte(1 + r.N(12))
		long := r.Chance(25)
		if long {
			n = byte(20 + r.N(236)) // needs well over 256 cycles to leave the loop
		}
		o := 0
		o = put(o, 0xE2, 0x30)       // SEP #$30
		o = put(o, 0xA2, n)          // LDX #n
		loop := o
		o = put(o, 0x42, byte(r.N(256))) // WDM #imm
		if r.Chance(50) {
			o = put(o, 0xEA) // NOP
		}
		if r.Chance(40) {
			o = put(o, 0x48, 0x68) // PHA PLA
		}
		o = put(o, 0xCA)                         // DEX
		o = put(o, 0xD0, byte(loop-(o+2)))       // BNE loop
		end := o
		o = put(o, 0xDB) // STP
		_ = o
		c.regs.M, c.regs.X = b01(r), b01(r)
		c.tag2 = "loop"
		addr := func(off int) uint32 { return uint32(c.regs.RK)<<16 | uint32(base+uint16(off)) }
		switch r.N(5) {
		case 0:
			c.target = addr(end)
		case 1:
			c.target = addr(loop)
		case 2:
			c.target = addr(0)
		case 3:
			c.target = addr(end + 1)
		default:
			c.target = r.U32() & 0xFFFFFF
		}
		for k := r.N(4); k > 0; k-- {
			c.cbs = append(c.cbs, addr(r.N(end+2)))
		}
		c.max = []uint64{0, 1, 2, 7, 30, 100, 400, 3000}[r.N(8)]
		if long {
			c.max = []uint64{255, 256, 257, 300, 1000, 5000, 20000, 70000}[r.N(8)]
			hugeOK = true
			c.long = true
		}
	default: // random program
		c.cpuCase = genCPUCase(r.Fork(), -1, kind != 9)
		c.tag2 = "random"
		c.max = []uint64{0, 1, 3, 10, 40, 150}[r.N(6)]
		if r.Chance(8) {
			c.max = []uint64{256, 257, 400, 1200}[r.N(4)]
		}
	}
	if c.tag2 == "random" || r.Chance(20) {
		// targets / callbacks from the actual trace
		pre := c
		pre.target, pre.max = 0x1000000, 200
		rp := replayCase(pre, "p")
		pool := append([]uint32{uint32(c.regs.RK)<<16 | uint32(c.regs.PC), uint32(rp.final.RK)<<16 | uint32(rp.final.PC)}, rp.pcs...)
		if c.tag2 == "random" {
			c.target = pool[r.N(len(pool))]
			if r.Chance(25) {
				c.target = r.U32() & 0xFFFFFF
			}
			c.cbs = nil
		}
		for k := r.N(4); k > 0; k-- {
			c.cbs = append(c.cbs, pool[r.N(len(pool))])
		}
	}
	// de-duplicate callbacks (a map has one entry per address)
	seen := map[uint32]bool{}
	var cb []uint32
	for _, a := range c.cbs {
		if !seen[a] {
			seen[a] = true
			cb = append(cb, a)
		}
	}
	c.cbs = cb
	c.logger = r.Chance(40)
	if c.logger && r.Chance(65) {
		c.lkind = 1 + r.N(len(loggerKinds)-1)
	}
	c.steps = 0
	c.latch = 1
	if r.Chance(15) {
		c.latch = []byte{2, 3, 3, 0}[r.N(4)] // an NMI / IRQ is pending when RunUntil is entered (or the latch holds the zero value)
		if r.Chance(50) {
			c.regs.I = 0
		}
	}
	if r.Chance(12) {
		// integer extremes of the target argument: bits above the 24-bit address space are set, so K:PC can never equal it
		// (the low 24 bits are usually an address the program does reach)
		switch r.N(5) {
		case 0:
			c.target = 0xFFFFFFFF
		case 1:
			c.target |= 0x1000000
		case 2:
			c.target |= 0x80000000
		default:
			c.target |= uint32(1+r.N(255)) << 24
		}
		c.hiTarget = true
	}
	if hugeOK && r.Chance(30) {
		// a budget beyond any machine word arithmetic on it, only when the target is known to be reached
		pre := c
		pre.max, pre.logger = 20000, false
		if rp := replayCase(pre, "p"); rp.panic == "" && uint32(rp.final.RK)<<16|uint32(rp.final.PC) == c.target {
			if ra := replayCase(pre, "a"); ra.panic == "" && uint32(ra.final.RK)<<16|uint32(ra.final.PC) == c.target {
				c.max = []uint64{1 << 31, 1 << 32, 1<<32 + 5, 1 << 40, 1<<63 - 1, 1 << 63, ^uint64(0)}[r.N(7)]
			}
		}
	}
	return c
}

// resumedCase: start state = the end state of the run `o` of case c (registers, memory), with the bytes at the address the run
// stopped at replaced by another instruction; traced; a small budget and a target nearby, the old target, or none
func resumedCase(c runCase, o runObs, r *prng.R) runCase {
	n := c
	n.cpuCase = cpuCase{regs: o.regs, seed: c.seed, ovl: map[uint32]byte{}, tag: c.tag}
	for a, v := range o.ovl {
		n.ovl[a] = v
	}
	at := func(i int) uint32 { return uint32(o.regs.RK)<<16 | uint32(o.regs.PC+uint16(i)) }
	old := n.byteAt(at(0))
	nb := r.U8()
	if nb == old {
		nb = old + 1 + byte(r.N(255))
	}
	n.ovl[at(0)] = nb
	for i := 1; i < 4; i++ {
		if r.Chance(70) {
			n.ovl[at(i)] = r.U8()
		}
	}
	switch r.N(5) {
	case 0:
		n.target = c.target & 0xFFFFFF
	case 1:
		n.target = r.U32() & 0xFFFFFF
	default:
		n.target = at(1 + r.N(4))
	}
	n.max = []uint64{1, 2, 5, 12, 40}[r.N(5)]
	n.logger, n.lkind = true, r.N(len(loggerKinds))
	n.cbs, n.latch, n.long, n.hiTarget, n.resumed = nil, 1, false, false, true
	n.tag2 = "resumed"
	return n
}

func eqU32(a, b []uint32) bool {
	if len(a) != len(b) {
		return false
	}
	for i := range a {
		if a[i] != b[i] {
			return false
		}
	}
	return true
}

func runRunUntil() {
	rep := report.New("run", tier, seed)
	r := prng.New(seed)
	n := 3000
	if tier == "thorough" {
		n = 60000
	}
	cases := make([]runCase, n)
	for i := range cases {
		cases[i] = genRunCase(r.Fork())
	}
	d, err := drv.Start(modelDrv)
	var repP, repA []string
	if err == nil {
		defer d.Close()
		reqs := make([]string, 0, 2*n)
		// the compiled model is slow on runs of thousands of steps: only some of the long loops are sent to it (the others are
		// still checked against the single-step replay and the Logger-free run)
		longBudget := min(n/75, 160)
		var sent []int
		for i, c := range cases {
			if c.long {
				if longBudget == 0 {
					continue
				}
				longBudget--
			}
			sent = append(sent, i)
			reqs = append(reqs, c.line("p"))
			ca := c
			ca.logger = false
			reqs = append(reqs, ca.line("a"))
		}
		var all []string
		all, err = d.Batch(reqs)
		if err == nil {
			repP, repA = make([]string, n), make([]string, n)
			for k, i := range sent {
				repP[i], repA[i] = all[2*k], all[2*k+1]
			}
		}
	}
	if err != nil {
		rep.Add(report.Finding{Property: "C12", Kind: "disagreement", Clause: "model driver unavailable", Detail: err.Error()})
	}
	distinct := map[string]bool{}
	var evals int64
	process := func(i int, c runCase, modelP, modelA string) (po runObs) {
		for vi, variant := range []string{"p", "a"} {
			cc := c
			var o runObs
			if variant == "p" {
				o = runSystem(cc)
				po = o
			} else {
				cc.logger = false
				o = runAltLoop(cc)
			}
			vname := []string{"System.RunUntil (primary)", "RunUntil loop over cpualt"}[vi]
			rp := replayCase(cc, variant)
			evals += int64(len(rp.pcs))
			in := cc.input(variant)
			viol := func(clause, exp, act string) {
				rep.Add(report.Finding{Property: "C12", Kind: "violation", Clause: vname + ": " + clause, Input: in, Expected: exp, Actual: act})
			}
			if o.panic != "" || rp.panic != "" {
				viol("RunUntil / Step failed: "+o.panic+rp.panic, "", "")
				if cc.logger && variant == "p" && rp.panic == "" && strings.HasPrefix(o.panic, "runaway") {
					rep.Add(report.Finding{Property: "C14", Kind: "violation", Clause: "running with a Logger changed the run: the Logger-free replay ends after " + fmt.Sprint(rp.cycles) + " cycles, the traced RunUntil does not end",
						Input: in, Expected: rp.final.Canon() + "|" + rp.writes, Actual: o.panic})
				}
				continue
			}
			finalPC := uint32(o.regs.RK)<<16 | uint32(o.regs.PC)
			if o.reached != (finalPC == cc.target) {
				viol("result is not (PC == target) on exit", fmt.Sprint(finalPC == cc.target), fmt.Sprint(o.reached))
			}
			if o.regs.Canon() != rp.final.Canon() || o.writes != rp.writes {
				viol("final state differs from stepping while cycles < max and PC != target", rp.final.Canon()+"|"+rp.writes, o.regs.Canon()+"|"+o.writes)
			}
			startPC := uint32(cc.regs.RK)<<16 | uint32(cc.regs.PC)
			if startPC == cc.target && (o.regs.Canon() != cc.regs.Canon() || o.writes != "" || len(o.onpc) != 0 || len(o.wdm) != 0) {
				viol("already at the target but something executed", cc.regs.Canon(), o.regs.Canon())
			}
			if o.regs.AllCycles != cc.regs.AllCycles+rp.cycles {
				viol("AllCycles did not grow by the cycles the loop consumed", fmt.Sprint(cc.regs.AllCycles+rp.cycles), fmt.Sprint(o.regs.AllCycles))
			}
			for k := range rp.pcs {
				if rp.before[k] >= cc.max || rp.pcs[k] == cc.target {
					viol("an instruction ran outside the budget or at the target", "", fmt.Sprintf("pc=%x before=%d", rp.pcs[k], rp.before[k]))
				}
			}
			// callbacks: exactly once before each executed instruction at a registered address, in order
			var expOn []uint32
			isCb := map[uint32]bool{}
			for _, a := range cc.cbs {
				isCb[a] = true
			}
			for _, pc := range rp.pcs {
				if isCb[pc] {
					expOn = append(expOn, pc)
				}
			}
			if !eqU32(o.onpc, expOn) {
				viol("OnPC callback sequence", fmt.Sprintf("%x", expOn), fmt.Sprintf("%x", o.onpc))
			}
			if string(o.wdm) != string(rp.wdm) && !rp.wdmUnknown {
				viol("OnWDM operand sequence", fmt.Sprintf("%x", rp.wdm), fmt.Sprintf("%x", o.wdm))
			}
			// WDM operand = the byte after the opcode (structured programs are not self-modifying)
			if c.tag2 == "loop" {
				var expW []byte
				for _, pc := range rp.opAt {
					if cc.byteAt(pc) == 0x42 {
						expW = append(expW, cc.byteAt(pc&0xFF0000|uint32(uint16(pc)+1)))
					}
				}
				if string(o.wdm) != string(expW) && !rp.wdmUnknown {
					viol("OnWDM did not receive the WDM operand bytes", fmt.Sprintf("%x", expW), fmt.Sprintf("%x", o.wdm))
				}
			}
			if cc.logger && variant == "p" {
				for k := 0; k < len(o.lines) && k < len(rp.lines); k++ {
					if o.lines[k] != rp.lines[k] {
						rep.Add(report.Finding{Property: "C14", Kind: "violation", Clause: fmt.Sprintf("trace line %d is not the disassembly of the instruction about to execute", k+1), Input: in, Expected: rp.lines[k], Actual: o.lines[k]})
						break
					}
				}
				if o.logs != rp.iters {
					rep.Add(report.Finding{Property: "C14", Kind: "violation", Clause: "Logger.Write count is not one per loop iteration", Input: in, Expected: fmt.Sprint(rp.iters), Actual: fmt.Sprint(o.logs)})
				}
				if o.regs.Canon() != rp.final.Canon() || o.writes != rp.writes {
					rep.Add(report.Finding{Property: "C14", Kind: "violation", Clause: "running with a Logger changed the final state (compared with the Logger-free replay)", Input: in, Expected: rp.final.Canon() + "|" + rp.writes, Actual: o.regs.Canon() + "|" + o.writes})
				}
				// the property's first sentence, directly: the same RunUntil call without a Logger
				un := cc
				un.logger = false
				ou := runSystem(un)
				if ou.panic == "" && (o.regs.Canon() != ou.regs.Canon() || o.writes != ou.writes || o.reached != ou.reached) {
					rep.Add(report.Finding{Property: "C14", Kind: "violation", Clause: "RunUntil with a Logger (" + loggerKinds[cc.lkind] + ") ends with other registers / flags / cycle totals / memory than the same call without a Logger",
						Input: in, Expected: fmt.Sprintf("reached=%v %s|%s (no Logger)", ou.reached, ou.regs.Canon(), ou.writes), Actual: fmt.Sprintf("reached=%v %s|%s", o.reached, o.regs.Canon(), o.writes)})
				}
				rep.Count("traced run, Logger: " + loggerKinds[cc.lkind])
				if rp.cycles > 256 {
					rep.Count("traced run consuming more than 256 cycles")
				}
			}
			if cc.logger && o.logs != rp.iters {
				viol("Logger.Write count is not one per loop iteration", fmt.Sprint(rp.iters), fmt.Sprint(o.logs))
			}
			// model correspondence
			mrep := modelP
			if variant == "a" {
				mrep = modelA
			}
			if mrep != "" {
				got := o.String(rp.cycles)
				if mrep != got {
					rep.Add(report.Finding{Property: "C12", Kind: "disagreement", Clause: "Lean Sys.runUntil vs " + vname, Input: in, Expected: mrep + " (model)", Actual: got + " (go)"})
				}
			}
			if c.hiTarget {
				rep.Count("target with bits above bit 23 set")
				if cc.logger {
					rep.Count("target with bits above bit 23 set, traced")
				}
			}
			cls := fmt.Sprintf("%s reached=%v steps=%s cbs=%d log=%v", c.tag2, o.reached, bucket(len(rp.pcs)), len(o.onpc), cc.logger)
			distinct[cls] = true
			rep.Count("outcome " + c.tag2 + fmt.Sprintf(" reached=%v", o.reached))
			rep.Count("steps " + bucket(len(rp.pcs)))
			if len(o.onpc) > 0 {
				rep.Count("runs with OnPC calls")
			}
			if len(o.wdm) > 0 {
				rep.Count("runs with OnWDM calls")
			}
			if i%997 == 0 && vi == 0 {
				rep.Sample(map[string]string{"case": in, "go": o.String(rp.cycles)})
			}
		}
		return
	}
	for i, c := range cases {
		mp, ma := "", ""
		if repP != nil {
			mp, ma = repP[i], repA[i]
		}
		po := process(i, c, mp, ma)
		// resumed run: the same System (same CPU object, which has just traced the line of the address it stopped at) continues from
		// there after the harness rewrote the code at that address; everything is judged by the same clauses (replay on fresh objects)
		if c.logger && po.panic == "" && po.ovl != nil && (po.reached || i%3 == 0) {
			cont := resumedCase(c, po, prng.New(seed^0x2e5+uint64(i)*0x9E3779B9))
			rep.Count("resumed run on the same System after the code at the stop address was rewritten")
			process(-1, cont, "", "")
		}
	}
	rep.Evaluations = evals
	rep.Distinct = int64(len(distinct))
	rep.CountN("cases", int64(2*len(cases)))
	rep.Rule = "structured programs (SEP; LDX #n; loop: WDM #k; [NOP] [PHA PLA] DEX; BNE loop; STP) and random programs over a seeded 16 MiB image; targets: loop head, exit, start (already there), " +
		"one past the end, addresses taken from the real trace, random; budgets 0..3000 cycles, a quarter of the loops run 20..255 times with budgets 255..70000 and (target known to be reached) 2^31..2^64-1; 0..3 OnPC callbacks on trace addresses; OnWDM always set; " +
		"an eighth of the targets have bits above bit 23 set ($FFFFFFFF, $1000000 / $80000000 / a random high byte over a target of the usual kinds: never equal to K:PC); after traced runs the same System runs again from where it stopped with the code at that address rewritten (resumed runs); " +
		"Logger on 40%: a plain io.Writer or one implementing the optional interfaces RunUntil looks for (Reserver, Committer, both, plus the standard writers' optional interfaces); every traced run is also compared with the same RunUntil call without a Logger; " +
		"the real emulator.System.RunUntil (primary CPU) and the same loop around cpualt.Step are compared with the compiled Lean Sys.runUntil and with an independent single-step replay. " +
		"evaluations = instructions executed inside RunUntil"
	rep.Emit()
}

func bucket(n int) string {
	switch {
	case n == 0:
		return "0"
	case n < 4:
		return "1-3"
	case n < 20:
		return "4-19"
	case n < 100:
		return "20-99"
	}
	return "100+"
}

