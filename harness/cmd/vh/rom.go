package main

import (
	"bytes"
	"fmt"
	"io"
	"strings"

	snes "github.com/alttpo/snes"

	"verifharness/internal/drv"
	"verifharness/internal/prng"
	"verifharness/internal/report"
)

func init() { components["rom"] = func(string) { runRom() } }

type romOp struct {
	kind byte // O R W F S   (S = switch to slot n: several readers / writers of one ROM stay alive side by side)
	// P a v : the caller sets image byte a to v (header fields ...) ; Q a n vs : a hashed run of n bytes at a ;
	// N : the ROM object is (re)built through snes.NewROM over the current image ; H f v : the caller edits field f of the parsed ROM.Header
	rw   byte // for O: 'r' or 'w'
	a, n uint32
	vs   uint32
}

func (o romOp) String() string {
	switch o.kind {
	case 'O':
		return fmt.Sprintf("O %c %x", o.rw, o.a)
	case 'R':
		return fmt.Sprintf("R %x", o.n)
	case 'W':
		return fmt.Sprintf("W %x %x", o.n, o.vs)
	case 'S':
		return fmt.Sprintf("S %x", o.n)
	case 'P':
		return fmt.Sprintf("P %x %x", o.a, o.n)
	case 'Q':
		return fmt.Sprintf("Q %x %x %x", o.a, o.n, o.vs)
	case 'N':
		return "N"
	case 'H':
		return fmt.Sprintf("H %x %x", o.a, o.n)
	}
	return "F"
}

type romCase struct {
	size uint32
	seed uint32
	ops  []romOp
}

func (c romCase) String() string {
	ss := []string{fmt.Sprintf("rom %x %x", c.size, c.seed)}
	for _, o := range c.ops {
		ss = append(ss, o.String())
	}
	return strings.Join(ss, ";")
}

func errName(err error) string {
	switch err {
	case nil:
		return "nil"
	case io.EOF:
		return "EOF"
	case io.ErrUnexpectedEOF:
		return "UEOF"
	}
	return "other:" + err.Error()
}

var romImageCache = map[uint64][]byte{}

func romImage(size, seed uint32) []byte {
	k := uint64(size)<<32 | uint64(seed)
	if b, ok := romImageCache[k]; ok {
		return b
	}
	b := make([]byte, size)
	for i := range b {
		b[i] = prng.Hash(uint64(seed), uint32(i))
	}
	if len(romImageCache) > 64 {
		romImageCache = map[uint64][]byte{}
	}
	romImageCache[k] = b
	return b
}

// execRom runs the case on the real snes.ROM and renders protocol replies; it also checks the property's own
// oracle ("no byte outside the window is exposed or changed", "write is all-or-nothing", ...) independently of the model.
func execRom(c romCase) (out []string, oracle string) {
	orig := append([]byte{}, romImage(c.size, c.seed)...)
	contents := make([]byte, len(orig))
	copy(contents, orig)
	rom := &snes.ROM{Contents: contents, HeaderOffset: 0x7FB0}
	viaNew := false
	type slot struct {
		rd         io.Reader
		wr         io.Writer
		winS, winE uint32
		haveWin    bool
		rpos, wpos uint32
	}
	slots := map[uint32]*slot{0: {}}
	cs := slots[0]
	touched := []uint32{}
	seen := map[uint32]bool{}
	out = make([]string, len(c.ops))
	for i, o := range c.ops {
		func() {
			defer func() {
				if r := recover(); r != nil {
					out[i] = "panic"
				}
			}()
			switch o.kind {
			case 'S':
				if slots[o.n] == nil {
					slots[o.n] = &slot{}
				}
				cs = slots[o.n]
				out[i] = "ok"
			case 'P', 'Q':
				// the caller edits the image itself (not through a writer); a ROM built by NewROM re-reads its header
				if o.kind == 'P' {
					contents[o.a], orig[o.a] = byte(o.n), byte(o.n)
				} else {
					for j := uint32(0); j < o.n; j++ {
						v := prng.Hash(uint64(o.vs), j)
						contents[o.a+j], orig[o.a+j] = v, v
					}
				}
				if viaNew {
					rom.ReadHeader()
				}
				out[i] = "ok"
			case 'N':
				if nr, err := snes.NewROM("x", contents); err == nil {
					rom, viaNew = nr, true
				}
				out[i] = "ok"
			case 'H':
				switch o.a {
				case 0:
					rom.Header.ROMSize = byte(o.n)
				case 1:
					rom.Header.MapMode = byte(o.n)
				case 2:
					rom.Header.RAMSize = byte(o.n)
				case 3:
					rom.Header.CartridgeType = byte(o.n)
				default:
					rom.Header.OldMakerCode = byte(o.n)
				}
				out[i] = "ok"
			case 'O':
				cs.rd, cs.wr = nil, nil
				cs.haveWin = false
				bank, offs := o.a>>16, o.a&0xFFFF
				var obj interface{}
				if o.rw == 'r' {
					cs.rd = rom.BusReader(o.a)
					obj = cs.rd
				} else {
					cs.wr = rom.BusWriter(o.a)
					obj = cs.wr
				}
				if offs < 0x8000 {
					out[i] = "err"
					return
				}
				cs.winS, cs.winE = bank<<15|(offs-0x8000), bank<<15|0x7FFF
				cs.haveWin = true
				cs.rpos, cs.wpos = 0, 0
				_ = obj
				out[i] = fmt.Sprintf("win %x %x", cs.winS, cs.winE)
			case 'R':
				if cs.rd == nil {
					out[i] = "noobj"
					return
				}
				p := make([]byte, o.n)
				n, err := cs.rd.Read(p)
				var sb strings.Builder
				fmt.Fprintf(&sb, "%x %s ", n, errName(err))
				for _, b := range p[:n] {
					fmt.Fprintf(&sb, "%02x", b)
				}
				out[i] = sb.String()
				if cs.haveWin {
					// oracle: bytes come from the window, in order, never beyond the bank end
					if cs.winS+cs.rpos+uint32(n) > (cs.winS&^0x7FFF)+0x8000 {
						oracle = fmt.Sprintf("op %d: reader exposed bytes beyond the end of the 32 KiB bank", i)
					}
					for j := 0; j < n; j++ {
						if p[j] != contents[cs.winS+cs.rpos+uint32(j)] {
							oracle = fmt.Sprintf("op %d: reader returned a byte that is not image[pcStart+pos+%d]", i, j)
						}
					}
					cs.rpos += uint32(n)
					if err == nil && n == 0 && o.n > 0 {
						oracle = fmt.Sprintf("op %d: Read returned (0, nil) for a non-empty buffer", i)
					}
					// the reader yields the image bytes up to the end of the bank and only then end-of-file (the last byte of the bank may
					// be missing: observation D4, the code's exclusive bound is $7FFF)
					if certain := (cs.winS&^0x7FFF | 0x7FFF) - cs.winS; err != nil && cs.rpos < certain {
						oracle = fmt.Sprintf("op %d: reader reported %s after %#x bytes although the bank window of the image holds %#x more", i, errName(err), cs.rpos, certain-cs.rpos)
					}
				} else if n != 0 || err != io.ErrUnexpectedEOF {
					oracle = fmt.Sprintf("op %d: offset below $8000 must fail with unexpected EOF", i)
				}
			case 'W':
				if cs.wr == nil {
					out[i] = "noobj"
					return
				}
				p := make([]byte, o.n)
				for j := range p {
					p[j] = prng.Hash(uint64(o.vs), uint32(j))
				}
				before := append([]byte{}, contents...)
				var n int
				var err error
				rf, isRF := cs.wr.(io.ReaderFrom)
				switch {
				case o.vs%3 == 1 && len(p) > 0:
					// the writer is an io.Writer: it is also driven through the standard library (io.Copy from a source
					// without WriteTo performs exactly one Write here — the copy buffer is as long as the data, also for data
					// of 64 KiB and more; an optional ReaderFrom on the writer is honoured)
					var n64 int64
					n64, err = io.CopyBuffer(cs.wr, io.LimitReader(bytes.NewReader(p), int64(len(p))), make([]byte, len(p)))
					n = int(n64)
				case o.vs%3 == 2 && isRF && len(p) > 0:
					var n64 int64
					n64, err = rf.ReadFrom(bytes.NewReader(p))
					n = int(n64)
				default:
					n, err = cs.wr.Write(p)
				}
				out[i] = fmt.Sprintf("%x %s", n, errName(err))
				if !cs.haveWin {
					if n != 0 || err != io.ErrUnexpectedEOF {
						oracle = fmt.Sprintf("op %d: offset below $8000 must fail with unexpected EOF", i)
					}
				} else {
					// successive writes are stored: a write that fits into what is left of the bank window is accepted
					fits := cs.wpos+uint32(len(p)) <= (cs.winS&^0x7FFF|0x7FFF)-cs.winS
					switch {
					case fits && (err != nil || n != len(p)):
						oracle = fmt.Sprintf("op %d: a write of %#x bytes at window position %#x fits in the bank but was not stored (n=%d err=%v)", i, len(p), cs.wpos, n, err)
					case err == nil && n == len(p):
						for j := 0; j < n; j++ {
							a := cs.winS + cs.wpos + uint32(j)
							if contents[a] != p[j] {
								oracle = fmt.Sprintf("op %d: written byte %d did not land contiguously at pcStart+o", i, j)
							}
							if a >= (cs.winS&^0x7FFF)+0x8000 {
								oracle = fmt.Sprintf("op %d: write landed beyond the bank end", i)
							}
							before[a] = p[j]
							if !seen[a] {
								seen[a] = true
								touched = append(touched, a)
							}
						}
						cs.wpos += uint32(n)
					case err != nil && n == 0:
					default:
						oracle = fmt.Sprintf("op %d: silent partial write n=%d len=%d err=%v", i, n, len(p), err)
					}
				}
				for a := range contents {
					if contents[a] != before[a] {
						oracle = fmt.Sprintf("op %d: byte at offset %x changed outside the written span", i, a)
						break
					}
				}
			case 'F':
				var sb strings.Builder
				sb.WriteString("mods ")
				for k, a := range touched {
					if k > 0 {
						sb.WriteByte(',')
					}
					fmt.Fprintf(&sb, "%x=%02x", a, contents[a])
				}
				out[i] = sb.String()
				for a := range contents {
					if !seen[uint32(a)] && contents[a] != orig[a] {
						oracle = fmt.Sprintf("final image: byte at offset %x changed although no accepted write covered it", a)
						break
					}
				}
			}
		}()
	}
	return
}

func genRomCase(r *prng.R, rep *report.Report) romCase {
	sizes := []uint32{0x8000, 0x10000, 0x18000, 0x20000, 0x40000}
	c := romCase{size: sizes[r.N(len(sizes))], seed: uint32(r.N(4))}
	if tier == "thorough" && r.Chance(2) {
		c.size = 0x400000
	}
	if r.Chance(35) {
		// irregular image sizes: n*32 KiB +1, -1, +512, +511/513, +2^k, odd (only the whole banks are addressed)
		c.size = uint32(irregularSize(r))
		rep.Count("image size: irregular, " + sizeClass(int(c.size)))
	}
	banks := c.size >> 15
	nobj := 1 + r.N(3)
	for k := 0; k < nobj; k++ {
		bank := uint32(r.N(int(banks)))
		if r.Chance(4) {
			bank = banks // first bank outside the image (Go panics; excluded by the property, compared anyway)
			rep.Count("open: bank outside image")
		}
		var offs uint32
		switch r.N(8) {
		case 0:
			offs = uint32(r.N(0x8000)) // low half: always error
			rep.Count("open: offset < $8000")
		case 1:
			offs = 0x8000
		case 2, 3, 4:
			offs = 0xFFFF - uint32(r.N(6)) // near the bank end
			rep.Count("open: within 6 bytes of bank end")
		case 5:
			offs = 0xFFFF - uint32(r.N(40))
			rep.Count("open: within 40 bytes of bank end")
		default:
			offs = 0x8000 + uint32(r.N(0x8000))
		}
		a := bank<<16 | offs
		rw := byte('r')
		if r.Bool() {
			rw = 'w'
		}
		c.ops = append(c.ops, romOp{kind: 'O', rw: rw, a: a})
		remaining := int(0xFFFF-offs) + 1
		nops := 1 + r.N(6)
		for j := 0; j < nops; j++ {
			var n uint32
			switch r.N(6) {
			case 0:
				n = 0
			case 1:
				n = uint32(remaining) // exactly to the code's end or one past
			case 2:
				n = uint32(max(0, remaining-1))
			case 3:
				n = uint32(remaining + 1 + r.N(3))
			default:
				n = uint32(r.N(6))
			}
			if rw == 'w' && n > 48 {
				// the model driver's image is a closure chain: keep writes short; long writes only differ in length
				n = uint32(r.N(48))
			}
			if n > 70000 {
				n = 70000
			}
			if r.Chance(3) {
				// one huge read / write: a multiple of 64 KiB plus a little (nothing, a few bytes, what is left of the window -1 / 0 / +1):
				// it can never fit, whatever the low 16 bits of its length say
				n = uint32(1+r.N(3))<<16 + []uint32{0, 1, uint32(r.N(6)), uint32(max(0, remaining-2)), uint32(max(0, remaining-1)), uint32(remaining), uint32(r.N(remaining + 1))}[r.N(7)]
				rep.Count("length of 64 KiB or more in one call")
			}
			if rw == 'r' {
				c.ops = append(c.ops, romOp{kind: 'R', n: n})
			} else {
				c.ops = append(c.ops, romOp{kind: 'W', n: n, vs: uint32(r.N(1000))})
				rep.Count(fmt.Sprintf("write: len-vs-remaining class %d", map[bool]int{true: 1, false: 0}[int(n) >= remaining-1 && int(n) <= remaining+1]))
			}
			remaining -= int(n)
			if remaining < 0 {
				remaining = 0
			}
		}
		if rw == 'w' && r.Chance(60) {
			// read back through a reader at the same address
			c.ops = append(c.ops, romOp{kind: 'O', rw: 'r', a: a}, romOp{kind: 'R', n: uint32(r.N(12))}, romOp{kind: 'R', n: 0x9000})
			rep.Count("write then read back")
		}
	}
	// half of the histories keep their objects alive side by side: every object gets its own slot and the operations of
	// the different objects are interleaved (each object's own order is kept)
	if r.Bool() {
		var segs [][]romOp
		for _, o := range c.ops {
			if o.kind == 'O' {
				segs = append(segs, nil)
			}
			segs[len(segs)-1] = append(segs[len(segs)-1], o)
		}
		if len(segs) > 1 {
			var merged []romOp
			cur := -1
			for {
				var live []int
				for i, sg := range segs {
					if len(sg) > 0 {
						live = append(live, i)
					}
				}
				if len(live) == 0 {
					break
				}
				i := live[r.N(len(live))]
				if i != cur {
					merged = append(merged, romOp{kind: 'S', n: uint32(i)})
					cur = i
				}
				k := 1 + r.N(2)
				if k > len(segs[i]) {
					k = len(segs[i])
				}
				merged = append(merged, segs[i][:k]...)
				segs[i] = segs[i][k:]
			}
			c.ops = merged
			rep.Count("objects interleaved")
		}
	}
	// header-dependent behaviour: most histories run on a ROM object built by NewROM over an image whose header fields (ROM size
	// byte $7FD7, map mode, RAM size, cartridge type, version markers, vectors) take small / boundary / random values; later the
	// caller may edit the image's header bytes or the parsed Header while readers and writers are alive
	if r.Chance(75) {
		var pre []romOp
		switch r.N(4) {
		case 0:
			pre = append(pre, romOp{kind: 'Q', a: 0x7FB0, n: 0x50, vs: uint32(r.N(1 << 16))}) // a wholly random header
			rep.Count("image header: random 80 bytes")
		case 1:
			rep.Count("image header: background bytes")
		default:
			for _, f := range headerFieldPokes(r, c.size, rep) {
				pre = append(pre, f)
			}
		}
		pre = append(pre, romOp{kind: 'N'})
		rep.Count("ROM built by NewROM")
		c.ops = append(pre, c.ops...)
		for k := r.N(3); k > 0; k-- {
			// between two operations of the history
			at := len(pre) + r.N(len(c.ops)-len(pre)+1)
			var e romOp
			if r.Bool() {
				e = romOp{kind: 'H', a: uint32(r.N(5)), n: uint32(romSizeByte(r, c.size))}
				rep.Count("parsed Header edited mid-history")
			} else {
				e = headerFieldPokes(r, c.size, rep)[0]
				rep.Count("image header byte edited mid-history")
			}
			c.ops = append(c.ops[:at], append([]romOp{e}, c.ops[at:]...)...)
		}
	} else {
		rep.Count("ROM built as a literal (zero Header)")
	}
	c.ops = append(c.ops, romOp{kind: 'F'})
	return c
}

// romSizeByte: values of the ROM size byte around the size of the image (1 KiB << v): exact, one below / above, far too small,
// shift counts at and beyond the width of the arithmetic, random
func romSizeByte(r *prng.R, size uint32) byte {
	k := 0
	for (uint32(1024) << uint(k)) < size {
		k++
	}
	switch r.N(10) {
	case 0:
		return 0
	case 1:
		return byte(k)
	case 2:
		return byte(max(0, k-1))
	case 3:
		return byte(k + 1)
	case 4:
		return byte(r.N(k + 1))
	case 5:
		return []byte{0x15, 0x16, 0x17, 0x1F, 0x20, 0x7F, 0x80, 0xFF}[r.N(8)]
	case 6:
		return byte(8 + r.N(6))
	default:
		return r.U8()
	}
}

// headerFieldPokes: image bytes of the header fields that describe the cartridge; the first one is always the ROM size byte
func headerFieldPokes(r *prng.R, size uint32, rep *report.Report) []romOp {
	sz := romSizeByte(r, size)
	switch {
	case (uint64(1024)<<sz)&0xFFFFFFFF < uint64(size):
		rep.Count("image header: declared ROM size below the image size")
	case uint64(1024)<<sz == uint64(size):
		rep.Count("image header: declared ROM size equals the image size")
	default:
		rep.Count("image header: declared ROM size above the image size")
	}
	ops := []romOp{{kind: 'P', a: 0x7FD7, n: uint32(sz)}}
	if r.Chance(70) {
		ops = append(ops, romOp{kind: 'P', a: 0x7FD5, n: uint32([]byte{0x20, 0x21, 0x30, 0x31, 0x22, 0x23, 0x25, 0x35, 0x00, 0xFF}[r.N(10)])})
	}
	if r.Chance(50) {
		ops = append(ops, romOp{kind: 'P', a: 0x7FD8, n: uint32([]byte{0, 1, 3, 5, 7, 8, 0x20, 0xFF}[r.N(8)])})
	}
	if r.Chance(40) {
		ops = append(ops, romOp{kind: 'P', a: 0x7FD6, n: uint32([]byte{0, 1, 2, 3, 0x13, 0x35, 0xF3, 0xFF}[r.N(8)])})
	}
	if r.Chance(40) {
		ops = append(ops, romOp{kind: 'P', a: 0x7FDA, n: uint32([]byte{0x33, 0x01, 0x00}[r.N(3)])}, romOp{kind: 'P', a: 0x7FD4, n: uint32([]byte{0, 0x20, 0x41}[r.N(3)])})
	}
	if r.Chance(30) {
		// reset vector / checksum pair
		ops = append(ops, romOp{kind: 'P', a: 0x7FFC, n: uint32(r.U8())}, romOp{kind: 'P', a: 0x7FFD, n: uint32([]byte{0x00, 0x7F, 0x80, 0xFF}[r.N(4)])})
		ck := r.U16()
		ops = append(ops, romOp{kind: 'P', a: 0x7FDE, n: uint32(ck & 0xFF)}, romOp{kind: 'P', a: 0x7FDF, n: uint32(ck >> 8)},
			romOp{kind: 'P', a: 0x7FDC, n: uint32(^ck & 0xFF)}, romOp{kind: 'P', a: 0x7FDD, n: uint32(^ck >> 8)})
	}
	return ops
}

func shrinkRom(c romCase, fails func(romCase) bool) romCase {
	for changed := true; changed; {
		changed = false
		for i := 0; i < len(c.ops); i++ {
			d := romCase{c.size, c.seed, append(append([]romOp{}, c.ops[:i]...), c.ops[i+1:]...)}
			if len(d.ops) > 0 && fails(d) {
				c, changed = d, true
				i--
			}
		}
	}
	return c
}

func runRom() {
	rep := report.New("rom", tier, seed)
	n := 6000
	if tier == "thorough" {
		n = 150000
	}
	r := prng.New(seed)
	cases := []romCase{
		// corpus: the D3 scenario (4-byte write at $00:FFFD), boundary reads
		{0x10000, 1, []romOp{{kind: 'O', rw: 'w', a: 0x00FFFD}, {kind: 'W', n: 4, vs: 9}, {kind: 'W', n: 2, vs: 10}, {kind: 'W', n: 1, vs: 11}, {kind: 'F'}}},
		{0x10000, 1, []romOp{{kind: 'O', rw: 'r', a: 0x00FFFF}, {kind: 'R', n: 2}, {kind: 'O', rw: 'r', a: 0x00FFFE}, {kind: 'R', n: 2}, {kind: 'R', n: 1}, {kind: 'F'}}},
		{0x10000, 2, []romOp{{kind: 'O', rw: 'w', a: 0x017FFF}, {kind: 'W', n: 1, vs: 3}, {kind: 'O', rw: 'r', a: 0x007FFF}, {kind: 'R', n: 1}, {kind: 'F'}}},
	}
	cases = append(cases, romCase{0x18000, 1, []romOp{{kind: 'O', rw: 'r', a: 0x00FFF0}, {kind: 'R', n: 2}, {kind: 'S', n: 1}, {kind: 'O', rw: 'r', a: 0x018000}, {kind: 'R', n: 3},
		{kind: 'S', n: 0}, {kind: 'R', n: 4}, {kind: 'S', n: 2}, {kind: 'O', rw: 'w', a: 0x00FFF4}, {kind: 'W', n: 3, vs: 5}, {kind: 'S', n: 0}, {kind: 'R', n: 0x20}, {kind: 'R', n: 1}, {kind: 'F'}}})
	// directed: an image that holds more banks than its header declares (and the opposite), every bank read to its end and written
	for _, sz := range []uint32{0, 1, 5, 6, 7, 9, 0x16, 0xFF} {
		for _, viaNew := range []bool{true, false} {
			c := romCase{size: 0x20000, seed: 2}
			c.ops = append(c.ops, romOp{kind: 'P', a: 0x7FD7, n: sz}, romOp{kind: 'P', a: 0x7FD5, n: 0x20})
			if viaNew {
				c.ops = append(c.ops, romOp{kind: 'N'})
			} else {
				c.ops = append(c.ops, romOp{kind: 'H', a: 0, n: sz})
			}
			for bank := uint32(0); bank < 4; bank++ {
				c.ops = append(c.ops, romOp{kind: 'O', rw: 'r', a: bank<<16 | 0x8000}, romOp{kind: 'R', n: 0x10}, romOp{kind: 'R', n: 0x9000}, romOp{kind: 'R', n: 1},
					romOp{kind: 'O', rw: 'w', a: bank<<16 | 0xFF00}, romOp{kind: 'W', n: 0x20, vs: 7 + bank}, romOp{kind: 'W', n: 0xDF, vs: 3},
					romOp{kind: 'O', rw: 'r', a: bank<<16 | 0xFF00}, romOp{kind: 'R', n: 0x100})
			}
			c.ops = append(c.ops, romOp{kind: 'F'})
			cases = append(cases, c)
		}
	}
	// directed: irregular image sizes (a whole number of banks plus 1, 512, 511, 513, 2^k, odd, minus 1), every whole bank read to
	// its end, written near its end and read back, on a ROM built by NewROM and on a literal
	for _, sz := range []uint32{0x8001, 0x8200, 0x10200, 0x101FF, 0x18201, 0x17FFF, 0x14000, 0x10003, 0x28200} {
		for _, viaNew := range []bool{true, false} {
			c := romCase{size: sz, seed: 3}
			if viaNew {
				c.ops = append(c.ops, romOp{kind: 'N'})
			}
			for bank := uint32(0); bank < sz>>15; bank++ {
				c.ops = append(c.ops, romOp{kind: 'O', rw: 'r', a: bank<<16 | 0x8000}, romOp{kind: 'R', n: 0x10}, romOp{kind: 'R', n: 0x9000}, romOp{kind: 'R', n: 1},
					romOp{kind: 'O', rw: 'w', a: bank<<16 | 0xFFE0}, romOp{kind: 'W', n: 0x10, vs: 7 + bank}, romOp{kind: 'W', n: 0xF, vs: 3},
					romOp{kind: 'O', rw: 'r', a: bank<<16 | 0xFFE0}, romOp{kind: 'R', n: 0x20})
			}
			c.ops = append(c.ops, romOp{kind: 'F'})
			cases = append(cases, c)
		}
	}
	// directed: one call with a length of 64 KiB or more (through Write, io.Copy and ReadFrom where offered), first or after
	// accepted writes, with the low 16 bits of the length fitting / not fitting what is left of the window; then a write that fits
	for _, left := range []uint32{1, 15, 0x101, 0x7FFF} {
		for _, m := range []uint32{1, 2, 3} {
			for _, k := range []uint32{0, 1, 4, left - 1, left, left + 1} {
				for mode := uint32(0); mode < 3; mode++ {
					a := uint32(0x010000) | (0xFFFF - left)
					c := romCase{size: 0x18000, seed: 1}
					if (m+k+mode)%2 == 0 {
						c.ops = append(c.ops, romOp{kind: 'N'})
					}
					c.ops = append(c.ops, romOp{kind: 'O', rw: 'w', a: a})
					first := uint32(0)
					if k%2 == 1 && left > 4 {
						first = 3
						c.ops = append(c.ops, romOp{kind: 'W', n: first, vs: 30 + mode})
					}
					c.ops = append(c.ops, romOp{kind: 'W', n: m<<16 + k, vs: 3*(m+k) + mode})
					if left-first >= 1 {
						c.ops = append(c.ops, romOp{kind: 'W', n: 1, vs: 60 + mode})
					}
					c.ops = append(c.ops, romOp{kind: 'O', rw: 'r', a: a}, romOp{kind: 'R', n: m<<16 + k}, romOp{kind: 'R', n: 1}, romOp{kind: 'F'})
					cases = append(cases, c)
				}
			}
		}
	}
	for i := 0; i < n; i++ {
		cases = append(cases, genRomCase(r.Fork(), rep))
	}
	d, err := drv.Start(modelDrv)
	var replies []string
	if err == nil {
		defer d.Close()
		reqs := make([]string, len(cases))
		for i, c := range cases {
			reqs[i] = c.String()
		}
		replies, err = d.Batch(reqs)
	}
	if err != nil {
		rep.Add(report.Finding{Property: "C10", Kind: "disagreement", Clause: "model driver unavailable", Detail: err.Error()})
	}
	distinct := map[string]bool{}
	var ops int64
	nviol := 0
	for i, c := range cases {
		got, orc := execRom(c)
		ops += int64(len(c.ops))
		shape := ""
		for j, o := range c.ops {
			g := got[j]
			if len(g) > 6 {
				g = g[:6]
			}
			shape += string(o.kind) + g + "|"
		}
		distinct[shape] = true
		if i%901 == 0 {
			rep.Sample(map[string]string{"case": c.String(), "go": strings.Join(got, ";")})
		}
		if orc != "" {
			nviol++
		}
		if orc != "" && nviol <= 25 {
			m := shrinkRom(c, func(x romCase) bool { _, o := execRom(x); return o != "" })
			g, o := execRom(m)
			rep.Add(report.Finding{Property: "C10", Kind: "violation", Clause: "ROM reader/writer io contract (Go code vs property oracle): " + o,
				Input: m.String(), Actual: strings.Join(g, ";")})
		}
		if replies != nil && i < len(replies) && replies[i] != strings.Join(got, ";") {
			rep.Add(report.Finding{Property: "C10", Kind: "disagreement", Clause: "Lean RomIO model vs snes.ROM on the same history",
				Input: c.String(), Expected: replies[i] + " (model)", Actual: strings.Join(got, ";") + " (go)"})
		}
	}
	rep.Evaluations = ops
	rep.Distinct = int64(len(distinct))
	rep.CountN("cases", int64(len(cases)))
	rep.Rule = "random reader/writer histories on images of 32 KiB..256 KiB (thorough: up to 4 MiB); three quarters of the ROM objects are built by NewROM over images whose header fields " +
		"(ROM size byte below / equal / above the image size and at shift-width boundaries, map mode, RAM size, cartridge type, version markers, vectors, checksum) are set, wholly random or background, " +
		"the image header bytes and the parsed Header are edited between operations; the oracle also demands that the reader reaches the end of the bank window and that a fitting write is stored; offsets below $8000, at $8000, within 6 bytes of the bank end; " +
		"a third of the images have irregular sizes (n*32 KiB +1, -1, +512, +511/513, +2^k, odd; directed: every whole bank of such images read to its end, written and read back); one call in thirty has a length of 64 KiB or more (m*65536 + 0, a few, what is left of the window -1/0/+1; directed through Write, io.Copy and ReadFrom, first and after accepted writes, followed by a write that fits); " +
		"a third of the writes go through io.Copy (one Write per call), a third through ReadFrom where the writer offers it; half of the histories interleave the operations of several live readers / writers of the same ROM; read/write lengths 0, remaining-1, remaining, remaining+1..3 and small; write-then-read-back; banks outside the image; whole image compared after every write. " +
		"evaluations = operations; distinct_nontrivial = distinct (op kind, reply prefix) sequences"
	rep.Emit()
}
