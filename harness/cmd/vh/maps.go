package main

import (
	"fmt"
	"strconv"
	"strings"
	"sync"

	"github.com/alttpo/snes/mapping/exhirom"
	"github.com/alttpo/snes/mapping/hirom"
	"github.com/alttpo/snes/mapping/lorom"
	"github.com/alttpo/snes/mapping/sa1rom"
	"github.com/alttpo/snes/mapping/util"

	"verifharness/internal/drv"
	"verifharness/internal/prng"
	"verifharness/internal/report"
)

type mapper struct {
	name string
	b2p  func(uint32) (uint32, error)
	p2b  func(uint32) (uint32, error)
}

var mappers = []mapper{
	{"lorom", lorom.BusAddressToPak, lorom.PakAddressToBus},
	{"hirom", hirom.BusAddressToPak, hirom.PakAddressToBus},
	{"exhirom", exhirom.BusAddressToPak, exhirom.PakAddressToBus},
	{"sa1rom", sa1rom.BusAddressToPak, sa1rom.PakAddressToBus},
}

// class of an FX Pak Pro address: 1 ROM, 2 SRAM, 3 WRAM (incl. $F70000+ mirrors), 0 none
func pakClass(p uint32) int {
	switch {
	case p < 0xE00000:
		return 1
	case p < 0xF00000:
		return 2
	case p >= 0xF50000 && p < 0x1000000:
		return 3
	}
	return 0
}

func inWindow(p uint32) bool {
	return p < 0xE00000 || (p >= 0xE00000 && p < 0xF00000) || (p >= 0xF50000 && p < 0xF70000)
}

type firstFail struct {
	mu sync.Mutex
	m  map[string]report.Finding
	n  map[string]int64
}

func (f *firstFail) add(prop, clause string, input map[string]interface{}, exp, act string) {
	f.mu.Lock()
	defer f.mu.Unlock()
	k := prop + "|" + clause
	f.n[k]++
	if _, ok := f.m[k]; !ok {
		f.m[k] = report.Finding{Property: prop, Kind: "violation", Clause: clause, Input: input, Expected: exp, Actual: act}
	}
}

func hx(v uint32) string { return fmt.Sprintf("%06x", v) }

// sweepMapper evaluates every spec-free clause of C04 and C05 on the real Go functions for all 2^24 addresses.
func sweepMapper(m mapper, ff *firstFail, evals *int64) {
	const N = 1 << 24
	var n int64
	in := func(dir string, a uint32) map[string]interface{} {
		return map[string]interface{}{"mapper": m.name, "dir": dir, "addr": hx(a)}
	}
	var prevP, prevB uint32
	var prevPe, prevBe bool
	for a := uint32(0); a < N; a++ {
		// --- bus -> pak
		p, err := m.b2p(a)
		n++
		if err != nil {
			if err != util.ErrUnmappedAddress || p != 0 {
				ff.add("C05", m.name+": unmapped result must be (0, ErrUnmappedAddress)", in("b2p", a), "0 ErrUnmappedAddress", fmt.Sprintf("%s %v", hx(p), err))
			}
		} else {
			if !inWindow(p) {
				ff.add("C05", m.name+": bus image inside exactly one class window", in("b2p", a), "ROM<$E00000 | SRAM $E00000-$EFFFFF | WRAM $F50000-$F6FFFF", hx(p))
			}
			// C04 clause 1
			b2, e2 := m.p2b(p)
			n++
			if e2 != nil || b2 >= N {
				ff.add("C04", m.name+": p2b(b2p(b)) succeeds with a 24-bit bus address", in("b2p", a), "ok", fmt.Sprintf("p=%s -> %s %v", hx(p), hx(b2), e2))
			} else {
				p2, e3 := m.b2p(b2)
				n++
				if e3 != nil || p2 != p {
					ff.add("C04", m.name+": b2p(p2b(b2p(b))) = b2p(b)", in("b2p", a), hx(p), fmt.Sprintf("b'=%s -> %s %v", hx(b2), hx(p2), e3))
				}
			}
		}
		// console-owned parts
		bank, offs := a>>16, a&0xFFFF
		if bank == 0x7E || bank == 0x7F {
			if err != nil || p != 0xF50000+(a-0x7E0000) {
				ff.add("C05", m.name+": banks $7E-$7F are the 128 KiB of WRAM", in("b2p", a), hx(0xF50000+(a-0x7E0000)), fmt.Sprintf("%s %v", hx(p), err))
			}
		}
		if bank < 0x40 || (bank >= 0x80 && bank < 0xC0) {
			if offs < 0x2000 && (err != nil || p != 0xF50000+offs) {
				ff.add("C05", m.name+": $0000-$1FFF of system banks mirrors the first 8 KiB of WRAM", in("b2p", a), hx(0xF50000+offs), fmt.Sprintf("%s %v", hx(p), err))
			}
			if offs >= 0x2000 && offs < 0x6000 && err == nil {
				ff.add("C05", m.name+": register area $2000-$5FFF of system banks is never translated", in("b2p", a), "unmapped", hx(p))
			}
		}
		// page order, bus side
		if a%8192 != 0 {
			if (err != nil) != prevPe {
				ff.add("C05", m.name+": mappedness constant inside an 8 KiB bus page", in("b2p", a-1), "same mappedness for a and a+1", "differs")
			} else if err == nil && p != prevP+1 {
				ff.add("C05", m.name+": consecutive bus addresses translate to consecutive pak addresses", in("b2p", a-1), hx(prevP+1), hx(p))
			}
		}
		prevP, prevPe = p, err != nil

		// --- pak -> bus
		b, berr := m.p2b(a)
		n++
		rej := a >= 0xF00000 && a < 0xF50000
		if (berr != nil) != rej {
			ff.add("C05", m.name+": p2b rejects exactly $F00000-$F4FFFF", in("p2b", a), fmt.Sprintf("rejected=%v", rej), fmt.Sprintf("%s %v", hx(b), berr))
		}
		if berr != nil && (b != 0 || berr != util.ErrUnmappedAddress) {
			ff.add("C05", m.name+": rejected pak address gives (0, ErrUnmappedAddress)", in("p2b", a), "0", fmt.Sprintf("%s %v", hx(b), berr))
		}
		if berr == nil {
			// C04 clause 2
			if b >= N {
				ff.add("C04", m.name+": p2b result is a 24-bit bus address", in("p2b", a), "< 1000000", hx(b))
			} else {
				p2, e := m.b2p(b)
				n++
				if e != nil {
					ff.add("C04", m.name+": p2b result is a mapped bus address", in("p2b", a), "mapped", fmt.Sprintf("b=%s unmapped", hx(b)))
				} else if pakClass(p2) != pakClass(a) || p2%8192 != a%8192 {
					ff.add("C04", m.name+": p2b result designates the same class at the same page offset", in("p2b", a),
						fmt.Sprintf("class %d offset %04x", pakClass(a), a%8192), fmt.Sprintf("b=%s -> %s class %d", hx(b), hx(p2), pakClass(p2)))
				}
			}
		}
		if a%8192 != 0 {
			if (berr != nil) != prevBe {
				ff.add("C05", m.name+": acceptance constant inside an 8 KiB pak page", in("p2b", a-1), "same", "differs")
			} else if berr == nil && b != prevB+1 {
				ff.add("C05", m.name+": consecutive pak addresses translate to consecutive bus addresses", in("p2b", a-1), hx(prevB+1), hx(b))
			}
		}
		prevB, prevBe = b, berr != nil
	}
	ff.mu.Lock()
	*evals += n
	ff.mu.Unlock()
}

func runMap() {
	rep := report.New("map", tier, seed)
	ff := &firstFail{m: map[string]report.Finding{}, n: map[string]int64{}}
	var evals int64
	var wg sync.WaitGroup
	for _, m := range mappers {
		wg.Add(1)
		go func(m mapper) { defer wg.Done(); sweepMapper(m, ff, &evals) }(m)
	}
	// BankToLinear closed form on all 24-bit addresses
	wg.Add(1)
	go func() {
		defer wg.Done()
		for a := uint32(0); a < 1<<24; a++ {
			if util.BankToLinear(a) != (a>>16)*32768+a%32768 {
				ff.add("C05", "BankToLinear packs 32 KiB half-banks", map[string]interface{}{"addr": hx(a)}, hx((a>>16)*32768+a%32768), hx(util.BankToLinear(a)))
			}
		}
	}()
	wg.Wait()
	rep.CountN("oracle sweep evaluations (Go functions, all 2^24 addresses x 4 mappers x both directions)", evals)
	for k, f := range ff.m {
		f.Detail = fmt.Sprintf("%d failing addresses in the exhaustive sweep; first one shown", ff.n[k])
		rep.Add(f)
	}

	// model / spec correspondence through the Lean driver
	d, err := drv.Start(modelDrv)
	if err != nil {
		rep.Add(report.Finding{Property: "C04", Kind: "disagreement", Clause: "model driver unavailable", Detail: err.Error()})
		rep.Add(report.Finding{Property: "C05", Kind: "disagreement", Clause: "model driver unavailable", Detail: err.Error()})
		rep.Evaluations = evals
		rep.Emit()
		return
	}
	defer d.Close()
	var addrs []uint32
	exhaustive := tier == "thorough"
	if exhaustive {
		addrs = nil
	} else {
		for k := uint32(0); k < 2048; k++ {
			for _, o := range []uint32{0, 1, 0xFFF, 0x1000, 8190, 8191} {
				addrs = append(addrs, k*8192+o)
			}
		}
		r := prng.New(seed)
		for i := 0; i < 40000; i++ {
			addrs = append(addrs, r.U32()&0xFFFFFF)
		}
	}
	type fn struct {
		name string
		f    func(uint32) (uint32, error)
	}
	var fns []fn
	for _, m := range mappers {
		fns = append(fns, fn{m.name + "_b2p", m.b2p}, fn{m.name + "_p2b", m.p2b})
	}
	var cmp int64
	distinct := map[string]bool{}
	for _, kind := range []string{"map", "mapspec"} {
		for _, f := range fns {
			i := uint32(0)
			idx := 0
			gen := func() (string, bool) {
				var a uint32
				if exhaustive {
					if i >= 1<<24 {
						return "", false
					}
					a = i
					i++
				} else {
					if idx >= len(addrs) {
						return "", false
					}
					a = addrs[idx]
					idx++
				}
				return kind + " " + f.name + " " + strconv.FormatUint(uint64(a), 16), true
			}
			bad := 0
			err := d.Stream(gen, func(_ int, req, reply string) {
				cmp++
				a64, _ := strconv.ParseUint(req[strings.LastIndexByte(req, ' ')+1:], 16, 32)
				a := uint32(a64)
				v, e := f.f(a)
				eb := "0"
				if e != nil {
					eb = "1"
				}
				want := strconv.FormatUint(uint64(v), 16) + " " + eb
				if cmp%50021 == 1 {
					rep.Sample(map[string]string{"request": req, "go": want, "lean": reply})
				}
				if !exhaustive {
					distinct[f.name+"/"+strconv.Itoa(int(a/8192))+"/"+eb] = true
				}
				if reply != want {
					bad++
					if bad <= 3 {
						if kind == "map" {
							for _, p := range []string{"C04", "C05"} {
								rep.Add(report.Finding{Property: p, Kind: "disagreement", Clause: "gotolean translation of " + f.name + " vs the Go function",
									Input: map[string]string{"fn": f.name, "addr": hx(a)}, Expected: want, Actual: reply})
							}
						} else {
							rep.Add(report.Finding{Property: "C05", Kind: "violation", Clause: f.name + ": class and linear position are those of the documented region table (MapSpec page table)",
								Input: map[string]string{"fn": f.name, "addr": hx(a)}, Expected: reply + " (table)", Actual: want + " (code)"})
						}
					}
				}
			})
			if err != nil {
				rep.Add(report.Finding{Property: "C05", Kind: "disagreement", Clause: "model driver failed", Detail: err.Error()})
				rep.Add(report.Finding{Property: "C04", Kind: "disagreement", Clause: "model driver failed", Detail: err.Error()})
			}
		}
	}
	rep.CountN("code-vs-model comparisons (Go function vs regenerated Lean def and vs Lean page table)", cmp)
	rep.Evaluations = evals + cmp
	if exhaustive {
		rep.Distinct = 8 * (1 << 24)
		rep.Exhaustive = true
	} else {
		rep.Distinct = int64(len(distinct))
	}
	rep.Rule = "oracle sweep: every 24-bit bus and pak address of each of the 4 mappers (exhaustive); model correspondence: " +
		"quick = 6 addresses in each of the 2048 pages + 40000 PRNG addresses per function, thorough = all 2^24 addresses per function; " +
		"distinct_nontrivial counts distinct (function, 8 KiB page, mapped/unmapped) triples compared against the Lean driver (thorough: all addresses)"
	rep.Emit()
}
