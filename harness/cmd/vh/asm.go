package main

import (
	"bytes"
	"encoding/hex"
	"fmt"
	"reflect"
	"regexp"
	"sort"
	"strconv"
	"strings"

	"github.com/alttpo/snes/asm"

	"verifharness/internal/drv"
	"verifharness/internal/prng"
	"verifharness/internal/report"
)

func init() {
	components["asm"] = func(string) { runAsm() }
	components["asm-enc"] = func(string) { runAsmEnc() }
}

// ---------------------------------------------------------------------------------------------------------------
// method table by reflection

type asmMethod struct {
	name   string
	widths []int // 8, 16, 32; 0 = label string
	types  []reflect.Type
}

var nonInstruction = map[string]bool{
	"Clone": true, "Append": true, "WriteTextTo": true, "WriteHexTo": true, "Finalize": true, "Label": true, "GetLabel": true,
	"Cap": true, "Len": true, "Bytes": true, "PC": true, "SetBase": true, "GetBase": true, "Comment": true, "EmitBytes": true,
	"Flags": true, "IsX16bit": true, "IsM16bit": true, "AssumeREP": true, "AssumeSEP": true,
}

func asmMethods() []asmMethod {
	t := reflect.TypeOf(&asm.Emitter{})
	var ms []asmMethod
	for i := 0; i < t.NumMethod(); i++ {
		m := t.Method(i)
		if nonInstruction[m.Name] || m.Type.NumOut() != 0 {
			continue
		}
		am := asmMethod{name: m.Name}
		ok := true
		for j := 1; j < m.Type.NumIn(); j++ {
			pt := m.Type.In(j)
			am.types = append(am.types, pt)
			switch pt.Kind() {
			case reflect.Uint8, reflect.Int8:
				am.widths = append(am.widths, 8)
			case reflect.Uint16:
				am.widths = append(am.widths, 16)
			case reflect.Uint32:
				am.widths = append(am.widths, 32)
			case reflect.String:
				am.widths = append(am.widths, 0)
			default:
				ok = false
			}
		}
		if ok {
			ms = append(ms, am)
		}
	}
	sort.Slice(ms, func(i, j int) bool { return ms[i].name < ms[j].name })
	return ms
}

func callMethod(e *asm.Emitter, m asmMethod, args []uint32, label string) (panicked bool) {
	defer func() {
		if recover() != nil {
			panicked = true
		}
	}()
	in := make([]reflect.Value, len(m.types))
	for i, pt := range m.types {
		v := reflect.New(pt).Elem()
		switch pt.Kind() {
		case reflect.String:
			v.SetString(label)
		case reflect.Int8:
			v.SetInt(int64(int8(args[i])))
		default:
			v.SetUint(uint64(args[i]) & (1<<uint(pt.Bits()) - 1))
		}
		in[i] = v
	}
	reflect.ValueOf(e).MethodByName(m.name).Call(in)
	return false
}

// ---------------------------------------------------------------------------------------------------------------
// operations of a history

type asmOp struct {
	kind  byte // I B L C S F K T A Q H X
	m     *asmMethod
	args  []uint32
	label string // label name / comment text / T target ("o"/"c") / K capacity
	data  []byte
	addr  uint32
	sub   [][]asmOp // (asm-cpu, kind D) the calls made on each side clone
}

func (o asmOp) String() string {
	switch o.kind {
	case 'D':
		// (asm-cpu) side clones of the emitter in use: addr = which one is appended back (0 = all are dropped)
		s := fmt.Sprintf("D keep=%d", o.addr)
		for _, a := range o.args {
			s += " " + strconv.FormatUint(uint64(a), 16)
		}
		for _, arm := range o.sub {
			var ss []string
			for _, ao := range arm {
				ss = append(ss, ao.String())
			}
			s += " [" + strings.Join(ss, ", ") + "]"
		}
		return s
	case 'r', 's':
		// (asm-cpu) AssumeREP / AssumeSEP alone, no bytes
		return string(o.kind) + " " + strconv.FormatUint(uint64(o.addr), 16)
	case 'I':
		s := "I " + o.m.name
		if len(o.m.widths) == 1 && o.m.widths[0] == 0 {
			return s + " " + o.label
		}
		for _, a := range o.args {
			s += " " + strconv.FormatUint(uint64(a), 16)
		}
		return s
	case 'B':
		if len(o.data) == 0 {
			return "B -"
		}
		return "B " + hex.EncodeToString(o.data)
	case 'L', 'C', 'K', 'T':
		return string(o.kind) + " " + o.label
	case 'S', 'R', 'P':
		return string(o.kind) + " " + strconv.FormatUint(uint64(o.addr), 16)
	case 'J':
		// (asm-cpu) a branch to a label together with the call that makes it fall through
		s := "J " + o.m.name + " " + o.label
		for _, a := range o.args {
			s += " " + strconv.FormatUint(uint64(a), 16)
		}
		return s
	}
	return string(o.kind)
}

type asmCase struct {
	cap  int // -1 = nil target
	text bool
	ops  []asmOp
}

func (c asmCase) String() string {
	capS := "nil"
	if c.cap >= 0 {
		capS = strconv.FormatInt(int64(c.cap), 16)
	}
	t := "0"
	if c.text {
		t = "1"
	}
	ss := []string{"asm " + capS + " " + t}
	for _, o := range c.ops {
		ss = append(ss, o.String())
	}
	return strings.Join(ss, ";")
}

// targets: half of them are windows into a larger array (len = capacity, spare Go capacity behind it), as when assembling
// into a ROM image; nothing may ever be written outside the window
var targetBacking [][]byte
var targetWindows [][2]int

func mkTarget(cap int) []byte {
	if cap < 0 {
		return nil
	}
	if cap%3 == 0 {
		return make([]byte, cap)
	}
	big := make([]byte, cap+24)
	targetBacking = append(targetBacking, big)
	targetWindows = append(targetWindows, [2]int{8, 8 + cap})
	return big[8 : 8+cap]
}

// targetsIntact: no byte outside any window was written since the last call
func targetsIntact() bool {
	ok := true
	for i, big := range targetBacking {
		w := targetWindows[i]
		for j, b := range big {
			if (j < w[0] || j >= w[1]) && b != 0 {
				ok = false
			}
		}
	}
	targetBacking, targetWindows = nil, nil
	return ok
}

// ---------------------------------------------------------------------------------------------------------------
// listing parsers: Go text -> canonical records  kind@addr:bytes:text

var reTextIns = regexp.MustCompile(`^(?:    |!!  )(.{5}) (.*?) ; \$([0-9a-f]{6})  ((?:[0-9a-f]{2} ?)+)(?:  !! ERROR.*)?$`)
var reTextAddr = regexp.MustCompile(`^    ; \$([0-9a-f]{6})$`)

func trimHex(h string) string { return strings.TrimLeft(h, "0") }

func hexAddr(h string) string {
	v, _ := strconv.ParseUint(h, 16, 32)
	return strconv.FormatUint(v, 16)
}

func parseTextListing(s string) string {
	lines := strings.Split(strings.TrimSuffix(s, "\n"), "\n")
	if s == "" {
		lines = nil
	}
	var recs []string
	for i := 0; i < len(lines); i++ {
		l := lines[i]
		switch {
		case strings.HasPrefix(l, "base $"):
			recs = append(recs, "base@"+hexAddr(l[6:])+"::")
		case reTextAddr.MatchString(l) && i+1 < len(lines) && strings.HasPrefix(lines[i+1], "    db "):
			a := reTextAddr.FindStringSubmatch(l)[1]
			var bs strings.Builder
			for _, p := range strings.Split(strings.TrimPrefix(lines[i+1], "    db "), ", ") {
				bs.WriteString(strings.TrimPrefix(p, "$"))
			}
			recs = append(recs, "db@"+hexAddr(a)+":"+bs.String()+":")
			i++
		case strings.HasPrefix(l, "    ; "):
			recs = append(recs, "cm@::"+l[6:])
		case reTextIns.MatchString(l):
			m := reTextIns.FindStringSubmatch(l)
			bs := strings.ReplaceAll(strings.TrimSpace(m[4]), " ", "")
			recs = append(recs, fmt.Sprintf("i%d@%s:%s:", len(bs)/2, hexAddr(m[3]), bs))
		case strings.HasSuffix(l, ":"):
			recs = append(recs, "lb@::"+strings.TrimSuffix(l, ":"))
		default:
			recs = append(recs, "??"+l)
		}
	}
	return strings.Join(recs, "|")
}

func parseHexListing(s string) string {
	lines := strings.Split(strings.TrimSuffix(s, "\n"), "\n")
	if s == "" {
		lines = nil
	}
	var recs []string
	for _, l := range lines {
		switch {
		case strings.HasPrefix(l, "// base $"):
			recs = append(recs, "base@"+hexAddr(l[9:])+"::")
		case strings.HasPrefix(l, "// ") && strings.HasSuffix(l, ":"):
			recs = append(recs, "lb@::"+strings.TrimSuffix(l[3:], ":"))
		case strings.HasPrefix(l, "// "):
			recs = append(recs, "cm@::"+l[3:])
		case strings.HasPrefix(l, "0x"):
			body := l
			isIns := false
			if k := strings.Index(l, " // "); k >= 0 {
				body = l[:k]
				isIns = true
			}
			var bs strings.Builder
			for _, p := range strings.Fields(body) {
				bs.WriteString(strings.TrimSuffix(strings.TrimPrefix(p, "0x"), ","))
			}
			if isIns {
				recs = append(recs, fmt.Sprintf("i%d@:%s:", bs.Len()/2, bs.String()))
			} else {
				recs = append(recs, "db@:"+bs.String()+":")
			}
		default:
			recs = append(recs, "??"+l)
		}
	}
	return strings.Join(recs, "|")
}

// ---------------------------------------------------------------------------------------------------------------
// execution on the real asm.Emitter, with the properties' own oracles evaluated on the way

type refRec struct {
	label string
	at    uint32 // address of the operand
	wide  bool
	meth  string // the method that emitted the reference
}

// WDC opcodes of the instructions that take a label operand (program-counter relative 8 / absolute 16)
var labelOpcode = map[string]byte{
	"BPL": 0x10, "BMI": 0x30, "BVC": 0x50, "BVS": 0x70, "BRA": 0x80, "BCC": 0x90, "BCS": 0xB0, "BNE": 0xD0, "BEQ": 0xF0,
	"JMP": 0x4C, "JSR": 0x20,
}

// labelRoundTrip (C03, decode clause for methods whose operand is a label): in a successfully finalized program the bytes of
// every accepted label-taking method are the opcode of its mnemonic followed by an operand that decodes back to the address
// of the label the method was given.  Returns a complaint or "".
func labelRoundTrip(code []byte, base uint32, refs []refRec, labels map[string]uint32) string {
	for _, r := range refs {
		t, def := labels[r.label]
		idx := int(r.at - base)
		n := 1
		if r.wide {
			n = 2
		}
		if !def || idx < 1 || idx+n > len(code) {
			continue
		}
		mn := r.meth
		if k := strings.Index(mn, "_"); k >= 0 {
			mn = mn[:k]
		}
		if op, known := labelOpcode[mn]; known && code[idx-1] != op {
			return fmt.Sprintf("%s(%q) at $%06x: opcode byte %02x, the 65816 encodes %s as %02x", r.meth, r.label, r.at-1, code[idx-1], strings.ToLower(mn), op)
		}
		if r.wide {
			if got := uint32(code[idx]) | uint32(code[idx+1])<<8; got != t&0xFFFF {
				return fmt.Sprintf("%s(%q) at $%06x reads % x after Finalize: it decodes to a jump to $%04x, label %q is at $%06x", r.meth, r.label, r.at-1, code[idx-1:idx+2], got, r.label, t)
			}
		} else if got := int64(r.at) + 1 + int64(int8(code[idx])); got != int64(t) {
			return fmt.Sprintf("%s(%q) at $%06x reads % x after Finalize: it decodes to a branch to $%06x, label %q is at $%06x", r.meth, r.label, r.at-1, code[idx-1:idx+1], got, r.label, t)
		}
	}
	return ""
}

type emState struct {
	e      *asm.Emitter
	refs   []refRec          // label references emitted so far (harness-side bookkeeping for the C06 oracle)
	labels map[string]uint32 // harness-side
	starts []uint32          // instruction start addresses (C07)
}

type asmRun struct {
	out     []string
	oracle  []string // property-oracle complaints, "Cnn: text"
	queries []string
}

// observerPanic is set when one of the read-only observers (Len, PC, Bytes, Flags, GetLabel) panicked
var observerPanic string

func snapshot(e *asm.Emitter, names []string) (out string) {
	defer func() {
		if r := recover(); r != nil {
			observerPanic = fmt.Sprint(r)
			out = "observer-panic: " + observerPanic
		}
	}()
	return snapshot0(e, names)
}

func snapshot0(e *asm.Emitter, names []string) string {
	var labs []string
	for _, n := range names {
		if v, ok := e.GetLabel(n); ok {
			labs = append(labs, n+"="+strconv.FormatUint(uint64(v), 16))
		}
	}
	sort.Strings(labs)
	b01 := func(b bool) string {
		if b {
			return "1"
		}
		return "0"
	}
	return fmt.Sprintf("n=%x pc=%x fl=%x m16=%s x16=%s base=%x b=%s lab=%s", e.Len(), e.PC(), uint8(e.Flags()), b01(e.IsM16bit()), b01(e.IsX16bit()), e.GetBase(),
		hex.EncodeToString(e.Bytes()), strings.Join(labs, ","))
}

// listings renders both listings of an emitter (parsed records), "panic" / "error" when they fail
func listings(e *asm.Emitter) string {
	var hb, tb bytes.Buffer
	var e1, e2 error
	if safe(func() { e1 = e.WriteHexTo(&hb); e2 = e.WriteTextTo(&tb) }) {
		return "panic"
	}
	if e1 != nil || e2 != nil {
		return "error"
	}
	return parseHexListing(hb.String()) + "|" + parseTextListing(tb.String())
}

func labelNames(c asmCase) []string {
	seen := map[string]bool{}
	var names []string
	for _, o := range c.ops {
		if o.kind == 'L' && !seen[o.label] {
			seen[o.label] = true
			names = append(names, o.label)
		}
	}
	return names
}

func safe(f func()) (panicked bool) {
	defer func() {
		if recover() != nil {
			panicked = true
		}
	}()
	f()
	return false
}

// execAsm runs a history on the real code.  It mirrors the protocol of AsmDrv.run in ModelDrv.lean.
func execAsm(c asmCase) asmRun {
	targetsIntact() // reset the registry
	names := labelNames(c)
	orig := &emState{e: asm.NewEmitter(mkTarget(c.cap), c.text), labels: map[string]uint32{}}
	var clone *emState
	onClone := false
	origAtClone := "" // what the original looked like when the live clone was made (C16: unaffected until Append)
	var run asmRun
	cur := func() *emState {
		if onClone && clone != nil {
			return clone
		}
		return orig
	}
	complain := func(prop, msg string) { run.oracle = append(run.oracle, prop+": "+msg) }
	// dry-run twin for C19: a nil-target emitter receiving the same operations as `orig` (until a clone is made)
	dry := asm.NewEmitter(nil, false)
	dryLive := c.cap >= 0
	for _, o := range c.ops {
		o := o
		func() {
			// a panic of the library inside an observer or a call that is not expected to refuse is part of the result
			defer func() {
				if r := recover(); r != nil {
					for _, pr := range []string{"C03", "C16", "C19"} {
						complain(pr, fmt.Sprintf("the emitter panicked outside a refusable call, at %s: %v", o, r))
					}
					run.out = append(run.out, "panic")
				}
			}()
			s := cur()
			e := s.e
			res := ""
			switch o.kind {
			case 'I', 'B', 'L':
				before := snapshot(e, names)
				pc := e.PC()
				len0 := e.Len()
				flagsBefore := uint8(e.Flags())
				bytes0 := append([]byte{}, e.Bytes()...)
				var p bool
				switch o.kind {
				case 'I':
					p = callMethod(e, *o.m, o.args, o.label)
				case 'B':
					// the caller owns the slice it passes: it is scribbled over right after the call (streaming records through one
					// scratch buffer), so an emitter that keeps a reference instead of a copy shows stale bytes in its listing
					scratch := append([]byte{}, o.data...)
					p = safe(func() { e.EmitBytes(scratch) })
					for i := range scratch {
						scratch[i] ^= 0xA5
					}
				case 'L':
					p = safe(func() { e.Label(o.label) })
				}
				if p {
					res = "refused"
					// C19: refused => bytes, length, PC and labels exactly as before (tracked flags may change, see DESIGN)
					after := snapshot(e, names)
					strip := func(s string) string { // drop the fl/m16/x16 fields
						f := strings.Fields(s)
						return f[0] + " " + f[1] + " " + f[5] + " " + f[6] + " " + f[7]
					}
					if strip(before) != strip(after) {
						complain("C19", fmt.Sprintf("refused %s changed bytes/len/pc/labels: %s -> %s", o, before, after))
					}
					if s == orig && clone == nil {
						dryLive = false // the twin only mirrors histories in which the real emitter accepts everything
					}
				} else {
					res = "ok"
					if o.kind == 'L' {
						res = "ok " + strconv.FormatUint(uint64(pc), 16)
						if old, dup := s.labels[o.label]; dup {
							complain("C06", fmt.Sprintf("label %q defined at %x was accepted again at %x: its references have no unique target", o.label, old, pc))
						}
						s.labels[o.label] = pc
					}
					if o.kind == 'I' {
						// C03: Len() and PC() advance by exactly the emitted length (2..4 bytes, never a wrapped or stale address)
						if adv := e.PC() - pc; adv < 1 || adv > 4 || (e.Cap() > 0 && int(adv) != e.Len()-len0) {
							complain("C03", fmt.Sprintf("accepted %s: PC went %x -> %x while Len() grew by %d", o, pc, e.PC(), e.Len()-len0))
						}
						if !(len(o.m.widths) == 1 && o.m.widths[0] == 0) && e.Cap() > 0 && e.Len() >= len0 {
							fresh := asm.NewEmitter(make([]byte, 8), false)
							fresh.AssumeSEP(asm.Flags(flagsBefore))
							fresh.AssumeREP(^asm.Flags(flagsBefore))
							if !callMethod(fresh, *o.m, o.args, o.label) && !bytes.Equal(fresh.Bytes(), e.Bytes()[len0:]) {
								complain("C03", fmt.Sprintf("%s appended %x here but emits %x into a fresh emitter with the same tracked widths", o, e.Bytes()[len0:], fresh.Bytes()))
							}
						}
						s.starts = append(s.starts, pc)
						if len(o.m.widths) == 1 && o.m.widths[0] == 0 {
							wide := e.PC()-pc == 3
							s.refs = append(s.refs, refRec{o.label, pc + 1, wide, o.m.name})
						}
					}
					hasTarget := (s == orig && c.cap >= 0) || (s != orig && e.Cap() > 0)
					if hasTarget {
						if e.Len() > e.Cap() {
							complain("C19", fmt.Sprintf("Len %d exceeds Cap %d", e.Len(), e.Cap()))
						}
						// all-or-nothing: an accepted emission stores every byte (length grows by what the PC advanced)
						if o.kind != 'L' && (e.Len()-len0 != int(e.PC()-pc) || !bytes.HasPrefix(e.Bytes(), bytes0)) {
							complain("C19", fmt.Sprintf("accepted %s stored %d bytes but advanced the PC by %d (partial emission)", o, e.Len()-len0, e.PC()-pc))
						}
						if o.kind == 'B' && !bytes.Equal(e.Bytes()[len0:], o.data) {
							complain("C19", fmt.Sprintf("accepted data block is not what Bytes() shows"))
						}
					}
				}
				if s == orig && clone == nil && dryLive {
					switch o.kind {
					case 'I':
						callMethod(dry, *o.m, o.args, o.label)
					case 'B':
						safe(func() { dry.EmitBytes(o.data) })
					case 'L':
						safe(func() { dry.Label(o.label) })
					}
					if !p {
						a, b := strings.Fields(snapshot(e, names)), strings.Fields(snapshot(dry, names))
						if a[1] != b[1] || a[2] != b[2] || a[7] != b[7] {
							complain("C19", fmt.Sprintf("dry-run emitter diverges after %s: real %s %s %s, dry %s %s %s", o, a[1], a[2], a[7], b[1], b[2], b[7]))
						}
					}
				}
			case 'C':
				e.Comment(o.label)
				res = "ok"
			case 'S':
				e.SetBase(o.addr)
				if s == orig && clone == nil {
					dry.SetBase(o.addr)
				}
				res = "ok"
			case 'F':
				before := append([]byte{}, e.Bytes()...)
				var err error
				if safe(func() { err = e.Finalize() }) {
					res = "crash"
					break
				}
				after := e.Bytes()
				// C06 oracle, from the harness's own bookkeeping
				wantOK := true
				exp := append([]byte{}, before...)
				operand := map[int]bool{}
				base := e.GetBase()
				for _, r := range s.refs {
					idx := int(r.at - base)
					operand[idx] = true
					if r.wide {
						operand[idx+1] = true
					}
					t, def := s.labels[r.label]
					if !def {
						wantOK = false
						continue
					}
					if r.wide {
						if idx+1 < len(exp) {
							exp[idx], exp[idx+1] = byte(t), byte(t>>8)
						}
					} else {
						d := int64(t) - int64(r.at+1)
						if d > 127 || d < -128 {
							wantOK = false
							continue
						}
						if idx < len(exp) {
							exp[idx] = byte(int8(d))
						}
					}
				}
				switch {
				case err == nil:
					res = "ok"
					// C03: what a label-taking method emitted decodes back to that method's mnemonic and to its label
					// (judged on the emitter that holds the whole program: a clone's buffer starts in the middle of it)
					if s == orig && c.cap >= 0 {
						if msg := labelRoundTrip(after, base, s.refs, s.labels); msg != "" {
							complain("C03", msg)
						}
					}
					if !wantOK {
						complain("C06", "Finalize succeeded although a reference is unresolved or out of range")
					} else if !bytes.Equal(after, exp) {
						complain("C06", fmt.Sprintf("finalized bytes %x, expected %x", after, exp))
					}
				default:
					if strings.Contains(err.Error(), "could not resolve") {
						res = "unresolved"
					} else {
						res = "toofar"
					}
					if wantOK {
						complain("C06", "Finalize failed although every reference is defined and in range: "+err.Error())
					}
					for i := range after {
						if after[i] != before[i] && !operand[i] {
							complain("C06", fmt.Sprintf("failed Finalize changed byte %d which is not an operand of a label reference", i))
						}
					}
				}
				if err == nil {
					s.refs = nil
				}
			case 'K':
				capN := -1
				if o.label != "nil" {
					v, _ := strconv.ParseInt(o.label, 16, 32)
					capN = int(v)
				}
				clone = &emState{e: orig.e.Clone(mkTarget(capN)), labels: map[string]uint32{}, refs: append([]refRec{}, orig.refs...)}
				origAtClone = snapshot(orig.e, names)
				if c.text {
					origAtClone += "|" + listings(orig.e)
				}
				for k, v := range orig.labels {
					clone.labels[k] = v
				}
				onClone = true
				res = "ok"
			case 'T':
				onClone = o.label == "c"
				res = "ok"
			case 'A':
				if clone == nil {
					res = "noclone"
					break
				}
				obsOrig := func() string {
					o := snapshot(orig.e, names)
					if c.text {
						o += "|" + listings(orig.e)
					}
					return o
				}
				before := obsOrig()
				// what the harness knows about the two buffers: the original's capacity is the size of the target it was created over
				// (none: 0 bytes), the fragment is what the clone holds
				len0, need := orig.e.Len(), clone.e.Len()
				room := -len0
				if c.cap > 0 {
					room += c.cap
				}
				tgt := "a target of " + strconv.Itoa(c.cap) + " bytes"
				if c.cap < 0 {
					tgt = "no target buffer"
				}
				if safe(func() { orig.e.Append(clone.e) }) {
					res = "refused"
					if obsOrig() != before {
						complain("C16", "refused Append modified the original")
					}
					if need <= room {
						complain("C16", fmt.Sprintf("Append of a clone holding %d byte(s) was refused although the original (%s, %d emitted) has room for %d: emitting the same calls directly is accepted", need, tgt, len0, room))
					}
				} else {
					res = "ok"
					if need > room {
						complain("C16", fmt.Sprintf("an Append that does not fit was accepted: the clone holds %d byte(s), the original (%s, %d emitted) had room for %d", need, tgt, len0, room))
					}
					orig.refs, orig.labels = clone.refs, clone.labels
					orig.starts = append(orig.starts, clone.starts...)
				}
				onClone = false
			case 'Q':
				res = snapshot(e, names)
				run.queries = append(run.queries, res)
			case 'H', 'X':
				var buf bytes.Buffer
				before := snapshot(e, names)
				var err error
				if safe(func() {
					if o.kind == 'H' {
						err = e.WriteHexTo(&buf)
					} else {
						err = e.WriteTextTo(&buf)
					}
				}) {
					res = "panic"
				} else if err != nil {
					res = "error"
				} else if o.kind == 'H' {
					res = parseHexListing(buf.String())
				} else {
					res = parseTextListing(buf.String())
				}
				if snapshot(e, names) != before {
					complain("C15", "producing a listing altered the program")
				}
			}
			if observerPanic != "" {
				for _, pr := range []string{"C03", "C16", "C19"} {
					complain(pr, fmt.Sprintf("an observer (Len / PC / Bytes / Flags / GetLabel) panicked after %s: %s", o, observerPanic))
				}
				observerPanic = ""
			}
			if clone != nil && s == clone && origAtClone != "" && o.kind != 'A' {
				now := snapshot(orig.e, names)
				if c.text {
					now += "|" + listings(orig.e)
				}
				if now != origAtClone {
					complain("C16", fmt.Sprintf("the original emitter changed although only its clone was used (%s): %s -> %s", o, clip(origAtClone, 200), clip(now, 200)))
					origAtClone = now
				}
			}
			if o.kind == 'A' {
				origAtClone = ""
			}
			run.out = append(run.out, res)
		}()
	}
	if !targetsIntact() {
		complain("C19", "bytes outside the target buffer were written (the target was a window into a larger array)")
	}
	return run
}

// listingOracle checks C15 on canonical records: hex bytes in order == Bytes(); text lines sit at their address.
func listingOracle(hexRecs, textRecs, bytesHex string, base uint32, setBases int) string {
	if hexRecs == "panic" || textRecs == "panic" || hexRecs == "error" || textRecs == "error" {
		return "producing a listing failed for a program that fit in the buffer"
	}
	var cat strings.Builder
	if hexRecs != "" {
		for _, r := range strings.Split(hexRecs, "|") {
			p := strings.SplitN(r, ":", 3)
			if len(p) == 3 {
				cat.WriteString(p[1])
			}
		}
	}
	if cat.String() != bytesHex {
		return fmt.Sprintf("hex listing bytes %s differ from Bytes() %s", cat.String(), bytesHex)
	}
	// the base directive sits where it was issued: once (SetBase is issued at most once, before the first emission), and before
	// every line that carries bytes
	for _, recs := range []string{hexRecs, textRecs} {
		nBase, bytesSeen := 0, false
		for _, r := range strings.Split(recs, "|") {
			p := strings.SplitN(r, ":", 3)
			if strings.HasPrefix(r, "base@") {
				nBase++
				if bytesSeen {
					return "a base directive is listed after lines that carry bytes (it was issued before the first emission)"
				}
			} else if len(p) == 3 && p[1] != "" {
				bytesSeen = true
			}
		}
		if nBase > setBases {
			return fmt.Sprintf("%d base directives are listed, %d were issued", nBase, setBases)
		}
	}
	if textRecs != "" {
		for _, r := range strings.Split(textRecs, "|") {
			p := strings.SplitN(r, ":", 3)
			if len(p) != 3 || p[1] == "" {
				continue
			}
			ka := strings.SplitN(p[0], "@", 2)
			a, err := strconv.ParseUint(ka[1], 16, 32)
			if err != nil {
				continue
			}
			off := int(uint32(a)-base) * 2
			if off < 0 || off+len(p[1]) > len(bytesHex) || bytesHex[off:off+len(p[1])] != p[1] {
				return fmt.Sprintf("text listing line %s does not show the bytes at its address", r)
			}
		}
	}
	return ""
}

// issuedRecords: the labels and comments the emitter whose listing is taken at operation `upto` was given, in the order of the
// calls, with a marker "x" wherever one or more byte-carrying calls (instructions, non-empty data blocks) were accepted in
// between.  A clone lists its own calls; the original lists the clone's behind its own once the clone was appended.
func issuedRecords(c asmCase, out []string, upto int) (issued []string, ok bool) {
	var orig, clone []string
	onClone, live := false, false
	add := func(r string) {
		l := &orig
		if onClone && live {
			l = &clone
		}
		if r == "x" && len(*l) > 0 && (*l)[len(*l)-1] == "x" {
			return
		}
		*l = append(*l, r)
	}
	for j, o := range c.ops[:upto] {
		if j >= len(out) {
			return nil, false
		}
		acc := strings.HasPrefix(out[j], "ok")
		switch o.kind {
		case 'I':
			if acc {
				add("x")
			}
		case 'B':
			if acc && len(o.data) > 0 {
				add("x")
			}
		case 'L':
			if acc {
				add("lb:" + o.label)
			}
		case 'C':
			add("cm:" + o.label)
		case 'K':
			clone, live, onClone = nil, true, true
		case 'T':
			onClone = o.label == "c"
		case 'A':
			onClone = false
			if live && acc {
				for _, r := range clone {
					add(r)
				}
			}
		}
	}
	if onClone && live {
		return clone, true
	}
	return orig, true
}

// positionsOracle (C15: "labels, comments and base directives appearing at the positions where they were issued"): the label
// and comment records of a listing are exactly the labels and comments issued, with their full text, in order, and byte-carrying
// lines stand between them exactly where byte-carrying calls were made.
func positionsOracle(issued []string, recs string) string {
	var got []string
	if recs != "" {
		for _, r := range strings.Split(recs, "|") {
			switch {
			case strings.HasPrefix(r, "base@"):
			case strings.HasPrefix(r, "lb@::"):
				got = append(got, "lb:"+r[5:])
			case strings.HasPrefix(r, "cm@::"):
				got = append(got, "cm:"+r[5:])
			case strings.HasPrefix(r, "??"):
				return fmt.Sprintf("line %q is neither an instruction, a data row, a label, a comment nor a base directive", clip(r[2:], 120))
			default:
				if len(got) == 0 || got[len(got)-1] != "x" {
					got = append(got, "x")
				}
			}
		}
	}
	show := func(r string) string {
		switch {
		case r == "x":
			return "lines carrying bytes"
		case strings.HasPrefix(r, "lb:"):
			return fmt.Sprintf("label %q (%d characters)", clip(r[3:], 60), len(r)-3)
		}
		return fmt.Sprintf("comment %q (%d characters)", clip(r[3:], 60), len(r)-3)
	}
	for i := 0; i < len(issued) || i < len(got); i++ {
		switch {
		case i >= len(got):
			return fmt.Sprintf("%s was issued as record %d, the listing ends before it", show(issued[i]), i)
		case i >= len(issued):
			return fmt.Sprintf("the listing shows %s as record %d, nothing was issued there", show(got[i]), i)
		case got[i] != issued[i]:
			return fmt.Sprintf("record %d: %s was issued, the listing shows %s", i, show(issued[i]), show(got[i]))
		}
	}
	return ""
}

// ---------------------------------------------------------------------------------------------------------------
// generator

func genAsmCase(r *prng.R, ms []asmMethod, rep *report.Report) asmCase {
	c := asmCase{text: r.Chance(70)}
	var body []asmOp
	nLabels := r.N(4)
	// label names of different lengths (the text listing pads them to a 12-character column)
	lpad := []int{0, 0, 8, 12, 13, 21}[r.N(6)]
	lname := func(i int) string {
		n := "l" + strconv.Itoa(i)
		if lpad > len(n) {
			n += "_" + strings.Repeat("q", lpad-len(n)-1)
		}
		return n
	}
	defined := map[int]bool{}
	if r.Chance(50) {
		base := uint32(r.N(0x100)) << 16
		if r.Chance(70) {
			base |= 0x8000 + uint32(r.N(0x7000))
		}
		body = append(body, asmOp{kind: 'S', addr: base})
		rep.Count("history: non-zero base")
	}
	size := 0
	n := 1 + r.N(14)
	var labelMs, otherMs []int
	for i, m := range ms {
		if len(m.widths) == 1 && m.widths[0] == 0 {
			labelMs = append(labelMs, i)
		} else {
			otherMs = append(otherMs, i)
		}
	}
	for i := 0; i < n; i++ {
		switch k := r.N(20); {
		case k < 9:
			m := &ms[otherMs[r.N(len(otherMs))]]
			args := make([]uint32, len(m.widths))
			for j := range args {
				args[j] = r.U32()
			}
			// keep the tracker mostly consistent so that width-guarded methods are accepted about half the time
			body = append(body, asmOp{kind: 'I', m: m, args: args})
			size += 1 + len(m.widths) // rough
		case k < 12 && nLabels > 0:
			m := &ms[labelMs[r.N(len(labelMs))]]
			body = append(body, asmOp{kind: 'I', m: m, label: lname(r.N(nLabels + 1))}) // may reference a label never defined
			size += 3
			rep.Count("op: label reference")
		case k < 14 && nLabels > 0:
			j := r.N(nLabels)
			if defined[j] && r.Chance(80) {
				j = (j + 1) % nLabels
			}
			if defined[j] {
				rep.Count("op: label redefinition")
			}
			defined[j] = true
			body = append(body, asmOp{kind: 'L', label: lname(j)})
		case k < 16:
			ln := []int{0, 1, 15, 16, 17, 31, 32, 33, 48, 100, 120, 130}[r.N(12)]
			if r.Chance(30) {
				ln = r.N(20)
			}
			d := make([]byte, ln)
			for j := range d {
				d[j] = r.U8()
			}
			body = append(body, asmOp{kind: 'B', data: d})
			size += ln
			rep.Count(fmt.Sprintf("op: data block len%%16=%d", ln%16))
		case k < 17:
			body = append(body, asmOp{kind: 'C', label: "c" + strconv.Itoa(r.N(100))})
		case k < 18:
			// REP / SEP / with masks that matter
			nm := []string{"REP", "SEP"}[r.N(2)]
			for j := range ms {
				if ms[j].name == nm {
					body = append(body, asmOp{kind: 'I', m: &ms[j], args: []uint32{[]uint32{0x10, 0x20, 0x30, 0x00, 0xFF, uint32(r.U8())}[r.N(6)]}})
				}
			}
			size += 2
		default:
			body = append(body, asmOp{kind: 'Q'})
		}
	}
	// capacity: enough, exactly, 0..3 short, or nil
	switch r.N(10) {
	case 0:
		c.cap = -1
		rep.Count("history: nil target")
	case 1, 2, 3:
		c.cap = size + 8 - (1 + r.N(12))
		if c.cap < 0 {
			c.cap = 0
		}
		rep.Count("history: tight capacity")
	default:
		c.cap = size + 300
	}
	// optional clone / append split
	if r.Chance(35) && len(body) > 1 {
		k := 1 + r.N(len(body)-1)
		cc := c.cap
		if r.Chance(20) {
			cc = r.N(6)
		}
		capS := "nil"
		if cc >= 0 {
			capS = strconv.FormatInt(int64(cc), 16)
		}
		pre := append([]asmOp{}, body[:k]...)
		post := append([]asmOp{}, body[k:]...)
		body = append(pre, asmOp{kind: 'K', label: capS})
		for i, o := range post {
			body = append(body, o)
			if r.Chance(15) && i < len(post)-1 {
				// touch nothing on the original, but observe it: it must be unaffected until Append
				body = append(body, asmOp{kind: 'T', label: "o"}, asmOp{kind: 'Q'}, asmOp{kind: 'T', label: "c"})
			}
		}
		body = append(body, asmOp{kind: 'T', label: "o"}, asmOp{kind: 'Q'}, asmOp{kind: 'A'})
		rep.Count("history: clone/append split")
		if r.Chance(50) && len(post) > 0 {
			// the program goes on in the original after the Append (re-using some of the tail's operations)
			for i := 0; i < 1+r.N(3); i++ {
				o := post[r.N(len(post))]
				if o.kind == 'I' || o.kind == 'B' || o.kind == 'C' {
					body = append(body, o)
				}
			}
			rep.Count("history: emission continues after Append")
		}
	}
	body = append(body, asmOp{kind: 'Q'})
	if c.text {
		body = append(body, asmOp{kind: 'H'}, asmOp{kind: 'X'})
	}
	if r.Chance(75) {
		body = append(body, asmOp{kind: 'F'}, asmOp{kind: 'Q'})
		if c.text {
			body = append(body, asmOp{kind: 'H'}, asmOp{kind: 'X'})
		}
	}
	c.ops = body
	return c
}

// directed: branch distances around the signed-8 limits
func branchDistanceCases(ms []asmMethod) []asmCase {
	find := func(n string) *asmMethod {
		for i := range ms {
			if ms[i].name == n {
				return &ms[i]
			}
		}
		return nil
	}
	bne, bra, jmp, nop := find("BNE"), find("BRA"), find("JMP_abs"), find("NOP")
	var cs []asmCase
	for _, gap := range []int{0, 1, 125, 126, 127, 128, 129, 130} {
		for _, fwd := range []bool{true, false} {
			for _, base := range []uint32{0, 0x008000, 0x7EFF80} {
				var ops []asmOp
				if base != 0 {
					ops = append(ops, asmOp{kind: 'S', addr: base})
				}
				pad := make([]byte, gap)
				if fwd {
					ops = append(ops, asmOp{kind: 'I', m: bne, label: "t"}, asmOp{kind: 'B', data: pad}, asmOp{kind: 'L', label: "t"}, asmOp{kind: 'I', m: nop})
				} else {
					ops = append(ops, asmOp{kind: 'L', label: "t"}, asmOp{kind: 'B', data: pad}, asmOp{kind: 'I', m: bra, label: "t"}, asmOp{kind: 'I', m: jmp, label: "t"})
				}
				ops = append(ops, asmOp{kind: 'Q'}, asmOp{kind: 'H'}, asmOp{kind: 'X'}, asmOp{kind: 'F'}, asmOp{kind: 'Q'}, asmOp{kind: 'H'}, asmOp{kind: 'X'})
				cs = append(cs, asmCase{cap: 400, text: true, ops: ops})
			}
		}
	}
	// far distances: 16-bit and wider wrap-arounds of the displacement arithmetic must still be rejected
	for _, gap := range []int{32766, 32767, 32768, 65405, 65406, 65407, 65408, 65409, 65500, 65533, 65534, 65535, 65536, 65540, 131071} {
		for _, fwd := range []bool{true, false} {
			var ops []asmOp
			ops = append(ops, asmOp{kind: 'S', addr: 0x010000}) // bank start: distances up to 65535 stay inside one bank
			pad := make([]byte, gap)
			if fwd {
				ops = append(ops, asmOp{kind: 'I', m: bne, label: "t"}, asmOp{kind: 'B', data: pad}, asmOp{kind: 'L', label: "t"}, asmOp{kind: 'I', m: nop})
			} else {
				ops = append(ops, asmOp{kind: 'L', label: "t"}, asmOp{kind: 'B', data: pad}, asmOp{kind: 'I', m: bra, label: "t"})
			}
			ops = append(ops, asmOp{kind: 'Q'}, asmOp{kind: 'F'}, asmOp{kind: 'Q'})
			cs = append(cs, asmCase{cap: gap + 64, text: false, ops: ops})
		}
	}
	return cs
}

// longText: n characters, no two neighbouring stretches alike (a cut or a repetition anywhere changes the text)
func longText(n int, salt int) string {
	const alpha = "abcdefghijklmnopqrstuvwxyzABCDEFGHIJKLMNOPQRSTUVWXYZ0123456789_"
	b := make([]byte, n)
	for i := range b {
		b[i] = alpha[(i*37+i/len(alpha)*11+salt)%len(alpha)]
	}
	return string(b)
}

// textLengths: comment / label lengths far beyond the usual; every length around one and four KiB-sized line buffers
func textLengths() []int {
	ls := []int{0, 1, 100}
	for n := 1000; n <= 1100; n++ {
		ls = append(ls, n)
	}
	return append(ls, 4090, 4096, 4100, 70000)
}

// longTextCases (C15: "whatever the length of data blocks or comments"): comments and label names of 0 .. 70000 characters
// between instructions, labels and data blocks, the long label referenced forward and backward; data blocks of many thousand bytes
func longTextCases(ms []asmMethod) []asmCase {
	find := func(n string) *asmMethod { return findMethod(ms, n) }
	nop, jsl, bne, bra, jmp := find("NOP"), find("JSL"), find("BNE"), find("BRA"), find("JMP_abs")
	if nop == nil || jsl == nil || bne == nil || bra == nil || jmp == nil {
		return nil
	}
	tail := []asmOp{{kind: 'Q'}, {kind: 'H'}, {kind: 'X'}, {kind: 'F'}, {kind: 'Q'}, {kind: 'H'}, {kind: 'X'}}
	var cs []asmCase
	for i, ln := range textLengths() {
		var pre []asmOp
		if i%2 == 1 {
			pre = []asmOp{{kind: 'S', addr: 0x7E8000}}
		}
		cm := longText(ln, i)
		ops := append(append([]asmOp{}, pre...),
			asmOp{kind: 'I', m: nop}, asmOp{kind: 'C', label: cm}, asmOp{kind: 'I', m: jsl, args: []uint32{0x7E1234}},
			asmOp{kind: 'C', label: cm}, asmOp{kind: 'L', label: "after"}, asmOp{kind: 'C', label: cm},
			asmOp{kind: 'B', data: []byte{1, 2, 3, 4, 5, 6, 7, 8, 9, 10, 11, 12, 13, 14, 15, 16, 17}}, asmOp{kind: 'C', label: cm})
		cs = append(cs, asmCase{cap: 64, text: true, ops: append(ops, tail...)})
		lb := longText(ln, i+5)
		ops = append(append([]asmOp{}, pre...),
			asmOp{kind: 'I', m: bne, label: lb}, asmOp{kind: 'I', m: nop}, asmOp{kind: 'L', label: lb}, asmOp{kind: 'I', m: jsl, args: []uint32{0x7E1234}},
			asmOp{kind: 'I', m: bra, label: lb}, asmOp{kind: 'L', label: "z"}, asmOp{kind: 'I', m: jmp, label: lb}, asmOp{kind: 'I', m: nop})
		cs = append(cs, asmCase{cap: 64, text: true, ops: append(ops, tail...)})
	}
	for i, ln := range []int{4095, 4096, 4097, 10000, 20000} {
		d := make([]byte, ln)
		for j := range d {
			d[j] = byte(j*13 + j>>8 + i)
		}
		ops := []asmOp{{kind: 'S', addr: []uint32{0x018000, 0x010000, 0x7E0000, 0, 0x020000}[i]}, {kind: 'C', label: "before"}, {kind: 'B', data: d}, {kind: 'L', label: "behind"}, {kind: 'I', m: nop}, {kind: 'B', data: d[:ln/3]}, {kind: 'C', label: "end"}}
		cs = append(cs, asmCase{cap: ln + ln/3 + 10, text: true, ops: append(ops, tail...)})
	}
	return cs
}

// genLongTextCase: random histories in which comments, label names and data blocks are long
func genLongTextCase(r *prng.R, ms []asmMethod, rep *report.Report) asmCase {
	c := asmCase{text: r.Chance(90)}
	lens := textLengths()
	pick := func() int {
		switch k := r.N(60); {
		case k == 0:
			return 70000
		case k < 12:
			return []int{0, 1, 100, 4090, 4096, 4100}[r.N(6)]
		case k < 24:
			return 200 + r.N(3000)
		}
		return lens[3+r.N(101)]
	}
	var labelMs, otherMs []int
	for i, m := range ms {
		if len(m.widths) == 1 && m.widths[0] == 0 {
			labelMs = append(labelMs, i)
		} else {
			otherMs = append(otherMs, i)
		}
	}
	names := []string{longText(pick(), r.N(50)), longText(pick(), 50+r.N(50)), "s"}
	var body []asmOp
	if r.Chance(50) {
		body = append(body, asmOp{kind: 'S', addr: uint32(r.N(0x100))<<16 | 0x8000})
	}
	size := 0
	defined := map[int]bool{}
	for i := 2 + r.N(9); i > 0; i-- {
		switch k := r.N(20); {
		case k < 6:
			m := &ms[otherMs[r.N(len(otherMs))]]
			args := make([]uint32, len(m.widths))
			for j := range args {
				args[j] = r.U32()
			}
			body = append(body, asmOp{kind: 'I', m: m, args: args})
			size += 4
		case k < 9:
			body = append(body, asmOp{kind: 'I', m: &ms[labelMs[r.N(len(labelMs))]], label: names[r.N(3)]})
			size += 3
		case k < 12:
			j := r.N(3)
			if defined[j] {
				j = (j + 1) % 3
			}
			defined[j] = true
			body = append(body, asmOp{kind: 'L', label: names[j]})
		case k < 16:
			body = append(body, asmOp{kind: 'C', label: longText(pick(), r.N(60))})
			rep.Count("op: long comment")
		default:
			ln := []int{0, 1, 16, 17, 100, 1000, 1024, 3000, 5000}[r.N(9)]
			d := make([]byte, ln)
			for j := range d {
				d[j] = r.U8()
			}
			body = append(body, asmOp{kind: 'B', data: d})
			size += ln
		}
	}
	c.cap = size + 50
	if r.Chance(30) && len(body) > 1 {
		k := 1 + r.N(len(body)-1)
		pre, post := append([]asmOp{}, body[:k]...), append([]asmOp{}, body[k:]...)
		body = append(append(append(pre, asmOp{kind: 'K', label: strconv.FormatInt(int64(c.cap), 16)}), post...), asmOp{kind: 'T', label: "o"}, asmOp{kind: 'Q'}, asmOp{kind: 'A'})
	}
	body = append(body, asmOp{kind: 'Q'})
	if c.text {
		body = append(body, asmOp{kind: 'H'}, asmOp{kind: 'X'})
	}
	if r.Chance(60) {
		body = append(body, asmOp{kind: 'F'}, asmOp{kind: 'Q'})
		if c.text {
			body = append(body, asmOp{kind: 'H'}, asmOp{kind: 'X'})
		}
	}
	c.ops = body
	return c
}

// appendCapacityCases (C16 / C19: "an Append that does not fit the remaining capacity is refused without modifying the
// original"): every combination of no target / too small / exact / ample targets for the original and for its clone.  The head
// takes 5 bytes, the tail 7; the original goes on emitting after the Append whatever its outcome.
func appendCapacityCases(ms []asmMethod) []asmCase {
	find := func(n string) *asmMethod { return findMethod(ms, n) }
	lda, bne, jmp, nop, rep := find("LDA_abs"), find("BNE"), find("JMP_abs"), find("NOP"), find("REP")
	if lda == nil || bne == nil || jmp == nil || nop == nil || rep == nil {
		return nil
	}
	capS := func(n int) string {
		if n < 0 {
			return "nil"
		}
		return strconv.FormatInt(int64(n), 16)
	}
	var cs []asmCase
	for _, oc := range []int{-1, 0, 4, 5, 6, 11, 12, 13, 100} {
		for _, cc := range []int{-1, 0, 1, 6, 7, 8, 100} {
			for _, text := range []bool{false, true} {
				for _, based := range []bool{false, true} {
					var ops []asmOp
					if based {
						ops = append(ops, asmOp{kind: 'S', addr: 0x80FF00})
					}
					ops = append(ops, asmOp{kind: 'I', m: lda, args: []uint32{0x1234}}, asmOp{kind: 'I', m: bne, label: "fwd"}, asmOp{kind: 'L', label: "h"}, asmOp{kind: 'Q'},
						asmOp{kind: 'K', label: capS(cc)})
					if oc >= 0 && cc < 0 {
						// a clone without a target that is appended to an original with one: the bytes it was given exist nowhere (the
						// properties speak of clones over a real buffer, see the assumptions of C16); its tail carries no bytes
						ops = append(ops, asmOp{kind: 'L', label: "fwd"}, asmOp{kind: 'C', label: "tail"}, asmOp{kind: 'B'}, asmOp{kind: 'Q'})
					} else {
						ops = append(ops, asmOp{kind: 'I', m: jmp, label: "h"}, asmOp{kind: 'I', m: rep, args: []uint32{0x30}}, asmOp{kind: 'L', label: "fwd"}, asmOp{kind: 'C', label: "tail"}, asmOp{kind: 'B', data: []byte{0xEA}}, asmOp{kind: 'I', m: nop}, asmOp{kind: 'Q'})
					}
					ops = append(ops, asmOp{kind: 'T', label: "o"}, asmOp{kind: 'Q'}, asmOp{kind: 'A'}, asmOp{kind: 'Q'},
						asmOp{kind: 'I', m: nop}, asmOp{kind: 'L', label: "e"}, asmOp{kind: 'Q'})
					if text {
						ops = append(ops, asmOp{kind: 'H'}, asmOp{kind: 'X'})
					}
					ops = append(ops, asmOp{kind: 'F'}, asmOp{kind: 'Q'})
					cs = append(cs, asmCase{cap: oc, text: text, ops: ops})
				}
			}
		}
	}
	return cs
}

func shrinkAsm(c asmCase, fails func(asmCase) bool) asmCase {
	for changed := true; changed; {
		changed = false
		for i := 0; i < len(c.ops); i++ {
			d := asmCase{c.cap, c.text, append(append([]asmOp{}, c.ops[:i]...), c.ops[i+1:]...)}
			if len(d.ops) > 0 && fails(d) {
				c, changed = d, true
				i--
			}
		}
	}
	return c
}

// directTwin: for a history with a clone/append split, the same instruction stream emitted directly;
// tailIdx is the index in the twin of the first operation that follows the Append.
func directTwin(c asmCase) (d asmCase, has bool, tailIdx int) {
	d = asmCase{cap: c.cap, text: c.text}
	skip := false
	tailIdx = -1
	for _, o := range c.ops {
		switch o.kind {
		case 'K':
			has = true
			continue
		case 'A':
			tailIdx = len(d.ops)
			skip = false
			continue
		case 'T':
			skip = o.label == "o" // observations of the original in between are not part of the stream
			continue
		}
		if skip {
			continue
		}
		d.ops = append(d.ops, o)
	}
	if d.cap >= 0 {
		d.cap += 400
	}
	return
}

func propsOfOracle(s string) string { return s[:3] }

// cutAtFailedFinalize: after a failed Finalize the patched bytes depend on Go's map iteration order, so nothing that
// follows is compared (the failure itself is).
func cutAtFailedFinalize(ops []asmOp, out []string) []string {
	for j, o := range ops {
		if j < len(out) && o.kind == 'F' && out[j] != "ok" {
			// which of several errors is reported also depends on the iteration order: compare "fail" only
			c := append(append([]string{}, out[:j]...), "fail")
			return c
		}
	}
	return out
}

func cutReply(ops []asmOp, reply string) string {
	return strings.Join(cutAtFailedFinalize(ops, strings.Split(reply, ";")), ";")
}

func runAsm() {
	rep := report.New("asm", tier, seed)
	ms := asmMethods()
	n := 12000
	if tier == "thorough" {
		n = 250000
	}
	r := prng.New(seed)
	cases := branchDistanceCases(ms)
	lt := longTextCases(ms)
	rep.CountN("directed: comments / label names of 0..70000 characters, data blocks of 4095..20000 bytes", int64(len(lt)))
	cases = append(cases, lt...)
	ac := appendCapacityCases(ms)
	rep.CountN("directed: Append with no / too small / exact / ample targets of original and clone", int64(len(ac)))
	cases = append(cases, ac...)
	nLong := 300
	if tier == "thorough" {
		nLong = 3000
	}
	rl := prng.New(seed ^ 0x10D67E87)
	for i := 0; i < nLong; i++ {
		cases = append(cases, genLongTextCase(rl.Fork(), ms, rep))
	}
	for i := 0; i < n; i++ {
		cases = append(cases, genAsmCase(r.Fork(), ms, rep))
	}
	d, err := drv.Start(modelDrv)
	var replies []string
	if err == nil {
		defer d.Close()
		reqs := make([]string, len(cases))
		for i, c := range cases {
			reqs[i] = c.String()
		}
		replies, err = d.Batch(reqs)
	}
	allProps := []string{"C03", "C06", "C07", "C15", "C16", "C19"}
	if err != nil {
		for _, p := range allProps {
			rep.Add(report.Finding{Property: p, Kind: "disagreement", Clause: "model driver unavailable", Detail: err.Error()})
		}
	}
	distinct := map[string]bool{}
	nShrunk := map[string]int{}
	var ops int64
	// families of emitters first (their own PRNG stream; the histories below are the same as before for a given seed)
	nFam := 1500
	if tier == "thorough" {
		nFam = 30000
	}
	ops += runFamilies(rep, ms, prng.New(seed^0xFA3117), nFam)
	for i, c := range cases {
		run := execAsm(c)
		ops += int64(len(c.ops))
		shape := ""
		for j, o := range c.ops {
			g := run.out[j]
			if len(g) > 3 {
				g = g[:3]
			}
			nm := string(o.kind)
			if o.kind == 'I' {
				nm += strconv.Itoa(len(o.m.widths))
			}
			shape += nm + g
		}
		distinct[shape] = true
		if i%1500 == 0 {
			rep.Sample(map[string]string{"history": c.String(), "go": strings.Join(run.out, ";")})
		}
		// C15 oracle on the real listings when every emission was accepted
		accepted := true
		for j, o := range c.ops {
			if (o.kind == 'I' || o.kind == 'B' || o.kind == 'A') && run.out[j] != "ok" {
				accepted = false
			}
			if o.kind == 'F' && run.out[j] == "crash" {
				accepted = false
			}
		}
		if accepted && c.text && c.cap >= 0 {
			var lastQ, lastH string
			for j, o := range c.ops {
				switch o.kind {
				case 'Q':
					lastQ = run.out[j]
				case 'H':
					lastH = run.out[j]
				case 'X':
					f := strings.Fields(lastQ)
					if len(f) >= 7 {
						base, _ := strconv.ParseUint(strings.TrimPrefix(f[5], "base="), 16, 32)
						nsb := 0
						for _, oo := range c.ops[:j] {
							if oo.kind == 'S' {
								nsb++
							}
						}
						if msg := listingOracle(lastH, run.out[j], strings.TrimPrefix(f[6], "b="), uint32(base), nsb); msg != "" {
							run.oracle = append(run.oracle, "C15: "+msg)
						}
						if issued, ok := issuedRecords(c, run.out, j); ok {
							for w, recs := range []string{lastH, run.out[j]} {
								if msg := positionsOracle(issued, recs); msg != "" {
									run.oracle = append(run.oracle, "C15: "+[]string{"hex", "text"}[w]+" listing: "+msg)
									break
								}
							}
						}
					}
				}
			}
		}
		// C16 oracle: clone+append vs direct emission
		if twin, has, tailIdx := directTwin(c); has && accepted && tailIdx >= 0 {
			tr := execAsm(twin)
			tacc := true
			for j, o := range twin.ops {
				if (o.kind == 'I' || o.kind == 'B' || o.kind == 'L') && !strings.HasPrefix(tr.out[j], "ok") {
					tacc = false
				}
			}
			posA := -1
			for j, o := range c.ops {
				if o.kind == 'A' {
					posA = j
				}
				if o.kind == 'L' && !strings.HasPrefix(run.out[j], "ok") {
					tacc = false
				}
			}
			if tacc && posA >= 0 {
				a := strings.Join(cutAtFailedFinalize(c.ops[posA+1:], run.out[posA+1:]), ";")
				b := strings.Join(cutAtFailedFinalize(twin.ops[tailIdx:], tr.out[tailIdx:]), ";")
				if a != b {
					run.oracle = append(run.oracle, fmt.Sprintf("C16: clone+append differs from direct emission: %s vs %s", a, b))
				}
				rep.Count("C16: clone/append histories compared with direct emission")
			}
		}
		for _, msg := range run.oracle {
			prop := propsOfOracle(msg)
			if nShrunk[prop] >= 40 {
				continue // forty shrunk failing histories per property are reported; the rest would repeat them
			}
			nShrunk[prop]++
			m := shrinkAsm(c, func(x asmCase) bool {
				for _, mm := range execAsm(x).oracle {
					if propsOfOracle(mm) == prop {
						return true
					}
				}
				return false
			})
			mr := execAsm(m)
			for _, mm := range mr.oracle {
				if propsOfOracle(mm) == prop {
					msg = mm // the complaint as it reads on the shrunk history
					break
				}
			}
			rep.Add(report.Finding{Property: prop, Kind: "violation", Clause: "emitter vs property oracle: " + msg[5:], Input: m.String(), Actual: strings.Join(mr.out, ";")})
		}
		mask := func(out []string) []string {
			// listings are only specified (and compared) for programs whose emissions were all accepted
			if accepted {
				return out
			}
			m := append([]string{}, out...)
			for j, o := range c.ops {
				if j < len(m) && (o.kind == 'H' || o.kind == 'X') {
					m[j] = "-"
				}
			}
			return m
		}
		if replies != nil && i < len(replies) &&
			strings.Join(cutAtFailedFinalize(c.ops, mask(strings.Split(replies[i], ";"))), ";") != strings.Join(cutAtFailedFinalize(c.ops, mask(run.out)), ";") {
			for _, p := range allProps {
				rep.Add(report.Finding{Property: p, Kind: "disagreement", Clause: "Lean AsmModel vs asm.Emitter on the same history",
					Input: c.String(), Expected: replies[i] + " (model)", Actual: strings.Join(run.out, ";") + " (go)"})
			}
		}
	}
	rep.Evaluations = ops
	rep.Distinct = int64(len(distinct))
	rep.CountN("histories", int64(len(cases)))
	rep.Rule = "families of emitters (Go oracles only): 1..3 roots fed the same head plus a dry-run root, clones of the first root with and without a buffer and of the dry root fed the same tail, " +
		"the clone appended back and to the other roots while the clone, the original and the receivers go on emitting, every live emitter re-observed (state, hex and text listing) after every call; " +
		"directed: a fragment of 0..17 listing records handed to two fresh emitters; a clone with a buffer appended to an original without one (C16: an Append that does not fit is refused, one that fits is accepted); " +
		"directed: comments and label names of 0, 1, 100, 1000..1100, 4090..4100 and 70000 characters between instructions, labels and data blocks, long labels referenced forward and backward, data blocks of 4095..20000 bytes with listing on, " +
		"plus random histories of such texts (C15 clause added: the label and comment records of both listings are the labels and comments issued, in full, in order, with byte-carrying lines exactly where byte-carrying calls were made); " +
		"directed: Append for every combination of no / too small / exact / ample target of the original (9 sizes) and of the clone (7 sizes), listing on and off, with and without base, the original going on afterwards; " +
		"directed branch distances 0..130 and 32766..131071 in both directions; target buffers: plain and windows into a larger array (guarded); label names of 2..21 characters; " +
		"random emitter histories over all instruction methods (by reflection), labels before/after/missing/redefined, data blocks of lengths 0,1,15,16,17,31,32,33,48,100.., comments, " +
		"non-zero bases, REP/SEP masks, capacities from 0 to ample and nil targets, clone/append splits with observation of the original in between; directed branch distances 0,1,125..130 forward and backward; " +
		"every history also runs on a dry-run twin and (for splits) as direct emission; listings parsed into (kind, address, bytes, text) records. " +
		"evaluations = operations; distinct_nontrivial = distinct (op kind, arity, outcome) sequences"
	rep.Emit()
}

// runAsmEnc: C03 / C07 — every instruction method, every operand value (8- and 16-bit exhaustively, 24/32-bit sampled),
// compared with the specification bytes and the regenerated row (both computed by the Lean driver).
func runAsmEnc() {
	rep := report.New("asm-enc", tier, seed)
	ms := asmMethods()
	d, err := drv.Start(modelDrv)
	if err != nil {
		for _, p := range []string{"C03", "C07"} {
			rep.Add(report.Finding{Property: p, Kind: "disagreement", Clause: "model driver unavailable", Detail: err.Error()})
		}
		rep.Emit()
		return
	}
	defer d.Close()
	r := prng.New(seed)
	var total int64
	for mi := range ms {
		m := &ms[mi]
		var argSets [][]uint32
		switch {
		case len(m.widths) == 0:
			argSets = [][]uint32{{}}
		case len(m.widths) == 1 && m.widths[0] == 0:
			argSets = [][]uint32{{}}
		case len(m.widths) == 1 && m.widths[0] == 8:
			for v := uint32(0); v < 256; v++ {
				argSets = append(argSets, []uint32{v})
			}
		case len(m.widths) == 1 && m.widths[0] == 16:
			step := uint32(1)
			if tier != "thorough" {
				step = 17
			}
			for v := uint32(0); v < 65536; v += step {
				argSets = append(argSets, []uint32{v})
			}
			argSets = append(argSets, []uint32{0xFFFF}, []uint32{0x00FF}, []uint32{0xFF00}, []uint32{0x8000})
		default:
			k := 3000
			if tier == "thorough" {
				k = 60000
			}
			for i := 0; i < k; i++ {
				a := make([]uint32, len(m.widths))
				for j, w := range m.widths {
					a[j] = r.U32() & (1<<uint(w) - 1)
					if w == 32 && r.Chance(50) {
						a[j] &= 0xFFFFFF
					}
				}
				argSets = append(argSets, a)
			}
			argSets = append(argSets, make([]uint32, len(m.widths)))
		}
		// widths under which the method is legal: try all four tracker states, keep the accepted ones
		reqs := make([]string, len(argSets))
		for i, a := range argSets {
			s := "enc " + m.name
			for _, x := range a {
				s += " " + strconv.FormatUint(uint64(x), 16)
			}
			reqs[i] = s
		}
		replies, err := d.Batch(reqs)
		if err != nil {
			rep.Add(report.Finding{Property: "C03", Kind: "disagreement", Clause: "model driver failed", Detail: err.Error()})
			break
		}
		accepted := 0
		for _, fl := range []uint8{0x00, 0x10, 0x20, 0x30} {
			for i, a := range argSets {
				if fl != 0x30 && i%8 != 0 && len(argSets) > 300 {
					continue // full sweep under one state, every 8th value under the others
				}
				e := asm.NewEmitter(make([]byte, 8), true)
				// the instruction sits in the middle of a bank, or ends on / straddles the end of a bank or of the address space
				base := []uint32{0x8000, 0x00FFFC, 0x00FFFD, 0x7EFFFE, 0x80FFFF, 0xFFFFFD, 0x018000, 0xC0FFFB}[(i+int(fl>>4))%8]
				e.SetBase(base)
				e.AssumeSEP(asm.Flags(fl))
				pc0, len0 := e.PC(), e.Len()
				if callMethod(e, *m, a, "lab") {
					continue
				}
				accepted++
				total++
				got := hex.EncodeToString(e.Bytes())
				f := strings.Fields(replies[i])
				if len(f) != 2 {
					rep.Add(report.Finding{Property: "C03", Kind: "disagreement", Clause: "method unknown to the regenerated table / expectation: " + replies[i], Input: reqs[i]})
					continue
				}
				if got != f[0] {
					rep.Add(report.Finding{Property: "C03", Kind: "violation", Clause: "emitted bytes are the canonical encoding of the method's mnemonic and addressing mode",
						Input: fmt.Sprintf("%s (tracked flags %02x)", reqs[i], fl), Expected: f[0], Actual: got})
				}
				if got != f[1] {
					rep.Add(report.Finding{Property: "C03", Kind: "disagreement", Clause: "regenerated method row vs the Go method", Input: reqs[i], Expected: f[1], Actual: got})
				}
				if int(e.PC()-pc0) != len(got)/2 || e.Len()-len0 != len(got)/2 {
					rep.Add(report.Finding{Property: "C03", Kind: "violation", Clause: "Len() and PC() advance by the instruction length", Input: fmt.Sprintf("%s (base %06x, tracked flags %02x)", reqs[i], base, fl),
						Expected: fmt.Sprint(len(got) / 2), Actual: fmt.Sprintf("PC +%d Len +%d", e.PC()-pc0, e.Len()-len0)})
				}
			}
		}
		if accepted == 0 {
			rep.Add(report.Finding{Property: "C03", Kind: "violation", Clause: "method is refused under every tracked width", Input: m.name})
		}
		rep.Count("methods swept")
		if mi%12 == 0 && len(replies) > 0 {
			rep.Sample(map[string]string{"request": reqs[len(reqs)/2], "spec+model": replies[len(reqs)/2]})
		}
	}
	rep.Evaluations = total
	rep.Distinct = total
	rep.Exhaustive = tier == "thorough"
	rep.Rule = "every instruction method found by reflection x operand values: all 256 for 8-bit, all 65536 (quick: every 17th + edges) for 16-bit, PRNG samples for multi-byte/24-bit, " +
		"under each of the four tracked (M,X) states in which the method is accepted, at bases in mid-bank and with the instruction ending on / straddling a bank end or the top of the address space; real bytes compared with the name-derived specification bytes and with the regenerated row (Lean driver); " +
		"distinct_nontrivial = accepted (method, operand, width) calls"
	rep.Emit()
}
