package main

import (
	"encoding/json"
	"fmt"
	"os"
	"path/filepath"
	"strings"

	"verifharness/internal/cpuh"
	"verifharness/internal/drv"
	"verifharness/internal/prng"
	"verifharness/internal/report"
)

func init() { components["cpu"] = func(string) { runCPU() } }

type cpuCase struct {
	regs  cpuh.Regs
	seed  uint64
	ovl   map[uint32]byte
	steps int
	tag   string // generator class, for the distribution
}

func ovlString(ovl map[uint32]byte) string {
	if len(ovl) == 0 {
		return "-"
	}
	m := cpuh.NewMem(0)
	for a, v := range ovl {
		m.Ovl[a] = v
		m.Writes = append(m.Writes, a)
	}
	return m.WritesCanon()
}

func (c cpuCase) line(variant string) string {
	return fmt.Sprintf("cpu %s %x %s %x %s", variant, c.steps, c.regs.Canon(), c.seed, ovlString(c.ovl))
}

type stepObs struct {
	state  string // canon | writes
	cycles int
	stop   bool
	panic  string
	maxA   uint32
}

func runGo(c cpuCase, variant string) []stepObs {
	mem := cpuh.NewMem(c.seed)
	for a, v := range c.ovl {
		mem.Ovl[a] = v
	}
	var step func() (int, bool, string)
	var get func() cpuh.Regs
	if variant == "p" {
		p := cpuh.NewPrimary(mem)
		p.Set(c.regs)
		step, get = p.Step, p.Get
	} else {
		p := cpuh.NewAlt(mem)
		p.Set(c.regs)
		step, get = p.Step, p.Get
	}
	var obs []stepObs
	for i := 0; i < c.steps; i++ {
		cy, st, pn := step()
		if pn != "" {
			obs = append(obs, stepObs{state: "crash", panic: pn, maxA: mem.MaxA})
			break
		}
		obs = append(obs, stepObs{state: get().Canon() + "|" + mem.WritesCanon(), cycles: cy, stop: st, maxA: mem.MaxA})
	}
	return obs
}

var bnd16 = []uint16{0x0000, 0x0001, 0x00FF, 0x0100, 0x7FFF, 0x8000, 0xFFFE, 0xFFFF, 0x01FF, 0x1234}
var bnd8 = []uint8{0x00, 0x01, 0x7F, 0x80, 0xFF, 0xFE, 0x10}

func pick16(r *prng.R) uint16 {
	if r.Chance(45) {
		return bnd16[r.N(len(bnd16))]
	}
	return r.U16()
}
func pick8(r *prng.R) uint8 {
	if r.Chance(45) {
		return bnd8[r.N(len(bnd8))]
	}
	return r.U8()
}

func b01(r *prng.R) byte { return byte(r.N(2)) }

// genCPUCase: one opcode (directed) or a short program (random), with boundary-biased registers and operands.
func genCPUCase(r *prng.R, opcode int, native bool) cpuCase {
	c := cpuCase{seed: r.U64() & 0xFFFF, ovl: map[uint32]byte{}, steps: 1}
	g := &c.regs
	g.PC = pick16(r)
	if r.Chance(25) {
		g.PC = 0xFFFC + uint16(r.N(4)) // operand fetch wraps in the program bank
	}
	g.RK = pick8(r)
	g.RDBR = []uint8{0x00, 0x7E, 0xFF, pick8(r)}[r.N(4)]
	g.RD = pick16(r)
	if r.Chance(50) {
		g.RD &= 0xFF00 // DL = 0
	}
	g.SP = []uint16{0x01FF, 0x0000, 0xFFFF, 0x0100, pick16(r)}[r.N(5)]
	g.RA, g.RX, g.RY = pick16(r), pick16(r), pick16(r)
	g.RAh, g.RAl, g.RXl, g.RYl = pick8(r), pick8(r), pick8(r), pick8(r)
	g.N, g.V, g.D, g.I, g.Z, g.C = b01(r), b01(r), 0, b01(r), b01(r), b01(r)
	if r.Chance(20) {
		g.D = 1
	}
	g.M, g.X = b01(r), b01(r)
	g.B = b01(r)
	if !native && r.Chance(60) {
		g.E = 1
		g.M, g.X = 1, 1
		g.SP = 0x0100 | g.SP&0xFF
		if r.Chance(30) {
			g.SP = 0x1000 | g.SP&0xFF // the value the Go code itself produces after a push in emulation mode
		}
	}
	// keep the live / shadow copies coherent half of the time, junk otherwise (both must be handled)
	if r.Chance(50) {
		if g.M == 1 {
			g.RA = uint16(g.RAh)<<8 | uint16(g.RAl)
		} else {
			g.RAl, g.RAh = byte(g.RA), byte(g.RA>>8)
		}
		if g.X == 1 {
			g.RX, g.RY = uint16(g.RXl), uint16(g.RYl)
		} else {
			g.RXl, g.RYl = byte(g.RX), byte(g.RY)
		}
	}
	g.Cycles = r.U8()
	g.AllCycles = r.U64() >> uint(r.N(64))
	g.WDM = r.U8()
	if r.Chance(3) {
		g.Stopped = true
	}
	pcAddr := func(k uint16) uint32 { return uint32(g.RK)<<16 | uint32(g.PC+k) }
	if opcode >= 0 {
		c.ovl[pcAddr(0)] = byte(opcode)
		c.tag = fmt.Sprintf("op %02x", opcode)
		for k := uint16(1); k <= 3; k++ {
			if r.Chance(60) {
				c.ovl[pcAddr(k)] = pick8(r)
			}
		}
		// direct-page / stack pointers with boundary contents
		if r.Chance(40) {
			dp := g.RD + uint16(c.byteAt(pcAddr(1)))
			for k := uint16(0); k < 3; k++ {
				c.ovl[uint32(dp+k)] = []uint8{0xFF, 0x00, 0xFE, pick8(r)}[r.N(4)]
			}
		}
		if r.Chance(15) {
			c.steps = 2 + r.N(3)
		}
	} else {
		c.steps = 2 + r.N(14)
		c.tag = "program"
	}
	return c
}

// genExactEA: steer the effective address of an EA-group opcode exactly onto a boundary (the last byte of the address
// space, the last byte of a bank, one past the top), so that the second byte of 16-bit data sits on the wrap
func genExactEA(r *prng.R, opcode int) (cpuCase, bool) {
	lo, hi := opcode&0x0F, opcode>>4
	mode := ""
	switch {
	case lo == 0xD && hi%2 == 1, lo == 0xE && hi%2 == 1 && opcode != 0xBE, opcode == 0xBC, opcode == 0x3C:
		mode = "abs,X"
	case lo == 0x9 && hi%2 == 1, opcode == 0xBE:
		mode = "abs,Y"
	case lo == 0xF && hi%2 == 0:
		mode = "long"
	case lo == 0xF && hi%2 == 1:
		mode = "long,X"
	case lo == 0x7 && hi%2 == 0:
		mode = "[dp]"
	case lo == 0x7 && hi%2 == 1:
		mode = "[dp],Y"
	case lo == 0x1 && hi%2 == 1:
		mode = "(dp),Y"
	case lo == 0x3 && hi%2 == 1:
		mode = "(sr,S),Y"
	case lo == 0xD && hi%2 == 0, lo == 0xE && hi%2 == 0, lo == 0xC && (hi == 0 || hi == 1 || hi == 2 || hi == 8 || hi == 9 || hi == 0xA || hi == 0xC || hi == 0xE):
		mode = "abs" // DBR:abs, data (JMP/JSR excluded below by their opcodes)
		if opcode == 0x4C || opcode == 0x6C || opcode == 0x7C || opcode == 0xDC || opcode == 0xFC || opcode == 0x20 {
			return cpuCase{}, false
		}
	case lo == 0x2 && hi%2 == 1:
		mode = "(dp)"
	case lo == 0x1 && hi%2 == 0:
		mode = "(dp,X)"
	default:
		return cpuCase{}, false
	}
	c := genCPUCase(r.Fork(), opcode, true)
	c.steps = 1
	g := &c.regs
	g.E, g.D = 0, 0
	g.PC = 0x8000 + uint16(r.N(0x100))
	g.RK = []uint8{0x00, 0x80, 0x7E}[r.N(3)]
	// clear operand bytes chosen by genCPUCase
	pc := func(k uint16) uint32 { return uint32(g.RK)<<16 | uint32(g.PC+k) }
	c.ovl = map[uint32]byte{pc(0): byte(opcode)}
	target := []uint32{0xFFFFFF, 0xFFFFFE, 0x1000000, 0x1000001, 0x00FFFF, 0x7EFFFF, 0xFEFFFF, 0x010000}[r.N(8)]
	idxW := r.N(2) == 0 // 16-bit index
	var idx uint32
	if idxW {
		g.X = 0
		idx = []uint32{0, 1, 0x0F, 0xFF, 0x100, 0xFFFF, 0x8000}[r.N(7)]
	} else {
		g.X = 1
		idx = []uint32{0, 1, 0x0F, 0xFF}[r.N(4)]
	}
	setIdx := func(isX bool) {
		if isX {
			g.RX, g.RXl = uint16(idx), uint8(idx)
		} else {
			g.RY, g.RYl = uint16(idx), uint8(idx)
		}
	}
	base := target - idx // 24-bit base the mode must produce before indexing (may exceed 2^24 - 1 only via target)
	if target < idx {
		return cpuCase{}, false
	}
	if base > 0xFFFFFF {
		return cpuCase{}, false
	}
	put16 := func(a uint32, v uint16) { c.ovl[a] = byte(v); c.ovl[a&0xFF0000|uint32(uint16(a)+1)] = byte(v >> 8) }
	switch mode {
	case "abs":
		base = target & 0xFFFFFF
		g.RDBR = uint8(base >> 16)
		c.ovl[pc(1)], c.ovl[pc(2)] = byte(base), byte(base>>8)
	case "(dp)", "(dp,X)":
		base = target & 0xFFFFFF
		g.RD = 0x0200
		g.RDBR = uint8(base >> 16)
		c.ovl[pc(1)] = 0x10
		if mode == "(dp,X)" {
			g.X = 1
			g.RX, g.RXl = 4, 4
			put16(0x000214, uint16(base))
		} else {
			put16(0x000210, uint16(base))
		}
	case "abs,X", "abs,Y":
		setIdx(mode == "abs,X")
		g.RDBR = uint8(base >> 16)
		c.ovl[pc(1)], c.ovl[pc(2)] = byte(base), byte(base>>8)
	case "long":
		if idx != 0 {
			base = target & 0xFFFFFF
		}
		c.ovl[pc(1)], c.ovl[pc(2)], c.ovl[pc(3)] = byte(base), byte(base>>8), byte(base>>16)
	case "long,X":
		setIdx(true)
		c.ovl[pc(1)], c.ovl[pc(2)], c.ovl[pc(3)] = byte(base), byte(base>>8), byte(base>>16)
	case "[dp]", "[dp],Y":
		if mode == "[dp]" {
			base = target & 0xFFFFFF
		} else {
			setIdx(false)
		}
		g.RD = 0x0200
		c.ovl[pc(1)] = 0x10
		put16(0x000210, uint16(base))
		c.ovl[0x000212] = byte(base >> 16)
	case "(dp),Y":
		setIdx(false)
		g.RD = 0x0200
		g.RDBR = uint8(base >> 16)
		c.ovl[pc(1)] = 0x10
		put16(0x000210, uint16(base))
	case "(sr,S),Y":
		setIdx(false)
		g.SP = 0x01F0
		g.RDBR = uint8(base >> 16)
		c.ovl[pc(1)] = 0x04
		put16(0x0001F4, uint16(base))
	}
	g.M = uint8(r.N(4) / 3) // mostly 16-bit accumulator: the second data byte is the interesting one
	if g.M == 1 {
		g.RA = uint16(g.RAh)<<8 | uint16(g.RAl)
	}
	c.tag = fmt.Sprintf("exactEA %02x %s", opcode, mode)
	return c, true
}


// genDataDirected: a second-pass case. The first pass runs the real primary interpreter on `c` with a read-logging memory to learn
// which addresses the instruction reads beyond its own bytes (pointers, data, pulled stack bytes); the derived case presets
// those addresses with boundary values chosen relative to the registers (0, 1, $7F, $80, $FF, $7FFF, $8000, $FFFF, equal to the
// accumulator / index, the complements that make an ADC/SBC land exactly on the carry and overflow boundaries, BCD digits).
func genDataDirected(r *prng.R, c cpuCase) (cpuCase, bool) {
	mem := cpuh.NewMem(c.seed)
	for a, v := range c.ovl {
		mem.Ovl[a] = v
	}
	mem.LogReads = true
	p := cpuh.NewPrimary(mem)
	p.Set(c.regs)
	if _, _, pn := p.Step(); pn != "" {
		return c, false
	}
	g := c.regs
	isCode := func(a uint32) bool {
		for k := uint16(0); k < 4; k++ {
			if a == uint32(g.RK)<<16|uint32(g.PC+k) {
				return true
			}
		}
		return false
	}
	var data []uint32
	for _, a := range mem.ReadLog {
		if !isCode(a) {
			data = append(data, a)
		}
	}
	if len(data) == 0 {
		return c, false
	}
	d := cpuCase{regs: c.regs, seed: c.seed, ovl: map[uint32]byte{}, steps: 1, tag: "data " + c.tag}
	for a, v := range c.ovl {
		d.ovl[a] = v
	}
	acc := g.RA
	if g.M == 1 {
		acc = uint16(g.RAh)<<8 | uint16(g.RAl)
	}
	x, y := g.RX, g.RY
	if g.X == 1 {
		x, y = uint16(g.RXl), uint16(g.RYl)
	}
	cin := uint16(g.C)
	vals := []uint16{0, 1, 0x7F, 0x80, 0xFF, 0x100, 0x7FFF, 0x8000, 0xFFFF, 0xFFFE, acc, ^acc, acc + 1, acc - 1, x, y, x + 1, y - 1,
		0x7F - acc, 0x80 - acc, 0xFF - acc, 0x100 - acc, 0x7FFF - acc, 0x8000 - acc, 0xFFFF - acc, 0 - acc,
		0x7F - acc - cin, 0x80 - acc - cin, 0xFF - acc - cin, 0x100 - acc - cin, 0x8000 - acc - cin, 0 - acc - cin,
		acc - 0x80, acc - 0x7F, acc - 0x8000, acc + cin - 1, acc&0xFF | acc<<8,
		0x09, 0x0A, 0x99, 0x9A, 0x0999, 0x9999, 0x0F, 0xF0, 0x10, 0x30, 0x20, 0xCF, 0xEF}
	v := vals[r.N(len(vals))]
	if r.Chance(25) {
		v = v&0xFF | uint16(pick8(r))<<8
	}
	set := data
	if r.Chance(70) { // only the last one or two reads: the data operand (pointer bytes come first)
		k := 2
		if len(set) < 2 || r.Chance(30) {
			k = 1
		}
		set = set[len(set)-k:]
	}
	for i, a := range set {
		switch {
		case len(set) == 1:
			d.ovl[a] = byte(v)
		case i == len(set)-2:
			d.ovl[a] = byte(v)
		case i == len(set)-1:
			d.ovl[a] = byte(v >> 8)
		default:
			d.ovl[a] = []uint8{0x00, 0xFF, 0xFE, 0x01, pick8(r)}[r.N(5)]
		}
	}
	return d, true
}

func (c *cpuCase) byteAt(a uint32) byte {
	if v, ok := c.ovl[a]; ok {
		return v
	}
	return prng.Hash(c.seed, a)
}


// cpuCaseSet: the shared case list of vh cpu and vh cpu-spec. nativeOnly keeps E=0 in the start states.
func cpuCaseSet(r *prng.R, nativeOnly bool) []cpuCase {
	perOp, perData, nProg, perEA := 300, 400, 16000, 16
	if tier == "thorough" {
		perOp, perData, nProg, perEA = 4000, 4000, 200000, 300
	}
	nat := func(k, m int) bool { return nativeOnly || k%m != 0 }
	// steering (VH_CPU_FOCUS, set by `check` from the routine fingerprints): opcodes whose routine's source differs from the
	// version the model was validated against get a multiple of the budget; "all" = a shared helper changed
	mult := focusMultipliers()
	var cases []cpuCase
	for op := 0; op < 256; op++ {
		for k := 0; k < perOp*mult[op]; k++ {
			cases = append(cases, genCPUCase(r.Fork(), op, nat(k, 4)))
		}
	}
	for op := 0; op < 256; op++ {
		for k := 0; k < perData*mult[op]; k++ {
			base := genCPUCase(r.Fork(), op, nat(k, 4))
			base.steps = 1
			if c, ok := genDataDirected(r.Fork(), base); ok {
				cases = append(cases, c)
			}
		}
	}
	for k := 0; k < nProg; k++ {
		cases = append(cases, genCPUCase(r.Fork(), -1, nat(k, 3)))
	}
	for op := 0; op < 256; op++ {
		for k := 0; k < perEA*mult[op]; k++ {
			if c, ok := genExactEA(r.Fork(), op); ok {
				cases = append(cases, c)
			}
		}
	}
	return cases
}

// focusMultipliers reads VH_CPU_FOCUS ("all" and/or op_* routine names) and the regenerated opcode -> routine tables
func focusMultipliers() [256]int {
	var m [256]int
	for i := range m {
		m[i] = 1
	}
	f := os.Getenv("VH_CPU_FOCUS")
	if f == "" {
		return m
	}
	want := map[string]bool{}
	for _, x := range strings.Split(f, ",") {
		if x != "" {
			want[x] = true
		}
	}
	if want["all"] {
		for i := range m {
			m[i] = 3
		}
	}
	var fp struct {
		P []string `json:"primary_optable"`
		A []string `json:"alt_optable"`
	}
	path := os.Getenv("VH_CPU_FPRINTS")
	if path == "" {
		path = filepath.Join(filepath.Dir(filepath.Dir(filepath.Dir(filepath.Dir(modelDrv)))), "SnesVerif", "Gen", "CpuFingerprints.json")
	}
	if b, err := os.ReadFile(path); err == nil {
		json.Unmarshal(b, &fp)
	}
	for op := 0; op < 256; op++ {
		if (op < len(fp.P) && want[fp.P[op]]) || (op < len(fp.A) && want[fp.A[op]]) {
			m[op] = 15
		}
	}
	return m
}

func runCPU() {
	rep := report.New("cpu", tier, seed)
	r := prng.New(seed)
	cases := cpuCaseSet(r, false)
	d, err := drv.Start(modelDrv)
	var replies []string
	if err == nil {
		defer d.Close()
		reqs := make([]string, len(cases))
		for i, c := range cases {
			reqs[i] = c.line("p")
		}
		replies, err = d.Batch(reqs)
	}
	modelProps := []string{"C01", "C02", "C08", "C12"}
	if err != nil {
		for _, p := range modelProps {
			rep.Add(report.Finding{Property: p, Kind: "disagreement", Clause: "model driver unavailable", Detail: err.Error()})
		}
	}
	distinct := map[string]bool{}
	var steps int64
	for i, c := range cases {
		po := runGo(c, "p")
		ao := runGo(c, "a")
		steps += int64(len(po))
		wflag := fmt.Sprintf("M%dX%dE%dD%d", c.regs.M, c.regs.X, c.regs.E, c.regs.D)
		distinct[c.tag+wflag] = true
		rep.Count("cases " + wflag)
		if i%9973 == 0 {
			rep.Sample(map[string]string{"case": c.line("p"), "go": obsString(po)})
		}
		// C02: lockstep equality of the two interpreters after every step
		for k := 0; k < len(po) && k < len(ao); k++ {
			if po[k].state != ao[k].state || po[k].cycles != ao[k].cycles || po[k].stop != ao[k].stop {
				rep.Add(report.Finding{Property: "C02", Kind: "violation", Clause: fmt.Sprintf("the two interpreters differ after step %d", k+1),
					Input: c.line("p"), Expected: fmt.Sprintf("primary: %s cycles=%d stop=%v", po[k].state, po[k].cycles, po[k].stop),
					Actual: fmt.Sprintf("alt:     %s cycles=%d stop=%v", ao[k].state, ao[k].cycles, ao[k].stop)})
				break
			}
		}
		for vi, ob := range [][]stepObs{po, ao} {
			vname := []string{"primary", "alt"}[vi]
			prevAll := c.regs.AllCycles
			stopped := c.regs.Stopped
			for k, o := range ob {
				// C08: no crash, every address below 2^24
				if o.state == "crash" {
					rep.Add(report.Finding{Property: "C08", Kind: "violation", Clause: vname + ": Step panics with the whole bus mapped: " + o.panic, Input: c.line(vname[:1])})
					break
				}
				if o.maxA >= 1<<24 {
					rep.Add(report.Finding{Property: "C08", Kind: "violation", Clause: fmt.Sprintf("%s: bus access at %x is outside the 24-bit address space", vname, o.maxA), Input: c.line(vname[:1])})
				}
				// C12: cycle accounting and the stop latch
				f := strings.Fields(strings.SplitN(o.state, "|", 2)[0])
				var cyc, all uint64
				fmt.Sscanf(f[15], "%x", &cyc)
				fmt.Sscanf(f[16], "%x", &all)
				st := f[17] == "1"
				opc := c.byteAt(uint32(c.regs.RK)<<16 | uint32(c.regs.PC))
				switch {
				case o.cycles < 1:
					rep.Add(report.Finding{Property: "C12", Kind: "violation", Clause: fmt.Sprintf("%s: Step %d reports %d cycles", vname, k+1, o.cycles), Input: c.line(vname[:1])})
				case uint64(o.cycles) != cyc || all != prevAll+cyc:
					rep.Add(report.Finding{Property: "C12", Kind: "violation", Clause: fmt.Sprintf("%s: Step %d: reported %d cycles, Cycles=%d, AllCycles %d -> %d", vname, k+1, o.cycles, cyc, prevAll, all), Input: c.line(vname[:1])})
				case o.stop != st:
					rep.Add(report.Finding{Property: "C12", Kind: "violation", Clause: vname + ": Step's stop result differs from CPU.Stopped", Input: c.line(vname[:1])})
				case stopped && !st:
					rep.Add(report.Finding{Property: "C12", Kind: "violation", Clause: vname + ": the stop condition was cleared without a reset", Input: c.line(vname[:1])})
				case k == 0 && st && !stopped && opc != 0xDB:
					rep.Add(report.Finding{Property: "C12", Kind: "violation", Clause: fmt.Sprintf("%s: stop reported after opcode %02x which is not STP", vname, opc), Input: c.line(vname[:1])})
				case k == 0 && opc == 0xDB && !st:
					rep.Add(report.Finding{Property: "C12", Kind: "violation", Clause: vname + ": STP executed but the stop condition is not reported", Input: c.line(vname[:1])})
				}
				prevAll, stopped = all, st
			}
		}
		// model correspondence (primary projection; alt is compared with primary above)
		if replies != nil && i < len(replies) {
			if got := obsString(po); replies[i] != got {
				k := firstDiff(strings.Split(replies[i], ";"), strings.Split(got, ";"))
				for _, p := range modelProps {
					rep.Add(report.Finding{Property: p, Kind: "disagreement", Clause: fmt.Sprintf("Lean Cpu.Impl vs the primary interpreter (first difference at step %d, %s)", k+1, c.tag),
						Input: c.line("p"), Expected: nth(strings.Split(replies[i], ";"), k) + " (model)", Actual: nth(strings.Split(got, ";"), k) + " (go)"})
				}
			}
		}
	}
	// pending interrupts (NMI / IRQ latched before the Step): model Cpu.stepFull, plus Go-side oracles: no crash, lockstep of the
	// two packages, and the cycle bookkeeping of C12 on the Step that services the interrupt
	nInt := 3000
	if tier == "thorough" {
		nInt = 60000
	}
	ri := prng.New(seed ^ 0x1a7)
	type intCase struct {
		c     cpuCase
		latch int
	}
	var icases []intCase
	for k := 0; k < nInt; k++ {
		c := genCPUCase(ri.Fork(), -1, k%3 != 0)
		c.steps = 2
		// interruptNMI, interruptIRQ, and (rarely) the idle / zero / out-of-range latch values that must fall through
		latch := []int{2, 3, 2, 3, 2, 3, 2, 3, 0, 1, 4, 0xFF}[k%12]
		c.regs.Stopped = k%3 == 0 // an interrupt does not restart a processor halted by STP (only Reset does)
		if k%5 == 0 {
			// stack at the boundaries: the pushes of the entry sequence wrap
			c.regs.SP = []uint16{0x0000, 0x0001, 0x0002, 0x0100, 0x01FF, 0xFFFF}[ri.N(6)]
		}
		icases = append(icases, intCase{c, latch})
	}
	var ireplies []string
	if d != nil && err == nil {
		reqs := make([]string, len(icases))
		for i, ic := range icases {
			reqs[i] = fmt.Sprintf("cpui p %x %x %s %x %s", ic.latch, ic.c.steps, ic.c.regs.Canon(), ic.c.seed, ovlString(ic.c.ovl))
		}
		var e2 error
		ireplies, e2 = d.Batch(reqs)
		if e2 != nil {
			ireplies = nil
			for _, p := range modelProps {
				rep.Add(report.Finding{Property: p, Kind: "disagreement", Clause: "model driver failed on the interrupt cases", Detail: e2.Error()})
			}
		}
	}
	for k, ic := range icases {
		c, kind := ic.c, ic.latch
		type res struct {
			state  string
			cyc    int
			stop   bool
			pn     string
			all0   uint64
			all1   uint64
			cycReg uint8
			latch  byte
		}
		runI := func(variant string) (out []res) {
			mem := cpuh.NewMem(c.seed)
			for a, v := range c.ovl {
				mem.Ovl[a] = v
			}
			var step func() (int, bool, string)
			var get func() cpuh.Regs
			var latch func() byte
			if variant == "p" {
				p := cpuh.NewPrimary(mem)
				p.Set(c.regs)
				p.CPU.Interrupt = byte(kind)
				step, get = p.Step, p.Get
				latch = func() byte { return p.CPU.Interrupt }
			} else {
				p := cpuh.NewAlt(mem)
				p.Set(c.regs)
				p.CPU.Interrupt = byte(kind)
				step, get = p.Step, p.Get
				latch = func() byte { return p.CPU.Interrupt }
			}
			for i := 0; i < c.steps; i++ {
				before := get().AllCycles
				cy, st, pn := step()
				g := get()
				out = append(out, res{g.Canon() + "|" + mem.WritesCanon(), cy, st, pn, before, g.AllCycles, g.Cycles, latch()})
				if pn != "" {
					break
				}
			}
			return
		}
		po, ao := runI("p"), runI("a")
		in := fmt.Sprintf("cpui p %x %x %s %x %s", kind, c.steps, c.regs.Canon(), c.seed, ovlString(c.ovl))
		for vi, ob := range [][]res{po, ao} {
			vname := []string{"primary", "alt"}[vi]
			for i, o := range ob {
				if o.pn != "" {
					rep.Add(report.Finding{Property: "C08", Kind: "violation", Clause: vname + ": Step servicing an interrupt panics: " + o.pn, Input: in})
					break
				}
				if o.cyc < 1 || uint64(o.cyc) != uint64(o.cycReg) || o.all1 != o.all0+uint64(o.cyc) {
					rep.Add(report.Finding{Property: "C12", Kind: "violation", Clause: fmt.Sprintf("%s: Step %d with a pending interrupt: reported %d cycles, Cycles=%d, AllCycles %d -> %d", vname, i+1, o.cyc, o.cycReg, o.all0, o.all1), Input: in})
				}
				if c.regs.Stopped && !o.stop {
					rep.Add(report.Finding{Property: "C12", Kind: "violation", Clause: fmt.Sprintf("%s: Step %d with a pending interrupt cleared the stop condition without a reset", vname, i+1), Input: in})
				}
				if o.latch != 1 {
					for _, p := range modelProps {
						rep.Add(report.Finding{Property: p, Kind: "disagreement", Clause: fmt.Sprintf("%s: the interrupt latch is %d after Step (the model takes it to be interruptNone)", vname, o.latch), Input: in})
					}
				}
			}
		}
		for i := 0; i < len(po) && i < len(ao); i++ {
			if po[i].state != ao[i].state || po[i].cyc != ao[i].cyc || po[i].stop != ao[i].stop {
				rep.Add(report.Finding{Property: "C02", Kind: "violation", Clause: fmt.Sprintf("the two interpreters differ after step %d with a pending interrupt", i+1), Input: in,
					Expected: "primary: " + po[i].state, Actual: "alt:     " + ao[i].state})
				break
			}
		}
		if ireplies != nil && k < len(ireplies) {
			ss := make([]string, len(po))
			for i, o := range po {
				ss[i] = o.state
				if o.pn != "" {
					ss[i] = "crash"
				}
			}
			if got := strings.Join(ss, ";"); ireplies[k] != got {
				j := firstDiff(strings.Split(ireplies[k], ";"), ss)
				for _, p := range modelProps {
					rep.Add(report.Finding{Property: p, Kind: "disagreement", Clause: fmt.Sprintf("Lean Cpu.stepFull vs the primary interpreter with interrupt latch %d (first difference at step %d)", kind, j+1),
						Input: in, Expected: nth(strings.Split(ireplies[k], ";"), j) + " (model)", Actual: nth(ss, j) + " (go)"})
				}
			}
		}
		steps += int64(len(po))
		rep.Count(fmt.Sprintf("interrupt cases latch=%d", kind))
	}
	// Reset(): both packages against the model (vector fetch at $00FFFC with the cross-bank helper, SetFlags($34) incl. the
	// register-width switch, stop latch cleared)
	nReset := 1500
	if tier == "thorough" {
		nReset = 30000
	}
	rr := prng.New(seed ^ 0x2e5e7)
	var rcases []cpuCase
	for k := 0; k < nReset; k++ {
		c := genCPUCase(rr.Fork(), -1, k%3 != 0)
		c.regs.Stopped = k%2 == 0
		if k%3 == 0 {
			c.ovl[0x00FFFC], c.ovl[0x00FFFD] = pick8(rr), pick8(rr)
		}
		rcases = append(rcases, c)
	}
	var rreplies []string
	if d != nil && err == nil {
		reqs := make([]string, len(rcases))
		for i, c := range rcases {
			reqs[i] = fmt.Sprintf("cpureset %s %x %s", c.regs.Canon(), c.seed, ovlString(c.ovl))
		}
		rreplies, _ = d.Batch(reqs)
	}
	for k, c := range rcases {
		var outs [2]string
		for vi, variant := range []string{"p", "a"} {
			mem := cpuh.NewMem(c.seed)
			for a, v := range c.ovl {
				mem.Ovl[a] = v
			}
			func() {
				defer func() {
					if r := recover(); r != nil {
						outs[vi] = "crash"
					}
				}()
				if variant == "p" {
					p := cpuh.NewPrimary(mem)
					p.Set(c.regs)
					p.CPU.Reset()
					outs[vi] = p.Get().Canon() + "|" + mem.WritesCanon()
					if p.CPU.Stopped {
						rep.Add(report.Finding{Property: "C12", Kind: "violation", Clause: "primary: Reset does not clear the stop condition", Input: c.line("p")})
					}
				} else {
					p := cpuh.NewAlt(mem)
					p.Set(c.regs)
					p.CPU.Reset()
					outs[vi] = p.Get().Canon() + "|" + mem.WritesCanon()
					if p.CPU.Stopped {
						rep.Add(report.Finding{Property: "C12", Kind: "violation", Clause: "alt: Reset does not clear the stop condition", Input: c.line("a")})
					}
				}
			}()
			if outs[vi] == "crash" {
				rep.Add(report.Finding{Property: "C08", Kind: "violation", Clause: variant + ": Reset panics with the whole bus mapped", Input: c.line(variant)})
			}
		}
		if outs[0] != outs[1] {
			rep.Add(report.Finding{Property: "C02", Kind: "violation", Clause: "the two interpreters differ after Reset", Input: c.line("p"), Expected: "primary: " + outs[0], Actual: "alt:     " + outs[1]})
		}
		if rreplies != nil && k < len(rreplies) && rreplies[k] != outs[0] {
			for _, p := range []string{"C02", "C08", "C12"} {
				rep.Add(report.Finding{Property: p, Kind: "disagreement", Clause: "Lean Cpu.reset vs the primary interpreter's Reset", Input: "cpureset " + c.regs.Canon(), Expected: rreplies[k] + " (model)", Actual: outs[0] + " (go)"})
			}
		}
		steps++
		rep.Count("reset cases")
	}
	var dd *drv.Drv
	if err == nil {
		dd = d
	}
	steps += runScenarios(rep, dd, modelProps)
	rep.Evaluations = steps
	rep.Distinct = int64(len(distinct))
	rep.CountN("cases", int64(len(cases)))
	rep.Rule = "directed: every opcode x boundary-biased registers (PC near $FFFF, DBR $00/$7E/$FF, D page aligned or not, S $01FF/$0000/$FFFF, index and accumulator values 0,1,$7F,$80,$FF,$7FFF,$8000,$FFFF, " +
		"junk or coherent shadow copies), M/X/E/D combinations, boundary operand and pointer bytes; random: programs of 2..15 steps over a seeded 16 MiB image; both real interpreters run every case in lockstep " +
		"(whole bus mapped) and are compared with each other, with the compiled Lean model, and with oracles for crashes / address range / cycle accounting / stop latch. " +
		"data-directed second pass: the addresses an instruction reads beyond its own bytes are learnt from a first run and preset with boundary values relative to the registers (equal / off-by-one / complements landing exactly on carry and overflow boundaries / BCD digits); " +
		"additionally: per EA-group opcode, states steering the effective address exactly onto $FFFFFF / $FFFFFE / one past the top / bank ends (16-bit data straddling the wrap); and cases with the interrupt latch set to NMI / IRQ / idle / junk values before the Step (model Cpu.stepFull, lockstep, no crash, cycle bookkeeping of the servicing Step, stack at the wrap boundaries), and Reset() from random states (model Cpu.reset, lockstep, stop latch cleared). " +
		"multi-step scenarios: 4..31 steps over a weighted opcode soup (block moves, width switches, XCE, stack traffic, BRK/COP/RTI, WAI/STP, calls/returns frequent) with the NMI latch, TriggerIRQ() or Reset() applied between steps, both packages in lockstep and against the model; evaluations = instructions executed per interpreter; distinct_nontrivial = distinct (opcode or program, M, X, E, D) classes"
	rep.Emit()
}

func obsString(o []stepObs) string {
	ss := make([]string, len(o))
	for i, x := range o {
		ss[i] = x.state
	}
	return strings.Join(ss, ";")
}

func firstDiff(a, b []string) int {
	for i := 0; i < len(a) && i < len(b); i++ {
		if a[i] != b[i] {
			return i
		}
	}
	if len(a) < len(b) {
		return len(a)
	}
	return len(b)
}

func nth(a []string, k int) string {
	if k < len(a) {
		return a[k]
	}
	return "<missing>"
}
