// vh is the correspondence and search engine of the verification harness.
// Every sub-command drives the real code of /repo in-process, compares it with the Lean model driver and with
// Go-coded oracles of the properties themselves, and prints one JSON report on stdout.
package main

import (
	"flag"
	"fmt"
	"os"
	"runtime/debug"
	"strconv"
	"strings"

	"verifharness/internal/report"
)

// which properties a component serves (used only to address the report of a crash of the component itself)
var componentProps = map[string][]string{
	"map": {"C04", "C05"}, "mapspec": {"C05"}, "color": {"C17"}, "bus": {"C13"}, "rom": {"C10"}, "header": {"C09"}, "sysmap": {"C11"},
	"asm": {"C03", "C06", "C07", "C15", "C16", "C19"}, "asm-enc": {"C03", "C07"}, "asm-cpu": {"C07"},
	"cpu": {"C01", "C02", "C08", "C12"}, "cpu-spec": {"C01"}, "run": {"C12", "C14"}, "trace": {"C14"}, "conc": {"C18"},
}

// crashReport: an unrecovered panic inside a component. When the panicking frame is library code of /repo (a call that
// completes on the reference tree now fails), it is reported as a violation with the stack as the replay; a panic in the
// harness's own code (e.g. it could not parse what the library printed) is a broken correspondence.
func crashReport(comp string) {
	r := recover()
	if r == nil {
		return
	}
	stack := string(debug.Stack())
	inLib := false
	for _, l := range strings.Split(stack, "\n") {
		if strings.HasPrefix(l, "github.com/alttpo/snes") {
			inLib = true
			break
		}
		if strings.HasPrefix(l, "main.") && !strings.HasPrefix(l, "main.crashReport") {
			break
		}
	}
	rep := report.New(comp, tier, seed)
	kind, clause := "disagreement", "the harness component crashed: "
	if inLib {
		kind, clause = "violation", "the library panicked inside a call that the property requires to complete (it does on the reference tree): "
	}
	if len(stack) > 2500 {
		stack = stack[:2500]
	}
	for _, p := range componentProps[comp] {
		rep.Add(report.Finding{Property: p, Kind: kind, Clause: clause + fmt.Sprint(r), Input: "vh " + strings.Join(os.Args[1:], " "), Detail: stack})
	}
	rep.Emit()
	os.Exit(0)
}

var (
	tier     = "quick"
	seed     uint64
	modelDrv = "/verif/lean/.lake/build/bin/modeldrv"
	focus    = ""
)

func main() {
	if len(os.Args) < 2 {
		fmt.Fprintln(os.Stderr, "usage: vh <component> [-tier quick|thorough] [-seed N] [-modeldrv path] [-focus what]")
		os.Exit(2)
	}
	comp := os.Args[1]
	fs := flag.NewFlagSet(comp, flag.ExitOnError)
	fs.StringVar(&tier, "tier", "quick", "quick|thorough")
	seedS := fs.String("seed", "0", "PRNG seed")
	fs.StringVar(&modelDrv, "modeldrv", modelDrv, "path of the compiled Lean model driver")
	fs.StringVar(&focus, "focus", "", "component specific focus (search mode)")
	replay := fs.String("replay", "", "replay file (component specific)")
	fs.Parse(os.Args[2:])
	s, err := strconv.ParseUint(*seedS, 10, 64)
	if err != nil {
		s = 0
	}
	seed = s
	_ = replay
	defer crashReport(comp)
	switch comp {
	case "map":
		runMap()
	case "color":
		runColor()
	default:
		if f, ok := components[comp]; ok {
			f(*replay)
			return
		}
		fmt.Fprintln(os.Stderr, "unknown component", comp)
		os.Exit(2)
	}
}

// components registered by other files
var components = map[string]func(replay string){}
