// vh is the correspondence and search engine of the verification harness.
// Every sub-command drives the real code of /repo in-process, compares it with the Lean model driver and with
// Go-coded oracles of the properties themselves, and prints one JSON report on stdout.
package main

import (
	"flag"
	"fmt"
	"os"
	"strconv"
)

var (
	tier     = "quick"
	seed     uint64
	modelDrv = "/verif/lean/.lake/build/bin/modeldrv"
	focus    = ""
)

func main() {
	if len(os.Args) < 2 {
		fmt.Fprintln(os.Stderr, "usage: vh <component> [-tier quick|thorough] [-seed N] [-modeldrv path] [-focus what]")
		os.Exit(2)
	}
	comp := os.Args[1]
	fs := flag.NewFlagSet(comp, flag.ExitOnError)
	fs.StringVar(&tier, "tier", "quick", "quick|thorough")
	seedS := fs.String("seed", "0", "PRNG seed")
	fs.StringVar(&modelDrv, "modeldrv", modelDrv, "path of the compiled Lean model driver")
	fs.StringVar(&focus, "focus", "", "component specific focus (search mode)")
	replay := fs.String("replay", "", "replay file (component specific)")
	fs.Parse(os.Args[2:])
	s, err := strconv.ParseUint(*seedS, 10, 64)
	if err != nil {
		s = 0
	}
	seed = s
	_ = replay
	switch comp {
	case "map":
		runMap()
	case "color":
		runColor()
	default:
		if f, ok := components[comp]; ok {
			f(*replay)
			return
		}
		fmt.Fprintln(os.Stderr, "unknown component", comp)
		os.Exit(2)
	}
}

// components registered by other files
var components = map[string]func(replay string){}
