package main

// Families of emitters (part of `vh asm`): several live emitters related by Clone and Append, all of them re-observed after
// every call.  The single-clone histories of asm.go stop using the clone once it is appended and never hand one fragment to
// two emitters; here the clone goes on after Append, the original goes on as well, the same clone is appended to a second
// emitter that received the same head, and dry-run (nil target) emitters are made by NewEmitter(nil) *and* by Clone(nil) at
// any point of a history.  Everything is judged by Go-coded oracles of the property texts (no model round trip):
//
//	C15  after every call, for every live emitter with listing on: the hex listing holds exactly Bytes(), text lines sit at
//	     their address (listingOracle), producing the listings does not fail
//	C16  an emitter on which no call was made does not change (the original while its clone is used; after Append the
//	     original is indistinguishable from a directly fed emitter, which nothing done to another emitter can alter);
//	     the original after Append — and while it is emitted to further — equals the directly fed twin
//	C19  emitters that received the same calls through the same Clone/Append structure, one with and one without a target
//	     buffer, accept / refuse the same calls (incl. a duplicate label) and report the same PC, labels and tracked flags
//	     after every call

import (
	"bytes"
	"fmt"
	"strconv"
	"strings"

	"github.com/alttpo/snes/asm"

	"verifharness/internal/prng"
	"verifharness/internal/report"
)

type famOp struct {
	em  int   // slot acted upon (N, K: the slot created; A: the receiver)
	src int   // K: the emitter cloned; A: the fragment appended
	op  asmOp // kinds I B L C S F as in asm.go; N (label = capacity or "nil"), K (label = capacity or "nil"), A
}

func (o famOp) String() string {
	switch o.op.kind {
	case 'K':
		return fmt.Sprintf("%d:K %d %s", o.em, o.src, o.op.label)
	case 'A':
		return fmt.Sprintf("%d:A %d", o.em, o.src)
	case 'N':
		return fmt.Sprintf("%d:N %s", o.em, o.op.label)
	}
	return strconv.Itoa(o.em) + ":" + o.op.String()
}

type famCase struct {
	text bool
	ops  []famOp
}

func (c famCase) String() string {
	t := "0"
	if c.text {
		t = "1"
	}
	ss := []string{"asmfam " + t}
	for _, o := range c.ops {
		ss = append(ss, o.String())
	}
	return strings.Join(ss, ";")
}

type famEm struct {
	e           *asm.Emitter
	hasBuf      bool
	capN        int // size of the target it was created over (0: none)
	parent      int
	appendedTo  bool     // (a clone) it has been appended to its parent
	addressable bool     // listing offsets agree with the buffer: a root, or a clone of an emitter that had emitted nothing
	tainted     bool     // listings unspecified: a refused emission (a refused data block leaves its records) or a foreign Append
	poisoned    bool     // history no longer comparable with others (capacity refusal, foreign Append, dropped bytes)
	nSetBase    int      // SetBase calls in its history
	flat        []string // calls received, directly or through Clone / Append, with the structure markers "K" and "A"
	res         []string // their outcomes
	stream      []asmOp  // the same calls without markers: what a directly fed emitter receives
	lastObs     string
	twin        *asm.Emitter // directly fed twin of an original that got its clone back (C16)
	twinBuf     bool
}

type famRun struct {
	out    []string
	oracle []string
	// how often each oracle was evaluated
	nListing, nStill, nTwin, nDry int64
}

func capOfLabel(s string) int {
	if s == "nil" {
		return -1
	}
	v, _ := strconv.ParseInt(s, 16, 32)
	return int(v)
}

// applyEmitterOp performs one I/B/L/C/S/F call; the outcome strings are those of execAsm
func applyEmitterOp(e *asm.Emitter, o asmOp) string {
	switch o.kind {
	case 'I':
		if callMethod(e, *o.m, o.args, o.label) {
			return "refused"
		}
	case 'B':
		scratch := append([]byte{}, o.data...) // the caller re-uses its slice
		p := safe(func() { e.EmitBytes(scratch) })
		for i := range scratch {
			scratch[i] ^= 0xA5
		}
		if p {
			return "refused"
		}
	case 'L':
		pc := e.PC()
		if safe(func() { e.Label(o.label) }) {
			return "refused"
		}
		return "ok " + strconv.FormatUint(uint64(pc), 16)
	case 'C':
		e.Comment(o.label)
	case 'S':
		e.SetBase(o.addr)
	case 'F':
		var err error
		if safe(func() { err = e.Finalize() }) {
			return "crash"
		}
		if err != nil {
			return "fail"
		}
	}
	return "ok"
}

func rawListings(e *asm.Emitter) string {
	var hb, tb bytes.Buffer
	var e1, e2 error
	if safe(func() { e1 = e.WriteHexTo(&hb); e2 = e.WriteTextTo(&tb) }) {
		return "panic"
	}
	if e1 != nil || e2 != nil {
		return "error"
	}
	return hb.String() + "\x01" + tb.String()
}

func isPrefix(p, s []string) bool {
	if len(p) > len(s) {
		return false
	}
	for i := range p {
		if p[i] != s[i] {
			return false
		}
	}
	return true
}

func sameStrings(a, b []string) bool { return len(a) == len(b) && isPrefix(a, b) }

func execFam(c famCase) famRun {
	targetsIntact()
	var run famRun
	complain := func(prop, msg string) {
		// observations carry the raw listings behind control characters
		msg = strings.NewReplacer("\x02", " | hex listing: ", "\x01", " | text listing: ", "\n", "\\n").Replace(msg)
		run.oracle = append(run.oracle, prop+": "+msg)
	}
	var names []string
	seen := map[string]bool{}
	for _, o := range c.ops {
		if o.op.kind == 'L' && !seen[o.op.label] {
			seen[o.op.label] = true
			names = append(names, o.op.label)
		}
	}
	ems := map[int]*famEm{}
	var order []int
	parsed := map[string][2]string{}
	observe := func(m *famEm) string {
		s := snapshot(m.e, names)
		if c.text && m.hasBuf && m.addressable {
			s += "\x02" + rawListings(m.e)
		}
		return s
	}
	// C15 on one observation
	checkListing := func(id int, m *famEm, obs string, when string) {
		if !c.text || !m.hasBuf || !m.addressable || m.tainted {
			return
		}
		k := strings.Index(obs, "\x02")
		if k < 0 {
			return
		}
		raw := obs[k+1:]
		var hr, tr string
		switch raw {
		case "panic", "error":
			hr, tr = raw, raw
		default:
			p, ok := parsed[raw]
			if !ok {
				ht := strings.SplitN(raw, "\x01", 2)
				p = [2]string{parseHexListing(ht[0]), parseTextListing(ht[1])}
				parsed[raw] = p
			}
			hr, tr = p[0], p[1]
		}
		f := strings.Fields(obs[:k])
		if len(f) < 7 {
			return
		}
		base, _ := strconv.ParseUint(strings.TrimPrefix(f[5], "base="), 16, 32)
		run.nListing++
		if msg := listingOracle(hr, tr, strings.TrimPrefix(f[6], "b="), uint32(base), m.nSetBase); msg != "" {
			complain("C15", fmt.Sprintf("emitter %d after %s: %s", id, when, msg))
		}
	}
	track := func(f []string) string { // PC, tracked flags, labels
		if len(f) < 8 {
			return strings.Join(f, " ")
		}
		return f[1] + " " + f[2] + " " + f[3] + " " + f[4] + " " + f[7]
	}
	for _, o := range c.ops {
		o := o
		func() {
			res := "skip"
			defer func() {
				if r := recover(); r != nil {
					for _, pr := range []string{"C15", "C16", "C19"} {
						complain(pr, fmt.Sprintf("the emitter panicked outside a refusable call, at %s: %v", o, r))
					}
					res = "panic"
				}
				run.out = append(run.out, res)
			}()
			acted := -1 // the emitter whose observation may change
			switch o.op.kind {
			case 'N':
				if ems[o.em] != nil {
					return
				}
				capN := capOfLabel(o.op.label)
				ems[o.em] = &famEm{e: asm.NewEmitter(mkTarget(capN), c.text), hasBuf: capN >= 0, capN: max(capN, 0), parent: -1, addressable: true}
				order = append(order, o.em)
				acted, res = o.em, "ok"
			case 'K':
				p := ems[o.src]
				if ems[o.em] != nil || p == nil {
					return
				}
				capN := capOfLabel(o.op.label)
				m := &famEm{e: p.e.Clone(mkTarget(capN)), hasBuf: capN >= 0, capN: max(capN, 0), parent: o.src, addressable: p.addressable && p.e.PC() == p.e.GetBase(),
					poisoned: p.poisoned, nSetBase: p.nSetBase}
				m.flat = append(append([]string{}, p.flat...), "K")
				m.res = append(append([]string{}, p.res...), "ok")
				m.stream = append([]asmOp{}, p.stream...)
				ems[o.em] = m
				order = append(order, o.em)
				acted, res = o.em, "ok"
			case 'A':
				d, s := ems[o.em], ems[o.src]
				if d == nil || s == nil || d == s {
					return
				}
				before := observe(d)
				// C16: an Append that does not fit the remaining capacity is refused (an emitter without a target has none)
				need, room := s.e.Len(), d.capN-d.e.Len()
				if safe(func() { d.e.Append(s.e) }) {
					res = "refused"
					if observe(d) != before {
						complain("C16", fmt.Sprintf("refused Append modified the receiver (%s)", o))
					}
					if need <= room {
						complain("C16", fmt.Sprintf("%s: a fragment of %d byte(s) was refused although the receiver (target of %d bytes) has room for %d", o, need, d.capN, room))
					}
					d.poisoned = true
				} else {
					res = "ok"
					if need > room {
						complain("C16", fmt.Sprintf("%s: an Append that does not fit was accepted: the fragment holds %d byte(s), the receiver (target of %d bytes) had room for %d", o, need, d.capN, room))
					}
					fits := isPrefix(append(append([]string{}, d.flat...), "K"), s.flat) && !s.poisoned && !d.poisoned
					back := fits && s.parent == o.em && !s.appendedTo
					d.flat = append(append([]string{}, s.flat...), "A")
					d.res = append(append([]string{}, s.res...), "ok")
					d.stream = append([]asmOp{}, s.stream...)
					d.tainted = d.tainted || s.tainted
					if s.nSetBase > d.nSetBase {
						d.nSetBase = s.nSetBase
					}
					if !fits || (d.hasBuf && !s.hasBuf) {
						// a fragment that does not continue the receiver's program, or whose bytes were never stored
						d.tainted, d.poisoned, d.addressable = true, true, false
					}
					d.twin = nil
					if back && !d.tainted {
						// C16: the original that got its clone back equals an emitter fed directly; the twin lives on with it
						s.appendedTo = true
						var tgt []byte
						if d.hasBuf {
							tgt = make([]byte, d.e.Cap()+400)
						}
						d.twin, d.twinBuf = asm.NewEmitter(tgt, c.text), d.hasBuf
						for _, so := range d.stream {
							applyEmitterOp(d.twin, so)
						}
					}
				}
				acted = o.em
			case 'I', 'B', 'L', 'C', 'S', 'F':
				m := ems[o.em]
				if m == nil {
					return
				}
				room := 0
				if m.hasBuf {
					room = m.e.Cap() - m.e.Len()
				}
				res = applyEmitterOp(m.e, o.op)
				m.flat = append(m.flat, o.op.String())
				m.res = append(m.res, res)
				m.stream = append(m.stream, o.op)
				if o.op.kind == 'S' {
					m.nSetBase++
				}
				if res == "refused" && (o.op.kind == 'I' || o.op.kind == 'B') {
					m.tainted = true
					if m.hasBuf && room < len(o.op.data)+4 {
						m.poisoned = true // (possibly) refused for lack of space: a dry-run emitter legitimately goes on
					}
				}
				if o.op.kind == 'F' && res != "ok" {
					m.poisoned, m.tainted = true, true // which references a failed Finalize has patched depends on Go's map order
					m.twin = nil
				}
				if m.twin != nil {
					tres := applyEmitterOp(m.twin, o.op)
					if tres != res {
						if res == "refused" && m.poisoned {
							m.twin = nil
						} else {
							complain("C16", fmt.Sprintf("emitter %d (clone appended back) answers %q to %s, a directly fed emitter answers %q", o.em, res, o, tres))
							m.twin = nil
						}
					}
				}
				acted = o.em
			}
			if observerPanic != "" {
				observerPanic = ""
			}
			// re-observe every live emitter
			for _, id := range order {
				m := ems[id]
				obs := observe(m)
				if id == acted {
					m.lastObs = obs
					checkListing(id, m, obs, o.String())
					if m.twin != nil {
						a, b := obs, snapshot(m.twin, names)
						if c.text && m.twinBuf {
							b += "\x02" + rawListings(m.twin)
						}
						if m.tainted {
							a, b = strings.SplitN(a, "\x02", 2)[0], strings.SplitN(b, "\x02", 2)[0]
						}
						if !m.hasBuf {
							a, b = track(strings.Fields(a)), track(strings.Fields(strings.SplitN(b, "\x02", 2)[0]))
						}
						run.nTwin++
						if a != b {
							complain("C16", fmt.Sprintf("emitter %d (clone appended back, then %s) differs from a directly fed emitter: %s vs %s", id, o, clip(a, 300), clip(b, 300)))
							m.twin = nil
						}
					}
					continue
				}
				run.nStill++
				if obs != m.lastObs {
					what := "an emitter changed although no call was made on it"
					if a := ems[acted]; a != nil && a.parent == id && !a.appendedTo {
						what = "the original emitter changed although only its clone was used"
					}
					complain("C16", fmt.Sprintf("%s: emitter %d after %s: %s -> %s", what, id, o, clip(m.lastObs, 300), clip(obs, 300)))
					checkListing(id, m, obs, o.String()+" (a call on another emitter)")
					m.lastObs = obs
				}
			}
			if observerPanic != "" {
				for _, pr := range []string{"C16", "C19"} {
					complain(pr, fmt.Sprintf("an observer (Len / PC / Bytes / Flags / GetLabel) panicked after %s: %s", o, observerPanic))
				}
				observerPanic = ""
			}
			// C19: same calls, same structure, one with and one without a target buffer
			if a := ems[acted]; a != nil && !a.poisoned {
				fa := strings.Fields(strings.SplitN(a.lastObs, "\x02", 2)[0])
				for _, id := range order {
					b := ems[id]
					if id == acted || b.poisoned || a.hasBuf == b.hasBuf || !sameStrings(a.flat, b.flat) {
						continue
					}
					fb := strings.Fields(strings.SplitN(b.lastObs, "\x02", 2)[0])
					real, dry, ri, di := a, b, acted, id
					fr, fd := fa, fb
					if !a.hasBuf {
						real, dry, ri, di, fr, fd = b, a, id, acted, fb, fa
					}
					run.nDry++
					if !sameStrings(real.res, dry.res) {
						complain("C19", fmt.Sprintf("after the same calls (last: %s) emitter %d with a buffer answered %q, emitter %d without one %q", o, ri, real.res[len(real.res)-1], di, dry.res[len(dry.res)-1]))
					} else if track(fr) != track(fd) {
						complain("C19", fmt.Sprintf("after the same calls (last: %s) emitter %d with a buffer reports pc/flags/labels %s, emitter %d without one %s", o, ri, track(fr), di, track(fd)))
					}
				}
			}
		}()
	}
	if !targetsIntact() {
		complain("C19", "bytes outside a target buffer were written (the target was a window into a larger array)")
	}
	return run
}

// ---------------------------------------------------------------------------------------------------------------
// generator

type famGen struct {
	r       *prng.R
	ms      []asmMethod
	labelMs []int
	otherMs []int
	lpad    int
	nLabels int
}

func (g *famGen) lname(i int) string {
	n := "l" + strconv.Itoa(i)
	if g.lpad > len(n) {
		n += "_" + strings.Repeat("q", g.lpad-len(n)-1)
	}
	return n
}

// one emitter call; size = upper bound of the bytes it emits
func (g *famGen) call() (asmOp, int) {
	r := g.r
	switch k := r.N(20); {
	case k < 8:
		m := &g.ms[g.otherMs[r.N(len(g.otherMs))]]
		args := make([]uint32, len(m.widths))
		for j := range args {
			args[j] = r.U32()
		}
		return asmOp{kind: 'I', m: m, args: args}, 4
	case k < 11:
		m := &g.ms[g.labelMs[r.N(len(g.labelMs))]]
		return asmOp{kind: 'I', m: m, label: g.lname(r.N(g.nLabels + 1))}, 3
	case k < 14:
		return asmOp{kind: 'L', label: g.lname(r.N(g.nLabels))}, 0 // may well be a duplicate: refused by every emitter alike
	case k < 16:
		ln := []int{0, 1, 2, 15, 16, 17, 33}[r.N(7)]
		d := make([]byte, ln)
		for j := range d {
			d[j] = r.U8()
		}
		return asmOp{kind: 'B', data: d}, ln
	case k < 17:
		if r.Chance(12) {
			// comments far longer than a listing line usually is
			return asmOp{kind: 'C', label: longText([]int{0, 1000 + r.N(101), 1000 + r.N(101), 4096}[r.N(4)], r.N(60))}, 0
		}
		return asmOp{kind: 'C', label: "c" + strconv.Itoa(r.N(100))}, 0
	default:
		m := findMethod(g.ms, []string{"REP", "SEP"}[r.N(2)])
		return asmOp{kind: 'I', m: m, args: []uint32{[]uint32{0x10, 0x20, 0x30, 0x00, 0xFF, uint32(r.U8())}[r.N(6)]}}, 2
	}
}

func newFamGen(r *prng.R, ms []asmMethod) *famGen {
	g := &famGen{r: r, ms: ms, lpad: []int{0, 0, 8, 13}[r.N(4)], nLabels: 1 + r.N(3)}
	for i, m := range ms {
		if len(m.widths) == 1 && m.widths[0] == 0 {
			g.labelMs = append(g.labelMs, i)
		} else {
			g.otherMs = append(g.otherMs, i)
		}
	}
	return g
}

// genFamCase: slots 0..nRoots-1 are roots with a buffer that receive the same head (slot 0 is the one that is cloned), an
// optional dry root; clones of slot 0 with and without a buffer, a clone of the dry root; the clones receive the same tail; then
// a schedule in which clones are appended (to the original, to the other roots, the dry clone to the dry root) while the clones
// and the roots that already got their fragment go on emitting.
func genFamCase(r *prng.R, ms []asmMethod, rep *report.Report) famCase {
	g := newFamGen(r, ms)
	c := famCase{text: r.Chance(80)}
	nRoots := 1 + r.N(3)
	dryRoot := -1
	var head []asmOp
	size := 64
	if r.Chance(40) {
		base := uint32(r.N(0x100)) << 16
		if r.Chance(70) {
			base |= 0x8000 + uint32(r.N(0x7000))
		}
		head = append(head, asmOp{kind: 'S', addr: base})
	}
	if !r.Chance(40) {
		for i := 1 + r.N(5); i > 0; i-- {
			o, s := g.call()
			head = append(head, o)
			size += s
		}
	} else {
		rep.Count("family: clone of an emitter that has not listed anything")
	}
	// the rest of the program is generated first so that the buffers are ample
	type ev struct {
		kind byte // 'c' call on every clone, 'a' append (x = which), 'u' call on an appended root (x = which root), 'f' a root never appended emits
		x    int
		op   asmOp
	}
	var evs []ev
	for i := 1 + r.N(5); i > 0; i-- {
		o, s := g.call()
		evs = append(evs, ev{kind: 'c', op: o})
		size += s
	}
	nEv := 3 + r.N(9)
	for i := 0; i < nEv; i++ {
		o, s := g.call()
		size += s
		switch k := r.N(10); {
		case k < 3:
			evs = append(evs, ev{kind: 'a', x: r.N(nRoots + 1)})
		case k < 6:
			evs = append(evs, ev{kind: 'c', op: o})
		default:
			evs = append(evs, ev{kind: 'u', x: r.N(nRoots + 1), op: o})
		}
	}
	capS := strconv.FormatInt(int64(size), 16)
	slot := 0
	for i := 0; i < nRoots; i++ {
		c.ops = append(c.ops, famOp{em: slot, op: asmOp{kind: 'N', label: capS}})
		slot++
	}
	if r.Chance(60) {
		dryRoot = slot
		c.ops = append(c.ops, famOp{em: slot, op: asmOp{kind: 'N', label: "nil"}})
		slot++
		rep.Count("family: dry-run root (NewEmitter(nil))")
	}
	roots := slot
	for _, o := range head {
		for i := 0; i < roots; i++ {
			c.ops = append(c.ops, famOp{em: i, op: o})
		}
	}
	// clones
	clones := []int{slot}
	c.ops = append(c.ops, famOp{em: slot, src: 0, op: asmOp{kind: 'K', label: capS}})
	slot++
	if r.Chance(60) {
		clones = append(clones, slot)
		c.ops = append(c.ops, famOp{em: slot, src: 0, op: asmOp{kind: 'K', label: "nil"}})
		slot++
		rep.Count("family: Clone(nil) next to Clone(buffer)")
	}
	dryClone, dryBufClone := -1, -1
	if dryRoot >= 0 {
		dryClone = slot
		clones = append(clones, slot)
		c.ops = append(c.ops, famOp{em: slot, src: dryRoot, op: asmOp{kind: 'K', label: "nil"}})
		slot++
		if r.Chance(30) {
			clones = append(clones, slot)
			dryBufClone = slot
			c.ops = append(c.ops, famOp{em: slot, src: dryRoot, op: asmOp{kind: 'K', label: capS}})
			slot++
		}
	}
	appended := make([]bool, roots)
	shared := 0
	for _, e := range evs {
		switch e.kind {
		case 'c':
			for _, k := range clones {
				c.ops = append(c.ops, famOp{em: k, op: e.op})
			}
		case 'a':
			// x = 0: back to the original (and the dry clone to the dry root at the same moment); x > 0: to another root
			x := e.x
			if x >= nRoots {
				x = 0
			}
			if appended[x] {
				continue
			}
			appended[x] = true
			c.ops = append(c.ops, famOp{em: x, src: clones[0], op: asmOp{kind: 'A'}})
			shared++
			if x == 0 && dryRoot >= 0 {
				appended[dryRoot] = true
				c.ops = append(c.ops, famOp{em: dryRoot, src: dryClone, op: asmOp{kind: 'A'}})
			}
		case 'u':
			x := e.x
			if x >= nRoots {
				x = 0
			}
			if !appended[x] {
				continue
			}
			c.ops = append(c.ops, famOp{em: x, op: e.op})
			if x == 0 && dryRoot >= 0 {
				c.ops = append(c.ops, famOp{em: dryRoot, op: e.op})
			}
			rep.Count("family: original / receiver goes on after Append")
		}
	}
	if shared > 1 {
		rep.Count("family: one clone appended to several emitters")
	}
	if dryBufClone >= 0 && r.Chance(70) {
		// mixed targets: a clone with a buffer is appended to its original that has none (no capacity: refused unless the clone is empty)
		c.ops = append(c.ops, famOp{em: dryRoot, src: dryBufClone, op: asmOp{kind: 'A'}})
		o, _ := g.call()
		c.ops = append(c.ops, famOp{em: dryRoot, op: o})
		rep.Count("family: clone with a buffer appended to an original without one")
	}
	if r.Chance(60) {
		for i := 0; i < roots; i++ {
			if appended[i] && i != dryRoot {
				c.ops = append(c.ops, famOp{em: i, op: asmOp{kind: 'F'}})
			}
		}
	}
	return c
}

// directedFamCases: a fragment of k listing records (slices grown by append have spare capacity for most k) handed to two fresh
// emitters which then go on with instructions of different lengths, as does the fragment
func directedFamCases(ms []asmMethod) []famCase {
	nop, jsl, lda, rts := findMethod(ms, "NOP"), findMethod(ms, "JSL"), findMethod(ms, "LDA_abs"), findMethod(ms, "RTS")
	if nop == nil || jsl == nil || lda == nil || rts == nil {
		return nil
	}
	var cs []famCase
	for k := 0; k <= 17; k++ {
		for _, based := range []bool{false, true} {
			c := famCase{text: true}
			for s := 0; s < 2; s++ {
				c.ops = append(c.ops, famOp{em: s, op: asmOp{kind: 'N', label: "80"}})
				if based {
					c.ops = append(c.ops, famOp{em: s, op: asmOp{kind: 'S', addr: 0x7E8000}})
				}
			}
			c.ops = append(c.ops, famOp{em: 2, src: 0, op: asmOp{kind: 'K', label: "80"}})
			for i := 0; i < k; i++ {
				c.ops = append(c.ops, famOp{em: 2, op: asmOp{kind: 'I', m: nop}})
			}
			c.ops = append(c.ops, famOp{em: 0, src: 2, op: asmOp{kind: 'A'}}, famOp{em: 1, src: 2, op: asmOp{kind: 'A'}},
				famOp{em: 0, op: asmOp{kind: 'I', m: rts}},
				famOp{em: 1, op: asmOp{kind: 'I', m: jsl, args: []uint32{0x123456}}},
				famOp{em: 2, op: asmOp{kind: 'I', m: lda, args: []uint32{0x1234}}},
				famOp{em: 0, op: asmOp{kind: 'I', m: lda, args: []uint32{0x4321}}},
				famOp{em: 0, op: asmOp{kind: 'F'}}, famOp{em: 1, op: asmOp{kind: 'F'}})
			cs = append(cs, c)
		}
	}
	return cs
}

func shrinkFam(c famCase, fails func(famCase) bool) famCase {
	for changed := true; changed; {
		changed = false
		for i := 0; i < len(c.ops); i++ {
			d := famCase{c.text, append(append([]famOp{}, c.ops[:i]...), c.ops[i+1:]...)}
			if len(d.ops) > 0 && fails(d) {
				c, changed = d, true
				i--
			}
		}
	}
	return c
}

// runFamilies is called by runAsm; returns the number of emitter calls made
func runFamilies(rep *report.Report, ms []asmMethod, r *prng.R, n int) int64 {
	cases := directedFamCases(ms)
	rep.CountN("family: directed (fragment of k records handed to two emitters)", int64(len(cases)))
	for i := 0; i < n; i++ {
		cases = append(cases, genFamCase(r.Fork(), ms, rep))
	}
	var ops int64
	reported := map[string]int{}
	for i, c := range cases {
		run := execFam(c)
		ops += int64(len(c.ops))
		rep.CountN("family: C15 listing oracle evaluated (emitter x call)", run.nListing)
		rep.CountN("family: C16 untouched emitter re-observed (emitter x call)", run.nStill)
		rep.CountN("family: C16 original compared with a directly fed twin", run.nTwin)
		rep.CountN("family: C19 buffer / no-buffer pair compared", run.nDry)
		if i == 0 || i == 700 {
			rep.Sample(map[string]string{"family": c.String(), "go": strings.Join(run.out, ";")})
		}
		done := map[string]bool{}
		for _, msg := range run.oracle {
			prop := propsOfOracle(msg)
			if done[prop] || reported[prop] >= 12 {
				continue // one (shrunk) input per property and family, a dozen per property in all
			}
			done[prop] = true
			reported[prop]++
			first := func(x famCase) string {
				for _, mm := range execFam(x).oracle {
					if propsOfOracle(mm) == prop {
						return mm
					}
				}
				return ""
			}
			m := shrinkFam(c, func(x famCase) bool { return first(x) != "" })
			if mm := first(m); mm != "" {
				msg = mm
			}
			rep.Add(report.Finding{Property: prop, Kind: "violation", Clause: "emitter family vs property oracle: " + msg[5:], Input: m.String(), Actual: strings.Join(execFam(m).out, ";")})
		}
	}
	rep.CountN("families", int64(len(cases)))
	return ops
}
