package main

// scenarios for vh cpu: multi-step runs over a weighted "opcode soup" (the rare, state-changing opcodes — block moves, width
// switches, XCE, stack traffic, BRK/COP/RTI, WAI/STP, calls and returns — are frequent) with external events between steps:
// the NMI latch set, TriggerIRQ(), Reset(). State that an interpreter carries from one instruction to a later one, in exported
// or unexported fields, shows up as a lockstep difference between the two packages or against the model (`cpus`).

import (
	"fmt"
	"strings"

	"verifharness/internal/cpuh"
	"verifharness/internal/drv"
	"verifharness/internal/prng"
	"verifharness/internal/report"
)

type scenEvent struct {
	at   int
	what byte // 'n' NMI latch, 'i' TriggerIRQ, 'r' Reset
}

type scenario struct {
	c      cpuCase
	events []scenEvent
}

func (s scenario) evString() string {
	if len(s.events) == 0 {
		return "-"
	}
	ss := make([]string, len(s.events))
	for i, e := range s.events {
		ss[i] = fmt.Sprintf("%x:%c", e.at, e.what)
	}
	return strings.Join(ss, ",")
}

func (s scenario) line(variant string) string {
	return fmt.Sprintf("cpus %s %x %s %s %x %s", variant, s.c.steps, s.evString(), s.c.regs.Canon(), s.c.seed, ovlString(s.c.ovl))
}

var soupHeavy = []byte{
	0x54, 0x44, 0x54, 0x44, // MVN MVP
	0xC2, 0xE2, 0xC2, 0xE2, 0xFB, 0x38, 0x18, // REP SEP XCE SEC CLC
	0x08, 0x28, 0x48, 0x68, 0xDA, 0xFA, 0x5A, 0x7A, 0x8B, 0xAB, 0x0B, 0x2B, 0x4B, 0xF4, 0xD4, 0x62, // stack
	0x00, 0x02, 0x40, 0xCB, 0xDB, 0x42, // BRK COP RTI WAI STP WDM
	0x20, 0x22, 0xFC, 0x60, 0x6B, 0x4C, 0x5C, 0x6C, 0x7C, 0xDC, 0x80, 0x82, 0xD0, 0xF0, // calls, returns, jumps, branches
	0xAA, 0xA8, 0x8A, 0x98, 0x9A, 0xBA, 0x9B, 0xBB, 0x5B, 0x7B, 0x1B, 0x3B, 0xEB, // transfers
	0x78, 0x58, 0xF8, 0xD8, // SEI CLI SED CLD
	0xA9, 0xA2, 0xA0, 0x69, 0xE9, 0xC9, 0xE0, 0xC0, 0x89, // immediates whose length depends on M / X
	0x8D, 0x9D, 0x8F, 0x9F, 0x85, 0x95, 0x91, 0x97, 0x83, 0x93, 0x0C, 0x1C, 0xEE, 0xFE, 0x1A, 0x3A, // stores and read-modify-write
}

func genScenario(r *prng.R, native bool) scenario {
	c := genCPUCase(r.Fork(), -1, native)
	c.tag = "scenario"
	c.steps = 4 + r.N(28)
	g := &c.regs
	g.RK = []uint8{0x00, 0x7E, 0x80, pick8(r)}[r.N(4)]
	g.PC = []uint16{0x8000, 0x0200, 0xFFC0, pick16(r)}[r.N(4)]
	if r.Chance(50) { // short block moves
		k := uint16(r.N(4))
		g.RA, g.RAl, g.RAh = k, byte(k), 0
	}
	if r.Chance(50) {
		g.SP = []uint16{0x01FF, 0x01F0, 0x0100, 0x0003, 0xFFFE}[r.N(5)]
	}
	// the soup: 48 bytes from PC on (wrapping in the bank); operands are random / boundary bytes and may themselves be fetched
	pc := g.PC
	for k := 0; k < 48; {
		var op byte
		if r.Chance(70) {
			op = soupHeavy[r.N(len(soupHeavy))]
		} else {
			op = r.U8()
		}
		c.ovl[uint32(g.RK)<<16|uint32(pc+uint16(k))] = op
		k++
		for j := r.N(4); j > 0 && k < 48; j-- {
			c.ovl[uint32(g.RK)<<16|uint32(pc+uint16(k))] = pick8(r)
			k++
		}
	}
	// vectors pointing back into the soup half of the time (BRK/COP/NMI/IRQ/RESET handlers run soup as well)
	if r.Chance(50) {
		for _, v := range []uint32{0xFFE4, 0xFFE6, 0xFFEA, 0xFFEE, 0xFFF4, 0xFFFC, 0xFFFE} {
			t := pc + uint16(r.N(40))
			c.ovl[v], c.ovl[v+1] = byte(t), byte(t>>8)
		}
	}
	s := scenario{c: c}
	if r.Chance(40) {
		for n := 1 + r.N(2); n > 0; n-- {
			s.events = append(s.events, scenEvent{r.N(c.steps), []byte{'n', 'i', 'i', 'r'}[r.N(4)]})
		}
	}
	return s
}

type scenObs struct {
	state string
	cyc   int
	stop  bool
	all0  uint64
	all1  uint64
	creg  uint8
	maxA  uint32
	pn    string
}

func runScenarioGo(s scenario, variant string) (out []scenObs) {
	c := s.c
	mem := cpuh.NewMem(c.seed)
	for a, v := range c.ovl {
		mem.Ovl[a] = v
	}
	var step func() (int, bool, string)
	var get func() cpuh.Regs
	var nmi, irq, reset func()
	if variant == "p" {
		p := cpuh.NewPrimary(mem)
		p.Set(c.regs)
		step, get = p.Step, p.Get
		nmi = func() { p.CPU.Interrupt = 2 }
		irq = func() { p.CPU.TriggerIRQ() }
		reset = func() { p.CPU.Reset() }
	} else {
		p := cpuh.NewAlt(mem)
		p.Set(c.regs)
		step, get = p.Step, p.Get
		nmi = func() { p.CPU.Interrupt = 2 }
		irq = func() { p.CPU.TriggerIRQ() }
		reset = func() { p.CPU.Reset() }
	}
	for k := 0; k < c.steps; k++ {
		pn := ""
		func() {
			defer func() {
				if r := recover(); r != nil {
					pn = fmt.Sprint(r)
				}
			}()
			for _, e := range s.events {
				if e.at == k {
					switch e.what {
					case 'n':
						nmi()
					case 'i':
						irq()
					case 'r':
						reset()
					}
				}
			}
		}()
		if pn != "" {
			out = append(out, scenObs{state: "crash", pn: pn})
			return
		}
		before := get().AllCycles
		cy, st, pn := step()
		if pn != "" {
			out = append(out, scenObs{state: "crash", pn: pn, maxA: mem.MaxA})
			return
		}
		g := get()
		out = append(out, scenObs{g.Canon() + "|" + mem.WritesCanon(), cy, st, before, g.AllCycles, g.Cycles, mem.MaxA, ""})
	}
	return
}

func runScenarios(rep *report.Report, d *drv.Drv, modelProps []string) int64 {
	n := 2500
	if tier == "thorough" {
		n = 80000
	}
	r := prng.New(seed ^ 0x5ce7a)
	scs := make([]scenario, n)
	for i := range scs {
		scs[i] = genScenario(r.Fork(), i%3 != 0)
	}
	var replies []string
	if d != nil {
		reqs := make([]string, n)
		for i, s := range scs {
			reqs[i] = s.line("p")
		}
		var err error
		replies, err = d.Batch(reqs)
		if err != nil {
			replies = nil
			for _, p := range modelProps {
				rep.Add(report.Finding{Property: p, Kind: "disagreement", Clause: "model driver failed on the scenarios", Detail: err.Error()})
			}
		}
	}
	var steps int64
	for i, s := range scs {
		po, ao := runScenarioGo(s, "p"), runScenarioGo(s, "a")
		in := s.line("p")
		steps += int64(len(po))
		rep.Count(fmt.Sprintf("scenarios with %d events", len(s.events)))
		for vi, ob := range [][]scenObs{po, ao} {
			vname := []string{"primary", "alt"}[vi]
			for k, o := range ob {
				if o.pn != "" {
					rep.Add(report.Finding{Property: "C08", Kind: "violation", Clause: vname + ": Step / Reset panics in a multi-step scenario with the whole bus mapped: " + o.pn, Input: in})
					break
				}
				if o.maxA >= 1<<24 {
					rep.Add(report.Finding{Property: "C08", Kind: "violation", Clause: fmt.Sprintf("%s: bus access at %x is outside the 24-bit address space", vname, o.maxA), Input: in})
				}
				if o.cyc < 1 || uint64(o.cyc) != uint64(o.creg) || o.all1 != o.all0+uint64(o.cyc) {
					rep.Add(report.Finding{Property: "C12", Kind: "violation", Clause: fmt.Sprintf("%s: scenario step %d: reported %d cycles, Cycles=%d, AllCycles %d -> %d", vname, k+1, o.cyc, o.creg, o.all0, o.all1), Input: in})
				}
			}
		}
		for k := 0; k < len(po) && k < len(ao); k++ {
			if po[k].state != ao[k].state || po[k].cyc != ao[k].cyc || po[k].stop != ao[k].stop {
				rep.Add(report.Finding{Property: "C02", Kind: "violation", Clause: fmt.Sprintf("the two interpreters differ after step %d of a multi-step scenario", k+1), Input: in,
					Expected: "primary: " + po[k].state, Actual: "alt:     " + ao[k].state})
				break
			}
		}
		if replies != nil && i < len(replies) {
			ss := make([]string, len(po))
			for k, o := range po {
				ss[k] = o.state
			}
			if got := strings.Join(ss, ";"); replies[i] != got {
				j := firstDiff(strings.Split(replies[i], ";"), ss)
				for _, p := range modelProps {
					rep.Add(report.Finding{Property: p, Kind: "disagreement", Clause: fmt.Sprintf("Lean Cpu.stepFull / reset vs the primary interpreter on a multi-step scenario (first difference at step %d)", j+1),
						Input: in, Expected: nth(strings.Split(replies[i], ";"), j) + " (model)", Actual: nth(ss, j) + " (go)"})
				}
			}
		}
	}
	return steps
}
