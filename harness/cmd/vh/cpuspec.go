package main

// vh cpu-spec — both real interpreters against the hand-written WDC model (Lean WDC.step, Cpu/Spec.lean), native mode.
// The Go register file is abstracted exactly as Cpu.abs does (live copy of A/X/Y by M/X) and compared after every step
// with the model run from the abstraction of the same start state: registers, flags, E, stop latch, every written byte.

import (
	"fmt"
	"strings"

	"verifharness/internal/cpuh"
	"verifharness/internal/drv"
	"verifharness/internal/prng"
	"verifharness/internal/report"
)

func init() { components["cpu-spec"] = func(string) { runCPUSpec() } }

func archCanon(g cpuh.Regs, writes string) string {
	a := g.RA
	if g.M == 1 {
		a = uint16(g.RAh)<<8 | uint16(g.RAl)
	}
	x, y := g.RX, g.RY
	if g.X == 1 {
		x, y = uint16(g.RXl), uint16(g.RYl)
	}
	st := 0
	if g.Stopped {
		st = 1
	}
	return fmt.Sprintf("%x %x %x %x %x %x %x %x %d%d%d%d%d%d%d%d %d %d|%s", g.PC, g.SP, a, x, y, g.RD, g.RDBR, g.RK,
		g.N, g.V, g.M, g.X, g.D, g.I, g.Z, g.C, g.E, st, writes)
}

type archObs struct {
	arch  string
	pre   cpuh.Regs
	opc   byte
	panic string
}

func runGoArch(c cpuCase, variant string) []archObs {
	mem := cpuh.NewMem(c.seed)
	for a, v := range c.ovl {
		mem.Ovl[a] = v
	}
	var step func() (int, bool, string)
	var get func() cpuh.Regs
	if variant == "p" {
		p := cpuh.NewPrimary(mem)
		p.Set(c.regs)
		step, get = p.Step, p.Get
	} else {
		p := cpuh.NewAlt(mem)
		p.Set(c.regs)
		step, get = p.Step, p.Get
	}
	var obs []archObs
	for i := 0; i < c.steps; i++ {
		pre := get()
		if pre.E == 1 {
			break // the model is the native-mode model
		}
		opc := mem.Get(uint32(pre.RK)<<16 | uint32(pre.PC))
		_, _, pn := step()
		if pn != "" {
			obs = append(obs, archObs{arch: "crash", pre: pre, opc: opc, panic: pn})
			break
		}
		obs = append(obs, archObs{arch: archCanon(get(), mem.WritesCanon()), pre: pre, opc: opc})
	}
	return obs
}

// ADC / SBC opcodes (all addressing modes): low nibble pattern of the WDC matrix
func isAdcSbc(op byte) bool {
	hi := op >> 4
	if !(hi == 6 || hi == 7 || hi == 0xE || hi == 0xF) {
		return false
	}
	switch op & 0x0F {
	case 0x1, 0x3, 0x5, 0x7, 0x9, 0xD, 0xF:
		return true
	case 0x2:
		return hi == 7 || hi == 0xF
	}
	return false
}

func runCPUSpec() {
	rep := report.New("cpu-spec", tier, seed)
	r := prng.New(seed ^ 0x5bec)
	cases := cpuCaseSet(r, true)
	d, err := drv.Start(modelDrv)
	var replies []string
	if err == nil {
		defer d.Close()
		reqs := make([]string, len(cases))
		for i, c := range cases {
			reqs[i] = fmt.Sprintf("spec %x %s %x %s", c.steps, c.regs.Canon(), c.seed, ovlString(c.ovl))
		}
		replies, err = d.Batch(reqs)
	}
	if err != nil {
		rep.Add(report.Finding{Property: "C01", Kind: "disagreement", Clause: "model driver unavailable", Detail: err.Error()})
		rep.Emit()
		return
	}
	distinct := map[string]bool{}
	var steps int64
	for i, c := range cases {
		spec := strings.Split(replies[i], ";")
		for vi, variant := range []string{"p", "a"} {
			vname := []string{"primary", "alt"}[vi]
			ob := runGoArch(c, variant)
			if vi == 0 {
				steps += int64(len(ob))
			}
			for k, o := range ob {
				if k >= len(spec) {
					break
				}
				if o.arch == spec[k] {
					continue
				}
				in := map[string]interface{}{"case": fmt.Sprintf("spec %x %s %x %s", c.steps, c.regs.Canon(), c.seed, ovlString(c.ovl)), "variant": variant, "step": k + 1, "opcode": fmt.Sprintf("%02x", o.opc)}
				if o.pre.D == 1 && isAdcSbc(o.opc) {
					in["known_class"] = "decimal-adc-sbc"
				}
				rep.Add(report.Finding{Property: "C01", Kind: "violation",
					Clause: fmt.Sprintf("%s: opcode %02x deviates from the WDC model (M=%d X=%d D=%d)", vname, o.opc, o.pre.M, o.pre.X, o.pre.D),
					Input:  in, Expected: spec[k] + " (WDC model)", Actual: o.arch + " (go)"})
				break // later steps start from a different state
			}
		}
		wflag := fmt.Sprintf("M%dX%dD%d", c.regs.M, c.regs.X, c.regs.D)
		distinct[c.tag+wflag] = true
		rep.Count("cases " + wflag)
		if i%9973 == 0 {
			rep.Sample(map[string]string{"case": fmt.Sprintf("spec %x %s %x %s", c.steps, c.regs.Canon(), c.seed, ovlString(c.ovl)), "model": replies[i]})
		}
	}
	rep.Evaluations = steps
	rep.Distinct = int64(len(distinct))
	rep.CountN("cases", int64(len(cases)))
	rep.Rule = "native-mode states only (E=0): every opcode x boundary-biased registers / operands / pointers as in vh cpu (incl. the data-directed second pass and the exact-EA cases), plus random programs (compared until a step leaves native mode); " +
		"both real interpreters, abstracted by the live-copy rule, against the compiled WDC model after every step (registers, flags, stop latch, all written bytes). " +
		"A difference on ADC/SBC with D=1 is tagged known_class=decimal-adc-sbc (known finding D14)"
	rep.Emit()
}
