package main

import (
	"bytes"
	"encoding/hex"
	"fmt"
	"reflect"
	"strings"

	snes "github.com/alttpo/snes"

	"verifharness/internal/drv"
	"verifharness/internal/prng"
	"verifharness/internal/report"
)

func init() { components["header"] = func(string) { runHeader() } }

// showHeaderGo renders a parsed snes.Header in the protocol's canonical form by walking the exported fields in
// declaration order (the same walk encoding/binary does).
func showHeaderGo(h *snes.Header) string {
	var parts []string
	var walk func(prefix string, v reflect.Value)
	walk = func(prefix string, v reflect.Value) {
		t := v.Type()
		for i := 0; i < v.NumField(); i++ {
			f := t.Field(i)
			if !f.IsExported() {
				continue
			}
			fv := v.Field(i)
			switch fv.Kind() {
			case reflect.Struct:
				walk(prefix+f.Name+".", fv)
			case reflect.Array:
				b := make([]byte, fv.Len())
				for j := range b {
					b[j] = byte(fv.Index(j).Uint())
				}
				parts = append(parts, fmt.Sprintf("%s%s=[%s]", prefix, f.Name, hex.EncodeToString(b)))
			default:
				parts = append(parts, fmt.Sprintf("%s%s=%x", prefix, f.Name, fv.Uint()))
			}
		}
	}
	walk("", reflect.ValueOf(h).Elem())
	return fmt.Sprintf("v=%d %s", h.HeaderVersion(), strings.Join(parts, " "))
}

func goParse(b []byte) string {
	var h snes.Header
	if err := h.ReadHeader(bytes.NewReader(b)); err != nil {
		return "err"
	}
	return showHeaderGo(&h)
}

// reparseDiffers: the same Header object (and the same ROM object) parses image bytes `a`, then `b`; the second result must be
// what a fresh object parses from `b` (a parse carries nothing over from an earlier one). Returns a description or "".
func reparseDiffers(a, b []byte) string {
	var h snes.Header
	if err := h.ReadHeader(bytes.NewReader(a)); err != nil {
		return ""
	}
	if err := h.ReadHeader(bytes.NewReader(b)); err != nil {
		return ""
	}
	if got, want := showHeaderGo(&h), goParse(b); got != want {
		return "Header.ReadHeader on a reused Header: " + got + " / fresh: " + want
	}
	img := make([]byte, 0x8000)
	copy(img[0x7FB0:], a)
	rom, err := snes.NewROM("x", img)
	if err != nil {
		return ""
	}
	copy(img[0x7FB0:], b)
	if err := rom.ReadHeader(); err != nil {
		return ""
	}
	if got, want := showHeaderGo(&rom.Header), goParse(b); got != want {
		return "ROM.ReadHeader on a reused ROM: " + got + " / fresh: " + want
	}
	orig := append([]byte{}, img...)
	if err := rom.WriteHeader(); err != nil {
		return ""
	}
	if !bytes.Equal(orig, img) {
		return "ROM.ReadHeader + WriteHeader after a re-parse changed the image"
	}
	return ""
}

func goSer(b []byte) string {
	var h snes.Header
	if err := h.ReadHeader(bytes.NewReader(b)); err != nil {
		return "err"
	}
	var out bytes.Buffer
	if err := h.WriteHeader(&out); err != nil {
		return "err"
	}
	return hex.EncodeToString(out.Bytes())
}

var historyDependent bool

func goRomW(size, sd uint32, a, b []byte) (reply string, roundtripOK bool) {
	historyDependent = false
	img := make([]byte, size)
	for i := range img {
		img[i] = prng.Hash(uint64(sd), uint32(i))
	}
	copy(img[0x7FB0:], a)
	orig := append([]byte{}, img...)
	rom, err := snes.NewROM("x", img)
	if err != nil {
		return "err", false
	}
	v0 := rom.Header.HeaderVersion()
	// the property itself: read + write back leaves the image unchanged
	if err := rom.WriteHeader(); err != nil {
		return "err", false
	}
	roundtripOK = bytes.Equal(img, orig)
	copy(img, orig)
	// now write the header parsed from B into the image carrying A
	var hb snes.Header
	if err := hb.ReadHeader(bytes.NewReader(b)); err != nil {
		return "err", roundtripOK
	}
	rom.Header = hb
	if err := rom.WriteHeader(); err != nil {
		return "err", roundtripOK
	}
	same := bytes.Equal(img, orig)
	outside := bytes.Equal(img[:0x7FB0], orig[:0x7FB0]) && bytes.Equal(img[0x8000:], orig[0x8000:])
	// history independence: a fresh ROM object over the same image, given the same Header, must write the same bytes
	img2 := append([]byte{}, orig...)
	if fresh, err := snes.NewROM("y", img2); err == nil {
		fresh.Header = hb
		if err := fresh.WriteHeader(); err == nil && !bytes.Equal(img2, img) {
			historyDependent = true
		}
	}
	b01 := func(x bool) string {
		if x {
			return "1"
		}
		return "0"
	}
	return fmt.Sprintf("v0=%d same=%s outside=%s hdr=%s", v0, b01(same), b01(outside), hex.EncodeToString(img[0x7FB0:0x8000])), roundtripOK
}

// documented little-endian decoding of a header, written independently from the code: (name, offset, size, isArray)
var documentedFields = []struct {
	name string
	off  int
	size int
	arr  bool
}{
	{"MakerCode", 0x00, 2, false}, {"GameCode", 0x02, 4, false}, {"Fixed1", 0x06, 6, true}, {"FlashSize", 0x0C, 1, false},
	{"ExpansionRAMSize", 0x0D, 1, false}, {"SpecialVersion", 0x0E, 1, false}, {"CoCPUType", 0x0F, 1, false},
	{"Title", 0x10, 21, true}, {"MapMode", 0x25, 1, false}, {"CartridgeType", 0x26, 1, false}, {"ROMSize", 0x27, 1, false},
	{"RAMSize", 0x28, 1, false}, {"DestinationCode", 0x29, 1, false}, {"OldMakerCode", 0x2A, 1, false}, {"MaskROMVersion", 0x2B, 1, false},
	{"ComplementCheckSum", 0x2C, 2, false}, {"CheckSum", 0x2E, 2, false},
	{"NativeVectors.Unused1", 0x30, 4, true}, {"NativeVectors.COP", 0x34, 2, false}, {"NativeVectors.BRK", 0x36, 2, false},
	{"NativeVectors.ABORT", 0x38, 2, false}, {"NativeVectors.NMI", 0x3A, 2, false}, {"NativeVectors.Unused2", 0x3C, 2, false},
	{"NativeVectors.IRQ", 0x3E, 2, false},
	{"EmulatedVectors.Unused1", 0x40, 4, true}, {"EmulatedVectors.COP", 0x44, 2, false}, {"EmulatedVectors.Unused2", 0x46, 2, false},
	{"EmulatedVectors.ABORT", 0x48, 2, false}, {"EmulatedVectors.NMI", 0x4A, 2, false}, {"EmulatedVectors.RESET", 0x4C, 2, false},
	{"EmulatedVectors.IRQBRK", 0x4E, 2, false},
}

// oracleParse is the property's own statement: version rule + documented little-endian fields.
func oracleParse(b []byte) string {
	if len(b) < 80 {
		return "err"
	}
	v := 1
	if b[0x2A] == 0x33 {
		v = 3
	} else if b[0x24] == 0 {
		v = 2
	}
	var parts []string
	for _, f := range documentedFields {
		raw := b[f.off : f.off+f.size]
		if v == 1 && f.off < 0x10 {
			raw = make([]byte, f.size)
		}
		if f.arr {
			parts = append(parts, fmt.Sprintf("%s=[%s]", f.name, hex.EncodeToString(raw)))
		} else {
			var x uint64
			for i := f.size - 1; i >= 0; i-- {
				x = x<<8 | uint64(raw[i])
			}
			parts = append(parts, fmt.Sprintf("%s=%x", f.name, x))
		}
	}
	return fmt.Sprintf("v=%d %s", v, strings.Join(parts, " "))
}

func genHeaderBytes(r *prng.R, rep *report.Report) []byte {
	b := make([]byte, 80)
	for i := range b {
		b[i] = r.U8()
	}
	switch r.N(5) {
	case 0:
		b[0x2A] = 0x33
		rep.Count("header: version 3")
	case 1:
		if b[0x2A] == 0x33 {
			b[0x2A] = 0x32
		}
		b[0x24] = 0
		rep.Count("header: version 2")
	case 2:
		if b[0x2A] == 0x33 {
			b[0x2A] = 0x34
		}
		if b[0x24] == 0 {
			b[0x24] = 0x20
		}
		rep.Count("header: version 1")
	case 3:
		b[0x2A] = 0x33
		b[0x24] = 0
		rep.Count("header: both markers")
	default:
		rep.Count("header: random")
	}
	if r.Chance(20) {
		for i := 0; i < 16; i++ {
			b[i] = 0
		}
	}
	return b
}

func runHeader() {
	rep := report.New("header", tier, seed)
	n := 3000
	if tier == "thorough" {
		n = 60000
	}
	r := prng.New(seed)
	var reqs, wants []string
	var viol int
	addViolation := func(clause string, in string, exp, act string) {
		viol++
		rep.Add(report.Finding{Property: "C09", Kind: "violation", Clause: clause, Input: in, Expected: exp, Actual: act})
	}
	distinct := map[string]bool{}
	sizes := []uint32{0x8000, 0x8001, 0x10000, 0x28000}
	for i := 0; i < n; i++ {
		b := genHeaderBytes(r, rep)
		hx := hex.EncodeToString(b)
		// -- property oracle on the real code
		gp := goParse(b)
		if op := oracleParse(b); gp != op {
			addViolation("fields decoded little-endian from their documented addresses / version rule (Go vs documented layout)", "hdr parse "+hx, op, gp)
		}
		gs := goSer(b)
		if sb, err := hex.DecodeString(gs); err != nil || len(sb) != 80 {
			addViolation("serialising a parsed header yields 80 bytes", "hdr ser "+hx, "80 bytes", gs)
		} else if goParse(sb) != gp {
			addViolation("serialise(parse(b)) parses back to an identical header", "hdr ser "+hx, gp, goParse(sb))
		}
		// single-byte perturbation: exactly the covering field changes (outside the two version-deciding bytes)
		k := r.N(80)
		b2 := append([]byte{}, b...)
		b2[k] ^= byte(1 + r.N(255))
		if k != 0x2A && k != 0x24 {
			p1, p2 := strings.Fields(gp), strings.Fields(goParse(b2))
			changed := []string{}
			for j := range p1 {
				if j < len(p2) && p1[j] != p2[j] {
					changed = append(changed, strings.SplitN(p1[j], "=", 2)[0])
				}
			}
			want := ""
			for _, f := range documentedFields {
				if k >= f.off && k < f.off+f.size {
					want = f.name
				}
			}
			v1 := strings.HasPrefix(gp, "v=1 ")
			ok := len(changed) == 1 && changed[0] == want
			if v1 && k < 0x10 {
				ok = len(changed) == 0 // extended fields are reported as zero for version 1
			}
			if !ok {
				addViolation("changing one header byte changes exactly the field covering it", fmt.Sprintf("hdr parse %s (byte %#x flipped to %02x)", hx, k, b2[k]), want, strings.Join(changed, ","))
			}
			distinct[fmt.Sprintf("flip/%s/%v", want, v1)] = true
		}
		reqs = append(reqs, "hdr parse "+hx, "hdr ser "+hx)
		wants = append(wants, gp, gs)
		if i%10 == 0 {
			// short inputs: binary.Read must fail
			short := b[:r.N(80)]
			shx := hex.EncodeToString(short)
			if shx == "" {
				shx = "-"
			}
			reqs = append(reqs, "hdr parse "+shx)
			wants = append(wants, goParse(short))
			rep.Count("header: short input")
		}
		if i%3 == 0 {
			// re-parse on the same objects: an earlier image whose version-deciding bytes differ
			a := genHeaderBytes(r, rep)
			if msg := reparseDiffers(a, b); msg != "" {
				addViolation("parsing depends on an earlier parse by the same object (a fresh object parses the same bytes differently)", fmt.Sprintf("hdr reparse %s then %s", hex.EncodeToString(a), hx), "as a fresh object", msg)
			}
			rep.Count("header: re-parse on the same object")
		}
		if i%4 == 0 {
			sz := sizes[r.N(len(sizes))]
			sd := uint32(r.N(8))
			bb := genHeaderBytes(r, rep)
			if r.Chance(30) {
				bb = b
			}
			reply, rt := goRomW(sz, sd, b, bb)
			if historyDependent {
				addViolation("WriteHeader's result depends on earlier calls on the same ROM object (a fresh ROM with the same Header and image writes different bytes)", fmt.Sprintf("hdr romw %x %x %s %s", sz, sd, hx, hex.EncodeToString(bb)), "same bytes as a fresh object", "different bytes")
			}
			if !rt {
				addViolation("ReadHeader then WriteHeader leaves the image byte-for-byte unchanged", fmt.Sprintf("hdr romw %x %x %s %s", sz, sd, hx, hx), "image unchanged", "image changed")
			}
			reqs = append(reqs, fmt.Sprintf("hdr romw %x %x %s %s", sz, sd, hx, hex.EncodeToString(bb)))
			wants = append(wants, reply)
			distinct[fmt.Sprintf("romw/%x/%s", sz, reply[:6])] = true
		}
		distinct["parse/"+gp[:3]+fmt.Sprint(b[0]&3)] = true
	}
	d, err := drv.Start(modelDrv)
	if err != nil {
		rep.Add(report.Finding{Property: "C09", Kind: "disagreement", Clause: "model driver unavailable", Detail: err.Error()})
	} else {
		defer d.Close()
		got, err := d.Batch(reqs)
		if err != nil {
			rep.Add(report.Finding{Property: "C09", Kind: "disagreement", Clause: "model driver failed", Detail: err.Error()})
		}
		for i := range got {
			if i%1777 == 0 {
				rep.Sample(map[string]string{"request": reqs[i], "go": wants[i], "lean": got[i]})
			}
			if got[i] != wants[i] {
				rep.Add(report.Finding{Property: "C09", Kind: "disagreement", Clause: "Lean HeaderModel vs snes.Header / snes.ROM", Input: reqs[i], Expected: got[i] + " (model)", Actual: wants[i] + " (go)"})
			}
		}
	}
	rep.Evaluations = int64(len(reqs)) + int64(n)*3
	rep.Distinct = int64(len(distinct))
	rep.Rule = "random 80-byte headers biased to versions 1/2/3 (and both markers), zero / non-zero extended area, single-byte perturbations of all 80 positions, short inputs, " +
		"images of 32 KiB, 32 KiB+1, 64 KiB, 160 KiB with the header parsed from another byte string written in; compared: every exported field, the version, the serialised bytes, the whole image. " +
		"distinct_nontrivial = distinct (operation, version, perturbed field / image size) classes"
	rep.Emit()
}
