package main

import (
	"bytes"
	"encoding/hex"
	"fmt"
	"reflect"
	"strings"

	snes "github.com/alttpo/snes"

	"verifharness/internal/drv"
	"verifharness/internal/prng"
	"verifharness/internal/report"
)

func init() { components["header"] = func(string) { runHeader() } }

// showHeaderGo renders a parsed snes.Header in the protocol's canonical form by walking the exported fields in
// declaration order (the same walk encoding/binary does).
func showHeaderGo(h *snes.Header) string {
	var parts []string
	var walk func(prefix string, v reflect.Value)
	walk = func(prefix string, v reflect.Value) {
		t := v.Type()
		for i := 0; i < v.NumField(); i++ {
			f := t.Field(i)
			if !f.IsExported() {
				continue
			}
			fv := v.Field(i)
			switch fv.Kind() {
			case reflect.Struct:
				walk(prefix+f.Name+".", fv)
			case reflect.Array:
				b := make([]byte, fv.Len())
				for j := range b {
					b[j] = byte(fv.Index(j).Uint())
				}
				parts = append(parts, fmt.Sprintf("%s%s=[%s]", prefix, f.Name, hex.EncodeToString(b)))
			default:
				parts = append(parts, fmt.Sprintf("%s%s=%x", prefix, f.Name, fv.Uint()))
			}
		}
	}
	walk("", reflect.ValueOf(h).Elem())
	return fmt.Sprintf("v=%d %s", h.HeaderVersion(), strings.Join(parts, " "))
}

func goParse(b []byte) string {
	var h snes.Header
	if err := h.ReadHeader(bytes.NewReader(b)); err != nil {
		return "err"
	}
	return showHeaderGo(&h)
}

// reparseDiffers: the same Header object (and the same ROM object) parses image bytes `a`, then `b`; the second result must be
// what a fresh object parses from `b` (a parse carries nothing over from an earlier one). Returns a description or "".
func reparseDiffers(a, b []byte) string {
	var h snes.Header
	if err := h.ReadHeader(bytes.NewReader(a)); err != nil {
		return ""
	}
	if err := h.ReadHeader(bytes.NewReader(b)); err != nil {
		return ""
	}
	if got, want := showHeaderGo(&h), goParse(b); got != want {
		return "Header.ReadHeader on a reused Header: " + got + " / fresh: " + want
	}
	img := make([]byte, 0x8000)
	copy(img[0x7FB0:], a)
	rom, err := snes.NewROM("x", img)
	if err != nil {
		return ""
	}
	copy(img[0x7FB0:], b)
	if err := rom.ReadHeader(); err != nil {
		return ""
	}
	if got, want := showHeaderGo(&rom.Header), goParse(b); got != want {
		return "ROM.ReadHeader on a reused ROM: " + got + " / fresh: " + want
	}
	orig := append([]byte{}, img...)
	if err := rom.WriteHeader(); err != nil {
		return ""
	}
	if !bytes.Equal(orig, img) {
		return "ROM.ReadHeader + WriteHeader after a re-parse changed the image"
	}
	return ""
}

func goSer(b []byte) string {
	var h snes.Header
	if err := h.ReadHeader(bytes.NewReader(b)); err != nil {
		return "err"
	}
	var out bytes.Buffer
	if err := h.WriteHeader(&out); err != nil {
		return "err"
	}
	return hex.EncodeToString(out.Bytes())
}

var historyDependent bool

func goRomW(size, sd uint32, a, b []byte) (reply string, roundtripOK bool) {
	historyDependent = false
	img := make([]byte, size)
	for i := range img {
		img[i] = prng.Hash(uint64(sd), uint32(i))
	}
	copy(img[0x7FB0:], a)
	orig := append([]byte{}, img...)
	rom, err := snes.NewROM("x", img)
	if err != nil {
		return "err", false
	}
	v0 := rom.Header.HeaderVersion()
	// the property itself: read + write back leaves the image unchanged
	if err := rom.WriteHeader(); err != nil {
		return "err", false
	}
	roundtripOK = bytes.Equal(img, orig)
	copy(img, orig)
	// now write the header parsed from B into the image carrying A
	var hb snes.Header
	if err := hb.ReadHeader(bytes.NewReader(b)); err != nil {
		return "err", roundtripOK
	}
	rom.Header = hb
	if err := rom.WriteHeader(); err != nil {
		return "err", roundtripOK
	}
	same := bytes.Equal(img, orig)
	outside := bytes.Equal(img[:0x7FB0], orig[:0x7FB0]) && bytes.Equal(img[0x8000:], orig[0x8000:])
	// history independence: a fresh ROM object over the same image, given the same Header, must write the same bytes
	img2 := append([]byte{}, orig...)
	if fresh, err := snes.NewROM("y", img2); err == nil {
		fresh.Header = hb
		if err := fresh.WriteHeader(); err == nil && !bytes.Equal(img2, img) {
			historyDependent = true
		}
	}
	b01 := func(x bool) string {
		if x {
			return "1"
		}
		return "0"
	}
	return fmt.Sprintf("v0=%d same=%s outside=%s hdr=%s", v0, b01(same), b01(outside), hex.EncodeToString(img[0x7FB0:0x8000])), roundtripOK
}

// ---- entry points handed readers / writers that are positioned mid-stream, and images of irregular sizes ----

func hashBytes(sd uint64, n int) []byte {
	b := make([]byte, n)
	for i := range b {
		b[i] = prng.Hash(sd, uint32(i))
	}
	return b
}

var positionHow = []string{"Seek(start)", "Read(prefix)", "Seek(end)", "Read+Seek(current)", "ReadByte/UnreadByte", "read past then Seek back"}

// goParseAt: Header.ReadHeader on a reader over prefix ++ b ++ suffix whose read position was moved to len(prefix) in one of
// several ways. The property decodes every field from the bytes the reader is standing on ($FFB0.. of the cartridge), so the
// result must be what a fresh reader over exactly b gives.
func goParseAt(b []byte, pre, suf, how int, sd uint64) string {
	buf := append(append(hashBytes(sd, pre), b...), hashBytes(sd+1, suf)...)
	rd := bytes.NewReader(buf)
	switch how {
	case 0:
		rd.Seek(int64(pre), 0)
	case 1:
		if pre > 0 {
			rd.Read(make([]byte, pre))
		}
	case 2:
		rd.Seek(-int64(len(b)+suf), 2)
	case 3:
		k := pre / 2
		if k > 0 {
			rd.Read(make([]byte, k))
		}
		rd.Seek(int64(pre-k), 1)
	case 4:
		rd.Seek(int64(pre), 0)
		if _, err := rd.ReadByte(); err == nil {
			rd.UnreadByte()
		}
	default:
		rd.Seek(0, 2)
		rd.Seek(int64(pre), 0)
	}
	var h snes.Header
	if err := h.ReadHeader(rd); err != nil {
		return "err"
	}
	return showHeaderGo(&h)
}

// goSerInto: Header.WriteHeader into a buffer that already holds bytes (optionally partly consumed, optionally a window with spare
// capacity inside a larger array). Returns the unread contents of the buffer afterwards and whether the bytes around the window
// are untouched.
func goSerInto(b []byte, pre, consumed, spare, kind int, sd uint64) (out []byte, guardOK bool, ok bool) {
	var h snes.Header
	if err := h.ReadHeader(bytes.NewReader(b)); err != nil {
		return nil, true, false
	}
	prefix := hashBytes(sd, pre)
	var buf *bytes.Buffer
	var big, bigOrig []byte
	switch kind {
	case 0: // NewBuffer over a copy of the prefix (capacity exactly the prefix)
		buf = bytes.NewBuffer(append(make([]byte, 0, pre), prefix...))
	case 1: // zero Buffer, prefix written in two pieces
		buf = &bytes.Buffer{}
		buf.Write(prefix[:pre/2])
		buf.Write(prefix[pre/2:])
	default: // window with spare capacity into a larger array
		big = hashBytes(sd+2, 16+pre+spare+16)
		copy(big[16:], prefix)
		bigOrig = append([]byte{}, big...)
		buf = bytes.NewBuffer(big[16 : 16+pre : 16+pre+spare])
	}
	if consumed > pre {
		consumed = pre
	}
	if consumed > 0 {
		buf.Next(consumed)
	}
	if err := h.WriteHeader(buf); err != nil {
		return nil, true, false
	}
	guardOK = true
	if big != nil {
		// the Buffer owns its whole window (it may slide unread data down over consumed bytes); only the array around it is guarded
		guardOK = bytes.Equal(big[:16], bigOrig[:16]) && bytes.Equal(big[16+pre+spare:], bigOrig[16+pre+spare:])
	}
	return append([]byte{}, buf.Bytes()...), guardOK, true
}

// romOracle: the ROM-level entry points on an image of any size >= 32 KiB, given as a plain slice or as a window inside a larger
// array. Clauses, all from the property text: the header is decoded from the documented offsets ($FFB0-$FFFF = file $7FB0-$7FFF
// of a LoROM image) of the image given; ReadHeader then WriteHeader leaves the whole image (and everything around it) unchanged;
// ROM.Contents is the image given; changing one header byte of the image and re-reading changes the parse accordingly.
// Returns (clause, expected, actual) triples.
func romOracle(size, lead, trail int, capLimited bool, sd uint64, a []byte, flipAt int, flipTo byte, altOffset bool) (fails [][3]string) {
	fail := func(c, e, g string) { fails = append(fails, [3]string{c, e, g}) }
	big := hashBytes(sd, lead+size+trail)
	img := big[lead : lead+size]
	if capLimited {
		img = big[lead : lead+size : lead+size]
	}
	copy(img[0x7FB0:], a)
	orig := append([]byte{}, big...)
	rom, err := snes.NewROM("x", img)
	if err != nil {
		fail("NewROM accepts every image of at least 32 KiB", "no error", err.Error())
		return
	}
	if len(rom.Contents) != len(img) || &rom.Contents[0] != &img[0] {
		fail("ROM.Contents is the image given (header and contents refer to the whole image)", fmt.Sprintf("len=%#x, same first byte", len(img)),
			fmt.Sprintf("len=%#x, same first byte=%v", len(rom.Contents), len(rom.Contents) > 0 && &rom.Contents[0] == &img[0]))
	}
	if got, want := showHeaderGo(&rom.Header), oracleParse(img[0x7FB0:0x8000]); got != want {
		fail("NewROM: header fields decoded from the documented offsets $7FB0-$7FFF of the image given", want, got)
	}
	if err := rom.WriteHeader(); err != nil {
		fail("WriteHeader completes", "no error", err.Error())
	}
	if !bytes.Equal(big, orig) {
		fail("ReadHeader then WriteHeader leaves the image byte-for-byte unchanged", "image (and the bytes around it) unchanged", "first difference at image offset "+firstByteDiff(big, orig, lead))
		copy(big, orig)
	}
	// one header byte of the image changes: a re-read follows it
	img[0x7FB0+flipAt] = flipTo
	copy(orig, big)
	if err := rom.ReadHeader(); err != nil {
		fail("ROM.ReadHeader completes", "no error", err.Error())
	}
	if got, want := showHeaderGo(&rom.Header), oracleParse(img[0x7FB0:0x8000]); got != want {
		fail(fmt.Sprintf("ROM.ReadHeader after image byte $%04X changed: fields decoded from the documented offsets of the image", 0x7FB0+flipAt), want, got)
	}
	if err := rom.WriteHeader(); err != nil {
		fail("WriteHeader completes", "no error", err.Error())
	}
	if !bytes.Equal(big, orig) {
		fail("ReadHeader then WriteHeader leaves the image byte-for-byte unchanged", "image (and the bytes around it) unchanged", "first difference at image offset "+firstByteDiff(big, orig, lead))
		copy(big, orig)
	}
	if altOffset && size >= 0x10000 {
		// the header location is an exported field: a caller that points it at $FFB0 of the file (HiROM placement)
		rom.HeaderOffset = 0xFFB0
		if err := rom.ReadHeader(); err != nil {
			fail("ROM.ReadHeader completes", "no error", err.Error())
		}
		if got, want := showHeaderGo(&rom.Header), oracleParse(img[0xFFB0:0x10000]); got != want {
			fail("ROM.ReadHeader with HeaderOffset=$FFB0: fields decoded from that offset of the image", want, got)
		}
		if err := rom.WriteHeader(); err != nil {
			fail("WriteHeader completes", "no error", err.Error())
		}
		if !bytes.Equal(big, orig) {
			fail("ReadHeader then WriteHeader (HeaderOffset=$FFB0) leaves the image byte-for-byte unchanged", "image unchanged", "first difference at image offset "+firstByteDiff(big, orig, lead))
		}
	}
	return
}

func sizeClass(size int) string {
	switch m := size & 0x7FFF; {
	case m == 0:
		return "0"
	case m == 1:
		return "1"
	case m == 0x7FFF:
		return "$7FFF"
	case m == 0x200:
		return "$200"
	case m == 0x1FF || m == 0x201:
		return "$200+-1"
	case m&(m-1) == 0:
		return "2^k"
	case m&1 == 1:
		return "odd"
	default:
		return "even"
	}
}

func firstByteDiff(a, b []byte, lead int) string {
	for i := range a {
		if i >= len(b) || a[i] != b[i] {
			return fmt.Sprintf("%#x", i-lead)
		}
	}
	return "?"
}

// irregularSize: image sizes that are not multiples of 32 KiB: one past / one short of a bank multiple, +512 and its neighbours,
// odd sizes, small power-of-two leftovers.
func irregularSize(r *prng.R) int {
	base := 0x8000 * (1 + r.N(6))
	switch r.N(10) {
	case 0:
		return base
	case 1:
		return base + 1
	case 2:
		return base + 0x200
	case 3:
		return base + 0x200 + 1 - 2*r.N(2)
	case 4:
		return base + 0x8000 - 1
	case 5:
		return base + (1 << uint(r.N(15)))
	case 6:
		return base + (1 << uint(1+r.N(14))) + 1 - 2*r.N(2)
	case 7:
		return base + 0x50 + r.N(0x400)
	default:
		return base + r.N(0x8000)
	}
}

// documented little-endian decoding of a header, written independently from the code: (name, offset, size, isArray)
var documentedFields = []struct {
	name string
	off  int
	size int
	arr  bool
}{
	{"MakerCode", 0x00, 2, false}, {"GameCode", 0x02, 4, false}, {"Fixed1", 0x06, 6, true}, {"FlashSize", 0x0C, 1, false},
	{"ExpansionRAMSize", 0x0D, 1, false}, {"SpecialVersion", 0x0E, 1, false}, {"CoCPUType", 0x0F, 1, false},
	{"Title", 0x10, 21, true}, {"MapMode", 0x25, 1, false}, {"CartridgeType", 0x26, 1, false}, {"ROMSize", 0x27, 1, false},
	{"RAMSize", 0x28, 1, false}, {"DestinationCode", 0x29, 1, false}, {"OldMakerCode", 0x2A, 1, false}, {"MaskROMVersion", 0x2B, 1, false},
	{"ComplementCheckSum", 0x2C, 2, false}, {"CheckSum", 0x2E, 2, false},
	{"NativeVectors.Unused1", 0x30, 4, true}, {"NativeVectors.COP", 0x34, 2, false}, {"NativeVectors.BRK", 0x36, 2, false},
	{"NativeVectors.ABORT", 0x38, 2, false}, {"NativeVectors.NMI", 0x3A, 2, false}, {"NativeVectors.Unused2", 0x3C, 2, false},
	{"NativeVectors.IRQ", 0x3E, 2, false},
	{"EmulatedVectors.Unused1", 0x40, 4, true}, {"EmulatedVectors.COP", 0x44, 2, false}, {"EmulatedVectors.Unused2", 0x46, 2, false},
	{"EmulatedVectors.ABORT", 0x48, 2, false}, {"EmulatedVectors.NMI", 0x4A, 2, false}, {"EmulatedVectors.RESET", 0x4C, 2, false},
	{"EmulatedVectors.IRQBRK", 0x4E, 2, false},
}

// oracleParse is the property's own statement: version rule + documented little-endian fields.
func oracleParse(b []byte) string {
	if len(b) < 80 {
		return "err"
	}
	v := 1
	if b[0x2A] == 0x33 {
		v = 3
	} else if b[0x24] == 0 {
		v = 2
	}
	var parts []string
	for _, f := range documentedFields {
		raw := b[f.off : f.off+f.size]
		if v == 1 && f.off < 0x10 {
			raw = make([]byte, f.size)
		}
		if f.arr {
			parts = append(parts, fmt.Sprintf("%s=[%s]", f.name, hex.EncodeToString(raw)))
		} else {
			var x uint64
			for i := f.size - 1; i >= 0; i-- {
				x = x<<8 | uint64(raw[i])
			}
			parts = append(parts, fmt.Sprintf("%s=%x", f.name, x))
		}
	}
	return fmt.Sprintf("v=%d %s", v, strings.Join(parts, " "))
}

// typical contents of the one-byte fields that are enumerations on real cartridges (map mode, cartridge type, sizes, region, ...)
var typicalHeaderBytes = map[string][]byte{
	"MapMode": {0x20, 0x21, 0x22, 0x23, 0x25, 0x30, 0x31, 0x32, 0x35}, "CartridgeType": {0x00, 0x01, 0x02, 0x03, 0x13, 0x1A, 0x33, 0x35, 0xF3, 0xF6},
	"ROMSize": {0x07, 0x08, 0x09, 0x0A, 0x0B, 0x0C, 0x0D}, "RAMSize": {0x00, 0x01, 0x03, 0x05, 0x07}, "DestinationCode": {0x00, 0x01, 0x02, 0x06, 0x09, 0x0D, 0x11},
	"MaskROMVersion": {0x00, 0x01, 0x02}, "FlashSize": {0x00, 0x07}, "ExpansionRAMSize": {0x00, 0x01, 0x03, 0x05}, "SpecialVersion": {0x00}, "CoCPUType": {0x00, 0x01, 0x10},
	"OldMakerCode": {0x00, 0x01, 0x33, 0x33, 0xB4},
}

// realisticHeader overwrites fields of a random header with contents that look like real data: ASCII text padded to the field
// width with spaces, zeros or $FF (any text length from empty to full), a whole field of $20 / $00 / $FF, typical values in the
// enumeration bytes, a complement that matches the checksum, vectors pointing into the ROM half of bank 0. Each field is treated
// independently, so realistic and random fields mix.
func realisticHeader(r *prng.R, b []byte) {
	const alnum = "ABCDEFGHIJKLMNOPQRSTUVWXYZ0123456789"
	pads := []byte{0x20, 0x00, 0xFF}
	for _, f := range documentedFields {
		fb := b[f.off : f.off+f.size]
		switch r.N(5) {
		case 0: // left as it is
		case 1: // the whole field one padding byte
			pad := pads[r.N(3)]
			for i := range fb {
				fb[i] = pad
			}
		case 2, 3: // text, padded (the numeric multi-byte fields are character codes on real cartridges too: maker and game code)
			if tv, ok := typicalHeaderBytes[f.name]; ok {
				fb[0] = tv[r.N(len(tv))]
				break
			}
			if strings.Contains(f.name, "Vectors") {
				if f.size == 2 {
					v := 0x8000 | r.U16()
					fb[0], fb[1] = byte(v), byte(v>>8)
				}
				break
			}
			k := r.N(f.size + 1)
			pad := pads[r.N(3)]
			for i := range fb {
				switch {
				case i >= k:
					fb[i] = pad
				case r.Chance(10):
					fb[i] = ' ' // a blank inside the text
				default:
					fb[i] = alnum[r.N(len(alnum))]
				}
			}
		default:
			if tv, ok := typicalHeaderBytes[f.name]; ok {
				fb[0] = tv[r.N(len(tv))]
			}
		}
	}
	if r.Chance(50) { // complement = ^checksum
		b[0x2C], b[0x2D] = ^b[0x2E], ^b[0x2F]
	}
}

func genHeaderBytes(r *prng.R, rep *report.Report) []byte {
	b := make([]byte, 80)
	for i := range b {
		b[i] = r.U8()
	}
	if r.Chance(50) {
		realisticHeader(r, b)
		rep.Count("header: fields with realistic contents (padded text, uniform padding, typical enumeration values)")
	}
	switch r.N(5) {
	case 0:
		b[0x2A] = 0x33
		rep.Count("header: version 3")
	case 1:
		if b[0x2A] == 0x33 {
			b[0x2A] = 0x32
		}
		b[0x24] = 0
		rep.Count("header: version 2")
	case 2:
		if b[0x2A] == 0x33 {
			b[0x2A] = 0x34
		}
		if b[0x24] == 0 {
			b[0x24] = 0x20
		}
		rep.Count("header: version 1")
	case 3:
		b[0x2A] = 0x33
		b[0x24] = 0
		rep.Count("header: both markers")
	default:
		rep.Count("header: random")
	}
	if r.Chance(20) {
		for i := 0; i < 16; i++ {
			b[i] = 0
		}
	}
	return b
}

func runHeader() {
	rep := report.New("header", tier, seed)
	n := 3000
	if tier == "thorough" {
		n = 60000
	}
	r := prng.New(seed)
	var reqs, wants []string
	var viol int
	addViolation := func(clause string, in string, exp, act string) {
		viol++
		rep.Add(report.Finding{Property: "C09", Kind: "violation", Clause: clause, Input: in, Expected: exp, Actual: act})
	}
	distinct := map[string]bool{}
	sizes := []uint32{0x8000, 0x8001, 0x10000, 0x28000, 0x8200, 0x81FF, 0x8201, 0xFFFF, 0x10200, 0x18200, 0x8003, 0x28001}
	for i := 0; i < n; i++ {
		b := genHeaderBytes(r, rep)
		hx := hex.EncodeToString(b)
		// -- property oracle on the real code
		gp := goParse(b)
		if op := oracleParse(b); gp != op {
			addViolation("fields decoded little-endian from their documented addresses / version rule (Go vs documented layout)", "hdr parse "+hx, op, gp)
		}
		gs := goSer(b)
		if sb, err := hex.DecodeString(gs); err != nil || len(sb) != 80 {
			addViolation("serialising a parsed header yields 80 bytes", "hdr ser "+hx, "80 bytes", gs)
		} else if goParse(sb) != gp {
			addViolation("serialise(parse(b)) parses back to an identical header", "hdr ser "+hx, gp, goParse(sb))
		}
		// single-byte perturbation: exactly the covering field changes (outside the two version-deciding bytes)
		k := r.N(80)
		b2 := append([]byte{}, b...)
		b2[k] ^= byte(1 + r.N(255))
		if k != 0x2A && k != 0x24 {
			p1, p2 := strings.Fields(gp), strings.Fields(goParse(b2))
			changed := []string{}
			for j := range p1 {
				if j < len(p2) && p1[j] != p2[j] {
					changed = append(changed, strings.SplitN(p1[j], "=", 2)[0])
				}
			}
			want := ""
			for _, f := range documentedFields {
				if k >= f.off && k < f.off+f.size {
					want = f.name
				}
			}
			v1 := strings.HasPrefix(gp, "v=1 ")
			ok := len(changed) == 1 && changed[0] == want
			if v1 && k < 0x10 {
				ok = len(changed) == 0 // extended fields are reported as zero for version 1
			}
			if !ok {
				addViolation("changing one header byte changes exactly the field covering it", fmt.Sprintf("hdr parse %s (byte %#x flipped to %02x)", hx, k, b2[k]), want, strings.Join(changed, ","))
			}
			distinct[fmt.Sprintf("flip/%s/%v", want, v1)] = true
		}
		reqs = append(reqs, "hdr parse "+hx, "hdr ser "+hx)
		wants = append(wants, gp, gs)
		if i%10 == 0 {
			// short inputs: binary.Read must fail
			short := b[:r.N(80)]
			shx := hex.EncodeToString(short)
			if shx == "" {
				shx = "-"
			}
			reqs = append(reqs, "hdr parse "+shx)
			wants = append(wants, goParse(short))
			rep.Count("header: short input")
		}
		if i%3 == 0 {
			// re-parse on the same objects: an earlier image whose version-deciding bytes differ
			a := genHeaderBytes(r, rep)
			if msg := reparseDiffers(a, b); msg != "" {
				addViolation("parsing depends on an earlier parse by the same object (a fresh object parses the same bytes differently)", fmt.Sprintf("hdr reparse %s then %s", hex.EncodeToString(a), hx), "as a fresh object", msg)
			}
			rep.Count("header: re-parse on the same object")
		}
		if i%3 == 1 {
			// Header.ReadHeader on a reader standing mid-stream inside a larger buffer (also: the whole image, seeked to the header)
			pre, suf := 1+r.N(0x120), r.N(0x60)
			switch r.N(8) {
			case 0:
				pre, suf = 0x7FB0, 0
			case 1:
				pre, suf = 0xFFB0, 0x8000*r.N(2)
			case 2:
				pre = []int{1, 15, 16, 0x4F, 0x50, 0x51, 0x100, 0x200}[r.N(8)]
			}
			how := r.N(len(positionHow))
			sd := uint64(r.N(1 << 20))
			in := fmt.Sprintf("hdr parse-at prefix=%#x suffix=%#x positioned-by=%q bg=%x %s", pre, suf, positionHow[how], sd, hx)
			if got := goParseAt(b, pre, suf, how, sd); got != gp {
				addViolation("Header.ReadHeader on a reader positioned mid-stream decodes the 80 bytes at the reader's position (same as a fresh reader over them)", in, gp, got)
			}
			rep.Count("header: ReadHeader mid-stream, " + positionHow[how])
			distinct[fmt.Sprintf("parse-at/%d/%v", how, pre >= 0x7FB0)] = true
			if i%9 == 1 {
				// too few bytes left after the position: must fail like a fresh short reader
				cut := r.N(80)
				if got, want := goParseAt(b[:cut], pre, 0, how, sd), goParse(b[:cut]); got != want {
					// the property does not speak about short inputs: a difference from the fresh short reader is a broken correspondence, not a violation
					rep.Add(report.Finding{Property: "C09", Kind: "disagreement", Clause: "Header.ReadHeader on a reader positioned mid-stream with fewer than 80 bytes left behaves like a fresh short reader",
						Input: fmt.Sprintf("hdr parse-at prefix=%#x suffix=0 positioned-by=%q bg=%x %s", pre, positionHow[how], sd, hex.EncodeToString(b[:cut])), Expected: want, Actual: got})
				}
				rep.Count("header: ReadHeader mid-stream, short")
			}
			// Header.WriteHeader into a writer that already holds bytes
			wpre, kind := 1+r.N(0x90), r.N(3)
			consumed, spare := 0, []int{0, 1, 79, 80, 81, 200}[r.N(6)]
			if r.Chance(40) {
				consumed = r.N(wpre + 1)
			}
			if sb, err := hex.DecodeString(gs); err == nil {
				out, guardOK, ok := goSerInto(b, wpre, consumed, spare, kind, sd)
				c := consumed
				want := append(append([]byte{}, hashBytes(sd, wpre)[c:]...), sb...)
				win := fmt.Sprintf("hdr ser-into held=%#x consumed=%#x spare-cap=%d kind=%d bg=%x %s", wpre, consumed, spare, kind, sd, hx)
				if !ok {
					addViolation("Header.WriteHeader into a writer that already holds bytes completes", win, "no error", "error")
				} else if !bytes.Equal(out, want) {
					addViolation("Header.WriteHeader appends exactly the 80 bytes a fresh writer receives, after the bytes the writer already holds", win, hex.EncodeToString(want), hex.EncodeToString(out))
				} else if !guardOK {
					addViolation("Header.WriteHeader changes nothing outside the bytes it appends", win, "bytes around the buffer window unchanged", "changed")
				}
				rep.Count(fmt.Sprintf("header: WriteHeader into a holding writer, kind %d", kind))
			}
		}
		if i%4 == 2 {
			// ROM entry points over images of irregular sizes, plain or as a window inside a larger array
			size := irregularSize(r)
			lead, trail, capLim := 0, 0, false
			if r.Chance(40) {
				lead, trail, capLim = r.N(0x300), r.N(0x300), r.Bool()
			}
			sd := uint64(r.N(1 << 20))
			fk := r.N(80)
			ft := r.U8()
			if r.Chance(30) {
				fk = []int{0x24, 0x2A, 0x27, 0x25}[r.N(4)]
				ft = []byte{0, 0x33, 0x20, 8}[r.N(4)]
			}
			alt := r.Chance(25)
			in := fmt.Sprintf("hdr rom-oracle size=%#x lead=%#x trail=%#x cap-limited=%v bg=%x flip=$%04X:=%02x alt-offset=%v %s", size, lead, trail, capLim, sd, 0x7FB0+fk, ft, alt, hx)
			for _, f := range romOracle(size, lead, trail, capLim, sd, b, fk, ft, alt) {
				addViolation(f[0], in, f[1], f[2])
			}
			rep.Count(fmt.Sprintf("header: rom image size mod 32 KiB = %s", sizeClass(size)))
			distinct[fmt.Sprintf("rom-oracle/%s/%v", sizeClass(size), lead > 0)] = true
		}
		if i%4 == 0 {
			sz := sizes[r.N(len(sizes))]
			sd := uint32(r.N(8))
			bb := genHeaderBytes(r, rep)
			if r.Chance(30) {
				bb = b
			}
			reply, rt := goRomW(sz, sd, b, bb)
			rep.Count(fmt.Sprintf("header: romw image size %#x", sz))
			if historyDependent {
				addViolation("WriteHeader's result depends on earlier calls on the same ROM object (a fresh ROM with the same Header and image writes different bytes)", fmt.Sprintf("hdr romw %x %x %s %s", sz, sd, hx, hex.EncodeToString(bb)), "same bytes as a fresh object", "different bytes")
			}
			if !rt {
				addViolation("ReadHeader then WriteHeader leaves the image byte-for-byte unchanged", fmt.Sprintf("hdr romw %x %x %s %s", sz, sd, hx, hx), "image unchanged", "image changed")
			}
			reqs = append(reqs, fmt.Sprintf("hdr romw %x %x %s %s", sz, sd, hx, hex.EncodeToString(bb)))
			wants = append(wants, reply)
			distinct[fmt.Sprintf("romw/%x/%s", sz, reply[:6])] = true
		}
		distinct["parse/"+gp[:3]+fmt.Sprint(b[0]&3)] = true
	}
	d, err := drv.Start(modelDrv)
	if err != nil {
		rep.Add(report.Finding{Property: "C09", Kind: "disagreement", Clause: "model driver unavailable", Detail: err.Error()})
	} else {
		defer d.Close()
		got, err := d.Batch(reqs)
		if err != nil {
			rep.Add(report.Finding{Property: "C09", Kind: "disagreement", Clause: "model driver failed", Detail: err.Error()})
		}
		for i := range got {
			if i%1777 == 0 {
				rep.Sample(map[string]string{"request": reqs[i], "go": wants[i], "lean": got[i]})
			}
			if got[i] != wants[i] {
				rep.Add(report.Finding{Property: "C09", Kind: "disagreement", Clause: "Lean HeaderModel vs snes.Header / snes.ROM", Input: reqs[i], Expected: got[i] + " (model)", Actual: wants[i] + " (go)"})
			}
		}
	}
	rep.Evaluations = int64(len(reqs)) + int64(n)*3 + int64(n/3)*2 + int64(n/4)*6
	rep.Distinct = int64(len(distinct))
	rep.Rule = "random 80-byte headers biased to versions 1/2/3 (and both markers), zero / non-zero extended area, half of them with fields that look like real data (ASCII text of every length padded with spaces / zeros / $FF in title, maker and game code, whole fields of $20 / $00 / $FF, typical enumeration bytes, matching complement, vectors into bank 0), single-byte perturbations of all 80 positions, short inputs, " +
		"images of 32 KiB, 32 KiB+1, 64 KiB, 160 KiB and irregular sizes (n*32 KiB +1, -1, +512, +511/513, +2^k, odd) with the header parsed from another byte string written in; " +
		"Header.ReadHeader on readers positioned mid-stream inside larger buffers (six ways of positioning, whole images seeked to the header, short remainders), Header.WriteHeader into writers already holding " +
		"(partly consumed) bytes or windows with spare capacity, ROM entry points on images given as windows inside larger arrays, one image byte changed then re-read, HeaderOffset moved to $FFB0; " +
		"compared: every exported field, the version, the serialised bytes, the whole image and the bytes around it, ROM.Contents identity. " +
		"distinct_nontrivial = distinct (operation, version, perturbed field / image size) classes"
	rep.Emit()
}
